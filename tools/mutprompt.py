#!/usr/bin/env python3
"""print the prompt given to an independent mutation sub-agent for property <id> (it sees only the property text)"""
import json, sys
pid = sys.argv[1]
for l in open('/verif/properties.jsonl'):
    p = json.loads(l)
    if p['id'] == pid:
        break
rnd = 5 if '--round5' in sys.argv else 4 if '--round4' in sys.argv else (3 if '--round3' in sys.argv else (2 if '--round2' in sys.argv else 1))
d = {1: '/tmp/mut/', 2: '/tmp/mut2/', 3: '/tmp/mut3/', 4: '/tmp/mut4/', 5: '/tmp/mut5/'}[rnd] + pid.lower()
already = ''
if rnd >= 2:
    import glob, os
    prev = []
    for m in sorted(glob.glob('/verif/seeded/%s-mut*/meta.json' % pid)):
        try:
            prev.append(' - ' + ' '.join((json.load(open(m)).get('summary') or '').split())[:400])
        except Exception:
            pass
    already = '\nALREADY DONE by an earlier round (do NOT repeat these or trivial variants of them; pick different functions, different sentences of the property, different mechanisms):\n' + '\n'.join(prev) + '\n'
print(f"""You are helping to test a verification effort that you know nothing about and must not look at (do not read anything under /verif or /work). Your working directory {d} is a scratch git worktree of the Go library golang/geo (Google's S2 geometry library, Go port). Offline sandbox: before any go command run `export GOFLAGS=-mod=mod GOPROXY=off GOSUMDB=off GOTOOLCHAIN=local`. `go build ./... && go test ./...` passes on the unchanged tree (takes ~10 s).

PROPERTY {p['id']} — {p['title']}
Statement: {p['statement']}
It must hold: {p['quantifier']['text']}.
The mechanisms live mainly in: {', '.join(p['anchors']['files'])}.

{already}
TASK: produce TWO independent changes to the library's non-test source (each a small, realistic edit — the kind of regression, wrong refactoring, off-by-one, dropped special case, swapped argument, weakened constant or missing reset that a maintainer could plausibly introduce) such that each change BREAKS the property above, while the code still compiles and the ENTIRE existing test suite (`go test ./...`) still passes. Each change must need something specific to manifest — an unusual input, a boundary value, a particular multi-step sequence of operations, a particular interleaving, or two cooperating sites that each look fine alone — not something ordinary use would expose at once. The two changes should attack different sentences/mechanisms of the property.

For each change i in (1, 2) deliver, under {d}/_out/change<i>/ :
  - patch.diff : `git diff` against HEAD (paths relative to the repo root; must apply with `git apply patch.diff` on a clean tree);
  - demo_test.go : a Go test file (state in meta.json the package directory it must be copied into, e.g. s2/, and the exact `go test -run ... ` command) that FAILS with the change applied and PASSES without it — it must exercise only the public or package-internal API and demonstrate the property violation concretely (print the offending input);
  - meta.json : {{"property": "{p['id']}", "summary": "...what the change does and which sentence of the property it breaks...", "needs": "...what is required for it to manifest...", "files_changed": [...], "demo_pkg_dir": "...", "demo_cmd": "..."}}.
VERIFY each yourself before delivering: with the patch applied `go build ./...` succeeds, `go test ./...` passes completely WITHOUT the demo file, and the demo FAILS; with the patch reverted the demo PASSES. If a candidate change makes an existing test fail, discard it and find another. At the end leave the worktree clean (`git checkout -- .`, remove copied demo files) keeping only the _out/ directory. Final answer: 5 lines per change (what, where, why tests miss it, how the demo shows it).""")
