#!/bin/sh
# seed_round2.sh <cxx> [extra props] - verifies $MUTDIR/<cxx>/_out/change{1,2} (default /tmp/mut2) as <CXX>-mut{3,4} (OFFSET=2; round 3: MUTDIR=/tmp/mut3 OFFSET=4) in scratch mode
cd "$(dirname "$0")/.."
c=$1; C=$(echo $c | tr c C); shift
extra=""; [ -n "$1" ] && extra="--props $1"
for i in 1 2; do
  id=$C-mut$((i+${OFFSET:-2}))
  timeout 5000 python3 tools/seed_verify.py ${MUTDIR:-/tmp/mut2}/$c/_out/change$i $id --scratch $extra > build/seed_$id.out 2>&1
  python3 - "$id" <<'PY'
import json,sys
sid=sys.argv[1]
t=open('build/seed_%s.out'%sid).read()
try:
    j=json.loads(t[t.index('{\n "id"'):])
    print(sid,'confirmed=%s'%j['confirmed'],j['why_not'] or '')
    for p,c in j['checks'].items(): print('   ',p,'FLAGGED' if c['flagged'] else 'MISSED','+input' if c['failing_input_found'] else '',c['failing_kinds'][:4],c['broken'][:2],c['wall_s'])
except Exception as e:
    print(sid,'ERR',t[-400:])
PY
done
