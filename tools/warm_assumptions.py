#!/usr/bin/env python3
"""warm_assumptions.py - after a build, capture `Print Assumptions` of every Props/Cxx.v once (in parallel) into the
cache that tools/check.py reads (build/assumptions_<Cxx>.json, keyed by the mtime of the compiled Props file), so that
the first run of each check does not have to re-run coqc on its Props file. Purely an optimisation: check.py
recomputes the entry whenever the stamp does not match."""
import glob, json, os, subprocess
from concurrent.futures import ThreadPoolExecutor
V = os.path.dirname(os.path.dirname(os.path.abspath(__file__)))
COQ, BUILD = os.path.join(V, "coq"), os.path.join(V, "build")
W = "-notation-overridden,-deprecated-hint-without-locality,-deprecated-instance-without-locality,-ambiguous-paths,-deprecated-syntactic-definition"

def one(prop):
    vo = os.path.join(COQ, "theories", "Props", prop + ".vo")
    if not os.path.exists(vo):
        return prop, "no .vo"
    stamp = "%d" % os.stat(vo).st_mtime_ns
    cache = os.path.join(BUILD, "assumptions_%s.json" % prop)
    try:
        if json.load(open(cache)).get("stamp") == stamp:
            return prop, "cached"
    except Exception:
        pass
    os.makedirs(os.path.join(BUILD, "assum"), exist_ok=True)
    try:
        p = subprocess.run(["coqc", "-Q", "theories", "Geo", "-w", W, "-o", os.path.join(BUILD, "assum", prop + ".vo"),
                            "theories/Props/%s.v" % prop], cwd=COQ, stdout=subprocess.PIPE, stderr=subprocess.STDOUT, text=True, timeout=1500)
    except subprocess.TimeoutExpired:
        return prop, "timeout"
    if p.returncode == 0:
        json.dump({"stamp": stamp, "raw": p.stdout}, open(cache, "w"))
    return prop, "rc=%d" % p.returncode

props = sorted(os.path.basename(f)[:-2] for f in glob.glob(os.path.join(COQ, "theories", "Props", "C*.v")))
with ThreadPoolExecutor(max_workers=10) as ex:
    for prop, st in ex.map(one, props):
        print("assumptions", prop, st)
