#!/usr/bin/env python3
"""seed_verify.py <delivered_dir> <seed_id> [--props C16,C03]

1. confirms a delivered breaking change in a scratch worktree of /repo (outside /repo and /verif): the patch
   applies, `go build ./...` and the whole test suite pass with it, the demonstration FAILS with it and PASSES
   without it;
2. stores it as /verif/seeded/<seed_id>/ (patch.diff, demo file, meta.json);
3. applies it to /repo, runs the quick check of the property (and of any extra properties given), records
   whether each check flags it (exit 1 + VIOLATION line, and whether a failing input was found), and undoes it
   (git -C /repo checkout -- .).
"""
import json, os, shutil, subprocess, sys, time

VERIF = os.path.dirname(os.path.dirname(os.path.abspath(__file__)))
ENV = dict(os.environ, GOFLAGS="-mod=mod", GOPROXY="off", GOSUMDB="off", GOTOOLCHAIN="local")

def sh(cmd, cwd=None, timeout=1800):
    p = subprocess.run(cmd, cwd=cwd, env=ENV, shell=isinstance(cmd, str), stdout=subprocess.PIPE, stderr=subprocess.STDOUT, text=True, timeout=timeout)
    return p.returncode, p.stdout

def run_check(p, env):
    t0 = time.time()
    pr = subprocess.run(["python3", os.path.join(VERIF, "tools", "check.py"), p, "--tier", "quick"], cwd=VERIF, env=env,
                        stdout=subprocess.PIPE, stderr=subprocess.STDOUT, text=True, timeout=3000)
    rc, out = pr.returncode, pr.stdout
    viol = [l for l in out.splitlines() if l.startswith("VIOLATION")]
    return {"exit": rc, "flagged": rc == 1 and bool(viol),
            "failing_input_found": bool(viol) and "no-failing-input-found" not in viol[0],
            "broken": [l for l in out.splitlines() if l.startswith("BROKEN")][:6],
            "failing_kinds": sorted(set(l.split("]")[0][len("FAILING INPUT ["):] for l in out.splitlines() if l.startswith("FAILING INPUT [")))[:8],
            "wall_s": round(time.time() - t0, 1)}

def main():
    src, sid = sys.argv[1], sys.argv[2]
    extra = []
    if "--props" in sys.argv:
        extra = sys.argv[sys.argv.index("--props") + 1].split(",")
    meta = json.load(open(os.path.join(src, "meta.json")))
    prop = meta["property"]
    demo_files = [f for f in os.listdir(src) if f.endswith("_test.go") or f.endswith(".go")]
    demo = demo_files[0]
    pkg = meta.get("demo_pkg_dir", "s2").strip("/")
    cmd = meta.get("demo_cmd", "go test ./%s -count=1 -run Demo" % pkg)
    cmd = cmd.split("#")[0].strip()
    if "&&" in cmd:  # e.g. "cp _out/... s2/ && go test ..." - the copy is done here
        cmd = [c.strip() for c in cmd.split("&&") if "go test" in c][-1]
        cmd = cmd[cmd.index("go test"):]  # drop leading VAR=value settings (the environment is set here)
    wt = "/tmp/seedcheck_%s" % sid
    sh(["git", "-C", "/repo", "worktree", "remove", "--force", wt]); shutil.rmtree(wt, ignore_errors=True)
    rc, out = sh(["git", "-C", "/repo", "worktree", "add", "--detach", wt, "HEAD"])
    res = {"applies": False}
    try:
        rc, out = sh(["git", "apply", os.path.abspath(os.path.join(src, "patch.diff"))], cwd=wt)
        res["applies"] = rc == 0
        if rc != 0:
            res["apply_error"] = out[-500:]
        else:
            rc, out = sh("go build ./... && go vet ./... >/dev/null 2>&1; go build ./...", cwd=wt); res["builds"] = rc == 0
            rc, out = sh("go test -count=1 ./...", cwd=wt)
            if rc != 0:
                # the pinned suite seeds its random tests from the clock (TestRectCentroidFullRange fails about once in
                # sixty runs on the unchanged tree): a failure must repeat to count
                res["suite_first_failure"] = [l for l in out.splitlines() if l.startswith("--- FAIL")][:5]
                rc, out = sh("go test -count=1 ./...", cwd=wt)
            res["suite_passes_with_change"] = rc == 0
            if rc != 0: res["suite_output"] = out[-800:]
            shutil.copy(os.path.join(src, demo), os.path.join(wt, pkg, "zz_seed_" + demo))
            rc, out = sh(cmd, cwd=wt); res["demo_fails_with_change"] = rc != 0; res["demo_output_with"] = out[-600:]
            sh(["git", "apply", "-R", os.path.abspath(os.path.join(src, "patch.diff"))], cwd=wt)
            rc, out = sh(cmd, cwd=wt); res["demo_passes_without_change"] = rc == 0
            if rc != 0: res["demo_output_without"] = out[-600:]
    finally:
        sh(["git", "-C", "/repo", "worktree", "remove", "--force", wt]); shutil.rmtree(wt, ignore_errors=True)
    ok = res.get("applies") and res.get("builds") and res.get("suite_passes_with_change") and res.get("demo_fails_with_change") and res.get("demo_passes_without_change")
    res["confirmed"] = bool(ok)
    dst = os.path.join(VERIF, "seeded", sid)
    os.makedirs(dst, exist_ok=True)
    shutil.copy(os.path.join(src, "patch.diff"), os.path.join(dst, "patch.diff"))
    shutil.copy(os.path.join(src, demo), os.path.join(dst, demo))
    checks = {}
    scratch = "--scratch" in sys.argv
    if ok and scratch:
        # same as below, but the change is applied to a scratch worktree of /repo's HEAD and the check is pointed at it
        # (VERIF_REPO), so that other runs reading /repo are not disturbed
        sr = "/tmp/seedrepo_%s" % sid
        sh(["git", "-C", "/repo", "worktree", "remove", "--force", sr]); shutil.rmtree(sr, ignore_errors=True)
        sh(["git", "-C", "/repo", "worktree", "add", "--detach", sr, "HEAD"])
        try:
            rc, out = sh(["git", "apply", os.path.join(dst, "patch.diff")], cwd=sr)
            for p in [prop] + extra:
                checks[p] = run_check(p, dict(ENV, VERIF_REPO=sr))
        finally:
            sh(["git", "-C", "/repo", "worktree", "remove", "--force", sr]); shutil.rmtree(sr, ignore_errors=True)
    elif ok:
        # /repo must have no tracked modifications
        rc, out = sh("git -C /repo status --porcelain | grep -v '^??' | grep -v 's2/export_verif_' || true")
        if out.strip():
            print("REFUSING: /repo has tracked modifications:\n" + out); sys.exit(2)
        try:
            rc, out = sh(["git", "-C", "/repo", "apply", os.path.join(dst, "patch.diff")])
            for p in [prop] + extra:
                checks[p] = run_check(p, ENV)
        finally:
            sh(["git", "-C", "/repo", "apply", "-R", os.path.join(dst, "patch.diff")])  # undo exactly this change
    meta_out = {"property": prop, "source": "independent sub-agent given only the property text (tools/mutprompt.py)",
                "summary": meta.get("summary"), "needs": meta.get("needs"), "files_changed": meta.get("files_changed"),
                "demo_pkg_dir": pkg, "demo_cmd": cmd, "verification": {k: v for k, v in res.items() if not k.startswith("demo_output") and k != "suite_output"},
                "what_i_ran": "tools/seed_verify.py: scratch worktree of /repo (apply, go build ./..., go test ./..., demo with/without); then " + ("the patch applied to a second scratch worktree of /repo HEAD and tools/check.py <id> --tier quick pointed at it (VERIF_REPO)" if scratch else "git -C /repo apply, tools/check.py <id> --tier quick, git -C /repo apply -R"),
                "checks": checks}
    json.dump(meta_out, open(os.path.join(dst, "meta.json"), "w"), indent=1)
    print(json.dumps({"id": sid, "confirmed": res["confirmed"], "checks": checks, "why_not": {k: v for k, v in res.items() if v is False}}, indent=1))

if __name__ == "__main__":
    main()
