#!/usr/bin/env python3
"""Regenerate MANIFEST.json from tools/props/<Cxx>.json (one check per property that has a props file
and a Props/<Cxx>.v), keeping every other property under not_applicable with a reason."""
import json, os, re, glob, subprocess
V = os.path.dirname(os.path.dirname(os.path.abspath(__file__)))
props = [json.loads(l) for l in open(os.path.join(V, "properties.jsonl"))]
hooks = []
try:
    out = subprocess.check_output(["git", "-C", "/repo", "log", "--format=%h %s"], text=True)
    hooks = [l.split()[0] for l in out.splitlines() if l.split(" ", 1)[1].startswith("verif hooks")]
except Exception:
    pass
m = {
 "version": 1,
 "setup_cmd": "sh tools/setup.sh",
 "hooks": {"guard": "verif",
           "enable": "go build -tags verif (the harness module replaces github.com/golang/geo by /repo); hook files s2/hooks_verif.go, s2/export_verif_*.go are //go:build verif, s2/hooks_noverif.go provides the empty bodies otherwise",
           "baseline_off_cmd": "cd /repo && GOFLAGS=-mod=mod GOPROXY=off GOSUMDB=off go test -json -vet=off -count=1 -timeout 25m ./...",
           "source_commits": hooks, "add_only": True},
 "engines": [{"name": "coq-proof", "path": "coq/", "serves_properties": [],
              "kind_free_text": "Coq 8.16.1 development: Gen/*.v regenerated from /repo by the Go->Gallina translator harness/cmd/extract on every run; hand-written Model/*.v; Proofs/*.v; Props/*.v (statements only); correspondence by vm_compute of cases files written by the per-property observers harness/cmd/obs/<id>; driver tools/check.py"}],
 "checks": [], "not_applicable": [],
 "notes": "Every check = tools/check.py <id>: rebuild harness from /repo's working tree, re-translate Go->Gallina, re-check all theorems of the property (make), run the implementation and compare with the model inside coqc (correspondence), search the implementation for a failing input with an independent oracle; a broken proof/translation/correspondence without a failing input ends the VIOLATION line with no-failing-input-found. See DESIGN.md 2A and 11.",
}
for p in props:
    pid = p["id"]
    cfgp = os.path.join(V, "tools", "props", pid + ".json")
    propsv = os.path.join(V, "coq", "theories", "Props", pid + ".v")
    if not (os.path.exists(cfgp) and os.path.exists(propsv)):
        m["not_applicable"].append({"property_id": pid, "reason": "check not yet built in this tree (the technique applies; see DESIGN.md section 5/11)"})
        continue
    cfg = json.load(open(cfgp))
    if cfg.get("hold"):
        m["not_applicable"].append({"property_id": pid, "reason": "check built but temporarily not registered: " + cfg["hold"]})
        continue
    thms = re.findall(r"^\s*Theorem\s+([A-Za-z0-9_']+)", open(propsv).read(), re.M)
    hyp = cfg.get("hypotheses", [])
    text = cfg.get("manifest_text") or (
        "%d Coq theorems (Props/%s.v) over a model %s; %s%s" % (
            len(thms), pid,
            "translated from the Go source on every run (Gen units %s)" % ", ".join(cfg.get("units", [])) if cfg.get("units") else "hand-written and tied by correspondence",
            ("carried hypotheses: " + "; ".join(hyp) + ". ") if hyp else "no hypotheses carried. ",
            ("Partial: " + cfg["partial"]) if cfg.get("partial") else ""))
    note = cfg.get("manifest_note") or ("Trusted: Coq kernel + vm_compute (primitive floats/ints), axioms listed per run in the evidence (Print Assumptions), the Go->Gallina translator and Base/GoPrim.v, the observer/correspondence harness (differential testing, not proof); " + "; ".join(cfg.get("assumptions", [])))
    m["checks"].append({
        "property_id": pid,
        "quick_cmd": "python3 tools/check.py %s --tier quick" % pid,
        "thorough_cmd": "python3 tools/check.py %s --tier thorough" % pid,
        "evidence_file": "evidence/%s.json" % pid,
        "replay_cmd_template": "python3 tools/check.py %s --replay {path}" % pid,
        "engine": "coq-proof",
        "level_claimed": {"category": "proof", "text": text[:1500], "design_ref": "DESIGN.md section 5 %s and section 11" % pid},
        "level_note": note[:1500],
        "technique": cfg.get("technique", "machine-checked proof in Coq over a model translated from source / hand-modelled, tied by per-run correspondence and failing-input search"),
    })
    m["engines"][0]["serves_properties"].append(pid)
json.dump(m, open(os.path.join(V, "MANIFEST.json"), "w"), indent=1)
print("checks:", [c["property_id"] for c in m["checks"]], "n/a:", len(m["not_applicable"]))
