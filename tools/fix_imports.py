#!/usr/bin/env python3
"""after a merge moved a translated function into another Gen unit: compile the given .v files and, while coqc
reports 'The reference <gen name> was not found', add the Gen unit defining it to the file's imports."""
import re, subprocess, sys, glob, os
COQ = os.path.join(os.path.dirname(os.path.dirname(os.path.abspath(__file__))), "coq")
def units_defining(name):
    out = []
    for f in glob.glob(os.path.join(COQ, "theories/Gen/*.v")):
        if re.search(r"^(Definition|Record) %s\b" % re.escape(name), open(f).read(), re.M) or re.search(r"\b%s\b :" % re.escape(name), open(f).read()):
            out.append(os.path.basename(f)[:-2])
    return out
for path in sys.argv[1:]:
    rel = os.path.relpath(os.path.abspath(path), COQ)
    for _ in range(12):
        r = subprocess.run(["make", rel[:-2] + ".vo"], cwd=COQ, capture_output=True, text=True)
        if r.returncode == 0:
            print("ok", rel); break
        m = re.search(r'File "\./(theories/[^"]+)".*?\n(?:.*\n)?Error:\s+The reference (\S+) was not found', r.stdout + r.stderr)
        if not m:
            print("other error in", rel, (r.stdout + r.stderr)[-600:]); break
        name = m.group(2)
        path = os.path.join(COQ, m.group(1))  # the file that actually failed (possibly a dependency)
        us = units_defining(name)
        if not us:
            print("no Gen unit defines", name); break
        text = open(path).read()
        line = "From Geo Require Import Gen.%s.  (* %s *)\n" % (us[0], name)
        # insert after the last 'From Geo Require' line
        idx = [i for i, l in enumerate(text.splitlines(True)) if l.startswith("From Geo Require") or l.startswith("Require Import") or l.startswith("From Coq Require")]
        lines = text.splitlines(True)
        lines.insert(idx[-1] + 1 if idx else 0, line)
        open(path, "w").write("".join(lines)); print("added", line.strip(), "to", rel)
