#!/bin/sh
# Build the framework from files on disk only (offline): harness binaries, generated
# Coq files from /repo's current source, and a full .vo build of the development.
set -e
cd "$(dirname "$0")/.."
export GOFLAGS=-mod=mod GOPROXY=off GOSUMDB=off GOTOOLCHAIN=local CGO_ENABLED=0
mkdir -p build/bin evidence replays coq/theories/Gen
cp /repo/go.sum harness/go.sum
(cd harness && go build -tags verif -o ../build/bin/ ./cmd/...) || echo "setup: some harness binaries did not build (reported by the affected checks)"
build/bin/extract -repo /repo -cfg harness/extract.d -out coq/theories/Gen -report build/extract_report.json
# -k: a proof that no longer compiles must not stop the setup; the check of its property reports it
(cd coq && make Makefile.coq >/dev/null && timeout 3000 make -f Makefile.coq -k -j16 all) || echo "setup: some Coq files did not compile (reported by the affected checks)"
# optimisation only: capture Print Assumptions of every Props file once, in parallel (check.py re-does it on a stamp mismatch)
python3 tools/warm_assumptions.py || true
echo setup done
