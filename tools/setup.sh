#!/bin/sh
# Build the framework from files on disk only (offline): harness binaries, generated
# Coq files from /repo's current source, and a full .vo build of the development.
set -e
cd "$(dirname "$0")/.."
export GOFLAGS=-mod=mod GOPROXY=off GOSUMDB=off GOTOOLCHAIN=local CGO_ENABLED=0
mkdir -p build/bin evidence replays coq/theories/Gen
cp /repo/go.sum harness/go.sum
(cd harness && go build -tags verif -o ../build/bin/ ./cmd/...)
build/bin/extract -repo /repo -cfg harness/extract.d -out coq/theories/Gen -report build/extract_report.json
(cd coq && timeout 3000 make -j16 all)
echo setup done
