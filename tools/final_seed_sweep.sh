#!/bin/sh
# final_seed_sweep.sh : re-verify EVERY stored seeded change against the current main and /repo HEAD, in scratch mode,
# spread over three worktrees of this repository (each with its own Coq build), and copy the meta.json files back.
# Usage: sh tools/final_seed_sweep.sh [C08 C13 ...]  (from /verif; all properties by default: about 2 h on 16 cores)
cd "$(dirname "$0")/.."
V=$(pwd)
WTS="/work/sweep /work/clean /work/sw3"
PROPS="$*"
[ -z "$PROPS" ] && PROPS="C01 C02 C03 C04 C05 C06 C07 C08 C09 C10 C11 C12 C13 C14 C15 C16 C17 C18 C19 C20"
i=0
for wt in $WTS; do
  if [ ! -d $wt ]; then git worktree add --detach $wt HEAD -f >/dev/null 2>&1; fi
  (cd $wt && git checkout -q -- . && git checkout -q --detach main && sh tools/setup.sh > $wt.setup.log 2>&1)
done
n=0
for wt in $WTS; do
  n=$((n+1))
  ( cd $wt
    rm -f build/seed_sweep.log
    k=0
    for p in $PROPS; do
      k=$((k+1))
      if [ $(( (k % 3) + 1 )) -ne $n ]; then continue; fi
      ids=$(ls seeded | grep "^$p-")
      SEED_MODE=--scratch sh tools/seed_sweep.sh $ids
    done
    echo SWEEPDONE ) > $wt.sweep.log 2>&1 &
done
wait
for wt in $WTS; do
  # only the seeds this worktree ran (its other meta.json files are the checkout's copies)
  for id in $(awk '{print $1}' $wt/build/seed_sweep.log); do [ -d $V/seeded/$id ] && cp $wt/seeded/$id/meta.json $V/seeded/$id/meta.json; done
  cat $wt/build/seed_sweep.log
done > $V/build/final_seed_sweep.log
echo FINALSWEEPDONE
