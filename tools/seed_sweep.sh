#!/bin/sh
# seed_sweep.sh [ids...] - re-verifies stored seeded changes against the current /repo HEAD and the current checks
# (serial: each seed is applied to /repo, checked, and undone). Writes build/seed_sweep.log.
cd "$(dirname "$0")/.."
mkdir -p build
ids="$*"
[ -z "$ids" ] && ids=$(ls seeded)
for id in $ids; do
  props=$(python3 -c "
import json,sys
m=json.load(open('seeded/$id/meta.json'))
ks=[k for k in (m.get('checks') or {}) if k!=m['property']]
print(','.join(ks))")
  rm -rf /tmp/seedsrc_$id; cp -r seeded/$id /tmp/seedsrc_$id
  if [ -n "$props" ]; then extra="--props $props"; else extra=""; fi
  timeout 5000 python3 tools/seed_verify.py /tmp/seedsrc_$id $id $extra $SEED_MODE > build/seed_$id.out 2>&1
  rm -rf /tmp/seedsrc_$id
  python3 - "$id" <<'PY' | tee -a build/seed_sweep.log
import json,sys
sid=sys.argv[1]
t=open('build/seed_%s.out'%sid).read()
try:
    j=json.loads(t[t.index('{\n "id"'):])
    s=' '.join('%s:%s%s'%(p,'FLAG' if c['flagged'] else 'miss','+input' if c['failing_input_found'] else '') for p,c in j['checks'].items())
    print(sid,'confirmed=%s'%j['confirmed'],s,j['why_not'] or '')
except Exception as e:
    print(sid,'ERR',t[-300:].replace('\n',' '))
PY
done
