#!/bin/sh
# merge_branch.sh <branch> <message> : commit pending evidence first (a dirty tree makes git merge abort), merge, resolve routine conflicts
cd "$(dirname "$0")/.."
b=$1; msg=$2
if [ -n "$(git status --porcelain)" ]; then git add -A; git commit -qm "evidence refresh before merging $b"; fi
git merge "$b" -m "$msg" >/tmp/merge_$b.log 2>&1 || { python3 tools/resolve_merge.py >>/tmp/merge_$b.log 2>&1; }
if git status --porcelain | grep -qE '^(UU|AA|U.|.U) '; then echo "UNRESOLVED:"; git status --porcelain | grep -E '^(UU|AA|U.|.U) '; exit 1; fi
if [ -n "$(git status --porcelain)" ]; then git add -A; git commit -qm "$msg"; fi
git merge-base --is-ancestor "$b" HEAD && echo "merged $b at $(git rev-parse --short HEAD)" || { echo "NOT MERGED $b"; exit 1; }
