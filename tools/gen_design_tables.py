#!/usr/bin/env python3
"""gen_design_tables.py - rewrites the generated parts of DESIGN.md (between <!-- BEGIN:x --> / <!-- END:x -->)
from what the machinery itself recorded: evidence/*.json (theorems, hypotheses carried, case counts),
KNOWN_FINDINGS.jsonl and seeded/*/meta.json (what tools/seed_verify.py ran and saw)."""
import json, os, re, glob

V = os.path.dirname(os.path.dirname(os.path.abspath(__file__)))

def short(s, n):
    s = " ".join((s or "").split())
    s = s.replace("|", "/")
    return s if len(s) <= n else s[: n - 1].rstrip() + "…"

def numbers():
    kf = [json.loads(l) for l in open(os.path.join(V, "KNOWN_FINDINGS.jsonl")) if l.strip()]
    rows = ["| id | theorems in Props (closed under the global context) | hypotheses still carried | [T] cases agreeing | [S] evaluations | known findings (kinds) | fixed |",
            "|---|---|---|---|---|---|---|"]
    for i in range(1, 21):
        pid = "C%02d" % i
        try:
            ev = json.load(open(os.path.join(V, "evidence", pid + ".json")))
        except Exception:
            continue
        c = ev.get("coverage", {})
        known = sorted(set(k["kind"] for k in kf if k["property"] == pid and k["status"] == "known"))
        fixed = sum(1 for k in kf if k["property"] == pid and k["status"] == "fixed")
        hyp = c.get("hypotheses_carried") or []
        rows.append("| %s | %d (%s) | %s | %s | %s | %s | %d |" % (
            pid, len(c.get("theorems", [])), c.get("theorems_closed_under_global_context", "-"),
            "; ".join(short(h, 70) for h in hyp) or "none",
            "%s/%s" % (c.get("correspondence_agree", "-"), c.get("correspondence_cases", "-")), c.get("evaluations", "-"),
            ", ".join("`%s`" % k for k in known) or "—", fixed))
    return "\n".join(rows)

def seeds():
    hist = {}
    hp = os.path.join(V, "tools", "seed_history.json")
    if os.path.exists(hp):
        hist = json.load(open(hp))
    rows = ["| seed | what it changes | confirmed (suite passes, demo fails with / passes without) | check → result on the current machinery | history |",
            "|---|---|---|---|---|"]
    for d in sorted(glob.glob(os.path.join(V, "seeded", "*"))):
        sid = os.path.basename(d)
        try:
            m = json.load(open(os.path.join(d, "meta.json")))
        except Exception:
            continue
        res = []
        for p, c in (m.get("checks") or {}).items():
            if c.get("flagged"):
                how = ", ".join("`%s`" % k for k in c.get("failing_kinds", [])[:3])
                br = "; ".join(short(b.replace("BROKEN ", ""), 60) for b in c.get("broken", [])[:1])
                res.append("%s: **flagged**%s%s%s" % (p, " with failing input " + how if c.get("failing_input_found") else " (no-failing-input-found)",
                                                       "; " if br else "", br))
            else:
                res.append("%s: not flagged" % p)
        rows.append("| %s | %s | %s | %s | %s |" % (sid, short(m.get("summary"), 230), "yes" if m.get("verification", {}).get("confirmed") else "NO",
                                                "<br>".join(res) or "not run", short(hist.get(sid, ""), 200)))
    return "\n".join(rows)

def main():
    p = os.path.join(V, "DESIGN.md")
    s = open(p).read()
    for name, fn in (("NUMBERS", numbers), ("SEEDS", seeds)):
        b, e = "<!-- BEGIN:%s -->" % name, "<!-- END:%s -->" % name
        if b in s and e in s:
            s = s[: s.index(b) + len(b)] + "\n" + fn() + "\n" + s[s.index(e):]
    open(p, "w").write(s)

if __name__ == "__main__":
    main()
