#!/usr/bin/env python3
"""check.py <Cxx> [--tier quick|thorough] [--seed N] [--replay path]

One run of one property's check (DESIGN.md section 2.4):
  1 rebuild the harness from /repo's working tree (tag verif)
  2 translator: regenerate coq/theories/Gen/*.v from the Go source
  3 make: Base, Gen, Model, Proofs, Props/<Cxx>.vo            [proof obligations]
  4 observe: run the implementation, write cases_*.v + obs.json [T] + [S]
  5 coqc every cases file, collect mismatches                   [T]
  6 on a broken obligation/correspondence: search with a larger budget for a failing input
  7 evidence/<Cxx>.json; KNOWN-FINDING lines; exit 0, or VIOLATION line and exit 1
"""
import argparse, fcntl, glob, hashlib, json, os, re, subprocess, sys, time
from concurrent.futures import ThreadPoolExecutor

VERIF = os.path.dirname(os.path.dirname(os.path.abspath(__file__)))
REPO = os.environ.get("VERIF_REPO", "/repo")
COQ = os.path.join(VERIF, "coq")
BUILD = os.path.join(VERIF, "build")
HARNESS = os.path.join(VERIF, "harness")
GOENV = dict(os.environ, GOFLAGS="-mod=mod", GOPROXY="off", GOSUMDB="off", GOTOOLCHAIN="local",
             CGO_ENABLED="0")

def sh(cmd, cwd=None, timeout=None, env=None):
    t0 = time.time()
    try:
        p = subprocess.run(cmd, cwd=cwd, env=env or GOENV, stdout=subprocess.PIPE, stderr=subprocess.STDOUT,
                           timeout=timeout, text=True, errors="replace")
        return p.returncode, p.stdout, time.time() - t0
    except subprocess.TimeoutExpired as e:
        out = e.stdout or ""
        if isinstance(out, bytes):
            out = out.decode(errors="replace")
        return 124, out + "\n[timeout]", time.time() - t0

def load_cfg(prop):
    with open(os.path.join(VERIF, "tools", "props", prop + ".json")) as f:
        return json.load(f)

def load_known():
    out = []
    p = os.path.join(VERIF, "KNOWN_FINDINGS.jsonl")
    if os.path.exists(p):
        for ln in open(p):
            ln = ln.strip()
            if ln and not ln.startswith("#"):
                out.append(json.loads(ln))
    return out

def theorem_at(vfile, line):
    """name of the Lemma/Theorem enclosing a line of a .v file"""
    name = None
    try:
        for i, ln in enumerate(open(vfile), 1):
            m = re.match(r"\s*(?:Local\s+|Global\s+)?(Lemma|Theorem|Corollary|Example|Definition|Fixpoint|Instance|Fact|Remark|Proposition)\s+([A-Za-z0-9_']+)", ln)
            if m:
                name = m.group(2)
            if i >= line:
                break
    except OSError:
        pass
    return name

def build_all(prop, cfg, log):
    """steps 1-3 under the build lock. Returns dict(broken=[...], extract_report=..., theorems=[...])"""
    os.makedirs(BUILD, exist_ok=True)
    os.makedirs(os.path.join(BUILD, "bin"), exist_ok=True)
    res = {"broken": [], "gen_ok": True}
    with open(os.path.join(BUILD, ".lock"), "w") as lk:
        fcntl.flock(lk, fcntl.LOCK_EX)
        # keep go.sum in step with /repo
        try:
            src = open(os.path.join(REPO, "go.sum")).read()
            dst = os.path.join(HARNESS, "go.sum")
            if not os.path.exists(dst) or open(dst).read() != src:
                open(dst, "w").write(src)
        except OSError:
            pass
        modargs = []
        if os.path.realpath(REPO) != "/repo":
            # point the harness build at another copy of golang/geo (mutation testing in a scratch copy)
            tag = hashlib.sha1(REPO.encode()).hexdigest()[:8]
            modf = os.path.join(BUILD, "go_%s.mod" % tag)
            open(modf, "w").write(open(os.path.join(HARNESS, "go.mod")).read().replace("=> /repo", "=> " + os.path.realpath(REPO)))
            open(os.path.join(BUILD, "go_%s.sum" % tag), "w").write(open(os.path.join(REPO, "go.sum")).read())
            modargs = ["-modfile=" + modf]
        rc, out, dt = sh(["go", "build"] + modargs + ["-tags", "verif", "-o", os.path.join(BUILD, "bin") + "/", "./cmd/extract", "./cmd/obs/" + prop.lower()], cwd=HARNESS, timeout=900)
        log.append(("go build", rc, dt, out[-4000:]))
        if rc != 0:
            res["broken"].append({"kind": "harness-build", "detail": out[-3000:]})
            res["fatal"] = "the harness does not build against /repo's working tree (an API the harness uses changed?)"
            return res
        rc, out, dt = sh([os.path.join(BUILD, "bin", "extract"), "-repo", REPO, "-cfg", os.path.join(HARNESS, "extract.d"),
                          "-out", os.path.join(COQ, "theories", "Gen"), "-report", os.path.join(BUILD, "extract_report.json")],
                         cwd=HARNESS, timeout=300)
        log.append(("extract", rc, dt, out[-4000:]))
        if rc != 0:
            res["broken"].append({"kind": "translator", "detail": out[-3000:],
                                  "obligation": "translation of the configured Go functions into Gen/*.v"})
        try:
            res["extract_report"] = json.load(open(os.path.join(BUILD, "extract_report.json")))
        except Exception:
            res["extract_report"] = {}
        targets = ([] if cfg.get("no_props") else ["theories/Props/%s.vo" % prop]) + ["theories/" + t for t in cfg.get("extra_targets", [])]
        # the modules the correspondence files import are always built, whether or not Props depends on them
        targets += ["theories/Base/Check.vo"] + ["theories/" + r.replace(".", "/") + ".vo" for r in cfg.get("requires", [])]
        # one make process for all targets (separate sub-makes could compile a shared dependency twice, concurrently)
        sh(["make", "Makefile.coq"], cwd=COQ, timeout=300)
        rc, out, dt = sh(["make", "-f", "Makefile.coq", "-j16"] + targets, cwd=COQ, timeout=cfg.get("make_timeout", 1500))
        log.append(("make", rc, dt, out[-6000:]))
        if rc != 0:
            m = re.search(r'File "\./(theories/[^"]+)", line (\d+)', out)
            thm, vf = None, None
            if m:
                vf = m.group(1)
                thm = theorem_at(os.path.join(COQ, vf), int(m.group(2)))
                if "/Gen/" in vf:
                    res["gen_ok"] = False
            err = out[out.find("Error"):][:1500] if "Error" in out else out[-1500:]
            res["broken"].append({"kind": "proof", "file": vf, "theorem": thm, "detail": err,
                                  "obligation": "%s in %s" % (thm, vf)})
            # can the correspondence still run? it needs Base + Gen (+Model) only
            need = ["theories/Base/Check.vo"] + ["theories/" + r.replace(".", "/") + ".vo" for r in cfg.get("requires", [])]
            rc2, out2, dt2 = sh(["make", "-f", "Makefile.coq", "-j16", "-k"] + need, cwd=COQ, timeout=900)
            log.append(("make(model only)", rc2, dt2, out2[-3000:]))
            if rc2 != 0:
                res["gen_ok"] = False
        elif not cfg.get("no_props"):
            # capture Print Assumptions of the property theorems
            # (re-running coqc on the already compiled Props file only prints; cached per compiled .vo)
            vo = os.path.join(COQ, "theories", "Props", prop + ".vo")
            cache = os.path.join(BUILD, "assumptions_%s.json" % prop)
            stamp = "%d" % os.stat(vo).st_mtime_ns if os.path.exists(vo) else ""
            cached = None
            os.makedirs(os.path.join(BUILD, "assum"), exist_ok=True)
            try:
                c = json.load(open(cache))
                if c.get("stamp") == stamp:
                    cached = c["raw"]
            except Exception:
                pass
            if cached is None:
                rc, out, dt = sh(["coqc", "-Q", "theories", "Geo", "-w", "-notation-overridden,-deprecated-hint-without-locality,-deprecated-instance-without-locality,-ambiguous-paths,-deprecated-syntactic-definition",
                                  "-o", os.path.join(BUILD, "assum", prop + ".vo"), "theories/Props/%s.v" % prop], cwd=COQ, timeout=900)
                log.append(("print assumptions", rc, dt, out[-500:]))
                cached = out
                if rc == 0:
                    json.dump({"stamp": stamp, "raw": out}, open(cache, "w"))
            res["assumptions_raw"] = cached
        fcntl.flock(lk, fcntl.LOCK_UN)
    return res

FORBIDDEN = re.compile(r"^\s*(Admitted|Axiom|Axioms|Parameter|Parameters|Conjecture|Admit Obligations|Unset Guard Checking|Unset Positivity Checking|Unset Universe Checking|Set Bypass)\\b|\\badmit\\.|bypass_check|-type-in-type|-impredicative-set")

def strip_coq_comments(text):
    out, depth, i = [], 0, 0
    while i < len(text):
        if text.startswith("(*", i):
            depth += 1; i += 2
        elif text.startswith("*)", i) and depth > 0:
            depth -= 1; i += 2
        else:
            if depth == 0:
                out.append(text[i])
            elif text[i] == "\n":
                out.append("\n")
            i += 1
    return "".join(out)

def forbidden_scan():
    """no Admitted/admit/Axiom/Parameter/Conjecture, no Variable/Hypothesis outside a Section, no disabled checks"""
    hits = []
    for f in sorted(glob.glob(os.path.join(COQ, "theories", "**", "*.v"), recursive=True)):
        try:
            text = strip_coq_comments(open(f).read())
        except OSError:
            continue
        depth = 0
        for i, ln in enumerate(text.split("\n"), 1):
            if re.match(r"\s*(Section|Module)\s+\w+", ln) and ":=" not in ln:
                depth += 1
            elif re.match(r"\s*End\s+\w+\s*\.", ln):
                depth = max(0, depth - 1)
            if FORBIDDEN.search(ln):
                hits.append("%s:%d: %s" % (os.path.relpath(f, COQ), i, ln.strip()[:80]))
            elif depth == 0 and re.match(r"\s*(Variable|Variables|Hypothesis|Hypotheses|Context)\b", ln):
                hits.append("%s:%d: %s (outside a Section)" % (os.path.relpath(f, COQ), i, ln.strip()[:80]))
    return hits

def parse_props(prop):
    """theorems stated in Props/<prop>.v"""
    path = os.path.join(COQ, "theories", "Props", prop + ".v")
    names = []
    try:
        for ln in open(path):
            m = re.match(r"\s*Theorem\s+([A-Za-z0-9_']+)", ln)
            if m:
                names.append(m.group(1))
    except OSError:
        pass
    return names

def parse_assumptions(raw):
    """-> {theorem: [axiom names]} from the coqc output of Print Assumptions"""
    res, cur = {}, None
    blocks = re.split(r"\n(?=Closed under the global context|Axioms:)", "\n" + (raw or ""))
    axioms_all = set()
    closed = 0
    for b in blocks:
        if b.startswith("Closed under the global context"):
            closed += 1
        elif b.startswith("Axioms:"):
            for m in re.finditer(r"^([A-Za-z0-9_.']+)\s*:", b[len("Axioms:"):], re.M):
                axioms_all.add(m.group(1))
    return {"closed_theorems": closed, "axioms": sorted(axioms_all)}

def run_observe(prop, tier, seed, outdir, timeout):
    return sh([os.path.join(BUILD, "bin", prop.lower()), "-seed", str(seed), "-tier", tier, "-out", outdir],
              cwd=HARNESS, timeout=timeout)

def run_cases(outdir, timeout):
    def shard_no(f):
        m = re.search(r"cases_(\d+)\.v$", f)
        return int(m.group(1)) if m else 0
    files = sorted(glob.glob(os.path.join(outdir, "cases_*.v")), key=shard_no)  # shard k <-> obs.json shards[k]
    def one(f):
        cmd = ["coqc", "-Q", os.path.join(COQ, "theories"), "Geo", "-w", "-all", os.path.basename(f)]
        rc, out, dt = sh(cmd, cwd=outdir, timeout=timeout)
        if rc < 0:
            # killed by a signal (e.g. the kernel's OOM killer while something else exhausts memory): not a verdict; once more
            rc, out, dt = sh(cmd, cwd=outdir, timeout=timeout)
            if rc < 0:
                out += "\n[coqc killed by signal %d twice]" % (-rc)
        m = re.search(r"M\s*=\s*\[(.*?)\]\s*:\s*list nat", out, re.S)
        if rc != 0 or not m:
            return (f, None, out[-1500:], dt)
        idx = [int(x) for x in re.findall(r"\d+", m.group(1))]
        return (f, idx, "", dt)
    with ThreadPoolExecutor(max_workers=8) as ex:
        return list(ex.map(one, files))

def match_known(v, known, prop):
    for k in known:
        if k.get("status") != "known" or k.get("property") != prop:
            continue
        if k.get("kind") == v.get("kind"):
            return k
    return None

def main():
    ap = argparse.ArgumentParser()
    ap.add_argument("prop")
    ap.add_argument("--tier", default=os.environ.get("VERIF_TIER", "quick"))
    ap.add_argument("--seed", type=int, default=int(os.environ.get("VERIF_SEED", "1")))
    ap.add_argument("--replay")
    a = ap.parse_args()
    prop, tier, seed = a.prop, a.tier, a.seed
    if a.replay:
        try:
            r = json.load(open(a.replay))
            seed, tier = int(r.get("seed", seed)), r.get("tier", tier)
            print("replaying %s with seed=%d tier=%s" % (a.replay, seed, tier))
        except Exception as e:
            print("cannot read replay file:", e); sys.exit(2)
    if tier not in ("quick", "thorough"):
        tier = "quick"
    t0 = time.time()
    try:
        cfg = load_cfg(prop)
    except OSError:
        print("unknown property", prop); sys.exit(2)
    known = load_known()
    log = []
    outdir = os.path.join(BUILD, prop)
    os.makedirs(outdir, exist_ok=True)
    os.makedirs(os.path.join(VERIF, "evidence"), exist_ok=True)
    os.makedirs(os.path.join(VERIF, "replays"), exist_ok=True)

    b = build_all(prop, cfg, log)
    broken = list(b["broken"])
    violations, corr_mismatch, obs = [], [], {}
    cases_total, cases_ok = 0, 0

    if "fatal" not in b:
        rc, out, dt = run_observe(prop, tier, seed, outdir, cfg.get("observe_timeout", 900))
        log.append(("observe", rc, dt, out[-3000:]))
        if rc != 0:
            broken.append({"kind": "observe", "detail": out[-3000:], "obligation": "the observer ran to completion on the implementation"})
        try:
            obs = json.load(open(os.path.join(outdir, "obs.json")))
        except Exception:
            obs = {}
        violations = obs.get("violations", []) or []
        if b["gen_ok"] and rc == 0:
            results = run_cases(outdir, cfg.get("cases_timeout", 900))
            for k, (f, idx, err, dt) in enumerate(results):
                labels = obs.get("shards", [])[k] if k < len(obs.get("shards", [])) else []
                cases_total += len(labels)
                if idx is None:
                    broken.append({"kind": "correspondence", "detail": "coqc failed on %s: %s" % (os.path.basename(f), err),
                                   "obligation": "correspondence shard %s evaluates" % os.path.basename(f)})
                else:
                    cases_ok += len(labels) - len(idx)
                    for i in idx[:50]:
                        corr_mismatch.append({"shard": os.path.basename(f), "index": i, "label": labels[i] if i < len(labels) else "?"})
            if corr_mismatch:
                broken.append({"kind": "correspondence", "obligation": "model and implementation agree on every observed case",
                               "detail": "%d disagreeing cases, first: %s" % (len(corr_mismatch), corr_mismatch[0]["label"]),
                               "cases": corr_mismatch[:20]})
        elif not b["gen_ok"]:
            broken.append({"kind": "correspondence", "obligation": "the generated model compiles (needed to evaluate the correspondence)", "detail": "Gen/Model does not compile"})

        # step 6: something no longer checks and no direct violation yet -> search harder
        if broken and not violations:
            sdir = os.path.join(BUILD, prop + "_search")
            rc, out, dt = run_observe(prop, "search", seed + 7919, sdir, cfg.get("search_timeout", 1500))
            log.append(("search", rc, dt, out[-2000:]))
            try:
                sobs = json.load(open(os.path.join(sdir, "obs.json")))
                violations = sobs.get("violations", []) or []
            except Exception:
                pass

    # known findings
    new_viol, known_hits = [], {}
    for v in violations:
        k = match_known(v, known, prop)
        if k is not None:
            known_hits[k["kind"]] = (k, v)
        else:
            new_viol.append(v)

    fb = forbidden_scan()
    if fb:
        broken.append({"kind": "proof", "obligation": "no Admitted/admit/Axiom/Parameter/Conjecture/unchecked commands in coq/theories", "detail": "\n".join(fb[:20])})
    coqchk_out = None
    if tier == "thorough" and not broken and not cfg.get("no_props"):
        rc, out, dt = sh(["coqchk", "-silent", "-o", "-Q", "theories", "Geo", "Geo.Props." + prop], cwd=COQ, timeout=cfg.get("coqchk_timeout", 2400))
        log.append(("coqchk", rc, dt, out[-3000:]))
        coqchk_out = out[-3000:]
        if rc != 0 and rc != 124:
            broken.append({"kind": "proof", "obligation": "coqchk re-checks Props/%s.vo" % prop, "detail": out[-1500:]})
    thms = parse_props(prop)
    assum = parse_assumptions(b.get("assumptions_raw", ""))
    proof_broken = [x for x in broken if x["kind"] in ("proof", "translator")]
    obligations = len(thms) + 1 + 1  # property theorems + translator obligation + correspondence obligation
    discharged = obligations
    if proof_broken:
        discharged -= 1 if len(thms) == 0 else min(len(thms), 1)
    if any(x["kind"] == "translator" for x in broken):
        discharged -= 1
    if any(x["kind"] in ("correspondence", "observe", "harness-build") for x in broken):
        discharged -= 1
    discharged = max(discharged, 0)

    wall = time.time() - t0
    status_violation = bool(new_viol) or bool(broken)
    replay_path = None
    if status_violation:
        replay_path = os.path.join(VERIF, "replays", "%s-%d-%s.json" % (prop, seed, tier))
        rep = {"property": prop, "seed": seed, "tier": tier,
               "failing_inputs": new_viol[:10],
               "no_longer_checks": [{k: x.get(k) for k in ("kind", "obligation", "file", "theorem", "detail", "cases") if x.get(k) is not None} for x in broken],
               "how_to_replay": "python3 tools/check.py %s --tier %s --seed %d  (the observer regenerates the same inputs from the seed; failing_inputs lists the concrete values)" % (prop, tier, seed)}
        json.dump(rep, open(replay_path, "w"), indent=1, default=str)

    trusted = [
        "Coq 8.16.1 kernel incl. vm_compute with primitive floats/Uint63 (no native_compute)",
        "axioms reported by Print Assumptions for Props/%s.v this run: %s" % (prop, ", ".join(assum["axioms"]) if assum["axioms"] else "none (all theorems closed under the global context)"),
        "translator harness/cmd/extract (Go AST -> Gallina) and Base/GoPrim.v (Go integer wrap, math.Max/Min/Floor/Remainder, float64<->Z)",
        "correspondence harness (cmd/observe + coqc of cases_*.v): differential testing that validates model and translator, not a proof",
    ] + cfg.get("trusted_extra", [])
    ev = {
        "property_id": prop, "tier": tier, "seed": seed, "level": "proof",
        "coverage": {
            "obligations": obligations, "discharged": discharged,
            "checker_cmd": "make -C coq theories/Props/%s.vo (coqc 8.16.1, full .vo) ; coqc build/%s/cases_*.v" % (prop, prop),
            "trusted_base": trusted,
            "theorems": thms,
            "theorems_closed_under_global_context": assum["closed_theorems"],
            "hypotheses_carried": cfg.get("hypotheses", []),
            "partial": cfg.get("partial", ""),
            "evaluations": obs.get("evaluations", 0),
            "distinct_nontrivial": obs.get("distinct_nontrivial", 0),
            "rule": cfg.get("rule", ""),
            "samples": (obs.get("samples") or [])[:6],
            "correspondence_cases": cases_total, "correspondence_agree": cases_ok,
            "input_distribution": obs.get("input_distribution", {}),
            "translator_covered": sorted(x["Go"] for x in b.get("extract_report", {}).get("Translated", []) or [] if x.get("Unit") in cfg.get("units", [])),
            "extra": obs.get("extra", {}),
            "known_findings_reproduced": sorted(known_hits.keys()),
            "steps": [{"step": s, "rc": rc, "wall_s": round(dt, 1)} for (s, rc, dt, _) in log],
            "coqchk": coqchk_out,
        },
        "assumptions": cfg.get("assumptions", []),
        "wall_s": round(wall, 1),
        "violations": len(new_viol) + (1 if broken and not new_viol else 0),
    }
    json.dump(ev, open(os.path.join(VERIF, "evidence", prop + ".json"), "w"), indent=1, default=str)

    for kind, (k, v) in sorted(known_hits.items()):
        print("KNOWN-FINDING: property=%s %s" % (prop, k.get("desc", kind)))
    # a known finding that no longer reproduces is only reported as information
    for k in known:
        if k.get("status") == "known" and k.get("property") == prop and k["kind"] not in known_hits:
            print("note: known finding %s did not reproduce in this run" % k["kind"])
    if status_violation:
        for x in broken:
            print("BROKEN %s: %s" % (x["kind"], (x.get("obligation") or "")))
            det = (x.get("detail") or "").strip().splitlines()
            for ln in (det if os.environ.get("VERIF_VERBOSE") else det[-12:]):
                print("    | " + ln[:300])
        for v in new_viol[:5]:
            print("FAILING INPUT [%s]: %s" % (v.get("kind"), v.get("desc")))
        suffix = "" if new_viol else " no-failing-input-found"
        print("VIOLATION property=%s replay=%s%s" % (prop, replay_path, suffix))
        if os.environ.get("VERIF_VERBOSE"):
            for (s, rc, dt, out) in log:
                print("---- %s rc=%s %.1fs\n%s" % (s, rc, dt, out))
        sys.exit(1)
    print("OK property=%s tier=%s theorems=%d cases=%d/%d evaluations=%d wall=%.1fs" % (prop, tier, len(thms), cases_ok, cases_total, obs.get("evaluations", 0), wall))
    sys.exit(0)

if __name__ == "__main__":
    main()
