#!/usr/bin/env python3
"""resolve the routine conflicts of merging a worker branch: KNOWN_FINDINGS.jsonl (union by property+kind,
ours first), cache files (dropped), scratch probe (dropped)."""
import json, subprocess, os, sys
def git(*a): return subprocess.run(["git"]+list(a), capture_output=True, text=True)
def show(stage, path):
    r = git("show", ":%d:%s" % (stage, path)); return r.stdout if r.returncode == 0 else ""
st = git("status", "--porcelain").stdout.splitlines()
for ln in st:
    code, path = ln[:2], ln[3:]
    if path == "KNOWN_FINDINGS.jsonl" and "U" in code or (path == "KNOWN_FINDINGS.jsonl" and code == "AA"):
        ours, theirs = show(2, path), show(3, path)
        seen, out = set(), []
        # entries removed on main on purpose (repaired defects, or examined and found not to be findings)
        dropped = set(tuple(x) for x in json.load(open("tools/known_dropped.json"))) if os.path.exists("tools/known_dropped.json") else set()
        # a kind that either side records as fixed stays fixed
        fixed = {}
        for text in (ours, theirs):
            for l in text.splitlines():
                try:
                    j = json.loads(l)
                    if j.get("status") == "fixed": fixed[(j.get("property"), j.get("kind"))] = l
                except Exception:
                    pass
        for text in (ours, theirs):
            for l in text.splitlines():
                if not l.strip(): continue
                if l.startswith("#"):
                    if l not in out: out.append(l)
                    continue
                try:
                    j = json.loads(l); key = (j.get("property"), j.get("kind"))
                except Exception:
                    key = l
                if key in seen: continue
                if isinstance(key, tuple) and j.get("status") == "known" and key in dropped: continue
                if key in fixed: l = fixed[key]
                seen.add(key); out.append(l)
        open(path, "w").write("\n".join(out) + "\n"); git("add", path); print("resolved", path)
    elif path.endswith(".nra.cache") or path.endswith(".lia.cache"):
        git("rm", "-f", "--cached", path); 
        if os.path.exists(path): os.remove(path)
        print("dropped", path)
    elif path.startswith("evidence/") and ("U" in code or code == "AA"):
        git("checkout", "--theirs", path); git("add", path); print("took theirs", path)
    elif path.startswith("harness/cmd/probe/"):
        git("rm", "-f", path); print("dropped", path)
print(git("status", "--porcelain").stdout)
