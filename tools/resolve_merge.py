#!/usr/bin/env python3
"""resolve the routine conflicts of merging a worker branch: KNOWN_FINDINGS.jsonl (union by property+kind,
ours first), cache files (dropped), scratch probe (dropped)."""
import json, subprocess, os, sys
def git(*a): return subprocess.run(["git"]+list(a), capture_output=True, text=True)
def show(stage, path):
    r = git("show", ":%d:%s" % (stage, path)); return r.stdout if r.returncode == 0 else ""
st = git("status", "--porcelain").stdout.splitlines()
for ln in st:
    code, path = ln[:2], ln[3:]
    if path == "KNOWN_FINDINGS.jsonl" and "U" in code or (path == "KNOWN_FINDINGS.jsonl" and code == "AA"):
        ours, theirs = show(2, path), show(3, path)
        seen, out = set(), []
        for text in (ours, theirs):
            for l in text.splitlines():
                if not l.strip(): continue
                if l.startswith("#"):
                    if l not in out: out.append(l)
                    continue
                try:
                    j = json.loads(l); key = (j.get("property"), j.get("kind"))
                except Exception:
                    key = l
                if key in seen: continue
                seen.add(key); out.append(l)
        open(path, "w").write("\n".join(out) + "\n"); git("add", path); print("resolved", path)
    elif path.endswith(".nra.cache") or path.endswith(".lia.cache"):
        git("rm", "-f", "--cached", path); 
        if os.path.exists(path): os.remove(path)
        print("dropped", path)
    elif path.startswith("harness/cmd/probe/"):
        git("rm", "-f", path); print("dropped", path)
print(git("status", "--porcelain").stdout)
