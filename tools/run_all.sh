#!/bin/sh
# run every registered check once (quick tier by default) on the current /repo tree; summary on stdout
cd "$(dirname "$0")/.."
TIER=${1:-quick}
for p in $(python3 -c "import json; print(' '.join(c['property_id'] for c in json.load(open('MANIFEST.json'))['checks']))"); do
  s=$(date +%s)
  out=$(timeout 3600 python3 tools/check.py $p --tier $TIER 2>&1)
  rc=$?
  echo "$p rc=$rc $(( $(date +%s) - s ))s $(echo "$out" | grep -c '^KNOWN-FINDING') known | $(echo "$out" | grep '^OK\|^VIOLATION' | tail -1)"
done
