(** Hand models of the two neighbour functions of s2/cellid.go the translator does not take
    ([append], a [for] loop whose test is a [break] at the end of the body).  They call the
    *translated* functions of Gen.CellIDFull for everything else.  Tied to Go by the C01
    observer (exact comparison of the returned slices).  Definitions only. *)
From Coq Require Import ZArith List Bool.
From Geo Require Import Base.GoPrim Gen.CellIDFull.
Import ListNotations.
Local Open Scope Z_scope.

Definition MaxSize : Z := 1073741824.

(** func (ci CellID) VertexNeighbors(level int) []CellID *)
Definition VertexNeighbors (ci level : Z) : list Z :=
  let halfSize := s2_sizeIJ (wrap_i64 (level + 1)) in
  let size := wrap_i64 (go_shl halfSize 1) in
  let '(f, i, j, _) := s2_CellID_faceIJOrientation ci in
  let '(ioffset, isame) :=
    if negb (Z.land i halfSize =? 0) then (size, wrap_i64 (i + size) <? MaxSize)
    else (wrap_i64 (- size), 0 <=? wrap_i64 (i - size)) in
  let '(joffset, jsame) :=
    if negb (Z.land j halfSize =? 0) then (size, wrap_i64 (j + size) <? MaxSize)
    else (wrap_i64 (- size), 0 <=? wrap_i64 (j - size)) in
  let results :=
    [ s2_CellID_Parent ci level;
      s2_CellID_Parent (s2_cellIDFromFaceIJSame f (wrap_i64 (i + ioffset)) j isame) level;
      s2_CellID_Parent (s2_cellIDFromFaceIJSame f i (wrap_i64 (j + joffset)) jsame) level ] in
  if isame || jsame then
    results ++ [ s2_CellID_Parent (s2_cellIDFromFaceIJSame f (wrap_i64 (i + ioffset)) (wrap_i64 (j + joffset)) (isame && jsame)) level ]
  else results.

(** the body of the [for k := -nbrSize; ; k += nbrSize] loop of AllNeighbors; returns the
    cells appended in this iteration *)
Definition AllNeighbors_body (face i j size nbrSize level k : Z) : list Z :=
  let '(sameFace, tb) :=
    if k <? 0 then (0 <=? wrap_i64 (j + k), [])
    else if size <=? k then (wrap_i64 (j + k) <? MaxSize, [])
    else (true,
      [ s2_CellID_Parent (s2_cellIDFromFaceIJSame face (wrap_i64 (i + k)) (wrap_i64 (j - nbrSize)) (0 <=? wrap_i64 (j - size))) level;
        s2_CellID_Parent (s2_cellIDFromFaceIJSame face (wrap_i64 (i + k)) (wrap_i64 (j + size)) (wrap_i64 (j + size) <? MaxSize)) level ]) in
  tb ++
  [ s2_CellID_Parent (s2_cellIDFromFaceIJSame face (wrap_i64 (i - nbrSize)) (wrap_i64 (j + k)) (sameFace && (0 <=? wrap_i64 (i - size)))) level;
    s2_CellID_Parent (s2_cellIDFromFaceIJSame face (wrap_i64 (i + size)) (wrap_i64 (j + k)) (sameFace && (wrap_i64 (i + size) <? MaxSize))) level ].

Fixpoint AllNeighbors_loop (fuel : nat) (face i j size nbrSize level k : Z) (acc : list Z) : list Z :=
  match fuel with
  | O => acc
  | S fuel' =>
    let acc := acc ++ AllNeighbors_body face i j size nbrSize level k in
    if size <=? k then acc
    else AllNeighbors_loop fuel' face i j size nbrSize level (wrap_i64 (k + nbrSize)) acc
  end.

(** func (ci CellID) AllNeighbors(level int) []CellID  (nil is the empty list) *)
Definition AllNeighbors (ci level : Z) : list Z :=
  if (level <? s2_CellID_Level ci) || (30 <? level) then []
  else
    let '(face, i, j, _) := s2_CellID_faceIJOrientation ci in
    let size := s2_sizeIJ (s2_CellID_Level ci) in
    let i := Z.land i (wrap_i64 (- size)) in
    let j := Z.land j (wrap_i64 (- size)) in
    let nbrSize := s2_sizeIJ level in
    (* k runs over -nbrSize, 0, nbrSize, ..., size : size/nbrSize + 2 iterations *)
    AllNeighbors_loop (Z.to_nat (size / nbrSize + 3)) face i j size nbrSize level (wrap_i64 (- nbrSize)) [].
