(** Model of s2/edge_crosser.go and of CrossingSign / VertexCrossing / EdgeOrVertexCrossing /
    AngleContainsVertex (s2/edge_crossings.go), OrderedCCW (s2/point.go).
    Definitions only.  Everything is parametric in the orientation predicate:

      point                      s2.Point
      peq    a b                 Go [a == b] on points
      sign   a b c               RobustSign(a,b,c)  in {-1,0,1}  (exact, perturbed)
      triage a b c               triageSign(a,b,c)  (0 = uncertain)
      tangent a b c d            the outward-tangent early exit of crossingSign, as one boolean:
                                 (c.aTan > eps && d.aTan > eps) || (c.bTan > eps && d.bTan > eps)
                                 with aTan, bTan the tangents NewEdgeCrosser(a,b) stores
      refdir p                   Point.referenceDir

    [expensiveSign] is written [sign]: it is only called where the cached triage value of the
    same triple is 0 (Proofs/C03_Crosser.v, [run_expensive_justified]), and there
    RobustSign = expensiveSign by definition of RobustSign.

    Model/CrosserExec.v instantiates the parameters with the translated float code and a
    recorded table of RobustSign values; the correspondence check runs that instance. *)
From Coq Require Import ZArith List Bool.
Import ListNotations.
Local Open Scope Z_scope.
Local Open Scope bool_scope.

(** edge_crossings.go: type Crossing (Cross = 0, MaybeCross = 1, DoNotCross = 2) *)
Inductive crossing := Cross | MaybeCross | DoNotCross.
Definition crossing_code (x : crossing) : Z :=
  match x with Cross => 0 | MaybeCross => 1 | DoNotCross => 2 end.
Definition crossing_eqb (x y : crossing) : bool := crossing_code x =? crossing_code y.

Section Crosser.
Variable point : Type.
Variable peq : point -> point -> bool.
Variable sign : point -> point -> point -> Z.
Variable triage : point -> point -> point -> Z.
Variable tangent : point -> point -> point -> point -> bool.
Variable refdir : point -> point.

(** * The specification: the four-orientation criterion *)

(** "two vertices from different edges are the same" *)
Definition shared (a b c d : point) : bool := peq a c || peq a d || peq b c || peq b d.
(** "an input edge is degenerate" *)
Definition degenerate (a b c d : point) : bool := peq a b || peq c d.
(** "the triangles ACB, CBD, BDA, DAC must all be oriented the same way (CW or CCW)" *)
Definition four_agree (a b c d : point) : bool :=
  let acb := sign a c b in
  (acb =? sign c b d) && (acb =? sign b d a) && (acb =? sign d a c) && negb (acb =? 0).

Definition crossing_spec (a b c d : point) : crossing :=
  if shared a b c d then MaybeCross
  else if degenerate a b c d then DoNotCross
  else if four_agree a b c d then Cross else DoNotCross.

(** * point.go: OrderedCCW *)
Definition ordered_ccw (a b c o : point) : bool :=
  let sum := 0 in
  let sum := if negb (sign b o a =? -1) then sum + 1 else sum in
  let sum := if negb (sign c o b =? -1) then sum + 1 else sum in
  let sum := if sign a o c =? 1 then sum + 1 else sum in
  2 <=? sum.

(** * edge_crossings.go: VertexCrossing, AngleContainsVertex *)
Definition vertex_crossing (a b c d : point) : bool :=
  if peq a b || peq c d then false
  else if peq a c then peq b d || ordered_ccw (refdir a) d b a
  else if peq b d then ordered_ccw (refdir b) c a b
  else if peq a d then peq b c || ordered_ccw (refdir a) c b a
  else if peq b c then ordered_ccw (refdir b) d a b
  else false.

Definition angle_contains_vertex (a b c : point) : bool :=
  negb (ordered_ccw (refdir b) c a b).

(** * edge_crosser.go *)
(** The fields updated per chain vertex.  a, b (and aXb, aTangent, bTangent, which are
    functions of a, b) never change after NewEdgeCrosser and are parameters of [step]. *)
Record state := mk_state { st_c : point; st_acb : Z }.

Inductive op :=
| Restart (c : point)            (* RestartAt(c) *)
| Chain (d : point)              (* ChainCrossingSign(d) *)
| CrossOp (c d : point)          (* CrossingSign(c, d) *)
| EoV (c d : point)              (* EdgeOrVertexCrossing(c, d) *)
| EoVChain (d : point).          (* EdgeOrVertexChainCrossing(d) *)

Inductive out := ONone | OCross (x : crossing) | OBool (x : bool).

(** NewEdgeCrosser: c is the zero Point (passed in as [c0]), acb = Indeterminate *)
Definition init (c0 : point) : state := mk_state c0 0.

Definition restart_at (a b : point) (c : point) : state := mk_state c (- triage a b c).

(** crossingSign(d, bda): the deferred function runs after the result is computed and stores
    the value [bda] has at that moment (refined on the last path only). *)
Definition slow (a b : point) (s : state) (d : point) (bda : Z) : state * crossing :=
  let c := st_c s in
  if tangent a b c d then (mk_state d (- bda), DoNotCross)
  else if peq a c || peq a d || peq b c || peq b d then (mk_state d (- bda), MaybeCross)
  else if peq a b || peq c d then (mk_state d (- bda), DoNotCross)
  else
    let acb := if st_acb s =? 0 then - sign a b c else st_acb s in
    let bda := if bda =? 0 then sign a b d else bda in
    (mk_state d (- bda),
     if negb (bda =? acb) then DoNotCross
     else if negb (- sign c d b =? acb) then DoNotCross
     else if negb (sign c d a =? acb) then DoNotCross
     else Cross).

Definition chain (a b : point) (s : state) (d : point) : state * crossing :=
  let bda := triage a b d in
  if (st_acb s =? - bda) && negb (bda =? 0) then (mk_state d (- bda), DoNotCross)
  else slow a b s d bda.

(** "if c != e.c { e.RestartAt(c) }" *)
Definition maybe_restart (a b : point) (s : state) (c : point) : state :=
  if negb (peq c (st_c s)) then restart_at a b c else s.

Definition eov_chain (a b : point) (s : state) (d : point) : state * bool :=
  let c := st_c s in
  let '(s', r) := chain a b s d in
  (s', match r with
       | DoNotCross => false
       | Cross => true
       | MaybeCross => vertex_crossing a b c d
       end).

Definition step (a b : point) (s : state) (o : op) : state * out :=
  match o with
  | Restart c => (restart_at a b c, ONone)
  | Chain d => let '(s', r) := chain a b s d in (s', OCross r)
  | CrossOp c d => let '(s', r) := chain a b (maybe_restart a b s c) d in (s', OCross r)
  | EoV c d => let '(s', r) := eov_chain a b (maybe_restart a b s c) d in (s', OBool r)
  | EoVChain d => let '(s', r) := eov_chain a b s d in (s', OBool r)
  end.

(** all outputs of a history, with the state after each step *)
Fixpoint run (a b : point) (s : state) (ops : list op) : list (state * out) :=
  match ops with
  | [] => []
  | o :: rest => let '(s', r) := step a b s o in (s', r) :: run a b s' rest
  end.

(** * Stateless functions of edge_crossings.go *)
(** CrossingSign(a,b,c,d) = NewChainEdgeCrosser(a,b,c).ChainCrossingSign(d) *)
Definition crossing_sign (a b c d : point) : crossing :=
  snd (chain a b (restart_at a b c) d).

Definition edge_or_vertex_crossing (a b c d : point) : bool :=
  match crossing_sign a b c d with
  | DoNotCross => false
  | Cross => true
  | MaybeCross => vertex_crossing a b c d
  end.

(** * What a history should answer, independent of the cached state *)
Definition eov_spec (a b c d : point) : bool :=
  match crossing_spec a b c d with
  | DoNotCross => false
  | Cross => true
  | MaybeCross => vertex_crossing a b c d
  end.

(** first vertex of the edge a two-argument call really tests: the cached vertex when the
    argument is [==] to it (no restart), the argument otherwise *)
Definition eff (p c : point) : point := if negb (peq c p) then c else p.

Definition expected (a b : point) (p : point) (o : op) : out :=
  match o with
  | Restart _ => ONone
  | Chain d => OCross (crossing_spec a b p d)
  | CrossOp c d => OCross (crossing_spec a b (eff p c) d)
  | EoV c d => OBool (eov_spec a b (eff p c) d)
  | EoVChain d => OBool (eov_spec a b p d)
  end.

(** the abstract "last vertex of the chain" after an operation *)
Definition next_vertex (o : op) : point :=
  match o with
  | Restart c => c
  | Chain d | CrossOp _ d | EoV _ d | EoVChain d => d
  end.

Fixpoint spec_run (a b : point) (p : point) (ops : list op) : list (point * out) :=
  match ops with
  | [] => []
  | o :: rest => (next_vertex o, expected a b p o) :: spec_run a b (next_vertex o) rest
  end.

(** the same history answered by the stateless functions only *)
Definition stateless_expected (a b : point) (p : point) (o : op) : out :=
  match o with
  | Restart _ => ONone
  | Chain d => OCross (crossing_sign a b p d)
  | CrossOp c d => OCross (crossing_sign a b (eff p c) d)
  | EoV c d => OBool (edge_or_vertex_crossing a b (eff p c) d)
  | EoVChain d => OBool (edge_or_vertex_crossing a b p d)
  end.

Fixpoint stateless_run (a b : point) (p : point) (ops : list op) : list (point * out) :=
  match ops with
  | [] => []
  | o :: rest => (next_vertex o, stateless_expected a b p o) :: stateless_run a b (next_vertex o) rest
  end.

End Crosser.

(** * The interface laws of the orientation predicate, as named propositions.
    They are the premises of the C03 theorems (Props/C03.v) and the proof obligations of the
    predicate layer (C02) for [sign := RobustSign], [triage := triageSign], [peq := Go ==]
    on the points the library accepts (finite, unit length). *)
Section InterfaceLaws.
Variable point : Type.
Variable peq : point -> point -> bool.
Variable sign triage : point -> point -> point -> Z.
Variable tangent : point -> point -> point -> point -> bool.
Variable refdir : point -> point.

Definition law_peq_refl : Prop := forall a, peq a a = true.
Definition law_peq_sym : Prop := forall a b, peq a b = peq b a.
Definition law_peq_trans : Prop := forall a b c, peq a b = true -> peq b c = true -> peq a c = true.
(** RobustSign (2): rotating the arguments does not change the result *)
Definition law_sign_rotate : Prop := forall a b c, sign b c a = sign a b c.
(** RobustSign (3): exchanging two arguments inverts the result *)
Definition law_sign_swap : Prop := forall a b c, sign c b a = - sign a b c.
Definition law_sign_range : Prop := forall a b c, sign a b c = -1 \/ sign a b c = 0 \/ sign a b c = 1.
(** RobustSign (1): Indeterminate iff two points are the same *)
Definition law_sign_zero_iff : Prop := forall a b c,
  sign a b c = 0 <-> (peq a b = true \/ peq b c = true \/ peq c a = true).
(** == points are interchangeable in the predicate (±0 coordinates) *)
Definition law_sign_peq : Prop := forall a b c c', peq c c' = true -> sign a b c = sign a b c'.
(** a decisive triage answer is the exact answer (from H-TRIAGE-DET) *)
Definition law_triage_sound : Prop := forall a b c, triage a b c <> 0 -> triage a b c = sign a b c.
(** H-TANGENT: when the outward-tangent early exit fires, no vertex is shared and the four
    exact orientations do not agree *)
Definition law_tangent_sound : Prop := forall a b c d, tangent a b c d = true ->
  shared point peq a b c d = false /\ four_agree point sign a b c d = false.
(** cyclic-order law of OrderedCCW for four rays r,u,v,w around o (used only for
    AngleContainsVertex property (3)): if u,v,w are met in this order sweeping CCW, the wedge
    (u,w] is the disjoint union of (u,v] and (v,w].  It holds for the rays of any point
    configuration in general position, hence for a consistent perturbed [sign] (C02 chirotope). *)
Definition law_occw_split : Prop := forall r u v w o,
  peq u o = false -> peq v o = false -> peq w o = false ->
  peq u v = false -> peq v w = false -> peq u w = false ->
  ordered_ccw point sign u v w o = true ->
  Z.b2z (negb (ordered_ccw point sign r u w o)) =
  Z.b2z (negb (ordered_ccw point sign r u v o)) + Z.b2z (negb (ordered_ccw point sign r v w o)).
End InterfaceLaws.

(** * Further interface laws (four rays around a vertex) *)
Section InterfaceLaws2.
Variable point : Type.
Variable peq : point -> point -> bool.
Variable sign : point -> point -> point -> Z.
Variable refdir : point -> point.

(** [law_occw_split] with the guard it really needs: the start ray r is not the vertex itself.
    (Without the guard the law is false of RobustSign: Proofs/Link_C02_C03.v,
    [occw_split_unguarded_refuted].) *)
Definition law_occw_split_ne : Prop := forall r u v w o,
  peq r o = false ->
  peq u o = false -> peq v o = false -> peq w o = false ->
  peq u v = false -> peq v w = false -> peq u w = false ->
  ordered_ccw point sign u v w o = true ->
  Z.b2z (negb (ordered_ccw point sign r u w o)) =
  Z.b2z (negb (ordered_ccw point sign r u v o)) + Z.b2z (negb (ordered_ccw point sign r v w o)).

(** Point.referenceDir never returns the point itself *)
Definition law_refdir_ne : Prop := forall o, peq (refdir o) o = false.

(** three-term Grassmann-Pluecker sign condition on five pairwise different points: the
    answers are those of a vector configuration in general position (C02 chirotope) *)
Definition law_sign_gp : Prop := forall a b c d f,
  peq a b = false -> peq a c = false -> peq a d = false -> peq a f = false ->
  peq b c = false -> peq b d = false -> peq b f = false ->
  peq c d = false -> peq c f = false -> peq d f = false ->
  let t1 := sign a b c * sign a d f in
  let t2 := - (sign a b d * sign a c f) in
  let t3 := sign a b f * sign a c d in
  ~ (0 < t1 /\ 0 < t2 /\ 0 < t3) /\ ~ (t1 < 0 /\ t2 < 0 /\ t3 < 0).
End InterfaceLaws2.
