(** Hand models of the text forms of a cell id (s2/cellid.go: ToToken, CellIDFromToken,
    String, CellIDFromString).  Go strings are lists of bytes ([Z] in [0,256)).  The
    library calls they rest on are modelled by their documented behaviour:
    fmt.Sprintf("%016x"), strings.TrimRight(s,"0"), strconv.ParseUint(s,16,64) (explicit base
    16: hex digits of either case only, no sign, no prefix, no underscore, empty is an
    error), strconv.FormatInt(v,16).  Tied to Go by the C01 observer.  Definitions only. *)
From Coq Require Import ZArith List Bool.
From Geo Require Import Base.GoPrim Gen.CellIDFull.
Import ListNotations.
Local Open Scope Z_scope.

Definition hexdigit (d : Z) : Z := if d <? 10 then 48 + d else 87 + d.
(** the 16 lower-case hex digits of c (0 <= c < 2^64), most significant first *)
Definition hex16 (c : Z) : list Z :=
  map (fun k => hexdigit (Z.shiftr c (4 * k) mod 16)) [15;14;13;12;11;10;9;8;7;6;5;4;3;2;1;0].
Fixpoint trim_right0 (l : list Z) : list Z :=
  match l with
  | [] => []
  | x :: t => match trim_right0 t with
              | [] => if x =? 48 then [] else [x]
              | t' => x :: t'
              end
  end.
(** func (ci CellID) ToToken() string *)
Definition ToToken (c : Z) : list Z :=
  match trim_right0 (hex16 (wrap_u64 c)) with [] => [88] | s => s end.

Definition hexval (b : Z) : option Z :=
  if (48 <=? b) && (b <=? 57) then Some (b - 48)
  else if (97 <=? b) && (b <=? 102) then Some (b - 87)
  else if (65 <=? b) && (b <=? 70) then Some (b - 55)
  else None.
Fixpoint parse_hex (acc : Z) (l : list Z) : option Z :=
  match l with
  | [] => Some acc
  | b :: t => match hexval b with Some d => parse_hex (acc * 16 + d) t | None => None end
  end.
(** func CellIDFromToken(s string) CellID *)
Definition CellIDFromToken (s : list Z) : Z :=
  let n := Z.of_nat (length s) in
  if 16 <? n then 0 else
  match s with
  | [] => 0
  | _ => match parse_hex 0 s with
         | None => 0
         | Some v => if n <? 16 then wrap_u64 (Z.shiftl v (4 * (16 - n))) else v
         end
  end.

(** minimal-length hex digits of v >= 0 ("0" for 0); fuel 16 suffices below 2^64 *)
Fixpoint hexmin_aux (fuel : nat) (v : Z) (acc : list Z) : list Z :=
  match fuel with
  | O => acc
  | S f => let acc := hexdigit (v mod 16) :: acc in
           if v / 16 =? 0 then acc else hexmin_aux f (v / 16) acc
  end.
Definition hexmin (v : Z) : list Z := hexmin_aux 16 v [].
Definition invalid_prefix : list Z := [73;110;118;97;108;105;100;58;32]. (* "Invalid: " *)

(** func (ci CellID) String() string *)
Definition CellID_String (c : Z) : list Z :=
  if negb (s2_CellID_IsValid c) then
    let v := wrap_i64 c in
    invalid_prefix ++ (if v <? 0 then 45 :: hexmin (- v) else hexmin v)
  else
    (48 + s2_CellID_Face c) :: 47 ::
    map (fun l => 48 + s2_CellID_ChildPosition c l) (zrange_up 1 (s2_CellID_Level c + 1)).

(** func CellIDFromString(s string) CellID *)
Definition CellIDFromString (s : list Z) : Z :=
  let level := Z.of_nat (length s) - 2 in
  if (level <? 0) || (30 <? level) then 0 else
  match s with
  | s0 :: s1 :: rest =>
    let face := wrap_u8 (s0 - 48) in
    if (5 <? face) || negb (s1 =? 47) then 0 else
    (fix go (id : Z) (l : list Z) : Z :=
       match l with
       | [] => id
       | b :: t => let childPos := wrap_u8 (b - 48) in
                   if 3 <? childPos then 0 else go (nthZ (s2_CellID_Children id) childPos 0) t
       end) (s2_CellIDFromFace face) rest
  | _ => 0
  end.

Definition bytes_eqb := list_eqb Z.eqb.
