(** Model/Contain.v — executable model of point containment (property C04).
    Definitions only.  Everything is parametric in the crossing predicate:

      [eov a b c d]  =  s2.EdgeOrVertexCrossing(a, b, c, d)

    C03 proves that every method of an [EdgeCrosser] on edge AB ([EdgeOrVertexCrossing(c,d)],
    [EdgeOrVertexChainCrossing(d)] after [RestartAt(c)] / a previous call ending at [c])
    returns this stateless value whatever the call order.  Here a crosser is therefore
    its edge AB plus the bookkeeping "which vertex is C now"; what is transcribed from the
    Go code is WHICH (c,d) pairs each containment path asks for and how it combines them.

    Go anchors: s2/loop.go (Vertex, bruteForceContainsPoint, ContainsPoint,
    iteratorContainsPoint, initOriginAndBound, Invert, OrientedVertex, NumEdges),
    s2/polygon.go (ContainsPoint, iteratorContainsPoint, Edge, ReferencePoint),
    s2/contains_point_query.go (Contains, shapeContains: semi-open model),
    s2/shapeutil.go (containsBruteForce), s2/shapeindex.go (tracker, addShapeInternal,
    makeIndexCell, testAllEdges). *)
From Coq Require Import List Bool Arith ZArith.
Import ListNotations.

Section Contain.
  Variable point : Type.
  Variable peq : point -> point -> bool.                       (* Go [==] on s2.Point *)
  Variable eov : point -> point -> point -> point -> bool.     (* EdgeOrVertexCrossing a b c d *)
  Variable acv : point -> point -> point -> bool.              (* AngleContainsVertex a b c *)
  Variable south : point -> bool.                              (* v.Z < 0 *)
  Variable origin : point.                                     (* OriginPoint() *)
  Variables emptyPt fullPt : point.                            (* emptyLoopPoint, fullLoopPoint *)
  Variable zeroPt : point.                                     (* Point{} : the zero value *)

  Definition edge := (point * point)%type.

  (** ** EdgeCrosser bookkeeping *)
  Record crosser := mk_crosser { cr_a : point; cr_b : point; cr_c : point }.
  Definition new_edge_crosser (a b : point) : crosser := mk_crosser a b zeroPt.
  Definition new_chain_edge_crosser (a b c : point) : crosser := mk_crosser a b c.
  Definition restart_at (k : crosser) (c : point) : crosser := mk_crosser (cr_a k) (cr_b k) c.
  (* EdgeOrVertexChainCrossing(d): the edge tested is (c, d); afterwards c := d *)
  Definition chain_crossing (k : crosser) (d : point) : bool * crosser :=
    (eov (cr_a k) (cr_b k) (cr_c k) d, mk_crosser (cr_a k) (cr_b k) d).
  (* EdgeOrVertexCrossing(c, d): restart at c when needed, then chain to d *)
  Definition edge_crossing (k : crosser) (c d : point) : bool * crosser :=
    chain_crossing (restart_at k c) d.

  (** ** Loops *)
  Record loop := mk_loop { verts : list point; origin_inside : bool }.

  (* Loop.Vertex(i) = vertices[i % len] *)
  Definition vertex (vs : list point) (i : nat) : point := nth (i mod length vs) vs zeroPt.

  Definition is_empty_or_full (L : loop) : bool := length (verts L) =? 1.

  (** bruteForceContainsPoint *)
  Definition brute_contains (L : loop) (p : point) : bool :=
    let vs := verts L in
    match vs with
    | [] => origin_inside L
    | _ =>
      fst (fold_left
             (fun (st : bool * crosser) (i : nat) =>
                let rk := chain_crossing (snd st) (vertex vs i) in
                (xorb (fst st) (fst rk), snd rk))
             (seq 1 (length vs))                               (* i = 1 .. n: vertex 0 twice *)
             (origin_inside L, new_chain_edge_crosser origin p (vertex vs 0)))
    end.

  (** ** Index cells (inputs of the model: dumped from the real index) *)
  Record clipped := mk_clipped { cl_shape : nat; cl_edges : list nat; cl_contains_center : bool }.
  Record icell := mk_icell { ic_center : point; ic_shapes : list clipped }.

  Definition find_by_shape_id (c : icell) (id : nat) : option clipped :=
    find (fun cl => cl_shape cl =? id) (ic_shapes c).

  (** Loop.iteratorContainsPoint: crossings of centre->p over the clipped edges, the chain
      crosser being restarted whenever the edge id is not the successor of the previous one
      ([aiPrev] starts at -2, modelled by [None]). *)
  Definition loop_clipped_contains (vs : list point) (center : point) (cl : clipped) (p : point) : bool :=
    match cl_edges cl with
    | [] => cl_contains_center cl
    | es =>
      fst (fst (fold_left
             (fun (st : bool * crosser * option nat) (ai : nat) =>
                let '(inside, k, prev) := st in
                let consecutive := match prev with Some q => ai =? S q | None => false end in
                let k1 := if consecutive then k else restart_at k (vertex vs ai) in
                let rk := chain_crossing k1 (vertex vs (ai + 1)) in
                (xorb inside (fst rk), snd rk, Some ai))
             es
             (cl_contains_center cl, new_edge_crosser center p, None)))
    end.

  Definition loop_iterator_contains (L : loop) (c : icell) (p : point) : bool :=
    match find_by_shape_id c 0 with
    | Some cl => loop_clipped_contains (verts L) (ic_center c) cl p
    | None => false   (* nil dereference in Go; a one-shape index cell always lists shape 0 *)
    end.

  Definition max_brute_force_vertices : nat := 32.

  (** Loop.ContainsPoint.  [fresh]: index.IsFresh() at entry; [bound_contains]:
      l.bound.ContainsPoint(p); [index_shapes]: len(l.index.shapes); [located]: the cell
      LocatePoint finds after the index has been built (None: no index cell contains p). *)
  Definition loop_contains_point (L : loop) (fresh bound_contains : bool) (index_shapes : nat)
             (located : option icell) (p : point) : bool :=
    if negb fresh && negb bound_contains then false
    else if (index_shapes =? 0) || (length (verts L) <=? max_brute_force_vertices)
         then brute_contains L p
         else match located with
              | None => false
              | Some c => loop_iterator_contains L c p
              end.

  (** initOriginAndBound: the value given to originInside (the vertex-1 trick).  While it
      runs, the index has no shape and is fresh, so ContainsPoint is the brute force. *)
  Definition init_origin_inside (vs : list point) : bool :=
    match vs with
    | [v] => south v                                  (* the special empty / full loops *)
    | v0 :: v1 :: v2 :: _ =>
      let v1_inside := negb (peq v0 v1) && negb (peq v2 v1) && acv v0 v1 v2 in
      negb (Bool.eqb v1_inside
              (loop_contains_point (mk_loop vs false) true true 0 None v1))
    | _ => false
    end.
  Definition loop_from_points (vs : list point) : loop := mk_loop vs (init_origin_inside vs).

  (** Loop.Invert (vertices and originInside; the bound is an input of the dispatcher) *)
  Definition invert (L : loop) : loop :=
    let vs :=
      if is_empty_or_full L
      then (if origin_inside L (* IsFull *) then [emptyPt] else [fullPt])
      else rev (verts L) in
    mk_loop vs (negb (origin_inside L)).

  (** ** Shapes (dimension 2, reference point = OriginPoint) *)
  Record shape := mk_shape { sh_edges : list edge; sh_ref_inside : bool }.
  Definition shape_edge (S : shape) (e : nat) : edge := nth e (sh_edges S) (zeroPt, zeroPt).

  (* Loop as a Shape: NumEdges() = 0 for the empty/full loops, Edge(i) = (Vertex(i), Vertex(i+1)) *)
  Definition loop_shape (L : loop) : shape :=
    let vs := verts L in
    mk_shape (if is_empty_or_full L then []
              else map (fun i => (vertex vs i, vertex vs (i + 1))) (seq 0 (length vs)))
             (origin_inside L).

  (** shapeutil.go containsBruteForce *)
  Definition contains_brute_force (S : shape) (p : point) : bool :=
    if peq origin p then sh_ref_inside S
    else fst (fold_left
                (fun (st : bool * crosser) (e : edge) =>
                   let rk := edge_crossing (snd st) (fst e) (snd e) in
                   (xorb (fst st) (fst rk), snd rk))
                (sh_edges S) (sh_ref_inside S, new_edge_crosser origin p)).

  (** Polygon.iteratorContainsPoint and ContainsPointQuery.shapeContains (semi-open model,
      dimension 2: CrossingSign + VertexCrossing on MaybeCross is EdgeOrVertexCrossing) *)
  Definition shape_clipped_contains (S : shape) (center : point) (cl : clipped) (p : point) : bool :=
    fst (fold_left
           (fun (st : bool * crosser) (e : nat) =>
              let ed := shape_edge S e in
              let rk := edge_crossing (snd st) (fst ed) (snd ed) in
              (xorb (fst st) (fst rk), snd rk))
           (cl_edges cl) (cl_contains_center cl, new_edge_crosser center p)).

  (** ContainsPointQuery.Contains / ShapeContains over an index of [shapes] *)
  Definition cpq_contains (shapes : list shape) (located : option icell) (p : point) : bool :=
    match located with
    | None => false
    | Some c =>
      existsb (fun cl => shape_clipped_contains (nth (cl_shape cl) shapes (mk_shape [] false))
                                                (ic_center c) cl p) (ic_shapes c)
    end.
  Definition cpq_shape_contains (shapes : list shape) (id : nat) (located : option icell) (p : point) : bool :=
    match located with
    | None => false
    | Some c =>
      match find_by_shape_id c id with
      | None => false
      | Some cl => shape_clipped_contains (nth id shapes (mk_shape [] false)) (ic_center c) cl p
      end
    end.

  (** ** Polygons: loops with their hole flag (depth odd) *)
  Definition polygon := list (loop * bool).

  Definition polygon_num_vertices (P : polygon) : nat :=
    fold_left (fun n lh => n + length (verts (fst lh))) P 0.

  (* Loop.OrientedVertex(i), 0 <= i < 2n *)
  Definition oriented_vertex (lh : loop * bool) (i : nat) : point :=
    let vs := verts (fst lh) in
    let n := length vs in
    let j := if n <=? i then i - n else i in
    let j := if snd lh then n - 1 - j else j in
    vertex vs j.

  Definition polygon_is_full (P : polygon) : bool :=
    match P with
    | [lh] => is_empty_or_full (fst lh) && origin_inside (fst lh)
    | _ => false
    end.

  (* Polygon as a Shape: edges of all loops in order (holes reversed), ReferencePoint = XOR *)
  Definition polygon_shape (P : polygon) : shape :=
    mk_shape
      (if polygon_is_full P then []
       else flat_map (fun lh => map (fun e => (oriented_vertex lh e, oriented_vertex lh (e + 1)))
                                    (seq 0 (length (verts (fst lh))))) P)
      (fold_left (fun b lh => xorb b (origin_inside (fst lh))) P false).

  Definition polygon_brute (P : polygon) (p : point) : bool :=
    fold_left (fun inside lh => xorb inside (brute_contains (fst lh) p)) P false.

  (** Polygon.ContainsPoint *)
  Definition polygon_contains_point (P : polygon) (fresh bound_contains index_nil : bool)
             (located : option icell) (p : point) : bool :=
    if negb fresh && negb bound_contains then false
    else if (polygon_num_vertices P <? max_brute_force_vertices) || index_nil
         then polygon_brute P p
         else cpq_contains [polygon_shape P] located p.

  (** ** The interior tracker of the index build *)
  Record tracker := mk_tracker
    { tr_active : bool; tr_a : point; tr_b : point; tr_next : Z; tr_ids : list nat }.

  (* toggleShape: the id list is kept sorted; an id present is removed, else inserted *)
  Fixpoint toggle (id : nat) (ids : list nat) : list nat :=
    match ids with
    | [] => [id]
    | s :: t => if s <? id then s :: toggle id t
                else if s =? id then t
                else id :: s :: t
    end.
  Definition toggle_shape (t : tracker) (id : nat) : tracker :=
    mk_tracker (tr_active t) (tr_a t) (tr_b t) (tr_next t) (toggle id (tr_ids t)).
  Definition draw_to (t : tracker) (b : point) : tracker :=
    mk_tracker (tr_active t) (tr_b t) b (tr_next t) (tr_ids t).
  Definition move_to (t : tracker) (b : point) : tracker :=
    mk_tracker (tr_active t) (tr_a t) b (tr_next t) (tr_ids t).
  Definition set_next (t : tracker) (z : Z) : tracker :=
    mk_tracker (tr_active t) (tr_a t) (tr_b t) z (tr_ids t).
  (* newTracker: b = trackerOrigin, then drawTo(start of the Hilbert curve) *)
  Definition new_tracker (tracker_origin curve_start : point) (first_leaf : Z) : tracker :=
    draw_to (mk_tracker false zeroPt tracker_origin first_leaf []) curve_start.
  Definition add_shape (t : tracker) (id : nat) (contains_focus : bool) : tracker :=
    let t1 := mk_tracker true (tr_a t) (tr_b t) (tr_next t) (tr_ids t) in
    if contains_focus then toggle_shape t1 id else t1.
  (* addShapeInternal for the shapes with ids 0.. (all of dimension 2) *)
  Definition add_shapes (t : tracker) (shapes : list shape) : tracker :=
    fst (fold_left (fun (st : tracker * nat) sh =>
                      (add_shape (fst st) (snd st) (contains_brute_force sh (tr_b (fst st))), S (snd st)))
                   shapes (t, 0)).

  (* a clipped edge of a cell under construction: shape id, hasInterior, the edge *)
  Definition tedge := (nat * bool * edge)%type.
  Definition test_edge (t : tracker) (id : nat) (e : edge) : tracker :=
    if eov (tr_a t) (tr_b t) (fst e) (snd e) then toggle_shape t id else t.
  Definition test_all_edges (t : tracker) (es : list tedge) : tracker :=
    fold_left (fun t (x : tedge) => let '(id, has_interior, e) := x in
                                    if has_interior then test_edge t id e else t) es t.

  (* what makeIndexCell sees of a cell *)
  Record tcell := mk_tcell
    { tc_range_min : Z; tc_next_range_min : Z;          (* id.RangeMin(), id.Next().RangeMin() *)
      tc_entry : point; tc_center : point; tc_exit : point;
      tc_edges : list tedge }.

  (** makeIndexCell (the part that involves the tracker), for a cell that is accepted.
      Result: new tracker state and the ids of the shapes whose [containsCenter] is set;
      [None]: no cell is created (no edges, empty tracker). *)
  Definition make_index_cell (t : tracker) (c : tcell) : tracker * option (list nat) :=
    match tc_edges c, tr_ids t with
    | [], [] => (t, None)
    | _, _ =>
      let moving := tr_active t && negb (length (tc_edges c) =? 0) in
      let t1 := if moving
                then let t0 := if Z.eqb (tc_range_min c) (tr_next t) then t
                               else move_to t (tc_entry c) in
                     test_all_edges (draw_to t0 (tc_center c)) (tc_edges c)
                else t in
      let cc := tr_ids t1 in
      let t2 := if moving
                then set_next (test_all_edges (draw_to t1 (tc_exit c)) (tc_edges c))
                              (tc_next_range_min c)
                else t1 in
      (t2, Some cc)
    end.

  Definition tracker_run (t : tracker) (cells : list tcell) : tracker * list (option (list nat)) :=
    fold_left (fun (st : tracker * list (option (list nat))) c =>
                 let r := make_index_cell (fst st) c in
                 (fst r, snd st ++ [snd r]))
              cells (t, []).

  (** ** Specification vocabulary (used by the theorems) *)
  (* parity of the crossings of the test edge ref->p with the edges E, starting from [inside] *)
  Definition cross_count (a b : point) (E : list edge) : nat :=
    length (filter (fun e => eov a b (fst e) (snd e)) E).
  Definition cross_parity (a b : point) (E : list edge) : bool := Nat.odd (cross_count a b E).
  Definition parity (ref : point) (ref_inside : bool) (E : list edge) (p : point) : bool :=
    xorb ref_inside (cross_parity ref p E).

  (* the edges (c,d1) (d1,d2) ... of a chain that starts at c *)
  Fixpoint chain_edges (c : point) (ds : list point) : list edge :=
    match ds with
    | [] => []
    | d :: t => (c, d) :: chain_edges d t
    end.
  (* the closed chain of edges of a vertex list: (v0,v1) ... (v_{n-1},v0) *)
  Definition closed_edges (vs : list point) : list edge :=
    match vs with
    | [] => []
    | v0 :: rest => chain_edges v0 (rest ++ [v0])
    end.
  Definition loop_edges (L : loop) : list edge := closed_edges (verts L).
End Contain.
