(** C06 — a ShapeIndex as a VALUE (what the hook VerifCells dumps) and the query-side code of
    golang/geo over it, transcribed by hand from
      s2/shapeindex.go            ShapeIndexIterator.seek / LocatePoint / LocateCellID
      s2/contains_point_query.go  ContainsPointQuery.shapeContains / ShapeContains / Contains
      s2/crossing_edge_query.go   CrossingEdgeQuery.candidates (gathering part) / Crossings
    Definitions only; proofs are in Proofs/C06_Index.v.

    The builder (clipping, subdivision, interior tracking) is NOT modelled: its output is an
    input here, constrained by [index_ok] in the theorems and validated on every observed index
    by the harness. The geometric predicates (CrossingSign, VertexCrossing) are parameters: C02/C03
    own them; nothing here depends on their definition. *)
From Coq Require Import ZArith List Bool.
From Geo Require Import Base.GoPrim Gen.CellID.
Import ListNotations.
Local Open Scope Z_scope.

(** * Cell ids (uint64 as Z, 0 < id < 2^64): the three functions of s2/cellid.go the queries use *)
Fixpoint lsb_pos (p : positive) : positive :=
  match p with xO q => xO (lsb_pos q) | _ => xH end.
(** [ci.lsb()] = [uint64(ci) & -uint64(ci)] *)
Definition lsbZ (id : Z) : Z := match id with Zpos p => Zpos (lsb_pos p) | _ => 0 end.
Definition range_min (id : Z) : Z := id - (lsbZ id - 1).
Definition range_max (id : Z) : Z := id + (lsbZ id - 1).
(** SentinelCellID *)
Definition sentinel : Z := 2 ^ 64 - 1.

(** * sort.Search(n, f): Go's binary search, with the number of halvings bounded by [fuel] *)
Fixpoint go_search (fuel : nat) (f : Z -> bool) (i j : Z) : Z :=
  match fuel with
  | O => i
  | S fu =>
      if i <? j then
        let h := (i + j) / 2 in
        if negb (f h) then go_search fu f (h + 1) j else go_search fu f i h
      else i
  end.
Definition sort_search (n : Z) (f : Z -> bool) : Z := go_search (S (Z.to_nat n)) f 0 n.

(** * The index value *)
Record clipped := mkClipped { cl_shape : Z; cl_containsCenter : bool; cl_edges : list Z }.
Definition index_cell := list clipped.
Definition index := list (Z * index_cell).
Definition cell_ids (idx : index) : list Z := map fst idx.
Definition lenZ {A} (l : list A) : Z := Z.of_nat (length l).

(** [s.seek(target)]: the position of the first cell with id >= target (len if none) *)
Definition seek (cells : list Z) (target : Z) : Z :=
  sort_search (lenZ cells) (fun i => nthZ cells i 0 >=? target).
(** the iterator's id at a position ([refresh]) *)
Definition id_at (cells : list Z) (pos : Z) : Z :=
  if pos <? lenZ cells then nthZ cells pos 0 else sentinel.

(** [LocatePoint]: the position of the index cell containing the leaf cell [target] =
    cellIDFromPoint(p), if any *)
Definition locate_point (cells : list Z) (target : Z) : option Z :=
  let pos := seek cells target in
  if negb (id_at cells pos =? sentinel) && (range_min (id_at cells pos) <=? target) then Some pos
  else if (0 <? pos) && (range_max (id_at cells (pos - 1)) >=? target) then Some (pos - 1)
  else None.

Inductive cell_relation := Indexed (pos : Z) | Subdivided (pos : Z) | Disjoint.
(** [LocateCellID] *)
Definition locate_cellid (cells : list Z) (target : Z) : cell_relation :=
  let pos := seek cells (range_min target) in
  let id := id_at cells pos in
  if negb (id =? sentinel) && (id >=? target) && (range_min id <=? target) then Indexed pos
  else if negb (id =? sentinel) && (id <=? range_max target) then Subdivided pos
  else if (0 <? pos) && (range_max (id_at cells (pos - 1)) >=? target) then Indexed (pos - 1)
  else Disjoint.

(** * Geometry as parameters *)
Inductive crossing := Cross | MaybeCross | DoNotCross.
Inductive vertex_model := VertexModelOpen | VertexModelSemiOpen | VertexModelClosed.
Definition model_eqb (a b : vertex_model) : bool :=
  match a, b with
  | VertexModelOpen, VertexModelOpen | VertexModelSemiOpen, VertexModelSemiOpen
  | VertexModelClosed, VertexModelClosed => true
  | _, _ => false
  end.

Section Queries.
  Variable point : Type.
  Variable pt_eqb : point -> point -> bool.                             (* Go == on Point *)
  Variable crossing_sign : point -> point -> point -> point -> crossing. (* CrossingSign(a,b,c,d) *)
  Variable vertex_crossing : point -> point -> point -> point -> bool.   (* VertexCrossing(a,b,c,d) *)

  Definition pedge := (point * point)%type.
  (** a shape as the queries see it: Dimension and Edge(0..NumEdges-1) *)
  Record qshape := mkQShape { q_dim : Z; q_edges : list pedge }.

  Definition edge_or_vertex_crossing (a b c d : point) : bool :=
    match crossing_sign a b c d with
    | Cross => true
    | DoNotCross => false
    | MaybeCross => vertex_crossing a b c d
    end.

  (** the edge loop of shapeContains for a polygon (dimension 2); [es] are the clipped edges *)
  Fixpoint shape_contains_loop (model : vertex_model) (center p : point) (es : list pedge) (inside : bool) : bool :=
    match es with
    | [] => inside
    | (v0, v1) :: t =>
        match crossing_sign center p v0 v1 with
        | DoNotCross => shape_contains_loop model center p t inside
        | MaybeCross =>
            if negb (model_eqb model VertexModelSemiOpen) && (pt_eqb v0 p || pt_eqb v1 p)
            then model_eqb model VertexModelClosed
            else shape_contains_loop model center p t (xorb inside (vertex_crossing center p v0 v1))
        | Cross => shape_contains_loop model center p t (xorb inside true)
        end
    end.

  (** [shape.Edge(edgeID)] for the clipped edge ids; an id out of range would panic in Go and is
      dropped here ([index_ok] excludes it) *)
  Definition edges_of (s : qshape) (ids : list Z) : list pedge :=
    flat_map (fun e => if (0 <=? e) && (e <? lenZ (q_edges s))
                       then match nth_error (q_edges s) (Z.to_nat e) with Some x => [x] | None => [] end
                       else []) ids.

  (** [ContainsPointQuery.shapeContains(clipped, center, p)] *)
  Definition shape_contains (model : vertex_model) (s : qshape) (cl : clipped) (center p : point) : bool :=
    let inside := cl_containsCenter cl in
    if lenZ (cl_edges cl) <=? 0 then inside else
    if negb (q_dim s =? 2) then
      if negb (model_eqb model VertexModelClosed) then false
      else existsb (fun e : pedge => pt_eqb (fst e) p || pt_eqb (snd e) p) (edges_of s (cl_edges cl))
    else shape_contains_loop model center p (edges_of s (cl_edges cl)) inside.

  (** [cell.findByShapeID] *)
  Definition find_by_shape (cell : index_cell) (sid : Z) : option clipped :=
    find (fun cl => cl_shape cl =? sid) cell.

  Variable cell_center : Z -> point.        (* CellID.Point() *)
  Variable leaf_of_point : point -> Z.      (* cellIDFromPoint *)

  Definition nth_cell (idx : index) (pos : Z) : Z * index_cell := nthZ idx pos (0, []).
  Definition nth_shape (shapes : list qshape) (sid : Z) : qshape := nthZ shapes sid (mkQShape 0 []).

  (** [ContainsPointQuery.ShapeContains(shape, p)] for the shape with id [sid] *)
  Definition query_shape_contains (model : vertex_model) (shapes : list qshape) (idx : index) (sid : Z) (p : point) : bool :=
    match locate_point (cell_ids idx) (leaf_of_point p) with
    | None => false
    | Some pos =>
        let '(id, cell) := nth_cell idx pos in
        match find_by_shape cell sid with
        | None => false
        | Some cl => shape_contains model (nth_shape shapes sid) cl (cell_center id) p
        end
    end.

  (** [ContainsPointQuery.Contains(p)] *)
  Definition query_contains (model : vertex_model) (shapes : list qshape) (idx : index) (p : point) : bool :=
    match locate_point (cell_ids idx) (leaf_of_point p) with
    | None => false
    | Some pos =>
        let '(id, cell) := nth_cell idx pos in
        existsb (fun cl => shape_contains model (nth_shape shapes (cl_shape cl)) cl (cell_center id) p) cell
    end.

  (** [ContainingShapes(p)] as shape ids, in cell order *)
  Definition query_containing_shapes (model : vertex_model) (shapes : list qshape) (idx : index) (p : point) : list Z :=
    match locate_point (cell_ids idx) (leaf_of_point p) with
    | None => []
    | Some pos =>
        let '(id, cell) := nth_cell idx pos in
        map cl_shape (filter (fun cl => shape_contains model (nth_shape shapes (cl_shape cl)) cl (cell_center id) p) cell)
    end.

  (** * Brute force over every edge of a shape (the specification side) *)
  Definition parity_crossings (a b : point) (es : list pedge) : bool :=
    fold_left (fun acc (e : pedge) => xorb acc (edge_or_vertex_crossing a b (fst e) (snd e))) es false.
  (** containsBruteForce with the shape's reference point [(ref, ref_inside)] *)
  Definition brute_contains (s : qshape) (ref : point) (ref_inside : bool) (p : point) : bool :=
    if negb (q_dim s =? 2) then false else xorb ref_inside (parity_crossings ref p (q_edges s)).
  Definition is_vertex (s : qshape) (p : point) : bool :=
    existsb (fun e : pedge => pt_eqb (fst e) p || pt_eqb (snd e) p) (q_edges s).
  (** what each vertex model means, by brute force *)
  Definition brute_contains_model (model : vertex_model) (s : qshape) (ref : point) (ref_inside : bool) (p : point) : bool :=
    match model with
    | VertexModelSemiOpen => brute_contains s ref ref_inside p
    | VertexModelOpen => if q_dim s =? 2 then negb (is_vertex s p) && brute_contains s ref ref_inside p else false
    | VertexModelClosed => is_vertex s p || brute_contains s ref ref_inside p
    end.

  (** * CrossingEdgeQuery: candidates gathered from the visited cells, then filtered *)
  Fixpoint insert_uniq (x : Z) (l : list Z) : list Z :=
    match l with
    | [] => [x]
    | y :: t => if x <? y then x :: l else if x =? y then l else y :: insert_uniq x t
    end.
  (** uniqueInts: the sorted distinct values *)
  Definition unique_ints (l : list Z) : list Z := fold_right insert_uniq [] l.
  (** the gathering part of [candidates(a, b, shape)]: [visited] are the positions of the index
      cells getCellsForEdge returned (its float descent is not modelled) *)
  Definition crossing_candidates (idx : index) (visited : list Z) (sid : Z) : list Z :=
    let gathered := flat_map (fun pos => match find_by_shape (snd (nth_cell idx pos)) sid with
                                         | Some cl => cl_edges cl | None => [] end) visited in
    if 1 <? lenZ visited then unique_ints gathered else gathered.
  Definition keep_crossing (all : bool) (sign : crossing) : bool :=
    match sign with Cross => true | MaybeCross => all | DoNotCross => false end.
  (** [Crossings(a, b, shape, crossType)] given the candidates *)
  Definition crossings (all : bool) (s : qshape) (a b : point) (cands : list Z) : list Z :=
    filter (fun e => match nth_error (q_edges s) (Z.to_nat e) with
                     | Some (v0, v1) => keep_crossing all (crossing_sign a b v0 v1)
                     | None => false end) cands.
  Definition brute_crossings (all : bool) (s : qshape) (a b : point) : list Z :=
    crossings all s a b (zrange_up 0 (lenZ (q_edges s))).
End Queries.
Arguments q_dim {point} _.
Arguments q_edges {point} _.
Arguments mkQShape {point} _ _.

(** * Support for the correspondence files: geometric predicates given as tables of the values the
      implementation's predicates returned for (centre, p, v0, v1), keyed by (v0, v1) *)
Fixpoint tab_lookup {A} (t : list ((Z * Z) * A)) (c d : Z) (dflt : A) : A :=
  match t with
  | [] => dflt
  | ((c', d'), v) :: r => if (c =? c') && (d =? d') then v else tab_lookup r c d dflt
  end.
Definition tab_sign (t : list ((Z * Z) * crossing)) (a b c d : Z) : crossing := tab_lookup t c d DoNotCross.
Definition tab_vc (t : list ((Z * Z) * bool)) (a b c d : Z) : bool := tab_lookup t c d false.
Definition relation_eqb (x y : cell_relation) : bool :=
  match x, y with
  | Indexed a, Indexed b | Subdivided a, Subdivided b => a =? b
  | Disjoint, Disjoint => true
  | _, _ => false
  end.

(** * The structural part of [index_ok] as a decision procedure, run by the correspondence on every
      small index the observer dumps. [numEdges] lists NumEdges of each shape of the collection.
      Cell validity and ranges are the translated [s2.CellID.IsValid/RangeMin/RangeMax] (Gen/CellID.v). *)
Fixpoint increasingb (l : list Z) : bool :=
  match l with
  | [] => true
  | x :: t => match t with [] => true | y :: _ => x <? y end && increasingb t
  end.
Definition clipped_okb (numEdges : list Z) (cl : clipped) : bool :=
  (0 <=? cl_shape cl) && (cl_shape cl <? lenZ numEdges) &&
  increasingb (cl_edges cl) &&
  forallb (fun e => (0 <=? e) && (e <? nthZ numEdges (cl_shape cl) 0)) (cl_edges cl) &&
  (negb (lenZ (cl_edges cl) =? 0) || cl_containsCenter cl).
Definition cell_okb (numEdges : list Z) (c : Z * index_cell) : bool :=
  (0 <=? fst c) && (fst c <? 2 ^ 64) && s2_CellID_IsValid (fst c) &&
  negb (lenZ (snd c) =? 0) && increasingb (map cl_shape (snd c)) &&
  forallb (clipped_okb numEdges) (snd c).
(** consecutive cells: RangeMax of one below RangeMin of the next *)
Fixpoint cells_disjointb (ids : list Z) : bool :=
  match ids with
  | [] => true
  | x :: t => match t with [] => true | y :: _ => s2_CellID_RangeMax x <? s2_CellID_RangeMin y end
              && cells_disjointb t
  end.
Definition index_okb (numEdges : list Z) (idx : index) : bool :=
  forallb (cell_okb numEdges) idx && cells_disjointb (cell_ids idx).

(** * Loop/Polygon.ContainsCell and IntersectsCell (s2/loop.go, s2/polygon.go): the decision
      structure over the shape's own index (one shape, id 0). The clipping test of
      boundaryApproxIntersects (ClipToPaddedFace + edgeIntersectsRect with maxError) is the
      parameter [approx_meets]. [None] stands for the nil dereference of findByShapeID(0). *)
Section CellRelations.
  Variable point : Type.
  Variable crossing_sign : point -> point -> point -> point -> crossing.
  Variable vertex_crossing : point -> point -> point -> point -> bool.
  Variable cell_center : Z -> point.
  Variable approx_meets : point * point -> Z -> bool.

  (** boundaryApproxIntersects(it, target), the iterator being at index cell [id] with entry [cl] *)
  Definition boundary_approx_intersects (s : qshape point) (cl : clipped) (id target : Z) : bool :=
    if lenZ (cl_edges cl) =? 0 then false
    else if id =? target then true
    else existsb (fun e => approx_meets e target) (edges_of point s (cl_edges cl)).

  (** iteratorContainsPoint(it, p) *)
  Definition iterator_contains_point (s : qshape point) (cl : clipped) (center p : point) : bool :=
    if lenZ (cl_edges cl) =? 0 then cl_containsCenter cl
    else fold_left (fun inside (e : point * point) =>
                      xorb inside (edge_or_vertex_crossing point crossing_sign vertex_crossing center p (fst e) (snd e)))
                   (edges_of point s (cl_edges cl)) (cl_containsCenter cl).

  Definition contains_cell (s : qshape point) (idx : index) (target : Z) : option bool :=
    match locate_cellid (cell_ids idx) target with
    | Indexed pos =>
        let '(id, cell) := nth_cell idx pos in
        match find_by_shape cell 0 with
        | None => None
        | Some cl =>
            if boundary_approx_intersects s cl id target then Some false
            else Some (iterator_contains_point s cl (cell_center id) (cell_center target))
        end
    | _ => Some false
    end.

  Definition intersects_cell (s : qshape point) (idx : index) (target : Z) : option bool :=
    match locate_cellid (cell_ids idx) target with
    | Disjoint => Some false
    | Subdivided _ => Some true
    | Indexed pos =>
        let '(id, cell) := nth_cell idx pos in
        if id =? target then Some true else
        match find_by_shape cell 0 with
        | None => None
        | Some cl =>
            if boundary_approx_intersects s cl id target then Some true
            else Some (iterator_contains_point s cl (cell_center id) (cell_center target))
        end
    end.
End CellRelations.

(** * CrossingEdgeQuery.getCellsForEdge / computeCellsIntersected / clipVAxis (s2/crossing_edge_query.go):
      the descent over the cell tree, with the float clipping abstract. [B] is the edge bound
      (r2.Rect) carried down; [left_only c b] is [edgeBound.X.Hi < center.X] for the padded cell of
      [c] (padding 0), [right_only] is [edgeBound.X.Lo >= center.X], [lower_only]/[upper_only] the
      same for Y; [split_u]/[split_v] are splitUBound/splitVBound at the centre of [c];
      [child_ij c i j] is PaddedCellFromParentIJ(pcell, i, j).id. The result lists the positions
      of the visited index cells in the order Go appends them to c.cells. *)
Section Descent.
  Variable B : Type.
  Variables left_only right_only lower_only upper_only : Z -> B -> bool.
  Variables split_u split_v : Z -> B -> B * B.
  Variable child_ij : Z -> Z -> Z -> Z.
  Variable cells : list Z.

  (** clipVAxis(edgeBound, center.Y, i, pcell), given the recursive call *)
  Definition clip_v_axis (rec : Z -> B -> list Z) (c i : Z) (b : B) : list Z :=
    if lower_only c b then rec (child_ij c i 0) b
    else if upper_only c b then rec (child_ij c i 1) b
    else let '(b0, b1) := split_v c b in rec (child_ij c i 0) b0 ++ rec (child_ij c i 1) b1.

  (** computeCellsIntersected(pcell, edgeBound); [fuel] bounds the recursion depth (levels) *)
  Fixpoint compute_cells (fuel : nat) (c : Z) (b : B) : list Z :=
    let pos := seek cells (range_min c) in
    if (id_at cells pos =? sentinel) || (id_at cells pos >? range_max c) then []
    else if id_at cells pos =? c then [pos]
    else match fuel with
    | O => []
    | S fu =>
        if left_only c b then clip_v_axis (compute_cells fu) c 0 b
        else if right_only c b then clip_v_axis (compute_cells fu) c 1 b
        else let '(b0, b1) := split_u c b in
             if lower_only c b then compute_cells fu (child_ij c 0 0) b0 ++ compute_cells fu (child_ij c 1 0) b1
             else if upper_only c b then compute_cells fu (child_ij c 0 1) b0 ++ compute_cells fu (child_ij c 1 1) b1
             else clip_v_axis (compute_cells fu) c 0 b0 ++ clip_v_axis (compute_cells fu) c 1 b1
    end.

  (** one face segment of getCellsForEdge: [root] = edgeRoot (ShrinkToFit), [b] = edgeBound *)
  Definition cells_for_segment (root : Z) (b : B) : list Z :=
    match locate_cellid cells root with
    | Indexed pos => [pos]
    | Subdivided _ => compute_cells 31 root b
    | Disjoint => []
    end.
  (** getCellsForEdge over the face segments *)
  Definition cells_for_edge (segments : list (Z * B)) : list Z :=
    flat_map (fun sg => cells_for_segment (fst sg) (snd sg)) segments.
End Descent.
Definition tab_meets (t : list ((Z * Z) * bool)) (e : Z * Z) (target : Z) : bool :=
  tab_lookup t (fst e) (snd e) false.
