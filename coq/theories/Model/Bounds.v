(** Hand-written executable models for the parts of the bounding code the translator
    cannot take (pointer-receiver state, loops over slices).  Definitions only.
    Leaves ([s2_Rect_*], [s2_Cap_*], [s2_LatLngFromPoint], [r3_Vector_*], [math_*],
    [s1_*], [r1_*]) are the translated functions of Gen/*.v. *)
From Coq Require Import ZArith List Bool Floats.
From Geo Require Import Base.GoPrim Gen.Bounds.
Import ListNotations.
Local Open Scope bool_scope.

(** * s2/rect_bounder.go *)

(** literals of RectBounder.AddPoint / RectBound, as Go rounds them to float64 *)
Definition c_minNorm : float := (0x1.13c236bd99808p-49)%float.   (* 1.91346e-15 *)
Definition c_mErrMul : float := (0x1.5db3f7aae0025p-51)%float.   (* 6.06638e-16 *)
Definition c_mErrAdd : float := (0x1.bb67c037a49ebp-101)%float.  (* 6.83174e-31 *)
Definition c_eps : float := (0x1p-52)%float.                     (* dblEpsilon *)
Definition c_2eps : float := (0x1p-51)%float.                    (* 2*dblEpsilon *)
Definition c_3eps : float := (0x1.8p-51)%float.                  (* 3*dblEpsilon *)
Definition c_pi : float := (0x1.921fb54442d18p+01)%float.        (* math.Pi *)
Definition c_pi_2 : float := (0x1.921fb54442d18p+00)%float.      (* math.Pi/2 *)
Definition c_pi_m2eps : float := (0x1.921fb54442d17p+01)%float.  (* math.Pi - 2*dblEpsilon *)

Record bounder := mk_bounder { bd_a : s2_Point; bd_aLL : s2_LatLng; bd_bound : s2_Rect }.

Definition bounder_eqbits (x y : bounder) : bool :=
  s2_Point_eqbits (bd_a x) (bd_a y) && s2_LatLng_eqbits (bd_aLL x) (bd_aLL y)
  && s2_Rect_eqbits (bd_bound x) (bd_bound y).

(** NewRectBounder: zero-valued a, aLL *)
Definition new_bounder : bounder :=
  mk_bounder (mk_s2_Point (mk_r3_Vector 0 0 0)) (mk_s2_LatLng 0 0) s2_EmptyRect.

(** N = (A - B) x (A + B) *)
Definition edge_normal (a b : s2_Point) : r3_Vector :=
  r3_Vector_Cross (r3_Vector_Sub (s2_Point_Vector a) (s2_Point_Vector b))
                  (r3_Vector_Add (s2_Point_Vector a) (s2_Point_Vector b)).

(** longitude range spanned by AB *)
Definition edge_lng (aLL bLL : s2_LatLng) : s1_Interval :=
  let lngAB := s1_Interval_AddPoint (s1_Interval_AddPoint s1_EmptyInterval (s1_Angle_Radians (s2_LatLng_Lng aLL)))
                                    (s1_Angle_Radians (s2_LatLng_Lng bLL)) in
  if PrimFloat.leb c_pi_m2eps (s1_Interval_Length lngAB) then s1_FullInterval else lngAB.

(** which adjustments the generic branch made: (interior test passed, Hi raised, Lo lowered) *)
Definition lat_flags := (bool * bool * bool)%type.

(** latitude range spanned by AB in the generic branch (nNorm >= c_minNorm) *)
Definition edge_lat_flags (a b : s2_Point) (aLL bLL : s2_LatLng) (n : r3_Vector) (nNorm : float)
  : r1_Interval * lat_flags :=
  let latAB := r1_Interval_AddPoint (r1_IntervalFromPoint (s1_Angle_Radians (s2_LatLng_Lat aLL)))
                                    (s1_Angle_Radians (s2_LatLng_Lat bLL)) in
  let m := r3_Vector_Cross n (mk_r3_Vector 0 0 1) in
  let mA := r3_Vector_Dot m (s2_Point_Vector a) in
  let mB := r3_Vector_Dot m (s2_Point_Vector b) in
  let mError := PrimFloat.add (PrimFloat.mul c_mErrMul nNorm) c_mErrAdd in
  if PrimFloat.ltb (PrimFloat.mul mA mB) 0 || PrimFloat.leb (PrimFloat.abs mA) mError
     || PrimFloat.leb (PrimFloat.abs mB) mError
  then
    let maxLat := go_fmin
       (PrimFloat.add (math_Atan2 (PrimFloat.sqrt (PrimFloat.add (PrimFloat.mul (r3_Vector_X n) (r3_Vector_X n))
                                                                  (PrimFloat.mul (r3_Vector_Y n) (r3_Vector_Y n))))
                                  (PrimFloat.abs (r3_Vector_Z n))) c_3eps)
       c_pi_2 in
    let latBudget := PrimFloat.mul 2
       (math_Asin (PrimFloat.mul (PrimFloat.mul 0.5 (r3_Vector_Norm (r3_Vector_Sub (s2_Point_Vector a) (s2_Point_Vector b))))
                                 (math_Sin maxLat))) in
    let maxDelta := PrimFloat.add (PrimFloat.mul 0.5 (PrimFloat.sub latBudget (r1_Interval_Length latAB))) c_eps in
    let raise := PrimFloat.leb mA mError && PrimFloat.leb (PrimFloat.opp mError) mB in
    let latAB1 := if raise
                  then set_r1_Interval_Hi latAB (go_fmin maxLat (PrimFloat.add (r1_Interval_Hi latAB) maxDelta))
                  else latAB in
    let lower := PrimFloat.leb mB mError && PrimFloat.leb (PrimFloat.opp mError) mA in
    let latAB2 := if lower
                  then set_r1_Interval_Lo latAB1 (go_fmax (PrimFloat.opp maxLat) (PrimFloat.sub (r1_Interval_Lo latAB1) maxDelta))
                  else latAB1 in
    (latAB2, (true, raise, lower))
  else (latAB, (false, false, false)).

Definition edge_lat a b aLL bLL n nNorm : r1_Interval := fst (edge_lat_flags a b aLL bLL n nNorm).

(** The rectangle AddPoint unions into the bound for the edge (a,b), and a branch tag:
    0 = nearly antipodal (bound := Full), 1 = nearly identical, 2 = generic. *)
Definition edge_rect_tag (a b : s2_Point) (aLL bLL : s2_LatLng) : s2_Rect * Z * lat_flags :=
  let n := edge_normal a b in
  let nNorm := r3_Vector_Norm n in
  if PrimFloat.ltb nNorm c_minNorm then
    if PrimFloat.ltb (r3_Vector_Dot (s2_Point_Vector a) (s2_Point_Vector b)) 0
    then (s2_FullRect, 0%Z, (false, false, false))
    else (s2_Rect_AddPoint (s2_RectFromLatLng aLL) bLL, 1%Z, (false, false, false))
  else
    let '(lat, fl) := edge_lat_flags a b aLL bLL n nNorm in
    (mk_s2_Rect lat (edge_lng aLL bLL), 2%Z, fl).

Definition edge_rect a b aLL bLL : s2_Rect := fst (fst (edge_rect_tag a b aLL bLL)).
Definition edge_tag a b aLL bLL : Z := snd (fst (edge_rect_tag a b aLL bLL)).

(** RectBounder.AddPoint *)
Definition add_point (r : bounder) (b : s2_Point) : bounder :=
  let bLL := s2_LatLngFromPoint b in
  if s2_Rect_IsEmpty (bd_bound r) then
    mk_bounder b bLL (s2_Rect_AddPoint (bd_bound r) bLL)
  else
    let e := edge_rect (bd_a r) b (bd_aLL r) bLL in
    if (edge_tag (bd_a r) b (bd_aLL r) bLL =? 0)%Z
    then mk_bounder b bLL s2_FullRect
    else mk_bounder b bLL (s2_Rect_Union (bd_bound r) e).

(** RectBounder.RectBound *)
Definition rect_bound (r : bounder) : s2_Rect :=
  s2_Rect_PolarClosure (s2_Rect_expanded (bd_bound r) (mk_s2_LatLng c_2eps 0)).

Definition bounder_run (pts : list s2_Point) : bounder := fold_left add_point pts new_bounder.

(** every intermediate state, for the trace correspondence *)
Fixpoint bounder_trace (r : bounder) (pts : list s2_Point) : list bounder :=
  match pts with
  | [] => []
  | p :: t => let r' := add_point r p in r' :: bounder_trace r' t
  end.

(** * s2/loop.go : initBound pole logic and Invert's shortcut *)

(** [b] is bounder.RectBound() of the closed vertex chain; the two containment tests are
    parameters (they are C04's subject). *)
Definition init_bound_poles (b : s2_Rect) (contains_north contains_south : bool) : s2_Rect :=
  let b1 := if contains_north
            then mk_s2_Rect (mk_r1_Interval (r1_Interval_Lo (s2_Rect_Lat b)) c_pi_2) s1_FullInterval
            else b in
  if s1_Interval_IsFull (s2_Rect_Lng b1) && contains_south
  then mk_s2_Rect (set_r1_Interval_Lo (s2_Rect_Lat b1) (PrimFloat.opp c_pi_2)) (s2_Rect_Lng b1)
  else b1.

Definition loop_chain (vs : list s2_Point) : list s2_Point :=
  match vs with [] => [] | v0 :: _ => vs ++ [v0] end.

Definition loop_init_bound (vs : list s2_Point) (contains_north contains_south : bool) : s2_Rect :=
  init_bound_poles (rect_bound (bounder_run (loop_chain vs))) contains_north contains_south.

(** Loop.Invert: [old] is the bound before inversion, [recomputed] what initBound yields on
    the reversed vertices. *)
Definition invert_bound (old recomputed : s2_Rect) : s2_Rect :=
  if PrimFloat.ltb (PrimFloat.opp c_pi_2) (r1_Interval_Lo (s2_Rect_Lat old))
     && PrimFloat.ltb (r1_Interval_Hi (s2_Rect_Lat old)) c_pi_2
  then s2_FullRect else recomputed.

(** * s2/polyline.go : RectBound *)
Definition polyline_rect_bound (vs : list s2_Point) : s2_Rect := rect_bound (bounder_run vs).

(** * s2/cellunion.go, s2/cell.go, s2/polygon.go : folds *)

(** CellUnion.RectBound over the cells' RectBounds; Polygon.initLoopProperties' bound is the
    same fold over the depth-0 loops' bounds. *)
Definition union_rect_bound (rs : list s2_Rect) : s2_Rect := fold_left s2_Rect_Union rs s2_EmptyRect.

(** Cell.CapBound: cap centred at the normalised uv-centre, grown over the four vertices *)
Definition cell_cap_bound (center : s2_Point) (vs : list s2_Point) : s2_Cap :=
  fold_left s2_Cap_AddPoint vs (s2_CapFromPoint center).

(** CellUnion.CapBound: centroid = sum of area-weighted cell centres, then AddCap fold *)
Definition cu_centroid (cells : list (s2_Point * float)) : s2_Point :=
  let c := fold_left (fun acc pa => r3_Vector_Add acc (r3_Vector_Mul (s2_Point_Vector (fst pa)) (snd pa)))
                     cells (mk_r3_Vector 0 0 0) in
  if r3_Vector_eqb c (mk_r3_Vector 0 0 0) then s2_PointFromCoords 1 0 0
  else mk_s2_Point (r3_Vector_Normalize c).

Definition cu_cap_bound (cells : list (s2_Point * float)) (caps : list s2_Cap) : s2_Cap :=
  match cells with
  | [] => s2_EmptyCap
  | _ => fold_left s2_Cap_AddCap caps (s2_CapFromPoint (cu_centroid cells))
  end.

(** * s2/convex_hull_query.go : monotoneChain over an abstract orientation predicate *)
Section Hull.
  Variable P : Type.
  Variable sign : P -> P -> P -> Z.   (* RobustSign: 1 = CounterClockwise *)

  (** the output stack is kept reversed (head = last element) *)
  Fixpoint pop_while (out : list P) (p : P) : list P :=
    match out with
    | b :: rest =>
        match rest with
        | a :: _ => if (sign a b p =? 1)%Z then out else pop_while rest p
        | [] => out
        end
    | [] => out
    end.

  Definition chain_step (out : list P) (p : P) : list P := p :: pop_while out p.
  Definition chain_rev (pts : list P) : list P := fold_left chain_step pts [].
  Definition monotone_chain (pts : list P) : list P := rev (chain_rev pts).

  (** ConvexHull for >= 3 sorted, de-duplicated points: lower ++ upper without the duplicated
      end points. *)
  Definition hull_of_sorted (pts : list P) : list P :=
    removelast (monotone_chain pts) ++ removelast (monotone_chain (rev pts)).
End Hull.
