(** Hand-written models of the two functions of s2/cell.go the translator cannot take:
    [Cell.DistanceToEdge] (returns from inside a loop over an [EdgeCrosser], a
    pointer-receiver state machine) and its caller [Cell.MaxDistanceToEdge].
    Everything else of cell.go used by property C12 is translated (Gen/CellGeom.v,
    Gen/CellRect.v) and reused here.

    The crossing test is a parameter: [crosses] is the disjunction over the four cell
    edges of [ChainCrossingSign(vertex k) != DoNotCross] for the chain started at
    Vertex(3) (what the Go loop computes); it belongs to property C03.  The observer
    evaluates it on the real EdgeCrosser and passes the value in.
    Tied to the Go functions by correspondence (observer c12).  Definitions only. *)
From Coq Require Import ZArith List Bool Floats.
From Geo Require Import Base.GoPrim Gen.CellGeom.
Import ListNotations.
Local Open Scope Z_scope.

Definition cell_DistanceToEdge (crosses : bool) (c : s2_Cell) (a b : s2_Point) : float :=
  let minDist := s2_minChordAngle (s2_Cell_Distance c a) [s2_Cell_Distance c b] in
  if PrimFloat.eqb minDist 0%float then minDist
  else if crosses then 0%float
  else fold_left (fun md i => fst (s2_UpdateMinDistance (s2_Cell_Vertex c i) a b md))
                 (zrange_up 0 4) minDist.

Definition point_neg (p : s2_Point) : s2_Point :=
  mk_s2_Point (r3_Vector_Mul (s2_Point_Vector p) (-0x1p+00)%float).

(** [crosses_anti]: the crossing disjunction for the antipodal edge (-a,-b). *)
Definition cell_MaxDistanceToEdge (crosses_anti : bool) (c : s2_Cell) (a b : s2_Point) : float :=
  let maxDist := s2_maxChordAngle (s2_Cell_MaxDistance c a) [s2_Cell_MaxDistance c b] in
  if PrimFloat.leb maxDist (0x1p+01)%float then maxDist
  else PrimFloat.sub (0x1p+02)%float (cell_DistanceToEdge crosses_anti c (point_neg a) (point_neg b)).
