(** C07 — wedge relations at a shared vertex, transcribed from s2/wedge_relations.go
    (WedgeContains, WedgeIntersects) and s2/loop.go (wedgeContainsSemiwedge) over an
    abstract point type and an abstract [ordered_ccw] (s2.OrderedCCW, layer C02).
    Definitions only. *)
From Coq Require Import Bool.

Section Wedge.
  Variable point : Type.
  Variable peq : point -> point -> bool.                 (* Go [==] on s2.Point *)
  Variable ordered_ccw : point -> point -> point -> point -> bool.  (* OrderedCCW(a,b,c,o) *)

  (* func WedgeContains(a0, ab1, a2, b0, b2 Point) bool {
       return OrderedCCW(a2, b2, b0, ab1) && OrderedCCW(b0, a0, a2, ab1) } *)
  Definition wedge_contains (a0 ab1 a2 b0 b2 : point) : bool :=
    ordered_ccw a2 b2 b0 ab1 && ordered_ccw b0 a0 a2 ab1.

  (* func WedgeIntersects(a0, ab1, a2, b0, b2 Point) bool {
       return !OrderedCCW(a0, b2, b0, ab1) || !OrderedCCW(b0, a2, a0, ab1) } *)
  Definition wedge_intersects (a0 ab1 a2 b0 b2 : point) : bool :=
    negb (ordered_ccw a0 b2 b0 ab1) || negb (ordered_ccw b0 a2 a0 ab1).

  (* func wedgeContainsSemiwedge(a0, ab1, a2, b2 Point, reverse bool) bool {
       if b2 == a0 || b2 == a2 { return (b2 == a0) == reverse }
       return OrderedCCW(a0, a2, b2, ab1) } *)
  Definition wedge_contains_semiwedge (a0 ab1 a2 b2 : point) (reverse : bool) : bool :=
    if peq b2 a0 || peq b2 a2 then Bool.eqb (peq b2 a0) reverse
    else ordered_ccw a0 a2 b2 ab1.
End Wedge.
