(** C07 — the one branch of the index walk (s2/loop.go, loopCrosser.hasCrossingRelation) that
    reasons from edge-free interior cells, transcribed as it is written. An index cell of A
    without edges ([a_cc] = its containsCenter) covers the cells of B whose containsCenter
    flags are [b_ccs]. Definitions only. *)
From Coq Require Import List Bool.
Import ListNotations.

Inductive ctarget := TDontCare | TDontCross | TCross.

(* func containsCenterMatches(a *clippedShape, target crossingTarget) bool {
     return (!a.containsCenter && target == crossingTargetDontCross) ||
            (a.containsCenter && target == crossingTargetCross) } *)
Definition cc_matches (cc : bool) (t : ctarget) : bool :=
  match t with TDontCross => negb cc | TCross => cc | TDontCare => false end.

(* if !containsCenterMatches(aClipped, l.aCrossingTarget) { bi.seekBeyond(ai); ai.next(); return false }
   for bi.cellID() <= ai.rangeMax { if containsCenterMatches(bClipped, l.bCrossingTarget) { return true }; bi.next() }
   ai.next(); return false *)
Definition edge_free_branch (a_cc : bool) (ta tb : ctarget) (b_ccs : list bool) : bool :=
  if negb (cc_matches a_cc ta) then false
  else existsb (fun b => cc_matches b tb) b_ccs.

(** the branch as it stood before /repo commit 42e42d2 (test on A's cell exchanged) *)
Definition edge_free_branch_before_42e42d2 (a_cc : bool) (ta tb : ctarget) (b_ccs : list bool) : bool :=
  if cc_matches a_cc ta then false
  else existsb (fun b => cc_matches b tb) b_ccs.
