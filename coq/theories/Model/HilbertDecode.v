(** Level-by-level specification of [CellID.faceIJOrientation] (s2/cellid.go).
    Since the merge with C01 the Go function itself is translated (Gen/CellIDFull.v, lookup
    tables from Model/CellIDTables.v); Proofs/C12_Bridge.v proves, for every uint64 id,
    s2_CellID_faceIJOrientation c = hd_faceIJOrientation c, so this file is a proof device,
    no longer part of the trusted model.

    The Go function walks the 1024-entry table [lookupIJ] that [init()] fills at
    start-up by [initLookupCell]; 8 table steps of 4 levels each.  [initLookupCell]
    is itself the recursive definition of the Hilbert curve: one level at a time, the
    two position bits [d] of that level select the sub-square [posToIJ[o][d]] of the
    current orientation [o], and the orientation becomes [o xor posToOrientation[d]].
    This file is that recursion, executed directly on the 30 levels of the id (the
    3 face bits are the "level 0" value and give the initial orientation [face & 1]).
    It is tied to the Go function by correspondence (observer c12, hook
    VerifC12FaceIJOrientation) and its two small tables are proved equal to the
    translated [s2_posToIJ]/[s2_posToOrientation] in Proofs/C12_Children.v
    ([tables_agree]), so an edit of the Go tables breaks that obligation.
    Definitions only. *)
From Coq Require Import ZArith List Bool.
From Geo Require Import Base.GoPrim.
Import ListNotations.
Local Open Scope Z_scope.

Definition hd_posToIJ : list (list Z) :=
  [[0; 1; 3; 2]; [0; 2; 3; 1]; [3; 2; 0; 1]; [3; 1; 0; 2]].
Definition hd_posToOrientation : list Z := [1; 0; 0; 3].

(** one level: state (i, j, orientation), [d] = the two position bits of that level *)
Definition hd_step (st : Z * Z * Z) (d : Z) : Z * Z * Z :=
  let '(i, j, o) := st in
  let ij := nthZ (nthZ hd_posToIJ o []) d 0 in
  (2 * i + Z.shiftr ij 1, 2 * j + Z.land ij 1, Z.lxor o (nthZ hd_posToOrientation d 0)).

(** state after the [n] most significant levels of the (2n+3)-bit number [x]
    = face bits followed by n pairs of position bits *)
Fixpoint hd_state (n : nat) (x : Z) : Z * Z * Z :=
  match n with
  | O => (0, 0, Z.land x 1)
  | S n' => hd_step (hd_state n' (Z.shiftr x 2)) (Z.land x 3)
  end.

(** (face, i, j, orientation) of the id [v_ci] (a uint64): all 30 levels of the position
    are decoded (for a non-leaf cell the trailing "10 00 .. 00" pairs are decoded as
    levels too, which lands on a leaf next to the cell centre), then the orientation
    is corrected for the parity of the trailing "00" pairs. *)
Definition hd_faceIJOrientation (v_ci : Z) : Z * Z * Z * Z :=
  let '(i, j, o) := hd_state 30 (Z.shiftr v_ci 1) in
  let lsb := Z.land v_ci (- v_ci) in
  let o := if Z.eqb (Z.land lsb 1229782938247303440) 0 then o else Z.lxor o 1 in
  (Z.shiftr v_ci 61, i, j, o).

