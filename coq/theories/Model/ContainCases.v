(** Model/ContainCases.v — instantiation of Model/Contain.v used by the correspondence files
    of C04 (definitions only).  Points are interned by the harness as integers (equal ids iff
    the Go values are [==]); the crossing predicate is a table: the harness lists the
    quadruples (a,b,c,d) for which s2.EdgeOrVertexCrossing(a,b,c,d) is true among those the
    paths of the real code ask for; every other quadruple is "no crossing". *)
From Coq Require Import ZArith List Bool.
From Geo Require Import Model.Contain.
Import ListNotations.
Local Open Scope Z_scope.

Definition quad := (Z * Z * Z * Z)%type.
Definition quad_eqb (x y : quad) : bool :=
  let '(a, b, c, d) := x in
  let '(a', b', c', d') := y in
  (a =? a') && (b =? b') && (c =? c') && (d =? d').
Definition eov_tab (tab : list quad) (a b c d : Z) : bool := existsb (quad_eqb (a, b, c, d)) tab.

(* ids the harness interns first *)
Definition id_origin : Z := 0.   (* OriginPoint() *)
Definition id_zero : Z := 1.     (* Point{} *)
Definition id_empty : Z := 2.    (* emptyLoopPoint (0,0,1) *)
Definition id_full : Z := 3.     (* fullLoopPoint (0,0,-1) *)

Fixpoint list_eqb {A} (e : A -> A -> bool) (x y : list A) : bool :=
  match x, y with
  | [], [] => true
  | a :: x', b :: y' => e a b && list_eqb e x' y'
  | _, _ => false
  end.
Definition opt_eqb {A} (e : A -> A -> bool) (x y : option A) : bool :=
  match x, y with Some a, Some b => e a b | None, None => true | _, _ => false end.

(** one probe against one loop: inputs of the dispatcher and the three observed answers *)
Record lprobe := mk_lprobe
  { lp_p : Z; lp_fresh : bool; lp_bound : bool; lp_shapes : nat; lp_loc : option (icell Z);
    lp_tab : list quad;
    lp_brute : bool;       (* hook: bruteForceContainsPoint *)
    lp_contains : bool;    (* Loop.ContainsPoint *)
    lp_iter : bool }. (* hook: LocatePoint + iteratorContainsPoint *)

Definition check_lprobe (vs : list Z) (oi : bool) (q : lprobe) : bool :=
  let L := mk_loop Z vs oi in
  let e := eov_tab (lp_tab q) in
  Bool.eqb (brute_contains Z e id_origin id_zero L (lp_p q)) (lp_brute q)
  && Bool.eqb (loop_contains_point Z e id_origin id_zero L (lp_fresh q) (lp_bound q) (lp_shapes q)
                                   (lp_loc q) (lp_p q)) (lp_contains q)
  && Bool.eqb (match lp_loc q with
               | None => false
               | Some c => loop_iterator_contains Z e id_zero L c (lp_p q)
               end) (lp_iter q)
  && Bool.eqb (parity Z e id_origin oi (loop_edges Z L) (lp_p q)) (lp_brute q).
Definition check_loop (vs : list Z) (oi : bool) (probes : list lprobe) : bool :=
  forallb (check_lprobe vs oi) probes.

(** Loop.Invert on a loop value *)
Definition check_invert (vs : list Z) (oi : bool) (vs' : list Z) (oi' : bool) : bool :=
  let L' := invert Z id_empty id_full (mk_loop Z vs oi) in
  list_eqb Z.eqb (verts Z L') vs' && Bool.eqb (origin_inside Z L') oi'.

(** initOriginAndBound: [acv_val] = AngleContainsVertex(v0,v1,v2), [south_val] = v0.Z < 0 *)
Definition check_init (vs : list Z) (acv_val south_val : bool) (tab : list quad) (oi : bool) : bool :=
  Bool.eqb (init_origin_inside Z Z.eqb (eov_tab tab) (fun _ _ _ => acv_val) (fun _ => south_val)
                               id_origin id_zero vs) oi.

(** polygons: (vertices, originInside, isHole) per loop *)
Definition mk_polygon (ls : list (list Z * bool * bool)) : polygon Z :=
  map (fun x => let '(vs, oi, hole) := x in (mk_loop Z vs oi, hole)) ls.

Record pprobe := mk_pprobe
  { pp_p : Z; pp_fresh : bool; pp_bound : bool; pp_loc : option (icell Z); pp_tab : list quad;
    pp_brute : bool;        (* XOR of the loops' brute force (hook) *)
    pp_contains : bool;     (* Polygon.ContainsPoint *)
    pp_cpq : bool;          (* ContainsPointQuery(semi-open).Contains on the polygon's index *)
    pp_iter : bool;         (* hook: LocatePoint + Polygon.iteratorContainsPoint *)
    pp_shape_brute : bool }. (* hook: containsBruteForce(polygon, p) *)

Definition check_pprobe (P : polygon Z) (q : pprobe) : bool :=
  let e := eov_tab (pp_tab q) in
  let S := polygon_shape Z id_zero P in
  Bool.eqb (polygon_brute Z e id_origin id_zero P (pp_p q)) (pp_brute q)
  && Bool.eqb (polygon_contains_point Z e id_origin id_zero P (pp_fresh q) (pp_bound q) false
                                      (pp_loc q) (pp_p q)) (pp_contains q)
  && Bool.eqb (cpq_contains Z e id_zero [S] (pp_loc q) (pp_p q)) (pp_cpq q)
  && Bool.eqb (cpq_shape_contains Z e id_zero [S] 0 (pp_loc q) (pp_p q)) (pp_iter q)
  && Bool.eqb (contains_brute_force Z Z.eqb e id_origin id_zero S (pp_p q)) (pp_shape_brute q).
Definition check_polygon (ls : list (list Z * bool * bool)) (probes : list pprobe) : bool :=
  forallb (check_pprobe (mk_polygon ls)) probes.

(** the interior tracker replayed over the cells of a finished one-shape index *)
Definition check_tracker (L : loop Z) (tracker_origin : Z) (first_leaf : Z) (cells : list (tcell Z))
           (tab : list quad) (expected : list (option (list nat))) : bool :=
  let e := eov_tab tab in
  let t0 := add_shapes Z Z.eqb e id_origin id_zero
                       (new_tracker Z id_zero tracker_origin tracker_origin first_leaf)
                       [loop_shape Z id_zero L] in
  list_eqb (opt_eqb (list_eqb Nat.eqb)) (snd (tracker_run Z e t0 cells)) expected.

(** Polygon.Invert: the loops of the result are, as a multiset of (vertices, originInside), the
    loops of the polygon with exactly one of them replaced by its [invert] — the premise of
    [polygon_invert_complement]. *)
Definition lv_eqb (x y : list Z * bool) : bool :=
  list_eqb Z.eqb (fst x) (fst y) && Bool.eqb (snd x) (snd y).
Fixpoint remove_first (x : list Z * bool) (l : list (list Z * bool)) : option (list (list Z * bool)) :=
  match l with
  | [] => None
  | y :: t => if lv_eqb x y then Some t
              else match remove_first x t with Some t' => Some (y :: t') | None => None end
  end.
Fixpoint perm_eqb (l m : list (list Z * bool)) : bool :=
  match l with
  | [] => match m with [] => true | _ => false end
  | x :: t => match remove_first x m with Some m' => perm_eqb t m' | None => false end
  end.
Definition invert_lv (x : list Z * bool) : list Z * bool :=
  let L := invert Z id_empty id_full (mk_loop Z (fst x) (snd x)) in (verts Z L, origin_inside Z L).
(* some loop of P, inverted, together with the other loops of P, is Q *)
Fixpoint one_inverted (before after : list (list Z * bool)) (Q : list (list Z * bool)) : bool :=
  match after with
  | [] => false
  | x :: t => perm_eqb (invert_lv x :: before ++ t) Q || one_inverted (before ++ [x]) t Q
  end.
Definition check_polygon_invert (P Q : list (list Z * bool)) : bool := one_inverted [] P Q.

(** Polygon.Invert, full layout: loops carry their depth.  [best] is the index of the loop the
    implementation chose to invert (the top-level shell of largest area: a float decision, taken
    from the observation); the model then fixes order, depths, vertices and originInside of the
    result: the inverted loop first, then every loop that is not one of its descendants with
    depth+1 (the former siblings — before AND after it — and their descendants), then its
    descendants with depth-1. *)
Definition lvd := (list Z * bool * Z)%type.
Definition lvd_eqb (x y : lvd) : bool := lv_eqb (fst x) (fst y) && (snd x =? snd y).
Fixpoint take_while {A} (f : A -> bool) (l : list A) : list A :=
  match l with [] => [] | x :: t => if f x then x :: take_while f t else [] end.
Definition inv_layout (P : list lvd) (best : nat) : list lvd :=
  match nth_error P best with
  | None => []
  | Some b =>
    let d := snd b in
    let desc := take_while (fun x : lvd => d <? snd x) (skipn (S best) P) in
    let after := skipn (S best + length desc) P in
    (invert_lv (fst b), d)
      :: map (fun x : lvd => (fst x, snd x + 1)) (firstn best P ++ after)
      ++ map (fun x : lvd => (fst x, snd x - 1)) desc
  end.
Definition check_polygon_invert_layout (P : list lvd) (best : nat) (Q : list lvd) : bool :=
  match nth_error P best with
  | Some b => (snd b =? 0) && list_eqb lvd_eqb (inv_layout P best) Q
  | None => false
  end.
