(** Executable model of s2/regioncoverer.go (plus CellUnion.Normalize / Denormalize of
    s2/cellunion.go and the Push/Pop/up/down of container/heap), over cell ids as [Z].

    The model is PARAMETRIC in the region:
      [intersects], [contains] : the region's IntersectsCell / ContainsCell as functions of the cell id,
      [bound]                  : its CellUnionBound(),
      [fallback]               : what [rc.Covering(&covering)] returns inside normalizeCovering's
                                 "very large covering" branch, as a function of the coverer (whose
                                 options rc copies) and of the covering; see [cu_fallback] at the end.
    The integer leaf functions of cellid.go ([s2_CellID_*]) are the translator's output
    (Gen/CellIDCov.v), regenerated from /repo on every run.  Definitions only; no proofs here. *)
From Coq Require Import ZArith List Bool Sorting.Mergesort Orders FSets.FMapPositive.
From Geo Require Import Base.GoPrim Gen.CellIDCov.
From Geo Require Import Gen.CellID.  (* s2_CellID_Next *)
From Geo Require Import Gen.CellIDFull.  (* s2_CellID_CommonAncestorLevel *)
Import ListNotations.
Local Open Scope Z_scope.

Definition len {A} (l : list A) : Z := Z.of_nat (length l).

(** ** sort.Sort on []CellID (uint64 order).  Equal ids are indistinguishable, so any sorting
    algorithm returns the same slice as Go's (unstable) pdqsort. *)
Module ZOrder <: TotalLeBool.
  Definition t := Z.
  Definition leb := Z.leb.
  Theorem leb_total : forall a1 a2, leb a1 a2 = true \/ leb a2 a1 = true.
  Proof. intros a b; unfold leb; destruct (Z.leb_spec a b); [now left|right]; apply Z.leb_le; apply Z.lt_le_incl; assumption. Qed.
End ZOrder.
Module ZSort := Sort ZOrder.
Definition sortCellIDs (l : list Z) : list Z := ZSort.sort l.

(** ** sort.Search (binary search), transcribed; [fuel] = n + 1 always suffices. *)
Fixpoint search_loop (fuel : nat) (f : Z -> bool) (i j : Z) : Z :=
  match fuel with
  | O => i
  | S fu => if i <? j then
              let h := Z.shiftr (i + j) 1 in
              if negb (f h) then search_loop fu f (h + 1) j else search_loop fu f i h
            else i
  end.
Definition sort_Search (n : Z) (f : Z -> bool) : Z := search_loop (S (Z.to_nat n)) f 0 n.

(** ** Iteration over consecutive cells: [for ci := b; ci != e; ci = ci.Next()] *)
Fixpoint cells_from_to (fuel : nat) (ci last : Z) : list Z :=
  match fuel with
  | O => []
  | S f => if ci =? last then [] else ci :: cells_from_to f (s2_CellID_Next ci) last
  end.
(** the loop of expandChildren: [ChildBegin .. ChildEnd) has 4 elements for a non-leaf cell *)
Definition children4 (c : Z) : list Z := cells_from_to 4 (s2_CellID_ChildBegin c) (s2_CellID_ChildEnd c).
(** descendants [k] levels below [c], in Hilbert (= id) order: the sequence
    [ChildBeginAtLevel(l+k) .. ChildEndAtLevel(l+k))] visited by Denormalize *)
Fixpoint descend (k : nat) (c : Z) : list Z :=
  match k with
  | O => [c]
  | S k' => flat_map (descend k') (children4 c)
  end.

(** ** CellUnion.Normalize *)
Fixpoint pop_contained (ci : Z) (rout : list Z) : list Z :=
  match rout with
  | o :: r => if s2_CellID_Contains ci o then pop_contained ci r else rout
  | [] => []
  end.
(** the sibling-collapse loop; [rout] is the output so far, last element first *)
Fixpoint collapse_siblings (fuel : nat) (rout : list Z) (ci : Z) : list Z * Z :=
  match fuel with
  | O => (rout, ci)
  | S f =>
      match rout with
      | o1 :: o2 :: o3 :: r =>
          if s2_areSiblings o3 o2 o1 ci then collapse_siblings f r (s2_CellID_immediateParent ci)
          else (rout, ci)
      | _ => (rout, ci)
      end
  end.
Definition normalize_step (rout : list Z) (ci : Z) : list Z :=
  match rout with
  | o :: _ => if s2_CellID_Contains o ci then rout else
                let rout1 := pop_contained ci rout in
                let '(rout2, ci') := collapse_siblings (length rout1) rout1 ci in
                ci' :: rout2
  | [] => [ci]
  end.
Definition cu_Normalize (cu : list Z) : list Z := rev (fold_left normalize_step (sortCellIDs cu) []).

(** ** CellUnion.Denormalize *)
Definition denorm_level (minLevel levelMod level : Z) : Z :=
  let newLevel := if level <? minLevel then minLevel else level in
  if levelMod >? 1 then
    let nl := newLevel + Z.rem (30 - (newLevel - minLevel)) levelMod in
    if nl >? 30 then 30 else nl
  else newLevel.
Definition cu_Denormalize (minLevel levelMod : Z) (cu : list Z) : list Z :=
  flat_map (fun id =>
    let level := s2_CellID_Level id in
    let newLevel := denorm_level minLevel levelMod level in
    if newLevel =? level then [id] else descend (Z.to_nat (newLevel - level)) id) cu.

(** ** CellUnion as a region (id-range logic of ContainsCellID / IntersectsCellID) *)
Definition cu_IntersectsCellID (cu : list Z) (id : Z) : bool :=
  let n := len cu in
  let i := sort_Search n (fun i => id <? nthZ cu i 0) in
  if negb (i =? n) && (s2_CellID_RangeMin (nthZ cu i 0) <=? s2_CellID_RangeMax id) then true
  else negb (i =? 0) && (s2_CellID_RangeMax (nthZ cu (i - 1) 0) >=? s2_CellID_RangeMin id).
Definition cu_ContainsCellID (cu : list Z) (id : Z) : bool :=
  let n := len cu in
  let i := sort_Search n (fun i => id <? nthZ cu i 0) in
  if negb (i =? n) && (s2_CellID_RangeMin (nthZ cu i 0) <=? id) then true
  else negb (i =? 0) && (s2_CellID_RangeMax (nthZ cu (i - 1) 0) >=? id).

(** ** The coverer *)
Record opts := mkOpts { o_MinLevel : Z; o_MaxLevel : Z; o_LevelMod : Z; o_MaxCells : Z }.
Record coverer := mkCoverer { minLevel : Z; maxLevel : Z; levelMod : Z; maxCells : Z; interior : bool }.

Definition clampMinLevel (rc : opts) : Z := s2_maxInt 0 [s2_minInt 30 [o_MinLevel rc]].
Definition clampMaxLevel (rc : opts) : Z := s2_maxInt 0 [s2_minInt 30 [o_MaxLevel rc]].
Definition clampLevelMod (rc : opts) : Z := s2_maxInt 1 [s2_minInt 3 [o_LevelMod rc]].
Definition newCoverer (rc : opts) (inter : bool) : coverer :=
  mkCoverer (clampMinLevel rc) (clampMaxLevel rc) (clampLevelMod rc) (o_MaxCells rc) inter.
(** NewRegionCoverer() *)
Definition default_opts : opts := mkOpts 0 30 1 8.

(** a queued candidate: cell, numChildren, children (cell, terminal), priority *)
Record qcand := mkQ { q_id : Z; q_nch : Z; q_children : list (Z * bool); q_prio : Z }.
Definition q_dummy : qcand := mkQ 0 0 [] 0.

(** *** container/heap over a slice, with priorityQueue.Less(i, j) = pq[i].priority > pq[j].priority *)
Definition pq_less (h : list qcand) (i j : nat) : bool :=
  q_prio (nth i h q_dummy) >? q_prio (nth j h q_dummy).
Definition pq_swap (h : list qcand) (i j : nat) : list qcand :=
  let a := nth i h q_dummy in
  let b := nth j h q_dummy in
  upd_nat (upd_nat h i b) j a.
Fixpoint heap_up (fuel : nat) (h : list qcand) (j : nat) : list qcand :=
  match fuel with
  | O => h
  | S f =>
      let i := Nat.div (j - 1) 2 in  (* Go: (j-1)/2 truncates toward zero, so j = 0 gives i = 0 *)
      if Nat.eqb i j || negb (pq_less h j i) then h
      else heap_up f (pq_swap h i j) i
  end.
Fixpoint heap_down (fuel : nat) (h : list qcand) (i n : nat) : list qcand :=
  match fuel with
  | O => h
  | S f =>
      let j1 := (2 * i + 1)%nat in
      if Nat.leb n j1 then h else
      let j2 := (j1 + 1)%nat in
      let j := if Nat.ltb j2 n && pq_less h j2 j1 then j2 else j1 in
      if negb (pq_less h j i) then h
      else heap_down f (pq_swap h i j) j n
  end.
Definition heap_Push (h : list qcand) (x : qcand) : list qcand :=
  let h' := h ++ [x] in heap_up (length h') h' (length h' - 1).
Definition heap_Pop (h : list qcand) : option (qcand * list qcand) :=
  match h with
  | [] => None
  | _ => let n := (length h - 1)%nat in
         let h1 := pq_swap h 0 n in
         let h2 := heap_down (S n) h1 0 n in
         Some (nth n h2 q_dummy, firstn n h2)
  end.

(** loop with 2^(n+1) - 1 units of fuel (n is a small nat; the fuel itself is never built) *)
Fixpoint iter2 {S R : Type} (n : nat) (f : S -> S + R) (s : S) : S + R :=
  match n with
  | O => f s
  | Datatypes.S n' => match iter2 n' f s with
                      | inl s' => iter2 n' f s'
                      | inr r => inr r
                      end
  end.

Section Region.
  Variable intersects contains : Z -> bool.
  Variable bound : list Z.
  Variable fallback : coverer -> list Z -> option (list Z).

  Section WithCoverer.
  Variable cv : coverer.

  (** newCandidate: [None] = nil; [Some (id, terminal)] *)
  Definition newCandidate (id : Z) : option (Z * bool) :=
    if negb (intersects id) then None else
    let level := s2_CellID_Level id in
    if level >=? minLevel cv then
      if interior cv then
        if contains id then Some (id, true)
        else if level + levelMod cv >? maxLevel cv then None
        else Some (id, false)
      else if (level + levelMod cv >? maxLevel cv) || contains id then Some (id, true)
      else Some (id, false)
    else Some (id, false).

  (** expandChildren; [n] is numLevels after the decrement; the state is
      (cand.children, numTerminals) *)
  Fixpoint expandChildren (n : nat) (cell : Z) (st : list (Z * bool) * Z) : list (Z * bool) * Z :=
    fold_left (fun st ci =>
      match n with
      | S n' => if intersects ci then expandChildren n' ci st else st
      | O => match newCandidate ci with
             | Some ch => (fst st ++ [ch], if snd ch then snd st + 1 else snd st)
             | None => st
             end
      end) (children4 cell) st.

  (** addCandidate on a non-nil candidate; state = (result, pq) *)
  Definition addCandidate (st : list Z * list qcand) (cand : Z * bool) : list Z * list qcand :=
    let '(result, pq) := st in
    let '(id, terminal) := cand in
    if terminal then (result ++ [id], pq) else
    let level := s2_CellID_Level id in
    let numLevels := if level <? minLevel cv then 1 else levelMod cv in
    let '(children, numTerminals) := expandChildren (Z.to_nat (numLevels - 1)) id ([], 0) in
    let numChildren := len children in
    let maxChildrenShift := 2 * levelMod cv in
    if numChildren =? 0 then st
    else if negb (interior cv) && (numTerminals =? Z.shiftl 1 maxChildrenShift) && (level >=? minLevel cv)
    then (result ++ [id], pq)
    else
      let priority := - (Z.shiftl (Z.shiftl level maxChildrenShift + numChildren) maxChildrenShift + numTerminals) in
      (result, heap_Push pq (mkQ id numChildren children priority)).

  Definition adjustLevel (level : Z) : Z :=
    if (levelMod cv >? 1) && (level >? minLevel cv) then level - Z.rem (level - minLevel cv) (levelMod cv)
    else level.

  Definition adjust_step (rout : list Z) (ci : Z) : list Z :=
    let level := s2_CellID_Level ci in
    let newLevel := adjustLevel level in
    let ci := if negb (newLevel =? level) then s2_CellID_Parent ci newLevel else ci in
    match rout with
    | o :: _ => if s2_CellID_Contains o ci then rout else ci :: pop_contained ci rout
    | [] => [ci]
    end.
  Definition adjustCellLevels (cells : list Z) : list Z :=
    if levelMod cv =? 1 then cells else rev (fold_left adjust_step cells []).

  (** isCanonical; the fold state is (still ok, sameParentCount, prevID) *)
  Definition isCanonical (covering : list Z) : bool :=
    let trueMax := if negb (levelMod cv =? 1)
                   then maxLevel cv - Z.rem (maxLevel cv - minLevel cv) (levelMod cv) else maxLevel cv in
    let tooManyCells := len covering >? maxCells cv in
    let '(ok, _, _) :=
      fold_left (fun '(ok, spc, prevID) id =>
        if negb ok then (false, spc, prevID) else
        if negb (s2_CellID_IsValid id) then (false, spc, prevID) else
        let level := s2_CellID_Level id in
        if (level <? minLevel cv) || (level >? trueMax) then (false, spc, prevID) else
        if (levelMod cv >? 1) && negb (Z.rem (level - minLevel cv) (levelMod cv) =? 0) then (false, spc, prevID) else
        if negb (prevID =? 0) then
          if s2_CellID_RangeMax prevID >=? s2_CellID_RangeMin id then (false, spc, prevID) else
          let '(lev, okc) := s2_CellID_CommonAncestorLevel id prevID in
          if tooManyCells && (okc && (lev >=? minLevel cv)) then (false, spc, prevID) else
          let pLevel := level - levelMod cv in
          if (pLevel <? minLevel cv) || negb (level =? s2_CellID_Level prevID)
             || negb (s2_CellID_Parent id pLevel =? s2_CellID_Parent prevID pLevel)
          then (true, 1, id)
          else let spc' := spc + 1 in
               if spc' =? Z.shiftl 1 (2 * levelMod cv) then (false, spc', prevID) else (true, spc', id)
        else (true, spc, id)) covering (true, 1, 0) in
    ok.

  Definition containsAllChildren (covering : list Z) (id : Z) : bool :=
    let n := len covering in
    let pos := sort_Search n (fun i => nthZ covering i 0 >=? s2_CellID_RangeMin id) in
    let level := s2_CellID_Level id + levelMod cv in
    let kids := cells_from_to 64 (s2_CellID_ChildBeginAtLevel id level) (s2_CellID_ChildEndAtLevel id level) in
    fst (fold_left (fun '(ok, pos) child =>
           if negb ok then (false, pos) else
           if (pos =? n) || negb (nthZ covering pos 0 =? child) then (false, pos) else (true, pos + 1))
         kids (true, pos)).

  Definition replaceCellsWithAncestor (covering : list Z) (id : Z) : list Z :=
    let n := len covering in
    let begin_ := sort_Search n (fun i => nthZ covering i 0 >? s2_CellID_RangeMin id) in
    let end_ := sort_Search n (fun i => nthZ covering i 0 >? s2_CellID_RangeMax id) in
    firstn (Z.to_nat begin_) covering ++ [id] ++ skipn (Z.to_nat end_) covering.

  (** the scan for the adjacent pair with the deepest (adjusted) common ancestor *)
  Definition best_pair (covering : list Z) : Z * Z :=
    fold_left (fun '(bestIndex, bestLevel) i =>
        let '(level, ok) := s2_CellID_CommonAncestorLevel (nthZ covering i 0) (nthZ covering (i + 1) 0) in
        if negb ok then (bestIndex, bestLevel) else
        let level := adjustLevel level in
        if level >? bestLevel then (i, level) else (bestIndex, bestLevel))
      (zrange_up 0 (len covering - 1)) (-1, -1).

  Fixpoint merge_up (fuel : nat) (covering : list Z) (id bestLevel : Z) : list Z :=
    match fuel with
    | O => covering
    | S f =>
        if bestLevel >? minLevel cv then
          let bestLevel := bestLevel - levelMod cv in
          let id := s2_CellID_Parent id bestLevel in
          if negb (containsAllChildren covering id) then covering
          else merge_up f (replaceCellsWithAncestor covering id) id bestLevel
        else covering
    end.

  Fixpoint greedy_merge (fuel : nat) (covering : list Z) : list Z :=
    match fuel with
    | O => covering
    | S f =>
        if len covering >? maxCells cv then
          let '(bestIndex, bestLevel) := best_pair covering in
          if bestLevel <? minLevel cv then covering else
          let id := s2_CellID_Parent (nthZ covering bestIndex 0) bestLevel in
          let covering := replaceCellsWithAncestor covering id in
          greedy_merge f (merge_up 31 covering id bestLevel)
        else covering
    end.

  Definition normalizeCovering (covering : list Z) : option (list Z) :=
    let cov1 := if (maxLevel cv <? 30) || (levelMod cv >? 1) then
                  map (fun ci => let level := s2_CellID_Level ci in
                                 let newLevel := adjustLevel (s2_minInt level [maxLevel cv]) in
                                 if negb (newLevel =? level) then s2_CellID_Parent ci newLevel else ci) covering
                else covering in
    let cov2 := cu_Normalize cov1 in
    let cov3 := if (minLevel cv >? 0) || (levelMod cv >? 1)
                then cu_Denormalize (minLevel cv) (levelMod cv) cov2 else cov2 in
    let excess := len cov3 - maxCells cv in
    if (excess <=? 0) || isCanonical cov3 then Some cov3
    else if excess * len cov3 >? 10000 then fallback cv cov3
    else Some (greedy_merge (length cov3) cov3).

  End WithCoverer.

  Definition FastCovering (rc : opts) : option (list Z) := normalizeCovering (newCoverer rc false) bound.

  (** initialCandidates: state = (result, pq), starting empty *)
  Definition initialCandidates (cv : coverer) : option (list Z * list qcand) :=
    let temp := mkOpts 0 (maxLevel cv) 1 (s2_minInt 4 [maxCells cv]) in
    match FastCovering temp with
    | None => None
    | Some cells =>
        let cells := adjustCellLevels cv cells in
        Some (fold_left (fun st ci => match newCandidate cv ci with
                                      | Some cand => addCandidate cv st cand
                                      | None => st
                                      end) cells ([], []))
    end.

  (** one iteration of coveringInternal's main loop; [inr] = loop exit *)
  Definition cover_step (cv : coverer) (st : list Z * list qcand) : (list Z * list qcand) + (list Z * list qcand) :=
    let '(result, pq) := st in
    if (len pq >? 0) && (negb (interior cv) || (len result <? maxCells cv)) then
      match heap_Pop pq with
      | None => inr st
      | Some (cand, pq') =>
          if interior cv || (s2_CellID_Level (q_id cand) <? minLevel cv) || (q_nch cand =? 1)
             || (len result + len pq' + q_nch cand <=? maxCells cv)
          then inl (fold_left (fun st child =>
                      if negb (interior cv) || (len (fst st) <? maxCells cv) then addCandidate cv st child else st)
                    (q_children cand) (result, pq'))
          else inl (result ++ [q_id cand], pq')
      end
    else inr st.

  (** the Go loop has no fuel; the model gives it 2^(201 + number of initial queue entries) - 1
      iterations and reports [None] beyond (Proofs/C05_Main.v: never reached for valid bounds). *)
  Definition loop_fuel (st0 : list Z * list qcand) : nat := (200 + length (snd st0))%nat.

  Definition coveringInternal (cv : coverer) : option (list Z) :=
    match initialCandidates cv with
    | None => None
    | Some st0 =>
        match iter2 (loop_fuel st0) (cover_step cv) st0 with
        | inl _ => None
        | inr (result, _) =>
            let r := cu_Normalize result in
            Some (if (minLevel cv >? 0) || (levelMod cv >? 1)
                  then cu_Denormalize (minLevel cv) (levelMod cv) r else r)
        end
    end.

  Definition CellUnion (rc : opts) : option (list Z) :=
    option_map cu_Normalize (coveringInternal (newCoverer rc false)).
  Definition InteriorCellUnion (rc : opts) : option (list Z) :=
    option_map cu_Normalize (coveringInternal (newCoverer rc true)).
  Definition Covering (rc : opts) : option (list Z) :=
    option_map (cu_Denormalize (clampMinLevel rc) (clampLevelMod rc)) (CellUnion rc).
  Definition InteriorCovering (rc : opts) : option (list Z) :=
    option_map (cu_Denormalize (clampMinLevel rc) (clampLevelMod rc)) (InteriorCellUnion rc).
End Region.

(** ** The fallback of normalizeCovering (after /repo 81ed250):
      rc := &RegionCoverer{MinLevel: c.minLevel, MaxLevel: c.MaxLevel, LevelMod: c.levelMod, MaxCells: c.maxCells}
      *covering = rc.Covering(covering)
    i.e. a coverer with the same options run on the cell union itself as the region.  [cubound]
    stands for [covering.CapBound().CellUnionBound()] (float geometry, outside this model).  The
    nested run computes its initial candidates with FastCovering and may reach this branch again
    (it does when MaxCells is very negative); the Go recursion ends because every nested bound is
    coarser than the previous one.  The model bounds the nesting by [depth] and reports [None] beyond. *)
Fixpoint cu_fallback (depth : nat) (cubound : list Z -> list Z) (cv : coverer) (cu : list Z) : option (list Z) :=
  match depth with
  | O => None
  | S d => Covering (cu_IntersectsCellID cu) (cu_ContainsCellID cu) (cubound cu) (cu_fallback d cubound)
                    (mkOpts (minLevel cv) (maxLevel cv) (levelMod cv) (maxCells cv))
  end.
(** nesting allowed in the correspondence runs and in the instantiated theorems *)
Definition fallback_depth : nat := 64.

(** ** Tables recorded from the implementation, as functions (for the correspondence files) *)
Definition table_of (l : list (Z * bool)) : PositiveMap.t bool :=
  fold_left (fun m '(k, v) => match k with Zpos p => PositiveMap.add p v m | _ => m end) l (PositiveMap.empty bool).
Definition table_fun (l : list (Z * bool)) (d : bool) : Z -> bool :=
  let m := table_of l in
  fun k => match k with
           | Zpos p => match PositiveMap.find p m with Some v => v | None => d end
           | _ => d
           end.
Definition table2 (t f : list Z) (d : bool) : Z -> bool :=
  table_fun (map (fun k => (k, true)) t ++ map (fun k => (k, false)) f) d.
(** CellUnionBounds recorded from the implementation, keyed by the cell union *)
Definition cubound_table (l : list (list Z * list Z)) : list Z -> list Z :=
  fun cu => match find (fun '(k, _) => list_eqb Z.eqb k cu) l with Some (_, v) => v | None => [] end.

Definition olist_eqb (a : option (list Z)) (b : list Z) : bool :=
  match a with Some l => list_eqb Z.eqb l b | None => false end.
