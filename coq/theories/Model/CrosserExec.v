(** Executable instance of Model/Crosser.v used by the correspondence check (C03):
      point   := the translated record s2_Point
      peq     := s2_Point_eqb                      (Go ==)
      triage  := the translated s2.triageSign      (Gen.S2Pred)
      tangent := the float computation of NewEdgeCrosser + crossingSign, written with the
                 translated r3.Vector.Cross / Dot and s2.Point.PointCross
      refdir  := the translated s2.Point.referenceDir
      sign    := lookup in a table of RobustSign values recorded by the observer for every
                 triple a history can touch (a missing entry yields 2, which is no Direction,
                 so a lookup outside the table cannot go unnoticed)
    Definitions only. *)
From Coq Require Import ZArith List Bool Floats.
From Geo Require Import Base.GoPrim Gen.R3 Gen.S2Point Gen.S2Pred Model.Crosser.
Import ListNotations.
Local Open Scope Z_scope.
Local Open Scope bool_scope.

Definition x_sign_entry := (s2_Point * s2_Point * s2_Point * Z)%type.

Fixpoint x_lookup_sign (t : list x_sign_entry) (a b c : s2_Point) : Z :=
  match t with
  | [] => 2
  | (x, y, z, v) :: r =>
      if s2_Point_eqbits a x && s2_Point_eqbits b y && s2_Point_eqbits c z then v
      else x_lookup_sign r a b c
  end.

(** NewEdgeCrosser *)
Definition x_norm (a b : s2_Point) : s2_Point := s2_Point_PointCross a b.
Definition x_aXb (a b : s2_Point) : s2_Point :=
  mk_s2_Point (r3_Vector_Cross (s2_Point_Vector a) (s2_Point_Vector b)).
Definition x_aTangent (a b : s2_Point) : s2_Point :=
  mk_s2_Point (r3_Vector_Cross (s2_Point_Vector a) (s2_Point_Vector (x_norm a b))).
Definition x_bTangent (a b : s2_Point) : s2_Point :=
  mk_s2_Point (r3_Vector_Cross (s2_Point_Vector (x_norm a b)) (s2_Point_Vector b)).

(** crossingSign: maxError := (1.5 + 1/math.Sqrt(3)) * dblEpsilon, evaluated in float64 *)
Definition x_maxError : float :=
  PrimFloat.mul (PrimFloat.add (0x1.8p+0)%float (PrimFloat.div (0x1p+0)%float (PrimFloat.sqrt (0x1.8p+1)%float)))
                (0x1p-52)%float.

Definition x_tangent (a b c d : s2_Point) : bool :=
  let aT := s2_Point_Vector (x_aTangent a b) in
  let bT := s2_Point_Vector (x_bTangent a b) in
  (PrimFloat.ltb x_maxError (r3_Vector_Dot (s2_Point_Vector c) aT) &&
   PrimFloat.ltb x_maxError (r3_Vector_Dot (s2_Point_Vector d) aT)) ||
  (PrimFloat.ltb x_maxError (r3_Vector_Dot (s2_Point_Vector c) bT) &&
   PrimFloat.ltb x_maxError (r3_Vector_Dot (s2_Point_Vector d) bT)).

(** the zero Point a fresh EdgeCrosser holds in [c] *)
Definition x_zero : s2_Point := mk_s2_Point (mk_r3_Vector 0%float 0%float 0%float).

Definition xop := op s2_Point.
Definition xRestart : s2_Point -> xop := Restart s2_Point.
Definition xChain : s2_Point -> xop := Chain s2_Point.
Definition xCross : s2_Point -> s2_Point -> xop := CrossOp s2_Point.
Definition xEoV : s2_Point -> s2_Point -> xop := EoV s2_Point.
Definition xEoVChain : s2_Point -> xop := EoVChain s2_Point.

Definition x_run (t : list x_sign_entry) (a b : s2_Point) (ops : list xop) :=
  run s2_Point s2_Point_eqb (x_lookup_sign t) s2_triageSign x_tangent s2_Point_referenceDir
      a b (init s2_Point x_zero) ops.

Definition out_code (o : out) : Z :=
  match o with
  | ONone => -1
  | OCross x => crossing_code x
  | OBool false => 10
  | OBool true => 11
  end.

(** observed after one call: cached vertex, cached acb, output code *)
Definition x_obs := (s2_Point * Z * Z)%type.

Fixpoint x_agree (r : list (state s2_Point * out)) (o : list x_obs) : bool :=
  match r, o with
  | [], [] => true
  | (s, w) :: r', (c, acb, code) :: o' =>
      s2_Point_eqbits (st_c s2_Point s) c && (st_acb s2_Point s =? acb) && (out_code w =? code)
      && x_agree r' o'
  | _, _ => false
  end.

Definition x_check_history (t : list x_sign_entry) (a b : s2_Point) (ops : list xop)
    (o : list x_obs) : bool :=
  x_agree (x_run t a b ops) o.

(** stateless functions *)
Definition x_crossing_sign (t : list x_sign_entry) (a b c d : s2_Point) : Z :=
  crossing_code (crossing_sign s2_Point s2_Point_eqb (x_lookup_sign t) s2_triageSign x_tangent a b c d).
Definition x_vertex_crossing (t : list x_sign_entry) (a b c d : s2_Point) : bool :=
  vertex_crossing s2_Point s2_Point_eqb (x_lookup_sign t) s2_Point_referenceDir a b c d.
Definition x_edge_or_vertex_crossing (t : list x_sign_entry) (a b c d : s2_Point) : bool :=
  edge_or_vertex_crossing s2_Point s2_Point_eqb (x_lookup_sign t) s2_triageSign x_tangent
    s2_Point_referenceDir a b c d.
Definition x_angle_contains_vertex (t : list x_sign_entry) (a b c : s2_Point) : bool :=
  angle_contains_vertex s2_Point (x_lookup_sign t) s2_Point_referenceDir a b c.
Definition x_ordered_ccw (t : list x_sign_entry) (a b c o : s2_Point) : bool :=
  ordered_ccw s2_Point (x_lookup_sign t) a b c o.
(** the specification itself, evaluated on the recorded exact signs *)
Definition x_crossing_spec (t : list x_sign_entry) (a b c d : s2_Point) : Z :=
  crossing_code (crossing_spec s2_Point s2_Point_eqb (x_lookup_sign t) a b c d).
