(** Hand-written model of [Cell.latitude] / [Cell.longitude] (s2/cell.go): the Go
    functions select one of the four uv-corners by a [switch] whose default branch
    panics, which the translator does not take.  The corner selection is copied here;
    the arithmetic is the translated [s2_faceUVToXYZ], [s2_latitude], [s2_longitude].
    For (i,j) outside {0,1}² (Go: panic) the model returns NaN.  [Cell.RectBound] is
    translated against these two definitions (Gen/CellRect.v).
    Tied to the Go functions by correspondence (observer c12).  Definitions only. *)
From Coq Require Import ZArith List Bool Floats.
From Geo Require Import Base.GoPrim Gen.CellGeom.
Local Open Scope Z_scope.

Definition cell_corner_uv (v_c : s2_Cell) (v_i v_j : Z) : option (float * float) :=
  let X := r2_Rect_X (s2_Cell_uv v_c) in
  let Y := r2_Rect_Y (s2_Cell_uv v_c) in
  if (v_i =? 0) && (v_j =? 0) then Some (r1_Interval_Lo X, r1_Interval_Lo Y)
  else if (v_i =? 0) && (v_j =? 1) then Some (r1_Interval_Lo X, r1_Interval_Hi Y)
  else if (v_i =? 1) && (v_j =? 0) then Some (r1_Interval_Hi X, r1_Interval_Lo Y)
  else if (v_i =? 1) && (v_j =? 1) then Some (r1_Interval_Hi X, r1_Interval_Hi Y)
  else None.

Definition s2_Cell_latitude (v_c : s2_Cell) (v_i v_j : Z) : float :=
  match cell_corner_uv v_c v_i v_j with
  | Some (u, v) => s1_Angle_Radians (s2_latitude (mk_s2_Point (s2_faceUVToXYZ (wrap_i64 (s2_Cell_face v_c)) u v)))
  | None => nan
  end.

Definition s2_Cell_longitude (v_c : s2_Cell) (v_i v_j : Z) : float :=
  match cell_corner_uv v_c v_i v_j with
  | Some (u, v) => s1_Angle_Radians (s2_longitude (mk_s2_Point (s2_faceUVToXYZ (wrap_i64 (s2_Cell_face v_c)) u v)))
  | None => nan
  end.
