(** C07 — SPECIFICATION-LEVEL model of the loop and polygon relations of s2/loop.go and
    s2/polygon.go (definitions only).

    The parallel walk of the two shape indexes (hasCrossingRelation, loopCrosser) is replaced
    by its specification: "some edge of A and some edge of B have CrossingSign = Cross, or at
    some shared vertex the relation's wedge test fires" — brute force over all edge pairs and
    all shared vertices. Everything AROUND that call is kept as in the Go text: the bounding
    rectangle prefilters (abstract booleans [sub_contains], [bound_intersects],
    [bound_union_full] of the two loops), the empty/full cases, the three relations'
    [wedgesCross], the vertex-containment follow-up tests, and the polygon layer.

    The predicates below this layer are parameters: [peq] (Go == on points), [ordered_ccw]
    (s2.OrderedCCW), [crossing_sign] (s2.CrossingSign), [contains_point] (Loop.ContainsPoint).
    The index walk itself is tied to this model by correspondence only. *)
From Coq Require Import List Bool Arith ZArith.
From Geo Require Import Model.Wedge.
Import ListNotations.

Inductive crossing := Cross | Maybe | DoNotCross.
Definition is_cross (c : crossing) : bool := match c with Cross => true | _ => false end.

Inductive lkind := KEmpty | KFull | KNormal.

(** cyclic successor / predecessor of a vertex index (Loop.Vertex wraps modulo the length) *)
Definition succ_i (n i : nat) : nat := if Nat.eqb (S i) n then 0 else S i.
Definition pred_i (n i : nat) : nat := if Nat.eqb i 0 then n - 1 else i - 1.

Section Relations.
  Variable point : Type.
  Variable peq : point -> point -> bool.
  Variable ordered_ccw : point -> point -> point -> point -> bool.
  Variable crossing_sign : point -> point -> point -> point -> crossing.  (* CrossingSign(a,b,c,d) *)
  Variable empty_pt full_pt : point.          (* emptyLoopPoint, fullLoopPoint *)

  (** A loop value: the empty and full loops are one-vertex loops in Go; [l_oi] is originInside
      (only flipped here; it is read by ContainsPoint, a parameter). *)
  Record loop := mk_loop { l_kind : lkind; l_verts : list point; l_oi : bool }.

  Variable contains_point : loop -> point -> bool.      (* Loop.ContainsPoint *)
  (** bound prefilters, as the booleans the Go code computes from the cached rectangles *)
  Variable sub_contains : loop -> loop -> bool.          (* A.subregionBound.Contains(B.bound) *)
  Variable bound_intersects : loop -> loop -> bool.      (* A.bound.Intersects(B.bound) *)
  Variable bound_union_full : loop -> loop -> bool.      (* A.bound.Union(B.bound).IsFull() *)

  Definition is_empty (A : loop) := match l_kind A with KEmpty => true | _ => false end.
  Definition is_full (A : loop) := match l_kind A with KFull => true | _ => false end.
  Definition is_empty_or_full (A : loop) := match l_kind A with KNormal => false | _ => true end.

  Definition empty_loop := mk_loop KEmpty [empty_pt] false.
  Definition full_loop := mk_loop KFull [full_pt] true.

  (** Loop.Invert: reverse the vertex slice (empty <-> full), flip originInside *)
  Definition invert (A : loop) : loop :=
    match l_kind A with
    | KEmpty => mk_loop KFull [full_pt] (negb (l_oi A))
    | KFull => mk_loop KEmpty [empty_pt] (negb (l_oi A))
    | KNormal => mk_loop KNormal (rev (l_verts A)) (negb (l_oi A))
    end.

  (** edges (v_j, v_j+1) and wedges (v_i-1, v_i, v_i+1) of a closed vertex chain *)
  Definition wedge := (point * point * point)%type.
  Definition w0 (w : wedge) := fst (fst w).
  Definition w1 (w : wedge) := snd (fst w).
  Definition w2 (w : wedge) := snd w.

  Definition cyc_edges (l : list point) : list (point * point) :=
    match l with
    | [] => []
    | d :: _ => map (fun i => (nth i l d, nth (succ_i (length l) i) l d)) (seq 0 (length l))
    end.
  Definition cyc_wedges (l : list point) : list wedge :=
    match l with
    | [] => []
    | d :: _ => map (fun i => (nth (pred_i (length l) i) l d, nth i l d, nth (succ_i (length l) i) l d))
                    (seq 0 (length l))
    end.

  (** Loop.NumEdges is 0 for the empty and full loops *)
  Definition edges (A : loop) := if is_empty_or_full A then [] else cyc_edges (l_verts A).
  Definition wedges (A : loop) := if is_empty_or_full A then [] else cyc_wedges (l_verts A).

  (** --- specification of hasCrossingRelation ---------------------------------------- *)
  Definition edge_cross (A B : loop) : bool :=
    existsb (fun ea => existsb (fun eb =>
      is_cross (crossing_sign (fst ea) (snd ea) (fst eb) (snd eb))) (edges B)) (edges A).

  (** all pairs (wedge of A, wedge of B) around a common vertex *)
  Definition shared (A B : loop) : list (wedge * wedge) :=
    filter (fun p => peq (w1 (fst p)) (w1 (snd p))) (list_prod (wedges A) (wedges B)).
  Definition found_shared (A B : loop) : bool := existsb (fun _ => true) (shared A B).

  (* containsRelation.wedgesCross: !WedgeContains(a0, ab1, a2, b0, b2) *)
  Definition has_crossing_contains (A B : loop) : bool :=
    edge_cross A B ||
    existsb (fun p => negb (wedge_contains point ordered_ccw
        (w0 (fst p)) (w1 (fst p)) (w2 (fst p)) (w0 (snd p)) (w2 (snd p)))) (shared A B).

  (* intersectsRelation.wedgesCross: WedgeIntersects(a0, ab1, a2, b0, b2) *)
  Definition has_crossing_intersects (A B : loop) : bool :=
    edge_cross A B ||
    existsb (fun p => wedge_intersects point ordered_ccw
        (w0 (fst p)) (w1 (fst p)) (w2 (fst p)) (w0 (snd p)) (w2 (snd p))) (shared A B).

  (* compareBoundaryRelation.wedgesCross: accumulates containsEdge / excludesEdge over the
     shared vertices and reports a crossing as soon as both are set *)
  Definition semi (reverse : bool) (p : wedge * wedge) : bool :=
    wedge_contains_semiwedge point peq ordered_ccw
      (w0 (fst p)) (w1 (fst p)) (w2 (fst p)) (w2 (snd p)) reverse.
  Definition contains_edge (A B : loop) (reverse : bool) : bool := existsb (semi reverse) (shared A B).
  Definition excludes_edge (A B : loop) (reverse : bool) : bool :=
    existsb (fun p => negb (semi reverse p)) (shared A B).
  Definition has_crossing_compare (A B : loop) (reverse : bool) : bool :=
    edge_cross A B || (contains_edge A B reverse && excludes_edge A B reverse).

  (** A.ContainsPoint(B.Vertex(0)) *)
  Definition contains_v0 (A B : loop) : bool :=
    match l_verts B with [] => false | v :: _ => contains_point A v end.

  (** --- Loop.Contains ------------------------------------------------------------------ *)
  Definition loop_contains (A B : loop) : bool :=
    if negb (sub_contains A B) then false else
    if is_empty_or_full A || is_empty_or_full B then is_full A || is_empty B else
    if has_crossing_contains A B then false else
    if found_shared A B then true else
    if negb (contains_v0 A B) then false else
    if (sub_contains B A || bound_union_full B A) && contains_v0 B A then false else
    true.

  (** --- Loop.Intersects ---------------------------------------------------------------- *)
  Definition loop_intersects (A B : loop) : bool :=
    if negb (bound_intersects A B) then false else
    if has_crossing_intersects A B then true else
    if found_shared A B then false else
    if (sub_contains A B || bound_union_full A B) && contains_v0 A B then true else
    if sub_contains B A && contains_v0 B A then true else
    false.

  (** --- Loop.compareBoundary (reverse = o.IsHole()) ------------------------------------ *)
  Definition compare_boundary (A B : loop) (b_hole : bool) : Z :=
    if negb (bound_intersects A B) then (-1)%Z else
    if is_full A then 1%Z else
    if is_full B then (-1)%Z else
    if has_crossing_compare A B b_hole then 0%Z else
    if found_shared A B then (if contains_edge A B b_hole then 1%Z else (-1)%Z) else
    if contains_v0 A B then 1%Z else (-1)%Z.

  (** Loop.findVertex, as "the wedge of A around p, if p is a vertex of A" *)
  Definition find_wedge (A : loop) (p : point) : option wedge :=
    find (fun w => peq (w1 w) p) (wedges A).

  (** --- Loop.containsNonCrossingBoundary ----------------------------------------------- *)
  Definition contains_nc_boundary (A B : loop) (reverse_b : bool) : bool :=
    if negb (bound_intersects A B) then false else
    if is_full A then true else
    if is_full B then false else
    match l_verts B with
    | b0 :: b1 :: _ =>
        match find_wedge A b0 with
        | None => contains_point A b0
        | Some w => wedge_contains_semiwedge point peq ordered_ccw (w0 w) (w1 w) (w2 w) b1 reverse_b
        end
    | _ => false
    end.

  (** --- Loop.ContainsNested ------------------------------------------------------------- *)
  Definition contains_nested (A B : loop) : bool :=
    if negb (sub_contains A B) then false else
    if is_empty_or_full A || Nat.ltb (length (l_verts B)) 2 then is_full A || is_empty B else
    match l_verts B with
    | b0 :: b1 :: rest =>
        let b2 := match rest with [] => b0 | x :: _ => x end in
        match find_wedge A b1 with
        | None => contains_point A b1
        | Some w => wedge_contains point ordered_ccw (w0 w) (w1 w) (w2 w) b0 b2
        end
    | _ => false
    end.

  (** === polygon layer (s2/polygon.go) =================================================== *)
  (** a polygon is its loop list in the order initLoops left it, each loop with its depth *)
  Definition ploop := (loop * nat)%type.
  Definition polygon := list ploop.
  Definition pl_hole (l : ploop) : bool := Nat.odd (snd l).          (* depth&1 != 0 *)
  Definition has_holes (P : polygon) : bool := existsb pl_hole P.     (* initLoopProperties *)
  Definition p_is_empty (P : polygon) : bool := match P with [] => true | _ => false end.
  Definition p_is_full (P : polygon) : bool := match P with [l] => is_full (fst l) | _ => false end.

  Variable psub_contains : polygon -> polygon -> bool.     (* p.subregionBound.Contains(o.bound) *)
  Variable plng_union_full : polygon -> polygon -> bool.   (* p.bound.Lng.Union(o.bound.Lng).IsFull() *)
  Variable pbound_intersects : polygon -> polygon -> bool. (* p.bound.Intersects(o.bound) *)

  Definition any_loop_contains (P : polygon) (o : ploop) : bool :=
    existsb (fun l => loop_contains (fst l) (fst o)) P.
  Definition any_loop_intersects (P : polygon) (o : ploop) : bool :=
    existsb (fun l => loop_intersects (fst l) (fst o)) P.

  (* result := -1; for i := 0; i < len(p.loops) && result != 0; i++ {
       result *= -p.loops[i].compareBoundary(o) } *)
  Definition p_compare_boundary (P : polygon) (o : ploop) : Z :=
    fold_left (fun r l => if Z.eqb r 0 then r
                          else (r * - compare_boundary (fst l) (fst o) (pl_hole o))%Z) P (-1)%Z.

  Definition p_contains_boundary (P O : polygon) : bool :=
    forallb (fun l => negb (Z.leb (p_compare_boundary P l) 0)) O.
  Definition p_excludes_boundary (P O : polygon) : bool :=
    forallb (fun l => negb (Z.geb (p_compare_boundary P l) 0)) O.

  Definition p_contains_nc_boundary (P : polygon) (o : ploop) (reverse : bool) : bool :=
    fold_left (fun inside l => xorb inside (contains_nc_boundary (fst l) (fst o) reverse)) P false.

  Definition p_excludes_nc_shells (P O : polygon) : bool :=
    forallb (fun l => if pl_hole l then true else negb (p_contains_nc_boundary P l false)) O.

  Fixpoint excl_compl_from (P : polygon) (j : nat) (O : polygon) : bool :=
    match O with
    | [] => true
    | l :: t =>
        (if Nat.ltb 0 j && negb (pl_hole l) then true
         else negb (p_contains_nc_boundary P l (Nat.eqb j 0)))
        && excl_compl_from P (S j) t
    end.
  Definition p_excludes_nc_complement_shells (P O : polygon) : bool :=
    if p_is_empty O then negb (p_is_full P) else
    if p_is_full O then true else
    excl_compl_from P 0 O.

  (** --- Polygon.Contains ---------------------------------------------------------------- *)
  Definition polygon_contains (P O : polygon) : bool :=
    match P, O with
    | [a], [b] => loop_contains (fst a) (fst b)
    | _, _ =>
      if negb (psub_contains P O) && negb (plng_union_full P O) then false else
      if negb (has_holes P) && negb (has_holes O) then forallb (any_loop_contains P) O else
      p_contains_boundary P O && p_excludes_nc_complement_shells O P
    end.

  (** --- Polygon.Intersects -------------------------------------------------------------- *)
  Definition polygon_intersects (P O : polygon) : bool :=
    match P, O with
    | [a], [b] => loop_intersects (fst a) (fst b)
    | _, _ =>
      if negb (pbound_intersects P O) then false else
      if negb (has_holes P) && negb (has_holes O) then existsb (any_loop_intersects P) O else
      negb (p_excludes_boundary P O) || negb (p_excludes_nc_shells O P)
    end.
End Relations.
