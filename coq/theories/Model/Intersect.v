(** Executable model of s2/s2intersect/s2intersect.go (Find).  Definitions only.
    - a limit is [(leaf, typ, indices)] with [typ = false] for start and [true] for end
      (the Go constants: start limitType = false, end = true);
    - an overlap is [(indices, start, end)] (closed range of leaf ids);
    - the map [open] of intervalOverlaps is a strictly sorted list of indices
      (openIndices() returns it sorted);
    - collapseLimits: the Go comparator orders by leaf, then start before end; limits with the
      same (leaf, typ) are merged and their indices sorted.  The order sort.Slice leaves among
      limits with equal (leaf, typ) is unspecified in Go but irrelevant after merging; Go does
      not sort the indices of the very last limit (an end limit, whose indices are only used to
      delete from the map), the model sorts them all;
    - overlapsToIntersections iterates over a Go map: the order of the result is undefined,
      the model lists the index sets in order of first appearance and the correspondence
      compares the results sorted by index set.
    [intervalOverlaps_old] is the code before commit aa117fb (kept for the refutation). *)
From Coq Require Import ZArith List Bool.
From Geo Require Import Base.GoPrim Gen.CellID Model.CellUnion.
Import ListNotations.
Local Open Scope Z_scope.
Local Open Scope bool_scope.

Definition limit := (Z * bool * list Z)%type.      (* leaf, typ (false = start, true = end), indices *)
Definition l_leaf (l : limit) : Z := fst (fst l).
Definition l_typ (l : limit) : bool := snd (fst l).
Definition l_idx (l : limit) : list Z := snd l.
Definition overlap := (list Z * Z * Z)%type.       (* indices, start, end *)

(** * cellUnionToIntervalLimits (the union is already normalized) *)
Fixpoint lims_loop (cu : list Z) (idx lastend : Z) : list limit :=
  match cu with
  | [] => [(lastend, true, [idx])]
  | c :: t =>
      let startLeaf := s2_CellID_RangeMin c in
      (if lastend =? 0 then [(startLeaf, false, [idx])]
       else if negb (s2_CellID_Next lastend =? startLeaf)
            then [(lastend, true, [idx]); (startLeaf, false, [idx])]
            else [])
      ++ lims_loop t idx (s2_CellID_RangeMax c)
  end.
Definition limits_of (cu : list Z) (idx : Z) : list limit :=
  match cu with [] => [] | _ => lims_loop cu idx 0 end.

(** * collapseLimits *)
Definition limit_before (a b : limit) : bool :=      (* strictly before in (leaf, typ) *)
  if negb (l_leaf a =? l_leaf b) then l_leaf a <? l_leaf b
  else negb (l_typ a) && l_typ b.
Fixpoint insert_limit (x : limit) (l : list limit) : list limit :=
  match l with
  | [] => [x]
  | y :: t => if limit_before x y then x :: l else y :: insert_limit x t
  end.
Definition sort_limits (l : list limit) : list limit := fold_right insert_limit [] l.
Definition same_key (a b : limit) : bool := (l_leaf a =? l_leaf b) && Bool.eqb (l_typ a) (l_typ b).
(** merge runs of equal (leaf, typ); [cur] is the limit being accumulated *)
Fixpoint merge_limits (cur : limit) (l : list limit) : list limit :=
  match l with
  | [] => [(l_leaf cur, l_typ cur, sort_ids (l_idx cur))]
  | x :: t => if same_key x cur then merge_limits (l_leaf cur, l_typ cur, l_idx cur ++ l_idx x) t
              else (l_leaf cur, l_typ cur, sort_ids (l_idx cur)) :: merge_limits x t
  end.
Definition collapse_limits (l : list limit) : list limit :=
  match sort_limits l with [] => [] | x :: t => merge_limits x t end.

(** * intervalOverlaps *)
Fixpoint set_add (i : Z) (s : list Z) : list Z :=
  match s with
  | [] => [i]
  | h :: t => if i <? h then i :: s else if i =? h then s else h :: set_add i t
  end.
Definition set_del (i : Z) (s : list Z) : list Z := filter (fun h => negb (h =? i)) s.
Definition io_state := (list Z * Z * list overlap)%type.     (* open, lastStart, overlaps *)
Definition io_step (guard : bool) (st : io_state) (l : limit) : io_state :=
  let '(open, lastStart, ovs) := st in
  let ovs' :=
    if 1 <? zlen open then
      let endLeaf := if l_typ l then l_leaf l else s2_CellID_Prev (l_leaf l) in
      if negb guard || (lastStart <=? endLeaf) then ovs ++ [(open, lastStart, endLeaf)] else ovs
    else ovs in
  let open' := if l_typ l then fold_left (fun s i => set_del i s) (l_idx l) open
               else fold_left (fun s i => set_add i s) (l_idx l) open in
  let lastStart' := if 1 <? zlen open'
                    then (if l_typ l then s2_CellID_Next (l_leaf l) else l_leaf l)
                    else lastStart in
  (open', lastStart', ovs').
Definition intervalOverlaps (lims : list limit) : list overlap :=
  snd (fold_left (io_step true) lims ([], 0, [])).
Definition intervalOverlaps_old (lims : list limit) : list overlap :=
  snd (fold_left (io_step false) lims ([], 0, [])).

(** * overlapsToIntersections *)
Fixpoint group_add (key : list Z) (cells : list Z) (acc : list (list Z * list Z)) : list (list Z * list Z) :=
  match acc with
  | [] => [(key, cells)]
  | (k, cs) :: t => if list_eqb Z.eqb k key then (k, cs ++ cells) :: t else (k, cs) :: group_add key cells t
  end.
Definition overlaps_to_intersections (ovs : list overlap) : list (list Z * list Z) :=
  map (fun kc => (fst kc, cu_Normalize (snd kc)))
      (fold_left (fun acc (o : overlap) =>
                    let '(idx, s, e) := o in group_add idx (cu_FromRange s (s2_CellID_Next e)) acc)
                 ovs []).

(** * Find *)
Fixpoint limits_from (cus : list (list Z)) (i : Z) : list limit :=
  match cus with
  | [] => []
  | cu :: t => limits_of (cu_Normalize cu) i ++ limits_from t (i + 1)
  end.
Definition find_with (io : list limit -> list overlap) (cus : list (list Z)) : list (list Z * list Z) :=
  overlaps_to_intersections (io (collapse_limits (limits_from cus 0))).
Definition s2i_Find : list (list Z) -> list (list Z * list Z) := find_with intervalOverlaps.
Definition s2i_Find_old : list (list Z) -> list (list Z * list Z) := find_with intervalOverlaps_old.

(** the result sorted by index set, for comparison with the (unordered) Go result *)
Fixpoint lex_lt (a b : list Z) : bool :=
  match a, b with
  | [], [] => false
  | [], _ => true
  | _, [] => false
  | x :: a', y :: b' => if x <? y then true else if y <? x then false else lex_lt a' b'
  end.
Fixpoint insert_entry (x : list Z * list Z) (l : list (list Z * list Z)) :=
  match l with
  | [] => [x]
  | y :: t => if lex_lt (fst x) (fst y) then x :: l else y :: insert_entry x t
  end.
Definition sort_entries (l : list (list Z * list Z)) := fold_right insert_entry [] l.
Definition entry_eqb (a b : list Z * list Z) : bool :=
  list_eqb Z.eqb (fst a) (fst b) && list_eqb Z.eqb (snd a) (snd b).
Definition entries_eqb (x y : list (list Z * list Z)) : bool := list_eqb entry_eqb x y.
