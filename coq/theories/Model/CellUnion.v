(** Executable model of s2/cellunion.go (+ CellID.MaxTile of s2/cellid.go).
    Definitions only.  A CellUnion is a [list Z] of uint64 values.  Every bit-level
    leaf function (lsb, RangeMin/Max, Contains, immediateParent, areSiblings, Children,
    Next, ChildBeginAtLevel, ...) is the translation in Gen/CellID.v, regenerated from
    /repo on every run; this file only transcribes the slice loops the translator cannot
    take.  Conventions:
    - the output slice of Normalize is kept REVERSED (head = output[len-1]);
    - an index i into a slice during a scan is represented by the suffix starting at i
      (the intersection keeps the element before the suffix where Go reads y[j-1]);
    - general [for] loops carry a [fuel : nat] that is provably large enough on the
      inputs of the theorems (valid ids); the correspondence compares every result. *)
From Coq Require Import ZArith List Bool.
From Geo Require Import Base.GoPrim Gen.CellID.
Import ListNotations.
Local Open Scope Z_scope.
Local Open Scope bool_scope.

(** * sortCellIDs: sort.Sort on uint64 keys.  The keys are the whole elements, so the
    sorted result is unique; insertion sort computes it. *)
Fixpoint insert_id (x : Z) (l : list Z) : list Z :=
  match l with
  | [] => [x]
  | y :: t => if x <=? y then x :: l else y :: insert_id x t
  end.
Definition sort_ids (l : list Z) : list Z := fold_right insert_id [] l.

(** * Normalize *)
(** [for j >= 0 { if !ci.Contains(output[j]) {break}; j-- }; output = output[:j+1]] *)
Fixpoint drop_contained (ci : Z) (out : list Z) : list Z :=
  match out with
  | o :: rest => if s2_CellID_Contains ci o then drop_contained ci rest else out
  | [] => []
  end.
(** [for len(output) >= 3 && areSiblings(output[n-3], output[n-2], output[n-1], ci) {
       output = output[:n-3]; ci = ci.immediateParent() }; output = append(output, ci)] *)
Fixpoint merge_siblings (ci : Z) (out : list Z) {struct out} : list Z :=
  match out with
  | o1 :: o2 :: o3 :: rest =>
      if s2_areSiblings o3 o2 o1 ci
      then merge_siblings (s2_CellID_immediateParent ci) rest
      else ci :: out
  | _ => ci :: out
  end.
(** one iteration of [for _, ci := range *cu] *)
Definition normalize_step (out : list Z) (ci : Z) : list Z :=
  match out with
  | o :: _ => if s2_CellID_Contains o ci then out
              else merge_siblings ci (drop_contained ci out)
  | [] => merge_siblings ci []
  end.
Definition cu_Normalize (cu : list Z) : list Z :=
  rev (fold_left normalize_step (sort_ids cu) []).

(** * CellUnionFromUnion *)
Definition cu_FromUnion (cus : list (list Z)) : list Z := cu_Normalize (concat cus).

(** * sort.Search (Go 1.x source: i, j := 0, n; for i < j { h := (i+j)>>1; if !f(h) {i = h+1} else {j = h} }) *)
Fixpoint search_go (fuel : nat) (f : Z -> bool) (i j : Z) : Z :=
  match fuel with
  | O => i
  | S k => if i <? j then
             let h := (i + j) / 2 in
             if f h then search_go k f i h else search_go k f (h + 1) j
           else i
  end.
Definition sort_Search (n : Z) (f : Z -> bool) : Z := search_go (Z.to_nat n) f 0 n.

Definition zlen (l : list Z) : Z := Z.of_nat (length l).

(** * IntersectsCellID / ContainsCellID *)
Definition cu_IntersectsCellID (cu : list Z) (id : Z) : bool :=
  let n := zlen cu in
  let i := sort_Search n (fun i => id <? nthZ cu i 0) in
  if negb (i =? n) && (s2_CellID_RangeMin (nthZ cu i 0) <=? s2_CellID_RangeMax id) then true
  else negb (i =? 0) && (s2_CellID_RangeMin id <=? s2_CellID_RangeMax (nthZ cu (i - 1) 0)).

Definition cu_ContainsCellID (cu : list Z) (id : Z) : bool :=
  let n := zlen cu in
  let i := sort_Search n (fun i => id <? nthZ cu i 0) in
  if negb (i =? n) && (s2_CellID_RangeMin (nthZ cu i 0) <=? id) then true
  else negb (i =? 0) && (id <=? s2_CellID_RangeMax (nthZ cu (i - 1) 0)).

(** * Contains / Intersects of two unions *)
Definition cu_Contains (cu o : list Z) : bool := forallb (cu_ContainsCellID cu) o.
Definition cu_Intersects (cu o : list Z) : bool := existsb (cu_IntersectsCellID o) cu.

(** * lowerBound (linear scan, as in the Go source) on indices, used by
      CellUnionFromIntersectionWithCellID *)
Fixpoint lb_scan (cu : list Z) (n : nat) (i e id : Z) : Z :=
  match n with
  | O => e
  | S k => if i <? e then (if id <=? nthZ cu i 0 then i else lb_scan cu k (i + 1) e id) else e
  end.
Definition cu_lowerBound (cu : list Z) (b e id : Z) : Z := lb_scan cu (Z.to_nat (e - b)) b e id.

(** * CellUnionFromIntersection.
    State: the suffixes x[i:], y[j:].  The skipping branch
      [j = y.lowerBound(j+1, len(y), iMin); if x[i] <= y[j-1].RangeMax() { j-- }]
    is [skip_to]: drop y[j], then every following element < iMin, remembering the last
    dropped element (= y[j-1] after the scan) and putting it back when the test holds. *)
Fixpoint skip_scan (lim prev : Z) (l : list Z) : Z * list Z :=
  match l with
  | h :: t => if lim <=? h then (prev, l) else skip_scan lim h t
  | [] => (prev, [])
  end.
(** [l] = y[j:] = yj :: rest; result = y[j':] for the new j' *)
Definition skip_to (xi lim yj : Z) (rest : list Z) : list Z :=
  let '(prev, l') := skip_scan lim yj rest in
  if xi <=? s2_CellID_RangeMax prev then prev :: l' else l'.

Fixpoint isect_loop (fuel : nat) (x y : list Z) : list Z :=
  match fuel with
  | O => []
  | S k =>
    match x, y with
    | xi :: xs, yj :: ys =>
        let iMin := s2_CellID_RangeMin xi in
        let jMin := s2_CellID_RangeMin yj in
        if jMin <? iMin then
          if xi <=? s2_CellID_RangeMax yj then xi :: isect_loop k xs y
          else isect_loop k x (skip_to xi iMin yj ys)
        else if iMin <? jMin then
          if yj <=? s2_CellID_RangeMax xi then yj :: isect_loop k x ys
          else isect_loop k (skip_to yj jMin xi xs) y
        else
          if xi <? yj then xi :: isect_loop k xs y else yj :: isect_loop k x ys
    | _, _ => []
    end
  end.
Definition cu_isect_raw (x y : list Z) : list Z := isect_loop (length x + length y) x y.
Definition cu_FromIntersection (x y : list Z) : list Z := cu_Normalize (cu_isect_raw x y).

(** * CellUnionFromIntersectionWithCellID *)
Fixpoint take_upto (idmax : Z) (l : list Z) : list Z :=
  match l with
  | h :: t => if h <=? idmax then h :: take_upto idmax t else []
  | [] => []
  end.
Definition cu_FromIntersectionWithCellID (x : list Z) (id : Z) : list Z :=
  if cu_ContainsCellID x id then cu_Normalize [id]
  else
    let i := cu_lowerBound x 0 (zlen x) (s2_CellID_RangeMin id) in
    cu_Normalize (take_upto (s2_CellID_RangeMax id) (skipn (Z.to_nat i) x)).

(** * CellUnionFromDifference.  The recursion descends one level per call; [fuel] 31 covers
    every valid id (a leaf that intersects is contained: both tests coincide when
    RangeMin = RangeMax = id). *)
Fixpoint diff_internal (fuel : nat) (id : Z) (other : list Z) : list Z :=
  match fuel with
  | O => []
  | S k =>
      if negb (cu_IntersectsCellID other id) then [id]
      else if negb (cu_ContainsCellID other id)
           then flat_map (fun child => diff_internal k child other) (s2_CellID_Children id)
           else []
  end.
Definition cu_FromDifference (x y : list Z) : list Z :=
  flat_map (fun xid => diff_internal 32 xid y) x.

(** * IsValid / IsNormalized.  [prevs] = the already visited prefix, reversed. *)
Fixpoint isvalid_from (prev : option Z) (l : list Z) : bool :=
  match l with
  | [] => true
  | cid :: t =>
      if negb (s2_CellID_IsValid cid) then false
      else match prev with
           | Some p => if s2_CellID_RangeMin cid <=? s2_CellID_RangeMax p then false
                       else isvalid_from (Some cid) t
           | None => isvalid_from (Some cid) t
           end
  end.
Definition cu_IsValid (cu : list Z) : bool := isvalid_from None cu.

Fixpoint isnorm_from (prevs : list Z) (l : list Z) : bool :=
  match l with
  | [] => true
  | cid :: t =>
      if negb (s2_CellID_IsValid cid) then false
      else match prevs with
           | [] => isnorm_from [cid] t
           | p1 :: rest =>
               if s2_CellID_RangeMin cid <=? s2_CellID_RangeMax p1 then false
               else match rest with
                    | p2 :: p3 :: _ =>
                        if s2_areSiblings p3 p2 p1 cid then false else isnorm_from (cid :: prevs) t
                    | _ => isnorm_from (cid :: prevs) t
                    end
           end
  end.
Definition cu_IsNormalized (cu : list Z) : bool := isnorm_from [] cu.

(** * Denormalize *)
(** Go's [%] on int truncates toward zero *)
Definition go_rem (a b : Z) : Z := Z.rem a b.
Definition denorm_level (level minLevel levelMod : Z) : Z :=
  let newLevel := if level <? minLevel then minLevel else level in
  if 1 <? levelMod then
    let nl := newLevel + go_rem (30 - (newLevel - minLevel)) levelMod in
    if 30 <? nl then 30 else nl
  else newLevel.
(** [for ci := begin; ci != end; ci = ci.Next()] *)
Fixpoint iter_next (fuel : nat) (ci e : Z) : list Z :=
  match fuel with
  | O => []
  | S k => if ci =? e then [] else ci :: iter_next k (s2_CellID_Next ci) e
  end.
Definition cu_Denormalize (cu : list Z) (minLevel levelMod : Z) : list Z :=
  flat_map (fun id =>
    let level := s2_CellID_Level id in
    let newLevel := denorm_level level minLevel levelMod in
    if newLevel =? level then [id]
    else iter_next (Z.to_nat (4 ^ (newLevel - level)))
                   (s2_CellID_ChildBeginAtLevel id newLevel) (s2_CellID_ChildEndAtLevel id newLevel)) cu.

(** * LeafCellsCovered *)
Definition cu_LeafCellsCovered (cu : list Z) : Z :=
  fold_left (fun n c => wrap_i64 (n + wrap_i64 (go_shl 1 (wrap_u64 (wrap_i64 (go_shl (wrap_i64 (30 - s2_CellID_Level c)) 1)))))) cu 0.

(** * CellID.MaxTile *)
(** [for { ci = ci.Children()[0]; if ci.RangeMax() < limit { break } }] *)
Fixpoint maxtile_shrink (fuel : nat) (ci limit : Z) : Z :=
  match fuel with
  | O => ci
  | S k => let c := nthZ (s2_CellID_Children ci) 0 0 in
           if s2_CellID_RangeMax c <? limit then c else maxtile_shrink k c limit
  end.
(** [for !ci.isFace() { parent := ci.immediateParent();
       if parent.RangeMin() != start || parent.RangeMax() >= limit { break }; ci = parent }] *)
Fixpoint maxtile_grow (fuel : nat) (ci start limit : Z) : Z :=
  match fuel with
  | O => ci
  | S k => if s2_CellID_isFace ci then ci
           else let p := s2_CellID_immediateParent ci in
                if negb (s2_CellID_RangeMin p =? start) || (limit <=? s2_CellID_RangeMax p) then ci
                else maxtile_grow k p start limit
  end.
Definition cu_MaxTile (ci limit : Z) : Z :=
  let start := s2_CellID_RangeMin ci in
  if s2_CellID_RangeMin limit <=? start then limit
  else if limit <=? s2_CellID_RangeMax ci then maxtile_shrink 31 ci limit
  else maxtile_grow 31 ci start limit.

(** * CellUnionFromRange: [for id := begin.MaxTile(end); id != end; id = id.Next().MaxTile(end)].
    [fr_run n] runs the loop for at most 2^n iterations (it stops as soon as id = end) and
    returns the cells appended together with the loop variable reached; 2^64 iterations
    cover every uint64 range because each iteration advances RangeMin(id) by at least 2. *)
Fixpoint fr_run (n : nat) (id e : Z) : list Z * Z :=
  match n with
  | O => if id =? e then ([], id) else ([id], cu_MaxTile (s2_CellID_Next id) e)
  | S k => let '(l1, id1) := fr_run k id e in
           if id1 =? e then (l1, id1)
           else let '(l2, id2) := fr_run k id1 e in (l1 ++ l2, id2)
  end.
Definition cu_FromRange (b e : Z) : list Z := fst (fr_run 64 (cu_MaxTile b e) e).
