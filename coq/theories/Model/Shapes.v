(** C06 — the seven Shape implementations of golang/geo as their Go representations, with the
    six accessors of the Shape interface (NumEdges, Edge, NumChains, Chain, ChainEdge,
    ChainPosition) transcribed by hand from
      s2/point_vector.go  s2/lax_polyline.go  s2/polyline.go  s2/lax_loop.go
      s2/loop.go          s2/polygon.go       s2/lax_polygon.go
    (pointer-receiver methods over slices: outside the translator's subset; only
    [s2.minInt]/[s2.maxInt] come from the translator, Gen/CellIDCov.v).
    Definitions only; proofs are in Proofs/C06_Shapes.v. The tie to the Go code is the
    correspondence run by harness/cmd/obs/c06 on every check.

    Conventions:
    - vertices are abstract tokens ([Z]); no accessor looks at a coordinate;
    - Go [int] is [Z] (no wrap: every value here is bounded by a slice length);
    - an out-of-range slice index or an integer division by zero is [Panic]. *)
From Coq Require Import ZArith List Bool.
From Geo Require Import Base.GoPrim Gen.CellIDCov.
Import ListNotations.
Local Open Scope Z_scope.

(** * Results with Go's run-time panics made explicit *)
Inductive res (A : Type) : Type := Ok (a : A) | Panic.
Arguments Ok {A} a.
Arguments Panic {A}.
Definition bind {A B} (r : res A) (f : A -> res B) : res B :=
  match r with Ok a => f a | Panic => Panic end.

Definition vertex := Z.
Definition edge := (vertex * vertex)%type.

Definition len {A} (l : list A) : Z := Z.of_nat (length l).
(** Go [l[i]] *)
Definition idx {A} (l : list A) (i : Z) : res A :=
  if i <? 0 then Panic else
  match nth_error l (Z.to_nat i) with Some a => Ok a | None => Panic end.
(** Go [Edge{a, b}] where [a], [b] are indexing expressions *)
Definition mk_edge (a b : res vertex) : res edge :=
  bind a (fun x => bind b (fun y => Ok (x, y))).

(** The six accessors of one shape value. Chain = (Start, Length); ChainPosition = (ChainID, Offset). *)
Record shape_ops := mkOps {
  numEdges : Z;
  edgeAt : Z -> res edge;
  numChains : Z;
  chainAt : Z -> res (Z * Z);
  chainEdge : Z -> Z -> res edge;
  chainPosition : Z -> res (Z * Z) }.

(** * PointVector ([]Point) — s2/point_vector.go *)
Definition pv_ops (p : list vertex) : shape_ops := {|
  numEdges := len p;
  edgeAt i := mk_edge (idx p i) (idx p i);
  numChains := len p;
  chainAt i := Ok (i, 1);
  chainEdge i j := mk_edge (idx p i) (idx p i);
  chainPosition e := Ok (e, 0) |}.
(** before fix 01aa6cd the second endpoint was read at index j: Edge{p[i], p[j]} *)
Definition pv_ops_old (p : list vertex) : shape_ops := {|
  numEdges := len p;
  edgeAt i := mk_edge (idx p i) (idx p i);
  numChains := len p;
  chainAt i := Ok (i, 1);
  chainEdge i j := mk_edge (idx p i) (idx p j);
  chainPosition e := Ok (e, 0) |}.

(** * LaxPolyline {vertices} — s2/lax_polyline.go *)
Definition lax_polyline_num_edges (v : list vertex) : Z := s2_maxInt 0 [len v - 1].
Definition lax_polyline_ops (v : list vertex) : shape_ops := {|
  numEdges := lax_polyline_num_edges v;
  edgeAt e := mk_edge (idx v e) (idx v (e + 1));
  numChains := s2_minInt 1 [lax_polyline_num_edges v];
  chainAt i := Ok (0, lax_polyline_num_edges v);
  chainEdge i j := mk_edge (idx v j) (idx v (j + 1));
  chainPosition e := Ok (0, e) |}.

(** * Polyline ([]Point) — s2/polyline.go *)
Definition polyline_num_edges (v : list vertex) : Z := if len v =? 0 then 0 else len v - 1.
Definition polyline_ops (v : list vertex) : shape_ops := {|
  numEdges := polyline_num_edges v;
  edgeAt i := mk_edge (idx v i) (idx v (i + 1));
  numChains := s2_minInt 1 [polyline_num_edges v];
  chainAt i := Ok (0, polyline_num_edges v);
  chainEdge i j := mk_edge (idx v j) (idx v (j + 1));
  chainPosition e := Ok (0, e) |}.

(** * LaxLoop {numVertices, vertices} — s2/lax_loop.go *)
Record lax_loop := mkLaxLoop { ll_numVertices : Z; ll_vertices : list vertex }.
(** LaxLoopFromPoints *)
Definition lax_loop_from_points (v : list vertex) : lax_loop := mkLaxLoop (len v) v.
Definition lax_loop_ops (l : lax_loop) : shape_ops := {|
  numEdges := ll_numVertices l;
  edgeAt e :=
    let e1 := e + 1 in
    let e1 := if e1 =? ll_numVertices l then 0 else e1 in
    mk_edge (idx (ll_vertices l) e) (idx (ll_vertices l) e1);
  numChains := s2_minInt 1 [ll_numVertices l];
  chainAt i := Ok (0, ll_numVertices l);
  chainEdge i j :=
    let k := 0 in
    let k := if negb (j + 1 =? ll_numVertices l) then j + 1 else k in
    mk_edge (idx (ll_vertices l) j) (idx (ll_vertices l) k);
  chainPosition e := Ok (0, e) |}.
(** before fix a88af59: [if j+1 == l.numVertices { k = j + 1 }] *)
Definition lax_loop_ops_old (l : lax_loop) : shape_ops := {|
  numEdges := ll_numVertices l;
  edgeAt e :=
    let e1 := e + 1 in
    let e1 := if e1 =? ll_numVertices l then 0 else e1 in
    mk_edge (idx (ll_vertices l) e) (idx (ll_vertices l) e1);
  numChains := s2_minInt 1 [ll_numVertices l];
  chainAt i := Ok (0, ll_numVertices l);
  chainEdge i j :=
    let k := 0 in
    let k := if (j + 1 =? ll_numVertices l) then j + 1 else k in
    mk_edge (idx (ll_vertices l) j) (idx (ll_vertices l) k);
  chainPosition e := Ok (0, e) |}.

(** * Loop {vertices, originInside, depth} — s2/loop.go *)
Record loop := mkLoop { lp_vertices : list vertex; lp_originInside : bool; lp_depth : Z }.
Definition loop_isEmptyOrFull (l : loop) : bool := len (lp_vertices l) =? 1.
Definition loop_IsEmpty (l : loop) : bool := loop_isEmptyOrFull l && negb (lp_originInside l).
Definition loop_IsFull (l : loop) : bool := loop_isEmptyOrFull l && lp_originInside l.
Definition loop_IsHole (l : loop) : bool := negb (Z.land (lp_depth l) 1 =? 0).
(** [l.vertices[i%len(l.vertices)]]; Go's [%] truncates ([Z.rem]) and panics on a zero divisor *)
Definition loop_Vertex (l : loop) (i : Z) : res vertex :=
  if len (lp_vertices l) =? 0 then Panic else idx (lp_vertices l) (Z.rem i (len (lp_vertices l))).
Definition loop_NumEdges (l : loop) : Z := if loop_isEmptyOrFull l then 0 else len (lp_vertices l).
Definition loop_OrientedVertex (l : loop) (i : Z) : res vertex :=
  let j := i - len (lp_vertices l) in
  let j := if j <? 0 then i else j in
  let j := if loop_IsHole l then len (lp_vertices l) - 1 - j else j in
  loop_Vertex l j.
Definition loop_ops (l : loop) : shape_ops := {|
  numEdges := loop_NumEdges l;
  edgeAt i := mk_edge (loop_Vertex l i) (loop_Vertex l (i + 1));
  numChains := if loop_IsEmpty l then 0 else 1;
  chainAt i := Ok (0, loop_NumEdges l);
  chainEdge i j := mk_edge (loop_Vertex l j) (loop_Vertex l (j + 1));
  chainPosition e := Ok (0, e) |}.

(** * Polygon {loops, numEdges, cumulativeEdges} — s2/polygon.go
    [cumulativeEdges] is [None] for Go's nil slice. *)
Record polygon := mkPolygon {
  pg_loops : list loop; pg_numEdges : Z; pg_cumulativeEdges : option (list Z) }.
Definition polygon_IsFull (loops : list loop) : bool :=
  (len loops =? 1) && match loops with l :: _ => loop_IsFull l | [] => false end.
(** the loop [for _, l := range p.loops] of initEdgesAndIndex *)
Fixpoint polygon_init_loop (ls : list loop) (numE : Z) (cum : option (list Z)) : Z * option (list Z) :=
  match ls with
  | [] => (numE, cum)
  | l :: t =>
      let cum := match cum with Some c => Some (c ++ [numE]) | None => None end in
      polygon_init_loop t (numE + len (lp_vertices l)) cum
  end.
(** initEdgesAndIndex, with the function-local constant [maxLinearSearchLoops] (= 12) a parameter *)
Definition polygon_init (maxLinearSearchLoops : Z) (loops : list loop) : polygon :=
  if polygon_IsFull loops then mkPolygon loops 0 None else
  let cum := if len loops >? maxLinearSearchLoops then Some [] else None in
  let '(numE, cum) := polygon_init_loop loops 0 cum in
  mkPolygon loops numE cum.

(** [for i = range cum { if i+1 >= len(cum) || e < cum[i+1] { e -= cum[i]; break } }] on the
    suffix [l = cum[i:]]; result (i, e) *)
Fixpoint cum_search (l : list Z) (i e : Z) : Z * Z :=
  match l with
  | [] => (i, e)
  | c :: rest =>
      match rest with
      | [] => (i, e - c)
      | c' :: _ => if e <? c' then (i, e - c) else cum_search rest (i + 1) e
      end
  end.
(** [for i = 0; e >= len(p.Loop(i).vertices); i++ { e -= len(p.Loop(i).vertices) }] on the
    suffix [ls = loops[i:]]; running off the end is p.loops[i] out of range *)
Fixpoint lin_search (ls : list loop) (i e : Z) : res (Z * Z) :=
  match ls with
  | [] => Panic
  | l :: t => if e >=? len (lp_vertices l) then lin_search t (i + 1) (e - len (lp_vertices l))
              else Ok (i, e)
  end.
(** the common first half of Polygon.Edge and Polygon.ChainPosition *)
Definition polygon_find (p : polygon) (e : Z) : res (Z * Z) :=
  match pg_cumulativeEdges p with
  | Some (c0 :: c) => Ok (cum_search (c0 :: c) 0 e)
  | _ => lin_search (pg_loops p) 0 e
  end.
Definition polygon_loop_edge (p : polygon) (i j : Z) : res edge :=
  bind (idx (pg_loops p) i) (fun l => mk_edge (loop_OrientedVertex l j) (loop_OrientedVertex l (j + 1))).
(** [e := 0; for j := 0; j < chainID; j++ { e += len(p.Loop(j).vertices) }] *)
Fixpoint sum_first (ls : list loop) (n : nat) : res Z :=
  match n with
  | O => Ok 0
  | S n' => match ls with
            | [] => Panic
            | l :: t => bind (sum_first t n') (fun s => Ok (len (lp_vertices l) + s))
            end
  end.
Definition polygon_Chain (p : polygon) (i : Z) : res (Z * Z) :=
  match pg_cumulativeEdges p with
  | Some cum => bind (idx cum i) (fun st => bind (idx (pg_loops p) i) (fun l => Ok (st, len (lp_vertices l))))
  | None =>
      bind (sum_first (pg_loops p) (Z.to_nat i)) (fun e =>
      bind (idx (pg_loops p) i) (fun l =>
        let nv := len (lp_vertices l) in
        if negb (nv =? 1) then Ok (e, nv) else Ok (e, 0)))
  end.
Definition polygon_ops (p : polygon) : shape_ops := {|
  numEdges := pg_numEdges p;
  edgeAt e := bind (polygon_find p e) (fun '(i, e') => polygon_loop_edge p i e');
  numChains := len (pg_loops p);
  chainAt i := polygon_Chain p i;
  chainEdge i j := polygon_loop_edge p i j;
  chainPosition e := polygon_find p e |}.

(** * LaxPolygon {numLoops, vertices, numVerts, cumulativeVertices} — s2/lax_polygon.go *)
Record lax_polygon := mkLaxPolygon {
  lx_numLoops : Z; lx_vertices : list vertex; lx_numVerts : Z; lx_cumulativeVertices : list Z }.
(** [acc; acc+x1; acc+x1+x2; ...]: what the two loops of LaxPolygonFromPoints leave in
    cumulativeVertices (numLoops+1 entries) *)
Fixpoint psums (lens : list Z) (acc : Z) : list Z :=
  acc :: match lens with [] => [] | x :: t => psums t (acc + x) end.
(** LaxPolygonFromPoints *)
Definition lax_polygon_from_points (loops : list (list vertex)) : lax_polygon :=
  match loops with
  | [] => mkLaxPolygon 0 [] 0 []
  | [l] => mkLaxPolygon 1 l (len l) []
  | _ => mkLaxPolygon (len loops) (concat loops) 0 (psums (map len loops) 0)
  end.
Definition lax_numVertices (p : lax_polygon) : res Z :=
  if lx_numLoops p <=? 1 then Ok (lx_numVerts p) else idx (lx_cumulativeVertices p) (lx_numLoops p).
Definition lax_numLoopVertices (p : lax_polygon) (i : Z) : res Z :=
  if lx_numLoops p =? 1 then Ok (lx_numVerts p) else
  bind (idx (lx_cumulativeVertices p) (i + 1)) (fun a =>
  bind (idx (lx_cumulativeVertices p) i) (fun b => Ok (a - b))).
(** [for cum[nextLoop] <= e { nextLoop++ }] on the suffix [l = cum[nextLoop:]] *)
Fixpoint lax_search (l : list Z) (nextLoop e : Z) : res Z :=
  match l with
  | [] => Panic
  | c :: t => if c <=? e then lax_search t (nextLoop + 1) e else Ok nextLoop
  end.
Definition lax_Edge (p : lax_polygon) (e : Z) : res edge :=
  let e1 := e + 1 in
  if lx_numLoops p =? 1 then
    let e1 := if e1 =? lx_numVerts p then 0 else e1 in
    mk_edge (idx (lx_vertices p) e) (idx (lx_vertices p) e1)
  else
    bind (lax_search (lx_cumulativeVertices p) 0 e) (fun nextLoop =>
    bind (idx (lx_cumulativeVertices p) nextLoop) (fun cn =>
    bind (if e1 =? cn then idx (lx_cumulativeVertices p) (nextLoop - 1) else Ok e1) (fun e1 =>
    mk_edge (idx (lx_vertices p) e) (idx (lx_vertices p) e1)))).
Definition lax_Chain (p : lax_polygon) (i : Z) : res (Z * Z) :=
  if lx_numLoops p =? 1 then bind (lax_numVertices p) (fun n => Ok (0, n)) else
  bind (idx (lx_cumulativeVertices p) i) (fun start =>
  bind (idx (lx_cumulativeVertices p) (i + 1)) (fun nxt => Ok (start, nxt - start))).
Definition lax_ChainEdge (p : lax_polygon) (i j : Z) : res edge :=
  bind (lax_numLoopVertices p i) (fun n =>
  let k := if negb (j + 1 =? n) then j + 1 else 0 in
  if lx_numLoops p =? 1 then mk_edge (idx (lx_vertices p) j) (idx (lx_vertices p) k) else
  bind (idx (lx_cumulativeVertices p) i) (fun base =>
  mk_edge (idx (lx_vertices p) (base + j)) (idx (lx_vertices p) (base + k)))).
Definition lax_ChainPosition (p : lax_polygon) (e : Z) : res (Z * Z) :=
  if lx_numLoops p =? 1 then Ok (0, e) else
  bind (lax_search (tl (lx_cumulativeVertices p)) 1 e) (fun nextLoop =>
  bind (idx (lx_cumulativeVertices p) (nextLoop - 1)) (fun c => Ok (nextLoop - 1, e - c))).
(** before fix 6634f3a:
    [ChainPosition{cumulativeVertices[nextLoop] - cumulativeVertices[1], e - cumulativeVertices[nextLoop-1]}] *)
Definition lax_ChainPosition_old (p : lax_polygon) (e : Z) : res (Z * Z) :=
  if lx_numLoops p =? 1 then Ok (0, e) else
  bind (lax_search (tl (lx_cumulativeVertices p)) 1 e) (fun nextLoop =>
  bind (idx (lx_cumulativeVertices p) nextLoop) (fun cn =>
  bind (idx (lx_cumulativeVertices p) 1) (fun c1 =>
  bind (idx (lx_cumulativeVertices p) (nextLoop - 1)) (fun c => Ok (cn - c1, e - c))))).
Definition lax_polygon_ops_with (cp : lax_polygon -> Z -> res (Z * Z)) (p : lax_polygon) : shape_ops := {|
  (* NumEdges = p.numVertices(); it can only panic on a value LaxPolygonFromPoints never builds *)
  numEdges := match lax_numVertices p with Ok n => n | Panic => -1 end;
  edgeAt e := lax_Edge p e;
  numChains := lx_numLoops p;
  chainAt i := lax_Chain p i;
  chainEdge i j := lax_ChainEdge p i j;
  chainPosition e := cp p e |}.
Definition lax_polygon_ops := lax_polygon_ops_with lax_ChainPosition.
Definition lax_polygon_ops_old := lax_polygon_ops_with lax_ChainPosition_old.

(** * Equality tests used by the observation tables *)
Definition zrange (n : Z) : list Z := zrange_up 0 n.
Definition res_eqb {A} (eq : A -> A -> bool) (x y : res A) : bool :=
  match x, y with Ok a, Ok b => eq a b | Panic, Panic => true | _, _ => false end.
Definition zz_eqb (x y : Z * Z) : bool := (fst x =? fst y) && (snd x =? snd y).

(** * Observation tables compared with the Go implementation: every accessor on
    [-1 .. n] (one past each end, so that the panics are compared too). *)
Record shape_dump := mkDump {
  d_numEdges : Z; d_numChains : Z;
  d_edges : list (res edge);            (* Edge(e), e = -1 .. NumEdges *)
  d_positions : list (res (Z * Z));     (* ChainPosition(e), e = -1 .. NumEdges *)
  d_chains : list (res (Z * Z) * list (res edge)) (* Chain(i), i = -1 .. NumChains, with ChainEdge(i, j), j = -1 .. Length *) }.
Definition zrange_incl (lo hi : Z) : list Z := zrange_up lo (hi + 1).
Definition dump (s : shape_ops) : shape_dump := {|
  d_numEdges := numEdges s; d_numChains := numChains s;
  d_edges := map (edgeAt s) (zrange_incl (-1) (numEdges s));
  d_positions := map (chainPosition s) (zrange_incl (-1) (numEdges s));
  d_chains := map (fun i => let c := chainAt s i in
                            (c, map (chainEdge s i) (zrange_incl (-1) (match c with Ok (_, n) => n | Panic => 0 end))))
                  (zrange_incl (-1) (numChains s)) |}.
Definition dump_eqb (a b : shape_dump) : bool :=
  (d_numEdges a =? d_numEdges b) && (d_numChains a =? d_numChains b) &&
  list_eqb (res_eqb zz_eqb) (d_edges a) (d_edges b) &&
  list_eqb (res_eqb zz_eqb) (d_positions a) (d_positions b) &&
  list_eqb (fun x y => res_eqb zz_eqb (fst x) (fst y) && list_eqb (res_eqb zz_eqb) (snd x) (snd y))
           (d_chains a) (d_chains b).

(** * The contract of the Shape interface (s2/shape.go) for one shape value:
    - for e < NumEdges: ChainPosition(e) = (i, j) is a position inside chain i, ChainEdge(i, j)
      and Edge(e) both succeed and are the same edge, and Chain(i).Start + j = e;
    - for i < NumChains, j < Chain(i).Length: Edge(Start + j) = ChainEdge(i, j), and
      ChainPosition(Start + j) = (i, j);
    - the chains are consecutive and tile [0, NumEdges). *)
Definition contract (s : shape_ops) : Prop :=
  0 <= numEdges s /\ 0 <= numChains s /\
  (forall e, 0 <= e < numEdges s -> exists i j ed,
      chainPosition s e = Ok (i, j) /\ edgeAt s e = Ok ed /\ chainEdge s i j = Ok ed /\
      0 <= i < numChains s /\
      exists st ln, chainAt s i = Ok (st, ln) /\ 0 <= j < ln /\ st + j = e) /\
  (forall i, 0 <= i < numChains s -> exists st ln,
      chainAt s i = Ok (st, ln) /\ 0 <= st /\ 0 <= ln /\ st + ln <= numEdges s /\
      forall j, 0 <= j < ln -> exists ed,
        edgeAt s (st + j) = Ok ed /\ chainEdge s i j = Ok ed /\
        chainPosition s (st + j) = Ok (i, j)) /\
  (numChains s = 0 -> numEdges s = 0) /\
  (forall i st ln, 0 <= i < numChains s -> chainAt s i = Ok (st, ln) ->
      (i = 0 -> st = 0) /\
      (i + 1 = numChains s -> st + ln = numEdges s) /\
      (i + 1 < numChains s -> exists ln', chainAt s (i + 1) = Ok (st + ln, ln'))).

(** a flat encoding of the observation table (the correspondence files elaborate a [list Z]
    several times faster than nested constructors): Panic = 0, Ok (a, b) = (a+2) * 2^22 + (b+2)
    for a, b in [-2, 2^22 - 2) *)
Definition code_zz (r : res (Z * Z)) : Z :=
  match r with Panic => 0 | Ok (a, b) => (a + 2) * 4194304 + (b + 2) end.
Definition encode_dump (d : shape_dump) : list Z :=
  d_numEdges d :: d_numChains d :: map code_zz (d_edges d) ++ map code_zz (d_positions d) ++
  flat_map (fun c => code_zz (fst c) :: map code_zz (snd c)) (d_chains d).

(** two 31-bit polynomial checksums (mod 2^31, odd multipliers) of the flat table: the
    correspondence compares them with the checksums the harness computes over the implementation's
    table (elaborating the full expected table in every case costs far more than evaluating the
    model; [Z.land] because [Z.modulo] is slow under vm_compute) *)
Definition hash_step (m : Z) (h x : Z) : Z := Z.land (h * m + x + 12345) 2147483647.
Definition hash2 (l : list Z) : Z * Z :=
  (fold_left (hash_step 1000003) l 7, fold_left (hash_step 69069) l 11).
Definition hash_eqb (l : list Z) (h1 h2 : Z) : bool :=
  let '(a, b) := hash2 l in (a =? h1) && (b =? h2).
