(** C07 — loop nesting discovery of s2/polygon.go: insertLoop / initNested / initLoops over
    abstract loop ids (positions in the slice given to PolygonFromLoops) and a boolean matrix
    [nested i j] = loops[i].ContainsNested(loops[j]). Definitions only.

    The loopMap (Go: map[*Loop][]*Loop, key nil = the root) is a function from [option nat]
    to the child list. *)
From Coq Require Import List Bool Arith.
Import ListNotations.

Definition node := option nat.
Definition node_eqb (a b : node) : bool :=
  match a, b with
  | None, None => true
  | Some x, Some y => Nat.eqb x y
  | _, _ => false
  end.
Definition lmap := node -> list nat.
Definition lm_empty : lmap := fun _ => [].
Definition upd (lm : lmap) (k : node) (v : list nat) : lmap :=
  fun q => if node_eqb q k then v else lm q.

Section Nest.
  Variable nested : nat -> nat -> bool.

  (* for done := false; !done; { children = lm[parent]; done = true
       for _, child := range children {
         if child.ContainsNested(newLoop) { parent = child; done = false; break } } }
     [fuel] bounds the number of descents (the map is a forest over the loops inserted so far) *)
  Fixpoint descend (fuel : nat) (lm : lmap) (parent : node) (new : nat) : node :=
    match fuel with
    | 0 => parent
    | S f =>
        match find (fun c => nested c new) (lm parent) with
        | Some c => descend f lm (Some c) new
        | None => parent
        end
    end.

  (* newChildren := lm[newLoop]
     for i := 0; i < len(children); { child := children[i]
        if newLoop.ContainsNested(child) { newChildren = append(newChildren, child)
                                           children = append(children[0:i], children[i+1:]...) }
        else { i++ } }
     lm[newLoop] = newChildren ; lm[parent] = append(children, newLoop) *)
  Definition insert_loop (fuel : nat) (lm : lmap) (new : nat) : lmap :=
    let parent := descend fuel lm None new in
    let children := lm parent in
    let new_children := lm (Some new) ++ filter (fun c => nested new c) children in
    let rest := filter (fun c => negb (nested new c)) children in
    upd (upd lm (Some new) new_children) parent (rest ++ [new]).

  Definition insert_all (ids : list nat) : lmap :=
    fold_left (insert_loop (S (length ids))) ids lm_empty.

  (** initLoops, specification: depth-first pre-order from the root, children in slice order,
      depth of the root's children 0. [h] bounds the height. *)
  Fixpoint preorder (h : nat) (lm : lmap) (d : nat) (nodes : list nat) : list (nat * nat) :=
    match h with
    | 0 => []
    | S h' => flat_map (fun c => (c, d) :: preorder h' lm (S d) (lm (Some c))) nodes
    end.

  (** initLoops as written: explicit stack (head = top), [depth] read back from the popped loop.
        stack.push(nil); depth := -1
        for len(stack) > 0 { loop := stack.pop()
          if loop != nil { depth = loop.depth; p.loops = append(p.loops, loop) }
          children := lm[loop]
          for i := len(children)-1; i >= 0; i-- { child.depth = depth+1; stack.push(child) } }
      A stack item carries the depth stored in the loop when it was pushed; for the nil root
      the children get depth (-1)+1 = 0. *)
  Definition child_depth (nd : node) (d : nat) : nat := match nd with None => 0 | Some _ => S d end.
  Fixpoint init_loops (fuel : nat) (lm : lmap) (stack : list (node * nat)) (out : list (nat * nat))
    : list (nat * nat) :=
    match fuel with
    | 0 => out
    | S f =>
        match stack with
        | [] => out
        | (nd, d) :: st =>
            let out' := match nd with Some l => out ++ [(l, d)] | None => out end in
            init_loops f lm (map (fun c => (Some c, child_depth nd d)) (lm nd) ++ st) out'
        end
    end.

  (** Polygon.initOneLoop, the single-loop path of initNested. The *Loop handed to
      PolygonFromLoops carries whatever depth an earlier polygon (or Decode) stored in it:
        p.hasHoles = false ... // Ensure the loops depth is set correctly.
        p.loops[0].depth = 0
      [stored_depth] is that stale field; the assignment overwrites it. *)
  Definition init_one_loop (stored_depth : nat) : nat := 0.

  (** Polygon.initNested: the resulting loop order with depths. [stored l] is the depth field of
      input loop l before the call. In the multi-loop path initLoops assigns child.depth when it
      pushes the child and reads it back when it pops it (carried on the stack here), so the
      stored depths are never read there. *)
  Definition init_nested (stored : nat -> nat) (ids : list nat) : list (nat * nat) :=
    match ids with
    | [x] => [(x, init_one_loop (stored x))]
    | _ => init_loops (S (S (length ids))) (insert_all ids) [(None, 0)] []
    end.

  (** the same through the recursive specification of initLoops *)
  Definition init_nested_spec (stored : nat -> nat) (ids : list nat) : list (nat * nat) :=
    match ids with
    | [x] => [(x, init_one_loop (stored x))]
    | _ => let lm := insert_all ids in preorder (S (length ids)) lm 0 (lm None)
    end.

  Definition depth_of (out : list (nat * nat)) (l : nat) : option nat :=
    option_map snd (find (fun p => Nat.eqb (fst p) l) out).
End Nest.
