(** C07 — rangeIterator.seekTo / seekBeyond (s2/shapeutil.go) over the sorted cell-id slice of a
    ShapeIndex, as used by hasCrossingRelation to merge two indexes. Definitions only.
    Cell ids are Z (uint64 values); a position is an index into the slice, [length ids] = Done
    (the iterator then reports SentinelCellID). *)
From Coq Require Import List ZArith Bool Arith.
Import ListNotations.
Local Open Scope Z_scope.

(** CellID.lsb, RangeMin, RangeMax *)
Definition cid_lsb (c : Z) : Z := Z.land c (Z.land (2 ^ 64 - c) (2 ^ 64 - 1)).
Definition cid_range_min (c : Z) : Z := c - (cid_lsb c - 1).
Definition cid_range_max (c : Z) : Z := c + (cid_lsb c - 1).

Section RangeIter.
  Variable rmin rmax : Z -> Z.        (* CellID.RangeMin / RangeMax *)

  (* ShapeIndexIterator.seek: sort.Search(len(cells), func(i) bool { return cells[i] >= target })
     on the sorted slice = the first position whose id is >= target *)
  Fixpoint lower_bound (ids : list Z) (t : Z) : nat :=
    match ids with
    | [] => 0%nat
    | c :: r => if c <? t then S (lower_bound r t) else 0%nat
    end.

  Definition at_pos (ids : list Z) (p : nat) : Z := nth p ids 0.

  (* func (r *rangeIterator) seekTo(target *rangeIterator) {
       r.it.seek(target.rangeMin)
       if r.it.Done() || r.it.CellID().RangeMin() > target.rangeMax {
         if r.it.Prev() && r.it.CellID().RangeMax() < target.cellID() { r.it.Next() } }
       r.refresh() } *)
  Definition seek_to (ids : list Z) (tmin tid tmax : Z) : nat :=
    let p := lower_bound ids tmin in
    if Nat.eqb p (length ids) || (rmin (at_pos ids p) >? tmax) then
      if Nat.ltb 0 p                                        (* Prev() moved and returned true *)
      then (if rmax (at_pos ids (p - 1)) <? tid then p else (p - 1)%nat)
      else p
    else p.

  (* func (r *rangeIterator) seekBeyond(target *rangeIterator) {
       r.it.seek(target.rangeMax.Next())
       if !r.it.Done() && r.it.CellID().RangeMin() <= target.rangeMax { r.it.Next() }
       r.refresh() }
     target.rangeMax is a leaf cell id; Next() of a leaf adds 2 *)
  Definition seek_beyond (ids : list Z) (tmax : Z) : nat :=
    let p := lower_bound ids (tmax + 2) in
    if negb (Nat.eqb p (length ids)) && (rmin (at_pos ids p) <=? tmax) then S p else p.
End RangeIter.

(** the recorded run of the real iterator against the model with the real range functions *)
Definition seek_check (ids : list Z) (tmin tid tmax : Z) (beyond : bool) (observed : nat) : bool :=
  Nat.eqb observed
    (if beyond then seek_beyond cid_range_min ids tmax
     else seek_to cid_range_min cid_range_max ids tmin tid tmax).
