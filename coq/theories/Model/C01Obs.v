(** Observation bundles for the C01 correspondence: each packs the values of several
    translated/modelled functions on one input into a list, which the observer compares
    with the list of values the Go implementation produced.  Definitions only. *)
From Coq Require Import ZArith List Bool Floats.
From Geo Require Import Base.GoPrim Base.Check Gen.CellIDFull Model.CellIDNbr.
Import ListNotations.
Local Open Scope Z_scope.

Definition b2z (b : bool) : Z := if b then 1 else 0.
Definition zl_eqb := list_eqb Z.eqb.
Definition fl_eqb := list_eqb fbiteq.

Definition c01_id (c : Z) : list Z :=
  [ s2_CellID_lsb c; s2_CellID_Level c; s2_CellID_Face c; s2_CellID_Pos c;
    b2z (s2_CellID_IsValid c); b2z (s2_CellID_IsLeaf c); b2z (s2_CellID_isFace c);
    s2_CellID_RangeMin c; s2_CellID_RangeMax c; s2_CellID_ChildBegin c; s2_CellID_ChildEnd c;
    s2_CellID_Next c; s2_CellID_Prev c; s2_CellID_NextWrap c; s2_CellID_PrevWrap c;
    s2_CellID_distanceFromBegin c; s2_CellID_immediateParent c ] ++ s2_CellID_Children c.

Definition c01_idlevel (c l : Z) : list Z :=
  [ s2_CellID_Parent c l; s2_CellID_ChildPosition c l; s2_CellID_ChildBeginAtLevel c l;
    s2_CellID_ChildEndAtLevel c l; s2_CellIDFromFacePosLevel (s2_CellID_Face c) (s2_CellID_Pos c) l;
    s2_lsbForLevel l; s2_sizeIJ l ].

Definition c01_pair (a b : Z) : list Z :=
  let '(l, ok) := s2_CellID_CommonAncestorLevel a b in
  [ b2z (s2_CellID_Contains a b); b2z (s2_CellID_Intersects a b); l; b2z ok ].

Definition c01_adv (c n : Z) : list Z := [ s2_CellID_AdvanceWrap c n; s2_CellID_Advance c n ].

Definition c01_ij (c : Z) : list Z :=
  let '(f, i, j, o) := s2_CellID_faceIJOrientation c in
  let '(f1, si, ti) := s2_CellID_faceSiTi c in
  let '(f2, si2, ti2) := s2_CellID_centerFaceSiTi c in
  let cell := s2_CellFromCellID c in
  [ f; i; j; o; f1; si; ti; f2; si2; ti2;
    s2_Cell_face cell; s2_Cell_level cell; s2_Cell_orientation cell; s2_Cell_id cell ].

Definition c01_rect (r : r2_Rect) : list float :=
  [ r1_Interval_Lo (r2_Rect_X r); r1_Interval_Hi (r2_Rect_X r);
    r1_Interval_Lo (r2_Rect_Y r); r1_Interval_Hi (r2_Rect_Y r) ].
Definition c01_celluv (c : Z) : list float := c01_rect (s2_Cell_uv (s2_CellFromCellID c)).

Definition c01_fromij (f i j : Z) : list Z :=
  [ s2_cellIDFromFaceIJ f i j ].
Definition c01_wrap (f i j : Z) : list Z :=
  [ s2_cellIDFromFaceIJWrap f i j; s2_cellIDFromFaceIJSame f i j false ].

Definition c01_st (s : float) : list float :=
  [ s2_stToUV s; s2_uvToST s ].
Definition c01_stz (s : float) : list Z := [ s2_stToIJ s ].
Definition c01_si (si : Z) : list float := [ s2_siTiToST si; s2_ijToSTMin si ].

Definition mkp (x y z : float) : s2_Point := mk_s2_Point (mk_r3_Vector x y z).
Definition c01_point_z (x y z : float) : list Z :=
  let '(f, u, v) := s2_xyzToFaceUV (mk_r3_Vector x y z) in
  [ f; s2_face (mk_r3_Vector x y z); s2_cellIDFromPoint (mkp x y z) ].
Definition c01_point_f (x y z : float) : list float :=
  let '(f, u, v) := s2_xyzToFaceUV (mk_r3_Vector x y z) in [ u; v ].
(** ContainsPoint of the leaf of p and of its ancestors at the given levels *)
Definition c01_point_contains (x y z : float) (levels : list Z) : list Z :=
  let leaf := s2_cellIDFromPoint (mkp x y z) in
  map (fun l => b2z (s2_Cell_ContainsPoint (s2_CellFromCellID (s2_CellID_Parent leaf l)) (mkp x y z))) levels.
(** ContainsPoint of an arbitrary cell *)
Definition c01_contains (c : Z) (x y z : float) : Z :=
  b2z (s2_Cell_ContainsPoint (s2_CellFromCellID c) (mkp x y z)).
Definition c01_faceuv_xyz (f : Z) (u v : float) : list float :=
  let r := s2_faceUVToXYZ f u v in [ r3_Vector_X r; r3_Vector_Y r; r3_Vector_Z r ].
