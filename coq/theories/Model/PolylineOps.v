(** C17 hand-written executable models (definitions only) for the parts of
    s2/edge_distances.go and s2/polyline.go the translator cannot take:
    - [UpdateMaxDistance] (calls the variadic maxChordAngle),
    - the edge-pair layer (calls CrossingSign / Intersection: their results are parameters),
    - the Polyline methods (pointer receiver, loops over slices with early return).
    All leaves are the translated functions of Gen/EdgeDist.v, Gen/S2Point.v, Gen/S1.v. *)
From Coq Require Import ZArith List Bool Floats.
From Geo Require Import Base.GoPrim Gen.EdgeDist.
Import ListNotations.
Local Open Scope bool_scope.

(** ** s2.UpdateMaxDistance *)
Definition neg_point (x : s2_Point) : s2_Point :=
  mk_s2_Point (r3_Vector_Mul (s2_Point_Vector x) (-1)%float).

Definition m_UpdateMaxDistance (x a b : s2_Point) (maxDist : float) : float * bool :=
  let dist := s2_maxChordAngle (s2_ChordAngleBetweenPoints x a) [s2_ChordAngleBetweenPoints x b] in
  let dist := if PrimFloat.ltb 2%float dist
              then PrimFloat.sub 4%float (fst (s2_updateMinDistance (neg_point x) a b dist true))
              else dist in
  if PrimFloat.ltb maxDist dist then (dist, true) else (maxDist, false).

(** ** edge pairs; [crosses] is the value of [CrossingSign(...) == Cross] *)
Definition m_updateEdgePairMinDistance (crosses : bool) (a0 a1 b0 b1 : s2_Point) (minDist : float) : float * bool :=
  if PrimFloat.eqb minDist 0%float then (0%float, false) else
  if crosses then (0%float, true) else
  let '(m, ok1) := s2_UpdateMinDistance a0 b0 b1 minDist in
  let '(m, ok2) := s2_UpdateMinDistance a1 b0 b1 m in
  let '(m, ok3) := s2_UpdateMinDistance b0 a0 a1 m in
  let '(m, ok4) := s2_UpdateMinDistance b1 a0 a1 m in
  (m, ok1 || ok2 || ok3 || ok4).

(** [crosses] here is CrossingSign(a0, a1, -b0, -b1) == Cross *)
Definition m_updateEdgePairMaxDistance (crosses : bool) (a0 a1 b0 b1 : s2_Point) (maxDist : float) : float * bool :=
  if PrimFloat.eqb maxDist 4%float then (4%float, false) else
  if crosses then (4%float, true) else
  let '(m, ok1) := m_UpdateMaxDistance a0 b0 b1 maxDist in
  let '(m, ok2) := m_UpdateMaxDistance a1 b0 b1 m in
  let '(m, ok3) := m_UpdateMaxDistance b0 a0 a1 m in
  let '(m, ok4) := m_UpdateMaxDistance b1 a0 a1 m in
  (m, ok1 || ok2 || ok3 || ok4).

(** the non-crossing part of EdgePairClosestPoints: which vertex is closest, and the pair *)
Definition m_closestVertex (a0 a1 b0 b1 : s2_Point) : Z :=
  let '(m, _) := s2_updateMinDistance a0 b0 b1 0%float true in
  let cv := 0%Z in
  let '(m, ok) := s2_UpdateMinDistance a1 b0 b1 m in
  let cv := if ok then 1%Z else cv in
  let '(m, ok) := s2_UpdateMinDistance b0 a0 a1 m in
  let cv := if ok then 2%Z else cv in
  let '(_, ok) := s2_UpdateMinDistance b1 a0 a1 m in
  if ok then 3%Z else cv.

Definition m_EdgePairClosestPoints (crosses : bool) (isect : s2_Point) (a0 a1 b0 b1 : s2_Point) : s2_Point * s2_Point :=
  if crosses then (isect, isect) else
  let cv := m_closestVertex a0 a1 b0 b1 in
  if (cv =? 0)%Z then (a0, s2_Project a0 b0 b1)
  else if (cv =? 1)%Z then (a1, s2_Project a1 b0 b1)
  else if (cv =? 2)%Z then (s2_Project b0 a0 a1, b0)
  else (s2_Project b1 a0 a1, b1).

(** ** Polylines: [list s2_Point] *)
Definition pt0 : s2_Point := mk_s2_Point (mk_r3_Vector 0%float 0%float 0%float).
Definition pl_at (p : list s2_Point) (i : Z) : s2_Point := nthZ p i pt0.
Definition pl_len (p : list s2_Point) : Z := Z.of_nat (length p).

(** Polyline.Length / polylineLength: [length += p[i-1].Distance(p[i])] *)
Fixpoint length_walk (prev : s2_Point) (rest : list s2_Point) (acc : float) : float :=
  match rest with
  | [] => acc
  | v :: rest' => length_walk v rest' (PrimFloat.add acc (s2_Point_Distance prev v))
  end.
Definition m_Polyline_Length (p : list s2_Point) : float :=
  match p with [] => 0%float | v0 :: rest => length_walk v0 rest 0%float end.

(** Polyline.Interpolate. The loop [for i := 1; i < len; i++] with its early return;
    [i] is the index of the head of [rest]. The empty polyline panics in Go; the model
    returns [(pt0, 0)] there and the theorems exclude it. *)
Fixpoint interp_walk (prev : s2_Point) (rest : list s2_Point) (i : Z) (target : float) : s2_Point * Z :=
  match rest with
  | [] => (prev, i)
  | v :: rest' =>
      let len := s2_Point_Distance prev v in
      if PrimFloat.ltb target len then
        let result := s2_InterpolateAtDistance target prev v in
        if s2_Point_eqb result v then (result, (i + 1)%Z) else (result, i)
      else interp_walk v rest' (i + 1)%Z (PrimFloat.sub target len)
  end.
Definition m_Polyline_Interpolate (p : list s2_Point) (fraction : float) : s2_Point * Z :=
  match p with
  | [] => (pt0, 0%Z)
  | v0 :: rest =>
      if PrimFloat.leb fraction 0%float then (v0, 1%Z)
      else interp_walk v0 rest 1%Z (PrimFloat.mul fraction (m_Polyline_Length p))
  end.

(** Polyline.Uninterpolate (requires 1 <= nextVertex <= len, as in Go where other values panic) *)
Definition seg_sum (p : list s2_Point) (lo hi : Z) (acc : float) : float :=
  fold_left (fun s i => PrimFloat.add s (s2_Point_Distance (pl_at p (i - 1)) (pl_at p i))) (zrange_up lo hi) acc.
Definition m_Polyline_Uninterpolate (p : list s2_Point) (point : s2_Point) (nextVertex : Z) : float :=
  if (pl_len p <? 2)%Z then 0%float else
  let sum := seg_sum p 1 nextVertex 0%float in
  let lengthToPoint := PrimFloat.add sum (s2_Point_Distance (pl_at p (nextVertex - 1)) point) in
  let sum := seg_sum p nextVertex (pl_len p) sum in
  s2_minFloat64 1%float [PrimFloat.div lengthToPoint sum].

(** Polyline.Project: closest segment by DistanceFromSegment, then Project on it *)
Definition project_scan (p : list s2_Point) (point : s2_Point) : float * Z :=
  fold_left (fun '(minDist, minIndex) i =>
               let dist := s2_DistanceFromSegment point (pl_at p (i - 1)) (pl_at p i) in
               if PrimFloat.ltb dist minDist then (dist, i) else (minDist, minIndex))
            (zrange_up 1 (pl_len p)) (10%float, (-1)%Z).
Definition m_Polyline_Project (p : list s2_Point) (point : s2_Point) : s2_Point * Z :=
  if (pl_len p =? 1)%Z then (pl_at p 0, 1%Z) else
  let minIndex := snd (project_scan p point) in
  let closest := s2_Project point (pl_at p (minIndex - 1)) (pl_at p minIndex) in
  if s2_Point_eqb closest (pl_at p minIndex) then (closest, (minIndex + 1)%Z) else (closest, minIndex).

(** Polyline.IsOnRight; [occw] is the value OrderedCCW(p[next-2], point, p[next], p[next-1])
    would return (exact predicate, outside this unit) *)
Definition m_Polyline_IsOnRight (occw : bool) (p : list s2_Point) (point : s2_Point) : bool :=
  let '(closest, next) := m_Polyline_Project p point in
  if s2_Point_eqb closest (pl_at p (next - 1)) && (1 <? next)%Z && (next <? pl_len p)%Z then
    if s2_Point_eqb point (pl_at p (next - 1)) then false else occw
  else
    let next := if (next =? pl_len p)%Z then (next - 1)%Z else next in
    s2_Sign point (pl_at p next) (pl_at p (next - 1)).
