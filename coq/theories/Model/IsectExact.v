(** C16 — hand-written model of the part of s2.Intersection the translator cannot take:
    [intersectionExact] (r3.PreciseVector = math/big.Float at MaxPrec, which never rounds on
    products/differences of a few float64 values) and [Intersection] itself, on top of the
    translated float part (Gen/Isect.v).  Definitions only; proofs are in Proofs/C16_*.v.

    [bigf] mirrors math/big.Float restricted to zero/finite values: a sign, a magnitude
    [mag >= 0] and a binary exponent, value (-1)^neg * mag * 2^exp; [mag = 0] is the signed
    zero (big.Float keeps signed zeros and they reach the float64 result through
    Float64()).  [bigf_mul], [bigf_sub] follow big.Float.Mul / big.Float.Sub case by case. *)
From Coq Require Import ZArith Bool Floats SpecFloat List.
From Geo Require Import Base.GoPrim Gen.R3 Gen.S2Point Gen.Isect.
Import ListNotations.
Local Open Scope Z_scope.

Record bigf := mk_bigf { bf_neg : bool; bf_mag : Z; bf_exp : Z }.

Definition bigf_is_zero (x : bigf) : bool := bf_mag x =? 0.

(** precFloat = new(big.Float).SetFloat64 (finite arguments; NaN panics in Go, Inf is outside
    every caller's domain: both are mapped to +0 here and excluded by the theorems' guards). *)
Definition bigf_of_float (x : float) : bigf :=
  match Prim2SF x with
  | S754_zero s => mk_bigf s 0 0
  | S754_finite s m e => mk_bigf s (Z.pos m) e
  | _ => mk_bigf false 0 0
  end.

(** big.Float.Mul: sign = xor, a zero operand gives a zero of that sign *)
Definition bigf_mul (x y : bigf) : bigf :=
  mk_bigf (xorb (bf_neg x) (bf_neg y)) (bf_mag x * bf_mag y) (bf_exp x + bf_exp y).

Definition bigf_opp (x : bigf) : bigf := mk_bigf (negb (bf_neg x)) (bf_mag x) (bf_exp x).

(** big.Float.Sub, rounding mode ToNearestEven, result exact *)
Definition bigf_sub (x y : bigf) : bigf :=
  if bigf_is_zero x then
    (if bigf_is_zero y then mk_bigf (bf_neg x && negb (bf_neg y)) 0 0 else bigf_opp y)
  else if bigf_is_zero y then x
  else
    let e := Z.min (bf_exp x) (bf_exp y) in
    let mx := bf_mag x * 2 ^ (bf_exp x - e) in
    let my := bf_mag y * 2 ^ (bf_exp y - e) in
    if negb (Bool.eqb (bf_neg x) (bf_neg y)) then mk_bigf (bf_neg x) (mx + my) e
    else if my <? mx then mk_bigf (bf_neg x) (mx - my) e
    else if mx =? my then mk_bigf false 0 0
    else mk_bigf (negb (bf_neg x)) (my - mx) e.

(** big.Float.Float64(): round to nearest even into binary64 (gradual underflow, overflow to
    infinity), sign kept, also on zero. *)
Definition bigf_to_float (x : bigf) : float :=
  if bigf_is_zero x then (if bf_neg x then (-0)%float else 0%float)
  else let f := float_of_Z_scaled (bf_mag x) (bf_exp x) in
       if bf_neg x then PrimFloat.opp f else f.

(** sign of the exact value: -1, 0, 1 *)
Definition bigf_sgn (x : bigf) : Z :=
  if bigf_is_zero x then 0 else if bf_neg x then -1 else 1.

(** r3.PreciseVector *)
Record pvec := mk_pvec { pv_X : bigf; pv_Y : bigf; pv_Z : bigf }.

Definition pvec_of_vector (v : r3_Vector) : pvec :=
  mk_pvec (bigf_of_float (r3_Vector_X v)) (bigf_of_float (r3_Vector_Y v)) (bigf_of_float (r3_Vector_Z v)).

Definition pvec_cross (v ov : pvec) : pvec :=
  mk_pvec (bigf_sub (bigf_mul (pv_Y v) (pv_Z ov)) (bigf_mul (pv_Z v) (pv_Y ov)))
          (bigf_sub (bigf_mul (pv_Z v) (pv_X ov)) (bigf_mul (pv_X v) (pv_Z ov)))
          (bigf_sub (bigf_mul (pv_X v) (pv_Y ov)) (bigf_mul (pv_Y v) (pv_X ov))).

(** PreciseVector.Dot = precAdd(x.x', precAdd(y.y', z.z')); a + b is modelled as a - (-b),
    which has the same value (the sign of a zero sum is not observed by any caller here). *)
Definition bigf_add (x y : bigf) : bigf := bigf_sub x (bigf_opp y).
Definition pvec_dot (v ov : pvec) : bigf :=
  bigf_add (bigf_mul (pv_X v) (pv_X ov)) (bigf_add (bigf_mul (pv_Y v) (pv_Y ov)) (bigf_mul (pv_Z v) (pv_Z ov))).

(** PreciseVector.Vector(): each component to float64 FIRST, then the float Normalize *)
Definition pvec_unnormalized (v : pvec) : r3_Vector :=
  mk_r3_Vector (bigf_to_float (pv_X v)) (bigf_to_float (pv_Y v)) (bigf_to_float (pv_Z v)).
Definition pvec_vector (v : pvec) : r3_Vector := r3_Vector_Normalize (pvec_unnormalized v).

(** s2.normalizableFromPrecise (/repo 15c67df): scale by 2^-maxExp, where maxExp is the largest
    big.Float exponent (MantExp: |c| = m * 2^exp with 1/2 <= m < 1) of the non-zero components,
    then round each component to float64.  Zero only if the exact vector is zero. *)
Definition bigf_binexp (x : bigf) : Z := Z.log2 (bf_mag x) + 1 + bf_exp x.
Definition bigf_scale (x : bigf) (k : Z) : bigf := mk_bigf (bf_neg x) (bf_mag x) (bf_exp x + k).
Definition pvec_maxexp (p : pvec) : option Z :=
  fold_left (fun acc c => if bigf_is_zero c then acc else
               match acc with None => Some (bigf_binexp c) | Some m => Some (Z.max m (bigf_binexp c)) end)
            [pv_X p; pv_Y p; pv_Z p] None.
Definition pvec_normalizable (p : pvec) : r3_Vector :=
  match pvec_maxexp p with
  | None => mk_r3_Vector 0%float 0%float 0%float
  | Some m => mk_r3_Vector (bigf_to_float (bigf_scale (pv_X p) (- m)))
                           (bigf_to_float (bigf_scale (pv_Y p) (- m)))
                           (bigf_to_float (bigf_scale (pv_Z p) (- m)))
  end.

Definition pvec_direction (p : pvec) : r3_Vector := r3_Vector_Normalize (pvec_normalizable p).

(** exact (a x b) . c : the value RobustSign returns whenever it is non-zero (C02); the
    symbolic perturbation used when it is zero is not modelled here *)
Definition sign_exact (a b c : s2_Point) : Z :=
  bigf_sgn (pvec_dot (pvec_cross (pvec_of_vector (s2_Point_Vector a)) (pvec_of_vector (s2_Point_Vector b)))
                     (pvec_of_vector (s2_Point_Vector c))).

(** s2.OrderedCCW with RobustSign replaced by [sign_exact] (Clockwise = -1, CounterClockwise = 1) *)
Definition occw_exact (a b c o : s2_Point) : bool :=
  let s1 := if negb (sign_exact b o a =? -1) then 1 else 0 in
  let s2 := if negb (sign_exact c o b =? -1) then 1 else 0 in
  let s3 := if sign_exact a o c =? 1 then 1 else 0 in
  2 <=? s1 + s2 + s3.

Definition vec_zero : r3_Vector := mk_r3_Vector 0%float 0%float 0%float.
Definition vec_ten : r3_Vector := mk_r3_Vector 10%float 10%float 10%float.

(** the four exact intermediate vectors of intersectionExact *)
Definition isect_aNormP (a0 a1 : s2_Point) : pvec :=
  pvec_cross (pvec_of_vector (s2_Point_Vector a0)) (pvec_of_vector (s2_Point_Vector a1)).
Definition isect_xP (a0 a1 b0 b1 : s2_Point) : pvec :=
  pvec_cross (isect_aNormP a0 a1) (isect_aNormP b0 b1).

(** one step of the REPAIRED collinear branch (/repo 08e0ee9):
    [if OrderedCCW(..) && p.Cmp(x) == -1 { x = p.Vector }] *)
Definition coll_step (x : r3_Vector) (c : bool * s2_Point) : r3_Vector :=
  if fst c && (r3_Vector_Cmp (s2_Point_Vector (snd c)) x =? -1) then s2_Point_Vector (snd c) else x.
Definition coll_pick (cands : list (bool * s2_Point)) : r3_Vector := fold_left coll_step cands vec_ten.

(** the branch as it was before the repair: the first candidate that passes is returned *)
Fixpoint coll_pick_old (cands : list (bool * s2_Point)) : r3_Vector :=
  match cands with
  | [] => vec_ten
  | c :: t => if fst c && (r3_Vector_Cmp (s2_Point_Vector (snd c)) vec_ten =? -1) then s2_Point_Vector (snd c)
              else coll_pick_old t
  end.

(** [nrm] converts the exact edge normals (repaired, /repo e0f951d: rescaled like xP;
    before: PreciseVector.Vector()) *)
Definition coll_candidates_gen (nrm : pvec -> r3_Vector) (occw : s2_Point -> s2_Point -> s2_Point -> s2_Point -> bool)
    (a0 a1 b0 b1 : s2_Point) : list (bool * s2_Point) :=
  let aNorm := mk_s2_Point (nrm (isect_aNormP a0 a1)) in
  let bNorm := mk_s2_Point (nrm (isect_aNormP b0 b1)) in
  [ (occw b0 a0 b1 bNorm, a0); (occw b0 a1 b1 bNorm, a1);
    (occw a0 b0 a1 aNorm, b0); (occw a0 b1 a1 aNorm, b1) ].
Definition coll_candidates := coll_candidates_gen pvec_direction.

(** s2.intersectionExact; [tofloat] is the conversion of the exact vector (repaired:
    normalizableFromPrecise(xP).Normalize(); before 15c67df: xP.Vector()), [pick] the collinear
    rule (repaired: minimum; before 08e0ee9: first), OrderedCCW supplied by the caller *)
Definition s2_intersectionExact_gen (tofloat : pvec -> r3_Vector) (pick : list (bool * s2_Point) -> r3_Vector)
    (occw : s2_Point -> s2_Point -> s2_Point -> s2_Point -> bool) (a0 a1 b0 b1 : s2_Point) : s2_Point :=
  let x := tofloat (isect_xP a0 a1 b0 b1) in
  if r3_Vector_eqb x vec_zero then mk_s2_Point (pick (coll_candidates occw a0 a1 b0 b1))
  else mk_s2_Point x.
Definition s2_intersectionExact_with := s2_intersectionExact_gen pvec_direction coll_pick.
Definition s2_intersectionExact := s2_intersectionExact_with occw_exact.
(** the two earlier variants, kept for the [_old_refuted] witnesses *)
Definition s2_intersectionExact_old_vector := s2_intersectionExact_gen pvec_vector coll_pick occw_exact.
Definition s2_intersectionExact_old_first := s2_intersectionExact_gen pvec_direction coll_pick_old occw_exact.
(** did the exact path take its "collinear" branch? *)
Definition isect_exact_collinear (a0 a1 b0 b1 : s2_Point) : bool :=
  r3_Vector_eqb (pvec_direction (isect_xP a0 a1 b0 b1)) vec_zero.

(** s2.Intersection *)
Definition isect_fix_sign (pt a0 a1 b0 b1 : s2_Point) : s2_Point :=
  if PrimFloat.ltb (r3_Vector_Dot (s2_Point_Vector pt)
        (r3_Vector_Add (r3_Vector_Add (s2_Point_Vector a0) (s2_Point_Vector a1))
                       (r3_Vector_Add (s2_Point_Vector b0) (s2_Point_Vector b1)))) 0%float
  then mk_s2_Point (r3_Vector_Mul (s2_Point_Vector pt) (-1)%float) else pt.

(** [Point{pt.Add(r3.Vector{})}] (/repo 6031b18): x + (+0) turns -0 into +0 *)
Definition isect_canon_zero (pt : s2_Point) : s2_Point :=
  mk_s2_Point (r3_Vector_Add (s2_Point_Vector pt) (mk_r3_Vector 0%float 0%float 0%float)).

(** the point before the final canonicalisation of zero signs *)
Definition s2_Intersection_signed (exact : s2_Point -> s2_Point -> s2_Point -> s2_Point -> s2_Point)
    (a0 a1 b0 b1 : s2_Point) : s2_Point :=
  let '(pt, ok) := s2_intersectionStable a0 a1 b0 b1 in
  let pt := if ok then pt else exact a0 a1 b0 b1 in
  isect_fix_sign pt a0 a1 b0 b1.
Definition s2_Intersection_with exact (a0 a1 b0 b1 : s2_Point) : s2_Point :=
  isect_canon_zero (s2_Intersection_signed exact a0 a1 b0 b1).
Definition s2_Intersection := s2_Intersection_with s2_intersectionExact.
(** as it was before 6031b18 (for the [_old_refuted] witness) *)
Definition s2_Intersection_old_signed := s2_Intersection_signed s2_intersectionExact.
