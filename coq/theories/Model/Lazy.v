(** Model/Lazy.v — C13. Abstract state machines for the deferred-update bookkeeping of
    s2.ShapeIndex, Loop.Invert, and the per-object state of EdgeQuery / CrossingEdgeQuery /
    ContainsPointQuery. Definitions only (proofs are in Proofs/C13_*.v).

    The OBSERVABLE of every machine is what a query can see. Each machine is given as the code
    IS in /repo now (after the repairs 5701870, c417920, 784d87c) and, separately, as it WAS
    ([apply_old], [reset_old], [find_edge_old], [is_less_old]) so that the theorems document
    exactly what the repairs changed.

    Plain stdlib lists are used for the maps (ids are dense because Remove is outside the
    quantifier of C13), so every definition runs under vm_compute for the correspondence. *)
From Coq Require Import List Bool Arith.
Import ListNotations.

Inductive outcome (A : Type) : Type := Ok (a : A) | Hang | Panic.
Arguments Ok {A} a. Arguments Hang {A}. Arguments Panic {A}.

Definition obind {A B} (x : outcome A) (f : A -> outcome B) : outcome B :=
  match x with Ok a => f a | Hang => Hang | Panic => Panic end.

(** * (a) The index machine: s2/shapeindex.go Add, Build, Reset, maybeApplyUpdates,
      applyUpdatesInternal. *)

(** Go declares stale/updating/fresh; [updating] is never stored. *)
Inductive status := Stale | Fresh.
Definition status_eqb (a b : status) :=
  match a, b with Stale, Stale | Fresh, Fresh => true | _, _ => false end.

(** [shapes map[int32]Shape] as an association list; insertion replaces an existing key. *)
Section Map.
  Context {S : Type}.
  Fixpoint m_lookup (k : nat) (m : list (nat * S)) : option S :=
    match m with
    | [] => None
    | (k', v) :: r => if k =? k' then Some v else m_lookup k r
    end.
  Fixpoint m_insert (k : nat) (v : S) (m : list (nat * S)) : list (nat * S) :=
    match m with
    | [] => [(k, v)]
    | (k', v') :: r => if k =? k' then (k, v) :: r else (k', v') :: m_insert k v r
    end.
End Map.

Section Index.
  (** [S]: what is stored in the shapes map (a reference to a shape); [G]: the geometry of a
      shape as the index clipped it when it was indexed. [snap] reads the current geometry
      through the reference at the moment applyUpdatesInternal runs. For an index over
      immutable shapes S = G and snap = id; for a Loop's own index S = unit and snap returns
      the loop's current vertices (Loop.Invert mutates them in place). *)
  Context {S G : Type}.

  Record index := mkIndex {
    shapes     : list (nat * S);   (* shapes map; len(s.shapes) = length *)
    nextID     : nat;
    pendingPos : nat;              (* pendingAdditionsPos *)
    removals   : nat;              (* len(pendingRemovals); always 0 here: no Remove *)
    st         : status;           (* atomic status word *)
    cells      : list (nat * G)    (* ids whose edges are in cellMap, with the geometry indexed *)
  }.

  Definition index_new : index := mkIndex [] 0 0 0 Fresh [].

  (** Add: s.shapes[s.nextID] = shape; s.nextID++; status = stale. *)
  Definition index_add (s : S) (ix : index) : index :=
    mkIndex (m_insert (nextID ix) s (shapes ix)) (Datatypes.S (nextID ix)) (pendingPos ix) (removals ix)
            Stale (cells ix).

  (** Reset as repaired (c417920): also forgets pendingAdditionsPos / pendingRemovals. *)
  Definition index_reset (ix : index) : index := mkIndex [] 0 0 0 Fresh [].
  (** Reset as it was: kept pendingAdditionsPos and pendingRemovals. *)
  Definition index_reset_old (ix : index) : index := mkIndex [] 0 (pendingPos ix) (removals ix) Fresh [].

  (** addShapeInternal for ids a .. b-1 (an id missing from the map is skipped). *)
  Definition ids_from (a b : nat) : list nat := seq a (b - a).
  Definition index_ids (snap : S -> G) (m : list (nat * S)) (ids : list nat) : list (nat * G) :=
    flat_map (fun id => match m_lookup id m with Some s => [(id, snap s)] | None => [] end) ids.

  (** applyUpdatesInternal as repaired (5701870):
      first update: index ids pendingPos.. into the (empty) cell map;
      non-first update with nothing pending: return;
      non-first update with something pending: discard the cells, index everything again. *)
  Definition apply (snap : S -> G) (ix : index) : outcome index :=
    let n := length (shapes ix) in
    if pendingPos ix =? 0 then
      Ok (mkIndex (shapes ix) (nextID ix) n 0 (st ix)
                  (cells ix ++ index_ids snap (shapes ix) (ids_from (pendingPos ix) n)))
    else if (n <=? pendingPos ix) && (removals ix =? 0) then Ok ix
    else Ok (mkIndex (shapes ix) (nextID ix) n 0 (st ix) (index_ids snap (shapes ix) (ids_from 0 n))).

  (** applyUpdatesInternal as it was: a non-first update that has at least one new shape with
      edges reaches shrinkToFit/updateEdges, which call s.Iterator() -> maybeApplyUpdates ->
      mu.Lock() while the lock is held: self-deadlock. ([nonempty] = the shape has an edge.) *)
  Definition apply_old (nonempty : S -> bool) (snap : S -> G) (ix : index) : outcome index :=
    let n := length (shapes ix) in
    let new := ids_from (pendingPos ix) n in
    if pendingPos ix =? 0 then
      Ok (mkIndex (shapes ix) (nextID ix) n 0 (st ix) (cells ix ++ index_ids snap (shapes ix) new))
    else if existsb (fun id => match m_lookup id (shapes ix) with Some s => nonempty s | None => false end) new
    then Hang
    else Ok (mkIndex (shapes ix) (nextID ix) (Nat.max (pendingPos ix) n) 0 (st ix) (cells ix)).

  (** maybeApplyUpdates (single-threaded view; the protocol itself is Model/Conc.v). *)
  Definition maybe_apply (app : index -> outcome index) (ix : index) : outcome index :=
    match st ix with
    | Fresh => Ok ix
    | Stale => obind (app ix) (fun ix' =>
        Ok (mkIndex (shapes ix') (nextID ix') (pendingPos ix') (removals ix') Fresh (cells ix')))
    end.

  Inductive iop := IAdd (s : S) | IBuild | IQuery | IReset.

  (** What a query sees: the cell map's content (ids + geometry as indexed) and the shapes map. *)
  Definition iobs : Type := (list (nat * G) * list (nat * S))%type.
  Definition observe (ix : index) : iobs := (cells ix, shapes ix).

  Definition istep (app : index -> outcome index) (rst : index -> index)
             (ix : index) (o : iop) : outcome (index * list iobs) :=
    match o with
    | IAdd s => Ok (index_add s ix, [])
    | IReset => Ok (rst ix, [])
    | IBuild => obind (maybe_apply app ix) (fun ix' => Ok (ix', []))
    | IQuery => obind (maybe_apply app ix) (fun ix' => Ok (ix', [observe ix']))
    end.

  (** run a history, collecting the observations in order *)
  Fixpoint run {St Op Ob} (step : St -> Op -> outcome (St * list Ob)) (s : St) (h : list Op)
    : outcome (St * list Ob) :=
    match h with
    | [] => Ok (s, [])
    | o :: r => obind (step s o) (fun '(s', out) =>
                 obind (run step s' r) (fun '(s'', outs) => Ok (s'', out ++ outs)))
    end.

  Definition irun snap := run (istep (apply snap) index_reset) index_new.
  Definition irun_old nonempty snap := run (istep (apply_old nonempty snap) index_reset) index_new.
  Definition irun_reset_old snap := run (istep (apply snap) index_reset_old) index_new.

  (** The specification side, a pure function of the history: the shapes currently held
      (those added since the last Reset), and what a fresh index over them shows. *)
  Fixpoint held (acc : list S) (h : list iop) : list S :=
    match h with
    | [] => acc
    | IAdd s :: r => held (acc ++ [s]) r
    | IReset :: r => held [] r
    | _ :: r => held acc r
    end.
  Definition enumerate (l : list S) : list (nat * S) := combine (seq 0 (length l)) l.
  Definition canonical (snap : S -> G) (l : list S) : iobs :=
    (map (fun p => (fst p, snap (snd p))) (enumerate l), enumerate l).
  Fixpoint spec_obs (snap : S -> G) (acc : list S) (h : list iop) : list iobs :=
    match h with
    | [] => []
    | IAdd s :: r => spec_obs snap (acc ++ [s]) r
    | IReset :: r => spec_obs snap [] r
    | IBuild :: r => spec_obs snap acc r
    | IQuery :: r => canonical snap acc :: spec_obs snap acc r
    end.
End Index.
Arguments index : clear implicits.
Arguments iop : clear implicits.
Arguments iobs : clear implicits.

(** * (b) The loop machine: s2/loop.go Invert, ContainsPoint; initOriginAndBound. *)
Section Loop.
  (** [V] vertices; [B] bounding rectangles. [origin_of], [bound_of] stand for what
      initOriginAndBound / initBound compute from the vertices (abstract here: C04/C10). *)
  Context {V B : Type}.
  Variable emptyPt fullPt : V.
  Variable origin_of : list V -> bool.
  Variable bound_of : list V -> bool -> B.   (* initBound reads vertices and originInside *)
  Variable fullB : B.
  Variable avoids_poles : B -> bool.          (* bound.Lat.Lo > -pi/2 && bound.Lat.Hi < pi/2 *)

  Definition lgeom : Type := (list V * bool)%type.   (* what the index clipped: vertices, originInside *)

  Record loop := mkLoop {
    lverts  : list V;
    lorigin : bool;                 (* originInside *)
    lbound  : B;
    lindex  : index unit lgeom
  }.

  Definition lsnap (vs : list V) (oi : bool) : unit -> lgeom := fun _ => (vs, oi).

  (** LoopFromPoints: initOriginAndBound; index = NewShapeIndex(); index.Add(l). *)
  Definition loop_init (vs : list V) : loop :=
    let oi := origin_of vs in
    mkLoop vs oi (bound_of vs oi) (index_add tt index_new).

  Definition is_empty_or_full (vs : list V) : bool := length vs =? 1.

  (** Loop.Invert, statement by statement. [rst] is the index's Reset (repaired or old);
      [skip_reset] models the mutation "Invert forgets index.Reset()". *)
  Definition invert_verts (vs : list V) (oi : bool) : list V :=
    if is_empty_or_full vs then (if oi then [emptyPt] else [fullPt]) else rev vs.

  Definition loop_invert (rst : index unit lgeom -> index unit lgeom) (l : loop) : loop :=
    let ix1 := rst (lindex l) in
    let vs := invert_verts (lverts l) (lorigin l) in
    let oi := negb (lorigin l) in
    let b := if avoids_poles (lbound l) then fullB else bound_of vs oi in
    mkLoop vs oi b (index_add tt ix1).

  Inductive lop := LInvert | LBuild | LQuery | LBrute.

  (** LQuery: a query that goes through the index (ContainsPoint on a loop of more than 32
      vertices, ContainsCell, ...): it sees vertices, originInside and the cell map.
      LBrute: brute-force containment (small loops, or index not needed): vertices and
      originInside only; the index is not touched. *)
  Definition lobs : Type := (list V * bool * list (nat * lgeom))%type.

  Definition lstep (app : (unit -> lgeom) -> index unit lgeom -> outcome (index unit lgeom))
             (rst : index unit lgeom -> index unit lgeom)
             (l : loop) (o : lop) : outcome (loop * list lobs) :=
    let snap := lsnap (lverts l) (lorigin l) in
    match o with
    | LInvert => Ok (loop_invert rst l, [])
    | LBuild => obind (maybe_apply (app snap) (lindex l)) (fun ix =>
                  Ok (mkLoop (lverts l) (lorigin l) (lbound l) ix, []))
    | LQuery => obind (maybe_apply (app snap) (lindex l)) (fun ix =>
                  Ok (mkLoop (lverts l) (lorigin l) (lbound l) ix, [(lverts l, lorigin l, cells ix)]))
    | LBrute => Ok (l, [(lverts l, lorigin l, [(0, (lverts l, lorigin l))])])
    end.

  Definition lrun vs := run (lstep apply index_reset) (loop_init vs).
  Definition lrun_reset_old vs := run (lstep apply index_reset_old) (loop_init vs).
  (** mutation: Invert without index.Reset() *)
  Definition lrun_no_reset vs := run (lstep apply (fun ix => ix)) (loop_init vs).

  Definition count_inverts (h : list lop) : nat :=
    length (filter (fun o => match o with LInvert => true | _ => false end) h).

  Fixpoint iter_invert (n : nat) (vs : list V) (oi : bool) : list V * bool :=
    match n with
    | 0 => (vs, oi)
    | Datatypes.S k => iter_invert k (invert_verts vs oi) (negb oi)
    end.
End Loop.

(** * (c) The EdgeQuery machine: s2/edge_query.go, s2/query_options.go. *)
Section EdgeQuery.
  (** [D] distances (ChordAngle); [Ix] index contents; [T] targets; [R] results;
      [C] the cached top-level covering of the index. *)
  Context {D Ix T R C : Type}.
  Variable straight : D.                  (* s1.StraightChordAngle *)
  Variable expand : D -> D.               (* limit.Expanded(minUpdateDistanceMaxError(limit)) *)
  Variable counts : Ix -> list nat.       (* NumEdges of shape 0, 1, ... *)
  Variable threshold : T -> nat.          (* target.maxBruteForceIndexSize() *)
  Variable cover_of : Ix -> C.            (* initCovering *)

  Record opts := mkOpts {
    maxResults : nat; limit : D; maxError : D; inclInt : bool; brute : bool }.

  Inductive path := Brute | Optimized (c : C).
  (** The search itself (C08) is abstract: a function of index, target, the options struct it
      is handed, and the path taken (brute force, or best-first from the covering). *)
  Variable search : Ix -> T -> opts -> path -> list R.

  Inductive setter := SetMaxResults (n : nat) | SetLimit (d : D) | SetMaxError (d : D)
                    | SetInclInt (b : bool) | SetBrute (b : bool).
  Definition set_opt (s : setter) (o : opts) : opts :=
    match s with
    | SetMaxResults n => mkOpts n (limit o) (maxError o) (inclInt o) (brute o)
    | SetLimit d => mkOpts (maxResults o) d (maxError o) (inclInt o) (brute o)
    | SetMaxError d => mkOpts (maxResults o) (limit o) d (inclInt o) (brute o)
    | SetInclInt b => mkOpts (maxResults o) (limit o) (maxError o) b (brute o)
    | SetBrute b => mkOpts (maxResults o) (limit o) (maxError o) (inclInt o) b
    end.

  (** Option structs live on a heap; the user's *EdgeQueryOptions.common and the query's
      e.opts are POINTERS into it (this aliasing is the whole point of defect F3). *)
  Definition heap := list opts.
  Definition hget (dflt : opts) (p : nat) (h : heap) : opts := nth p h dflt.
  Fixpoint hset (p : nat) (o : opts) (h : heap) : heap :=
    match h, p with
    | [], _ => []
    | _ :: r, 0 => o :: r
    | x :: r, Datatypes.S q => x :: hset q o r
    end.
  Definition halloc (o : opts) (h : heap) : nat * heap := (length h, h ++ [o]).

  Record equery := mkEQ {
    eheap    : heap;
    uptr     : nat;            (* the options object the caller configured and still holds *)
    eopts    : nat;            (* e.opts *)
    eindex   : Ix;
    numEdges : nat;            (* e.indexNumEdges *)
    numLimit : nat;            (* e.indexNumEdgesLimit *)
    covering : option C;       (* e.indexCovering/indexCells/iter; None = empty *)
    results  : list R          (* e.results (scratch; overwritten by every search) *)
  }.

  Definition eq_new (ix : Ix) (u : opts) : equery := mkEQ [u] 0 0 ix 0 0 None [].

  (** ShapeIndex.NumEdgesUpTo: add up shape sizes, stop as soon as the limit is reached. *)
  Fixpoint num_edges_upto (cs : list nat) (lim acc : nat) : nat :=
    match cs with
    | [] => acc
    | c :: r => let acc' := acc + c in if lim <=? acc' then acc' else num_edges_upto r lim acc'
    end.

  (** findEdgesInternal(target, opts): e.opts = opts; scratch reset; cached edge count;
      brute force or optimized (which fills the covering cache on first use). *)
  Definition find_edges_internal (dflt : opts) (q : equery) (t : T) (p : nat) : equery :=
    let o := hget dflt p (eheap q) in
    let minOpt := Datatypes.S (threshold t) in
    let '(ne, nl) :=
      if (numLimit q <? minOpt) && (numLimit q <=? numEdges q)
      then (num_edges_upto (counts (eindex q)) minOpt 0, minOpt) else (numEdges q, numLimit q) in
    if brute o || (ne <? minOpt) then
      mkEQ (eheap q) (uptr q) p (eindex q) ne nl (covering q) (search (eindex q) t o Brute)
    else
      let c := match covering q with Some c => c | None => cover_of (eindex q) end in
      mkEQ (eheap q) (uptr q) p (eindex q) ne nl (Some c) (search (eindex q) t o (Optimized c)).

  (** findEdges: ... ; if len(e.results) > e.opts.maxResults { truncate } *)
  Definition find_edges (dflt : opts) (q : equery) (t : T) (p : nat) : equery :=
    let q1 := find_edges_internal dflt q t p in
    let o := hget dflt (eopts q1) (eheap q1) in
    mkEQ (eheap q1) (uptr q1) (eopts q1) (eindex q1) (numEdges q1) (numLimit q1) (covering q1)
         (firstn (maxResults o) (results q1)).

  Definition with_max1 (o : opts) := mkOpts 1 (limit o) (maxError o) (inclInt o) (brute o).
  Definition threshold_opts (o : opts) (l : D) := mkOpts 1 l straight (inclInt o) (brute o).

  (** findEdge as repaired (784d87c): saved := e.opts; o := *opts; o.MaxResults(1);
      e.findEdges(target, &o); defer e.opts = saved. *)
  Definition find_edge (dflt : opts) (q : equery) (t : T) (p : nat) : equery * option R :=
    let saved := eopts q in
    let '(p', h') := halloc (with_max1 (hget dflt p (eheap q))) (eheap q) in
    let q1 := find_edges dflt (mkEQ h' (uptr q) (eopts q) (eindex q) (numEdges q) (numLimit q)
                                    (covering q) (results q)) t p' in
    (mkEQ (eheap q1) (uptr q1) saved (eindex q1) (numEdges q1) (numLimit q1) (covering q1) (results q1),
     hd_error (results q1)).

  (** findEdge as it was: opts.MaxResults(1) on the object it was handed; e.opts stays there. *)
  Definition find_edge_old (dflt : opts) (q : equery) (t : T) (p : nat) : equery * option R :=
    let h' := hset p (with_max1 (hget dflt p (eheap q))) (eheap q) in
    let q1 := find_edges dflt (mkEQ h' (uptr q) (eopts q) (eindex q) (numEdges q) (numLimit q)
                                    (covering q) (results q)) t p in
    (q1, hd_error (results q1)).

  (** IsDistanceLess as repaired: o := *e.opts; o.MaxResults(1).DistanceLimit(l).MaxError(Straight). *)
  Definition is_less (dflt : opts) (q : equery) (t : T) (l : D) : equery * bool :=
    let '(p', h') := halloc (threshold_opts (hget dflt (eopts q) (eheap q)) l) (eheap q) in
    let '(q1, r) := find_edge dflt (mkEQ h' (uptr q) (eopts q) (eindex q) (numEdges q) (numLimit q)
                                         (covering q) (results q)) t p' in
    (q1, match r with Some _ => true | None => false end).

  (** IsDistanceLess as it was: opts := e.opts (the pointer), overridden in place. *)
  Definition is_less_old (dflt : opts) (q : equery) (t : T) (l : D) : equery * bool :=
    let p := eopts q in
    let h' := hset p (threshold_opts (hget dflt p (eheap q)) l) (eheap q) in
    let '(q1, r) := find_edge_old dflt (mkEQ h' (uptr q) (eopts q) (eindex q) (numEdges q) (numLimit q)
                                             (covering q) (results q)) t p in
    (q1, match r with Some _ => true | None => false end).

  Inductive qop :=
  | QSet (s : setter)            (* the caller changes an option on the object it holds *)
  | QFindEdges (t : T)
  | QDistance (t : T)
  | QIsLess (t : T) (l : D)      (* IsDistanceLess *)
  | QIsGreater (t : T) (l : D)   (* IsDistanceGreater: same code *)
  | QIsConsLE (t : T) (l : D)    (* IsConservativeDistanceLessOrEqual *)
  | QReset                       (* EdgeQuery.Reset *)
  | QReinit (ix : Ix).           (* the index changed AND the caller called Reset (the contract) *)

  Inductive qout := OutEdges (rs : list R) | OutDist (r : option R) | OutBool (b : bool).

  Definition eq_reset (q : equery) : equery :=
    mkEQ (eheap q) (uptr q) (eopts q) (eindex q) 0 0 None (results q).

  Section Step.
    Variable fe : opts -> equery -> T -> nat -> equery * option R.
    Variable il : opts -> equery -> T -> D -> equery * bool.
    Variable dflt : opts.
    Definition qstep (q : equery) (o : qop) : outcome (equery * list qout) :=
      match o with
      | QSet s => Ok (mkEQ (hset (uptr q) (set_opt s (hget dflt (uptr q) (eheap q))) (eheap q)) (uptr q)
                           (eopts q) (eindex q) (numEdges q) (numLimit q) (covering q) (results q), [])
      | QFindEdges t => let q1 := find_edges dflt q t (eopts q) in Ok (q1, [OutEdges (results q1)])
      | QDistance t => let '(q1, r) := fe dflt q t (eopts q) in Ok (q1, [OutDist r])
      | QIsLess t l | QIsGreater t l => let '(q1, b) := il dflt q t l in Ok (q1, [OutBool b])
      | QIsConsLE t l => let '(q1, b) := il dflt q t (expand l) in Ok (q1, [OutBool b])
      | QReset => Ok (eq_reset q, [])
      | QReinit ix => Ok (mkEQ (eheap q) (uptr q) (eopts q) ix 0 0 None (results q), [])
      end.
  End Step.

  Definition qstep_new := qstep find_edge is_less.
  Definition qstep_old := qstep find_edge_old is_less_old.

  (** Specification side: the options the caller last set and the index currently queried,
      as pure functions of the history. *)
  Fixpoint user_opts (u : opts) (h : list qop) : opts :=
    match h with
    | [] => u
    | QSet s :: r => user_opts (set_opt s u) r
    | _ :: r => user_opts u r
    end.
  Fixpoint cur_index (ix : Ix) (h : list qop) : Ix :=
    match h with
    | [] => ix
    | QReinit ix' :: r => cur_index ix' r
    | _ :: r => cur_index ix r
    end.

  (** what a FRESH query object over [ix] configured with [u] answers to one call *)
  Definition fresh_path (ix : Ix) (t : T) (o : opts) : path :=
    if brute o || (fold_right Nat.add 0 (counts ix) <? Datatypes.S (threshold t))
    then Brute else Optimized (cover_of ix).
  Definition fresh_answer (ix : Ix) (u : opts) (o : qop) : list qout :=
    match o with
    | QFindEdges t => [OutEdges (firstn (maxResults u) (search ix t u (fresh_path ix t u)))]
    | QDistance t => let o1 := with_max1 u in
        [OutDist (hd_error (firstn 1 (search ix t o1 (fresh_path ix t o1))))]
    | QIsLess t l | QIsGreater t l => let o1 := with_max1 (threshold_opts u l) in
        [OutBool (match hd_error (firstn 1 (search ix t o1 (fresh_path ix t o1))) with Some _ => true | None => false end)]
    | QIsConsLE t l => let o1 := with_max1 (threshold_opts u (expand l)) in
        [OutBool (match hd_error (firstn 1 (search ix t o1 (fresh_path ix t o1))) with Some _ => true | None => false end)]
    | QSet _ | QReset | QReinit _ => []
    end.

  (** ** Two query objects built from ONE options value (NewClosestEdgeQuery keeps the caller's
      *queryOptions pointer): they share that heap cell. IsDistanceLess split at the point where
      another goroutine's call on ITS OWN query object may run: [begin] prepares the per-call
      options, [end] searches (and cleans up). *)
  Definition with_heap (q : equery) (h : heap) : equery :=
    mkEQ h (uptr q) (eopts q) (eindex q) (numEdges q) (numLimit q) (covering q) (results q).

  (** as repaired: the override lives in a private copy *)
  Definition is_less_begin (dflt : opts) (q : equery) (l : D) : equery * nat :=
    let '(p', h') := halloc (threshold_opts (hget dflt (eopts q) (eheap q)) l) (eheap q) in (with_heap q h', p').
  Definition is_less_end (dflt : opts) (q : equery) (t : T) (p' : nat) : equery * bool :=
    let '(q1, r) := find_edge dflt q t p' in (q1, match r with Some _ => true | None => false end).

  (** seeded variant (NOT the code in /repo): saved := *e.opts; override IN PLACE; restore by defer *)
  Definition is_less_begin_inplace (dflt : opts) (q : equery) (l : D) : equery * opts :=
    let saved := hget dflt (eopts q) (eheap q) in
    (with_heap q (hset (eopts q) (threshold_opts saved l) (eheap q)), saved).
  Definition is_less_end_inplace (dflt : opts) (q : equery) (t : T) (saved : opts) : equery * bool :=
    let '(q1, r) := find_edge dflt q t (eopts q) in
    (with_heap q1 (hset (eopts q) saved (eheap q1)), match r with Some _ => true | None => false end).

  (** goroutine A is inside IsDistanceLess(tA, l) on qa while goroutine B runs one whole call
      [ob] on qb; both objects live on the same heap. Returns B's answer and A's answer. *)
  Definition interleave_new (dflt : opts) (qa qb : equery) (tA : T) (l : D) (ob : qop)
    : outcome (list qout * bool) :=
    let '(qa1, p') := is_less_begin dflt qa l in
    obind (qstep_new dflt (with_heap qb (eheap qa1)) ob) (fun '(qb1, outB) =>
      let '(_, rA) := is_less_end dflt (with_heap qa1 (eheap qb1)) tA p' in Ok (outB, rA)).
  Definition interleave_inplace (dflt : opts) (qa qb : equery) (tA : T) (l : D) (ob : qop)
    : outcome (list qout * bool) :=
    let '(qa1, saved) := is_less_begin_inplace dflt qa l in
    obind (qstep_new dflt (with_heap qb (eheap qa1)) ob) (fun '(qb1, outB) =>
      let '(_, rA) := is_less_end_inplace dflt (with_heap qa1 (eheap qb1)) tA saved in Ok (outB, rA)).

  Definition is_query_op (o : qop) : bool :=
    match o with QSet _ | QReinit _ => false | _ => true end.
End EdgeQuery.

(** * (c') State kept inside a distance TARGET that is an index (MinDistanceToShapeIndexTarget):
      its inner query's maxError. As repaired (a6eab98) findEdgesInternal calls
      target.setMaxError(opts.maxError) on every search; before, only when maxError != 0
      ([opts.maxError != zero && e.target.setMaxError(...)]), so the error of a threshold
      call (Straight) stuck to a reused target. *)
Section TargetState.
  Context {D : Type}.
  Variable is_zero : D -> bool.
  (** one search with the given maxError on a target whose inner query currently has [tme];
      returns the target's new state = the maxError its inner searches really use *)
  Definition target_call (tme : D) (max_error : D) : D := max_error.
  Definition target_call_old (tme : D) (max_error : D) : D :=
    if is_zero max_error then tme else max_error.
  Fixpoint target_run (call : D -> D -> D) (tme : D) (calls : list D) : D :=
    match calls with [] => tme | e :: r => target_run call (call tme e) r end.
End TargetState.

(** * (d) Scratch of CrossingEdgeQuery (cells, a, b, iter) and ContainsPointQuery (iter). *)
Section Scratch.
  (** [E] query edges; [Sg] face segments of an edge; [Cl] index cells; [Pos] iterator positions. *)
  Context {E Sg Cl Pos P : Type}.
  Variable segments : E -> list Sg.                 (* FaceSegments(a, b) *)
  Variable locate : Sg -> Pos.                      (* c.iter.LocateCellID(edgeRoot) / seek *)
  Variable visit : Sg -> Pos -> list Cl.            (* cells reached for one segment *)

  Record cquery := mkCQ { ccells : list Cl; cseg : option Sg; cpos : option Pos }.
  Definition cq_new : cquery := mkCQ [] None None.

  (** one segment: c.a, c.b = segment; position the iterator; append the cells found *)
  Definition cq_segment (c : cquery) (s : Sg) : cquery :=
    let pos := locate s in mkCQ (ccells c ++ visit s pos) (Some s) (Some pos).

  (** getCellsForEdge (used by Crossings / CrossingsEdgeMap): c.cells = nil first *)
  Definition cq_cells_for_edge (c : cquery) (e : E) : cquery :=
    fold_left cq_segment (segments e) (mkCQ [] (cseg c) (cpos c)).

  (** getCells (used only by loopCrosser.cellCrossesAnySubcell): NO reset of c.cells in the Go
      code (the C++ original clears) — the returned slice accumulates across calls *)
  Definition cq_get_cells (c : cquery) (s : Sg) : cquery := cq_segment c s.

  (** ContainsPointQuery.Contains: LocatePoint positions the iterator, then reads the cell *)
  Variable locate_point : P -> Pos.
  Variable contains_at : P -> Pos -> bool.
  Record pquery := mkPQ { ppos : option Pos }.
  Definition pq_contains (q : pquery) (p : P) : pquery * bool :=
    let pos := locate_point p in (mkPQ (Some pos), contains_at p pos).
End Scratch.

(** * (b') The polygon machine: s2/polygon.go Invert, initLoopProperties, initEdgesAndIndex,
      Edge/Chain/ChainPosition. A polygon caches a table of per-loop edge offsets
      (cumulativeEdges) when it has more than 12 loops; Invert reorders the loops (the inverted
      largest shell moves to the front) and re-runs initEdgesAndIndex, which rebuilds the table
      and allocates a NEW ShapeIndex holding the polygon. *)
Section Polygon.
  Context {V : Type}.
  (** how Invert rearranges (and inverts one of) the loops: abstract, any function *)
  Variable reorder : list (list V) -> list (list V).

  Record polygon := mkPoly {
    ploops : list (list V);
    ptab   : list nat;                            (* cumulativeEdges; [] = nil (<= 12 loops) *)
    pindex : index unit (list (list V))           (* its own index; snapshot = the loops as clipped *)
  }.

  (** offsets acc, acc+n0, acc+n0+n1, ... : one entry per loop *)
  Fixpoint psums (acc : nat) (lens : list nat) : list nat :=
    match lens with [] => [] | n :: r => acc :: psums (acc + n) r end.

  Definition max_linear_search_loops := 12.

  (** initEdgesAndIndex. [keep_stale] = the variant that keeps a table that already has one
      entry per loop (NOT the code in /repo; a seeded defect the theorem must exclude). *)
  Definition poly_init_edges (keep_stale : bool) (old_tab : list nat) (loops : list (list V)) : polygon :=
    let fresh_tab := if max_linear_search_loops <? length loops then psums 0 (map (@length V) loops) else [] in
    let tab := if keep_stale && (length old_tab =? length loops) then old_tab else fresh_tab in
    mkPoly loops tab (index_add tt index_new).

  Definition poly_new (loops : list (list V)) : polygon := poly_init_edges false [] loops.
  Definition poly_invert (keep_stale : bool) (p : polygon) : polygon :=
    poly_init_edges keep_stale (ptab p) (reorder (ploops p)).

  (** Polygon.Edge(e) / ChainPosition(e): which loop, which edge of it.
      With the table: for i := range tab { if i+1 >= len(tab) || e < tab[i+1] { e -= tab[i]; break } } *)
  Fixpoint locate_tab (tab : list nat) (i e : nat) : nat * nat :=
    match tab with
    | [] => (i, e)
    | c :: r => match r with
                | [] => (i, e - c)
                | c' :: _ => if e <? c' then (i, e - c) else locate_tab r (Datatypes.S i) e
                end
    end.
  (** without: for i = 0; e >= len(loop(i).vertices); i++ { e -= len(loop(i).vertices) } *)
  Fixpoint locate_lin (lens : list nat) (i e : nat) : nat * nat :=
    match lens with
    | [] => (i, e)
    | n :: r => if n <=? e then locate_lin r (Datatypes.S i) (e - n) else (i, e)
    end.
  Definition pedge (p : polygon) (e : nat) : nat * nat :=
    match ptab p with
    | [] => locate_lin (map (@length V) (ploops p)) 0 e
    | tab => locate_tab tab 0 e
    end.

  Fixpoint poly_iter (keep_stale : bool) (n : nat) (p : polygon) : polygon :=
    match n with 0 => p | Datatypes.S k => poly_iter keep_stale k (poly_invert keep_stale p) end.
End Polygon.

(** * (c'') The covering cache of an EdgeQuery in detail: TWO parallel slices, indexCovering (cell
      ids) and indexCells (the matching *ShapeIndexCell, or nil). initCovering runs when
      len(indexCovering) == 0: it re-creates indexCovering with make and then addInitialRange
      APPENDS one entry to each slice per top-level cell; the search pairs them by position
      (processOrEnqueue(e.indexCovering[i], e.indexCells[i])). Reset must therefore clear both. *)
Section CoveringCache.
  Context {Ix Cid Cptr : Type}.
  Variable ranges : Ix -> list (Cid * Cptr).   (* the top-level cells of an index, with their cell pointers *)

  Record ccache := mkCC { ccov : list Cid; cptrs : list Cptr }.
  Definition cc_new : ccache := mkCC [] [].

  Definition cc_init (ix : Ix) (c : ccache) : ccache :=
    match ccov c with
    | [] => mkCC (map fst (ranges ix)) (cptrs c ++ map snd (ranges ix))
    | _ => c
    end.
  (** what the optimized search starts from *)
  Definition cc_paired (c : ccache) : list (Cid * Cptr) := combine (ccov c) (cptrs c).

  (** EdgeQuery.Reset as it is / with the line [e.indexCells = nil] missing *)
  Definition cc_reset (c : ccache) : ccache := mkCC [] [].
  Definition cc_reset_keeps_cells (c : ccache) : ccache := mkCC [] (cptrs c).

  Inductive cop := CQuery | CReset | CReinit (ix : Ix).   (* CReinit: the index changed, then Reset *)

  Definition cstep (rst : ccache -> ccache) (s : Ix * ccache) (o : cop) : outcome ((Ix * ccache) * list (list (Cid * Cptr))) :=
    let '(ix, c) := s in
    match o with
    | CQuery => let c' := cc_init ix c in Ok ((ix, c'), [cc_paired c'])
    | CReset => Ok ((ix, rst c), [])
    | CReinit ix' => Ok ((ix', rst c), [])
    end.

  Fixpoint cspec (ix : Ix) (h : list cop) : list (list (Cid * Cptr)) :=
    match h with
    | [] => []
    | CQuery :: r => ranges ix :: cspec ix r
    | CReset :: r => cspec ix r
    | CReinit ix' :: r => cspec ix' r
    end.
End CoveringCache.
