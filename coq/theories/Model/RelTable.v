(** C07 — table-driven instance of Model/Relations.v and Model/Nest.v for the correspondence
    runs: points are ids (Z) into the vertex pool of one observed case, and every predicate
    below this layer (OrderedCCW, CrossingSign, ContainsPoint, the rectangle tests) is the
    table of answers the real predicates gave on that case. Definitions only. *)
From Coq Require Import List Bool ZArith Arith.
From Geo Require Import Model.Wedge Model.Relations Model.Nest.
Import ListNotations.
Local Open Scope Z_scope.

Definition key := list Z.
Fixpoint key_eqb (a b : key) : bool :=
  match a, b with
  | [], [] => true
  | x :: a', y :: b' => Z.eqb x y && key_eqb a' b'
  | _, _ => false
  end.
Fixpoint lookup {V} (k : key) (t : list (key * V)) (d : V) : V :=
  match t with
  | [] => d
  | (k', v) :: t' => if key_eqb k k' then v else lookup k t' d
  end.

Record tables := mk_tables {
  t_cross : list (key * crossing);   (* [a;b;c;d] -> CrossingSign(a,b,c,d); absent = DoNotCross *)
  t_occw : list (key * bool);        (* [a;b;c;o] -> OrderedCCW(a,b,c,o) *)
  t_contains : list (key * bool);    (* p :: loop key -> L.ContainsPoint(p) *)
  t_sub : list (key * bool);         (* pair key -> A.subregionBound.Contains(B.bound) *)
  t_bi : list (key * bool);          (* pair key -> A.bound.Intersects(B.bound) *)
  t_uf : list (key * bool);          (* pair key -> A.bound.Union(B.bound).IsFull() *)
  t_psub : list (key * bool);        (* polygon pair key -> P.subregionBound.Contains(O.bound) *)
  t_plng : list (key * bool);        (* polygon pair key -> P.bound.Lng.Union(O.bound.Lng).IsFull() *)
  t_pbi : list (key * bool)          (* polygon pair key -> P.bound.Intersects(O.bound) *)
}.

Definition tloop := loop Z.
Definition empty_id : Z := -1.
Definition full_id : Z := -2.
Definition kind_code (k : lkind) : Z := match k with KEmpty => 0 | KFull => 1 | KNormal => 2 end.
Definition loop_key (A : tloop) : key := kind_code (l_kind Z A) :: l_verts Z A.
Definition pair_key (A B : tloop) : key := loop_key A ++ [-9] ++ loop_key B.
Definition poly_key (P : polygon Z) : key :=
  flat_map (fun l => -8 :: Z.of_nat (snd l) :: loop_key (fst l)) P.
Definition ppair_key (P O : polygon Z) : key := poly_key P ++ [-7] ++ poly_key O.

Section Inst.
  Variable t : tables.
  Definition T_occw (a b c o : Z) : bool := lookup [a; b; c; o] (t_occw t) false.
  Definition T_cross (a b c d : Z) : crossing := lookup [a; b; c; d] (t_cross t) DoNotCross.
  Definition T_cp (A : tloop) (p : Z) : bool := lookup (p :: loop_key A) (t_contains t) false.
  Definition T_sub (A B : tloop) : bool := lookup (pair_key A B) (t_sub t) false.
  Definition T_bi (A B : tloop) : bool := lookup (pair_key A B) (t_bi t) false.
  Definition T_uf (A B : tloop) : bool := lookup (pair_key A B) (t_uf t) false.
  Definition T_psub (P O : polygon Z) : bool := lookup (ppair_key P O) (t_psub t) false.
  Definition T_plng (P O : polygon Z) : bool := lookup (ppair_key P O) (t_plng t) false.
  Definition T_pbi (P O : polygon Z) : bool := lookup (ppair_key P O) (t_pbi t) false.

  Definition T_invert := invert Z empty_id full_id.
  Definition T_contains := loop_contains Z Z.eqb T_occw T_cross T_cp T_sub T_uf.
  Definition T_intersects := loop_intersects Z Z.eqb T_occw T_cross T_cp T_sub T_bi T_uf.
  Definition T_compare := compare_boundary Z Z.eqb T_occw T_cross T_cp T_bi.
  Definition T_cnb := contains_nc_boundary Z Z.eqb T_occw T_cp T_bi.
  Definition T_nested := contains_nested Z Z.eqb T_occw T_cp T_sub.
  Definition T_pcontains :=
    polygon_contains Z Z.eqb T_occw T_cross T_cp T_sub T_bi T_uf T_psub T_plng.
  Definition T_pintersects :=
    polygon_intersects Z Z.eqb T_occw T_cross T_cp T_sub T_bi T_uf T_pbi.

  Definition b2z (b : bool) : Z := if b then 1 else 0.

  (** every observable of the ordered pair (A, B) *)
  Definition rel_answers (A B : tloop) : list Z :=
    [ b2z (T_contains A B); b2z (T_intersects A B);
      T_compare A B false; T_compare A B true;
      b2z (T_cnb A B false); b2z (T_cnb A B true);
      b2z (T_nested A B) ].

  (** A, B and their inversions, both argument orders: 8 ordered pairs *)
  Definition pair_answers (A B : tloop) : list Z :=
    let va := [A; T_invert A] in
    let vb := [B; T_invert B] in
    flat_map (fun X => flat_map (fun Y => rel_answers X Y ++ rel_answers Y X) vb) va.

  Definition poly_answers (P O : polygon Z) : list Z :=
    [ b2z (T_pcontains P O); b2z (T_pcontains O P);
      b2z (T_pintersects P O); b2z (T_pintersects O P) ].
End Inst.

(** an expected value 7 marks a call the harness did not make (precondition of the Go function) *)
Fixpoint zlist_eqb (a b : list Z) : bool :=
  match a, b with
  | [], [] => true
  | x :: a', y :: b' => (Z.eqb y 7 || Z.eqb x y) && zlist_eqb a' b'
  | _, _ => false
  end.

Definition normal (vs : list Z) : tloop := mk_loop Z KNormal vs false.
Definition t_empty : tloop := mk_loop Z KEmpty [empty_id] false.
Definition t_full : tloop := mk_loop Z KFull [full_id] true.

Definition pair_check (t : tables) (A B : tloop) (expected : list Z) : bool :=
  zlist_eqb (pair_answers t A B) expected.
Definition poly_check (t : tables) (P O : polygon Z) (expected : list Z) : bool :=
  zlist_eqb (poly_answers t P O) expected.

(** nesting: [matrix] row i column j = loops[i].ContainsNested(loops[j]) *)
Definition mat_nested (m : list (list bool)) (i j : nat) : bool := nth j (nth i m []) false.
Fixpoint natpairs_eqb (a b : list (nat * nat)) : bool :=
  match a, b with
  | [], [] => true
  | (x, y) :: a', (x', y') :: b' => Nat.eqb x x' && Nat.eqb y y' && natpairs_eqb a' b'
  | _, _ => false
  end.
(** [stored] = the depth fields of the input loops before PolygonFromLoops (stale values from an
    earlier polygon or from Decode) *)
Definition nest_check (m : list (list bool)) (n : nat) (stored : list nat) (expected : list (nat * nat)) : bool :=
  let ids := seq 0 n in
  let st := fun l => nth l stored 0%nat in
  natpairs_eqb (init_nested (mat_nested m) st ids) expected
  && natpairs_eqb (init_nested_spec (mat_nested m) st ids) expected.
