(** C20 — hand-written executable models (definitions only) of the parts of
    s2/projections.go, s2/edge_tessellator.go, s2/polyline.go (findEndVertex,
    SubsampleVertices) and s2/builder_snapper.go (CellIDSnapper.SnapPoint) that the
    translator cannot take (pointer receivers, closures, recursion, loops with break).
    Every float leaf is the translated one from Gen/Approx.v and its dependencies. *)
From Coq Require Import ZArith List Bool Floats.
From Geo Require Import Base.GoPrim Gen.EdgeDist Gen.Approx.  (* s2_Interpolate lives in Gen.EdgeDist since the C17 merge *)
From Geo Require Import Gen.Area.  (* s2_maxAngle *)
From Geo Require Import Gen.CellIDFull.  (* s2_xyzToFaceUV *)
Import ListNotations.
Local Open Scope bool_scope.

Definition f_pi : float := (0x1.921fb54442d18p+1)%float.        (* math.Pi *)
Definition f_pi_2 : float := (0x1.921fb54442d18p+0)%float.      (* math.Pi/2 *)

(** * Projections (s2/projections.go) *)
Record projection := mk_projection {
  proj_project : s2_Point -> r2_Point;
  proj_unproject : r2_Point -> s2_Point;
  proj_interpolate : float -> r2_Point -> r2_Point -> r2_Point;
  proj_wrap : r2_Point }.

(** one coordinate of wrapDestination *)
Definition wrap_coord (w a x : float) : float :=
  if PrimFloat.ltb 0 w && PrimFloat.ltb (PrimFloat.mul (0x1p-1)%float w) (PrimFloat.abs (PrimFloat.sub x a))
  then PrimFloat.add a (go_remainder (PrimFloat.sub x a) w) else x.
Definition wrapDestination (wrap a b : r2_Point) : r2_Point :=
  mk_r2_Point (wrap_coord (r2_Point_X wrap) (r2_Point_X a) (r2_Point_X b))
              (wrap_coord (r2_Point_Y wrap) (r2_Point_Y a) (r2_Point_Y b)).
(** the unrepaired-sign mutant is not modelled; [wrap_coord] is checked bit for bit against Go *)

Definition linear_interpolate (f : float) (a b : r2_Point) : r2_Point :=
  r2_Point_Add (r2_Point_Mul a (PrimFloat.sub 1 f)) (r2_Point_Mul b f).

Record plate_carree := mk_plate_carree { pc_xWrap : float; pc_toRadians : float; pc_fromRadians : float }.
Definition new_plate_carree (xScale : float) : plate_carree :=
  mk_plate_carree (PrimFloat.mul 2 xScale) (PrimFloat.div f_pi xScale) (PrimFloat.div xScale f_pi).
Definition pc_FromLatLng (p : plate_carree) (ll : s2_LatLng) : r2_Point :=
  mk_r2_Point (PrimFloat.mul (pc_fromRadians p) (s1_Angle_Radians (s2_LatLng_Lng ll)))
              (PrimFloat.mul (pc_fromRadians p) (s1_Angle_Radians (s2_LatLng_Lat ll))).
Definition pc_ToLatLng (p : plate_carree) (pt : r2_Point) : s2_LatLng :=
  mk_s2_LatLng (PrimFloat.mul (pc_toRadians p) (r2_Point_Y pt))
               (PrimFloat.mul (pc_toRadians p) (go_remainder (r2_Point_X pt) (pc_xWrap p))).
Definition pc_Project (p : plate_carree) (pt : s2_Point) : r2_Point := pc_FromLatLng p (s2_LatLngFromPoint pt).
Definition pc_Unproject (p : plate_carree) (pt : r2_Point) : s2_Point := s2_PointFromLatLng (pc_ToLatLng p pt).
Definition pc_projection (p : plate_carree) : projection :=
  mk_projection (pc_Project p) (pc_Unproject p) linear_interpolate (mk_r2_Point (pc_xWrap p) 0).

(** Mercator: math.Log / math.Exp are amd64 assembly and have no model; they are parameters. *)
Definition merc_FromLatLng (flog : float -> float) (p : plate_carree) (ll : s2_LatLng) : r2_Point :=
  let sinPhi := math_Sin (s2_LatLng_Lat ll) in
  let y := PrimFloat.mul (0x1p-1)%float (flog (PrimFloat.div (PrimFloat.add 1 sinPhi) (PrimFloat.sub 1 sinPhi))) in
  mk_r2_Point (PrimFloat.mul (pc_fromRadians p) (s2_LatLng_Lng ll)) (PrimFloat.mul (pc_fromRadians p) y).
Definition merc_ToLatLng (fexp : float -> float) (p : plate_carree) (pt : r2_Point) : s2_LatLng :=
  let x := PrimFloat.mul (pc_toRadians p) (go_remainder (r2_Point_X pt) (pc_xWrap p)) in
  let k := fexp (PrimFloat.mul (PrimFloat.mul 2 (pc_toRadians p)) (r2_Point_Y pt)) in
  let y := if go_isinf k 0 then f_pi_2
           else math_Asin (PrimFloat.div (PrimFloat.sub k 1) (PrimFloat.add k 1)) in
  mk_s2_LatLng y x.
Definition merc_projection (flog fexp : float -> float) (p : plate_carree) : projection :=
  mk_projection (fun pt => merc_FromLatLng flog p (s2_LatLngFromPoint pt))
                (fun pt => s2_PointFromLatLng (merc_ToLatLng fexp p pt))
                linear_interpolate (mk_r2_Point (pc_xWrap p) 0).

(** * Edge tessellator (s2/edge_tessellator.go) *)
Definition tess_t1 : float := (0x1.3fa60faccfd31p-2)%float.     (* tessellationInterpolationFraction *)
Definition tess_t2 : float := (0x1.602cf82998168p-1)%float.     (* 1 - tessellationInterpolationFraction (constant-folded) *)
Definition tess_scale : float := (0x1.ad35a5da3b5cbp-1)%float.  (* tessellationScaleFactor *)
Definition tess_min_tol : float := (0x1.c25c268497682p-44)%float. (* minTessellationTolerance = 1e-13 *)
Definition tess_long_edge : float := (-0x1.6849b86a12b9bp-47)%float. (* -1e-14 *)

Definition estimateMaxError (P : projection) (pa : r2_Point) (a : s2_Point) (pb : r2_Point) (b : s2_Point) : float :=
  if PrimFloat.ltb (r3_Vector_Dot (s2_Point_Vector a) (s2_Point_Vector b)) tess_long_edge then s1_InfChordAngle
  else
    let mid1 := s2_Interpolate tess_t1 a b in
    let mid2 := s2_Interpolate tess_t2 a b in
    let pmid1 := proj_unproject P (proj_interpolate P tess_t1 pa pb) in
    let pmid2 := proj_unproject P (proj_interpolate P tess_t2 pa pb) in
    s2_maxChordAngle (s2_ChordAngleBetweenPoints mid1 pmid1) [s2_ChordAngleBetweenPoints mid2 pmid2].

(** NewEdgeTessellator's scaledTolerance (as repaired by /repo commit ea2b899: the scale factor is applied) *)
Definition scaledTolerance (tolerance : float) : float :=
  s1_ChordAngleFromAngle (PrimFloat.mul tess_scale (s2_maxAngle tolerance [tess_min_tol])).
(** before ea2b899: tessellationScaleFactor was declared but never used *)
Definition scaledTolerance_old (tolerance : float) : float :=
  s1_ChordAngleFromAngle (s2_maxAngle tolerance [tess_min_tol]).

(** a leaf of the recursion: the planar segment pa-pb that was accepted for the geodesic a-b *)
Record seg := mk_seg { seg_pa : r2_Point; seg_a : s2_Point; seg_pb : r2_Point; seg_b : s2_Point }.

(** [None] = OutOfFuel *)
Fixpoint projected_leaves (fuel : nat) (P : projection) (thr : float)
    (pa : r2_Point) (a : s2_Point) (pbIn : r2_Point) (b : s2_Point) : option (list seg) :=
  match fuel with
  | O => None
  | S f =>
    let pb := wrapDestination (proj_wrap P) pa pbIn in
    if PrimFloat.leb (estimateMaxError P pa a pb b) thr then Some [mk_seg pa a pb b]
    else
      let mid := mk_s2_Point (r3_Vector_Normalize (r3_Vector_Add (s2_Point_Vector a) (s2_Point_Vector b))) in
      let pmid := wrapDestination (proj_wrap P) pa (proj_project P mid) in
      match projected_leaves f P thr pa a pmid mid with
      | None => None
      | Some l1 => match projected_leaves f P thr pmid mid pb b with
                   | None => None
                   | Some l2 => Some (l1 ++ l2)
                   end
      end
  end.

Fixpoint unprojected_leaves (fuel : nat) (P : projection) (thr : float)
    (pa : r2_Point) (a : s2_Point) (pbIn : r2_Point) (b : s2_Point) : option (list seg) :=
  match fuel with
  | O => None
  | S f =>
    let pb := wrapDestination (proj_wrap P) pa pbIn in
    if PrimFloat.leb (estimateMaxError P pa a pb b) thr then Some [mk_seg pa a pb b]
    else
      let pmid := proj_interpolate P (0x1p-1)%float pa pb in
      let mid := proj_unproject P pmid in
      match unprojected_leaves f P thr pa a pmid mid with
      | None => None
      | Some l1 => match unprojected_leaves f P thr pmid mid pb b with
                   | None => None
                   | Some l2 => Some (l1 ++ l2)
                   end
      end
  end.

Definition tess_fuel : nat := 64.

Definition AppendProjected (fuel : nat) (P : projection) (thr : float) (a b : s2_Point) (vertices : list r2_Point)
  : option (list r2_Point) :=
  let pa0 := proj_project P a in
  let '(vertices, pa) := match vertices with
                         | [] => ([pa0], pa0)
                         | _ => (vertices, wrapDestination (proj_wrap P) (last vertices pa0) pa0)
                         end in
  let pb := proj_project P b in
  match projected_leaves fuel P thr pa a pb b with
  | None => None
  | Some l => Some (vertices ++ map seg_pb l)
  end.

Definition AppendUnprojected (fuel : nat) (P : projection) (thr : float) (pa pb : r2_Point) (vertices : list s2_Point)
  : option (list s2_Point) :=
  let a := proj_unproject P pa in
  let b := proj_unproject P pb in
  let vertices := match vertices with [] => [a] | _ => vertices end in
  match unprojected_leaves fuel P thr pa a pb b with
  | None => None
  | Some l => Some (vertices ++ map seg_b l)
  end.

(** * Polyline simplification (s2/polyline.go) *)
Definition origin_default : s2_Point := mk_s2_Point (mk_r3_Vector 0 0 0).
Definition nthp (p : list s2_Point) (i : Z) : s2_Point := nthZ p i origin_default.

(** one iteration of findEndVertex's loop: [None] = break *)
Definition fev_step (tol : float) (origin col0 col1 : s2_Point) (st : s1_Interval * float) (cand : s2_Point)
  : option (s1_Interval * float) :=
  let '(w, lastD) := st in
  let distance := s2_Point_Distance origin cand in
  if PrimFloat.ltb f_pi_2 distance && PrimFloat.ltb 0 lastD then None
  else if PrimFloat.ltb distance lastD && PrimFloat.ltb tol lastD then None
  else if PrimFloat.leb distance tol then Some (w, distance)
  else
    let dx := r3_Vector_Dot (s2_Point_Vector col0) (s2_Point_Vector cand) in
    let dy := r3_Vector_Dot (s2_Point_Vector col1) (s2_Point_Vector cand) in
    let center := math_Atan2 dy dx in
    if negb (s1_Interval_Contains w center) then None
    else
      let halfAngle := math_Asin (PrimFloat.div (math_Sin (s1_Angle_Radians tol)) (math_Sin (s1_Angle_Radians distance))) in
      let target := s1_Interval_Expanded (s1_IntervalFromPointPair center center) halfAngle in
      Some (s1_Interval_Intersection w target, distance).

(** number of candidates accepted before the first break *)
Fixpoint fev_count (step : s1_Interval * float -> s2_Point -> option (s1_Interval * float))
    (st : s1_Interval * float) (cands : list s2_Point) : Z :=
  match cands with
  | [] => 0
  | c :: r => match step st c with
              | None => 0
              | Some st' => 1 + fev_count step st' r
              end
  end%Z.

Definition frame_col1 (origin : s2_Point) : s2_Point := s2_Ortho origin.
Definition frame_col0 (origin : s2_Point) : s2_Point :=
  mk_s2_Point (r3_Vector_Cross (s2_Point_Vector (frame_col1 origin)) (s2_Point_Vector origin)).

Definition findEndVertex (p : list s2_Point) (tol : float) (index : Z) : Z :=
  let origin := nthp p index in
  (index + fev_count (fev_step tol origin (frame_col0 origin) (frame_col1 origin))
                     (s1_FullInterval, 0%float) (skipn (Z.to_nat (index + 1)) p))%Z.

(** SubsampleVertices' loop for an arbitrary end-vertex function; [None] = the loop did not
    finish within [fuel] iterations (it cannot, if [fe] makes progress: see Proofs). *)
Fixpoint subsample_loop (fe : Z -> Z) (p : list s2_Point) (n : Z) (fuel : nat) (index : Z) : option (list Z) :=
  if (index + 1 <? n)%Z then
    match fuel with
    | O => None
    | S f =>
      let next := fe index in
      match subsample_loop fe p n f next with
      | None => None
      | Some r => Some (if negb (s2_Point_eqb (nthp p next) (nthp p index)) then next :: r else r)
      end
    end
  else Some [].

Definition subsample_with (fe : Z -> Z) (p : list s2_Point) : option (list Z) :=
  let n := Z.of_nat (length p) in
  if (n <? 1)%Z then Some []
  else match subsample_loop fe p n (length p) 0%Z with
       | None => None
       | Some r => Some (0%Z :: r)
       end.

Definition clampedTolerance (tolerance : float) : float := go_fmax (s1_Angle_Radians tolerance) 0.
Definition SubsampleVertices (p : list s2_Point) (tolerance : float) : option (list Z) :=
  subsample_with (findEndVertex p (clampedTolerance tolerance)) p.

(** * Snapping (s2/builder_snapper.go) *)
(** CellIDSnapper.SnapPoint = CellFromPoint(p).id.Parent(level).Point(): the centre of the
    level-[level] cell containing p's leaf cell, written directly in (face, i, j) coordinates
    (the Hilbert-curve encoding in between is a bijection, property C01). *)
Definition center_siti (level i : Z) : Z :=
  let k := (30 - level)%Z in (2 * Z.shiftl (Z.shiftr i k) k + 2 ^ k)%Z.
Definition cellid_snap (level : Z) (p : s2_Point) : s2_Point :=
  let '(f, u, v) := s2_xyzToFaceUV (s2_Point_Vector p) in
  let i := s2_stToIJ (s2_uvToST u) in
  let j := s2_stToIJ (s2_uvToST v) in
  let si := center_siti level i in
  let ti := center_siti level j in
  mk_s2_Point (r3_Vector_Normalize
    (s2_faceUVToXYZ f (s2_stToUV (PrimFloat.mul (0x1p-31)%float (float_of_Z si)))
                      (s2_stToUV (PrimFloat.mul (0x1p-31)%float (float_of_Z ti))))).

(** IntLatLngSnapper.SnapPoint before commit 6543c40 (radians scaled by 10^e, rounded through int32) *)
Definition roundAngle_old (v : float) : Z :=
  if PrimFloat.ltb v 0 then wrap_i32 (Z_of_float_trunc (PrimFloat.sub v (0x1p-1)%float))
  else wrap_i32 (Z_of_float_trunc (PrimFloat.add v (0x1p-1)%float)).
Definition intlatlng_snap_old (sf : s2_IntLatLngSnapper) (p : s2_Point) : s2_Point :=
  let input := s2_LatLngFromPoint p in
  let lat := float_of_Z (roundAngle_old (PrimFloat.mul (s2_LatLng_Lat input) (s2_IntLatLngSnapper_from sf))) in
  let lng := float_of_Z (roundAngle_old (PrimFloat.mul (s2_LatLng_Lng input) (s2_IntLatLngSnapper_from sf))) in
  s2_PointFromLatLng (mk_s2_LatLng (PrimFloat.mul lat (s2_IntLatLngSnapper_to sf)) (PrimFloat.mul lng (s2_IntLatLngSnapper_to sf))).
