(** Byte-level model of the S2 codecs (C09 lossless round trip, C15 total decoding).

    Definitions only.  Hand-written mirror of the Encode/Decode methods of
    s2/{point,cap,rect,cellid,cell,cellunion,polyline,loop,polygon,pointcompression,
    nthderivative}.go on top of Base/Bytes.v (sticky-error reader, allocation log).
    Limits, version numbers, zig-zag, bit interleaving and the (si,ti)/(pi,qi)/xyz
    conversions are the translated Go functions of Gen/Codec.v.

    float64 fields of values are carried as their 64-bit patterns (a [Z] in [0,2^64)),
    so a round trip statement is bit-exact, NaN payloads included.  The compressed
    format converts patterns to floats ([go_float64frombits]) for the cell-centre test
    and back ([go_float64bits]) for the reconstructed centres.

    Partial Go operations are explicit: [go_make] (negative / absurd length) and
    [go_index] (index out of range) put the reader in state [SPanic]. *)
From Coq Require Import ZArith List Bool Floats.
From Coq Require Export Uint63.
From Geo Require Import Base.GoPrim Base.Bytes Gen.CellID Gen.S2Rect Gen.Codec.
Import ListNotations.
Local Open Scope Z_scope.

Inductive result (A : Type) := Ok (v : A) | Err | Panic.
Arguments Ok {A} v.
Arguments Err {A}.
Arguments Panic {A}.

(** run a decoder body on a byte string: outcome and allocation log *)
Definition run {A} (f : dec -> A * dec) (bs : list Z) : result A :=
  let '(v, d) := f (dec_init bs) in
  match d_st d with SOk => Ok v | SErr => Err | SPanic => Panic end.
Definition run_log {A} (f : dec -> A * dec) (bs : list Z) : list (alloc_kind * Z) :=
  d_log (snd (f (dec_init bs))).

(** documented limit of each kind of input-sized allocation *)
Definition alloc_limit (k : alloc_kind) : Z :=
  match k with
  | AVertices => s2_maxEncodedVertices
  | ALoops => s2_maxEncodedLoops
  | ACells => s2_CellUnion_decode_maxCells
  | AFaceRuns => s2_maxEncodedVertices
  end.

(** [s[i]] with [0 <= i < n] required: out of range panics *)
Definition go_index (i n : Z) (d : dec) : dec :=
  if failed d then d else if (i <? 0) || (n <=? i) then set_panic d else d.

(** * Values *)
Definition point := (Z * Z * Z)%type.
Definition zero_point : point := (0, 0, 0).
Record rect := mkrect { r_lat_lo : Z; r_lat_hi : Z; r_lng_lo : Z; r_lng_hi : Z }.
Definition zero_rect := mkrect 0 0 0 0.
Record cap := mkcap { c_center : point; c_radius : Z }.
(** a Loop as the lossless format sees it *)
Record loop := mkloop { l_vertices : list point; l_origin_inside : bool; l_depth : Z; l_bound : rect }.
Definition zero_loop := mkloop [] false 0 zero_rect.
(** a Loop decoded from the compressed format: the bound is present only when it was
    encoded (>= 64 vertices); otherwise the decoder recomputes it (initBound, outside this model) *)
Record cloop := mkcloop { cl_vertices : list point; cl_origin_inside : bool; cl_depth : Z; cl_bound : option rect }.
Definition zero_cloop := mkcloop [] false 0 None.
Record polygon := mkpolygon { p_loops : list loop; p_has_holes : bool; p_bound : rect }.
Definition zero_polygon := mkpolygon [] false zero_rect.
Inductive dpolygon := DLossless (p : polygon) | DCompressed (ls : list cloop).

Definition version_byte : Z := wrap_u8 s2_encodingVersion.
Definition cversion_byte : Z := wrap_u8 s2_encodingCompressedVersion.

(** * Reading sequences *)
Definition read_point (d : dec) : point * dec :=
  let '(x, d) := read_u64 d in
  let '(y, d) := read_u64 d in
  let '(z, d) := read_u64 d in
  ((x, y, z), d).

(** decoder.readPointCoord: a float64 that is NaN or infinite (exponent field all ones) is an error *)
Definition nonfinite_bits (b : Z) : bool := (b / 2 ^ 52) mod 2048 =? 2047.
Definition read_point_coord (d : dec) : Z * dec :=
  let '(x, d) := read_u64 d in
  if negb (failed d) && nonfinite_bits x then (x, set_err d) else (x, d).
(** the three coordinates of a vertex of a loop, a polyline or the off-centre list *)
Definition read_vertex (d : dec) : point * dec :=
  let '(x, d) := read_point_coord d in
  let '(y, d) := read_point_coord d in
  let '(z, d) := read_point_coord d in
  ((x, y, z), d).

Definition many_stop {A} (s : list A * dec) : bool := failed (snd s).
Definition many_body {A} (rd1 : dec -> A * dec) (s : list A * dec) : list A * dec :=
  let '(x, d') := rd1 (snd s) in (x :: fst s, d').
(** [for i := range xs { xs[i] = read(d) }] for a slice of [n] elements *)
Definition read_many {A} (rd1 : dec -> A * dec) (n : Z) (d : dec) : list A * dec :=
  let s := rep many_stop (many_body rd1) n ([], d) in
  (rev (fst s), snd s).

(** * Simple types *)

(** Point.decode *)
Definition decode_point_body (d : dec) : point * dec :=
  let '(v, d) := read_i8 d in
  if failed d then (zero_point, d) else
  if negb (v =? s2_encodingVersion) then (zero_point, set_err d) else
  read_point d.

(** Cap.decode *)
Definition decode_cap_body (d : dec) : cap * dec :=
  let '(c, d) := read_point d in
  let '(r, d) := read_u64 d in
  (mkcap c r, d).

(** Rect.IsValid on the decoded fields (translated s2.Rect.IsValid on the floats of the patterns) *)
Definition rect_valid (r : rect) : bool :=
  s2_Rect_IsValid (mk_s2_Rect (mk_r1_Interval (go_float64frombits (r_lat_lo r)) (go_float64frombits (r_lat_hi r)))
                              (mk_s1_Interval (go_float64frombits (r_lng_lo r)) (go_float64frombits (r_lng_hi r)))).
(** Rect.decode: since 41c9631 an invalid rectangle is an error *)
Definition decode_rect_body (d : dec) : rect * dec :=
  let '(v, d) := read_u8 d in
  if negb (wrap_i8 v =? s2_encodingVersion) && negb (failed d) then (zero_rect, set_err d) else
  let '(a, d) := read_u64 d in
  let '(b, d) := read_u64 d in
  let '(c, d) := read_u64 d in
  let '(e, d) := read_u64 d in
  let r := mkrect a b c e in
  if negb (failed d) && negb (rect_valid r) then (r, set_err d) else (r, d).

(** CellID.decode *)
Definition decode_cellid_body (d : dec) : Z * dec := read_u64 d.
(** Cell.decode: the id must be valid; the Cell is then CellFromCellID of it (derived fields are
    functions of the id) *)
Definition decode_cell_body (d : dec) : Z * dec :=
  let '(id, d) := read_u64 d in
  if failed d then (id, d) else
  if negb (s2_CellID_IsValid id) then (id, set_err d) else (id, d).

(** CellUnion.decode *)
Definition decode_cellunion_body (d : dec) : list Z * dec :=
  let '(v, d) := read_i8 d in
  if failed d then ([], d) else
  if negb (v =? s2_encodingVersion) then ([], set_err d) else
  let '(n, d) := read_i64 d in
  if failed d then ([], d) else
  if (n <? 0) || (s2_CellUnion_decode_maxCells <? n) then ([], set_err d) else
  let d := go_make ACells n d in
  read_many decode_cell_body n d.

(** Polyline.decode *)
Definition decode_polyline_body (d : dec) : list point * dec :=
  let '(v, d) := read_i8 d in
  if failed d then ([], d) else
  if negb (v =? s2_encodingVersion) then ([], set_err d) else
  let '(n, d) := read_u32 d in
  if failed d then ([], d) else
  if s2_maxEncodedVertices <? n then ([], set_err d) else
  let d := go_make AVertices n d in
  read_many read_vertex n d.

(** Loop.decode (lossless format) *)
Definition decode_loop_body (d : dec) : loop * dec :=
  let '(v, d) := read_u8 d in
  if failed d then (zero_loop, d) else
  if negb (wrap_i8 v =? s2_encodingVersion) then (zero_loop, set_err d) else
  let '(n, d) := read_u32 d in
  if s2_maxEncodedVertices <? n then (zero_loop, set_err d) else
  let d := go_make AVertices n d in
  let '(vs, d) := read_many read_vertex n d in
  let '(oi, d) := read_bool d in
  let '(dep, d) := read_u32 d in
  let '(b, d) := decode_rect_body d in
  (mkloop vs oi (wrap_i64 dep) b, d).

(** Polygon.decode (lossless format, after the version byte) *)
Definition decode_polygon_lossless_body (d : dec) : polygon * dec :=
  let '(_, d) := read_u8 d in
  let '(hh, d) := read_bool d in
  let '(n, d) := read_u32 d in
  if failed d then (zero_polygon, d) else
  if s2_maxEncodedLoops <? n then (zero_polygon, set_err d) else
  let d := go_make ALoops n d in
  let '(ls, d) := read_many decode_loop_body n d in
  let '(b, d) := decode_rect_body d in
  (mkpolygon ls hh b, d).

(** * N-th derivative coder (s2/nthderivative.go), hand-modelled: [memory] as a list *)
Record coder := mkcoder { co_n : Z; co_m : Z; co_mem : list Z }.
Definition coder_new (n : Z) : coder := mkcoder n 0 (repeat 0 10%nat).

(** the first [m] memory cells, front to back: delta := k - mem[i]; mem[i] := k; k := delta *)
Fixpoint enc_mem (mem : list Z) (m : nat) (k : Z) : list Z * Z :=
  match m, mem with
  | S m', x :: t => let '(t', r) := enc_mem t m' (wrap_i32 (k - x)) in (k :: t', r)
  | _, _ => (mem, k)
  end.
Definition coder_encode (c : coder) (k : Z) : coder * Z :=
  let '(mem, r) := enc_mem (co_mem c) (Z.to_nat (co_m c)) k in
  if co_m c <? co_n c then (mkcoder (co_n c) (co_m c + 1) (updZ mem (co_m c) r), r)
  else (mkcoder (co_n c) (co_m c) mem, r).

(** cells m-1 .. 0, back to front: mem[i] += k; k := mem[i] *)
Fixpoint dec_mem (mem : list Z) (m : nat) (k : Z) : list Z * Z :=
  match m, mem with
  | S m', x :: t => let '(t', k1) := dec_mem t m' k in let x' := wrap_i32 (x + k1) in (x' :: t', x')
  | _, _ => (mem, k)
  end.
Definition coder_decode (c : coder) (k : Z) : coder * Z :=
  let m := if co_m c <? co_n c then co_m c + 1 else co_m c in
  let '(mem, r) := dec_mem (co_mem c) (Z.to_nat m) k in
  (mkcoder (co_n c) m mem, r).

(** * Compressed points (s2/pointcompression.go) *)

Definition point_of_vec (v : r3_Vector) : point :=
  (go_float64bits (r3_Vector_X v), go_float64bits (r3_Vector_Y v), go_float64bits (r3_Vector_Z v)).
Definition vec_of_point (p : point) : r3_Vector :=
  let '(x, y, z) := p in
  mk_r3_Vector (go_float64frombits x) (go_float64frombits y) (go_float64frombits z).

(** decodeFaceRun *)
Definition decode_face_run (d : dec) : (Z * Z) * dec :=
  let '(fc, d) := read_uvarint d in
  let face := wrap_i64 (fc mod s2_NumFaces) in
  let count := wrap_i64 (fc / s2_NumFaces) in
  let d := if (count <=? 0) && negb (failed d) then set_err d else d in
  ((face, count), d).

(** decodeFaces: [for nparsed < numVertices]; every run has count >= 1, so at most
    [numVertices] iterations are needed *)
Definition faces_stop (n : Z) (s : list (Z * Z) * Z * dec) : bool :=
  failed (snd s) || (n <=? snd (fst s)).
Definition faces_body (s : list (Z * Z) * Z * dec) : list (Z * Z) * Z * dec :=
  let '(frs, np, d) := s in
  let '(fr, d) := decode_face_run d in
  if failed d then (frs, np, d) else (fr :: frs, wrap_i64 (np + snd fr), d).
Definition decode_faces (n : Z) (d : dec) : list (Z * Z) * dec :=
  let '(frs, _, d) := rep (faces_stop n) faces_body n ([], 0, d) in
  if failed d then ([], d)
  else (rev frs, go_make AFaceRuns (Z.of_nat (length frs)) d).

Definition first_point_bytes (level : Z) : nat := Z.to_nat ((level + 7) / 8 * 2).

(** decodeFirstPointFixedLength *)
Definition decode_first_point (level : Z) (pc qc : coder) (d : dec) : Z * Z * coder * coder * dec :=
  let '(il, d) := read_le (first_point_bytes level) d in
  let '(a, b) := s2_deinterleaveUint32 (wrap_u64 il) in
  let '(pc, p) := coder_decode pc (wrap_i32 a) in
  let '(qc, q) := coder_decode qc (wrap_i32 b) in
  (wrap_u32 p, wrap_u32 q, pc, qc, d).

(** decodePointCompressed *)
Definition decode_next_point (pc qc : coder) (d : dec) : Z * Z * coder * coder * dec :=
  let '(il, d) := read_uvarint d in
  let '(a, b) := s2_deinterleaveUint32 il in
  let '(pc, p) := coder_decode pc (s2_zigzagDecode a) in
  let '(qc, q) := coder_decode qc (s2_zigzagDecode b) in
  (wrap_u32 p, wrap_u32 q, pc, qc, d).

(** state of the vertex loop of decodePointsCompressed (coders, facesIterator, target so far) *)
Record vstate := mkvs {
  vs_i : Z; vs_pc : coder; vs_qc : coder;
  vs_faces : list (Z * Z); vs_shown : Z; vs_cur : Z;
  vs_acc : list point; vs_d : dec }.

Definition vertex_stop (s : vstate) : bool := failed (vs_d s).
Definition vertex_body (level : Z) (s : vstate) : vstate :=
  let '(p, q, pc, qc, d) :=
    if vs_i s =? 0 then decode_first_point level (vs_pc s) (vs_qc s) (vs_d s)
    else decode_next_point (vs_pc s) (vs_qc s) (vs_d s) in
  match vs_faces s with
  | [] =>
      (* iter.next() = false *)
      if failed d then
        mkvs (vs_i s + 1) pc qc [] (vs_shown s) (vs_cur s)
             (point_of_vec (s2_facePiQitoXYZ (vs_cur s) p q level) :: vs_acc s) d
      else mkvs (vs_i s) pc qc [] (vs_shown s) (vs_cur s) (vs_acc s) (set_err d)
  | (f, c) :: rest =>
      let shown := vs_shown s + 1 in
      let pt := point_of_vec (s2_facePiQitoXYZ f p q level) in
      if c <=? shown then mkvs (vs_i s + 1) pc qc rest 0 f (pt :: vs_acc s) d
      else mkvs (vs_i s + 1) pc qc ((f, c) :: rest) shown f (pt :: vs_acc s) d
  end.

(** the off-centre list: index + three doubles, index checked against len(target) *)
Definition offc_stop (s : list point * dec) : bool := failed (snd s).
Definition offc_body (n : Z) (s : list point * dec) : list point * dec :=
  let '(pts, d) := s in
  let '(ix, d) := read_uvarint d in
  let idx := wrap_i64 ix in
  if failed d then (pts, d) else
  if (idx <? 0) || (n <=? idx) then (pts, set_err d) else
  let d := go_index idx n d in
  let '(pt, d) := read_vertex d in
  (updZ pts idx pt, d).

(** decodePointsCompressed(d, level, target) with len(target) = n *)
Definition decode_points_compressed (level n : Z) (d : dec) : list point * dec :=
  let '(faces, d) := decode_faces n d in
  let co := coder_new s2_derivativeEncodingOrder in
  let s := rep vertex_stop (vertex_body level) n (mkvs 0 co co faces 0 0 [] d) in
  let pts := rev (vs_acc s) in
  let d := vs_d s in
  if failed d then (pts, d) else
  let '(noc, d) := read_uvarint d in
  let noc := wrap_i64 noc in
  if failed d then (pts, d) else
  if n <? noc then (pts, set_err d) else
  rep offc_stop (offc_body n) noc (pts, d).

(** the special loops; EmptyLoop() is what initBound turns a vertex-less loop into *)
Definition empty_loop_point : point := (0, 0, go_float64bits 1).
Definition empty_cloop := mkcloop [empty_loop_point] false 0 None.

(** Loop.decodeCompressed *)
Definition decode_cloop_body (level : Z) (d : dec) : cloop * dec :=
  let '(n, d) := read_uvarint d in
  if failed d then (zero_cloop, d) else
  if s2_maxEncodedVertices <? n then (zero_cloop, set_err d) else
  let d := go_make AVertices n d in
  let '(pts, d) := decode_points_compressed level n d in
  let '(props, d) := read_uvarint d in
  if failed d then (zero_cloop, d) else
  let oi := negb (Z.land props s2_originInside =? 0) in
  let '(dep, d) := read_uvarint d in
  if negb (Z.land props s2_boundEncoded =? 0) then
    let '(b, d) := decode_rect_body d in
    (mkcloop pts oi (wrap_i64 dep) (Some b), d)
  else if n =? 0 then (empty_cloop, d)
  else (mkcloop pts oi (wrap_i64 dep) None, d).

(** Polygon.decodeCompressed (after the version byte) *)
Definition decode_polygon_compressed_body (d : dec) : list cloop * dec :=
  let '(sl, d) := read_u8 d in
  if s2_MaxLevel <? sl then ([], set_err d) else
  let '(n, d) := read_uvarint d in
  if failed d then ([], d) else
  if s2_maxEncodedLoops <? n then ([], set_err d) else
  let d := go_make ALoops n d in
  read_many (decode_cloop_body sl) n d.

(** Polygon.Decode *)
Definition decode_polygon_body (d : dec) : dpolygon * dec :=
  let '(b, d) := read_u8 d in
  let v := wrap_i8 b in
  if v =? s2_encodingVersion then
    let '(p, d) := decode_polygon_lossless_body d in (DLossless p, d)
  else if v =? s2_encodingCompressedVersion then
    let '(ls, d) := decode_polygon_compressed_body d in (DCompressed ls, d)
  else (DCompressed [], set_err d).

(** * The Decode entry points *)
Definition decode_point := run decode_point_body.
Definition decode_cap := run decode_cap_body.
Definition decode_rect := run decode_rect_body.
Definition decode_cellid := run decode_cellid_body.
Definition decode_cell := run decode_cell_body.
Definition decode_cellunion := run decode_cellunion_body.
Definition decode_polyline := run decode_polyline_body.
Definition decode_loop := run decode_loop_body.
Definition decode_polygon := run decode_polygon_body.

(** * Encoders *)
Definition enc_point (p : point) : list Z :=
  let '(x, y, z) := p in le_bytes 8 x ++ le_bytes 8 y ++ le_bytes 8 z.
Definition enc_bool (b : bool) : list Z := [if b then 1 else 0].
Definition len {A} (l : list A) : Z := Z.of_nat (length l).

Definition encode_point (p : point) : list Z := [version_byte] ++ enc_point p.
Definition encode_cap (c : cap) : list Z := enc_point (c_center c) ++ le_bytes 8 (c_radius c).
Definition encode_rect (r : rect) : list Z :=
  [version_byte] ++ le_bytes 8 (r_lat_lo r) ++ le_bytes 8 (r_lat_hi r)
                 ++ le_bytes 8 (r_lng_lo r) ++ le_bytes 8 (r_lng_hi r).
Definition encode_cellid (id : Z) : list Z := le_bytes 8 id.
Definition encode_cell (id : Z) : list Z := encode_cellid id.
Definition encode_cellunion (ids : list Z) : list Z :=
  [version_byte] ++ le_bytes 8 (wrap_u64 (len ids)) ++ flat_map encode_cellid ids.
Definition encode_polyline (ps : list point) : list Z :=
  [version_byte] ++ le_bytes 4 (wrap_u32 (len ps)) ++ flat_map enc_point ps.
Definition encode_loop (l : loop) : list Z :=
  [version_byte] ++ le_bytes 4 (wrap_u32 (len (l_vertices l))) ++ flat_map enc_point (l_vertices l)
  ++ enc_bool (l_origin_inside l) ++ le_bytes 4 (wrap_u32 (l_depth l)) ++ encode_rect (l_bound l).
(** encodeLossless: the loop count is written before it is checked against the limit *)
Definition encode_polygon_lossless (p : polygon) : option (list Z) :=
  if s2_maxEncodedLoops <? len (p_loops p) then None else
  Some ([version_byte; 1] ++ enc_bool (p_has_holes p) ++ le_bytes 4 (wrap_u32 (len (p_loops p)))
        ++ flat_map encode_loop (p_loops p) ++ encode_rect (p_bound p)).

(** xyzFaceSiTi of a vertex *)
Record xfst := mkxfst { x_xyz : point; x_face : Z; x_si : Z; x_ti : Z; x_level : Z }.
Definition xyz_face_siti (p : point) : xfst :=
  let '(f, si, ti, lv) := s2_xyzToFaceSiTi (mk_s2_Point (vec_of_point p)) in mkxfst p f si ti lv.

(** appendFace over the whole vertex list: run-length encoding of the faces *)
Fixpoint face_runs (fs : list Z) : list (Z * Z) :=
  match fs with
  | [] => []
  | f :: t =>
    match face_runs t with
    | (g, c) :: r => if f =? g then (g, c + 1) :: r else (f, 1) :: (g, c) :: r
    | [] => [(f, 1)]
    end
  end.
Definition enc_face_run (fr : Z * Z) : list Z :=
  put_uvarint (wrap_u64 (s2_NumFaces * wrap_u64 (snd fr) + wrap_u64 (fst fr))).

(** encodeFirstPointFixedLength / encodePointCompressed along the (pi,qi) sequence *)
Fixpoint enc_piqi (first : bool) (level : Z) (pc qc : coder) (vs : list (Z * Z)) : list Z :=
  match vs with
  | [] => []
  | (p, q) :: t =>
    let '(pc', cp) := coder_encode pc (wrap_i32 p) in
    let '(qc', cq) := coder_encode qc (wrap_i32 q) in
    (if first then le_bytes (first_point_bytes level) (s2_interleaveUint32 (wrap_u32 cp) (wrap_u32 cq))
     else put_uvarint (s2_interleaveUint32 (s2_zigzagEncode cp) (s2_zigzagEncode cq)))
    ++ enc_piqi false level pc' qc' t
  end.

(** indices (with the vertex) of the vertices that are not cell centres of [level] *)
Fixpoint off_centre (i : Z) (level : Z) (xs : list xfst) : list (Z * point) :=
  match xs with
  | [] => []
  | x :: t => (if x_level x =? level then [] else [(i, x_xyz x)]) ++ off_centre (i + 1) level t
  end.

(** encodePointsCompressed *)
Definition encode_points_compressed (xs : list xfst) (level : Z) : list Z :=
  let co := coder_new s2_derivativeEncodingOrder in
  let oc := off_centre 0 level xs in
  flat_map enc_face_run (face_runs (map x_face xs))
  ++ enc_piqi true level co co (map (fun x => (s2_siTitoPiQi (x_si x) level, s2_siTitoPiQi (x_ti x) level)) xs)
  ++ put_uvarint (len oc)
  ++ flat_map (fun ip => put_uvarint (wrap_u64 (fst ip)) ++ enc_point (snd ip)) oc.

(** compressedEncodingProperties *)
Definition loop_props (l : loop) : Z :=
  Z.lor (if l_origin_inside l then s2_originInside else 0)
        (if s2_Loop_compressedEncodingProperties_minVerticesForBound <=? len (l_vertices l)
         then s2_boundEncoded else 0).

(** Loop.encodeCompressed; [xs] = xyzFaceSiTiVertices of the loop *)
Definition encode_cloop (level : Z) (lx : loop * list xfst) : option (list Z) :=
  let '(l, xs) := lx in
  if s2_maxEncodedVertices <? len (l_vertices l) then None else
  let props := loop_props l in
  Some (put_uvarint (len (l_vertices l))
        ++ encode_points_compressed xs level
        ++ put_uvarint props ++ put_uvarint (wrap_u64 (l_depth l))
        ++ (if Z.land props s2_boundEncoded =? 0 then [] else encode_rect (l_bound l))).

Fixpoint concat_opt (l : list (option (list Z))) : option (list Z) :=
  match l with
  | [] => Some []
  | None :: _ => None
  | Some a :: t => match concat_opt t with Some b => Some (a ++ b) | None => None end
  end.

(** the (face, si, ti, level) of every vertex, loop by loop (computed once per Encode) *)
Definition polygon_xs (p : polygon) : list (list xfst) :=
  map (fun l => map xyz_face_siti (l_vertices l)) (p_loops p).

(** Polygon.encodeCompressed *)
Definition encode_polygon_compressed (level : Z) (p : polygon) (xss : list (list xfst)) : option (list Z) :=
  if s2_maxEncodedLoops <? len (p_loops p) then None else
  match concat_opt (map (encode_cloop level) (combine (p_loops p) xss)) with
  | Some body => Some ([cversion_byte; wrap_u8 level] ++ put_uvarint (len (p_loops p)) ++ body)
  | None => None
  end.

Definition num_vertices (p : polygon) : Z :=
  fold_left (fun a l => a + len (l_vertices l)) (p_loops p) 0.
Definition count_level (lv : Z) (ls : list Z) : Z := len (filter (Z.eqb lv) ls).
(** the level at which most vertices are snapped (first maximum), with its count *)
Definition snap_choice (ls : list Z) : Z * Z :=
  fold_left (fun (best : Z * Z) lv => let h := count_level lv ls in if snd best <? h then (lv, h) else best)
            (zrange_up 0 (s2_MaxLevel + 1)) (0, 0).

(** Polygon.encode: format chosen from the snap-level histogram *)
Definition use_compressed (nv snapped : Z) : bool := 4 * nv + 26 * (nv - snapped) <? 24 * nv.
Definition encode_polygon (p : polygon) : option (list Z) :=
  let xss := polygon_xs p in
  let nv := num_vertices p in
  if nv =? 0 then encode_polygon_compressed s2_MaxLevel p xss else
  let '(level, snapped) := snap_choice (map x_level (concat xss)) in
  if use_compressed nv snapped then encode_polygon_compressed level p xss
  else encode_polygon_lossless p.

(** the view of a polygon that the compressed format preserves *)
Definition cloop_of_loop (l : loop) : cloop :=
  mkcloop (l_vertices l) (l_origin_inside l) (l_depth l)
          (if s2_Loop_compressedEncodingProperties_minVerticesForBound <=? len (l_vertices l)
           then Some (l_bound l) else None).

(** * Queries on a decoded loop that index its vertices (s2/loop.go) *)
(** Loop.Vertex(i) = l.vertices[i % len(l.vertices)]: integer division by zero panics *)
Definition loop_vertex (vs : list point) (i : Z) : result point :=
  if len vs =? 0 then Panic else Ok (nthZ vs (Z.rem i (len vs)) zero_point).
Section Contains.
  (** the edge-crossing predicate is a parameter: only the vertex accesses are modelled *)
  Variable crossing : point -> point -> point -> bool.
  (** Loop.bruteForceContainsPoint *)
  Definition brute_force_contains (vs : list point) (origin_inside : bool) (p : point) : result bool :=
    if len vs =? 0 then Ok origin_inside else
    fold_left (fun (acc : result bool) i =>
                 match acc, loop_vertex vs (i - 1), loop_vertex vs i with
                 | Ok ins, Ok a, Ok b => Ok (xorb ins (crossing p a b))
                 | Err, _, _ => Err
                 | _, _, _ => Panic
                 end)
              (zrange_up 1 (len vs + 1)) (Ok origin_inside).
End Contains.

(** * Boolean equalities used by the correspondence files *)
Definition point_eqb (a b : point) : bool :=
  let '(x, y, z) := a in let '(u, v, w) := b in (x =? u) && (y =? v) && (z =? w).
Definition rect_eqb (a b : rect) : bool :=
  (r_lat_lo a =? r_lat_lo b) && (r_lat_hi a =? r_lat_hi b) && (r_lng_lo a =? r_lng_lo b) && (r_lng_hi a =? r_lng_hi b).
Definition cap_eqb (a b : cap) : bool := point_eqb (c_center a) (c_center b) && (c_radius a =? c_radius b).
Definition loop_eqb (a b : loop) : bool :=
  list_eqb point_eqb (l_vertices a) (l_vertices b) && Bool.eqb (l_origin_inside a) (l_origin_inside b)
  && (l_depth a =? l_depth b) && rect_eqb (l_bound a) (l_bound b).
Definition opt_eqb {A} (e : A -> A -> bool) (x y : option A) : bool :=
  match x, y with Some a, Some b => e a b | None, None => true | _, _ => false end.
Definition cloop_eqb (a b : cloop) : bool :=
  list_eqb point_eqb (cl_vertices a) (cl_vertices b) && Bool.eqb (cl_origin_inside a) (cl_origin_inside b)
  && (cl_depth a =? cl_depth b) && opt_eqb rect_eqb (cl_bound a) (cl_bound b).
Definition polygon_eqb (a b : polygon) : bool :=
  list_eqb loop_eqb (p_loops a) (p_loops b) && Bool.eqb (p_has_holes a) (p_has_holes b) && rect_eqb (p_bound a) (p_bound b).
Definition dpolygon_eqb (a b : dpolygon) : bool :=
  match a, b with
  | DLossless p, DLossless q => polygon_eqb p q
  | DCompressed x, DCompressed y => list_eqb cloop_eqb x y
  | _, _ => false
  end.
Definition result_eqb {A} (e : A -> A -> bool) (x y : result A) : bool :=
  match x, y with Ok a, Ok b => e a b | Err, Err => true | Panic, Panic => true | _, _ => false end.
Definition bytes_eqb : list Z -> list Z -> bool := list_eqb Z.eqb.
(** outcome class of a decode: 0 = value, 1 = error, 2 = panic *)
Definition result_class {A} (r : result A) : Z := match r with Ok _ => 0 | Err => 1 | Panic => 2 end.
Definition log_within_limits (lg : list (alloc_kind * Z)) : bool :=
  forallb (fun kn => (0 <=? snd kn) && (snd kn <=? alloc_limit (fst kn))) lg.

(** whole sequences through one coder (for the correspondence of the hand-modelled coder) *)
Fixpoint coder_encode_seq (c : coder) (ks : list Z) : list Z :=
  match ks with [] => [] | k :: t => let '(c', r) := coder_encode c k in r :: coder_encode_seq c' t end.
Fixpoint coder_decode_seq (c : coder) (ks : list Z) : list Z :=
  match ks with [] => [] | k :: t => let '(c', r) := coder_decode c k in r :: coder_decode_seq c' t end.
Definition xfst_eqb (a b : xfst) : bool :=
  point_eqb (x_xyz a) (x_xyz b) && (x_face a =? x_face b) && (x_si a =? x_si b) && (x_ti a =? x_ti b) && (x_level a =? x_level b).

(** * Compact literals for the correspondence files (primitive integers parse fast) *)
(** a 64-bit pattern from its two 32-bit halves *)
Definition B64 (hi lo : int) : Z := Uint63.to_Z hi * 4294967296 + Uint63.to_Z lo.
Arguments B64 (hi lo)%uint63_scope.
Fixpoint unpack_word (k : nat) (w : int) : list Z :=
  match k with
  | O => []
  | S k' => Uint63.to_Z (Uint63.land w 255) :: unpack_word k' (Uint63.lsr w 8)
  end.
(** [n] bytes packed seven to a word, little-endian *)
Fixpoint unpack_bytes (n : Z) (ws : list int) : list Z :=
  match ws with
  | [] => []
  | w :: t => if n <=? 7 then unpack_word (Z.to_nat n) w else unpack_word 7 w ++ unpack_bytes (n - 7) t
  end.

(** comparison of a model value with what the implementation decoded, for arbitrary inputs: the
    bound of a compressed loop is compared only where the model says it came from the bytes *)
Definition cloop_matches (m g : cloop) : bool :=
  list_eqb point_eqb (cl_vertices m) (cl_vertices g) && Bool.eqb (cl_origin_inside m) (cl_origin_inside g)
  && (cl_depth m =? cl_depth g)
  && match cl_bound m with Some r => opt_eqb rect_eqb (Some r) (cl_bound g) | None => true end.
Definition dpolygon_matches (m g : dpolygon) : bool :=
  match m, g with
  | DLossless p, DLossless q => polygon_eqb p q
  | DCompressed x, DCompressed y => list_eqb cloop_matches x y
  | _, _ => false
  end.

(** * Queries on a decoded Cell (s2/cell.go, s2/stuv.go) *)
(** Cell.RectBound -> uAxis(face) -> faceUVWAxes[face]: a table of NumFaces rows, indexed by
    the face of the id (its top three bits) *)
Definition cellid_face (id : Z) : Z := Z.shiftr id 61.
Definition cell_rect_bound_axes (id : Z) : result Z :=
  let f := cellid_face id in
  if (f <? 0) || (s2_NumFaces <=? f) then Panic else Ok f.

(** * Queries on a decoded Polygon (s2/polygon.go) *)
(** Polygon.IsFull: exactly one loop and it is the full loop (one vertex, origin inside).
    ContainsPoint / ContainsCell / IntersectsCell start with [p.index.IsFresh()] resp.
    [p.index.Iterator()]: they need the ShapeIndex that initEdgesAndIndex creates, for the
    full polygon (since 54a5f02) as for every other one. *)
Definition cloops_full (ls : list cloop) : bool :=
  match ls with
  | [l] => (len (cl_vertices l) =? 1) && cl_origin_inside l
  | _ => false
  end.
Definition polygon_has_index (ls : list cloop) : bool := if cloops_full ls then true else true.
Definition polygon_query_entry (ls : list cloop) : result unit :=
  if polygon_has_index ls then Ok tt else Panic.

(** Polygon.numVertices of a decoded polygon: the lossless decoder adds up the loop lengths,
    initLoopProperties does the same for the compressed format *)
Definition dpolygon_num_vertices (p : dpolygon) : Z :=
  match p with
  | DLossless q => num_vertices q
  | DCompressed ls => fold_left (fun a l => a + len (cl_vertices l)) ls 0
  end.
