(** * EdgeQuery model instantiated with float64 chord angles (correspondence only)
    [s1_ChordAngle_Sub] / [s1_ChordAngle_Add] are the translations of s1/chordangle.go
    regenerated from /repo on every run. *)
From Coq Require Import ZArith List Bool Floats.
From Geo Require Import Base.GoPrim Gen.S1 Model.EdgeQuery.
Import ListNotations.
Local Open Scope Z_scope.

(** ** Instances used by the correspondence: float64 chord angles *)
(** minDistance: less is <, sub is s1.ChordAngle.Sub (bd38ae9), zero() = 0, infinity() = +Inf *)
Definition fmin_ops : dist_ops float :=
  mkOps float PrimFloat.ltb s1_ChordAngle_Sub 0%float infinity PrimFloat.eqb 0%float.
(** maxDistance: less is >, sub is s1.ChordAngle.Add, zero() = StraightChordAngle = 4,
    infinity() = NegativeChordAngle = -1 *)
Definition fmax_ops : dist_ops float :=
  mkOps float (fun a b => PrimFloat.ltb b a) s1_ChordAngle_Add 4%float (-1)%float PrimFloat.eqb 0%float.
(** the distance arithmetic before bd38ae9: raw -/+ on the squared chord lengths *)
Definition fmin_ops_old : dist_ops float :=
  mkOps float PrimFloat.ltb PrimFloat.sub 0%float infinity PrimFloat.eqb 0%float.
Definition fmax_ops_old : dist_ops float :=
  mkOps float (fun a b => PrimFloat.ltb b a) PrimFloat.add 4%float (-1)%float PrimFloat.eqb 0%float.

(** distance tables dumped by the harness: exact targets answer "d < limit ? d" *)
Fixpoint lookup_e {A} (tbl : list (eid * A)) (e : eid) (d : A) : A :=
  match tbl with [] => d | (k, v) :: t => if eid_eqb k e then v else lookup_e t e d end.
Fixpoint lookup_z {A} (tbl : list (Z * A)) (c : Z) (d : A) : A :=
  match tbl with [] => d | (k, v) :: t => if k =? c then v else lookup_z t c d end.
Definition table_upd {K} (look : K -> float) (ops : dist_ops float) (k : K) (lim : float) : option float :=
  let d := look k in if d_less ops d lim then Some d else None.

(** one correspondence case: the model on the dumped index and tables must reproduce the
    path taken, the result list (distances only when MaxResults = 1: equal distances may be
    reported for different edges depending on map iteration order) and the index covering *)
Fixpoint results_match (dist_only : bool) (rs : list (result float)) (obs : list (float * Z * Z)) : bool :=
  match rs, obs with
  | [], [] => true
  | r :: rt, (d, s, e) :: ot =>
    PrimFloat.eqb (r_dist r) d && (dist_only || ((r_shape r =? s) && (r_edge r =? e))) && results_match dist_only rt ot
  | _, _ => false
  end.
Fixpoint zlist_eqb (a b : list Z) : bool :=
  match a, b with
  | [], [] => true
  | p :: a', q :: b' => (p =? q) && zlist_eqb a' b'
  | _, _ => false
  end.
Definition c08_case (ops : dist_ops float) (o : options float) (uses : bool) (maxbrute : Z) (containing : list Z)
    (capempty : bool) (leaf : Z) (initial : list Z) (x : index) (etbl : list (eid * float)) (ctbl : list (Z * float))
    (obs : list (float * Z * Z)) (obs_opt : bool) (obs_cov : list Z) (dist_only : bool) : bool :=
  let t := mkTarget (table_upd (fun e => lookup_e etbl e nan) ops) (table_upd (fun c => lookup_z ctbl c nan) ops)
                    uses maxbrute containing capempty leaf (fun _ => initial) in
  let '(_, opt, st) := find_edges_internal ops o t x false false (0, 0) in
  let rs := truncate float o (sort_unique ops (rev (s_results st))) in
  Bool.eqb opt obs_opt && results_match dist_only rs obs
  && match obs_cov with [] => true | _ => zlist_eqb (map fst (init_covering x false)) obs_cov end.
