(** * Model of s2/edge_query.go (EdgeQuery) and s2/query_entry.go (queryQueue)

    Executable transcription over ABSTRACT distance data (definitions only, no proofs).

    - distances: a type [D] with the operations of the Go [distance] interface that the
      query uses ([less], [sub], [zero], [infinity], [==]); closest-edge queries
      instantiate it with float64 chord angles under [<], furthest-edge queries with the
      reversed order (see [fmin_ops] / [fmax_ops] at the end);
    - the index: its cells in CellID order, each with the (shape, edge) pairs clipped to
      it, plus the shapes with their edge counts (brute force and [NumEdgesUpTo]);
    - the target: [updateDistanceToEdge], [updateDistanceToCell] as functions
      (edge | cell, current limit) -> optional improved distance, and the facts
      [setMaxError]'s result, [maxBruteForceIndexSize], the shapes visited by
      [visitContainingShapes], whether [capBound] is empty, the leaf cell of its centre and
      the cell union [CellUnionFromIntersection(indexCovering, FastCovering(searchCap))]
      as a function of the current distance limit;
    - CellID arithmetic is the uint64 arithmetic of s2/cellid.go on [Z].

    The code modelled is the REPAIRED /repo (11e5dc5 testedEdges, a8394b9 initCovering,
    a6eab98 setMaxError, bd38ae9 clamped sub, 6fd85ac MaxError tested against a zero angle). The unrepaired variants are kept as [maybe_add_result] with
    [old_tested = true] and [init_covering] with [brk = true] for the refutation witnesses. *)
From Coq Require Import ZArith List Bool Floats.
Import ListNotations.
Local Open Scope Z_scope.

(** ** CellID arithmetic (s2/cellid.go) *)
Definition cid_sentinel : Z := 2 ^ 64 - 1.
Definition cid_lsb (c : Z) : Z := Z.land c (- c).
Definition cid_range_min (c : Z) : Z := c - (cid_lsb c - 1).
Definition cid_range_max (c : Z) : Z := c + (cid_lsb c - 1).
Definition cid_children (c : Z) : list Z :=
  let lsb := cid_lsb c in
  let c0 := c - lsb + Z.shiftr lsb 2 in
  let l1 := Z.shiftr lsb 1 in
  [c0; c0 + l1; c0 + l1 + l1; c0 + l1 + l1 + l1].
Definition cid_lsb_for_level (l : Z) : Z := Z.shiftl 1 (2 * (30 - l)).
Definition cid_parent (c l : Z) : Z :=
  let b := cid_lsb_for_level l in Z.lor (Z.land c (- b)) b.
Definition cid_common_ancestor_level (a b : Z) : Z * bool :=
  let bits := Z.lxor a b in
  let bits := if bits <? cid_lsb a then cid_lsb a else bits in
  let bits := if bits <? cid_lsb b then cid_lsb b else bits in
  let msb := Z.log2 bits in
  if msb >? 60 then (0, false) else (Z.shiftr (60 - msb) 1, true).
Definition cid_next (c : Z) : Z := (c + Z.shiftl (cid_lsb c) 1) mod 2 ^ 64.
Definition cid_contains (a b : Z) : bool := (cid_range_min a <=? b) && (b <=? cid_range_max a).

(** ** Index data *)
Definition eid := (Z * Z)%type.                       (* (shapeID, edgeID) *)
Definition eid_eqb (a b : eid) : bool := (fst a =? fst b) && (snd a =? snd b).
Definition mem_eid (e : eid) (l : list eid) : bool := existsb (eid_eqb e) l.
Definition icell := (Z * list eid)%type.              (* cell id, clipped edges in shape/edge order *)
Definition centry := (Z * option (list eid))%type.    (* (id, indexCell or nil) as passed to processOrEnqueue *)

Record index := mkIndex {
  x_cells : list icell;          (* ShapeIndex.cells with their ShapeIndexCell contents, CellID order *)
  x_shapes : list (Z * Z)        (* (shape id, NumEdges) in the order the shapes are visited *)
}.

Fixpoint seek_pos (ids : list Z) (target : Z) : nat :=
  match ids with
  | [] => O
  | c :: t => if c >=? target then O else S (seek_pos t target)
  end.

Inductive cell_relation := Indexed | Subdivided | Disjoint.

Fixpoint zseq (start : Z) (n : nat) : list Z :=
  match n with O => [] | S k => start :: zseq (start + 1) k end.

Definition all_edges (x : index) : list eid :=
  flat_map (fun s => map (fun e => (fst s, e)) (zseq 0 (Z.to_nat (snd s)))) (x_shapes x).

(** ShapeIndex.NumEdgesUpTo *)
Fixpoint num_edges_up_to (shapes : list (Z * Z)) (limit acc : Z) : Z :=
  match shapes with
  | [] => acc
  | s :: t => let acc' := acc + snd s in if acc' >=? limit then acc' else num_edges_up_to t limit acc'
  end.

Section Iter.
  Variable x : index.
  Definition ids : list Z := map fst (x_cells x).
  Definition it_id (pos : nat) : Z := nth pos ids cid_sentinel.
  Definition it_cell (pos : nat) : list eid := nth pos (map snd (x_cells x)) [].
  Definition it_seek (target : Z) : nat := seek_pos ids target.
  Definition it_done (pos : nat) : bool := it_id pos =? cid_sentinel.

  (** ShapeIndexIterator.LocatePoint, on the leaf cell id of the point *)
  Definition locate_leaf (leaf : Z) : option nat :=
    let pos := it_seek leaf in
    if negb (it_done pos) && (cid_range_min (it_id pos) <=? leaf) then Some pos
    else match pos with
         | O => None
         | S p => if cid_range_max (it_id p) >=? leaf then Some p else None
         end.

  (** ShapeIndexIterator.LocateCellID; also returns the iterator position afterwards *)
  Definition locate_cell (target : Z) : cell_relation * nat :=
    let pos := it_seek (cid_range_min target) in
    if negb (it_done pos) && (it_id pos >=? target) && (cid_range_min (it_id pos) <=? target)
    then (Indexed, pos)
    else if negb (it_done pos) && (it_id pos <=? cid_range_max target) then (Subdivided, pos)
    else match pos with
         | O => (Disjoint, pos)
         | S p => if cid_range_max (it_id p) >=? target then (Indexed, p) else (Disjoint, p)
         end.

  (** addInitialRange(first, last) *)
  Definition initial_range (first last : nat) : centry :=
    if it_id first =? it_id last then (it_id first, Some (it_cell first))
    else (cid_parent (it_id first) (fst (cid_common_ancestor_level (it_id first) (it_id last))), None).

  (** the loop of initCovering over the candidate top-level cells; [brk] reproduces the
      stray [break] of the unrepaired code *)
  Fixpoint init_covering_loop (brk : bool) (fuel : nat) (id last_id : Z) (next : nat) (acc : list centry)
    : nat * list centry :=
    match fuel with
    | O => (next, acc)
    | S f =>
      if id =? last_id then (next, acc)
      else if cid_range_max id <? it_id next then init_covering_loop brk f (cid_next id) last_id next acc
      else
        let cell_first := next in
        let next' := it_seek (cid_next (cid_range_max id)) in
        let cell_last := Nat.pred next' in
        let acc' := acc ++ [initial_range cell_first cell_last] in
        if brk then (next', acc')
        else init_covering_loop brk f (cid_next id) last_id next' acc'
    end.

  (** EdgeQuery.initCovering: indexCovering zipped with indexCells *)
  Definition init_covering (brk : bool) : list centry :=
    let n := length ids in
    let next := O in
    let last := match n with O => O | S k => k end in    (* End, then Prev() (fails on an empty index) *)
    let '(next, acc) :=
      if negb (it_id next =? it_id last) then
        let '(lvl, ok) := cid_common_ancestor_level (it_id next) (it_id last) in
        let level := if ok then lvl + 1 else 0 in
        let last_id := cid_parent (it_id last) level in
        init_covering_loop brk 8 (cid_parent (it_id next) level) last_id next []
      else (next, []) in
    acc ++ [initial_range next last].

  (** the children of a popped non-index cell that contain index cells, in the order
      findEdgesOptimized passes them to processOrEnqueueCell (two seeks) *)
  Definition poe_cell (ch : Z) (pos : nat) : centry :=
    if it_id pos =? ch then (ch, Some (it_cell pos)) else (ch, None).
  Definition split_cell (id : Z) : list centry :=
    match cid_children id with
    | [c0; c1; c2; c3] =>
      let p1 := it_seek (cid_range_min c1) in
      let l1 := if negb (it_done p1) && (it_id p1 <=? cid_range_max c1) then [poe_cell c1 p1] else [] in
      let l0 := match p1 with
                | O => []
                | S p => if it_id p >=? cid_range_min id then [poe_cell c0 p] else []
                end in
      let p3 := it_seek (cid_range_min c3) in
      let l3 := if negb (it_done p3) && (it_id p3 <=? cid_range_max id) then [poe_cell c3 p3] else [] in
      let l2 := match p3 with
                | O => []
                | S p => if it_id p >=? cid_range_min c2 then [poe_cell c2 p] else []
                end in
      l1 ++ l0 ++ l3 ++ l2
    | _ => []
    end.

  (** the clean-up loop of initQueue over initialCells (finite distance limit) *)
  Fixpoint adv_j (fuel : nat) (cov : list centry) (j : nat) (idI : Z) : nat :=
    match fuel with
    | O => j
    | S f => if cid_range_max (fst (nth j cov (cid_sentinel, None))) <? idI then adv_j f cov (S j) idI else j
    end.
  Fixpoint cleanup_initial (cells : list Z) (cov : list centry) (j : nat) (skip : option Z) : list centry :=
    match cells with
    | [] => []
    | idI :: rest =>
      let normal :=
        let j' := adv_j (length cov) cov j idI in
        let cj := nth j' cov (cid_sentinel, None) in
        if idI =? fst cj then cj :: cleanup_initial rest cov (S j') None
        else match locate_cell idI with
             | (Indexed, pos) =>
               (it_id pos, Some (it_cell pos)) :: cleanup_initial rest cov j' (Some (cid_range_max (it_id pos)))
             | (Subdivided, _) => (idI, None) :: cleanup_initial rest cov j' None
             | (Disjoint, _) => cleanup_initial rest cov j' None
             end in
      match skip with
      | Some m => if idI <=? m then cleanup_initial rest cov j skip else normal
      | None => normal
      end
    end.
End Iter.

(** ** The query, over an abstract distance type *)
Record dist_ops (D : Type) := mkOps {
  d_less : D -> D -> bool;      (* distance.less *)
  d_sub : D -> D -> D;          (* distance.sub *)
  d_zero : D;                   (* distance.zero() *)
  d_inf : D;                    (* distance.infinity() *)
  d_eqb : D -> D -> bool;       (* Go == on the chord angles *)
  d_err0 : D                    (* fromChordAngle(0): the zero error (6fd85ac: MaxError is tested against it) *)
}.
Arguments d_less {D}. Arguments d_sub {D}. Arguments d_zero {D}. Arguments d_inf {D}. Arguments d_eqb {D}.
Arguments d_err0 {D}.

Record options (D : Type) := mkOptions {
  o_max_results : Z;
  o_limit : D;                  (* fromChordAngle(distanceLimit) *)
  o_max_error : D;              (* fromChordAngle(maxError) *)
  o_interiors : bool;
  o_brute : bool
}.
Arguments o_max_results {D}. Arguments o_limit {D}. Arguments o_max_error {D}.
Arguments o_interiors {D}. Arguments o_brute {D}. Arguments mkOptions {D}.

Record target (D : Type) := mkTarget {
  t_upd_edge : eid -> D -> option D;     (* updateDistanceToEdge(edge, dist): Some d when it reports true *)
  t_upd_cell : Z -> D -> option D;       (* updateDistanceToCell(CellFromCellID(id), dist) *)
  t_uses_max_error : bool;               (* result of setMaxError *)
  t_max_brute : Z;                       (* maxBruteForceIndexSize() *)
  t_containing : list Z;                 (* shape ids in the order visitContainingShapes would visit them *)
  t_cap_empty : bool;                    (* capBound().IsEmpty() *)
  t_center_leaf : Z;                     (* cellIDFromPoint(capBound().Center()) *)
  t_initial_cells : D -> list Z          (* CellUnionFromIntersection(indexCovering, FastCovering(search cap)) for the current limit *)
}.
Arguments t_upd_edge {D}. Arguments t_upd_cell {D}. Arguments t_uses_max_error {D}. Arguments t_max_brute {D}.
Arguments t_containing {D}. Arguments t_cap_empty {D}. Arguments t_center_leaf {D}. Arguments t_initial_cells {D}.
Arguments mkTarget {D}.

Record result (D : Type) := mkR { r_dist : D; r_shape : Z; r_edge : Z }.
Arguments mkR {D}. Arguments r_dist {D}. Arguments r_shape {D}. Arguments r_edge {D}.

Record qentry (D : Type) := mkQ { q_dist : D; q_id : Z; q_cell : option (list eid) }.
Arguments mkQ {D}. Arguments q_dist {D}. Arguments q_id {D}. Arguments q_cell {D}.

(** [s_results] holds e.results in REVERSE order (append = cons) *)
Record state (D : Type) := mkSt {
  s_limit : D; s_results : list (result D); s_tested : list eid; s_queue : list (qentry D) }.
Arguments mkSt {D}. Arguments s_limit {D}. Arguments s_results {D}. Arguments s_tested {D}. Arguments s_queue {D}.

Fixpoint set_nth {A} (l : list A) (i : nat) (v : A) : list A :=
  match l, i with
  | [], _ => []
  | _ :: t, O => v :: t
  | a :: t, S k => a :: set_nth t k v
  end.

Section Query.
  Variable D : Type.
  Variable ops : dist_ops D.
  Notation less := (d_less ops).
  Notation sub := (d_sub ops).
  Notation dzero := (d_zero ops).
  Notation dinf := (d_inf ops).
  Notation deqb := (d_eqb ops).

  (** *** EdgeQueryResult.Less, sortAndUniqueResults *)
  Definition r_less (a b : result D) : bool :=
    if negb (deqb (r_dist a) (r_dist b)) then less (r_dist a) (r_dist b)
    else if negb (r_shape a =? r_shape b) then r_shape a <? r_shape b
    else r_edge a <? r_edge b.
  Definition r_eqb (a b : result D) : bool :=
    deqb (r_dist a) (r_dist b) && (r_shape a =? r_shape b) && (r_edge a =? r_edge b).

  (** sort.Slice: any correct sort; elements that compare equivalent under Less are == *)
  Fixpoint insert_r (a : result D) (l : list (result D)) : list (result D) :=
    match l with
    | [] => [a]
    | b :: t => if r_less a b then a :: l else b :: insert_r a t
    end.
  Fixpoint sort_r (l : list (result D)) : list (result D) :=
    match l with [] => [] | a :: t => insert_r a (sort_r t) end.
  Fixpoint uniq_from (last : result D) (l : list (result D)) : list (result D) :=
    match l with
    | [] => []
    | b :: t => if r_eqb last b then uniq_from last t else b :: uniq_from b t
    end.
  Definition sort_unique (l : list (result D)) : list (result D) :=
    match l with
    | [] | [_] => l
    | _ => match sort_r l with [] => [] | a :: t => a :: uniq_from a t end
    end.

  (** *** queryQueue: container/heap on a slice, ordered by queryPQ.Less *)
  Definition qdummy : qentry D := mkQ dzero 0 None.
  Definition qless (a b : qentry D) : bool := less (q_dist a) (q_dist b).
  Definition qnth (l : list (qentry D)) (i : nat) : qentry D := nth i l qdummy.
  Definition qswap (l : list (qentry D)) (i j : nat) : list (qentry D) :=
    set_nth (set_nth l i (qnth l j)) j (qnth l i).
  Fixpoint heap_up (fuel : nat) (l : list (qentry D)) (j : nat) : list (qentry D) :=
    match fuel with
    | O => l
    | S f =>
      let i := Nat.div (j - 1)%nat 2 in                      (* Go: (j-1)/2 truncates, so j = 0 gives 0 *)
      if Nat.eqb i j || negb (qless (qnth l j) (qnth l i)) then l
      else heap_up f (qswap l i j) i
    end.
  Fixpoint heap_down (fuel : nat) (l : list (qentry D)) (i n : nat) : list (qentry D) :=
    match fuel with
    | O => l
    | S f =>
      let j1 := (2 * i + 1)%nat in
      if Nat.leb n j1 then l
      else
        let j2 := S j1 in
        let j := if Nat.ltb j2 n && qless (qnth l j2) (qnth l j1) then j2 else j1 in
        if negb (qless (qnth l j) (qnth l i)) then l
        else heap_down f (qswap l i j) j n
    end.
  Definition heap_push (l : list (qentry D)) (a : qentry D) : list (qentry D) :=
    let l' := l ++ [a] in heap_up (length l') l' (length l' - 1)%nat.
  Definition heap_pop (l : list (qentry D)) : option (qentry D * list (qentry D)) :=
    match l with
    | [] => None
    | _ =>
      let n := (length l - 1)%nat in
      let l1 := qswap l O n in
      let l2 := heap_down (length l) l1 O n in
      Some (qnth l2 n, firstn n l2)
    end.

  Section Core.
    Variable o : options D.
    Variable t : target D.
    Variable x : index.
    Variable old_tested : bool.      (* true: maybeAddResult as it was before 11e5dc5 *)
    Variable brk : bool.             (* true: initCovering as it was before a8394b9 *)

    Definition set_limit (st : state D) (d : D) := mkSt d (s_results st) (s_tested st) (s_queue st).
    Definition set_queue (st : state D) (q : list (qentry D)) := mkSt (s_limit st) (s_results st) (s_tested st) q.

    (** addResult *)
    Definition add_result (st : state D) (r : result D) : state D :=
      let st' := mkSt (s_limit st) (r :: s_results st) (s_tested st) (s_queue st) in
      if o_max_results o =? 1 then set_limit st' (sub (r_dist r) (o_max_error o)) else st'.

    (** maybeAddResult (repaired, and the unrepaired test) *)
    Definition maybe_add_result (avoid : bool) (st : state D) (e : eid) : state D :=
      if old_tested then
        if avoid && negb (mem_eid e (s_tested st)) then st
        else match t_upd_edge t e (s_limit st) with
             | Some d => add_result st (mkR d (fst e) (snd e))
             | None => st
             end
      else
        if avoid && mem_eid e (s_tested st) then st
        else
          let st1 := if avoid then mkSt (s_limit st) (s_results st) (e :: s_tested st) (s_queue st) else st in
          match t_upd_edge t e (s_limit st1) with
          | Some d => add_result st1 (mkR d (fst e) (snd e))
          | None => st1
          end.

    (** processEdges *)
    Definition process_edges (avoid : bool) (st : state D) (edges : list eid) : state D :=
      fold_left (maybe_add_result avoid) edges st.

    (** findEdgesBruteForce *)
    Definition find_edges_brute (st : state D) : state D := process_edges false st (all_edges x).

    (** processOrEnqueue; minEdgesToEnqueue = 10 *)
    Definition min_edges_to_enqueue : nat := 10.
    Definition enqueue (conservative : bool) (st : state D) (ce : centry) : state D :=
      match t_upd_cell t (fst ce) (s_limit st) with
      | None => st
      | Some d =>
        let d' := if conservative then sub d (o_max_error o) else d in
        set_queue st (heap_push (s_queue st) (mkQ d' (fst ce) (snd ce)))
      end.
    Definition process_or_enqueue (conservative avoid : bool) (st : state D) (ce : centry) : state D :=
      match snd ce with
      | Some edges =>
        if Nat.eqb (length edges) 0 then st
        else if Nat.ltb (length edges) min_edges_to_enqueue then process_edges avoid st edges
        else enqueue conservative st ce
      | None => enqueue conservative st ce
      end.

    (** one iteration of the loop of findEdgesOptimized *)
    Definition step (conservative avoid : bool) (st : state D) : state D :=
      match heap_pop (s_queue st) with
      | None => st
      | Some (en, q') =>
        if negb (less (q_dist en) (s_limit st)) then set_queue st []
        else
          let st1 := set_queue st q' in
          match q_cell en with
          | Some edges => process_edges avoid st1 edges
          | None => fold_left (process_or_enqueue conservative avoid) (split_cell x (q_id en)) st1
          end
      end.
    (** up to 2^(n+1) - 1 iterations, stopping when the queue is empty *)
    Fixpoint run (n : nat) (conservative avoid : bool) (st : state D) : state D :=
      match n with
      | O => step conservative avoid st
      | S k =>
        let st' := run k conservative avoid st in
        match s_queue st' with [] => st' | _ => run k conservative avoid st' end
      end.
    Definition run_fuel : nat := 80.

    (** initQueue: the entries handed to processOrEnqueue *)
    Definition init_entries (lim : D) : list centry :=
      let cov := init_covering x brk in
      if deqb lim dinf then cov
      else cleanup_initial x (t_initial_cells t lim) cov O None.

    Definition find_edges_optimized (conservative avoid : bool) (st : state D) : state D :=
      if t_cap_empty t then st
      else
        let '(st1, stop) :=
          if o_max_results o =? 1 then
            match locate_leaf x (t_center_leaf t) with
            | Some pos =>
              let s := process_edges avoid st (it_cell x pos) in (s, deqb (s_limit s) dzero)
            | None => (st, false)
            end
          else (st, false) in
        if stop then st1
        else
          let st2 := fold_left (process_or_enqueue conservative avoid) (init_entries (s_limit st1)) st1 in
          run run_fuel conservative avoid st2.

    (** the interior results of findEdgesInternal: visitContainingShapes stops as soon as
        maxResults distinct shapes are known *)
    Fixpoint containing_shapes (l : list Z) (acc : list Z) : list Z :=
      match l with
      | [] => acc
      | s :: rest =>
        let acc' := if existsb (Z.eqb s) acc then acc else acc ++ [s] in
        if Z.of_nat (length acc') <? o_max_results o then containing_shapes rest acc' else acc'
      end.

    (** findEdgesInternal; [qs] is (indexNumEdges, indexNumEdgesLimit). Returns the new
        [qs], whether the optimized path ran, and the final state. *)
    Definition find_edges_internal (qs : Z * Z) : (Z * Z) * bool * state D :=
      let st0 := mkSt (o_limit o) [] [] [] in
      if deqb (s_limit st0) dzero then (qs, false, st0)
      else
        let st1 :=
          if o_interiors o then
            fold_left (fun st s => add_result st (mkR dzero s (-1))) (containing_shapes (t_containing t) []) st0
          else st0 in
        if o_interiors o && deqb (s_limit st1) dzero then (qs, false, st1)
        else
          let uses := negb (deqb (o_max_error o) (d_err0 ops)) && t_uses_max_error t in
          let conservative :=
            uses && (deqb (s_limit st1) dinf || less dzero (sub (s_limit st1) (o_max_error o))) in
          let min_opt := t_max_brute t + 1 in
          let qs' :=
            if (min_opt >? snd qs) && (fst qs >=? snd qs)
            then (num_edges_up_to (x_shapes x) min_opt 0, min_opt) else qs in
          if o_brute o || (fst qs' <? min_opt) then (qs', false, find_edges_brute st1)
          else
            let avoid := uses && (o_max_results o >? 1) in
            (qs', true, find_edges_optimized conservative avoid st1).

    (** findEdges *)
    Definition truncate (l : list (result D)) : list (result D) :=
      if Z.of_nat (length l) >? o_max_results o then firstn (Z.to_nat (o_max_results o)) l else l.
    Definition find_edges_from (qs : Z * Z) : list (result D) :=
      truncate (sort_unique (rev (s_results (snd (find_edges_internal qs))))).
    Definition find_edges : list (result D) := find_edges_from (0, 0).
    Definition used_optimized : bool := snd (fst (find_edges_internal (0, 0))).
  End Core.

  (** findEdge, Distance, IsDistanceLess (options are copied and overridden per call) *)
  Definition with_max_results (o : options D) (k : Z) : options D :=
    mkOptions k (o_limit o) (o_max_error o) (o_interiors o) (o_brute o).
  Definition find_edge (o : options D) (t : target D) (x : index) (old_tested brk : bool) : result D :=
    match find_edges (with_max_results o 1) t x old_tested brk with
    | r :: _ => r
    | [] => mkR dinf (-1) (-1)
    end.
  Definition distance (o : options D) (t : target D) (x : index) : D :=
    r_dist (find_edge o t x false false).
  (** [straight] is fromChordAngle(StraightChordAngle) *)
  Definition is_distance_less (straight : D) (o : options D) (t : target D) (x : index) (limit : D) : bool :=
    let o' := mkOptions 1 limit straight (o_interiors o) (o_brute o) in
    negb (r_shape (find_edge o' t x false false) <? 0).
End Query.

Arguments find_edges {D}. Arguments find_edge {D}. Arguments distance {D}. Arguments is_distance_less {D}.
Arguments used_optimized {D}. Arguments find_edges_internal {D}. Arguments sort_unique {D}.
Arguments r_less {D}. Arguments r_eqb {D}.

