(** C18 — hand-written executable model of the loop/polygon measures of /repo/s2/loop.go,
    polygon.go and of the two functions of point_measures.go that call RobustSign
    (TurnAngle, SignedArea) or a variadic helper (PointArea).  Definitions only.

    * The orientation predicate RobustSign is a PARAMETER [rs] of every definition that
      needs it (exact arithmetic belongs to C02); the correspondence instantiates it with
      the table of the values the Go run observed ([rs_of_table]).
    * [l.Vertex(i)] is [vertex vs i] (index taken modulo the number of vertices, as in Go
      for the non-negative indices the code produces).
    * The index-level definitions are first given over an arbitrary vertex function
      [V : Z -> A] ("_gen"), exactly in the shape of the Go loops, and then instantiated;
      the theorems of Proofs/C18_*.v are proved about the generic forms.
    * [l.bound.Lng.Length()] (computed by RectBounder, property C10) enters IsNormalized
      only through the shortcut "< pi => normalized"; it is a field of the loop record
      whose value is supplied by the observer. *)
From Coq Require Import ZArith List Bool Floats.
From Geo Require Import Base.GoPrim Gen.Area.
Import ListNotations.
Local Open Scope Z_scope.

(** * Orientation sign as a parameter *)
Definition sign_fn := s2_Point -> s2_Point -> s2_Point -> Z.

(** bit-equality tests written with [if] (lazy under vm_compute, unlike [&&]) so that a table
    lookup costs one comparison per non-matching entry *)
Definition fbiteq_lazy (x y : float) : bool :=
  if PrimFloat.eqb x y then Bool.eqb (go_signbit x) (go_signbit y)
  else if go_isnan x then go_isnan y else false.

Definition pt_eqbits_lazy (p q : s2_Point) : bool :=
  let u := s2_Point_Vector p in let v := s2_Point_Vector q in
  if fbiteq_lazy (r3_Vector_X u) (r3_Vector_X v) then
    if fbiteq_lazy (r3_Vector_Y u) (r3_Vector_Y v) then fbiteq_lazy (r3_Vector_Z u) (r3_Vector_Z v)
    else false
  else false.

Definition pt3_eqbits (a b c a' b' c' : s2_Point) : bool :=
  if pt_eqbits_lazy b b' then if pt_eqbits_lazy a a' then pt_eqbits_lazy c c' else false else false.

(** observed RobustSign values; 99 (never a Direction) when the triple was not observed *)
Fixpoint rs_of_table (tab : list (s2_Point * s2_Point * s2_Point * Z)) (a b c : s2_Point) : Z :=
  match tab with
  | [] => 99
  | (a', b', c', s) :: t => if pt3_eqbits a b c a' b' c' then s else rs_of_table t a b c
  end.

(** * point_measures.go *)

(** TurnAngle: [angle := a.PointCross(b).Angle(b.PointCross(c).Vector)];
    [if RobustSign(a,b,c) == CounterClockwise { return angle }; return -angle] *)
Definition turn_angle_abs (a b c : s2_Point) : float :=
  r3_Vector_Angle (s2_Point_Vector (s2_Point_PointCross a b)) (s2_Point_Vector (s2_Point_PointCross b c)).

Definition TurnAngle (rs : sign_fn) (a b c : s2_Point) : float :=
  let angle := turn_angle_abs a b c in
  if rs a b c =? 1 then angle else PrimFloat.opp angle.

(** PointArea (l'Huilier, Girard for long skinny triangles). Returns the value and which
    formula decided (1 = Girard, 0 = l'Huilier). *)
Definition PointArea_branch (a b c : s2_Point) : float * Z :=
  let sa := s2_Point_stableAngle b c in
  let sb := s2_Point_stableAngle c a in
  let sc := s2_Point_stableAngle a b in
  let s := PrimFloat.mul (0x1p-01)%float (PrimFloat.add (PrimFloat.add sa sb) sc) in
  let lhuilier :=
    PrimFloat.mul (0x1p+02)%float (math_Atan (PrimFloat.sqrt (go_fmax (0x0p+00)%float
      (PrimFloat.mul (PrimFloat.mul (PrimFloat.mul
         (math_Tan (PrimFloat.mul (0x1p-01)%float s))
         (math_Tan (PrimFloat.mul (0x1p-01)%float (PrimFloat.sub s sa))))
         (math_Tan (PrimFloat.mul (0x1p-01)%float (PrimFloat.sub s sb))))
         (math_Tan (PrimFloat.mul (0x1p-01)%float (PrimFloat.sub s sc))))))) in
  if PrimFloat.leb (0x1.3a92a30553261p-12)%float s then
    let dmin := PrimFloat.sub s (s2_maxAngle sa [sb; sc]) in
    if PrimFloat.ltb dmin (PrimFloat.mul (PrimFloat.mul (PrimFloat.mul (PrimFloat.mul
          (PrimFloat.mul (0x1.47ae147ae147bp-07)%float s) s) s) s) s) then
      let area := s2_GirardArea a b c in
      if PrimFloat.ltb dmin (PrimFloat.mul (PrimFloat.mul s (0x1.999999999999ap-04)%float)
                                           (PrimFloat.add area (0x1.6849b86a12b9bp-48)%float))
      then (area, 1) else (lhuilier, 0)
    else (lhuilier, 0)
  else (lhuilier, 0).

Definition PointArea (a b c : s2_Point) : float := fst (PointArea_branch a b c).

(** SignedArea: [float64(RobustSign(a, b, c)) * PointArea(a, b, c)] *)
Definition SignedArea (rs : sign_fn) (a b c : s2_Point) : float :=
  PrimFloat.mul (float_of_Z (rs a b c)) (PointArea a b c).

(** * loop.go, over a vertex function *)

Definition zero_point : s2_Point := mk_s2_Point (mk_r3_Vector 0%float 0%float 0%float).

Definition vertex (vs : list s2_Point) (i : Z) : s2_Point :=
  nthZ vs (i mod Z.of_nat (length vs)) zero_point.

(** [l.Vertex(i).Cmp(l.Vertex(j).Vector) == -1] *)
Definition pt_lt (p q : s2_Point) : bool :=
  r3_Vector_Cmp (s2_Point_Vector p) (s2_Point_Vector q) =? -1.

(** CanonicalFirstVertex.
<<
  firstIdx = 0
  for i := 1; i < n; i++ { if V(i).Cmp(V(firstIdx)) == -1 { firstIdx = i } }
  if V(firstIdx+1).Cmp(V(firstIdx+n-1)) == -1 { return firstIdx, 1 }
  firstIdx += n ; return firstIdx, -1
>> *)
Definition cfv_first {A} (lt : A -> A -> bool) (n : Z) (V : Z -> A) : Z :=
  fold_left (fun f i => if lt (V i) (V f) then i else f) (zrange_up 1 n) 0.

Definition cfv_gen {A} (lt : A -> A -> bool) (n : Z) (V : Z -> A) : Z * Z :=
  let first := cfv_first lt n V in
  if lt (V (first + 1)) (V (first + n - 1)) then (first, 1) else (first + n, -1).

Definition CanonicalFirstVertex (vs : list s2_Point) : Z * Z :=
  cfv_gen pt_lt (Z.of_nat (length vs)) (vertex vs).

(** Kahan summation step of TurningAngle:
    [oldSum := sum; angle += compensation; sum += angle; compensation = (oldSum - sum) + angle] *)
Definition kahan_step (st : float * float) (angle : float) : float * float :=
  let '(sum, comp) := st in
  let angle := PrimFloat.add angle comp in
  let sum' := PrimFloat.add sum angle in
  (sum', PrimFloat.add (PrimFloat.sub sum sum') angle).

Definition maxCurvature : float := (0x1.921fb54442d17p+02)%float.  (* 2*math.Pi - 4*dblEpsilon *)

(** [math.Max(-maxCurvature, math.Min(maxCurvature, float64(dir)*float64(sum+compensation)))] *)
Definition curvature_clamp (dir : Z) (st : float * float) : float :=
  go_fmax (PrimFloat.opp maxCurvature)
          (go_fmin maxCurvature (PrimFloat.mul (float_of_Z dir) (PrimFloat.add (fst st) (snd st)))).

(** TurningAngle for a loop that is not empty/full (n = len(l.vertices)).
<<
  if n < 3 { return 0 }
  i, dir := l.CanonicalFirstVertex()
  sum := TurnAngle(V((i+n-dir)%n), V(i), V((i+dir)%n))
  compensation := 0
  for n-1 > 0 { i += dir; angle := TurnAngle(V(i-dir), V(i), V(i+dir)); <kahan step>; n-- }
>>
    The loop body runs for j = 1 .. n-1 with i = i0 + j*dir. *)
Definition turning_angle_gen {A} (lt : A -> A -> bool) (turn : A -> A -> A -> float)
    (n : Z) (V : Z -> A) : float :=
  if n <? 3 then (0x0p+00)%float else
  let '(i0, dir) := cfv_gen lt n V in
  let sum0 := turn (V ((i0 + n - dir) mod n)) (V i0) (V ((i0 + dir) mod n)) in
  let st := fold_left (fun st j => let i := i0 + j * dir in
                                   kahan_step st (turn (V (i - dir)) (V i) (V (i + dir))))
                      (zrange_up 1 n) (sum0, (0x0p+00)%float) in
  curvature_clamp dir st.

(** * Loops *)
Record loop := mk_loop {
  lp_vs : list s2_Point;
  lp_origin_inside : bool;
  lp_depth : Z;
  lp_lng_len : float      (* l.bound.Lng.Length(), observed *)
}.

Definition lp_n (l : loop) : Z := Z.of_nat (length (lp_vs l)).
Definition is_empty_or_full (l : loop) : bool := lp_n l =? 1.

Definition pi2 : float := (0x1.921fb54442d18p+02)%float.   (* 2*math.Pi *)
Definition pi4 : float := (0x1.921fb54442d18p+03)%float.   (* 4*math.Pi *)
Definition pi1 : float := (0x1.921fb54442d18p+01)%float.   (* math.Pi *)

Definition TurningAngle (rs : sign_fn) (l : loop) : float :=
  if is_empty_or_full l then (if lp_origin_inside l then PrimFloat.opp pi2 else pi2)
  else turning_angle_gen pt_lt (TurnAngle rs) (lp_n l) (vertex (lp_vs l)).

(** [11.25 * dblEpsilon * float64(len(l.vertices))] *)
Definition turningAngleMaxError (l : loop) : float :=
  PrimFloat.mul (0x1.68p-49)%float (float_of_Z (lp_n l)).

Definition IsNormalized (rs : sign_fn) (l : loop) : bool :=
  if PrimFloat.ltb (lp_lng_len l) pi1 then true
  else PrimFloat.leb (PrimFloat.opp (turningAngleMaxError l)) (TurningAngle rs l).

Definition emptyLoopPoint : s2_Point := mk_s2_Point (mk_r3_Vector (0x0p+00)%float (0x0p+00)%float (0x1p+00)%float).
Definition fullLoopPoint : s2_Point := mk_s2_Point (mk_r3_Vector (0x0p+00)%float (0x0p+00)%float (-0x1p+00)%float).

(** Invert: reverse the vertex slice (or swap the empty/full marker vertex), flip
    originInside.  The bound of the inverted loop is recomputed by Go (FullRect or
    initBound); its longitude span is passed in. *)
Definition Invert (new_lng_len : float) (l : loop) : loop :=
  let vs := if is_empty_or_full l
            then (if lp_origin_inside l then [emptyLoopPoint] else [fullLoopPoint])
            else rev (lp_vs l) in
  mk_loop vs (negb (lp_origin_inside l)) (lp_depth l) new_lng_len.

Definition maxLength : float := (0x1.921f61616cadfp+01)%float.   (* math.Pi - 1e-5 *)

(** surfaceIntegralFloat64 / surfaceIntegralPoint, generic in the accumulated type.
    State of the loop: (sum, origin). *)
Definition si_step {T} (add : T -> T -> T) (f : s2_Point -> s2_Point -> s2_Point -> T)
    (V : Z -> s2_Point) (st : T * s2_Point) (i : Z) : T * s2_Point :=
  let '(sum, origin) := st in
  let '(sum, origin) :=
    if PrimFloat.ltb maxLength (r3_Vector_Angle (s2_Point_Vector (V (i + 1))) (s2_Point_Vector origin)) then
      let oldOrigin := origin in
      let '(sum, origin) :=
        if s2_Point_eqb origin (V 0) then
          (sum, mk_s2_Point (r3_Vector_Normalize (s2_Point_Vector (s2_Point_PointCross (V 0) (V i)))))
        else if PrimFloat.ltb (r3_Vector_Angle (s2_Point_Vector (V i)) (s2_Point_Vector (V 0))) maxLength then
          (sum, V 0)
        else
          let origin := mk_s2_Point (r3_Vector_Cross (s2_Point_Vector (V 0)) (s2_Point_Vector oldOrigin)) in
          (add sum (f (V 0) oldOrigin origin), origin) in
      (add sum (f oldOrigin (V i) origin), origin)
    else (sum, origin) in
  (add sum (f origin (V i) (V (i + 1))), origin).

Definition surface_integral_gen {T} (add : T -> T -> T) (zero : T)
    (f : s2_Point -> s2_Point -> s2_Point -> T) (n : Z) (V : Z -> s2_Point) : T :=
  let '(sum, origin) := fold_left (si_step add f V) (zrange_up 1 (n - 1)) (zero, V 0) in
  if negb (s2_Point_eqb origin (V 0)) then add sum (f origin (V (n - 1)) (V 0)) else sum.

Definition surfaceIntegralFloat64 (f : s2_Point -> s2_Point -> s2_Point -> float) (l : loop) : float :=
  surface_integral_gen PrimFloat.add (0x0p+00)%float f (lp_n l) (vertex (lp_vs l)).

Definition surfaceIntegralPoint (f : s2_Point -> s2_Point -> s2_Point -> s2_Point) (l : loop) : s2_Point :=
  mk_s2_Point (surface_integral_gen r3_Vector_Add (mk_r3_Vector 0%float 0%float 0%float)
                 (fun a b c => s2_Point_Vector (f a b c)) (lp_n l) (vertex (lp_vs l))).

(** Area's decision logic on the raw signed integral [raw], the error bound and the
    (lazily evaluated) IsNormalized answer.  Branch tags:
    0 = raw area kept (after the 4*pi wrap/clamps), 1 = "< maxError and not normalized => 4*pi",
    2 = "> 4*pi - maxError and normalized => 0". *)
Definition area_decide (raw maxError : float) (normalized : bool) : float * Z :=
  let area := raw in
  let area := if PrimFloat.ltb area (0x0p+00)%float then PrimFloat.add area pi4 else area in
  let area := if PrimFloat.ltb pi4 area then pi4 else area in
  let area := if PrimFloat.ltb area (0x0p+00)%float then (0x0p+00)%float else area in
  if PrimFloat.ltb area maxError && negb normalized then (pi4, 1)
  else if PrimFloat.ltb (PrimFloat.sub pi4 maxError) area && normalized then ((0x0p+00)%float, 2)
  else (area, 0).

Definition Area_branch (rs : sign_fn) (l : loop) : float * Z :=
  if is_empty_or_full l then ((if lp_origin_inside l then pi4 else (0x0p+00)%float), 3)
  else area_decide (surfaceIntegralFloat64 (SignedArea rs) l) (turningAngleMaxError l) (IsNormalized rs l).

Definition Area (rs : sign_fn) (l : loop) : float := fst (Area_branch rs l).

Definition Centroid (l : loop) : s2_Point := surfaceIntegralPoint s2_TrueCentroid l.

(** IsHole / Sign *)
Definition IsHole (l : loop) : bool := Z.odd (lp_depth l).   (* depth&1 != 0 *)
Definition Sign (l : loop) : Z := if IsHole l then -1 else 1.

(** * polygon.go *)
(** [for _, loop := range p.loops { area += float64(loop.Sign()) * loop.Area() }] *)
Definition PolygonArea (rs : sign_fn) (loops : list loop) : float :=
  fold_left (fun area l => PrimFloat.add area (PrimFloat.mul (float_of_Z (Sign l)) (Area rs l)))
            loops (0x0p+00)%float.

(** [if loop.Sign() < 0 { u = u.Sub(v) } else { u = u.Add(v) }] *)
Definition PolygonCentroid (loops : list loop) : s2_Point :=
  mk_s2_Point (fold_left (fun u l => let v := s2_Point_Vector (Centroid l) in
                                     if Sign l <? 0 then r3_Vector_Sub u v else r3_Vector_Add u v)
                         loops (mk_r3_Vector 0%float 0%float 0%float)).
