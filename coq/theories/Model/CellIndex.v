(** Executable model of s2/cell_index.go.  Definitions only.
    - a cell-tree node is [(cellID, label, parent)], a range node [(startID, contents)];
      slices are lists, indices are [Z];
    - [Build]: the deltas [(startID, cellID, label)] are sorted with the comparator of the
      Go source (a total order on the triples, so the result of sort.Slice is unique) and
      walked by [build_walk], which mirrors the two nested loops: every delta is applied,
      and a range node is emitted after the last delta of each startID;
    - the range iterator is its position [pos] (and the [nonEmpty] flag);
    - the contents iterator is [(nodeCutoff, nextNodeCutoff, prevStartID, node)].
    Loops that are not structural carry fuel bounded by the slice length. *)
From Coq Require Import ZArith List Bool.
From Geo Require Import Base.GoPrim Gen.CellID Model.CellUnion.
Import ListNotations.
Local Open Scope Z_scope.
Local Open Scope bool_scope.

Definition node := (Z * Z * Z)%type.          (* cellID, label, parent *)
Definition n_cell (n : node) : Z := fst (fst n).
Definition n_label (n : node) : Z := snd (fst n).
Definition n_parent (n : node) : Z := snd n.
Definition rnode := (Z * Z)%type.             (* startID, contents *)
Definition delta := (Z * Z * Z)%type.         (* startID, cellID, label *)
Definition d_start (d : delta) : Z := fst (fst d).
Definition d_cell (d : delta) : Z := snd (fst d).
Definition d_label (d : delta) : Z := snd d.

Definition SentinelCellID : Z := 18446744073709551615.   (* ^uint64(0) *)
Definition doneContents : Z := -1.                        (* cellIndexDoneContents *)
Definition default_node : node := (0, -1, -1).            (* newCellIndexNode *)

Definition nth_node (tree : list node) (i : Z) : node := nthZ tree i default_node.
Definition nth_rnode (rs : list rnode) (i : Z) : rnode := nthZ rs i (0, -1).

(** * Build *)
(** the comparator of sort.Slice: by startID, then by cellID descending, then by label *)
Definition delta_less (a b : delta) : bool :=
  if negb (d_start a =? d_start b) then d_start a <? d_start b
  else if negb (d_cell a =? d_cell b) then d_cell b <? d_cell a
  else d_label a <? d_label b.
Fixpoint insert_delta (x : delta) (l : list delta) : list delta :=
  match l with
  | [] => [x]
  | y :: t => if delta_less y x then y :: insert_delta x t else x :: l
  end.
Definition sort_deltas (l : list delta) : list delta := fold_right insert_delta [] l.

Definition first_leaf : Z := s2_CellID_ChildBeginAtLevel (s2_CellIDFromFace 0) 30.
Definition end_leaf : Z := s2_CellID_ChildEndAtLevel (s2_CellIDFromFace 5) 30.

(** the two deltas of one added (cellID, label) pair *)
Definition deltas_of (p : Z * Z) : list delta :=
  let '(c, l) := p in
  [ (s2_CellID_RangeMin c, c, l);
    (s2_CellID_Next (s2_CellID_RangeMax c), SentinelCellID, -1) ].
Definition all_deltas (adds : list (Z * Z)) : list delta :=
  flat_map deltas_of adds ++ [ (first_leaf, 0, -1); (end_leaf, 0, -1) ].

(** the body of the inner loop *)
Definition nlen (tree : list node) : Z := Z.of_nat (length tree).
Definition apply_delta (d : delta) (tree : list node) (contents : Z) : list node * Z :=
  if 0 <=? d_label d then (tree ++ [(d_cell d, d_label d, contents)], nlen tree)
  else if d_cell d =? SentinelCellID then (tree, n_parent (nth_node tree contents))
  else (tree, contents).

Fixpoint build_walk (ds : list delta) (tree : list node) (contents : Z) : list node * list rnode :=
  match ds with
  | [] => (tree, [])
  | d :: rest =>
      let '(tree', contents') := apply_delta d tree contents in
      match rest with
      | d2 :: _ =>
          if d_start d2 =? d_start d then build_walk rest tree' contents'
          else let '(t, rs) := build_walk rest tree' contents' in (t, (d_start d, contents') :: rs)
      | [] => (tree', [(d_start d, contents')])
      end
  end.

(** Add ...; Build: [adds] are the (cellID, label) pairs in the order they were added *)
Definition ci_Build (adds : list (Z * Z)) : list node * list rnode :=
  build_walk (sort_deltas (all_deltas adds)) [] (-1).

(** * CellIndexRangeIterator *)
Section RangeIter.
  Variable rs : list rnode.
  Variable nonEmpty : bool.
  Let n := Z.of_nat (length rs).

  Definition ri_StartID (pos : Z) : Z := fst (nth_rnode rs pos).
  Definition ri_LimitID (pos : Z) : Z := fst (nth_rnode rs (pos + 1)).
  Definition ri_contents (pos : Z) : Z := snd (nth_rnode rs pos).
  Definition ri_IsEmpty (pos : Z) : bool := ri_contents pos =? doneContents.
  Definition ri_Done (pos : Z) : bool := n - 1 <=? pos.

  (** [for c.nonEmpty && c.IsEmpty() && !c.Done() { c.pos++ }] *)
  Fixpoint ri_skip (fuel : nat) (pos : Z) : Z :=
    match fuel with
    | O => pos
    | S k => if nonEmpty && ri_IsEmpty pos && negb (ri_Done pos) then ri_skip k (pos + 1) else pos
    end.
  Definition ri_Begin : Z := ri_skip (length rs) 0.
  Definition ri_Next (pos : Z) : Z := ri_skip (length rs) (pos + 1).
  Definition ri_Finish : Z := n - 1.
  Definition ri_Advance (pos k : Z) : Z * bool := if n - 1 - pos <=? k then (pos, false) else (pos + k, true).
  Definition ri_prev (pos : Z) : Z * bool := if pos =? 0 then (pos, false) else (pos - 1, true).
  (** [for c.prev() { if !c.IsEmpty() { return true } }; if c.IsEmpty() && !c.Done() { c.Next() }; return false] *)
  Fixpoint ri_nonEmptyPrev_loop (fuel : nat) (pos : Z) : Z * bool :=
    match fuel with
    | O => (pos, false)
    | S k => let '(p, ok) := ri_prev pos in
             if ok then (if negb (ri_IsEmpty p) then (p, true) else ri_nonEmptyPrev_loop k p)
             else ((if ri_IsEmpty p && negb (ri_Done p) then ri_Next p else p), false)
    end.
  Definition ri_Prev (pos : Z) : Z * bool :=
    if nonEmpty then ri_nonEmptyPrev_loop (S (length rs)) pos else ri_prev pos.
  Definition ri_Seek (target : Z) : Z :=
    let p := sort_Search n (fun i => target <? fst (nth_rnode rs i)) - 1 in
    let p := if p <? 0 then 0 else p in
    ri_skip (length rs) p.
End RangeIter.

(** * CellIndexContentsIterator *)
Record citer := mk_citer { ci_cutoff : Z; ci_nextCutoff : Z; ci_prevStart : Z; ci_node : node }.
Definition ci_new : citer := mk_citer (-1) (-1) 0 (0, doneContents, 0).
Definition set_label (nd : node) (l : Z) : node := (n_cell nd, l, n_parent nd).
Definition ci_Clear (c : citer) : citer := mk_citer (-1) (-1) 0 (set_label (ci_node c) doneContents).
Definition ci_Done (c : citer) : bool := n_label (ci_node c) =? doneContents.
Definition ci_CellID (c : citer) : Z := n_cell (ci_node c).
Definition ci_Label (c : citer) : Z := n_label (ci_node c).
Definition ci_Next (tree : list node) (c : citer) : citer :=
  if n_parent (ci_node c) <=? ci_cutoff c
  then mk_citer (ci_nextCutoff c) (ci_nextCutoff c) (ci_prevStart c) (set_label (ci_node c) doneContents)
  else mk_citer (ci_cutoff c) (ci_nextCutoff c) (ci_prevStart c) (nth_node tree (n_parent (ci_node c))).
Definition ci_StartUnion (tree : list node) (rs : list rnode) (pos : Z) (c : citer) : citer :=
  let start := ri_StartID rs pos in
  let cutoff := if start <? ci_prevStart c then -1 else ci_cutoff c in
  let contents := ri_contents rs pos in
  let nd := if contents <=? cutoff then set_label (ci_node c) doneContents else nth_node tree contents in
  mk_citer cutoff contents start nd.
(** [for ; !it.Done(); it.Next() { report(it.CellID(), it.Label()) }] *)
Fixpoint ci_drain (fuel : nat) (tree : list node) (c : citer) : list (Z * Z) * citer :=
  match fuel with
  | O => ([], c)
  | S k => if ci_Done c then ([], c)
           else let '(l, c') := ci_drain k tree (ci_Next tree c) in ((ci_CellID c, ci_Label c) :: l, c')
  end.
(** StartUnion on the range at [pos], then read everything *)
Definition ci_visit (tree : list node) (rs : list rnode) (c : citer) (pos : Z) : list (Z * Z) * citer :=
  ci_drain (S (length tree)) tree (ci_StartUnion tree rs pos c).
(** one shared iterator over a sequence of ranges: the reports of each visit *)
Fixpoint ci_sweep (tree : list node) (rs : list rnode) (c : citer) (poss : list Z) : list (list (Z * Z)) :=
  match poss with
  | [] => []
  | p :: t => let '(l, c') := ci_visit tree rs c p in l :: ci_sweep tree rs c' t
  end.

(** * Histories (for the correspondence) *)
Inductive ri_op := OpBegin | OpNext | OpPrev | OpSeek (target : Z) | OpFinish | OpAdvance (k : Z).
(** after every operation: the position, the returned bool (true when the operation returns nothing) *)
Fixpoint ri_run (rs : list rnode) (nonEmpty : bool) (pos : Z) (ops : list ri_op) : list (Z * bool) :=
  match ops with
  | [] => []
  | op :: t =>
      let '(p, b) := match op with
                     | OpBegin => (ri_Begin rs nonEmpty, true)
                     | OpNext => (ri_Next rs nonEmpty pos, true)
                     | OpPrev => ri_Prev rs nonEmpty pos
                     | OpSeek target => (ri_Seek rs nonEmpty target, true)
                     | OpFinish => (ri_Finish rs, true)
                     | OpAdvance k => ri_Advance rs pos k
                     end in
      (p, b) :: ri_run rs nonEmpty p t
  end.
Inductive ci_op := CVisit (pos : Z) | CClear.
(** the reports of every visit (Clear contributes an empty list) *)
Fixpoint ci_run (tree : list node) (rs : list rnode) (c : citer) (ops : list ci_op) : list (list (Z * Z)) :=
  match ops with
  | [] => []
  | CVisit p :: t => let '(l, c') := ci_visit tree rs c p in l :: ci_run tree rs c' t
  | CClear :: t => [] :: ci_run tree rs (ci_Clear c) t
  end.

Definition pair_eqb (a b : Z * Z) : bool := (fst a =? fst b) && (snd a =? snd b).
Definition node_eqb (a b : node) : bool := (n_cell a =? n_cell b) && (n_label a =? n_label b) && (n_parent a =? n_parent b).
Definition build_eqb (x y : list node * list rnode) : bool :=
  list_eqb node_eqb (fst x) (fst y) && list_eqb pair_eqb (snd x) (snd y).
Definition posb_eqb (a b : Z * bool) : bool := (fst a =? fst b) && Bool.eqb (snd a) (snd b).
Definition reports_eqb (x y : list (list (Z * Z))) : bool := list_eqb (list_eqb pair_eqb) x y.
