(** Hand model of the table construction in s2/cellid.go: [init] + [initLookupCell].
    Go fills the package-level arrays [lookupPos]/[lookupIJ] (1024 ints each) by a
    recursive function at init time; the translator cannot take that (recursion, assignment
    to package-level state), so it is re-executed here over the *translated* literal
    tables [s2_posToIJ]/[s2_posToOrientation] (Gen.CellIDTab, regenerated from /repo on
    every run).  The resulting lists are what the translated functions
    [s2_cellIDFromFaceIJ]/[s2_CellID_faceIJOrientation] (Gen.CellIDFull) index into
    (cfg directive [extern]).  Tie to Go: the C01 observer compares all 2x1024 entries
    with the arrays of the running implementation.  Definitions only. *)
From Coq Require Import ZArith List.
From Geo Require Import Base.GoPrim Gen.CellIDTab.
Import ListNotations.
Local Open Scope Z_scope.

Definition lookupBits : Z := 4.
Definition swapMask : Z := 1.
Definition invertMask : Z := 2.

(** (lookupPos, lookupIJ) *)
Definition tables := (list Z * list Z)%type.

(** func initLookupCell(level, i, j, origOrientation, pos, orientation int);
    [fuel] bounds the recursion depth (the Go recursion stops at level == lookupBits). *)
Fixpoint initLookupCell (fuel : nat) (level i j origOrientation pos orientation : Z) (t : tables) : tables :=
  if level =? lookupBits then
    let ij := Z.shiftl i lookupBits + j in
    (updZ (fst t) (Z.shiftl ij 2 + origOrientation) (Z.shiftl pos 2 + orientation),
     updZ (snd t) (Z.shiftl pos 2 + origOrientation) (Z.shiftl ij 2 + orientation))
  else match fuel with
  | O => t
  | S fuel' =>
    let level := level + 1 in
    let i := Z.shiftl i 1 in
    let j := Z.shiftl j 1 in
    let pos := Z.shiftl pos 2 in
    let r := nthZ s2_posToIJ orientation [] in
    let call k t :=
      initLookupCell fuel' level (i + Z.shiftr (nthZ r k 0) 1) (j + Z.land (nthZ r k 0) 1)
        origOrientation (pos + k) (Z.lxor orientation (nthZ s2_posToOrientation k 0)) t in
    call 3 (call 2 (call 1 (call 0 t)))
  end.

(** func init() *)
Definition init_tables : tables :=
  let z := repeat 0 1024 in
  let t := initLookupCell 4 0 0 0 0 0 0 (z, z) in
  let t := initLookupCell 4 0 0 0 swapMask 0 swapMask t in
  let t := initLookupCell 4 0 0 0 invertMask 0 invertMask t in
  initLookupCell 4 0 0 0 (Z.lor swapMask invertMask) 0 (Z.lor swapMask invertMask) t.

(** The arrays as the translated code sees them (normal forms of the re-execution above,
    recomputed by [make] whenever Gen/CellIDTab.v changes). *)
Definition s2_lookupPos : list Z := Eval vm_compute in fst init_tables.
Definition s2_lookupIJ : list Z := Eval vm_compute in snd init_tables.
