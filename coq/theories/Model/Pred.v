(** Hand-written executable model of the parts of s2/predicates.go the translator
    cannot take (pointer swaps in exactSign's sort, math/big arithmetic).
    Definitions only; proofs are in Proofs/C02_*.v.

    The float stages (triageSign, stableSign, triageCompare*, cosDistance,
    sin2Distance, symbolicCompareDistances, triageSignDotProd, Sign) and all of
    r3.Vector are NOT here: they are translated from the Go source on every run
    (Gen/R3.v, Gen/Pred.v) and used below under their generated names.

    Exact stages: r3.PreciseVector = [pvec] (three [dyadic]s, Base/Exact.v);
    big.Float operations at MaxPrec are the exact operations (modelled, not verified:
    see Base/Exact.v). Directions / comparison results are [Z] in {-1,0,1}.

    Interface for later models (edge crossing, containment, relations):
      [robust_sign a b c]            s2.RobustSign
      [expensive_sign a b c]         s2.expensiveSign
      [exact_sign a b c]             s2.exactSign(a,b,c,true); [exact_sign_gen] with the perturb flag
      [sym_perturbed_sign]           s2.symbolicallyPerturbedSign
      [robust_sign_stage]            which stage decided (1 triage, 2 identical, 3 stable, 4 exact det, 5 symbolic)
      [compare_distances x a b]      s2.CompareDistances  (+ [compare_distances_stage])
      [compare_distance x y r]       s2.CompareDistance (r = the ChordAngle as float64)
      [sign_dot_prod a b]            s2.SignDotProd
      [ordered_ccw a b c o]          s2.OrderedCCW
      [pvec] [pv_of_vector] [pv_of_point] [pv_dot] [pv_cross] [pv_norm2] [pv_sub] [pv_add]
      [sort3]                        the three compare-exchange steps with the permutation sign *)
From Coq Require Import ZArith List Bool Floats.
From Geo Require Import Base.GoPrim Base.Exact Gen.R3 Gen.S2Pred.
Import ListNotations.
Local Open Scope Z_scope.

(** * r3.PreciseVector *)
Record pvec := mk_pvec { pv_X : dyadic; pv_Y : dyadic; pv_Z : dyadic }.

Definition pv_of_vector (v : r3_Vector) : pvec :=
  mk_pvec (of_float (r3_Vector_X v)) (of_float (r3_Vector_Y v)) (of_float (r3_Vector_Z v)).
Definition pv_of_point (p : s2_Point) : pvec := pv_of_vector (s2_Point_Vector p).

(** PreciseVector.Dot: precAdd(X*X', precAdd(Y*Y', Z*Z')) *)
Definition pv_dot (v o : pvec) : dyadic :=
  dadd (dmul (pv_X v) (pv_X o)) (dadd (dmul (pv_Y v) (pv_Y o)) (dmul (pv_Z v) (pv_Z o))).
Definition pv_cross (v o : pvec) : pvec :=
  mk_pvec (dsub (dmul (pv_Y v) (pv_Z o)) (dmul (pv_Z v) (pv_Y o)))
          (dsub (dmul (pv_Z v) (pv_X o)) (dmul (pv_X v) (pv_Z o)))
          (dsub (dmul (pv_X v) (pv_Y o)) (dmul (pv_Y v) (pv_X o))).
Definition pv_norm2 (v : pvec) : dyadic := pv_dot v v.
Definition pv_add (v o : pvec) : pvec :=
  mk_pvec (dadd (pv_X v) (pv_X o)) (dadd (pv_Y v) (pv_Y o)) (dadd (pv_Z v) (pv_Z o)).
Definition pv_sub (v o : pvec) : pvec :=
  mk_pvec (dsub (pv_X v) (pv_X o)) (dsub (pv_Y v) (pv_Y o)) (dsub (pv_Z v) (pv_Z o)).
Definition pv_is_zero (v : pvec) : bool :=
  (dsgn (pv_X v) =? 0) && (dsgn (pv_Y v) =? 0) && (dsgn (pv_Z v) =? 0).

(** finite coordinates (the guard of every theorem about the exact stages) *)
Definition finite_vec (v : r3_Vector) : bool :=
  ffinite (r3_Vector_X v) && ffinite (r3_Vector_Y v) && ffinite (r3_Vector_Z v).
Definition finite_pt (p : s2_Point) : bool := finite_vec (s2_Point_Vector p).

(** * symbolicallyPerturbedSign, test by test.
    [TRY s ELSE k] is Go's  detSign = s; if detSign != 0 { return detSign }; k  *)
Notation "'TRY' s 'ELSE' k" := (let x := s in if Z.eqb x 0 then k else x)
  (at level 200, s at level 100, k at level 200, only parsing).

Definition sym_perturbed_sign (a b c bxc : pvec) : Z :=
  TRY dsgn (pv_Z bxc) ELSE                                                   (* da.Z *)
  TRY dsgn (pv_Y bxc) ELSE                                                   (* da.Y *)
  TRY dsgn (pv_X bxc) ELSE                                                   (* da.X *)
  TRY dsgn (dsub (dmul (pv_X c) (pv_Y a)) (dmul (pv_Y c) (pv_X a))) ELSE     (* db.Z *)
  TRY dsgn (pv_X c) ELSE                                                     (* db.Z * da.Y *)
  TRY - dsgn (pv_Y c) ELSE                                                   (* db.Z * da.X *)
  TRY dsgn (dsub (dmul (pv_Z c) (pv_X a)) (dmul (pv_X c) (pv_Z a))) ELSE     (* db.Y *)
  TRY dsgn (pv_Z c) ELSE                                                     (* db.Y * da.X *)
  (* db.X skipped as in the Go code: C == (0,0,0) here *)
  TRY dsgn (dsub (dmul (pv_X a) (pv_Y b)) (dmul (pv_Y a) (pv_X b))) ELSE     (* dc.Z *)
  TRY - dsgn (pv_X b) ELSE                                                   (* dc.Z * da.Y *)
  TRY dsgn (pv_Y b) ELSE                                                     (* dc.Z * da.X *)
  TRY dsgn (pv_X a) ELSE                                                     (* dc.Z * db.Y *)
  1.                                                                         (* dc.Z * db.Y * da.X *)

(** which of the 13 tests decided (1..12), 13 = the final CounterClockwise; for coverage reports *)
Definition sym_perturbed_branch (a b c bxc : pvec) : Z :=
  let nz d := negb (dsgn d =? 0) in
  if nz (pv_Z bxc) then 1 else if nz (pv_Y bxc) then 2 else if nz (pv_X bxc) then 3 else
  if nz (dsub (dmul (pv_X c) (pv_Y a)) (dmul (pv_Y c) (pv_X a))) then 4 else
  if nz (pv_X c) then 5 else if nz (pv_Y c) then 6 else
  if nz (dsub (dmul (pv_Z c) (pv_X a)) (dmul (pv_X c) (pv_Z a))) then 7 else
  if nz (pv_Z c) then 8 else
  if nz (dsub (dmul (pv_X a) (pv_Y b)) (dmul (pv_Y a) (pv_X b))) then 9 else
  if nz (pv_X b) then 10 else if nz (pv_Y b) then 11 else if nz (pv_X a) then 12 else 13.

(** * exactSign *)
(** one compare-exchange of exactSign's sort: if p.Cmp(q) > 0 { p, q = q, p; permSign = -permSign } *)
Definition cmp_gt (p q : s2_Point) : bool :=
  0 <? r3_Vector_Cmp (s2_Point_Vector p) (s2_Point_Vector q).
(** the sort of exactSign: (pa, pb, pc, permSign) *)
Definition sort3 (a b c : s2_Point) : s2_Point * s2_Point * s2_Point * Z :=
  let '(pa, pb, s) := if cmp_gt a b then (b, a, -1) else (a, b, 1) in
  let '(pb, pc, s) := if cmp_gt pb c then (c, pb, - s) else (pb, c, s) in
  let '(pa, pb, s) := if cmp_gt pa pb then (pb, pa, - s) else (pa, pb, s) in
  (pa, pb, pc, s).

(** sign for a triple that is already in sorted order: exact determinant, then the table *)
Definition sorted_sign (perturb : bool) (pa pb pc : s2_Point) : Z :=
  let xa := pv_of_point pa in
  let xb := pv_of_point pb in
  let xc := pv_of_point pc in
  let bxc := pv_cross xb xc in
  let det := pv_dot xa bxc in
  let ds := dsgn det in
  if (ds =? 0) && perturb then sym_perturbed_sign xa xb xc bxc else ds.

Definition exact_sign_gen (a b c : s2_Point) (perturb : bool) : Z :=
  let '(pa, pb, pc, s) := sort3 a b c in s * sorted_sign perturb pa pb pc.
Definition exact_sign (a b c : s2_Point) : Z := exact_sign_gen a b c true.

(** the exact determinant sign alone (exactSign with perturb = false) *)
Definition exact_det_sign (a b c : s2_Point) : Z := exact_sign_gen a b c false.

Definition expensive_sign (a b c : s2_Point) : Z :=
  if s2_Point_eqb a b || s2_Point_eqb b c || s2_Point_eqb c a then 0 else
  let s := s2_stableSign a b c in
  if negb (s =? 0) then s else exact_sign a b c.

Definition robust_sign (a b c : s2_Point) : Z :=
  let s := s2_triageSign a b c in
  if s =? 0 then expensive_sign a b c else s.

(** 1 triage, 2 identical points, 3 stable, 4 exact determinant, 5 symbolic perturbation *)
Definition robust_sign_stage (a b c : s2_Point) : Z :=
  if negb (s2_triageSign a b c =? 0) then 1 else
  if s2_Point_eqb a b || s2_Point_eqb b c || s2_Point_eqb c a then 2 else
  if negb (s2_stableSign a b c =? 0) then 3 else
  if negb (exact_det_sign a b c =? 0) then 4 else 5.

(** s2.OrderedCCW *)
Definition ordered_ccw (a b c o : s2_Point) : bool :=
  let sum := 0 in
  let sum := if negb (robust_sign b o a =? (-1)) then sum + 1 else sum in
  let sum := if negb (robust_sign c o b =? (-1)) then sum + 1 else sum in
  let sum := if robust_sign a o c =? 1 then sum + 1 else sum in
  2 <=? sum.

(** * Distance comparisons *)
Definition exact_compare_distances (x a b : pvec) : Z :=
  let cosAX := pv_dot x a in
  let cosBX := pv_dot x b in
  let aSign := dsgn cosAX in
  let bSign := dsgn cosBX in
  if negb (aSign =? bSign) then (if bSign <? aSign then -1 else 1) else
  let cosAX2 := dmul cosAX cosAX in
  let cosBX2 := dmul cosBX cosBX in
  let cmp := dsub (dmul cosBX2 (pv_norm2 a)) (dmul cosAX2 (pv_norm2 b)) in
  aSign * dsgn cmp.

(** float64(1/math.Sqrt2) *)
Definition inv_sqrt2 : float := 0x1.6a09e667f3bcdp-1%float.

Definition compare_distances_stage_sign (x a b : s2_Point) : Z * Z :=
  let sign := s2_triageCompareCosDistances x a b in
  if negb (sign =? 0) then (1, sign) else
  if s2_Point_eqb a b then (2, 0) else
  let cosAX := r3_Vector_Dot (s2_Point_Vector a) (s2_Point_Vector x) in
  let sign :=
    if PrimFloat.ltb inv_sqrt2 cosAX then s2_triageCompareSin2Distances x a b
    else if PrimFloat.ltb cosAX (PrimFloat.opp inv_sqrt2) then - s2_triageCompareSin2Distances x a b
    else 0 in
  if negb (sign =? 0) then (3, sign) else
  let sign := exact_compare_distances (pv_of_point x) (pv_of_point a) (pv_of_point b) in
  if negb (sign =? 0) then (4, sign) else
  (5, s2_symbolicCompareDistances x a b).
(** 1 cos triage, 2 a == b, 3 sin^2 triage, 4 exact, 5 symbolic *)
Definition compare_distances (x a b : s2_Point) : Z := snd (compare_distances_stage_sign x a b).
Definition compare_distances_stage (x a b : s2_Point) : Z := fst (compare_distances_stage_sign x a b).

(** exact tail of CompareDistances, independent of the float stages *)
Definition exact_compare_distances_full (x a b : s2_Point) : Z :=
  let sign := exact_compare_distances (pv_of_point x) (pv_of_point a) (pv_of_point b) in
  if negb (sign =? 0) then sign else s2_symbolicCompareDistances x a b.

Definition exact_compare_distance (x y : pvec) (r2 : dyadic) : Z :=
  let cosXY := pv_dot x y in
  let cosR := dsub done (dmul dhalf r2) in
  let xySign := dsgn cosXY in
  let rSign := dsgn cosR in
  if negb (xySign =? rSign) then (if rSign <? xySign then -1 else 1) else
  let cmp := dsub (dmul (dmul cosR cosR) (dmul (pv_norm2 x) (pv_norm2 y))) (dmul cosXY cosXY) in
  xySign * dsgn cmp.

(** float64 value of the package variable ca45Degrees = ChordAngleFromSquaredLength(2 - math.Sqrt2) *)
Definition ca45Degrees : float := 0x1.2bec333018867p-1%float.

Definition compare_distance_stage_sign (x y : s2_Point) (r : float) : Z * Z :=
  let sign := s2_triageCompareCosDistance x y r in
  if negb (sign =? 0) then (1, sign) else
  let sign := if PrimFloat.ltb r ca45Degrees then s2_triageCompareSin2Distance x y r else 0 in
  if negb (sign =? 0) then (3, sign) else
  (4, exact_compare_distance (pv_of_point x) (pv_of_point y) (of_float r)).
Definition compare_distance (x y : s2_Point) (r : float) : Z := snd (compare_distance_stage_sign x y r).
Definition compare_distance_stage (x y : s2_Point) (r : float) : Z := fst (compare_distance_stage_sign x y r).

Definition exact_sign_dot_prod (a b : s2_Point) : Z := dsgn (pv_dot (pv_of_point a) (pv_of_point b)).
Definition sign_dot_prod (a b : s2_Point) : Z :=
  let sign := s2_triageSignDotProd a b in
  if negb (sign =? 0) then sign else exact_sign_dot_prod a b.

(** * Observable tuples for the correspondence files (one case per input tuple) *)
Definition zlist_eqb : list Z -> list Z -> bool := list_eqb Z.eqb.
Definition sign_stages (a b c : s2_Point) : list Z :=
  [s2_triageSign a b c; s2_stableSign a b c; exact_det_sign a b c; exact_sign a b c;
   expensive_sign a b c; robust_sign a b c; robust_sign_stage a b c].
Definition sym_stages (a b c : s2_Point) : list Z :=
  let xa := pv_of_point a in let xb := pv_of_point b in let xc := pv_of_point c in
  [sym_perturbed_sign xa xb xc (pv_cross xb xc); sym_perturbed_branch xa xb xc (pv_cross xb xc)].
Definition cd_stages (x a b : s2_Point) : list Z :=
  [s2_triageCompareCosDistances x a b; s2_triageCompareSin2Distances x a b;
   exact_compare_distances (pv_of_point x) (pv_of_point a) (pv_of_point b);
   s2_symbolicCompareDistances x a b; compare_distances x a b; compare_distances_stage x a b].
Definition cd1_stages (x y : s2_Point) (r : float) : list Z :=
  [s2_triageCompareCosDistance x y r; s2_triageCompareSin2Distance x y r;
   compare_distance x y r; compare_distance_stage x y r].
Definition dot_stages (a b : s2_Point) : list Z :=
  [s2_triageSignDotProd a b; exact_sign_dot_prod a b; sign_dot_prod a b].
