(** Model/Conc.v — C14. Small-step interleaving semantics of N reader goroutines running the
    lazy-update protocol of s2.ShapeIndex.maybeApplyUpdates AS IT IS in /repo:

        L0 (Loop.ContainsPoint only)  IsFresh(): atomic load; outside the bound and stale => return false
        L1  atomic.LoadInt32(&s.status); fresh => goto R
        L2  s.mu.Lock()
        L3  s.applyUpdatesInternal()      -- writes cellMap/cells iff something is pending
        L3w   ... the write in progress (it is long and NOT atomic: other goroutines move meanwhile)
        L4  atomic.StoreInt32(&s.status, fresh)
        L5  s.mu.Unlock()
        R   return; the query reads cells/cellMap WITHOUT the lock
        Rd    ... the read in progress (long, not atomic)

    There is NO re-check of the status under the lock: a goroutine that saw "stale" and then
    waited for the lock runs applyUpdatesInternal again; as repaired (5701870) that call returns
    at once when nothing is pending.

    Happens-before is abstracted by versions: [built] counts the writes of the cell map; every
    goroutine carries [seen], the latest version that happens-before its current point. An atomic
    store publishes the writer's [seen] in [smsg], an atomic load that observes that store joins
    it; Unlock/Lock likewise through [mmsg] (Go memory model: a load observing a store is
    synchronized after it; the n-th Unlock is synchronized before the n+1-th Lock returns).

    ASSUMPTION "query entry points perform no unlocked writes to shared state": the only shared
    locations the model knows are the status word, the mutex, the pending bookkeeping and the cell
    map. That Loop/Polygon/ShapeIndex accessors and the query code write NOTHING else that is
    shared (no memo fields such as a "last loop" hint in Polygon.Edge, no lazily filled caches
    outside maybeApplyUpdates) is NOT a theorem here: it is exactly what the observer's -race run
    and serial-answer comparison (shared loops, polygons with more than 12 loops, indexes; built
    and unbuilt) and its cell-map write counters check on every run.

    What the model further ASSUMES about the code: pendingAdditionsPos and pendingRemovals are read and
    written only between Lock and Unlock (applyUpdatesInternal; the early return for "nothing
    pending" writes neither); the shapes map and the vertices are not written while readers run
    (read-only use); Add/Remove/Reset are not concurrent with queries. Definitions only. *)
From Coq Require Import List Bool Arith.
Import ListNotations.

Inductive pc := L0 | L1 | L2 | L3 | L3w | L4 | L5 | R | Rd | Done.

Definition pc_eqb (a b : pc) : bool :=
  match a, b with
  | L0, L0 | L1, L1 | L2, L2 | L3, L3 | L3w, L3w | L4, L4 | L5, L5 | R, R | Rd, Rd | Done, Done => true
  | _, _ => false
  end.

Record thread := mkT {
  tpc   : pc;
  seen  : nat;        (* latest cell-map version that happens-before this point *)
  todo  : nat;        (* further passes through the protocol after this one *)
  entry : pc;         (* L0 (Loop.ContainsPoint) or L1 (everything else) *)
  early : bool;       (* L0 only: the point is outside the loop's bound *)
  reads : list nat    (* the versions of the cell map its finished reads saw *)
}.

Record state := mkSt {
  nthr    : nat;             (* N *)
  thr     : nat -> thread;
  fresh   : bool;            (* status == fresh *)
  smsg    : nat;             (* version published with the last store to status *)
  mu      : option nat;      (* holder of s.mu *)
  mmsg    : nat;             (* version published by the last Unlock *)
  pending : bool;            (* pendingAdditionsPos < len(shapes) || len(pendingRemovals) > 0 *)
  built   : nat;             (* version of cellMap/cells = number of completed writes (+ initial) *)
  writes  : nat;             (* number of batches written by applyUpdatesInternal *)
  writers : list nat         (* who wrote, in order *)
}.

Definition upd (f : nat -> thread) (t : nat) (x : thread) : nat -> thread :=
  fun u => if u =? t then x else f u.

Definition set_pc (th : thread) (p : pc) : thread := mkT p (seen th) (todo th) (entry th) (early th) (reads th).
Definition set_pc_seen (th : thread) (p : pc) (v : nat) : thread := mkT p v (todo th) (entry th) (early th) (reads th).

Definition with_thr (s : state) (t : nat) (x : thread) : state :=
  mkSt (nthr s) (upd (thr s) t x) (fresh s) (smsg s) (mu s) (mmsg s) (pending s) (built s) (writes s) (writers s).

(** one step of goroutine [t]; None = not enabled (finished, blocked on the mutex, or no such goroutine) *)
Definition step (s : state) (t : nat) : option state :=
  if nthr s <=? t then None else
  let th := thr s t in
  match tpc th with
  | L0 =>   (* IsFresh(): an atomic load used as a hint; stale and outside the bound: answer false *)
      let v := if fresh s then Nat.max (seen th) (smsg s) else seen th in
      if negb (fresh s) && early th then Some (with_thr s t (set_pc_seen th Done v))
      else Some (with_thr s t (set_pc_seen th L1 v))
  | L1 =>   (* atomic load of status *)
      if fresh s then Some (with_thr s t (set_pc_seen th R (Nat.max (seen th) (smsg s))))
      else Some (with_thr s t (set_pc th L2))
  | L2 =>   (* Lock: enabled only when the mutex is free *)
      match mu s with
      | Some _ => None
      | None => Some (mkSt (nthr s) (upd (thr s) t (set_pc_seen th L3 (Nat.max (seen th) (mmsg s))))
                           (fresh s) (smsg s) (Some t) (mmsg s) (pending s) (built s) (writes s) (writers s))
      end
  | L3 =>   (* applyUpdatesInternal: nothing pending => return at once *)
      if pending s then Some (with_thr s t (set_pc th L3w)) else Some (with_thr s t (set_pc th L4))
  | L3w =>  (* the write completes: new version of the cell map, bookkeeping says "nothing pending" *)
      Some (mkSt (nthr s) (upd (thr s) t (set_pc_seen th L4 (S (built s))))
                 (fresh s) (smsg s) (mu s) (mmsg s) false (S (built s)) (S (writes s)) (writers s ++ [t]))
  | L4 =>   (* atomic store of fresh *)
      Some (mkSt (nthr s) (upd (thr s) t (set_pc th L5))
                 true (seen th) (mu s) (mmsg s) (pending s) (built s) (writes s) (writers s))
  | L5 =>   (* Unlock *)
      Some (mkSt (nthr s) (upd (thr s) t (set_pc th R))
                 (fresh s) (smsg s) None (seen th) (pending s) (built s) (writes s) (writers s))
  | R =>    (* the unlocked read begins *)
      Some (with_thr s t (set_pc th Rd))
  | Rd =>   (* the unlocked read ends; the answer is a function of the version it read *)
      let rs := built s :: reads th in
      match todo th with
      | 0 => Some (with_thr s t (mkT Done (seen th) 0 (entry th) (early th) rs))
      | S k => Some (with_thr s t (mkT (entry th) (seen th) k (entry th) (early th) rs))
      end
  | Done => None
  end.

(** run a schedule (a list of goroutine ids); None if it names a step that is not enabled *)
Fixpoint exec (s : state) (sched : list nat) : option state :=
  match sched with
  | [] => Some s
  | t :: r => match step s t with Some s' => exec s' r | None => None end
  end.

(** initial states: N goroutines about to start; the index not yet built (stale, pending),
    built (fresh), or stale with nothing pending *)
Definition init (n : nat) (built0 : nat) (fresh0 pending0 : bool)
           (entries : nat -> pc) (todos : nat -> nat) (earlies : nat -> bool) : state :=
  mkSt n (fun t => mkT (entries t) built0 (todos t) (entries t) (earlies t) [])
       fresh0 built0 None built0 pending0 built0 0 [].

(** ** what must never happen *)
Definition reading (s : state) (t : nat) : Prop := t < nthr s /\ tpc (thr s t) = Rd.
Definition writing (s : state) (t : nat) : Prop := t < nthr s /\ tpc (thr s t) = L3w.

(** a data race on cellMap/cells: a write overlapping a read or another write, or a read that is
    not ordered after the latest write *)
Definition race (s : state) : Prop :=
  (exists t u, writing s t /\ reading s u) \/
  (exists t u, t <> u /\ writing s t /\ writing s u) \/
  (exists t, reading s t /\ seen (thr s t) < built s).

Definition in_critical (p : pc) : bool :=
  match p with L3 | L3w | L4 | L5 => true | _ => false end.

Definition b2n (b : bool) : nat := if b then 1 else 0.

(** an upper bound on the steps a goroutine can still take *)
Definition rank (p : pc) : nat :=
  match p with L0 => 9 | L1 => 8 | L2 => 7 | L3 => 6 | L3w => 5 | L4 => 4 | L5 => 3 | R => 2 | Rd => 1 | Done => 0 end.
Definition tmeasure (th : thread) : nat := rank (tpc th) + 10 * todo th.
Fixpoint sum_upto (n : nat) (f : nat -> nat) : nat :=
  match n with 0 => 0 | S k => sum_upto k f + f k end.
Definition measure (s : state) : nat := sum_upto (nthr s) (fun t => tmeasure (thr s t)).
