(** C08 — Closest and furthest edge queries equal an exhaustive scan.
    Only statements; every proof is [exact] of a lemma in Proofs/. *)
From Coq Require Import ZArith List Bool Sorted.
From Geo Require Import Model.EdgeQuery Proofs.C08_Post.
Import ListNotations.
Local Open Scope Z_scope.

(** results are strictly increasing in (distance, shape, edge), duplicate-free, and at most MaxResults *)
Theorem post_ok : forall D (ops : dist_ops D), DistOK ops ->
  forall (o : options D) (t : target D) (x : index) (old brk : bool) (qs : Z * Z),
  let out := find_edges_from D ops o t x old brk qs in
  StronglySorted (fun a b => r_less ops a b = true) out /\ NoDup out /\
  Z.of_nat (length out) <= Z.max 0 (o_max_results o).
Proof. exact post_ok_gen. Qed.
Print Assumptions post_ok.
