(** C08 — Closest and furthest edge queries equal an exhaustive scan.
    Only statements; every proof is [exact] of a lemma in Proofs/.

    The model (Model/EdgeQuery.v) is edge_query.go over an abstract distance type [D]
    (closest: float64 chord angles under <; furthest: the reversed order) and abstract
    target/index data. [find_edges ops o t x old_tested brk] is FindEdges; the two booleans
    select the unrepaired maybeAddResult / initCovering (false false = the code in /repo).

    The transcribed container/heap is proved to pop a minimal entry and keep the others
    (Proofs/C08_Heap.v, [heap_spec]); the search theorems use it.

    Premises of the search theorems (bundled in [SearchPremises]):
      ExactTarget  updateDistanceToEdge/Cell answer "d < limit ? d" for tables edist, cdist
      SubLe        sub d maxError <= d
      LB           cdist(cell) <= edist(e) for every edge e of an index cell the cell represents
                   (discharged for the float distance functions by H-CELLDIST, H-EDGEDIST)
      SplitSound   the children enqueued for a popped cell represent every index cell below it
      EmptyFar / ZeroMin   an empty target is infinitely far; no distance is better than zero()
      CoverSound   initQueue's entries represent every index cell holding an edge better than
                   the limit (H-CAPARITH for the search cap; C05 for FastCovering)
      IndexOK      the index cells list exactly the shapes' edges (C06)
    [Terminates]: the modelled loop (2^81 iterations of fuel) ran until the queue was empty.

    DISCHARGED (second block of theorems below): on a well-formed, non-empty index
    ([IndexWF]: valid cell ids, sorted, pairwise disjoint) [SplitSound] (the two seeks and two
    Prev calls of findEdgesOptimized enumerate exactly the children holding index cells),
    [Terminates] (level measure over the proved priority queue) and the infinite-limit part of
    [CoverSound] (initCovering's repaired loop: its top-level cells are valid, carry the right
    contents and represent every index cell) are theorems; they use the cell-id theory of
    Proofs/C05_CellFacts.v. [WfPremises] / [ApxPremises] keep only the target's distance facts,
    IndexOK (C06) and, for a finite limit, [CoverFinite] (the cleaned-up intersection with the
    search cap's covering represents every index cell within the limit: H-CAPARITH, C05).
    Targets that substitute approximate distances (ShapeIndex targets with MaxError > 0,
    duplicate avoidance with the testedEdges set as repaired, conservative cell distances) are
    covered by [approx_single_result_within_error] and [approx_results_within_error].

    For a finite limit the clean-up loop of initQueue is proved (C08_Cleanup.v) to hand over only
    sound entries ([centry_ok]: an entry with contents is an index cell UNDER ITS OWN ID with
    exactly its contents; rules out seeded change C08-mut3) and to be COMPLETE: every index cell
    met by an initial cell is represented by an emitted entry — enqueued under its own id
    (Indexed), through the enqueued covering cell (Subdivided, or a top-level covering cell), none
    exists when LocateCellID says Disjoint, and the skipped sibling covering cells lie inside the
    index cell already enqueued (laminarity). [CoverFinite] therefore keeps only: the initial
    cells are valid ids in increasing order, fewer than 2^17, and cover the search cap (every
    index cell with an edge within the limit meets one of them: H-CAPARITH, C05).

    TODO: LB / Val for the float distance functions (H-CELLDIST, H-EDGEDIST). *)
From Coq Require Import ZArith List Bool Sorted.
From Geo Require Import Model.EdgeQuery Proofs.C05_CellFacts Proofs.C08_Post Proofs.C08_Opt Proofs.C08_Heap Proofs.C08_Main Proofs.C08_Refute
  Proofs.C08_Cells Proofs.C08_Split Proofs.C08_Term Proofs.C08_Cover Proofs.C08_Cleanup Proofs.C08_Approx Proofs.C08_Final Proofs.C08_Example.
Import ListNotations.
Local Open Scope Z_scope.

(** results are strictly increasing in (distance, shape, edge), hence duplicate-free, and at most MaxResults *)
Theorem post_ok : forall D (ops : dist_ops D), DistOK ops ->
  forall (o : options D) (t : target D) (x : index) (old brk : bool) (qs : Z * Z),
  let out := find_edges_from D ops o t x old brk qs in
  StronglySorted (fun a b => r_less ops a b = true) out /\ NoDup out /\
  Z.of_nat (length out) <= Z.max 0 (o_max_results o).
Proof. exact post_ok_gen. Qed.
Print Assumptions post_ok.

(** the optimized search returns exactly what UseBruteForce(true) returns; for MaxResults = 1
    (where equal distances may be reported for different edges) the distances agree *)
Theorem opt_eq_brute : forall D (ops : dist_ops D), DistOK ops ->
  forall (o : options D) (t : target D) (x : index) (brk : bool) edist cdist Vq,
  SearchPremises D ops o t x brk edist cdist Vq -> Terminates D ops o t x brk ->
  let out_o := find_edges ops o t x false brk in
  let out_b := find_edges ops (with_brute D o) t x false brk in
  (o_max_results o <> 1 -> out_o = out_b) /\
  (ErrZero D ops o -> map r_dist out_o = map r_dist out_b).
Proof. exact opt_eq_brute_main. Qed.
Print Assumptions opt_eq_brute.

(** the brute-force path is the exhaustive scan: the MaxResults smallest, in order, of the
    interior results and of { (edist e, e) | edist e < limit } *)
Theorem brute_is_exhaustive_scan : forall D (ops : dist_ops D), DistOK ops ->
  forall (o : options D) (t : target D) (x : index) (brk : bool) edist,
  (forall e lim, t_upd_edge t e lim = if d_less ops (edist e) lim then Some (edist e) else None) ->
  SubLe D ops o -> o_max_results o <> 1 -> d_eqb ops (o_limit o) (d_zero ops) = false ->
  exists l, find_edges ops (with_brute D o) t x false brk = truncate D o l /\
    StronglySorted (fun a b => r_less ops a b = true) l /\
    forall r, In r l <-> scan_candidate D ops o t x edist r.
Proof. exact brute_is_scan. Qed.
Print Assumptions brute_is_exhaustive_scan.

(** MaxResults = 1 with any permitted error (either path): a result exists iff some edge is
    within the limit, it is a genuine edge within the limit, and its distance less the
    permitted error is a lower bound for every edge *)
Theorem opt_within_error : forall D (ops : dist_ops D), DistOK ops ->
  forall (o : options D) (t : target D) (x : index) (brk : bool) edist cdist Vq,
  SearchPremises D ops o t x brk edist cdist Vq -> Terminates D ops o t x brk ->
  o_max_results o = 1 -> d_eqb ops (o_limit o) (d_zero ops) = false ->
  s_results (interiors_state D ops o t) = [] ->
  let out := find_edges ops o t x false brk in
  (out = [] <-> forall e, In e (all_edges x) -> d_less ops (edist e) (o_limit o) = false) /\
  (forall r, In r out ->
     (exists e, In e (all_edges x) /\ r = mkres D edist e /\ d_less ops (edist e) (o_limit o) = true) /\
     (forall e, In e (all_edges x) -> d_less ops (edist e) (d_sub ops (r_dist r) (o_max_error o)) = false)).
Proof. exact opt_within_error_main. Qed.
Print Assumptions opt_within_error.

(** Distance: optimized = brute force *)
Theorem distance_eq : forall D (ops : dist_ops D), DistOK ops ->
  forall (o : options D) (t : target D) (x : index) edist cdist Vq,
  SearchPremises D ops (with_max_results D o 1) t x false edist cdist Vq ->
  Terminates D ops (with_max_results D o 1) t x false -> ErrZero D ops o ->
  distance ops o t x = distance ops (with_brute D o) t x.
Proof. exact distance_eq_brute. Qed.
Print Assumptions distance_eq.

(** IsDistanceLess / IsDistanceGreater: true iff some edge is better than the threshold *)
Theorem is_distance_less_iff : forall D (ops : dist_ops D), DistOK ops ->
  forall straight (o : options D) (t : target D) (x : index) lim edist cdist Vq,
  let o' := mkOptions 1 lim straight (o_interiors o) (o_brute o) in
  SearchPremises D ops o' t x false edist cdist Vq -> Terminates D ops o' t x false ->
  d_eqb ops lim (d_zero ops) = false -> s_results (interiors_state D ops o' t) = [] ->
  (forall e, In e (all_edges x) -> 0 <= fst e) ->
  (is_distance_less ops straight o t x lim = true <->
   exists e, In e (all_edges x) /\ d_less ops (edist e) lim = true).
Proof. exact is_distance_less_spec. Qed.
Print Assumptions is_distance_less_iff.

(** with interiors included, a target inside an indexed polygon is at distance zero, edge id -1 *)
Theorem interior_zero : forall D (ops : dist_ops D), DistOK ops ->
  forall (o : options D) (t : target D) (x : index) (old brk : bool) s rest,
  o_interiors o = true -> d_eqb ops (o_limit o) (d_zero ops) = false ->
  t_containing t = s :: rest -> ZeroSub D ops o ->
  find_edge ops o t x old brk = mkR (d_zero ops) s (-1).
Proof. exact interior_zero_gen. Qed.
Print Assumptions interior_zero.

(** queryQueue (container/heap on a slice): pops return a minimal entry, nothing is lost or invented *)
Theorem query_queue_is_priority_queue : forall D (ops : dist_ops D), DistOK ops -> HeapSpec D ops.
Proof. exact heap_spec. Qed.
Print Assumptions query_queue_is_priority_queue.

(** the unrepaired variants violate the property (witnesses by computation) *)
Theorem maybe_add_result_old_refuted : exists (o : options Z) (t : target Z) (x : index),
  find_edges zops o t x true false = [] /\
  find_edges zops o t x false false = [mkR 5 0 0; mkR 7 0 1] /\
  used_optimized zops o t x false false = true.
Proof. exact opt_old_refuted. Qed.
Print Assumptions maybe_add_result_old_refuted.

Theorem init_covering_break_refuted : exists (o : options Z) (t : target Z) (x : index),
  map fst (init_covering x true) = [2 ^ 60; 3 * 2 ^ 60] /\
  map fst (init_covering x false) = [2 ^ 60; 3 * 2 ^ 60; 5 * 2 ^ 60] /\
  length (find_edges zops o t x false true) = 1%nat /\
  length (find_edges zops o t x false false) = 3%nat /\
  length (find_edges zops (mkOptions (o_max_results o) (o_limit o) (o_max_error o) (o_interiors o) true) t x false true) = 3%nat.
Proof. exact init_covering_old_refuted. Qed.
Print Assumptions init_covering_break_refuted.

Theorem unsound_search_cap_refuted : exists (o : options Z) (t : target Z) (x : index),
  find_edges zops o t x false false = [] /\
  length (find_edges zops (mkOptions (o_max_results o) (o_limit o) (o_max_error o) (o_interiors o) true) t x false false) = 2%nat.
Proof. exact cover_unsound_refuted. Qed.
Print Assumptions unsound_search_cap_refuted.

Theorem unclamped_sub_refuted : exists (o : options Z) (x : index),
  find_edges zops_raw o crossing_target x false false = [mkR (-3) 0 1] /\
  find_edges zops o crossing_target x false false = [mkR 0 0 0].
Proof. exact sub_unclamped_refuted. Qed.
Print Assumptions unclamped_sub_refuted.

(** ------------------------------------------------------------------------------------
    premises discharged on well-formed indexes *)

(** the child enumeration of findEdgesOptimized covers exactly the index cells under the parent *)
Theorem split_sound_on_wellformed_index : forall x, IndexWF x -> SplitSound x valid.
Proof. exact split_sound. Qed.
Print Assumptions split_sound_on_wellformed_index.

(** initCovering (without the stray break): valid top-level cells that represent every index cell, at most 9 *)
Theorem init_covering_covers_the_index : forall x, IndexWF x -> x_cells x <> [] ->
  (forall ce, In ce (init_covering x false) -> centry_good x ce) /\
  (forall c, In c (x_cells x) -> exists ce, In ce (init_covering x false) /\ rep ce c) /\
  (length (init_covering x false) <= 9)%nat.
Proof. exact init_covering_sound. Qed.
Print Assumptions init_covering_covers_the_index.

(** initQueue with a finite limit: every entry of the clean-up loop over the initial cells is
    sound: a valid id; with contents it is an index cell under its own id; without, it properly
    contains an index cell *)
Theorem init_queue_cleanup_entries_sound : forall x, IndexWF x -> forall cov,
  (forall ce, In ce cov -> centry_good x ce) ->
  forall cells, (forall id, In id cells -> valid id) ->
  forall j skip ce, In ce (cleanup_initial x cells cov j skip) -> centry_good x ce.
Proof. exact cleanup_entries_good. Qed.
Print Assumptions init_queue_cleanup_entries_sound.

(** ... and when an initial cell lies inside an index cell (LocateCellID = Indexed), the entry
    is that index cell under its own id with its own contents, and it contains the initial cell *)
Theorem init_queue_indexed_branch_enqueues_the_index_cell : forall x, IndexWF x -> forall idI pos,
  valid idI -> locate_cell x idI = (Indexed, pos) ->
  let ce := (it_id x pos, Some (it_cell x pos)) in
  In (cell_at x pos) (x_cells x) /\ rep ce (cell_at x pos) /\
  fst ce = fst (cell_at x pos) /\ cid_contains (fst ce) idI = true.
Proof. exact cleanup_indexed_branch. Qed.
Print Assumptions init_queue_indexed_branch_enqueues_the_index_cell.

(** ... and the loop is complete: every index cell met by an initial cell (one's id in the other's
    range) is represented by an emitted entry *)
Theorem init_queue_cleanup_represents_every_cell_met : forall x, IndexWF x -> forall cov,
  (forall ce, In ce cov -> centry_good x ce) ->
  forall cells, (forall id, In id cells -> valid id) -> StronglySorted Z.lt cells ->
  forall j idI c, In idI cells -> In c (x_cells x) -> meets idI c ->
  exists ce, In ce (cleanup_initial x cells cov j None) /\ rep ce c.
Proof. exact cleanup_represents_top. Qed.
Print Assumptions init_queue_cleanup_represents_every_cell_met.

(** the search loop empties its queue within the modelled fuel *)
Theorem search_terminates : forall D (ops : dist_ops D), DistOK ops ->
  forall (o : options D) (t : target D) (x : index), IndexWF x -> forall brk,
  (forall lim, (forall ce, In ce (init_entries D ops t x brk lim) -> centry_good x ce) /\
               Z.of_nat (length (init_entries D ops t x brk lim)) < 2 ^ 17) ->
  Terminates D ops o t x brk.
Proof. exact terminates. Qed.
Print Assumptions search_terminates.

Theorem opt_eq_brute_on_wellformed_index : forall D (ops : dist_ops D), DistOK ops ->
  forall x, IndexWF x -> x_cells x <> [] -> forall (o : options D) (t : target D) edist cdist,
  WfPremises D ops x o t edist cdist ->
  let out_o := find_edges ops o t x false false in
  let out_b := find_edges ops (with_brute D o) t x false false in
  (o_max_results o <> 1 -> out_o = out_b) /\ (ErrZero D ops o -> map r_dist out_o = map r_dist out_b).
Proof. exact opt_eq_brute_wf. Qed.
Print Assumptions opt_eq_brute_on_wellformed_index.

Theorem opt_within_error_on_wellformed_index : forall D (ops : dist_ops D), DistOK ops ->
  forall x, IndexWF x -> x_cells x <> [] -> forall (o : options D) (t : target D) edist cdist,
  WfPremises D ops x o t edist cdist ->
  o_max_results o = 1 -> d_eqb ops (o_limit o) (d_zero ops) = false ->
  s_results (interiors_state D ops o t) = [] ->
  let out := find_edges ops o t x false false in
  (out = [] <-> forall e, In e (all_edges x) -> d_less ops (edist e) (o_limit o) = false) /\
  (forall r, In r out ->
     (exists e, In e (all_edges x) /\ r = mkres D edist e /\ d_less ops (edist e) (o_limit o) = true) /\
     (forall e, In e (all_edges x) -> d_less ops (edist e) (d_sub ops (r_dist r) (o_max_error o)) = false)).
Proof. exact opt_within_error_wf. Qed.
Print Assumptions opt_within_error_on_wellformed_index.

Theorem is_distance_less_on_wellformed_index : forall D (ops : dist_ops D), DistOK ops ->
  forall x, IndexWF x -> x_cells x <> [] -> forall straight (o : options D) (t : target D) lim edist cdist,
  let o' := mkOptions 1 lim straight (o_interiors o) (o_brute o) in
  WfPremises D ops x o' t edist cdist ->
  d_eqb ops lim (d_zero ops) = false -> s_results (interiors_state D ops o' t) = [] ->
  (forall e, In e (all_edges x) -> 0 <= fst e) ->
  (is_distance_less ops straight o t x lim = true <-> exists e, In e (all_edges x) /\ d_less ops (edist e) lim = true).
Proof. exact is_distance_less_wf. Qed.
Print Assumptions is_distance_less_on_wellformed_index.

(** ------------------------------------------------------------------------------------
    targets that substitute approximate distances *)

(** MaxResults = 1: the single result is within the permitted error of the optimum, and exists
    iff some edge is within the limit (this is how Distance / IsDistanceLess search with a
    ShapeIndex target) *)
Theorem approx_single_result_within_error : forall D (ops : dist_ops D), DistOK ops ->
  forall x, IndexWF x -> x_cells x <> [] ->
  forall (o : options D) (t : target D) tdist tcell Val cons av (st : state D),
  ApxPremises D ops x o t tdist tcell Val cons ->
  s_queue st = [] -> s_tested st = [] -> s_results st = [] -> o_max_results o = 1 ->
  let so := find_edges_optimized D ops o t x false false cons av st in
  let out := truncate D o (sort_unique ops (rev (s_results so))) in
  (out = [] <-> forall e, In e (all_edges x) -> d_less ops (tdist e) (s_limit st) = false) /\
  (forall r, In r out ->
     (exists e v, In e (all_edges x) /\ r = Approx.res D v e /\ Val e v /\ d_less ops v (s_limit st) = true) /\
     (forall e, In e (all_edges x) -> d_less ops (tdist e) (d_sub ops (r_dist r) (o_max_error o)) = false)).
Proof. exact approx_k1_wf. Qed.
Print Assumptions approx_single_result_within_error.

(** MaxResults <> 1: every edge within the limit is reported with an allowed value, nothing
    else is reported, with duplicate avoidance (testedEdges as repaired) no edge is reported
    twice, and the truncated output misses no edge that is better than a reported one by more
    than the permitted error *)
Theorem approx_results_within_error : forall D (ops : dist_ops D), DistOK ops ->
  forall x, IndexWF x -> x_cells x <> [] ->
  forall (o : options D) (t : target D) tdist tcell Val cons av (st : state D),
  ApxPremises D ops x o t tdist tcell Val cons ->
  s_queue st = [] -> s_tested st = [] -> o_max_results o <> 1 ->
  (forall r, In r (s_results st) -> d_less ops (r_dist r) (s_limit st) = true) ->
  let so := find_edges_optimized D ops o t x false false cons av st in
  let out := truncate D o (sort_unique ops (rev (s_results so))) in
  (forall r, In r (s_results so) -> In r (s_results st) \/
     exists e v, In e (all_edges x) /\ r = Approx.res D v e /\ Val e v /\ d_less ops v (s_limit st) = true) /\
  (forall e, In e (all_edges x) -> d_less ops (tdist e) (s_limit st) = true ->
     exists v, In (Approx.res D v e) (s_results so) /\ Val e v) /\
  (av = true -> exists added, s_results so = added ++ s_results st /\ NoDup (map (Approx.rkey D) added)) /\
  (forall r e, In r out -> In e (all_edges x) ->
     d_less ops (tdist e) (d_sub ops (r_dist r) (o_max_error o)) = true ->
     exists v, In (Approx.res D v e) out /\ Val e v).
Proof. exact approx_all_wf. Qed.
Print Assumptions approx_results_within_error.
