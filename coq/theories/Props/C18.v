(** C18 — Area, curvature and centroid are consistent with containment and orientation.
    Only statements; every proof is [exact] of a lemma in Proofs/C18_*.v.  [s2_*] are the
    Gallina translations regenerated from /repo on every run; [CanonicalFirstVertex],
    [TurningAngle], [Area], ... are the hand-written model of Model/LoopMeasures.v tied to
    the Go code by bit-exact correspondence.  Equality of [float]s is Leibniz equality,
    i.e. bit-identical results. *)
From Coq Require Import ZArith List Bool Floats.
From Geo Require Import Base.GoPrim Base.F64 Gen.Area Model.LoopMeasures Proofs.C18_Cyclic.
Local Open Scope Z_scope.

(** The canonical first vertex is the same geometric vertex, and the canonical direction the
    same, whatever the starting vertex of the list; reversing the list keeps the vertex and
    flips the direction. *)
Theorem canonical_first_vertex_rotate : forall vs k,
  (3 <= length vs)%nat -> (k <= length vs)%nat -> distinct_ordered vs ->
  let n := Z.of_nat (length vs) in
  fst (CanonicalFirstVertex (rot k vs)) mod n = (fst (CanonicalFirstVertex vs) - Z.of_nat k) mod n
  /\ snd (CanonicalFirstVertex (rot k vs)) = snd (CanonicalFirstVertex vs).
Proof. exact C18_Cyclic.canonical_first_vertex_rotate. Qed.
Print Assumptions canonical_first_vertex_rotate.

Theorem canonical_first_vertex_invert : forall vs,
  (3 <= length vs)%nat -> distinct_ordered vs ->
  let n := Z.of_nat (length vs) in
  fst (CanonicalFirstVertex (rev vs)) mod n = (n - 1 - fst (CanonicalFirstVertex vs)) mod n
  /\ snd (CanonicalFirstVertex (rev vs)) = - snd (CanonicalFirstVertex vs).
Proof. exact C18_Cyclic.canonical_first_vertex_invert. Qed.
Print Assumptions canonical_first_vertex_invert.

(** The total turning angle is bit-identical under rotation of the vertex order. *)
Theorem turning_angle_rotate : forall rs l k,
  (3 <= length (lp_vs l))%nat -> (k <= length (lp_vs l))%nat -> distinct_ordered (lp_vs l) ->
  TurningAngle rs (mk_loop (rot k (lp_vs l)) (lp_origin_inside l) (lp_depth l) (lp_lng_len l))
  = TurningAngle rs l.
Proof. exact C18_Cyclic.turning_angle_rotate. Qed.
Print Assumptions turning_angle_rotate.
