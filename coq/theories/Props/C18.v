(** C18 — Area, curvature and centroid are consistent with containment and orientation.
    Only statements; every proof is [exact] of a lemma in Proofs/C18_*.v.  [s2_*], [r3_*] are the
    Gallina translations regenerated from /repo on every run; [CanonicalFirstVertex],
    [TurningAngle], [TurnAngle], [Area], [PolygonArea] ... are the hand-written model of
    Model/LoopMeasures.v, tied to the Go code by bit-exact correspondence on every run.
    Equality of [float]s is Leibniz equality, i.e. bit-identical results.  [rs] is the
    orientation predicate RobustSign (a parameter: exact arithmetic is property C02).
    [valid_vertices vs]: at least 3 vertices, no NaN coordinate, pairwise different (what
    Loop.Validate guarantees). *)
From Coq Require Import ZArith Reals List Bool Floats.
From Geo Require Import Base.GoPrim Base.F64 Gen.Area Model.LoopMeasures.
From Geo Require Import Proofs.C18_Cyclic Proofs.C18_Float Proofs.C18_Order Proofs.C18_Area Proofs.C18_Main.
Import ListNotations.
Local Open Scope Z_scope.

(** ** Triangle level *)

(** Angle(a,b,c) == Angle(c,b,a) as a float expression, for ALL inputs. *)
Theorem angle_sym : forall a b c, s2_Angle a b c = s2_Angle c b a.
Proof. exact C18_Float.angle_sym. Qed.
Print Assumptions angle_sym.

(** TurnAngle(c,b,a) == -TurnAngle(a,b,c) bit-exactly, given an antisymmetric non-zero orientation
    sign, PointCross products that are not the zero vector (no Ortho fallback) and an Angle whose
    two atan2 arguments are not both zero.  The guards hold for points >= ~1e-150 apart that are
    not antipodal; below that the unguarded statement is REFUTED by the next theorem (points
    1e-300 apart, outside the domain of this property; same behaviour observed on the Go code). *)
Theorem turn_angle_reverse : forall (rs : sign_fn) a b c,
  rs c b a = - rs a b c -> (rs a b c = 1 \/ rs a b c = -1) ->
  cross_nonzero a b -> cross_nonzero b c -> dot_nonzero a b c ->
  TurnAngle rs c b a = PrimFloat.opp (TurnAngle rs a b c).
Proof. exact C18_Float.turn_angle_reverse. Qed.
Print Assumptions turn_angle_reverse.

Theorem turn_angle_reverse_unguarded_refuted :
  exists (rs : sign_fn) a b c,
    rs c b a = - rs a b c /\ (rs a b c = 1 \/ rs a b c = -1) /\
    s2_Point_eqb a b = false /\ s2_Point_eqb b c = false /\ s2_Point_eqb a c = false /\
    cross_nonzero a b /\ cross_nonzero b c /\
    TurnAngle rs c b a <> PrimFloat.opp (TurnAngle rs a b c).
Proof. exact C18_Float.turn_angle_reverse_unguarded_refuted. Qed.
Print Assumptions turn_angle_reverse_unguarded_refuted.

(** ** Canonical first vertex *)

(** Every loop that passes validation satisfies the guard of the theorems below. *)
Theorem valid_loops_are_distinct_ordered : forall vs,
  (forall p, In p vs -> pt_nonnan p) ->
  (forall i j : nat, (i < j < length vs)%nat -> s2_Point_eqb (nth i vs zero_point) (nth j vs zero_point) = false) ->
  distinct_ordered vs.
Proof. exact C18_Order.valid_vertices_distinct_ordered. Qed.
Print Assumptions valid_loops_are_distinct_ordered.

(** Rotating the vertex list by k rotates the returned index by -k (mod n) and keeps the direction:
    the same geometric vertex and direction are selected whatever the starting vertex. *)
Theorem canonical_first_vertex_rotate : forall vs k, valid_vertices vs -> (k <= length vs)%nat ->
  let n := Z.of_nat (length vs) in
  fst (CanonicalFirstVertex (rot k vs)) mod n = (fst (CanonicalFirstVertex vs) - Z.of_nat k) mod n
  /\ snd (CanonicalFirstVertex (rot k vs)) = snd (CanonicalFirstVertex vs).
Proof. exact C18_Main.canonical_first_vertex_rotate_valid. Qed.
Print Assumptions canonical_first_vertex_rotate.

(** Reversing the list selects the same geometric vertex and the opposite direction. *)
Theorem canonical_first_vertex_invert : forall vs, valid_vertices vs ->
  let n := Z.of_nat (length vs) in
  fst (CanonicalFirstVertex (rev vs)) mod n = (n - 1 - fst (CanonicalFirstVertex vs)) mod n
  /\ snd (CanonicalFirstVertex (rev vs)) = - snd (CanonicalFirstVertex vs).
Proof. exact C18_Main.canonical_first_vertex_invert_valid. Qed.
Print Assumptions canonical_first_vertex_invert.

(** ** Total turning angle *)

(** TurningAngle is a function of the canonical cyclic vertex sequence only (Kahan loop included). *)
Theorem turning_angle_depends_on_cyclic_sequence_only :
  forall {A} (lt : A -> A -> bool) (turn : A -> A -> A -> float) (n : Z) (V : Z -> A),
  3 <= n -> periodic n V ->
  turning_angle_gen lt turn n V =
  curvature_clamp (snd (cfv_gen lt n V)) (kahan_of turn n (canon_seq lt n V)).
Proof. intros A lt turn n V. exact (C18_Cyclic.turning_angle_gen_canon lt n turn V). Qed.
Print Assumptions turning_angle_depends_on_cyclic_sequence_only.

(** Exactly unchanged (bit-identical) by rotating the vertex order. *)
Theorem turning_angle_rotate : forall rs l k, valid_vertices (lp_vs l) -> (k <= length (lp_vs l))%nat ->
  TurningAngle rs (mk_loop (rot k (lp_vs l)) (lp_origin_inside l) (lp_depth l) (lp_lng_len l)) = TurningAngle rs l.
Proof. exact C18_Main.turning_angle_rotate_valid. Qed.
Print Assumptions turning_angle_rotate.

(** Exactly negated by inverting the loop (valid loops, and the empty and full loops). *)
Theorem turning_angle_invert : forall rs l x,
  valid_vertices (lp_vs l) \/ length (lp_vs l) = 1%nat ->
  TurningAngle rs (Invert x l) = PrimFloat.opp (TurningAngle rs l).
Proof. exact C18_Main.turning_angle_invert. Qed.
Print Assumptions turning_angle_invert.

(** ** Area: decision logic *)
Local Open Scope R_scope.

(** Area is in [0, 4*pi] and never NaN, whatever the triangle sum came out as. *)
Theorem area_range : forall rs l,
  nonnan (surfaceIntegralFloat64 (SignedArea rs) l) ->
  nonnan (Area rs l) /\ rank 0%float <= rank (Area rs l) <= rank pi4.
Proof. exact C18_Area.loop_area_range. Qed.
Print Assumptions area_range.

(** When the triangle sum is within maxError of 0 or of 4*pi the result is chosen consistently
    with IsNormalized: a loop that is not normalized never gets an area below maxError, a
    normalized one never an area above 4*pi - maxError. *)
Theorem area_consistent_with_IsNormalized : forall rs l,
  is_empty_or_full l = false -> nonnan (surfaceIntegralFloat64 (SignedArea rs) l) -> err_ok l ->
  (IsNormalized rs l = false -> PrimFloat.ltb (Area rs l) (turningAngleMaxError l) = false)
  /\ (IsNormalized rs l = true -> PrimFloat.ltb (PrimFloat.sub pi4 (turningAngleMaxError l)) (Area rs l) = false).
Proof. exact C18_Area.loop_area_consistent_with_IsNormalized. Qed.
Print Assumptions area_consistent_with_IsNormalized.

Theorem area_branch_taken : forall raw e nz,
  let r := area_decide raw e nz in
  (snd r = 1%Z -> fst r = pi4 /\ nz = false /\ PrimFloat.ltb (area_clamped raw) e = true)
  /\ (snd r = 2%Z -> fst r = 0%float /\ nz = true /\ PrimFloat.ltb (PrimFloat.sub pi4 e) (area_clamped raw) = true)
  /\ (snd r = 0%Z -> fst r = area_clamped raw)
  /\ (snd r = 0 \/ snd r = 1 \/ snd r = 2)%Z.
Proof. exact C18_Area.area_decide_branch. Qed.
Print Assumptions area_branch_taken.

(** A degenerate sliver and its inverse get {~0, ~4*pi} in agreement with the Gauss-Bonnet sign. *)
Theorem degenerate_pair_consistent : forall rs l l',
  is_empty_or_full l = false -> is_empty_or_full l' = false ->
  nonnan (surfaceIntegralFloat64 (SignedArea rs) l) -> nonnan (surfaceIntegralFloat64 (SignedArea rs) l') ->
  err_ok l -> err_ok l' ->
  IsNormalized rs l = true -> IsNormalized rs l' = false ->
  PrimFloat.ltb (PrimFloat.sub pi4 (turningAngleMaxError l)) (Area rs l) = false
  /\ PrimFloat.ltb (Area rs l') (turningAngleMaxError l') = false.
Proof. exact C18_Area.degenerate_pair_consistent. Qed.
Print Assumptions degenerate_pair_consistent.

(** ** Polygon: signed sums over shells (even depth) and holes (odd depth) *)
Theorem polygon_signed_sum : forall rs ls,
  PolygonArea rs ls =
  fold_left (fun acc l => PrimFloat.add acc (if Z.even (lp_depth l) then PrimFloat.mul 1 (Area rs l)
                                             else PrimFloat.opp (PrimFloat.mul 1 (Area rs l)))) ls 0%float.
Proof. exact C18_Area.polygon_signed_sum. Qed.
Print Assumptions polygon_signed_sum.

Theorem polygon_centroid_signed_sum : forall ls,
  s2_Point_Vector (PolygonCentroid ls) =
  fold_left (fun u l => if Z.odd (lp_depth l) then r3_Vector_Sub u (s2_Point_Vector (Centroid l))
                        else r3_Vector_Add u (s2_Point_Vector (Centroid l))) ls (mk_r3_Vector 0 0 0).
Proof. exact C18_Area.polygon_centroid_signed_sum. Qed.
Print Assumptions polygon_centroid_signed_sum.

(** ** Magnitudes, under H_AREA (error models of PointArea/GirardArea/TurnAngle incl. libm: H_LIBM) *)

(** The sign decision never turns a small error of the triangle sum into an error of 4*pi. *)
Theorem area_accuracy_under_H : forall rs areaR valid err, H_AREA rs areaR valid err ->
  forall l, valid l -> - err l <= rank (Area rs l) - areaR l <= err l.
Proof. exact C18_Main.area_accuracy_under_H. Qed.
Print Assumptions area_accuracy_under_H.

(** The area of a loop and of its inverse sum to the area of the sphere. *)
Theorem area_complement_under_H : forall rs areaR valid err, H_AREA rs areaR valid err ->
  forall l x, valid l -> valid (Invert x l) -> areaR (Invert x l) = rank pi4 - areaR l ->
  - (err l + err (Invert x l)) <= rank (Area rs l) + rank (Area rs (Invert x l)) - rank pi4 <= err l + err (Invert x l).
Proof. exact C18_Main.area_complement_under_H. Qed.
Print Assumptions area_complement_under_H.

(** Area is independent of the starting vertex within the documented error. *)
Theorem area_rotate_under_H : forall rs areaR valid err, H_AREA rs areaR valid err ->
  forall l l', valid l -> valid l' -> areaR l' = areaR l ->
  - (err l + err l') <= rank (Area rs l') - rank (Area rs l) <= err l + err l'.
Proof. exact C18_Main.area_rotate_under_H. Qed.
Print Assumptions area_rotate_under_H.

(** Area equals the sum of the areas of any triangulation. *)
Theorem area_triangulation_under_H : forall rs areaR valid err, H_AREA rs areaR valid err ->
  forall l (tri : list (s2_Point * s2_Point * s2_Point)) (triR : s2_Point * s2_Point * s2_Point -> R) (terr : R),
  valid l ->
  fold_right (fun t acc => triR t + acc) 0 tri = areaR l ->
  (forall t, In t tri -> let '(a, b, c) := t in - terr <= rank (PointArea a b c) - triR t <= terr) ->
  - (err l + terr * INR (length tri)) <=
    rank (Area rs l) - fold_right (fun t acc => (let '(a, b, c) := t in rank (PointArea a b c)) + acc) 0 tri
  <= err l + terr * INR (length tri).
Proof. exact C18_Main.area_triangulation_under_H. Qed.
Print Assumptions area_triangulation_under_H.
