(** C17 — Edge distance, projection and interpolation primitives meet their error bounds.
    Only statements; every proof is [exact] of a lemma in Proofs/C17_*.v.
    s2_* / s1_* are the Gallina translations regenerated from /repo on every run
    (Gen/EdgeDist.v, Gen/S1.v, Gen/S2Point.v); m_* are the hand models of
    Model/PolylineOps.v tied to the implementation by correspondence.
    Vocabulary (Proofs/C17_Threshold.v): [dist2 x a b] is the squared chord length that
    updateMinDistance(alwaysUpdate)/DistanceFromSegment report, [endDist] the value of the
    endpoint branch min(xa2, xb2) (clamped to 4), [intDist] that of the interior branch,
    [interior_taken] which branch decides, [pruned] the test xDotC2 > c2*minDist. *)
From Coq Require Import ZArith Reals Floats Bool List.
From Geo Require Import Base.GoPrim Base.F64 Gen.EdgeDist Model.PolylineOps
  Proofs.C17_FloatFacts Proofs.C17_Threshold Proofs.C17_Interp Proofs.C17_Endpoint Proofs.C17_EdgePair.
Import ListNotations.
Local Open Scope R_scope.

(** ** zero for the edge's own endpoints — exact +0, for all points with finite components
    of magnitude <= 2 (every unit point), degenerate edges included *)
Theorem endpoint_zero : forall x a b, bounded_point a -> bounded_point b -> x = a \/ x = b ->
  s2_updateMinDistance x a b infinity true = (0%float, true) /\
  s2_UpdateMinDistance x a b infinity = (0%float, true) /\
  s2_DistanceFromSegment x a b = 0%float.
Proof. exact C17_Endpoint.endpoint_zero. Qed.
Print Assumptions endpoint_zero.

(** ** the reported distance and which branch produced it *)
Theorem distance_is_dist2 : forall x a b m,
  s2_updateMinDistance x a b m true = (dist2 x a b, true) /\
  s2_DistanceFromSegment x a b = s1_ChordAngle_Angle (dist2 x a b).
Proof. intros x a b m. split; [exact (always_value x a b m) | exact (distance_from_segment x a b)]. Qed.
Print Assumptions distance_is_dist2.

(** never_above_endpoints, endpoint branch: the result is min(xa2, xb2) exactly, and valid (<= 4) *)
Theorem never_above_endpoints_endpoint_branch : forall x a b m,
  snd (s2_interiorDist x a b m true) = false ->
  s2_updateMinDistance x a b m true = (endDist x a b, true) /\
  (nonnan (endDist x a b) -> rank (endDist x a b) <= 4).
Proof. intros x a b m H. split; [exact (endpoint_branch_exact x a b m H) | exact (endDist_le_four x a b)]. Qed.
Print Assumptions never_above_endpoints_endpoint_branch.

(** never_above_endpoints for every branch, under H_EDGEDIST (interior value <= endpoint value + bound) *)
Theorem never_above_endpoints_under_H_EDGEDIST : H_EDGEDIST -> forall x a b,
  bounded_point x -> bounded_point a -> bounded_point b ->
  R_of (dist2 x a b) <= R_of (endDist x a b) + Rmax 0 (R_of (s2_minUpdateDistanceMaxError (dist2 x a b))).
Proof. exact never_above_endpoints_H. Qed.
Print Assumptions never_above_endpoints_under_H_EDGEDIST.

(** ** threshold forms *)
Theorem threshold_is_flag : forall x a b l,
  s2_IsDistanceLess x a b l = snd (s2_UpdateMinDistance x a b l) /\
  s2_IsInteriorDistanceLess x a b l = snd (s2_UpdateMinInteriorDistance x a b l).
Proof. intros. split; [apply isless_is_flag | apply isinteriorless_is_flag]. Qed.
Print Assumptions threshold_is_flag.

(** an update returns a value that is not >= the old minimum, and it is the interior or the
    endpoint value; no update returns the old minimum unchanged *)
Theorem update_only_below_minimum : forall x a b m d ok,
  s2_UpdateMinDistance x a b m = (d, ok) ->
  (ok = true /\ PrimFloat.leb m d = false /\
     ((interior_taken x a b = true /\ d = intDist x a b) \/ d = endDist x a b)) \/
  (ok = false /\ d = m /\ PrimFloat.leb m (endDist x a b) = true).
Proof. exact update_min_cases. Qed.
Print Assumptions update_only_below_minimum.

Theorem threshold_sound : forall x a b l,
  nonnan l -> nonnan (dist2 x a b) -> nonnan (endDist x a b) ->
  s2_IsDistanceLess x a b l = true ->
  rank (dist2 x a b) < rank l \/ rank (endDist x a b) < rank l.
Proof. exact C17_Threshold.threshold_sound. Qed.
Print Assumptions threshold_sound.

Theorem threshold_complete : forall x a b l,
  PrimFloat.ltb (dist2 x a b) l = true -> pruned x a b l = false ->
  s2_UpdateMinDistance x a b l = (dist2 x a b, true) /\ s2_IsDistanceLess x a b l = true.
Proof. exact C17_Threshold.threshold_complete. Qed.
Print Assumptions threshold_complete.

Theorem threshold_is_comparison_in_endpoint_branch : forall x a b l,
  interior_taken x a b = false -> nonnan l -> nonnan (dist2 x a b) ->
  s2_IsDistanceLess x a b l = PrimFloat.ltb (dist2 x a b) l.
Proof. exact threshold_exact_endpoint_branch. Qed.
Print Assumptions threshold_is_comparison_in_endpoint_branch.

(** FINDING: the full-strength sentence "IsDistanceLess x a b l <-> dist2 x a b < l" is false of the
    code as it is (x two ulp from b: the interior value is reported although min(xa2,xb2) is smaller) *)
Theorem threshold_is_comparison_refuted :
  exists x a b l, nonnan l /\ nonnan (dist2 x a b) /\
    s2_IsDistanceLess x a b l = true /\ PrimFloat.ltb (dist2 x a b) l = false.
Proof. exact threshold_exact_refuted. Qed.
Print Assumptions threshold_is_comparison_refuted.

(** pruning soundness over the reals: what the pruning test skips is >= the threshold *)
Theorem pruning_sound_over_reals : forall xDotC2 c2 m qr : R,
  0 < c2 -> xDotC2 > c2 * m -> xDotC2 / c2 + qr * qr >= m.
Proof. exact pruning_sound_R. Qed.
Print Assumptions pruning_sound_over_reals.

(** ** maximum distance through the antipode; edge pairs *)
Theorem max_via_antipode : forall x a b m,
  m_UpdateMaxDistance x a b m =
  if PrimFloat.ltb m (max_dist2 x a b) then (max_dist2 x a b, true) else (m, false).
Proof. exact C17_Threshold.max_via_antipode. Qed.
Print Assumptions max_via_antipode.

Theorem edge_pair_zero_when_crossing : forall a0 a1 b0 b1 m,
  PrimFloat.eqb m 0%float = false ->
  m_updateEdgePairMinDistance true a0 a1 b0 b1 m = (0%float, true).
Proof. exact edge_pair_crossing. Qed.
Print Assumptions edge_pair_zero_when_crossing.

Theorem edge_pair_no_update_keeps_minimum : forall a0 a1 b0 b1 m d ok,
  nonnan m ->
  m_updateEdgePairMinDistance false a0 a1 b0 b1 m = (d, ok) ->
  (ok = false -> d = m \/ PrimFloat.eqb m 0%float = true).
Proof. exact edge_pair_monotone. Qed.
Print Assumptions edge_pair_no_update_keeps_minimum.

(** EdgePairClosestPoints: the four vertex-edge probes thread one running minimum ([cp_value k] is
    the minimum held after probe k: a0|B with alwaysUpdate, then a1|B, b0|A, b1|A). The winning
    vertex is the last probe that lowered it; the value held there is the final minimum, which is <=
    every probe value and < every earlier one; the pair returned is that vertex and its projection. *)
Theorem edge_pair_closest_vertex_is_argmin : forall a0 a1 b0 b1,
  nonnan (cp_m0 a0 a1 b0 b1) -> nonnan (fst (cp_r1 a0 a1 b0 b1)) ->
  nonnan (fst (cp_r2 a0 a1 b0 b1)) -> nonnan (fst (cp_r3 a0 a1 b0 b1)) ->
  let cv := m_closestVertex a0 a1 b0 b1 in
  let M := fst (cp_r3 a0 a1 b0 b1) in
  (0 <= cv <= 3)%Z /\
  cp_value a0 a1 b0 b1 cv = M /\
  (forall k, (0 <= k <= 3)%Z -> rank M <= rank (cp_value a0 a1 b0 b1 k)) /\
  (forall k, (0 <= k < cv)%Z -> rank M < rank (cp_value a0 a1 b0 b1 k)).
Proof. exact closest_vertex_argmin. Qed.
Print Assumptions edge_pair_closest_vertex_is_argmin.

Theorem edge_pair_closest_points_shape : forall a0 a1 b0 b1 isect,
  m_EdgePairClosestPoints true isect a0 a1 b0 b1 = (isect, isect) /\
  m_EdgePairClosestPoints false isect a0 a1 b0 b1 =
  (let cv := m_closestVertex a0 a1 b0 b1 in
   if (cv =? 0)%Z then (a0, s2_Project a0 b0 b1)
   else if (cv =? 1)%Z then (a1, s2_Project a1 b0 b1)
   else if (cv =? 2)%Z then (s2_Project b0 a0 a1, b0)
   else (s2_Project b1 a0 a1, b1)).
Proof. intros. exact (conj (closest_points_crossing a0 a1 b0 b1 isect) (closest_points_shape a0 a1 b0 b1 isect)). Qed.
Print Assumptions edge_pair_closest_points_shape.

(** ** interpolation *)
Theorem interpolate_ends : forall a b,
  s2_Interpolate 0%float a b = a /\ s2_Interpolate (-0)%float a b = a /\ s2_Interpolate 1%float a b = b.
Proof. intros a b. exact (conj (interpolate_pos_zero a b) (conj (interpolate_neg_zero a b) (interpolate_one a b))). Qed.
Print Assumptions interpolate_ends.

Theorem polyline_interpolate_first_vertex : forall v0 rest f, PrimFloat.leb f 0%float = true ->
  m_Polyline_Interpolate (v0 :: rest) f = (v0, 1%Z).
Proof. exact polyline_interpolate_first. Qed.
Print Assumptions polyline_interpolate_first_vertex.

Theorem polyline_interpolate_next_in_range : forall p f, p <> [] ->
  (1 <= snd (m_Polyline_Interpolate p f) <= pl_len p)%Z.
Proof. exact polyline_interpolate_next. Qed.
Print Assumptions polyline_interpolate_next_in_range.

(** FINDING: "fraction >= 1 returns (last vertex, len)" is false of the code as it is *)
Theorem polyline_interpolate_one_is_last_refuted :
  exists p, p <> [] /\ snd (m_Polyline_Interpolate p 1%float) <> pl_len p /\
            s2_Point_eqb (fst (m_Polyline_Interpolate p 1%float)) (last p pt0) = false.
Proof. exact polyline_interpolate_one_refuted. Qed.
Print Assumptions polyline_interpolate_one_is_last_refuted.

(** Uninterpolate: never NaN and never above 1 for every input; in [0,1] under H_LIBM *)
Theorem uninterpolate_at_most_one : forall p q next,
  nonnan (m_Polyline_Uninterpolate p q next) /\ rank (m_Polyline_Uninterpolate p q next) <= 1.
Proof. exact uninterpolate_le_one. Qed.
Print Assumptions uninterpolate_at_most_one.

Theorem uninterpolate_in_unit_interval_under_H_LIBM : H_LIBM_atan2_sign -> forall p q next,
  nonnan (m_Polyline_Uninterpolate p q next) /\
  0 <= rank (m_Polyline_Uninterpolate p q next) <= 1.
Proof. exact uninterpolate_range. Qed.
Print Assumptions uninterpolate_in_unit_interval_under_H_LIBM.

Theorem polyline_project_next_in_range : forall p x,
  (2 <= pl_len p)%Z -> snd (project_scan p x) <> (-1)%Z ->
  (1 <= snd (m_Polyline_Project p x) <= pl_len p)%Z.
Proof. exact polyline_project_next. Qed.
Print Assumptions polyline_project_next_in_range.
