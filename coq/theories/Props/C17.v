(** C17 — Edge distance, projection and interpolation primitives. *)
From Coq Require Import ZArith Reals Floats Bool List.
From Geo Require Import Base.GoPrim Base.F64 Gen.EdgeDist Model.PolylineOps Proofs.C17_Threshold.
Local Open Scope R_scope.

Theorem threshold_is_flag : forall x a b l,
  s2_IsDistanceLess x a b l = snd (s2_UpdateMinDistance x a b l).
Proof. exact isless_is_flag. Qed.
Print Assumptions threshold_is_flag.
