(** C11 — Cell-union algebra is exact set algebra on leaf cells.
    Only statements; every proof is [exact] of a lemma in Proofs/C11_*.v.

    Vocabulary (definitions in Proofs/C11_Bits.v, C11_Cells.v, C11_Normalize.v, C11_Search.v):
    - [s2_CellID_*], [s2_areSiblings]: Gallina translations of s2/cellid.go and
      s2/cellunion.go, regenerated from /repo on every run (Gen/CellID.v);
    - [cu_*]: the hand-written executable model of the slice algorithms of
      s2/cellunion.go (Model/CellUnion.v), tied to /repo by the correspondence;
    - [valid c]      := 0 <= c < 2^64 /\ s2_CellID_IsValid c = true;
    - [leaf x]       := x mod 2 = 1   (for uint64 x this is s2_CellID_IsLeaf x = true);
    - [covers c x]   := RangeMin c <= x <= RangeMax c;
    - [cov cu x]     := exists c, In c cu /\ covers c x;   the leaf set of cu is {x | leaf x /\ cov cu x};
    - [before a b]   := RangeMax a < RangeMin b;
    - [normal l]     := Forall valid l /\ StronglySorted before l /\
                        no four consecutive entries pass areSiblings;
    - [NSset l]      := no valid non-leaf cell has all its four Children in l;
    - [covered N c]  := every leaf of c is a leaf of N;
    - [sorted_cu l]  := Forall valid l /\ StronglySorted before l  (IsValid() of the library);
    - [limit_id e]   := e is odd and 0 < e <= 6*2^61 + 1 (a leaf id or the end sentinel). *)
From Coq Require Import ZArith List Bool Sorted Permutation.
From Geo Require Import Base.GoPrim Gen.CellID Model.CellUnion Model.CellIndex Model.Intersect.
From Geo Require Import Proofs.C11_Bits Proofs.C11_Cells Proofs.C11_Normalize Proofs.C11_Unique Proofs.C11_Search
  Proofs.C11_SetOps Proofs.C11_Range Proofs.C11_Checks Proofs.C11_SetOps2 Proofs.C11_Denorm Proofs.C11_Examples
  Proofs.C11_Index Proofs.C11_Index2 Proofs.C11_Index3 Proofs.C11_Index4 Proofs.C11_IterBack Proofs.C11_Find.
Import ListNotations.
Local Open Scope Z_scope.

(** * Cell ids --------------------------------------------------------------- *)
Theorem valid_ids_are_the_odd_multiples_of_powers_of_four : forall c, valid c <-> exists s, cellform c s.
Proof. intros c. split; [exact (valid_cellform c)|intros [s H]; exact (cellform_valid c s H)]. Qed.
Print Assumptions valid_ids_are_the_odd_multiples_of_powers_of_four.


Theorem leaf_ids_are_the_odd_ids_and_level_is_thirty_minus_height :
  (forall x, u64 x -> (s2_CellID_IsLeaf x = true <-> leaf x)) /\
  (forall c s, cellform c s -> s2_CellID_Level c = 30 - s).
Proof. split; [exact isleaf_spec|exact level_form]. Qed.
Print Assumptions leaf_ids_are_the_odd_ids_and_level_is_thirty_minus_height.

Theorem cells_are_nested_or_disjoint_and_contains_is_nesting :
  (forall c d, valid c -> valid d ->
  nested_in c d \/ nested_in d c \/ rmax c < rmin d \/ rmax d < rmin c) /\
  (forall c o, valid c -> valid o ->
  (s2_CellID_Contains c o = true <-> nested_in o c)).
Proof. split; [exact laminar|exact contains_nested]. Qed.
Print Assumptions cells_are_nested_or_disjoint_and_contains_is_nesting.


Theorem children_tile_their_parent : forall p, valid p -> ~ leaf p ->
  exists a b c d, s2_CellID_Children p = [a; b; c; d] /\ tiles4 p a b c d /\
                  s2_areSiblings a b c d = true /\ a < b /\ b < c /\ c < d.
Proof. exact children_spec. Qed.
Print Assumptions children_tile_their_parent.

Theorem areSiblings_accepts_only_the_four_children : forall a b c d,
  valid a -> valid b -> valid c -> valid d -> a < b -> b < c -> c < d ->
  s2_areSiblings a b c d = true ->
  tiles4 (s2_CellID_immediateParent d) a b c d /\ valid (s2_CellID_immediateParent d).
Proof. exact siblings_tiles. Qed.
Print Assumptions areSiblings_accepts_only_the_four_children.

(** * Normalize -------------------------------------------------------------- *)
Theorem normalize_normal_and_leaves : forall cu, Forall valid cu ->
  normal (cu_Normalize cu) /\ (forall x, leaf x -> (cov (cu_Normalize cu) x <-> cov cu x)).
Proof. exact normalize_spec. Qed.
Print Assumptions normalize_normal_and_leaves.


Theorem normal_has_no_four_children : forall l, normal l -> NSset l.
Proof. exact normal_NSset. Qed.
Print Assumptions normal_has_no_four_children.

Theorem normal_is_maximal_cells_of_leaf_set : forall N c, normal N -> valid c ->
  (In c N <-> covered N c /\ (s2_CellID_isFace c = true \/ ~ covered N (s2_CellID_immediateParent c))).
Proof. exact member_char. Qed.
Print Assumptions normal_is_maximal_cells_of_leaf_set.

Theorem normal_unique : forall N1 N2, normal N1 -> normal N2 ->
  (forall x, leaf x -> (cov N1 x <-> cov N2 x)) -> N1 = N2.
Proof. exact C11_Unique.normal_unique. Qed.
Print Assumptions normal_unique.

Theorem normalize_canonical_idempotent_fixes_normal :
  (forall a b, Forall valid a -> Forall valid b ->
  (forall x, leaf x -> (cov a x <-> cov b x)) -> cu_Normalize a = cu_Normalize b) /\
  (forall cu, Forall valid cu ->
  cu_Normalize (cu_Normalize cu) = cu_Normalize cu) /\
  (forall l, normal l -> cu_Normalize l = l).
Proof. split; [exact C11_Unique.normalize_canonical|split; [exact C11_Unique.normalize_idempotent|exact normalize_fixpoint]]. Qed.
Print Assumptions normalize_canonical_idempotent_fixes_normal.



(** * Membership tests ------------------------------------------------------- *)
Theorem contains_and_intersects_cellid_spec :
  (forall cu id, normal cu -> valid id ->
  (cu_ContainsCellID cu id = true <-> covered cu id)) /\
  (forall cu id, sorted_cu cu -> valid id ->
  (cu_IntersectsCellID cu id = true <-> exists x, leaf x /\ covers id x /\ cov cu x)).
Proof. split; [exact C11_Search.contains_cellid_spec|exact C11_Search.intersects_cellid_spec]. Qed.
Print Assumptions contains_and_intersects_cellid_spec.


Theorem contains_and_intersects_union_spec :
  (forall cu o, normal cu -> Forall valid o ->
  (cu_Contains cu o = true <-> forall x, leaf x -> cov o x -> cov cu x)) /\
  (forall cu o, Forall valid cu -> sorted_cu o ->
  (cu_Intersects cu o = true <-> exists x, leaf x /\ cov cu x /\ cov o x)).
Proof. split; [exact C11_Search.contains_union_spec|exact C11_Search.intersects_union_spec]. Qed.
Print Assumptions contains_and_intersects_union_spec.


(** * Set operations --------------------------------------------------------- *)
Theorem union_leaves : forall cus, Forall (Forall valid) cus ->
  normal (cu_FromUnion cus) /\
  forall x, leaf x -> (cov (cu_FromUnion cus) x <-> exists cu, In cu cus /\ cov cu x).
Proof. exact C11_SetOps.union_spec. Qed.
Print Assumptions union_leaves.

Theorem difference_leaves_and_normal :
  (forall x y, sorted_cu x -> sorted_cu y ->
  sorted_cu (cu_FromDifference x y) /\
  forall t, leaf t -> (cov (cu_FromDifference x y) t <-> cov x t /\ ~ cov y t)) /\
  (forall x y, normal x -> sorted_cu y -> normal (cu_FromDifference x y)).
Proof. split; [exact C11_SetOps.difference_spec|exact C11_SetOps.difference_normal]. Qed.
Print Assumptions difference_leaves_and_normal.


Theorem intersection_leaves : forall x y, sorted_cu x -> sorted_cu y ->
  normal (cu_FromIntersection x y) /\
  forall t, leaf t -> (cov (cu_FromIntersection x y) t <-> cov x t /\ cov y t).
Proof. exact C11_SetOps.intersection_spec. Qed.
Print Assumptions intersection_leaves.

(** * Ranges ----------------------------------------------------------------- *)
Theorem from_range_covers_exactly_is_normal_and_minimal :
  (forall b e, valid b -> leaf b -> limit_id e -> b <= e ->
  normal (cu_FromRange b e) /\ forall x, leaf x -> (cov (cu_FromRange b e) x <-> b <= x < e)) /\
  (forall b e cu, valid b -> leaf b -> limit_id e -> b <= e -> Forall valid cu ->
  (forall x, leaf x -> (cov cu x <-> b <= x < e)) ->
  cu_Normalize cu = cu_FromRange b e /\ (length (cu_FromRange b e) <= length cu)%nat).
Proof. split; [exact from_range_spec|exact C11_Range.from_range_minimal]. Qed.
Print Assumptions from_range_covers_exactly_is_normal_and_minimal.


Theorem max_tile_spec : forall c e, valid c -> u64 e -> leaf e -> rmin c < e ->
  maxtile_ok e (cu_MaxTile c e) /\ rmin (cu_MaxTile c e) = rmin c.
Proof. exact maxtile_spec. Qed.
Print Assumptions max_tile_spec.

Theorem normal_form_is_shortest : forall N cu, normal N -> Forall valid cu ->
  (forall x, leaf x -> (cov cu x <-> cov N x)) -> (length N <= length cu)%nat.
Proof. exact normal_shortest. Qed.
Print Assumptions normal_form_is_shortest.

(** * The library's own checks decide the predicates used above --------------- *)
Theorem isvalid_isnormalized_decide_and_normalize_passes :
  (forall l, Forall u64 l -> (cu_IsValid l = true <-> sorted_cu l)) /\
  (forall l, Forall u64 l -> (cu_IsNormalized l = true <-> normal l)) /\
  (forall cu, Forall valid cu -> cu_IsNormalized (cu_Normalize cu) = true).
Proof. split; [exact isvalid_spec|split; [exact isnormalized_spec|exact C11_Checks.normalize_passes_IsNormalized]]. Qed.
Print Assumptions isvalid_isnormalized_decide_and_normalize_passes.



(** * Intersection with one cell, Denormalize ------------------------------------ *)
Theorem intersection_with_cellid_leaves : forall x id, normal x -> valid id ->
  normal (cu_FromIntersectionWithCellID x id) /\
  forall t, leaf t -> (cov (cu_FromIntersectionWithCellID x id) t <-> cov x t /\ covers id t).
Proof. exact intersection_with_cellid_spec. Qed.
Print Assumptions intersection_with_cellid_leaves.

Theorem denormalize_leaves_and_levels : forall cu minLevel levelMod,
  Forall valid cu -> 0 <= minLevel <= 30 -> 1 <= levelMod ->
  Forall valid (cu_Denormalize cu minLevel levelMod) /\
  (forall x, leaf x -> (cov (cu_Denormalize cu minLevel levelMod) x <-> cov cu x)) /\
  (levelMod <= 3 ->
   Forall (fun c => minLevel <= s2_CellID_Level c /\
              ((s2_CellID_Level c - minLevel) mod levelMod = 0 \/ s2_CellID_Level c = 30))
          (cu_Denormalize cu minLevel levelMod)).
Proof. exact denormalize_spec. Qed.
Print Assumptions denormalize_leaves_and_levels.


(** * CellIndex (s2/cell_index.go; model Model/CellIndex.v) ----------------------
    [adds] are the (cellID, label) pairs in the order of the Add calls; [good_pair]: valid cell,
    label >= 0.  [ci_Build adds] = (cellTree, rangeNodes) after Build.  A contents-iterator
    visit [ci_visit tree rs st pos] = StartUnion on the range at index pos, then CellID()/Label()/
    Next() until Done(); [pairs_of tree idxs] are the (cell, label) of tree nodes. *)
Theorem cell_index_ranges_partition : forall adds, Forall good_pair adds ->
  let rs := snd (ci_Build adds) in
  StronglySorted Z.lt (map fst rs) /\ hd 0 (map fst rs) = first_leaf /\ last (map fst rs) 0 = end_leaf /\
  forall x, first_leaf <= x < end_leaf ->
    exists l1 rn rn' l2, rs = l1 ++ rn :: rn' :: l2 /\ fst rn <= x < fst rn'.
Proof. exact index_ranges_partition. Qed.
Print Assumptions cell_index_ranges_partition.

Theorem cell_index_contents : forall adds, Forall good_pair adds ->
  let tree := fst (ci_Build adds) in let rs := snd (ci_Build adds) in
  forall l1 rn rn' l2 x, rs = l1 ++ rn :: rn' :: l2 -> leaf x -> fst rn <= x < fst rn' ->
  let reported := fst (ci_visit tree rs ci_new (Z.of_nat (length l1))) in
  Permutation reported (filter (covers_pair x) adds) /\ StronglySorted nested_pair reported.
Proof. exact index_contents. Qed.
Print Assumptions cell_index_contents.

Theorem cell_index_nonempty_iteration : forall adds, Forall good_pair adds ->
  let rs := snd (ci_Build adds) in let n := Z.of_nat (length rs) in
  let l := visit_all rs (length rs) (ri_Begin rs true) in
  (StronglySorted Z.lt l /\ forall j, In j l <-> 0 <= j < n - 1 /\ ri_IsEmpty rs j = false) /\
  (ri_IsEmpty rs (n - 1) = true /\ ri_StartID rs (n - 1) = end_leaf).
Proof. intros adds H. split; [exact (index_nonempty_iteration adds H)|exact (index_sentinel_empty adds H)]. Qed.
Print Assumptions cell_index_nonempty_iteration.

Theorem cell_index_seek : forall adds, Forall good_pair adds ->
  let rs := snd (ci_Build adds) in let n := Z.of_nat (length rs) in
  forall t, first_leaf <= t < end_leaf ->
  let p := ri_Seek rs false t in
  0 <= p < n - 1 /\ ri_StartID rs p <= t < ri_LimitID rs p /\
  let q := ri_Seek rs true t in
  p <= q <= n - 1 /\ (q < n - 1 -> ri_IsEmpty rs q = false) /\ forall j, p <= j < q -> ri_IsEmpty rs j = true.
Proof. exact index_seek. Qed.
Print Assumptions cell_index_seek.

Theorem cell_index_sweep_exactly_once_and_backward_move_reports_everything :
  (forall adds, Forall good_pair adds ->
  let tree := fst (ci_Build adds) in let rs := snd (ci_Build adds) in let n := Z.of_nat (length rs) in
  forall poss, (forall p, In p poss -> 0 <= p < n) -> StronglySorted Z.le poss ->
  exists idxs, ci_sweep tree rs ci_new poss = map (pairs_of tree) idxs /\ NoDup (concat idxs) /\
    forall i, In i (concat idxs) <-> in_chains tree rs poss i) /\
  (forall adds, Forall good_pair adds ->
  let tree := fst (ci_Build adds) in let rs := snd (ci_Build adds) in let n := Z.of_nat (length rs) in
  forall st j s, 0 <= j < n -> is_chain tree (cont_at rs j) s ->
  -1 <= ci_cutoff st -> ri_StartID rs j < ci_prevStart st ->
  fst (ci_visit tree rs st j) = pairs_of tree s).
Proof. split; [exact index_sweep_exactly_once|exact index_backward_reports_all]. Qed.
Print Assumptions cell_index_sweep_exactly_once_and_backward_move_reports_everything.


(** CellIndexRangeIterator.Finish / Advance / Prev, for ANY range list [rs] with at least one entry
    (the last entry is the sentinel range; positions 0..n-1; Done pos <-> n-1 <= pos).
    Finish is the least Done position; Advance(k) moves by k exactly when the target is not Done
    (and is then k plain Next steps), otherwise it leaves the position alone and returns false. *)
Theorem cell_index_advance_finish_spec : forall rs, 1 <= Z.of_nat (length rs) ->
  let n := Z.of_nat (length rs) in
  (ri_Done rs (ri_Finish rs) = true /\ 0 <= ri_Finish rs < n /\
   (forall p, ri_Done rs p = true -> ri_Finish rs <= p) /\ (forall p, ri_Finish rs <= p -> ri_Done rs p = true)) /\
  forall pos k,
   ((pos + k < n - 1 -> ri_Advance rs pos k = (pos + k, true)) /\
    (n - 1 <= pos + k -> ri_Advance rs pos k = (pos, false)) /\
    (snd (ri_Advance rs pos k) = true <-> pos + k < n - 1) /\
    (0 <= pos -> 0 <= k -> pos + k < n - 1 ->
       0 <= fst (ri_Advance rs pos k) < n - 1 /\ ri_Done rs (fst (ri_Advance rs pos k)) = false)) /\
   (0 <= k -> pos + k < n - 1 -> ri_Advance rs pos k = (Nat.iter (Z.to_nat k) (ri_Next rs false) pos, true)).
Proof. intros rs H. split; [exact (ri_Finish_done rs H)|]. intros pos k. split; [exact (ri_Advance_spec rs pos k)|exact (ri_Advance_iter_Next rs pos k)]. Qed.
Print Assumptions cell_index_advance_finish_spec.

(** Prev inverts Next: on the plain iterator everywhere; on the non-empty iterator from every
    non-empty, non-Done position; and Next inverts a successful non-empty Prev taken from a position
    where the non-empty iterator can stand (non-empty or Done). *)
Theorem cell_index_prev_inverts_next : forall rs, 1 <= Z.of_nat (length rs) ->
  let n := Z.of_nat (length rs) in
  (forall pos,
    (0 < pos -> ri_Prev rs false pos = (pos - 1, true) /\ ri_Next rs false (pos - 1) = pos) /\
    (pos = 0 -> ri_Prev rs false pos = (0, false)) /\
    (0 <= pos -> ri_Prev rs false (ri_Next rs false pos) = (pos, true))) /\
  (forall p, 0 <= p < n - 1 -> ri_IsEmpty rs p = false ->
    p < ri_Next rs true p <= n - 1 /\ ri_Prev rs true (ri_Next rs true p) = (p, true)) /\
  (forall pos, (0 <= pos <= n - 1 /\ (pos < n - 1 -> ri_IsEmpty rs pos = false)) ->
    snd (ri_Prev rs true pos) = true -> ri_Next rs true (fst (ri_Prev rs true pos)) = pos).
Proof. intros rs H. split; [exact (ri_Prev_plain rs)|]. split; [exact (ri_Prev_Next_nonempty rs)|exact (ri_Next_Prev_nonempty rs H)]. Qed.
Print Assumptions cell_index_prev_inverts_next.

(** the non-empty Prev from any position in range: it returns true exactly when some earlier range is
    non-empty, and then stands on the CLOSEST one; otherwise it returns false and leaves the iterator
    where Begin puts it, which is the starting position if that was non-empty or Done. *)
Theorem cell_index_nonempty_prev_is_closest_nonempty_predecessor : forall rs, 1 <= Z.of_nat (length rs) ->
  let n := Z.of_nat (length rs) in
  forall pos, 0 <= pos <= n - 1 ->
  let r := ri_Prev rs true pos in
  (snd r = true ->
     0 <= fst r < pos /\ ri_IsEmpty rs (fst r) = false /\ forall j, fst r < j < pos -> ri_IsEmpty rs j = true) /\
  (snd r = false ->
     (forall j, 0 <= j < pos -> ri_IsEmpty rs j = true) /\ fst r = ri_Begin rs true /\
     ((0 <= pos <= n - 1 /\ (pos < n - 1 -> ri_IsEmpty rs pos = false)) -> fst r = pos)) /\
  (snd r = true <-> exists q, 0 <= q < pos /\ ri_IsEmpty rs q = false).
Proof. exact ri_Prev_nonempty_spec. Qed.
Print Assumptions cell_index_nonempty_prev_is_closest_nonempty_predecessor.


(** invariant over histories ([ri_run]: the positions after each operation).
    [ib_legal rs adv nonEmpty pos ops] follows the state of [ri_run] and says: OpNext is only applied
    when the current position is not Done, and OpAdvance k only if [adv = true], and then with 0 <= k.
    Non-empty iterator, started on a non-empty range or on the Done position, with
    Begin / Next / Prev / Seek t / Finish: after every operation it is in range and stands on a
    non-empty range unless it is Done.  OpAdvance is EXCLUDED ([adv = false]): the non-empty iterator
    inherits Advance unfiltered and it may land on an empty range
    (Proofs/C11_IterBack.v, [ib_history_advance_refuted]).
    Plain iterator, all six operations (Advance with 0 <= k): it stays within 0..n-1. *)
Theorem cell_index_nonempty_iterator_stays_on_nonempty_ranges : forall rs, 1 <= Z.of_nat (length rs) ->
  let n := Z.of_nat (length rs) in
  (forall ops pos0, (0 <= pos0 <= n - 1 /\ (pos0 < n - 1 -> ri_IsEmpty rs pos0 = false)) ->
     ib_legal rs false true pos0 ops ->
     Forall (fun p => 0 <= p <= n - 1 /\ (p < n - 1 -> ri_IsEmpty rs p = false)) (map fst (ri_run rs true pos0 ops))) /\
  (forall ops pos0, 0 <= pos0 <= n - 1 -> ib_legal rs true false pos0 ops ->
     Forall (fun p => 0 <= p <= n - 1) (map fst (ri_run rs false pos0 ops))).
Proof. intros rs H. split; [exact (ib_history_stop rs H)|exact (ib_history_plain_range rs H)]. Qed.
Print Assumptions cell_index_nonempty_iterator_stays_on_nonempty_ranges.


(** * s2intersect.Find (model Model/Intersect.v) -----------------------------------
    [members cus x] = the sorted list of the indices of the unions covering leaf x. *)
Theorem find_spec : forall cus, Forall (Forall valid) cus ->
  let R := s2i_Find cus in
  (forall S cells, In (S, cells) R ->
      (2 <= length S)%nat /\ normal cells /\ cells <> [] /\
      forall x, leaf x -> (cov cells x <-> members cus x = S)) /\
  (forall x, leaf x -> (2 <= length (members cus x))%nat -> exists cells, In (members cus x, cells) R) /\
  NoDup (map fst R).
Proof. exact C11_Find.find_spec. Qed.
Print Assumptions find_spec.

(** the code before commit aa117fb (intervalOverlaps without the [lastStart <= endLeaf] guard)
    violates [find_spec]: it returns an index set with an empty cell union *)
Theorem find_old_refuted : exists cus, Forall (Forall valid) cus /\ exists S, In (S, []) (s2i_Find_old cus).
Proof. exact C11_Find.find_old_refuted. Qed.
Print Assumptions find_old_refuted.
