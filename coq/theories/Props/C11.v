(** C11 — Cell-union algebra is exact set algebra on leaf cells.
    Only statements; every proof is [exact] of a lemma in Proofs/C11_*.v.

    Vocabulary (definitions in Proofs/C11_Bits.v, C11_Cells.v, C11_Normalize.v, C11_Search.v):
    - [s2_CellID_*], [s2_areSiblings]: Gallina translations of s2/cellid.go and
      s2/cellunion.go, regenerated from /repo on every run (Gen/CellID.v);
    - [cu_*]: the hand-written executable model of the slice algorithms of
      s2/cellunion.go (Model/CellUnion.v), tied to /repo by the correspondence;
    - [valid c]      := 0 <= c < 2^64 /\ s2_CellID_IsValid c = true;
    - [leaf x]       := x mod 2 = 1   (for uint64 x this is s2_CellID_IsLeaf x = true);
    - [covers c x]   := RangeMin c <= x <= RangeMax c;
    - [cov cu x]     := exists c, In c cu /\ covers c x;   the leaf set of cu is {x | leaf x /\ cov cu x};
    - [before a b]   := RangeMax a < RangeMin b;
    - [normal l]     := Forall valid l /\ StronglySorted before l /\
                        no four consecutive entries pass areSiblings;
    - [NSset l]      := no valid non-leaf cell has all its four Children in l;
    - [covered N c]  := every leaf of c is a leaf of N;
    - [sorted_cu l]  := Forall valid l /\ StronglySorted before l  (IsValid() of the library);
    - [limit_id e]   := e is odd and 0 < e <= 6*2^61 + 1 (a leaf id or the end sentinel). *)
From Coq Require Import ZArith List Bool Sorted.
From Geo Require Import Base.GoPrim Gen.CellID Model.CellUnion.
From Geo Require Import Proofs.C11_Bits Proofs.C11_Cells Proofs.C11_Normalize Proofs.C11_Unique Proofs.C11_Search
  Proofs.C11_SetOps Proofs.C11_Range Proofs.C11_Checks Proofs.C11_SetOps2 Proofs.C11_Denorm Proofs.C11_Examples.
Import ListNotations.
Local Open Scope Z_scope.

(** * Cell ids --------------------------------------------------------------- *)
Theorem valid_id_is_odd_multiple_of_power_of_four : forall c, valid c -> exists s, cellform c s.
Proof. exact valid_cellform. Qed.
Print Assumptions valid_id_is_odd_multiple_of_power_of_four.

Theorem odd_multiple_of_power_of_four_is_valid : forall c s, cellform c s -> valid c.
Proof. exact cellform_valid. Qed.
Print Assumptions odd_multiple_of_power_of_four_is_valid.

Theorem leaf_ids_are_the_odd_ids : forall x, u64 x -> (s2_CellID_IsLeaf x = true <-> leaf x).
Proof. exact isleaf_spec. Qed.
Print Assumptions leaf_ids_are_the_odd_ids.

Theorem cells_are_nested_or_disjoint : forall c d, valid c -> valid d ->
  nested_in c d \/ nested_in d c \/ rmax c < rmin d \/ rmax d < rmin c.
Proof. exact laminar. Qed.
Print Assumptions cells_are_nested_or_disjoint.

Theorem cell_contains_iff_ranges_nested : forall c o, valid c -> valid o ->
  (s2_CellID_Contains c o = true <-> nested_in o c).
Proof. exact contains_nested. Qed.
Print Assumptions cell_contains_iff_ranges_nested.

Theorem children_tile_their_parent : forall p, valid p -> ~ leaf p ->
  exists a b c d, s2_CellID_Children p = [a; b; c; d] /\ tiles4 p a b c d /\
                  s2_areSiblings a b c d = true /\ a < b /\ b < c /\ c < d.
Proof. exact children_spec. Qed.
Print Assumptions children_tile_their_parent.

Theorem areSiblings_accepts_only_the_four_children : forall a b c d,
  valid a -> valid b -> valid c -> valid d -> a < b -> b < c -> c < d ->
  s2_areSiblings a b c d = true ->
  tiles4 (s2_CellID_immediateParent d) a b c d /\ valid (s2_CellID_immediateParent d).
Proof. exact siblings_tiles. Qed.
Print Assumptions areSiblings_accepts_only_the_four_children.

(** * Normalize -------------------------------------------------------------- *)
Theorem normalize_leaves : forall cu, Forall valid cu ->
  forall x, leaf x -> (cov (cu_Normalize cu) x <-> cov cu x).
Proof. intros cu V. exact (proj2 (normalize_spec cu V)). Qed.
Print Assumptions normalize_leaves.

Theorem normalize_normal : forall cu, Forall valid cu -> normal (cu_Normalize cu).
Proof. intros cu V. exact (proj1 (normalize_spec cu V)). Qed.
Print Assumptions normalize_normal.

Theorem normal_has_no_four_children : forall l, normal l -> NSset l.
Proof. exact normal_NSset. Qed.
Print Assumptions normal_has_no_four_children.

Theorem normal_is_maximal_cells_of_leaf_set : forall N c, normal N -> valid c ->
  (In c N <-> covered N c /\ (s2_CellID_isFace c = true \/ ~ covered N (s2_CellID_immediateParent c))).
Proof. exact member_char. Qed.
Print Assumptions normal_is_maximal_cells_of_leaf_set.

Theorem normal_unique : forall N1 N2, normal N1 -> normal N2 ->
  (forall x, leaf x -> (cov N1 x <-> cov N2 x)) -> N1 = N2.
Proof. exact C11_Unique.normal_unique. Qed.
Print Assumptions normal_unique.

Theorem normalize_canonical : forall a b, Forall valid a -> Forall valid b ->
  (forall x, leaf x -> (cov a x <-> cov b x)) -> cu_Normalize a = cu_Normalize b.
Proof. exact C11_Unique.normalize_canonical. Qed.
Print Assumptions normalize_canonical.

Theorem normalize_idempotent : forall cu, Forall valid cu ->
  cu_Normalize (cu_Normalize cu) = cu_Normalize cu.
Proof. exact C11_Unique.normalize_idempotent. Qed.
Print Assumptions normalize_idempotent.

Theorem normalize_fixes_normal : forall l, normal l -> cu_Normalize l = l.
Proof. exact normalize_fixpoint. Qed.
Print Assumptions normalize_fixes_normal.

(** * Membership tests ------------------------------------------------------- *)
Theorem contains_cellid_spec : forall cu id, normal cu -> valid id ->
  (cu_ContainsCellID cu id = true <-> covered cu id).
Proof. exact C11_Search.contains_cellid_spec. Qed.
Print Assumptions contains_cellid_spec.

Theorem intersects_cellid_spec : forall cu id, sorted_cu cu -> valid id ->
  (cu_IntersectsCellID cu id = true <-> exists x, leaf x /\ covers id x /\ cov cu x).
Proof. exact C11_Search.intersects_cellid_spec. Qed.
Print Assumptions intersects_cellid_spec.

Theorem contains_union_spec : forall cu o, normal cu -> Forall valid o ->
  (cu_Contains cu o = true <-> forall x, leaf x -> cov o x -> cov cu x).
Proof. exact C11_Search.contains_union_spec. Qed.
Print Assumptions contains_union_spec.

Theorem intersects_union_spec : forall cu o, Forall valid cu -> sorted_cu o ->
  (cu_Intersects cu o = true <-> exists x, leaf x /\ cov cu x /\ cov o x).
Proof. exact C11_Search.intersects_union_spec. Qed.
Print Assumptions intersects_union_spec.

(** * Set operations --------------------------------------------------------- *)
Theorem union_leaves : forall cus, Forall (Forall valid) cus ->
  normal (cu_FromUnion cus) /\
  forall x, leaf x -> (cov (cu_FromUnion cus) x <-> exists cu, In cu cus /\ cov cu x).
Proof. exact C11_SetOps.union_spec. Qed.
Print Assumptions union_leaves.

Theorem difference_leaves : forall x y, sorted_cu x -> sorted_cu y ->
  sorted_cu (cu_FromDifference x y) /\
  forall t, leaf t -> (cov (cu_FromDifference x y) t <-> cov x t /\ ~ cov y t).
Proof. exact C11_SetOps.difference_spec. Qed.
Print Assumptions difference_leaves.

Theorem difference_normal : forall x y, normal x -> sorted_cu y -> normal (cu_FromDifference x y).
Proof. exact C11_SetOps.difference_normal. Qed.
Print Assumptions difference_normal.

Theorem intersection_leaves : forall x y, sorted_cu x -> sorted_cu y ->
  normal (cu_FromIntersection x y) /\
  forall t, leaf t -> (cov (cu_FromIntersection x y) t <-> cov x t /\ cov y t).
Proof. exact C11_SetOps.intersection_spec. Qed.
Print Assumptions intersection_leaves.

(** * Ranges ----------------------------------------------------------------- *)
Theorem from_range_covers_exactly_and_is_normal : forall b e, valid b -> leaf b -> limit_id e -> b <= e ->
  normal (cu_FromRange b e) /\ forall x, leaf x -> (cov (cu_FromRange b e) x <-> b <= x < e).
Proof. exact from_range_spec. Qed.
Print Assumptions from_range_covers_exactly_and_is_normal.

Theorem from_range_minimal : forall b e cu, valid b -> leaf b -> limit_id e -> b <= e -> Forall valid cu ->
  (forall x, leaf x -> (cov cu x <-> b <= x < e)) ->
  cu_Normalize cu = cu_FromRange b e /\ (length (cu_FromRange b e) <= length cu)%nat.
Proof. exact C11_Range.from_range_minimal. Qed.
Print Assumptions from_range_minimal.

Theorem max_tile_spec : forall c e, valid c -> u64 e -> leaf e -> rmin c < e ->
  maxtile_ok e (cu_MaxTile c e) /\ rmin (cu_MaxTile c e) = rmin c.
Proof. exact maxtile_spec. Qed.
Print Assumptions max_tile_spec.

Theorem normal_form_is_shortest : forall N cu, normal N -> Forall valid cu ->
  (forall x, leaf x -> (cov cu x <-> cov N x)) -> (length N <= length cu)%nat.
Proof. exact normal_shortest. Qed.
Print Assumptions normal_form_is_shortest.

(** * The library's own checks decide the predicates used above --------------- *)
Theorem isvalid_decides_sorted_disjoint : forall l, Forall u64 l -> (cu_IsValid l = true <-> sorted_cu l).
Proof. exact isvalid_spec. Qed.
Print Assumptions isvalid_decides_sorted_disjoint.

Theorem isnormalized_decides_normal : forall l, Forall u64 l -> (cu_IsNormalized l = true <-> normal l).
Proof. exact isnormalized_spec. Qed.
Print Assumptions isnormalized_decides_normal.

Theorem normalize_passes_IsNormalized : forall cu, Forall valid cu -> cu_IsNormalized (cu_Normalize cu) = true.
Proof. exact C11_Checks.normalize_passes_IsNormalized. Qed.
Print Assumptions normalize_passes_IsNormalized.

(** * Intersection with one cell, Denormalize ------------------------------------ *)
Theorem intersection_with_cellid_leaves : forall x id, normal x -> valid id ->
  normal (cu_FromIntersectionWithCellID x id) /\
  forall t, leaf t -> (cov (cu_FromIntersectionWithCellID x id) t <-> cov x t /\ covers id t).
Proof. exact intersection_with_cellid_spec. Qed.
Print Assumptions intersection_with_cellid_leaves.

Theorem denormalize_leaves_and_levels : forall cu minLevel levelMod,
  Forall valid cu -> 0 <= minLevel <= 30 -> 1 <= levelMod ->
  Forall valid (cu_Denormalize cu minLevel levelMod) /\
  (forall x, leaf x -> (cov (cu_Denormalize cu minLevel levelMod) x <-> cov cu x)) /\
  (levelMod <= 3 ->
   Forall (fun c => minLevel <= s2_CellID_Level c /\
              ((s2_CellID_Level c - minLevel) mod levelMod = 0 \/ s2_CellID_Level c = 30))
          (cu_Denormalize cu minLevel levelMod)).
Proof. exact denormalize_spec. Qed.
Print Assumptions denormalize_leaves_and_levels.

Theorem level_is_thirty_minus_height : forall c s, cellform c s -> s2_CellID_Level c = 30 - s.
Proof. exact level_form. Qed.
Print Assumptions level_is_thirty_minus_height.

(** * Not yet proved in Coq (no Coq model; checked on every run by search [S] with the
      independent leaf-interval oracle of harness/cmd/obs/c11).

  TODO cell_index_spec (s2/cell_index.go Build + CellIndexRangeIterator +
       CellIndexContentsIterator + non-empty iteration; missing: a state-machine model of Build's
       delta sort / label stack and of the iterators):
    after Build, the range nodes partition [first leaf, sentinel); for every leaf x, the contents
    iterator started on x's range enumerates exactly {(c,label) added | covers c x}; the non-empty
    iterator skips exactly the ranges with no contents; StartUnion reports each (cell,label) once
    over an increasing sweep.

  TODO find_spec (s2/s2intersect/s2intersect.go Find; missing: a model of the limit sweep):
    for normalized unions cus, Find cus returns for each index set S with |S| >= 2 that occurs exactly
    the leaves covered by precisely the unions in S, as a normalized non-empty union; nothing else. *)
