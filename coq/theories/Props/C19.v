(** C19 — Interval, rectangle and cap algebra is sound with respect to point membership.
    Only statements; every proof is [exact] of a lemma in Proofs/. The functions named
    r1_* / s1_* are the Gallina translations regenerated from /repo on every run. *)
From Coq Require Import Reals Floats Bool.
From Geo Require Import Base.GoPrim Base.F64 Gen.R1 Proofs.C19_R1.
Local Open Scope R_scope.

(** r1.Interval ------------------------------------------------------------ *)
Theorem r1_contains_is_membership : forall i p, wf1 i -> nonnan p ->
  (r1_Interval_Contains i p = true <-> mem1 i p).
Proof. exact contains_mem. Qed.
Print Assumptions r1_contains_is_membership.

Theorem r1_union_contains_both : forall a b p, wf1 a -> wf1 b -> nonnan p ->
  mem1 a p \/ mem1 b p -> mem1 (r1_Interval_Union a b) p.
Proof. exact union_sound. Qed.
Print Assumptions r1_union_contains_both.

Theorem r1_union_within_hull : forall a b p, wf1 a -> wf1 b -> nonnan p ->
  mem1 (r1_Interval_Union a b) p ->
  (exists q, nonnan q /\ (mem1 a q \/ mem1 b q) /\ rank q <= rank p) /\
  (exists q, nonnan q /\ (mem1 a q \/ mem1 b q) /\ rank p <= rank q).
Proof. exact union_hull. Qed.
Print Assumptions r1_union_within_hull.

Theorem r1_intersection_exact : forall a b p, wf1 a -> wf1 b -> nonnan p ->
  (mem1 (r1_Interval_Intersection a b) p <-> mem1 a p /\ mem1 b p).
Proof. exact intersection_exact. Qed.
Print Assumptions r1_intersection_exact.

Theorem r1_contains_interval_iff_subset : forall a b, wf1 a -> wf1 b ->
  (r1_Interval_ContainsInterval a b = true <-> forall p, nonnan p -> mem1 b p -> mem1 a p).
Proof. exact contains_interval_spec. Qed.
Print Assumptions r1_contains_interval_iff_subset.

Theorem r1_intersects_iff_common_point : forall a b, wf1 a -> wf1 b ->
  (r1_Interval_Intersects a b = true <-> exists p, nonnan p /\ mem1 a p /\ mem1 b p).
Proof. exact intersects_spec. Qed.
Print Assumptions r1_intersects_iff_common_point.

Theorem r1_addpoint_keeps_everything : forall i p q, wf1 i -> nonnan p -> nonnan q ->
  (mem1 i q \/ rank q = rank p) -> mem1 (r1_Interval_AddPoint i p) q.
Proof. exact addpoint_sound. Qed.
Print Assumptions r1_addpoint_keeps_everything.

Theorem r1_clamp_lands_inside : forall i p, wf1 i -> nonnan p -> r1_Interval_IsEmpty i = false ->
  nonnan (r1_Interval_ClampPoint i p) /\ mem1 i (r1_Interval_ClampPoint i p).
Proof. exact clamp_lands_inside. Qed.
Print Assumptions r1_clamp_lands_inside.

Theorem r1_results_valid : forall a b, wf1 a -> wf1 b ->
  wf1 (r1_Interval_Union a b) /\ wf1 (r1_Interval_Intersection a b).
Proof. intros a b Ha Hb. split; [exact (union_wf a b Ha Hb) | exact (intersection_wf a b Ha Hb)]. Qed.
Print Assumptions r1_results_valid.

Theorem r1_empty_iff_no_member : forall i, wf1 i ->
  (r1_Interval_IsEmpty i = true <-> forall p, nonnan p -> ~ mem1 i p).
Proof. exact isempty_spec. Qed.
Print Assumptions r1_empty_iff_no_member.
