(** C19 — Interval, rectangle and cap algebra is sound with respect to point membership.
    Only statements; every proof is [exact] of a lemma in Proofs/. The functions named
    r1_* / s1_* are the Gallina translations regenerated from /repo on every run. *)
From Coq Require Import Reals Floats Bool.
From Geo Require Import Base.GoPrim Base.F64 Gen.R1 Gen.S1 Proofs.C19_R1.
From Geo Require Import Proofs.C19_S1 Proofs.C19_S1_Union Proofs.C19_S1_Inter Proofs.C19_S1_Rel Proofs.C19_S1_Ops.
Local Open Scope R_scope.

(** r1.Interval ------------------------------------------------------------ *)
Theorem r1_contains_is_membership : forall i p, wf1 i -> nonnan p ->
  (r1_Interval_Contains i p = true <-> mem1 i p).
Proof. exact contains_mem. Qed.
Print Assumptions r1_contains_is_membership.

Theorem r1_union_contains_both : forall a b p, wf1 a -> wf1 b -> nonnan p ->
  mem1 a p \/ mem1 b p -> mem1 (r1_Interval_Union a b) p.
Proof. exact union_sound. Qed.
Print Assumptions r1_union_contains_both.

Theorem r1_union_within_hull : forall a b p, wf1 a -> wf1 b -> nonnan p ->
  mem1 (r1_Interval_Union a b) p ->
  (exists q, nonnan q /\ (mem1 a q \/ mem1 b q) /\ rank q <= rank p) /\
  (exists q, nonnan q /\ (mem1 a q \/ mem1 b q) /\ rank p <= rank q).
Proof. exact union_hull. Qed.
Print Assumptions r1_union_within_hull.

Theorem r1_intersection_exact : forall a b p, wf1 a -> wf1 b -> nonnan p ->
  (mem1 (r1_Interval_Intersection a b) p <-> mem1 a p /\ mem1 b p).
Proof. exact intersection_exact. Qed.
Print Assumptions r1_intersection_exact.

Theorem r1_contains_interval_iff_subset : forall a b, wf1 a -> wf1 b ->
  (r1_Interval_ContainsInterval a b = true <-> forall p, nonnan p -> mem1 b p -> mem1 a p).
Proof. exact contains_interval_spec. Qed.
Print Assumptions r1_contains_interval_iff_subset.

Theorem r1_intersects_iff_common_point : forall a b, wf1 a -> wf1 b ->
  (r1_Interval_Intersects a b = true <-> exists p, nonnan p /\ mem1 a p /\ mem1 b p).
Proof. exact intersects_spec. Qed.
Print Assumptions r1_intersects_iff_common_point.

Theorem r1_addpoint_keeps_everything : forall i p q, wf1 i -> nonnan p -> nonnan q ->
  (mem1 i q \/ rank q = rank p) -> mem1 (r1_Interval_AddPoint i p) q.
Proof. exact addpoint_sound. Qed.
Print Assumptions r1_addpoint_keeps_everything.

Theorem r1_clamp_lands_inside : forall i p, wf1 i -> nonnan p -> r1_Interval_IsEmpty i = false ->
  nonnan (r1_Interval_ClampPoint i p) /\ mem1 i (r1_Interval_ClampPoint i p).
Proof. exact clamp_lands_inside. Qed.
Print Assumptions r1_clamp_lands_inside.

Theorem r1_results_valid : forall a b, wf1 a -> wf1 b ->
  wf1 (r1_Interval_Union a b) /\ wf1 (r1_Interval_Intersection a b).
Proof. intros a b Ha Hb. split; [exact (union_wf a b Ha Hb) | exact (intersection_wf a b Ha Hb)]. Qed.
Print Assumptions r1_results_valid.

Theorem r1_empty_iff_no_member : forall i, wf1 i ->
  (r1_Interval_IsEmpty i = true <-> forall p, nonnan p -> ~ mem1 i p).
Proof. exact isempty_spec. Qed.
Print Assumptions r1_empty_iff_no_member.

(** s1.Interval ------------------------------------------------------------
    Points of the circle are reals x with -pi <= x <= pi ([inrange], pi being the float
    constant math.Pi), -pi and pi denoting the same point; [mem_s1 i x] is membership of
    the point in the interval (defined in Proofs/C19_S1.v without reference to the code);
    [valid_s1] is the specification-side validity, equal to the code's IsValid. All
    operands range over every valid representation: normal, inverted, empty, full,
    singleton, endpoints at +-pi. *)
Theorem s1_isvalid_is_validity : forall i, s1_Interval_IsValid i = true <-> valid_s1 i.
Proof. exact valid_iff. Qed.
Print Assumptions s1_isvalid_is_validity.

Theorem s1_contains_is_membership : forall i p, valid_s1 i -> vpt p ->
  (s1_Interval_Contains i p = true <-> mem_s1f i p).
Proof. exact s1_contains_mem. Qed.
Print Assumptions s1_contains_is_membership.

Theorem s1_empty_iff_no_member : forall i, valid_s1 i ->
  (s1_Interval_IsEmpty i = true <-> forall x, inrange x -> ~ mem_s1 i x).
Proof. exact s1_isempty_spec. Qed.
Print Assumptions s1_empty_iff_no_member.

Theorem s1_full_iff_every_member : forall i, valid_s1 i ->
  (s1_Interval_IsFull i = true <-> forall x, inrange x -> mem_s1 i x).
Proof. exact s1_isfull_spec. Qed.
Print Assumptions s1_full_iff_every_member.

Theorem s1_union_contains_both : forall a b x, valid_s1 a -> valid_s1 b -> inrange x ->
  mem_s1 a x \/ mem_s1 b x -> mem_s1 (s1_Interval_Union a b) x.
Proof. exact s1_union_sound. Qed.
Print Assumptions s1_union_contains_both.

Theorem s1_intersection_contains_common : forall a b x, valid_s1 a -> valid_s1 b -> inrange x ->
  mem_s1 a x -> mem_s1 b x -> mem_s1 (s1_Interval_Intersection a b) x.
Proof. exact s1_intersection_complete. Qed.
Print Assumptions s1_intersection_contains_common.

Theorem s1_intersection_nothing_outside_both : forall a b x, valid_s1 a -> valid_s1 b -> inrange x ->
  mem_s1 (s1_Interval_Intersection a b) x -> mem_s1 a x \/ mem_s1 b x.
Proof. exact s1_intersection_within. Qed.
Print Assumptions s1_intersection_nothing_outside_both.

Theorem s1_intersection_exact_when_connected : forall a b x, valid_s1 a -> valid_s1 b -> inrange x ->
  ~ (mem_s1f a (s1_Interval_Lo b) /\ mem_s1f a (s1_Interval_Hi b)) ->
  (mem_s1 (s1_Interval_Intersection a b) x <-> mem_s1 a x /\ mem_s1 b x).
Proof. exact s1_intersection_exact_unless_two_arcs. Qed.
Print Assumptions s1_intersection_exact_when_connected.

(** "exactly the common points" is false of s1 (by design: two arcs are not an interval) *)
Theorem s1_intersection_exactness_refuted : exists a b p,
  s1_Interval_IsValid a = true /\ s1_Interval_IsValid b = true /\
  s1_Interval_Contains (s1_Interval_Intersection a b) p = true /\
  s1_Interval_Contains b p = false.
Proof. exact s1_intersection_not_exact. Qed.
Print Assumptions s1_intersection_exactness_refuted.

Theorem s1_contains_interval_iff_subset : forall a b, valid_s1 a -> valid_s1 b ->
  (s1_Interval_ContainsInterval a b = true <-> forall x, inrange x -> mem_s1 b x -> mem_s1 a x).
Proof. exact s1_contains_interval_spec. Qed.
Print Assumptions s1_contains_interval_iff_subset.

Theorem s1_intersects_iff_common_point : forall a b, valid_s1 a -> valid_s1 b ->
  (s1_Interval_Intersects a b = true <-> exists x, inrange x /\ (mem_s1 a x /\ mem_s1 b x)).
Proof. exact s1_intersects_spec. Qed.
Print Assumptions s1_intersects_iff_common_point.

Theorem s1_addpoint_keeps_everything : forall i p x, valid_s1 i -> vpt p -> inrange x ->
  mem_s1 i x \/ normR x = normR (rank p) -> mem_s1 (s1_Interval_AddPoint i p) x.
Proof. exact s1_addpoint_sound. Qed.
Print Assumptions s1_addpoint_keeps_everything.

Theorem s1_project_lands_inside : forall i p, valid_s1 i -> vpt p -> s1_Interval_IsEmpty i = false ->
  vpt (s1_Interval_Project i p) /\ mem_s1f i (s1_Interval_Project i p).
Proof. exact s1_project_inside. Qed.
Print Assumptions s1_project_lands_inside.

Theorem s1_complement_covers_everything : forall i x, valid_s1 i -> inrange x ->
  mem_s1 i x \/ mem_s1 (s1_Interval_Complement i) x.
Proof. exact s1_complement_covers. Qed.
Print Assumptions s1_complement_covers_everything.

Theorem s1_complement_shares_only_endpoints : forall i x, valid_s1 i -> inrange x ->
  mem_s1 i x -> mem_s1 (s1_Interval_Complement i) x ->
  normR x = normR (rank (s1_Interval_Lo i)) \/ normR x = normR (rank (s1_Interval_Hi i)).
Proof. exact s1_complement_overlap_only_endpoints. Qed.
Print Assumptions s1_complement_shares_only_endpoints.

Theorem s1_point_pair_contains_both : forall p q, vpt p -> vpt q ->
  mem_s1f (s1_IntervalFromPointPair p q) p /\ mem_s1f (s1_IntervalFromPointPair p q) q.
Proof. exact s1_from_point_pair_contains. Qed.
Print Assumptions s1_point_pair_contains_both.

Theorem s1_results_valid : forall a b p q, valid_s1 a -> valid_s1 b -> vpt p -> vpt q ->
  valid_s1 (s1_Interval_Union a b) /\ valid_s1 (s1_Interval_Intersection a b) /\
  valid_s1 (s1_Interval_AddPoint a p) /\ valid_s1 (s1_Interval_Complement a) /\
  valid_s1 (s1_IntervalFromPointPair p q) /\ valid_s1 (s1_IntervalFromEndpoints p q) /\
  valid_s1 s1_EmptyInterval /\ valid_s1 s1_FullInterval.
Proof.
  intros a b p q Ha Hb Hp Hq.
  exact (conj (s1_union_valid a b Ha Hb) (conj (s1_intersection_valid a b Ha Hb)
        (conj (s1_addpoint_valid a p Ha (proj1 Hp)) (conj (s1_complement_valid a Ha)
        (conj (s1_from_point_pair_valid p q Hp Hq) (conj (s1_from_endpoints_valid p q Hp Hq)
        (conj s1_empty_valid s1_full_valid))))))).
Qed.
Print Assumptions s1_results_valid.
