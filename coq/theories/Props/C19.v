(** C19 — Interval, rectangle and cap algebra is sound with respect to point membership.
    Only statements; every proof is [exact] of a lemma in Proofs/. The functions named
    r1_* / s1_* are the Gallina translations regenerated from /repo on every run. *)
From Coq Require Import Reals Floats Bool.
From Geo Require Import Base.GoPrim Base.F64 Gen.R1 Gen.S1 Proofs.C19_R1.
From Geo Require Import Gen.R2 Gen.S2Rect Gen.S2Cap Proofs.C19_R2 Proofs.C19_S2Rect Proofs.C19_Expanded Proofs.C19_Cap Proofs.C19_S1_Expanded Proofs.C19_Remainder Proofs.C19_S2Rect_Expanded.
From Geo Require Import Proofs.C19_S1 Proofs.C19_S1_Union Proofs.C19_S1_Inter Proofs.C19_S1_Rel Proofs.C19_S1_Ops.
Local Open Scope R_scope.

(** r1.Interval ------------------------------------------------------------ *)
Theorem r1_contains_is_membership : forall i p, wf1 i -> nonnan p ->
  (r1_Interval_Contains i p = true <-> mem1 i p).
Proof. exact contains_mem. Qed.
Print Assumptions r1_contains_is_membership.

Theorem r1_union_contains_both : forall a b p, wf1 a -> wf1 b -> nonnan p ->
  mem1 a p \/ mem1 b p -> mem1 (r1_Interval_Union a b) p.
Proof. exact union_sound. Qed.
Print Assumptions r1_union_contains_both.

Theorem r1_union_within_hull : forall a b p, wf1 a -> wf1 b -> nonnan p ->
  mem1 (r1_Interval_Union a b) p ->
  (exists q, nonnan q /\ (mem1 a q \/ mem1 b q) /\ rank q <= rank p) /\
  (exists q, nonnan q /\ (mem1 a q \/ mem1 b q) /\ rank p <= rank q).
Proof. exact union_hull. Qed.
Print Assumptions r1_union_within_hull.

Theorem r1_intersection_exact : forall a b p, wf1 a -> wf1 b -> nonnan p ->
  (mem1 (r1_Interval_Intersection a b) p <-> mem1 a p /\ mem1 b p).
Proof. exact intersection_exact. Qed.
Print Assumptions r1_intersection_exact.

Theorem r1_contains_interval_iff_subset : forall a b, wf1 a -> wf1 b ->
  (r1_Interval_ContainsInterval a b = true <-> forall p, nonnan p -> mem1 b p -> mem1 a p).
Proof. exact contains_interval_spec. Qed.
Print Assumptions r1_contains_interval_iff_subset.

Theorem r1_intersects_iff_common_point : forall a b, wf1 a -> wf1 b ->
  (r1_Interval_Intersects a b = true <-> exists p, nonnan p /\ mem1 a p /\ mem1 b p).
Proof. exact intersects_spec. Qed.
Print Assumptions r1_intersects_iff_common_point.

Theorem r1_addpoint_keeps_everything : forall i p q, wf1 i -> nonnan p -> nonnan q ->
  (mem1 i q \/ rank q = rank p) -> mem1 (r1_Interval_AddPoint i p) q.
Proof. exact addpoint_sound. Qed.
Print Assumptions r1_addpoint_keeps_everything.

Theorem r1_clamp_lands_inside : forall i p, wf1 i -> nonnan p -> r1_Interval_IsEmpty i = false ->
  nonnan (r1_Interval_ClampPoint i p) /\ mem1 i (r1_Interval_ClampPoint i p).
Proof. exact clamp_lands_inside. Qed.
Print Assumptions r1_clamp_lands_inside.

Theorem r1_results_valid : forall a b, wf1 a -> wf1 b ->
  wf1 (r1_Interval_Union a b) /\ wf1 (r1_Interval_Intersection a b).
Proof. intros a b Ha Hb. split; [exact (union_wf a b Ha Hb) | exact (intersection_wf a b Ha Hb)]. Qed.
Print Assumptions r1_results_valid.

Theorem r1_empty_iff_no_member : forall i, wf1 i ->
  (r1_Interval_IsEmpty i = true <-> forall p, nonnan p -> ~ mem1 i p).
Proof. exact isempty_spec. Qed.
Print Assumptions r1_empty_iff_no_member.

(** s1.Interval ------------------------------------------------------------
    Points of the circle are reals x with -pi <= x <= pi ([inrange], pi being the float
    constant math.Pi), -pi and pi denoting the same point; [mem_s1 i x] is membership of
    the point in the interval (defined in Proofs/C19_S1.v without reference to the code);
    [valid_s1] is the specification-side validity, equal to the code's IsValid. All
    operands range over every valid representation: normal, inverted, empty, full,
    singleton, endpoints at +-pi. *)
Theorem s1_isvalid_is_validity : forall i, s1_Interval_IsValid i = true <-> valid_s1 i.
Proof. exact valid_iff. Qed.
Print Assumptions s1_isvalid_is_validity.

Theorem s1_contains_is_membership : forall i p, valid_s1 i -> vpt p ->
  (s1_Interval_Contains i p = true <-> mem_s1f i p).
Proof. exact s1_contains_mem. Qed.
Print Assumptions s1_contains_is_membership.

Theorem s1_empty_iff_no_member : forall i, valid_s1 i ->
  (s1_Interval_IsEmpty i = true <-> forall x, inrange x -> ~ mem_s1 i x).
Proof. exact s1_isempty_spec. Qed.
Print Assumptions s1_empty_iff_no_member.

Theorem s1_full_iff_every_member : forall i, valid_s1 i ->
  (s1_Interval_IsFull i = true <-> forall x, inrange x -> mem_s1 i x).
Proof. exact s1_isfull_spec. Qed.
Print Assumptions s1_full_iff_every_member.

Theorem s1_union_contains_both : forall a b x, valid_s1 a -> valid_s1 b -> inrange x ->
  mem_s1 a x \/ mem_s1 b x -> mem_s1 (s1_Interval_Union a b) x.
Proof. exact s1_union_sound. Qed.
Print Assumptions s1_union_contains_both.

Theorem s1_intersection_contains_common : forall a b x, valid_s1 a -> valid_s1 b -> inrange x ->
  mem_s1 a x -> mem_s1 b x -> mem_s1 (s1_Interval_Intersection a b) x.
Proof. exact s1_intersection_complete. Qed.
Print Assumptions s1_intersection_contains_common.

Theorem s1_intersection_nothing_outside_both : forall a b x, valid_s1 a -> valid_s1 b -> inrange x ->
  mem_s1 (s1_Interval_Intersection a b) x -> mem_s1 a x \/ mem_s1 b x.
Proof. exact s1_intersection_within. Qed.
Print Assumptions s1_intersection_nothing_outside_both.

Theorem s1_intersection_exact_when_connected : forall a b x, valid_s1 a -> valid_s1 b -> inrange x ->
  ~ (mem_s1f a (s1_Interval_Lo b) /\ mem_s1f a (s1_Interval_Hi b)) ->
  (mem_s1 (s1_Interval_Intersection a b) x <-> mem_s1 a x /\ mem_s1 b x).
Proof. exact s1_intersection_exact_unless_two_arcs. Qed.
Print Assumptions s1_intersection_exact_when_connected.

(** "exactly the common points" is false of s1 (by design: two arcs are not an interval) *)
Theorem s1_intersection_exactness_refuted : exists a b p,
  s1_Interval_IsValid a = true /\ s1_Interval_IsValid b = true /\
  s1_Interval_Contains (s1_Interval_Intersection a b) p = true /\
  s1_Interval_Contains b p = false.
Proof. exact s1_intersection_not_exact. Qed.
Print Assumptions s1_intersection_exactness_refuted.

Theorem s1_contains_interval_iff_subset : forall a b, valid_s1 a -> valid_s1 b ->
  (s1_Interval_ContainsInterval a b = true <-> forall x, inrange x -> mem_s1 b x -> mem_s1 a x).
Proof. exact s1_contains_interval_spec. Qed.
Print Assumptions s1_contains_interval_iff_subset.

Theorem s1_intersects_iff_common_point : forall a b, valid_s1 a -> valid_s1 b ->
  (s1_Interval_Intersects a b = true <-> exists x, inrange x /\ (mem_s1 a x /\ mem_s1 b x)).
Proof. exact s1_intersects_spec. Qed.
Print Assumptions s1_intersects_iff_common_point.

Theorem s1_addpoint_keeps_everything : forall i p x, valid_s1 i -> vpt p -> inrange x ->
  mem_s1 i x \/ normR x = normR (rank p) -> mem_s1 (s1_Interval_AddPoint i p) x.
Proof. exact s1_addpoint_sound. Qed.
Print Assumptions s1_addpoint_keeps_everything.

Theorem s1_project_lands_inside : forall i p, valid_s1 i -> vpt p -> s1_Interval_IsEmpty i = false ->
  vpt (s1_Interval_Project i p) /\ mem_s1f i (s1_Interval_Project i p).
Proof. exact s1_project_inside. Qed.
Print Assumptions s1_project_lands_inside.

Theorem s1_complement_covers_everything : forall i x, valid_s1 i -> inrange x ->
  mem_s1 i x \/ mem_s1 (s1_Interval_Complement i) x.
Proof. exact s1_complement_covers. Qed.
Print Assumptions s1_complement_covers_everything.

Theorem s1_complement_shares_only_endpoints : forall i x, valid_s1 i -> inrange x ->
  mem_s1 i x -> mem_s1 (s1_Interval_Complement i) x ->
  normR x = normR (rank (s1_Interval_Lo i)) \/ normR x = normR (rank (s1_Interval_Hi i)).
Proof. exact s1_complement_overlap_only_endpoints. Qed.
Print Assumptions s1_complement_shares_only_endpoints.

Theorem s1_point_pair_contains_both : forall p q, vpt p -> vpt q ->
  mem_s1f (s1_IntervalFromPointPair p q) p /\ mem_s1f (s1_IntervalFromPointPair p q) q.
Proof. exact s1_from_point_pair_contains. Qed.
Print Assumptions s1_point_pair_contains_both.

Theorem s1_results_valid : forall a b p q, valid_s1 a -> valid_s1 b -> vpt p -> vpt q ->
  valid_s1 (s1_Interval_Union a b) /\ valid_s1 (s1_Interval_Intersection a b) /\
  valid_s1 (s1_Interval_AddPoint a p) /\ valid_s1 (s1_Interval_Complement a) /\
  valid_s1 (s1_IntervalFromPointPair p q) /\ valid_s1 (s1_IntervalFromEndpoints p q) /\
  valid_s1 s1_EmptyInterval /\ valid_s1 s1_FullInterval.
Proof.
  intros a b p q Ha Hb Hp Hq.
  exact (conj (s1_union_valid a b Ha Hb) (conj (s1_intersection_valid a b Ha Hb)
        (conj (s1_addpoint_valid a p Ha (proj1 Hp)) (conj (s1_complement_valid a Ha)
        (conj (s1_from_point_pair_valid p q Hp Hq) (conj (s1_from_endpoints_valid p q Hp Hq)
        (conj s1_empty_valid s1_full_valid))))))).
Qed.
Print Assumptions s1_results_valid.

(** r2.Rect ----------------------------------------------------------------
    points are pairs of non-NaN floats; [mem_r2 r px py] is component-wise r1 membership;
    [valid_r2] is non-NaN endpoints plus the code's IsValid (X empty iff Y empty). *)
Theorem r2_contains_point_is_membership : forall r p, wf_r2 r ->
  nonnan (r2_Point_X p) -> nonnan (r2_Point_Y p) ->
  (r2_Rect_ContainsPoint r p = true <-> mem_r2 r (r2_Point_X p) (r2_Point_Y p)).
Proof. exact r2_contains_point_mem. Qed.
Print Assumptions r2_contains_point_is_membership.

Theorem r2_union_contains_both : forall a b px py, wf_r2 a -> wf_r2 b -> nonnan px -> nonnan py ->
  mem_r2 a px py \/ mem_r2 b px py -> mem_r2 (r2_Rect_Union a b) px py.
Proof. exact r2_union_sound. Qed.
Print Assumptions r2_union_contains_both.

Theorem r2_intersection_exact : forall a b px py, wf_r2 a -> wf_r2 b -> nonnan px -> nonnan py ->
  (mem_r2 (r2_Rect_Intersection a b) px py <-> mem_r2 a px py /\ mem_r2 b px py).
Proof. exact C19_R2.r2_intersection_exact. Qed.
Print Assumptions r2_intersection_exact.

Theorem r2_contains_iff_subset : forall a b, wf_r2 a -> valid_r2 b ->
  (r2_Rect_Contains a b = true <->
   forall px py, nonnan px -> nonnan py -> mem_r2 b px py -> mem_r2 a px py).
Proof. exact r2_contains_spec. Qed.
Print Assumptions r2_contains_iff_subset.

Theorem r2_intersects_iff_common_point : forall a b, wf_r2 a -> wf_r2 b ->
  (r2_Rect_Intersects a b = true <->
   exists px py, nonnan px /\ nonnan py /\ mem_r2 a px py /\ mem_r2 b px py).
Proof. exact r2_intersects_spec. Qed.
Print Assumptions r2_intersects_iff_common_point.

Theorem r2_addpoint_keeps_everything : forall r p qx qy, wf_r2 r ->
  nonnan (r2_Point_X p) -> nonnan (r2_Point_Y p) -> nonnan qx -> nonnan qy ->
  mem_r2 r qx qy \/ (rank qx = rank (r2_Point_X p) /\ rank qy = rank (r2_Point_Y p)) ->
  mem_r2 (r2_Rect_AddPoint r p) qx qy.
Proof. exact r2_addpoint_sound. Qed.
Print Assumptions r2_addpoint_keeps_everything.

Theorem r2_clamp_lands_inside : forall r p, wf_r2 r -> valid_r2 r -> r2_Rect_IsEmpty r = false ->
  nonnan (r2_Point_X p) -> nonnan (r2_Point_Y p) ->
  let q := r2_Rect_ClampPoint r p in
  nonnan (r2_Point_X q) /\ nonnan (r2_Point_Y q) /\ mem_r2 r (r2_Point_X q) (r2_Point_Y q).
Proof. exact r2_clamp_inside. Qed.
Print Assumptions r2_clamp_lands_inside.

Theorem r2_empty_iff_no_member : forall r, valid_r2 r ->
  (r2_Rect_IsEmpty r = true <-> forall px py, nonnan px -> nonnan py -> ~ mem_r2 r px py).
Proof. exact r2_isempty_spec. Qed.
Print Assumptions r2_empty_iff_no_member.

Theorem r2_results_valid : forall a b p, valid_r2 a -> valid_r2 b ->
  nonnan (r2_Point_X p) -> nonnan (r2_Point_Y p) ->
  valid_r2 (r2_Rect_Union a b) /\ valid_r2 (r2_Rect_AddRect a b) /\
  valid_r2 (r2_Rect_Intersection a b) /\ valid_r2 (r2_Rect_AddPoint a p) /\ valid_r2 r2_EmptyRect.
Proof.
  intros a b p Ha Hb Nx Ny.
  exact (conj (r2_union_valid a b Ha Hb) (conj (r2_union_valid a b Ha Hb)
        (conj (r2_intersection_valid a b (proj1 Ha) (proj1 Hb))
        (conj (r2_addpoint_valid a p (proj1 Ha) Nx Ny) r2_empty_valid)))).
Qed.
Print Assumptions r2_results_valid.

(** s2.Rect ----------------------------------------------------------------
    points are (lat, x): lat a float with |lat| <= pi/2 ([vlat]), x a real point of the longitude
    circle; [valid_s2rect] is equal to the code's IsValid. *)
Theorem s2rect_isvalid_is_validity : forall r, s2_Rect_IsValid r = true <-> valid_s2rect r.
Proof. exact s2rect_valid_iff. Qed.
Print Assumptions s2rect_isvalid_is_validity.

Theorem s2rect_contains_latlng_is_membership : forall r ll, valid_s2rect r ->
  (s2_Rect_ContainsLatLng r ll = true <->
   valid_ll ll /\ mem_s2rect r (s2_LatLng_Lat ll) (rank (s2_LatLng_Lng ll))).
Proof. exact s2rect_contains_latlng. Qed.
Print Assumptions s2rect_contains_latlng_is_membership.

Theorem s2rect_union_contains_both : forall a b lat x, valid_s2rect a -> valid_s2rect b ->
  nonnan lat -> inrange x ->
  mem_s2rect a lat x \/ mem_s2rect b lat x -> mem_s2rect (s2_Rect_Union a b) lat x.
Proof. exact s2rect_union_sound. Qed.
Print Assumptions s2rect_union_contains_both.

Theorem s2rect_intersection_contains_common : forall a b lat x, valid_s2rect a -> valid_s2rect b ->
  nonnan lat -> inrange x ->
  mem_s2rect a lat x -> mem_s2rect b lat x -> mem_s2rect (s2_Rect_Intersection a b) lat x.
Proof. exact s2rect_intersection_complete. Qed.
Print Assumptions s2rect_intersection_contains_common.

Theorem s2rect_intersection_nothing_outside_both : forall a b lat x, valid_s2rect a -> valid_s2rect b ->
  nonnan lat -> inrange x ->
  mem_s2rect (s2_Rect_Intersection a b) lat x ->
  (mem_s2rect a lat x \/ mem_s2rect b lat x) /\ (mem1 (s2_Rect_Lat a) lat /\ mem1 (s2_Rect_Lat b) lat).
Proof.
  intros a b lat x Ha Hb N Hx H.
  exact (conj (s2rect_intersection_within a b lat x Ha Hb N Hx H)
              (s2rect_intersection_lat_exact a b lat x Ha Hb N Hx H)).
Qed.
Print Assumptions s2rect_intersection_nothing_outside_both.

Theorem s2rect_contains_iff_subset : forall a b, valid_s2rect a -> valid_s2rect b ->
  (s2_Rect_Contains a b = true <->
   forall lat x, nonnan lat -> inrange x -> mem_s2rect b lat x -> mem_s2rect a lat x).
Proof. exact s2rect_contains_spec. Qed.
Print Assumptions s2rect_contains_iff_subset.

Theorem s2rect_intersects_iff_common_point : forall a b, valid_s2rect a -> valid_s2rect b ->
  (s2_Rect_Intersects a b = true <->
   exists lat x, nonnan lat /\ inrange x /\ mem_s2rect a lat x /\ mem_s2rect b lat x).
Proof. exact s2rect_intersects_spec. Qed.
Print Assumptions s2rect_intersects_iff_common_point.

Theorem s2rect_addpoint_keeps_everything : forall r ll lat x, valid_s2rect r -> valid_ll ll ->
  nonnan lat -> inrange x ->
  mem_s2rect r lat x \/ (rank lat = rank (s2_LatLng_Lat ll) /\ normR x = normR (rank (s2_LatLng_Lng ll))) ->
  mem_s2rect (s2_Rect_AddPoint r ll) lat x.
Proof. exact s2rect_addpoint_sound. Qed.
Print Assumptions s2rect_addpoint_keeps_everything.

Theorem s2rect_polar_closure_keeps_everything : forall r lat x, valid_s2rect r -> inrange x ->
  mem_s2rect r lat x -> mem_s2rect (s2_Rect_PolarClosure r) lat x.
Proof. exact s2rect_polar_closure_sound. Qed.
Print Assumptions s2rect_polar_closure_keeps_everything.

Theorem s2rect_empty_iff_no_member : forall r, valid_s2rect r ->
  (s2_Rect_IsEmpty r = true <-> forall lat x, vlat lat -> inrange x -> ~ mem_s2rect r lat x).
Proof. exact s2rect_isempty_spec. Qed.
Print Assumptions s2rect_empty_iff_no_member.

Theorem s2rect_full_contains_everything : forall lat x, vlat lat -> inrange x -> mem_s2rect s2_FullRect lat x.
Proof. exact s2rect_full_every_member. Qed.
Print Assumptions s2rect_full_contains_everything.

Theorem s2rect_results_valid : forall a b ll, valid_s2rect a -> valid_s2rect b ->
  valid_s2rect (s2_Rect_Union a b) /\ valid_s2rect (s2_Rect_Intersection a b) /\
  valid_s2rect (s2_Rect_AddPoint a ll) /\ valid_s2rect (s2_Rect_PolarClosure a) /\
  valid_s2rect s2_EmptyRect /\ valid_s2rect s2_FullRect.
Proof.
  intros a b ll Ha Hb.
  exact (conj (s2rect_union_valid a b Ha Hb) (conj (s2rect_intersection_valid a b Ha Hb)
        (conj (s2rect_addpoint_valid a ll Ha) (conj (s2rect_polar_closure_valid a Ha)
        (conj s2rect_empty_valid s2rect_full_valid))))).
Qed.
Print Assumptions s2rect_results_valid.

(** Expansion (r1.Interval, r2.Rect) ---------------------------------------
    a non-negative margin keeps every point; the only guard is that the computed endpoints
    are not NaN (inf - inf), which [wf1 (Expanded ...)] says. *)
Theorem r1_expanded_keeps_everything : forall i m p, wf1 i -> nonnan m -> 0 <= rank m -> nonnan p ->
  wf1 (r1_Interval_Expanded i m) -> mem1 i p -> mem1 (r1_Interval_Expanded i m) p.
Proof. exact r1_expanded_sound. Qed.
Print Assumptions r1_expanded_keeps_everything.

Theorem r2_expanded_keeps_everything : forall r m px py, wf_r2 r ->
  nonnan (r2_Point_X m) -> nonnan (r2_Point_Y m) -> 0 <= rank (r2_Point_X m) -> 0 <= rank (r2_Point_Y m) ->
  nonnan px -> nonnan py ->
  wf1 (r1_Interval_Expanded (r2_Rect_X r) (r2_Point_X m)) ->
  wf1 (r1_Interval_Expanded (r2_Rect_Y r) (r2_Point_Y m)) ->
  mem_r2 r px py -> mem_r2 (r2_Rect_Expanded r m) px py.
Proof. exact r2_expanded_sound. Qed.
Print Assumptions r2_expanded_keeps_everything.

(** s2.Cap -----------------------------------------------------------------
    closed theorems about the code's point test (rounded squared chord <= radius) ... *)
Theorem cap_addpoint_contains_the_point : forall c p, nonnan (s2_Cap_radius c) ->
  (s2_Cap_IsEmpty c = true -> fin_pt p) ->
  (s2_Cap_IsEmpty c = false -> dist_ok (s2_Cap_center c) p) ->
  s2_Cap_ContainsPoint (s2_Cap_AddPoint c p) p = true.
Proof. exact cap_addpoint_contains_point. Qed.
Print Assumptions cap_addpoint_contains_the_point.

Theorem cap_addpoint_keeps_every_point : forall c p q, nonnan (s2_Cap_radius c) ->
  (s2_Cap_IsEmpty c = false -> dist_ok (s2_Cap_center c) p) ->
  s2_Cap_ContainsPoint c q = true -> s2_Cap_ContainsPoint (s2_Cap_AddPoint c p) q = true.
Proof. exact cap_addpoint_keeps_points. Qed.
Print Assumptions cap_addpoint_keeps_every_point.

Theorem cap_addcap_keeps_receiver_points : forall c o q, nonnan (s2_Cap_radius c) ->
  s2_Cap_ContainsPoint c q = true -> s2_Cap_ContainsPoint (s2_Cap_AddCap c o) q = true.
Proof. exact cap_addcap_keeps_first. Qed.
Print Assumptions cap_addcap_keeps_receiver_points.

Theorem cap_empty_and_full : forall c p,
  (s2_Cap_IsEmpty c = true -> s2_Cap_ContainsPoint c p = false) /\
  (s2_Cap_IsFull c = true -> nonnan (s2_Cap_radius c) -> dist_ok (s2_Cap_center c) p ->
   s2_Cap_ContainsPoint c p = true).
Proof. intros c p. exact (conj (cap_empty_contains_none c p) (cap_full_contains_all c p)). Qed.
Print Assumptions cap_empty_and_full.

Theorem cap_complement_of_empty_and_full : forall c,
  (s2_Cap_IsFull c = true -> s2_Cap_Complement c = s2_EmptyCap) /\
  (s2_Cap_IsEmpty c = true -> s2_Cap_Complement c = s2_FullCap).
Proof. intros c. exact (conj (cap_complement_full c) (cap_complement_empty c)). Qed.
Print Assumptions cap_complement_of_empty_and_full.

Theorem cap_complement_of_special_covers : forall c p, nonnan (s2_Cap_radius c) ->
  s2_Cap_IsEmpty c = true \/ s2_Cap_IsFull c = true ->
  dist_ok (s2_Cap_center c) p -> dist_ok s2_centerPoint p ->
  s2_Cap_ContainsPoint c p = true \/ s2_Cap_ContainsPoint (s2_Cap_Complement c) p = true.
Proof. exact cap_complement_special_covers. Qed.
Print Assumptions cap_complement_of_special_covers.

Theorem cap_contains_with_special_operands : forall c o p,
  s2_Cap_IsFull c = true \/ s2_Cap_IsEmpty o = true ->
  s2_Cap_Contains c o = true /\
  (nonnan (s2_Cap_radius c) -> dist_ok (s2_Cap_center c) p ->
   s2_Cap_ContainsPoint o p = true -> s2_Cap_ContainsPoint c p = true).
Proof.
  intros c o p Hs.
  exact (conj (cap_contains_full_or_empty c o Hs) (fun N D => cap_contains_special_sound c o p N Hs D)).
Qed.
Print Assumptions cap_contains_with_special_operands.

Theorem cap_intersects_with_empty_operand : forall c o p,
  s2_Cap_IsEmpty c = true \/ s2_Cap_IsEmpty o = true ->
  s2_Cap_Intersects c o = false /\
  ~ (s2_Cap_ContainsPoint c p = true /\ s2_Cap_ContainsPoint o p = true).
Proof.
  intros c o p Hs. exact (conj (cap_intersects_empty c o Hs) (cap_intersects_empty_sound c o p Hs)).
Qed.
Print Assumptions cap_intersects_with_empty_operand.

(** ... and, under the named hypothesis H_CAPARITH eps (rounded chord-angle arithmetic obeys the
    triangle inequality up to eps; a statement about float expressions only), soundness of
    Contains / Intersects / AddCap / Expanded / Complement up to eps in squared chord length. *)
Theorem cap_contains_sound_H : forall eps, H_CAPARITH eps -> forall c o p,
  s2_Cap_IsValid c = true -> s2_Cap_IsValid o = true -> unitp p -> dist_ok (s2_Cap_center c) p ->
  s2_Cap_Contains c o = true -> s2_Cap_ContainsPoint o p = true ->
  rank (s2_ChordAngleBetweenPoints (s2_Cap_center c) p) <= rank (s2_Cap_radius c) + eps.
Proof. exact cap_contains_sound_under_H. Qed.
Print Assumptions cap_contains_sound_H.

Theorem cap_intersects_sound_H : forall eps, H_CAPARITH eps -> forall c o p,
  s2_Cap_IsValid c = true -> s2_Cap_IsValid o = true -> unitp p ->
  s2_Cap_ContainsPoint c p = true -> s2_Cap_ContainsPoint o p = true ->
  s2_Cap_Intersects c o = true \/
  rank (s2_ChordAngleBetweenPoints (s2_Cap_center c) (s2_Cap_center o))
    <= rank (s1_ChordAngle_Add (s2_Cap_radius c) (s2_Cap_radius o)) + eps.
Proof. exact cap_intersects_sound_under_H. Qed.
Print Assumptions cap_intersects_sound_H.

Theorem cap_addcap_sound_H : forall eps, H_CAPARITH eps -> forall c o p,
  s2_Cap_IsValid c = true -> s2_Cap_IsValid o = true -> unitp p ->
  s2_Cap_IsEmpty c = false -> s2_Cap_ContainsPoint o p = true ->
  let u := s2_Cap_AddCap c o in
  s2_Cap_center u = s2_Cap_center c /\
  rank (s2_ChordAngleBetweenPoints (s2_Cap_center c) p) <= rank (s2_Cap_radius u) + eps.
Proof. exact cap_addcap_sound_under_H. Qed.
Print Assumptions cap_addcap_sound_H.

Theorem cap_expanded_sound_H : forall eps, H_CAPARITH eps -> forall c d p,
  s2_Cap_IsValid c = true -> radius_ok (s1_ChordAngleFromAngle d) ->
  s2_Cap_ContainsPoint c p = true ->
  let e := s2_Cap_Expanded c d in
  s2_Cap_center e = s2_Cap_center c /\
  rank (s2_ChordAngleBetweenPoints (s2_Cap_center c) p) <= rank (s2_Cap_radius e) + eps.
Proof. exact cap_expanded_sound_under_H. Qed.
Print Assumptions cap_expanded_sound_H.

Theorem cap_complement_covers_H : forall eps, H_CAPARITH eps -> forall c p,
  s2_Cap_IsValid c = true -> s2_Cap_IsEmpty c = false -> s2_Cap_IsFull c = false -> unitp p ->
  s2_Cap_ContainsPoint c p = true \/
  (let k := s2_Cap_Complement c in
   rank (s2_ChordAngleBetweenPoints (s2_Cap_center k) p) <= rank (s2_Cap_radius k) + eps).
Proof. exact cap_complement_covers_under_H. Qed.
Print Assumptions cap_complement_covers_H.

(** s1.Interval.Expanded / s2.Rect.expanded --------------------------------
    History: before /repo commit 44b3e8d the full-circle guard added 2*dblEpsilon (half an ulp of
    2*pi) and Expanded returned a single point one ulp below it. *)
Theorem s1_expanded_keeps_everything_old_refuted : exists i m p,
  s1_Interval_IsValid i = true /\ PrimFloat.leb 0%float m = true /\
  s1_Interval_Contains i p = true /\
  s1_Interval_Contains (s1_Interval_Expanded_old i m) p = false.
Proof. exact s1_expanded_old_refuted. Qed.
Print Assumptions s1_expanded_keeps_everything_old_refuted.

(** History 2: before /repo commit e59a11e Length() was -1 for the valid non-empty interval
    {pi, succ(-pi)}, the guard did not fire for margins in [pi, pi+1/2) and the result lost every
    point (statement over an explicit copy of the old Length). *)
Theorem s1_expanded_keeps_everything_oldlength_refuted : exists i m p,
  s1_Interval_IsValid i = true /\ s1_Interval_IsEmpty i = false /\ PrimFloat.leb 0%float m = true /\
  s1_Interval_Contains i p = true /\
  PrimFloat.ltb (s1_Interval_Length_old i) 0%float = true /\
  s1_Interval_IsValid (s1_Interval_Expanded_oldlength i m) = true /\
  s1_Interval_Contains (s1_Interval_Expanded_oldlength i m) p = false.
Proof. exact s1_expanded_oldlength_refuted. Qed.
Print Assumptions s1_expanded_keeps_everything_oldlength_refuted.

Theorem s1_length_nonneg : forall i, valid_s1 i -> s1_Interval_IsEmpty i = false ->
  PrimFloat.leb 0%float (s1_Interval_Length i) = true.
Proof. exact length_nonneg. Qed.
Print Assumptions s1_length_nonneg.

(** With both repairs the property holds for EVERY valid interval and EVERY non-NaN margin >= 0
    (+Inf included) — closed: Flocq rounding analysis of the 16*dblEpsilon guard, of Length and of
    the two endpoint computations, and exactness of math.Remainder(x, 2*pi) proved from its
    definition (Proofs/C19_Remainder.v). *)
Theorem s1_expanded_keeps_everything : forall i m x,
  valid_s1 i -> nonnan m -> 0 <= rank m ->
  inrange x -> mem_s1 i x -> mem_s1 (s1_Interval_Expanded i m) x.
Proof. exact s1_expanded_sound. Qed.
Print Assumptions s1_expanded_keeps_everything.

Theorem s1_expanded_valid : forall i m,
  valid_s1 i -> nonnan m -> 0 <= rank m -> valid_s1 (s1_Interval_Expanded i m).
Proof. exact C19_Remainder.s1_expanded_valid. Qed.
Print Assumptions s1_expanded_valid.

Theorem remainder_two_pi_exact : H_REMAINDER.
Proof. exact remainder_exact. Qed.
Print Assumptions remainder_two_pi_exact.

Theorem s2rect_expanded_keeps_everything : forall r mg lat x,
  valid_s2rect r -> vlat lat -> inrange x ->
  nonnan (s2_LatLng_Lat mg) -> 0 <= rank (s2_LatLng_Lat mg) ->
  nonnan (s2_LatLng_Lng mg) -> 0 <= rank (s2_LatLng_Lng mg) ->
  wf1 (r1_Interval_Expanded (s2_Rect_Lat r) (s2_LatLng_Lat mg)) ->
  mem_s2rect r lat x -> mem_s2rect (s2_Rect_expanded r mg) lat x.
Proof. exact s2rect_expanded_sound. Qed.
Print Assumptions s2rect_expanded_keeps_everything.

(** FINDING: "all results are valid values" is false of Cap.Union as it is (NaN centre for two
    valid caps with nearly antipodal centres and a subnormal coordinate). *)
Theorem cap_union_result_valid_refuted : exists a b,
  s2_Cap_IsValid a = true /\ s2_Cap_IsValid b = true /\ s2_Cap_IsValid (s2_Cap_Union a b) = false.
Proof. exact cap_union_valid_refuted. Qed.
Print Assumptions cap_union_result_valid_refuted.

(** Interior predicates (r1, r2): the interior of [lo,hi] is the open interval; a set lies in
    the interior iff all its points do. *)
Theorem r1_interior_contains_interval_iff : forall a b, wf1 a -> wf1 b ->
  (r1_Interval_InteriorContainsInterval a b = true <-> forall p, nonnan p -> mem1 b p -> int1 a p).
Proof. exact r1_interior_contains_interval_spec. Qed.
Print Assumptions r1_interior_contains_interval_iff.

Theorem r2_interior_contains_point_is_membership : forall r p, wf_r2 r ->
  nonnan (r2_Point_X p) -> nonnan (r2_Point_Y p) ->
  (r2_Rect_InteriorContainsPoint r p = true <-> int_r2 r (r2_Point_X p) (r2_Point_Y p)).
Proof. exact r2_interior_contains_point_mem. Qed.
Print Assumptions r2_interior_contains_point_is_membership.

Theorem r2_interior_contains_iff_all_points_interior : forall a b, wf_r2 a -> valid_r2 b ->
  (r2_Rect_InteriorContains a b = true <->
   forall px py, nonnan px -> nonnan py -> mem_r2 b px py -> int_r2 a px py).
Proof. exact r2_interior_contains_iff. Qed.
Print Assumptions r2_interior_contains_iff_all_points_interior.
