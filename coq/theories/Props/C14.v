(** C14 — Concurrent read-only queries on shared geometry are safe and give serial answers.
    Only statements; proofs are [exact] of lemmas in Proofs/C14_*.v. The semantics is
    Model/Conc.v: N goroutines (N arbitrary), every interleaving = every schedule [sched] (a list
    of goroutine ids whose steps are all enabled), the index not yet built / built / stale with
    nothing pending, entry through Loop.ContainsPoint (L0) or directly (L1), any number of passes
    per goroutine. Side conditions of every theorem: [pending0 = true -> fresh0 = false] (Add
    stores "stale") and every entry point is L0 or L1. *)
From Coq Require Import List Bool Arith.
From Geo Require Import Model.Conc Model.Lazy Proofs.C13_Index Proofs.C13_EdgeQuery Proofs.C14_Protocol Proofs.C14_Apply.
Import ListNotations.

Theorem mutex : forall n b0 fresh0 pending0 entries todos earlies,
  (pending0 = true -> fresh0 = false) -> (forall t, entry_pc (entries t) = true) ->
  forall sched s, exec (init n b0 fresh0 pending0 entries todos earlies) sched = Some s ->
  forall t u, t < nthr s -> u < nthr s ->
  in_critical (tpc (thr s t)) = true -> in_critical (tpc (thr s u)) = true -> t = u.
Proof. exact C14_Protocol.mutex. Qed.
Print Assumptions mutex.

(** no reachable state has a write of the cell map overlapping a read or another write, or a
    read that is not ordered (happens-before) after the latest write *)
Theorem race_free : forall n b0 fresh0 pending0 entries todos earlies,
  (pending0 = true -> fresh0 = false) -> (forall t, entry_pc (entries t) = true) ->
  forall sched s, exec (init n b0 fresh0 pending0 entries todos earlies) sched = Some s -> ~ race s.
Proof. exact C14_Protocol.race_free. Qed.
Print Assumptions race_free.

(** every write happens under the lock with something pending, while the status is not fresh
    and every other goroutine is still before its unlocked read and outside the critical section *)
Theorem write_exclusive : forall n b0 fresh0 pending0 entries todos earlies,
  (pending0 = true -> fresh0 = false) -> (forall t, entry_pc (entries t) = true) ->
  forall sched s t, exec (init n b0 fresh0 pending0 entries todos earlies) sched = Some s -> writing s t ->
  mu s = Some t /\ pending s = true /\ fresh s = false /\
  forall u, u < nthr s -> u <> t -> early_pc (tpc (thr s u)) = true /\ in_critical (tpc (thr s u)) = false.
Proof. exact C14_Protocol.write_exclusive. Qed.
Print Assumptions write_exclusive.

Theorem applied_once : forall n b0 fresh0 pending0 entries todos earlies,
  (pending0 = true -> fresh0 = false) -> (forall t, entry_pc (entries t) = true) ->
  forall sched s, exec (init n b0 fresh0 pending0 entries todos earlies) sched = Some s ->
  writes s = b2n pending0 - b2n (pending s) /\ writes s <= 1 /\ length (writers s) = writes s /\
  built s = final b0 pending0 - b2n (pending s).
Proof. exact C14_Protocol.applied_once. Qed.
Print Assumptions applied_once.

(** the re-run of applyUpdatesInternal by a goroutine that saw "stale" but found nothing pending
    is a no-op: in the protocol model ... *)
Theorem second_apply_is_noop : forall s t s',
  t < nthr s -> tpc (thr s t) = L3 -> pending s = false -> step s t = Some s' ->
  built s' = built s /\ writes s' = writes s /\ writers s' = writers s /\ tpc (thr s' t) = L4.
Proof. exact C14_Protocol.apply_nothing_pending_noop. Qed.
Print Assumptions second_apply_is_noop.

(** ... and on the index machine of C13 (the repaired applyUpdatesInternal) *)
Theorem apply_twice_noop : forall (S G : Type) (snap : S -> G) ix l ix1,
  iinv snap ix l -> apply snap ix = Ok ix1 ->
  exists ix2, apply snap ix1 = Ok ix2 /\ cells ix2 = cells ix1 /\ pendingPos ix2 = pendingPos ix1.
Proof. exact @C14_Apply.apply_twice_noop. Qed.
Print Assumptions apply_twice_noop.

(** every finished read saw the final version of the cell map — what a goroutine running alone
    reads ([serial_run]); a query's answer is a function of the version it read (C13) *)
Theorem serial_answers : forall n b0 fresh0 pending0 entries todos earlies,
  (pending0 = true -> fresh0 = false) -> (forall t, entry_pc (entries t) = true) ->
  forall sched s, exec (init n b0 fresh0 pending0 entries todos earlies) sched = Some s ->
  forall t, t < nthr s -> forall v, In v (reads (thr s t)) -> v = final b0 pending0.
Proof. exact C14_Protocol.serial_answers. Qed.
Print Assumptions serial_answers.

Theorem serial_run :
  exists s, exec (init 1 0 false true (fun _ => L1) (fun _ => 0) (fun _ => false)) [0; 0; 0; 0; 0; 0; 0; 0] = Some s /\
            reads (thr s 0) = [1] /\ writes s = 1 /\ tpc (thr s 0) = Done.
Proof. exact C14_Protocol.serial_run. Qed.
Print Assumptions serial_run.

(** as long as some goroutine has not finished, some goroutine can step *)
Theorem no_deadlock : forall n b0 fresh0 pending0 entries todos earlies,
  (pending0 = true -> fresh0 = false) -> (forall t, entry_pc (entries t) = true) ->
  forall sched s, exec (init n b0 fresh0 pending0 entries todos earlies) sched = Some s ->
  (exists t, t < nthr s /\ tpc (thr s t) <> Done) -> exists t s', step s t = Some s'.
Proof. exact C14_Protocol.no_deadlock. Qed.
Print Assumptions no_deadlock.

(** every schedule is finite (no step spins: Lock blocks), bounded by the initial measure *)
Theorem terminates : forall n b0 fresh0 pending0 entries todos earlies,
  (forall t, entry_pc (entries t) = true) ->
  forall sched s, exec (init n b0 fresh0 pending0 entries todos earlies) sched = Some s ->
  length sched <= measure (init n b0 fresh0 pending0 entries todos earlies).
Proof. exact C14_Protocol.terminates. Qed.
Print Assumptions terminates.

(** mutations of the protocol are refuted in the same semantics *)
Theorem store_before_apply_refuted :
  exists sched s, exec_with step_store_first (init 2 0 false true (fun _ => L1) (fun _ => 0) (fun _ => false)) sched = Some s /\
                  race_b s = true.
Proof. exact C14_Protocol.store_before_apply_refuted. Qed.
Print Assumptions store_before_apply_refuted.

Theorem no_lock_refuted :
  exists sched s, exec_with step_no_lock (init 2 0 false true (fun _ => L1) (fun _ => 0) (fun _ => false)) sched = Some s /\
                  two_writers s = true.
Proof. exact C14_Protocol.no_lock_refuted. Qed.
Print Assumptions no_lock_refuted.

(** "each with its own query object": two EdgeQuery objects built from ONE options value share
    that struct (the constructors keep the pointer). While goroutine A is inside
    IsDistanceLess(tA, l) on its object, a whole call [ob] of goroutine B on its own object
    answers exactly as a fresh query object with the caller's options does, and so does A:
    a query call writes only heap cells it allocated itself ([qstep_no_shared_write]). *)
Theorem own_query_objects_shared_options : forall (D Ix T R C : Type) straight expand counts threshold cover_of
    (search : Ix -> T -> @opts D -> @path C -> list R) dflt (qa qb : @equery D Ix R C) ix u tA l (ob : @qop D Ix T),
  good counts cover_of dflt qa ix u -> good counts cover_of dflt qb ix u -> eheap qb = eheap qa -> uptr qb = uptr qa ->
  is_query_op ob = true ->
  interleave_new straight expand counts threshold cover_of search dflt qa qb tA l ob
  = Ok (fresh_answer straight expand counts threshold cover_of search ix u ob,
        match hd_error (firstn 1 (search ix tA (with_max1 (threshold_opts straight u l))
                                         (fresh_path counts threshold cover_of ix tA (with_max1 (threshold_opts straight u l))))) with
        | Some _ => true | None => false end).
Proof. exact @C13_EdgeQuery.own_query_objects_shared_options. Qed.
Print Assumptions own_query_objects_shared_options.

Theorem query_writes_only_private_cells : forall (D Ix T R C : Type) straight expand counts threshold cover_of
    (search : Ix -> T -> @opts D -> @path C -> list R) dflt (q : @equery D Ix R C) ix u (o : @qop D Ix T),
  good counts cover_of dflt q ix u -> is_query_op o = true ->
  exists q', qstep_new straight expand counts threshold cover_of search dflt q o
             = Ok (q', fresh_answer straight expand counts threshold cover_of search ix u o) /\
             good counts cover_of dflt q' ix u /\ length (eheap q) <= length (eheap q') /\
             (forall k, k < length (eheap q) -> hget dflt k (eheap q') = hget dflt k (eheap q)).
Proof. exact @C13_EdgeQuery.qstep_no_shared_write. Qed.
Print Assumptions query_writes_only_private_cells.

(** the seeded in-place override with restore is refuted by this interleaving *)
Theorem shared_options_inplace_refuted :
  let q := eq_new [1; 2; 3; 4; 5] toy_u in
  toy_inter_new q q tt 3 (QFindEdges tt) = Ok ([OutEdges [1; 2; 3; 4; 5]], true) /\
  toy_inter_inplace q q tt 3 (QFindEdges tt) = Ok ([OutEdges [1]], true).
Proof. exact C13_EdgeQuery.shared_options_inplace_refuted. Qed.
Print Assumptions shared_options_inplace_refuted.
