(** C02 — Orientation and distance predicates return the sign of the exact quantity.
    Only statements; every proof is [exact] of a lemma in Proofs/C02_*.v.
    s2_* / r3_* are the Gallina translations of s2/predicates.go and r3/vector.go regenerated
    from /repo on every run; [exact_sign], [expensive_sign], [robust_sign], [compare_distances] …
    are Model/Pred.v (tied to the Go code by the correspondence run).
    [FR x] is the real number the float64 [x] denotes; [detR a b c] the exact determinant. *)
From Coq Require Import ZArith Reals Floats Bool.
From Geo Require Import Base.GoPrim Base.F64 Base.Exact Gen.R3 Gen.S2Pred Model.Pred Proofs.C02_Exact.
Local Open Scope R_scope.

(** exact stage ------------------------------------------------------------------------- *)
Theorem exact_sign_is_sign_of_nonzero_determinant : forall a b c,
  detR a b c <> 0 -> exact_sign a b c = sgnR (detR a b c).
Proof. exact exact_sign_det. Qed.
Print Assumptions exact_sign_is_sign_of_nonzero_determinant.

Theorem exact_determinant_sign_is_exact : forall a b c, exact_det_sign a b c = sgnR (detR a b c).
Proof. exact exact_det_sign_correct. Qed.
Print Assumptions exact_determinant_sign_is_exact.

Theorem exact_sign_never_indeterminate : forall a b c,
  (exact_sign a b c = 1 \/ exact_sign a b c = -1)%Z.
Proof. exact exact_sign_pm1. Qed.
Print Assumptions exact_sign_never_indeterminate.

Theorem expensive_sign_zero_iff_two_identical : forall a b c,
  expensive_sign a b c = 0%Z <-> identical2 a b c = true.
Proof. exact expensive_sign_zero_iff. Qed.
Print Assumptions expensive_sign_zero_iff_two_identical.

Theorem exact_sign_rotation : forall a b c, finite a -> finite b -> finite c -> distinct3 a b c ->
  exact_sign b c a = exact_sign a b c.
Proof. intros a b c. exact (exact_sign_rotate a b c true). Qed.
Print Assumptions exact_sign_rotation.

Theorem exact_sign_swap : forall a b c, finite a -> finite b -> finite c -> distinct3 a b c ->
  exact_sign c b a = (- exact_sign a b c)%Z /\ exact_sign b a c = (- exact_sign a b c)%Z /\
  exact_sign a c b = (- exact_sign a b c)%Z.
Proof.
  intros a b c Fa Fb Fc D. split; [|split].
  - exact (exact_sign_swap13 a b c true Fa Fb Fc D).
  - exact (exact_sign_swap12 a b c true Fa Fb Fc D).
  - exact (exact_sign_swap23 a b c true Fa Fb Fc D).
Qed.
Print Assumptions exact_sign_swap.

(** distances --------------------------------------------------------------------------- *)
Theorem exact_compare_distances_is_exact : forall x a b, 0 < norm2R a -> 0 < norm2R b ->
  exact_compare_distances (pv_of_point x) (pv_of_point a) (pv_of_point b) = cmp_distances_R x a b.
Proof. exact exact_compare_distances_spec. Qed.
Print Assumptions exact_compare_distances_is_exact.

Theorem exact_compare_distances_antisymmetric : forall x a b, finite a -> finite b ->
  exact_compare_distances_full x b a = (- exact_compare_distances_full x a b)%Z.
Proof. exact exact_compare_full_antisym. Qed.
Print Assumptions exact_compare_distances_antisymmetric.

Theorem exact_compare_distances_zero_iff_same_point : forall x a b, finite a -> finite b ->
  (exact_compare_distances_full x a b = 0%Z <-> peq a b).
Proof. exact exact_compare_full_zero_iff. Qed.
Print Assumptions exact_compare_distances_zero_iff_same_point.

Theorem exact_compare_distance_is_exact : forall x y r2, 0 < norm2R x -> 0 < norm2R y ->
  exact_compare_distance (pv_of_point x) (pv_of_point y) (of_float r2) = cmp_distance_R x y r2.
Proof. exact exact_compare_distance_spec. Qed.
Print Assumptions exact_compare_distance_is_exact.

Theorem exact_sign_dot_prod_is_exact : forall a b, exact_sign_dot_prod a b = sgnR (dotR a b).
Proof. exact exact_sign_dot_prod_spec. Qed.
Print Assumptions exact_sign_dot_prod_is_exact.
