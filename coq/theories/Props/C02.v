(** C02 — Orientation and distance predicates return the sign of the exact quantity.
    Only statements; every proof is [exact] of a lemma in Proofs/C02_*.v.
    s2_* / r3_* are the Gallina translations of s2/predicates.go and r3/vector.go regenerated
    from /repo on every run; [exact_sign], [expensive_sign], [robust_sign], [compare_distances] …
    are Model/Pred.v (tied to the Go code by the correspondence run).
    [FR x] is the real number the float64 [x] denotes; [detR a b c] the exact determinant. *)
From Coq Require Import ZArith Reals Floats Bool.
From Geo Require Import Base.GoPrim Base.F64 Base.Exact Gen.R3 Gen.S2Pred Model.Pred Proofs.C02_Exact Proofs.C02_Float Proofs.C02_SoS Proofs.C02_SoSGlobal Proofs.C02_RelErr Proofs.C02_TriageDet Proofs.C02_StableDet Proofs.C02_Robust Proofs.C02_IsUnit Proofs.C02_DistRefuted Proofs.C02_CosDet.
Local Open Scope R_scope.

(** exact stage ------------------------------------------------------------------------- *)
Theorem exact_sign_is_sign_of_nonzero_determinant : forall a b c,
  detR a b c <> 0 -> exact_sign a b c = sgnR (detR a b c).
Proof. exact exact_sign_det. Qed.
Print Assumptions exact_sign_is_sign_of_nonzero_determinant.

Theorem exact_determinant_sign_is_exact : forall a b c, exact_det_sign a b c = sgnR (detR a b c).
Proof. exact exact_det_sign_correct. Qed.
Print Assumptions exact_determinant_sign_is_exact.

Theorem exact_sign_never_indeterminate : forall a b c,
  (exact_sign a b c = 1 \/ exact_sign a b c = -1)%Z.
Proof. exact exact_sign_pm1. Qed.
Print Assumptions exact_sign_never_indeterminate.

Theorem expensive_sign_zero_iff_two_identical : forall a b c,
  expensive_sign a b c = 0%Z <-> identical2 a b c = true.
Proof. exact expensive_sign_zero_iff. Qed.
Print Assumptions expensive_sign_zero_iff_two_identical.

Theorem exact_sign_rotation : forall a b c, finite a -> finite b -> finite c -> distinct3 a b c ->
  exact_sign b c a = exact_sign a b c.
Proof. intros a b c. exact (exact_sign_rotate a b c true). Qed.
Print Assumptions exact_sign_rotation.

Theorem exact_sign_swap : forall a b c, finite a -> finite b -> finite c -> distinct3 a b c ->
  exact_sign c b a = (- exact_sign a b c)%Z /\ exact_sign b a c = (- exact_sign a b c)%Z /\
  exact_sign a c b = (- exact_sign a b c)%Z.
Proof.
  intros a b c Fa Fb Fc D. split; [|split].
  - exact (exact_sign_swap13 a b c true Fa Fb Fc D).
  - exact (exact_sign_swap12 a b c true Fa Fb Fc D).
  - exact (exact_sign_swap23 a b c true Fa Fb Fc D).
Qed.
Print Assumptions exact_sign_swap.

(** distances --------------------------------------------------------------------------- *)
Theorem exact_compare_distances_is_exact : forall x a b, 0 < norm2R a -> 0 < norm2R b ->
  exact_compare_distances (pv_of_point x) (pv_of_point a) (pv_of_point b) = cmp_distances_R x a b.
Proof. exact exact_compare_distances_spec. Qed.
Print Assumptions exact_compare_distances_is_exact.

Theorem exact_compare_distances_antisymmetric : forall x a b, finite a -> finite b ->
  exact_compare_distances_full x b a = (- exact_compare_distances_full x a b)%Z.
Proof. exact exact_compare_full_antisym. Qed.
Print Assumptions exact_compare_distances_antisymmetric.

Theorem exact_compare_distances_zero_iff_same_point : forall x a b, finite a -> finite b ->
  (exact_compare_distances_full x a b = 0%Z <-> peq a b).
Proof. exact exact_compare_full_zero_iff. Qed.
Print Assumptions exact_compare_distances_zero_iff_same_point.

Theorem exact_compare_distance_is_exact : forall x y r2, 0 < norm2R x -> 0 < norm2R y ->
  exact_compare_distance (pv_of_point x) (pv_of_point y) (of_float r2) = cmp_distance_R x y r2.
Proof. exact exact_compare_distance_spec. Qed.
Print Assumptions exact_compare_distance_is_exact.

Theorem exact_sign_dot_prod_is_exact : forall a b, exact_sign_dot_prod a b = sgnR (dotR a b).
Proof. exact exact_sign_dot_prod_spec. Qed.
Print Assumptions exact_sign_dot_prod_is_exact.

(** float stages under named hypotheses --------------------------------------------------
    H_TRIAGE_COS / H_TRIAGE_SIN2 / H_TRIAGE_COS1 / H_TRIAGE_SIN21 (H_TRIAGE_DET, H_STABLE_DET and
    H_TRIAGE_DOT are discharged) are Prop-valued definitions in Proofs/C02_Float.v about float64 arithmetic
    (error of the float determinant / dot product, soundness of the float comparisons);
    they appear as premises. [unit_pt p]: finite coordinates and | |p|^2 - 1 | <= 2^-44. *)
Theorem triage_constant_is_large_enough :
  ffinite maxDetErr = true /\ ffinite maxDetErrNeg = true /\
  D2R K_TRIAGE <= FR maxDetErr /\ FR maxDetErrNeg = - FR maxDetErr.
Proof. exact triage_const_ok. Qed.
Print Assumptions triage_constant_is_large_enough.

Theorem stable_multiplier_is_large_enough : ffinite detErrMul = true /\ D2R K_STABLE <= FR detErrMul /\
  ffinite minNoUnderflowErr = true /\ D2R K_STABLE_MIN <= FR minNoUnderflowErr.
Proof. exact stable_const_ok. Qed.
Print Assumptions stable_multiplier_is_large_enough.

Theorem dot_constant_is_large_enough : ffinite dotMaxErr = true /\ D2R K_DOT <= FR dotMaxErr.
Proof. exact dot_const_ok. Qed.
Print Assumptions dot_constant_is_large_enough.

(** H-TRIAGE-DET is discharged (Flocq + real-number error analysis, (2.5 + 2/sqrt 3) u): CLOSED.
    The exact sum x + y whose rounding is the float determinant is within
    E0 + u/2 |det| of the exact determinant, E0 <= K_TRIAGE <= maxDeterminantError. *)
Theorem float_determinant_error_bound : forall a b c, unit_pt a -> unit_pt b -> unit_pt c ->
  exists x y, ffinite x = true /\ ffinite y = true /\ Rabs (FR x + FR y) <= 1000 /\
    fdet a b c = (x + y)%float /\
    Rabs (FR x + FR y - detR a b c) <= E0 + u / 2 * Rabs (detR a b c).
Proof. exact triage_det_core. Qed.
Print Assumptions float_determinant_error_bound.

Theorem triage_sign_never_wrong : forall a b c, unit_pt a -> unit_pt b -> unit_pt c ->
  s2_triageSign a b c <> 0%Z -> s2_triageSign a b c = sgnR (detR a b c).
Proof. exact triage_sound_closed. Qed.
Print Assumptions triage_sign_never_wrong.

(** H-STABLE-DET is discharged for the repaired stableSign (tight constant 3.2321 * 2^-52, Flocq +
    scaled triage_real + the no-underflow guard): CLOSED. Closed side conditions on the constants: *)
Theorem stable_constants_are_adequate :
  ffinite detErrMul = true /\ ffinite minNoUnderflowErr = true /\
  847275 / 2 ^ 17 * u <= FR detErrMul <= 1 /\ FR detErrMul <= 2 ^ 501 * FR minNoUnderflowErr.
Proof. exact stable_consts_ok. Qed.
Print Assumptions stable_constants_are_adequate.

Theorem stable_sign_never_wrong : forall a b c, unit_pt a -> unit_pt b -> unit_pt c ->
  s2_stableSign a b c <> 0%Z -> s2_stableSign a b c = sgnR (detR a b c).
Proof. exact stable_sound_closed. Qed.
Print Assumptions stable_sign_never_wrong.

(** REPAIRED FINDING (KNOWN_FINDINGS.jsonl: fixed bfbf523, kind stableSign.underflow). Before the
    repair stableSign had no lower limit on its error bound; for that variant ([robust_sign_old],
    [H_STABLE_DET_OLD]) the sentence "RobustSign returns the sign of the exact determinant" was
    false — the witness is kept: *)
Theorem robust_sign_is_sign_of_nonzero_determinant_old_refuted :
  exists a b c, unit_pt a /\ unit_pt b /\ unit_pt c /\
    detR a b c <> 0 /\ robust_sign_old a b c <> sgnR (detR a b c).
Proof. exact robust_sign_det_old_refuted. Qed.
Print Assumptions robust_sign_is_sign_of_nonzero_determinant_old_refuted.

Theorem stable_sign_old_refuted : ~ H_STABLE_DET_OLD.
Proof. exact H_STABLE_DET_OLD_refuted. Qed.
Print Assumptions stable_sign_old_refuted.

(** the repaired code: CLOSED, no hypothesis, no guard beyond unit length *)
Theorem robust_sign_is_exact_sign : forall a b c,
  unit_pt a -> unit_pt b -> unit_pt c ->
  robust_sign a b c = if identical2 a b c then 0%Z else exact_sign a b c.
Proof. exact robust_sign_spec. Qed.
Print Assumptions robust_sign_is_exact_sign.

Theorem robust_sign_is_sign_of_nonzero_determinant : forall a b c,
  unit_pt a -> unit_pt b -> unit_pt c ->
  detR a b c <> 0 -> robust_sign a b c = sgnR (detR a b c).
Proof. exact robust_sign_det. Qed.
Print Assumptions robust_sign_is_sign_of_nonzero_determinant.

Theorem robust_sign_zero_iff_two_identical : forall a b c,
  unit_pt a -> unit_pt b -> unit_pt c -> (robust_sign a b c = 0%Z <-> identical2 a b c = true).
Proof. exact robust_sign_zero_iff. Qed.
Print Assumptions robust_sign_zero_iff_two_identical.

Theorem robust_sign_rotation : forall a b c,
  unit_pt a -> unit_pt b -> unit_pt c -> robust_sign b c a = robust_sign a b c.
Proof. exact robust_sign_rotate. Qed.
Print Assumptions robust_sign_rotation.

Theorem robust_sign_swap_negates : forall a b c,
  unit_pt a -> unit_pt b -> unit_pt c -> robust_sign c b a = (- robust_sign a b c)%Z.
Proof. exact robust_sign_swap. Qed.
Print Assumptions robust_sign_swap_negates.

(** FINDING (KNOWN_FINDINGS.jsonl kind CompareDistances.notNormalized). With "unit length" read as
    the library's r3.Vector.IsUnit (5e-14), the sentence "CompareDistances returns the exact
    comparison of the true spherical distances" is FALSE of the unchanged code: *)
Theorem compare_distances_exact_on_isunit_points_refuted : exists x a b,
  r3_Vector_IsUnit (s2_Point_Vector x) = true /\ r3_Vector_IsUnit (s2_Point_Vector a) = true /\
  r3_Vector_IsUnit (s2_Point_Vector b) = true /\
  unit_pt x /\ unit_pt a /\ unit_pt b /\
  cmp_distances_R x a b <> 0%Z /\ compare_distances x a b <> cmp_distances_R x a b.
Proof. exact compare_distances_isunit_refuted. Qed.
Print Assumptions compare_distances_exact_on_isunit_points_refuted.

(** What holds, under the float hypotheses, is the statement for NORMALIZED points
    ([norm_pt]: | |p|^2 - 1 | <= 2^-50, what Normalize leaves): *)
Theorem compare_distances_is_exact_comparison : H_TRIAGE_COS -> H_TRIAGE_SIN2 -> forall x a b,
  norm_pt x -> norm_pt a -> norm_pt b -> cmp_distances_R x a b <> 0%Z ->
  compare_distances x a b = cmp_distances_R x a b.
Proof. exact compare_distances_exact. Qed.
Print Assumptions compare_distances_is_exact_comparison.

Theorem compare_distances_antisymmetric : H_TRIAGE_COS -> H_TRIAGE_SIN2 -> forall x a b,
  norm_pt x -> norm_pt a -> norm_pt b -> compare_distances x b a = (- compare_distances x a b)%Z.
Proof. exact compare_distances_antisym. Qed.
Print Assumptions compare_distances_antisymmetric.

Theorem compare_distances_zero_iff_same_point : H_TRIAGE_COS -> H_TRIAGE_SIN2 -> forall x a b,
  norm_pt x -> norm_pt a -> norm_pt b -> (compare_distances x a b = 0%Z <-> s2_Point_eqb a b = true).
Proof. exact compare_distances_zero_iff. Qed.
Print Assumptions compare_distances_zero_iff_same_point.

Theorem compare_distance_is_exact_comparison : H_TRIAGE_COS1 -> H_TRIAGE_SIN21 -> forall x y r,
  norm_pt x -> norm_pt y -> valid_limit r -> compare_distance x y r = cmp_distance_R x y r.
Proof. exact compare_distance_spec. Qed.
Print Assumptions compare_distance_is_exact_comparison.

(** H-TRIAGE-DOT is discharged (Flocq, underflow included): the float dot product of two vectors
    of squared length <= 2 is finite and within 3.046875 * 2^-52 of the exact one. *)
Theorem dot_product_error_bound : forall a b, finite a -> finite b -> norm2R a <= 2 -> norm2R b <= 2 ->
  ffinite (fdot a b) = true /\ Rabs (FR (fdot a b) - dotR a b) <= D2R K_DOT.
Proof. exact triage_dot_holds. Qed.
Print Assumptions dot_product_error_bound.

(** SignDotProd returns the exact sign: closed, no hypothesis *)
Theorem sign_dot_prod_is_exact : forall a b, finite a -> finite b ->
  norm2R a <= 2 -> norm2R b <= 2 -> sign_dot_prod a b = sgnR (dotR a b).
Proof. exact sign_dot_prod_exact. Qed.
Print Assumptions sign_dot_prod_is_exact.

(** symbolic perturbation ------------------------------------------------------------------
    [pert_det_ranked a b c eps]: determinant of the three rows, the row of lexicographic rank
    k (0, 1, 2 among the three) moved by (eps^(4*8^k), eps^(2*8^k), eps^(8^k)) in (x, y, z). *)
Theorem perturbed_determinant_is_this_polynomial : forall ax ay az bx by_ bz cx cy cz e,
  pert ax ay az bx by_ bz cx cy cz e = peval (sos_poly ax ay az bx by_ bz cx cy cz) e.
Proof. exact sos_expansion. Qed.
Print Assumptions perturbed_determinant_is_this_polynomial.

Theorem table_returns_lowest_order_nonzero_coefficient : forall ax ay az bx by_ bz cx cy cz,
  det3 ax ay az bx by_ bz cx cy cz = 0 ->
  table_R ax ay az bx by_ bz cx cy cz = first_nz (sos_poly ax ay az bx by_ bz cx cy cz).
Proof. exact table_first_nz. Qed.
Print Assumptions table_returns_lowest_order_nonzero_coefficient.

Theorem exact_sign_is_sign_of_infinitesimally_perturbed_determinant : forall a b c,
  finite a -> finite b -> finite c -> distinct3 a b c ->
  exists e0, 0 < e0 /\ forall e, 0 < e < e0 ->
    exact_sign a b c = sgnR (pert_det_ranked a b c e) /\ pert_det_ranked a b c e <> 0.
Proof. exact exact_sign_sos. Qed.
Print Assumptions exact_sign_is_sign_of_infinitesimally_perturbed_determinant.

(** ONE FIXED INFINITESIMAL PERTURBATION FOR A WHOLE POINT SET. [pts] is any finite set of finite
    points listed in strictly increasing lexicographic order ([prow pts i] its i-th member);
    [gdet pts i j k eps] is the determinant of the rows i, j, k where row n is moved by
    (eps^(4*8^n), eps^(2*8^n), eps^(8^n)) — a perturbation of the POINT, independent of the other
    two arguments. [eventually P]: P holds for all sufficiently small eps > 0. *)
Theorem exact_sign_is_one_fixed_perturbation_of_the_point_set : forall pts,
  (forall i, (i < plen pts)%nat -> finite (prow pts i)) ->
  (forall i j, (i < j)%nat -> (j < plen pts)%nat -> cmp_gt (prow pts j) (prow pts i) = true) ->
  eventually (fun e => forall i j k,
    (i < plen pts)%nat -> (j < plen pts)%nat -> (k < plen pts)%nat -> i <> j -> j <> k -> i <> k ->
    exact_sign (prow pts i) (prow pts j) (prow pts k) = sgnR (gdet pts i j k e) /\ gdet pts i j k e <> 0).
Proof. exact sos_consistent. Qed.
Print Assumptions exact_sign_is_one_fixed_perturbation_of_the_point_set.

(** no set of answers contradicts a real point configuration: three-term Grassmann-Pluecker *)
Theorem exact_sign_answers_are_realisable : forall pts,
  (forall i, (i < plen pts)%nat -> finite (prow pts i)) ->
  (forall i j, (i < j)%nat -> (j < plen pts)%nat -> cmp_gt (prow pts j) (prow pts i) = true) ->
  forall a b c d f, (a < plen pts)%nat -> (b < plen pts)%nat -> (c < plen pts)%nat ->
    (d < plen pts)%nat -> (f < plen pts)%nat ->
    a <> b -> a <> c -> a <> d -> a <> f -> b <> c -> b <> d -> b <> f -> c <> d -> c <> f -> d <> f ->
    let X p q r := exact_sign (prow pts p) (prow pts q) (prow pts r) in
    let t1 := (X a b c * X a d f)%Z in
    let t2 := (- (X a b d * X a c f))%Z in
    let t3 := (X a b f * X a c d)%Z in
    ~ (0 < t1 /\ 0 < t2 /\ 0 < t3)%Z /\ ~ (t1 < 0 /\ t2 < 0 /\ t3 < 0)%Z.
Proof. exact chirotope_gp. Qed.
Print Assumptions exact_sign_answers_are_realisable.

(** the library's own unit-length test implies the guard [unit_pt] (finiteness included): closed *)
Theorem isunit_implies_unit_guard : forall p, r3_Vector_IsUnit (s2_Point_Vector p) = true -> unit_pt p.
Proof. exact isunit_unit_pt. Qed.
Print Assumptions isunit_implies_unit_guard.

Theorem triage_sign_never_wrong_on_isunit_points : forall a b c,
  r3_Vector_IsUnit (s2_Point_Vector a) = true -> r3_Vector_IsUnit (s2_Point_Vector b) = true ->
  r3_Vector_IsUnit (s2_Point_Vector c) = true ->
  s2_triageSign a b c <> 0%Z -> s2_triageSign a b c = sgnR (detR a b c).
Proof. intros a b c Ha Hb Hc. apply triage_sound_closed; now apply isunit_unit_pt. Qed.
Print Assumptions triage_sign_never_wrong_on_isunit_points.

(** cos triage (cosDistance / triageCompareCosDistances) ------------------------------------------
    CLOSED: the triage is sound on normalized points for ANY constants with a relative margin of
    250 u over the first-order coefficients 19/2 u and 3/2 u ... *)
Theorem cos_triage_sound_with_adequate_constants : forall C95 C15 : PrimFloat.float,
  ffinite C95 = true -> ffinite C15 = true ->
  19 / 2 * u * (1 + 250 * u) <= FR C95 <= 1 -> 3 / 2 * u * (1 + 250 * u) <= FR C15 <= 1 ->
  forall x a b, norm_pt x -> norm_pt a -> norm_pt b ->
  triage_cos_with C95 C15 x a b <> 0%Z -> triage_cos_with C95 C15 x a b = cmp_distances_R x a b.
Proof. exact cos_triage_sound_param. Qed.
Print Assumptions cos_triage_sound_with_adequate_constants.

(** ... the generated function is [triage_cos_with cos95 cos15], so H_TRIAGE_COS follows from one
    closed numeric condition on the two constants of predicates.go ... *)
Theorem H_TRIAGE_COS_reduces_to_a_condition_on_the_constants : cos_consts_adequate -> H_TRIAGE_COS.
Proof. exact H_TRIAGE_COS_from_consts. Qed.
Print Assumptions H_TRIAGE_COS_reduces_to_a_condition_on_the_constants.

(** ... which the constants as written do not meet: 9.5*dblError < 19/2 u and 1.5*dblError < 3/2 u,
    below even the first-order error. H_TRIAGE_COS therefore stays a named hypothesis. *)
Theorem cos_constants_have_no_second_order_margin :
  (FR cos95 < 19 / 2 * u /\ FR cos15 < 3 / 2 * u) /\ ~ cos_consts_adequate.
Proof. split; [exact cos_const_gap|exact cos_consts_not_adequate]. Qed.
Print Assumptions cos_constants_have_no_second_order_margin.
