(** C10 — Bounds are conservative: nothing contained lies outside its bound.
    Only statements; every proof is [exact] of a lemma in Proofs/C10_*.v.
    s2_Rect_*, s2_Cap_*, s2_LatLngFromPoint, s1_*, r1_* are the Gallina translations
    regenerated from /repo on every run (Gen/Bounds.v ...); add_point, rect_bound,
    init_bound_poles, invert_bound, union_rect_bound, cell_cap_bound, cu_cap_bound,
    monotone_chain are the hand models of Model/Bounds.v, tied to the code by [T]. *)
From Coq Require Import ZArith Reals Floats Bool List.
From Geo Require Import Base.GoPrim Base.F64 Gen.Bounds Gen.CellRect Model.Bounds.
From Geo Require Import Proofs.C19_R1 Proofs.C10_S1 Proofs.C10_Rect Proofs.C10_Cap Proofs.C10_Hull
  Proofs.C10_Numeric Proofs.C10_Refuted Proofs.C10_CapRect Proofs.C10_CellRect Proofs.C10_AddCap.
Import ListNotations.
Local Open Scope R_scope.

(** 1. RectBounder: the running bound only grows; after the whole chain it contains every
    intermediate bound, the first vertex, and the rectangle computed for every edge. *)
Theorem bounder_accumulates_monotonically : forall pre p post r, wf_rect (bd_bound r) ->
  chain_ok r (pre ++ p :: post) ->
  let ri := fold_left add_point pre r in
  let rf := fold_left add_point (pre ++ p :: post) r in
  wf_rect (bd_bound rf) /\
  rsub (bd_bound ri) (bd_bound rf) /\
  (s2_Rect_IsEmpty (bd_bound ri) = true -> has (bd_bound rf) (LL p)) /\
  (s2_Rect_IsEmpty (bd_bound ri) = false ->
     rsub (edge_rect (bd_a ri) p (bd_aLL ri) (LL p)) (bd_bound rf)).
Proof. exact bounder_monotone. Qed.
Print Assumptions bounder_accumulates_monotonically.

(** 2. RectBound() = expanded(2 eps, 0).PolarClosure() contains the running bound (closed: the
    interval-expansion soundness lemmas are C19's C19_r1_expanded_sound / C19_s1_expanded_sound). *)
Theorem rect_bound_contains_running_bound :
  forall r, wf_rect (bd_bound r) -> wf_rect (rect_bound r) /\ rsub (bd_bound r) (rect_bound r).
Proof. exact rect_bound_sup. Qed.
Print Assumptions rect_bound_contains_running_bound.

Theorem polar_closure_is_superset : forall r, wf_rect r -> rsub r (s2_Rect_PolarClosure r).
Proof. exact polar_closure_sup. Qed.
Print Assumptions polar_closure_is_superset.

(** 2b. ExpandForSubregions: full, or the polar closure of an expansion by exactly 9 dblEpsilon in
    latitude; in particular it contains the bound it is computed from. *)
Theorem expand_for_subregions_is_9eps_expansion : forall b, s2_Rect_IsEmpty b = false ->
  s2_ExpandForSubregions b = s2_FullRect \/
  exists lngExp, (lngExp = 0%float \/ lngExp = c_pi) /\
    s2_ExpandForSubregions b = s2_Rect_PolarClosure (s2_Rect_expanded b (mk_s2_LatLng c_9eps lngExp)).
Proof. exact expand_for_subregions_shape. Qed.
Print Assumptions expand_for_subregions_is_9eps_expansion.

Theorem subregion_bound_contains_bound :
  forall b, wf_rect b -> rsub b (s2_ExpandForSubregions b).
Proof. exact expand_for_subregions_sup. Qed.
Print Assumptions subregion_bound_contains_bound.

(** 3. Unions: Rect.Union contains both operands; CellUnion.RectBound (and the polygon bound)
    contains the bound of every cell (shell). *)
Theorem rect_union_contains_both : forall a b ll, wf_rect a -> wf_rect b -> llv ll ->
  has a ll \/ has b ll -> has (s2_Rect_Union a b) ll.
Proof. exact rect_union_has. Qed.
Print Assumptions rect_union_contains_both.

Theorem cellunion_rect_bound_contains_each_cell : forall rs r, Forall wf_rect rs -> In r rs ->
  rsub r (union_rect_bound rs).
Proof. exact union_rect_bound_contains_each. Qed.
Print Assumptions cellunion_rect_bound_contains_each_cell.

(** 4. Loop.initBound's pole logic and Loop.Invert's shortcut only enlarge. *)
Theorem init_bound_pole_logic_is_superset : forall b cn cs, wf_rect b -> rsub b (init_bound_poles b cn cs).
Proof. exact init_bound_poles_sup. Qed.
Print Assumptions init_bound_pole_logic_is_superset.

Theorem invert_bound_is_superset : forall old recomputed, rsub recomputed (invert_bound old recomputed).
Proof. exact invert_bound_sup. Qed.
Print Assumptions invert_bound_is_superset.

Theorem invert_shortcut_is_full : forall old recomputed ll, llv ll ->
  PrimFloat.ltb (PrimFloat.opp c_pi_2) (r1_Interval_Lo (s2_Rect_Lat old)) = true ->
  PrimFloat.ltb (r1_Interval_Hi (s2_Rect_Lat old)) c_pi_2 = true ->
  has (invert_bound old recomputed) ll.
Proof. exact invert_bound_shortcut_full. Qed.
Print Assumptions invert_shortcut_is_full.

(** 5. Caps: AddPoint(p) then ContainsPoint(p) in floats; AddPoint loses nothing; Cell.CapBound
    contains the cell's four float vertices. *)
Theorem cap_addpoint_then_contains : forall c p, cap_ok c -> nonnan (chord (s2_Cap_center c) p) ->
  s2_Cap_ContainsPoint (s2_Cap_AddPoint c p) p = true.
Proof. exact cap_addpoint_contains. Qed.
Print Assumptions cap_addpoint_then_contains.

Theorem cap_addpoint_loses_nothing : forall c p q, cap_ok c -> nonnan (chord (s2_Cap_center c) p) ->
  s2_Cap_ContainsPoint c q = true -> s2_Cap_ContainsPoint (s2_Cap_AddPoint c p) q = true.
Proof. exact cap_addpoint_keeps. Qed.
Print Assumptions cap_addpoint_loses_nothing.

Theorem cell_cap_bound_contains_its_vertices : forall center vs v,
  (forall w, In w vs -> nonnan (chord center w)) -> In v vs ->
  s2_Cap_ContainsPoint (cell_cap_bound center vs) v = true.
Proof. exact cell_cap_bound_contains_vertices. Qed.
Print Assumptions cell_cap_bound_contains_its_vertices.

(** 5b. Cap.RectBound (after /repo bc3af1c) returns a valid longitude interval whenever the two
    math.Remainder results are numbers in [-pi, pi]. *)
Theorem cap_rect_bound_longitude_is_valid : forall c,
  (forall a, vpt (go_remainder (PrimFloat.sub (cap_lng c) a) TWO_PI) /\
             vpt (go_remainder (PrimFloat.add (cap_lng c) a) TWO_PI)) ->
  valid_s1 (s2_Rect_Lng (s2_Cap_RectBound c)).
Proof. exact cap_rectbound_lng_valid. Qed.
Print Assumptions cap_rect_bound_longitude_is_valid.

(** 5c. Cell.RectBound of a face cell (translated code, Gen/CellRect.v): the tabulated rectangle
    padded by exactly (dblEpsilon, 0); for all six faces the latitude interval is widened by one
    dblEpsilon on both sides (clamped at the poles) and the longitude interval is unchanged. *)
Theorem cell_rect_bound_level0_is_lat_padded : forall c, (0 <? s2_Cell_level c)%Z = false ->
  s2_Cell_RectBound c =
  s2_Rect_expanded (face_bound_unpadded (s2_Cell_face c)) (mk_s2_LatLng DBL_EPSILON 0%float).
Proof. exact cell_rect_bound_level0_shape. Qed.
Print Assumptions cell_rect_bound_level0_is_lat_padded.

Theorem face_cells_latitude_strictly_padded : forallb lat_padded_ok [0; 1; 2; 3; 4; 5]%Z = true.
Proof. exact face_cells_latitude_padded. Qed.
Print Assumptions face_cells_latitude_strictly_padded.

(** 6. monotoneChain over an abstract orientation predicate: consecutive triples are CCW, the
    output is a subsequence of the (sorted) input, first and last points are preserved. *)
Theorem monotone_chain_invariants : forall (P : Type) (sign : P -> P -> P -> Z) pts,
  ccw_triples P sign (monotone_chain P sign pts) /\
  subseq P (monotone_chain P sign pts) pts /\
  (forall d, pts <> [] -> hd d (monotone_chain P sign pts) = hd d pts) /\
  (forall d, pts <> [] -> last (monotone_chain P sign pts) d = last pts d).
Proof. exact monotone_chain_structure. Qed.
Print Assumptions monotone_chain_invariants.

(** 7. The numeric sentences, under the named hypotheses. *)
Theorem chain_rect_bound_conservative_under_H_LATBOUND :
  forall on_edge, H_LATBOUND on_edge ->
  forall pre a p post P, chain_ok new_bounder (pre ++ a :: p :: post) -> on_edge a p P ->
  has (rect_bound (bounder_run (pre ++ a :: p :: post))) (LL P).
Proof. exact chain_rect_bound_conservative. Qed.
Print Assumptions chain_rect_bound_conservative_under_H_LATBOUND.

Theorem cellunion_cap_bound_conservative_under_H_CAPARITH : H_CAPARITH ->
  forall cells caps o q, cells <> [] -> In o caps -> s2_Cap_ContainsPoint o q = true ->
  s2_Cap_ContainsPoint (cu_cap_bound cells caps) q = true.
Proof. exact cu_cap_bound_conservative. Qed.
Print Assumptions cellunion_cap_bound_conservative_under_H_CAPARITH.

(** 8. Finding, repaired by /repo aed5357: before the fix the premise [chain_ok] (no NaN endpoint
    in an edge rectangle) failed for nearly antipodal unit vertices on a near-polar circle; the
    old formula is kept in the model as [*_old] only for this witness.  After the fix the two
    replays have NaN-free bounds that contain the vertices and the pole. *)
Theorem rect_bounder_nan_bound_old_refuted : exists a b,
  is_unit a = true /\ is_unit b = true /\
  s2_LatLng_IsValid (s2_LatLngFromPoint a) = true /\ s2_LatLng_IsValid (s2_LatLngFromPoint b) = true /\
  edge_tag_old a b (s2_LatLngFromPoint a) (s2_LatLngFromPoint b) = 2%Z /\
  go_isnan (r1_Interval_Hi (s2_Rect_Lat (rect_bound (bounder_run_old [a; b])))) = true /\
  s2_Rect_ContainsPoint (rect_bound (bounder_run_old [a; b])) a = false /\
  s2_Rect_ContainsPoint (rect_bound (bounder_run_old [a; b])) b = false.
Proof. exact bounder_nan_old_refuted. Qed.
Print Assumptions rect_bounder_nan_bound_old_refuted.

Theorem rect_bounder_witnesses_repaired :
  (go_isnan (r1_Interval_Hi (s2_Rect_Lat (rect_bound (bounder_run [wit_a; wit_b])))) = false /\
   s2_Rect_ContainsPoint (rect_bound (bounder_run [wit_a; wit_b])) wit_a = true /\
   s2_Rect_ContainsPoint (rect_bound (bounder_run [wit_a; wit_b])) wit_b = true) /\
  (s2_Rect_ContainsPoint (rect_bound (bounder_run_old [wit_c; wit_d])) north_pole = false /\
   s2_Rect_ContainsPoint (rect_bound (bounder_run [wit_c; wit_d])) north_pole = true).
Proof. exact bounder_witnesses_repaired. Qed.
Print Assumptions rect_bounder_witnesses_repaired.

(** Cap.AddCap keeps its conservative round-up: for non-empty caps whose float sum
    dist = ChordAngleBetweenPoints(centers) + other.radius is an ordinary value in [2^-1000, 4),
    the resulting radius is STRICTLY above dist (closed; Flocq rounding argument). *)
Theorem cap_addcap_radius_strictly_above_sum : forall a b : s2_Cap,
  s2_Cap_IsEmpty a = false -> s2_Cap_IsEmpty b = false -> nonnan (s2_Cap_radius a) ->
  let dist := s1_ChordAngle_Add (s2_ChordAngleBetweenPoints (s2_Cap_center a) (s2_Cap_center b))
                (s2_Cap_radius b) in
  PrimFloat.leb (0x1p-1000)%float dist = true -> PrimFloat.ltb dist (0x1p+2)%float = true ->
  PrimFloat.ltb dist (s2_Cap_radius (s2_Cap_AddCap a b)) = true.
Proof. exact addcap_radius_strictly_above_sum. Qed.
Print Assumptions cap_addcap_radius_strictly_above_sum.
