(** C10 — placeholder, filled below *)
From Geo Require Import Model.Bounds.
