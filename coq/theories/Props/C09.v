(** C09 — Encoding is lossless: decoding an encoding reproduces the value exactly.
    Only statements; every proof is [exact] of a lemma in Proofs/C09_*.v.

    [encode_T] / [decode_T] (Model/Codec.v) mirror the Encode/Decode methods of s2 byte for
    byte; float64 fields are carried as 64-bit patterns, so equality of values below is
    bit-for-bit equality of every coordinate, in order.  The zig-zag, interleaving,
    (si,ti)->(pi,qi) and cell-centre detection functions are the translations of the Go source. *)
From Coq Require Import ZArith List Floats.
From Geo Require Import Base.GoPrim Base.Bytes Gen.CellID Gen.Codec Model.Codec.
From Geo Require Import Proofs.C09_Prims Proofs.C09_Interleave Proofs.C09_Lossless Proofs.C09_Compressed Proofs.C09_Exact.
Import ListNotations.
Local Open Scope Z_scope.

(** * Primitives *)
Theorem fixed_width_read_write : forall n x t lg, 0 <= x < 256 ^ Z.of_nat n ->
  read_le n (mkdec (le_bytes n x ++ t) SOk lg) = (x, mkdec t SOk lg).
Proof. exact read_le_app. Qed.
Print Assumptions fixed_width_read_write.

Theorem uvarint_read_write : forall x t, 0 <= x < 2 ^ 64 -> read_uvarint_pure (put_uvarint x ++ t) = UvOk x t.
Proof. exact uvarint_roundtrip. Qed.
Print Assumptions uvarint_read_write.

Theorem zigzag_all_int32 : forall x, - 2 ^ 31 <= x < 2 ^ 31 -> s2_zigzagDecode (s2_zigzagEncode x) = x.
Proof. exact zigzag_roundtrip. Qed.
Print Assumptions zigzag_all_int32.

Theorem interleave_all_uint32_pairs : forall x y, 0 <= x < 2 ^ 32 -> 0 <= y < 2 ^ 32 ->
  s2_deinterleaveUint32 (s2_interleaveUint32 x y) = (x, y).
Proof. exact interleave_roundtrip. Qed.
Print Assumptions interleave_all_uint32_pairs.

(** any int32 sequence, arithmetic modulo 2^32, every order 0..10 *)
Theorem nth_derivative_all_sequences : forall n ks, 0 <= n <= 10 -> Forall (fun k => - 2 ^ 31 <= k < 2 ^ 31) ks ->
  coder_decode_seq (coder_new n) (coder_encode_seq (coder_new n) ks) = ks.
Proof. exact nth_derivative_roundtrip. Qed.
Print Assumptions nth_derivative_all_sequences.

(** * Fixed-width formats: every value, every bit pattern *)
Theorem roundtrip_point : forall p, point_ok p -> decode_point (encode_point p) = Ok p.
Proof. exact C09_Lossless.roundtrip_point. Qed.
Print Assumptions roundtrip_point.
Theorem roundtrip_cap : forall c, cap_ok c -> decode_cap (encode_cap c) = Ok c.
Proof. exact C09_Lossless.roundtrip_cap. Qed.
Print Assumptions roundtrip_cap.
(** guard: the 64-bit patterns of a valid rectangle ([rect_ok] = patterns + translated s2.Rect.IsValid;
    Rect.Decode refuses invalid rectangles since 41c9631, as the C++ decoder does) *)
Theorem roundtrip_rect : forall r, rect_ok r -> decode_rect (encode_rect r) = Ok r.
Proof. exact C09_Lossless.roundtrip_rect. Qed.
Print Assumptions roundtrip_rect.
Theorem roundtrip_cellid : forall id, 0 <= id < 2 ^ 64 -> decode_cellid (encode_cellid id) = Ok id.
Proof. exact C09_Lossless.roundtrip_cellid. Qed.
Print Assumptions roundtrip_cellid.
(** Cell.Decode accepts valid ids only (8beed88) *)
Theorem roundtrip_cell : forall id, 0 <= id < 2 ^ 64 -> s2_CellID_IsValid id = true -> decode_cell (encode_cell id) = Ok id.
Proof. exact C09_Lossless.roundtrip_cell. Qed.
Print Assumptions roundtrip_cell.
(** guards = valid cell ids (847439f) and the decoder's documented limit (the encoder has none: see the refutation below) *)
Theorem roundtrip_cellunion : forall ids, Forall cellid_ok ids ->
  len ids <= s2_CellUnion_decode_maxCells -> decode_cellunion (encode_cellunion ids) = Ok ids.
Proof. exact C09_Lossless.roundtrip_cellunion. Qed.
Print Assumptions roundtrip_cellunion.
(** vertices of polylines and loops: finite coordinates (4fc5f5f), any other bit pattern *)
Theorem roundtrip_polyline : forall ps, Forall vertex_ok ps -> len ps <= s2_maxEncodedVertices ->
  decode_polyline (encode_polyline ps) = Ok ps.
Proof. exact C09_Lossless.roundtrip_polyline. Qed.
Print Assumptions roundtrip_polyline.
(** vertices in order, origin flag, depth, bound; [loop_ok]: finite vertices, depth in its field, a valid bound Rect *)
Theorem roundtrip_loop : forall l, loop_ok l -> decode_loop (encode_loop l) = Ok l.
Proof. exact C09_Lossless.roundtrip_loop. Qed.
Print Assumptions roundtrip_loop.
Theorem roundtrip_polygon_lossless : forall p bs, polygon_ok p ->
  encode_polygon_lossless p = Some bs -> decode_polygon bs = Ok (DLossless p).
Proof. exact C09_Lossless.roundtrip_polygon_lossless. Qed.
Print Assumptions roundtrip_polygon_lossless.
(** beyond its own limit the encoder reports an error instead of bytes *)
Theorem encode_polygon_lossless_limit : forall p,
  encode_polygon_lossless p = None <-> s2_maxEncodedLoops < len (p_loops p).
Proof. exact encode_polygon_lossless_none. Qed.
Print Assumptions encode_polygon_lossless_limit.

(** * Compressed format, byte level (no float reasoning; the closed bit-identical statements follow): loop order, vertex order, origin
    flags, depths, bounds of >= 64-vertex loops; each vertex is either the original bits
    (off-centre list) or the centre the decoder reconstructs from the shifted (si,ti) *)
Theorem roundtrip_polygon_compressed : forall level p bs, 0 <= level <= 30 -> polygon_okc p ->
  encode_polygon_compressed level p (polygon_xs p) = Some bs ->
  decode_polygon bs = Ok (DCompressed (map (cloop_view level) (p_loops p))).
Proof. exact C09_Compressed.roundtrip_polygon_compressed. Qed.
Print Assumptions roundtrip_polygon_compressed.

(** whichever format Polygon.encode selects, for any mix of snapped / unsnapped vertices *)
Theorem roundtrip_polygon_any_format : forall p bs, polygon_ok p -> encode_polygon p = Some bs ->
  decode_polygon bs = Ok (DLossless p)
  \/ exists level, 0 <= level <= 30 /\ decode_polygon bs = Ok (DCompressed (map (cloop_view level) (p_loops p))).
Proof. exact roundtrip_polygon. Qed.
Print Assumptions roundtrip_polygon_any_format.

(** the tie rule of Polygon.encode: the snap level is the least level with the maximal count *)
Theorem snap_level_is_least_most_frequent : forall ls,
  let '(lv, h) := snap_choice ls in
  0 <= lv <= 30 /\ (forall l, 0 <= l <= 30 -> count_level l ls <= h)
  /\ (0 < h -> count_level lv ls = h /\ forall l, 0 <= l < lv -> count_level l ls < h).
Proof. exact snap_choice_least_max. Qed.
Print Assumptions snap_level_is_least_most_frequent.

Theorem encode_twice_same_bytes : forall p b1 b2, encode_polygon p = Some b1 -> encode_polygon p = Some b2 -> b1 = b2.
Proof. exact encode_deterministic. Qed.
Print Assumptions encode_twice_same_bytes.

(** * The float exactness step (closed: Proofs/C09_Float.v, Proofs/C09_F64Bits.v) *)
(** whenever the cell-centre detection reports a level, the decoder's reconstruction from the
    shifted (si,ti) is the float vector the detection compared the point with *)
Theorem piqi_exact : forall v face si ti level,
  s2_xyzToFaceSiTi (mk_s2_Point v) = (face, si, ti, level) -> 0 <= level ->
  s2_facePiQitoXYZ face (s2_siTitoPiQi si level) (s2_siTitoPiQi ti level) level
  = r3_Vector_Normalize (s2_Point_Vector (s2_faceSiTiToXYZ face si ti)).
Proof. exact C09_Float.piqi_exact. Qed.
Print Assumptions piqi_exact.

(** Float64bits (Float64frombits x) = x for every pattern that is not NaN or infinite *)
Theorem f64_bits_frombits : forall x, 0 <= x < 2 ^ 64 -> nonfinite_bits x = false ->
  go_float64bits (go_float64frombits x) = x.
Proof. exact C09_F64Bits.f64_bits_frombits. Qed.
Print Assumptions f64_bits_frombits.

(** every vertex, snapped or not, comes back bit for bit *)
Theorem vertex_bit_identical : forall p level, vertex_ok p -> 0 <= level -> recon level (xyz_face_siti p) = p.
Proof. exact vertex_exact_closed. Qed.
Print Assumptions vertex_bit_identical.

(** the compressed format: every coordinate of every vertex, loop order, vertex order, origin
    flags, depths, and the bounds of loops with at least 64 vertices *)
Theorem roundtrip_polygon_compressed_bit_identical : forall level p bs, 0 <= level <= 30 -> polygon_ok p ->
  Forall (fun l => l_vertices l <> []) (p_loops p) ->
  encode_polygon_compressed level p (polygon_xs p) = Some bs ->
  decode_polygon bs = Ok (DCompressed (map cloop_of_loop (p_loops p))).
Proof. exact roundtrip_polygon_compressed_closed. Qed.
Print Assumptions roundtrip_polygon_compressed_bit_identical.

(** the property for polygons: whichever format Polygon.encode selects, every loop with at least one vertex *)
Theorem roundtrip_polygon_bit_identical : forall p bs, polygon_ok p ->
  Forall (fun l => l_vertices l <> []) (p_loops p) ->
  encode_polygon p = Some bs ->
  decode_polygon bs = Ok (DLossless p) \/ decode_polygon bs = Ok (DCompressed (map cloop_of_loop (p_loops p))).
Proof. exact roundtrip_polygon_exact_closed. Qed.
Print Assumptions roundtrip_polygon_bit_identical.

(** face centres written with +0 (repaired by d20845c): the replay round-trips bit for bit *)
Theorem compressed_zero_sign_roundtrip :
  polygon_ok face_centre_triangle /\
  exists bs, encode_polygon face_centre_triangle = Some bs /\
             decode_polygon bs = Ok (DCompressed (map cloop_of_loop (p_loops face_centre_triangle))).
Proof. exact zero_sign_roundtrip. Qed.
Print Assumptions compressed_zero_sign_roundtrip.

(** before d20845c: == accepted (0,0,1) as the centre of face 2, reconstructed as (-0,-0,1) *)
Theorem compressed_zero_sign_old_refuted :
  let p := (0, 0, 4607182418800017408) in
  let c := s2_facePiQitoXYZ 2 0 0 0 in
  r3_Vector_eqb (vec_of_point p) c = true /\ point_of_vec c = (9223372036854775808, 9223372036854775808, 4607182418800017408)
  /\ x_level (xyz_face_siti p) = -1.
Proof. exact zero_sign_old_refuted. Qed.
Print Assumptions compressed_zero_sign_old_refuted.

(** values outside the types' own validity predicates do not round-trip (intended): an invalid Rect *)
Theorem rect_invalid_does_not_roundtrip : forall r,
  0 <= r_lat_lo r < 2 ^ 64 -> 0 <= r_lat_hi r < 2 ^ 64 -> 0 <= r_lng_lo r < 2 ^ 64 -> 0 <= r_lng_hi r < 2 ^ 64 ->
  rect_valid r = false -> decode_rect (encode_rect r) = Err.
Proof. exact rect_invalid_refuted. Qed.
Print Assumptions rect_invalid_does_not_roundtrip.

(** * FINDINGS on the unchanged tree: where "every encodable value" fails *)
(** a loop without vertices does not survive the compressed format *)
Theorem compressed_zero_vertex_loop_refuted :
  polygon_ok zero_vertex_polygon /\
  exists bs, encode_polygon zero_vertex_polygon = Some bs /\ decode_polygon bs = Ok (DCompressed [empty_cloop])
             /\ empty_cloop <> cloop_of_loop (mkloop [] true 1 (mkrect 0 0 0 0)).
Proof. exact zero_vertex_loop_refuted. Qed.
Print Assumptions compressed_zero_vertex_loop_refuted.

(** encoders without a limit write what the decoders refuse *)
Theorem cellunion_beyond_limit_refuted : forall ids, s2_CellUnion_decode_maxCells < len ids < 2 ^ 63 ->
  decode_cellunion (encode_cellunion ids) = Err.
Proof. exact C09_Lossless.cellunion_beyond_limit_refuted. Qed.
Print Assumptions cellunion_beyond_limit_refuted.
Theorem polyline_beyond_limit_refuted : forall ps, s2_maxEncodedVertices < len ps < 2 ^ 32 ->
  decode_polyline (encode_polyline ps) = Err.
Proof. exact C09_Lossless.polyline_beyond_limit_refuted. Qed.
Print Assumptions polyline_beyond_limit_refuted.
Theorem loop_beyond_limit_refuted : forall l, s2_maxEncodedVertices < len (l_vertices l) < 2 ^ 32 ->
  decode_loop (encode_loop l) = Err.
Proof. exact C09_Lossless.loop_beyond_limit_refuted. Qed.
Print Assumptions loop_beyond_limit_refuted.
