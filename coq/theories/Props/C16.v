(** C16 — The intersection point of two crossing edges is accurate and order-independent.
    Only statements; every proof is [exact] of a lemma in Proofs/C16_*.v.  s2_intersectionStable,
    s2_intersectionStableSorted, s2_projection, s2_compareEdges, s2_robustNormalWithLength and
    r3_Vector_* are the Gallina translations regenerated from /repo on every run (Gen/Isect.v,
    Gen/R3.v); s2_intersectionExact / s2_Intersection are the hand model (Model/IsectExact.v,
    math/big.Float as exact sign-magnitude-exponent numbers), tied by correspondence. *)
From Coq Require Import ZArith Reals Floats Bool List Permutation.
From Flocq Require Import Core.Core IEEE754.BinarySingleNaN IEEE754.PrimFloat.
From Geo Require Import Base.GoPrim Base.F64 Gen.R3 Gen.S2Point Gen.Isect Model.IsectExact.
From Geo Require Import Proofs.C16_F64Exact Proofs.C16_Exact Proofs.C16_Coll Proofs.C16_Witness Proofs.C16_Acc.
From Geo Require Import Proofs.C16_Sym Proofs.C16_Final.
Import ListNotations.
Local Open Scope R_scope.

(** exact fallback: the vector it computes is exactly (a0 x a1) x (b0 x b1) ... *)
Theorem c16_exact_vector : forall a0 a1 b0 b1,
  pvec_val (isect_xP a0 a1 b0 b1) = crossR (crossR (ptR a0) (ptR a1)) (crossR (ptR b0) (ptR b1)).
Proof. exact exact_xP_value. Qed.
Print Assumptions c16_exact_vector.

(** ... which lies in the planes of both edges (+- the direction where the great circles meet) *)
Theorem c16_exact_dir : forall a0 a1 b0 b1,
  let x := pvec_val (isect_xP a0 a1 b0 b1) in
  dotR x (crossR (ptR a0) (ptR a1)) = 0 /\ dotR x (crossR (ptR b0) (ptR b1)) = 0.
Proof. exact exact_dir. Qed.
Print Assumptions c16_exact_dir.

(** ... and is det(b0,b1,a0) a1 - det(b0,b1,a1) a0 = det(a0,a1,b1) b0 - det(a0,a1,b0) b1: for
    crossing edges, s * xP is a positive combination of each edge's endpoints *)
Theorem c16_exact_dir_combination : forall a0 a1 b0 b1,
  let x := pvec_val (isect_xP a0 a1 b0 b1) in
  let A := ptR a0 in let B := ptR a1 in let C := ptR b0 in let D := ptR b1 in
  x = subR (scaleR (detR C D A) B) (scaleR (detR C D B) A) /\
  x = subR (scaleR (detR A B D) C) (scaleR (detR A B C) D).
Proof. exact exact_dir_combination. Qed.
Print Assumptions c16_exact_dir_combination.

(** collinear rule (repaired, /repo 08e0ee9): minimum of the flagged candidates ... *)
Theorem c16_collinear_min : forall cands, cands_ok cands ->
  let r := coll_pick cands in
  (r = vec_ten \/ exists c, In c cands /\ fst c = true /\ r = s2_Point_Vector (snd c)) /\
  (forall c, In c cands -> fst c = true -> r3_Vector_Cmp (s2_Point_Vector (snd c)) r <> (-1)%Z).
Proof. exact collinear_min. Qed.
Print Assumptions c16_collinear_min.

(** ... hence the same (Go ==) for every order in which the candidates are presented *)
Theorem c16_collinear_order_independent : forall cands cands', cands_ok cands -> Permutation cands cands' ->
  r3_Vector_eqb (coll_pick cands) (coll_pick cands') = true.
Proof. exact collinear_perm. Qed.
Print Assumptions c16_collinear_order_independent.

Theorem c16_collinear_symmetric : forall inside a0 a1 b0 b1,
  cands_ok (cands_of inside a0 a1 b0 b1) ->
  let r := coll_pick (cands_of inside a0 a1 b0 b1) in
  r3_Vector_eqb r (coll_pick (cands_of inside a1 a0 b0 b1)) = true /\
  r3_Vector_eqb r (coll_pick (cands_of inside a0 a1 b1 b0)) = true /\
  r3_Vector_eqb r (coll_pick (cands_of inside b0 b1 a0 a1)) = true.
Proof. exact collinear_symmetric. Qed.
Print Assumptions c16_collinear_symmetric.

(** the rule before the repair was order dependent (equator, angles 0,0.2 / 0.1,0.3) *)
Theorem c16_collinear_old_refuted :
  isect_exact_collinear w_a0 w_a1 w_b0 w_b1 = true /\
  s2_Point_eqb (s2_intersectionExact_old_first w_a0 w_a1 w_b0 w_b1)
               (s2_intersectionExact_old_first w_b0 w_b1 w_a0 w_a1) = false /\
  s2_Point_eqbits (s2_intersectionExact w_a0 w_a1 w_b0 w_b1)
                  (s2_intersectionExact w_b0 w_b1 w_a0 w_a1) = true.
Proof. exact collinear_old_refuted. Qed.
Print Assumptions c16_collinear_old_refuted.

(** bit identity: results that are == are bit-identical after the final "+ (+0)" (/repo 6031b18),
    and no coordinate of the returned point is -0 *)
Theorem c16_eq_implies_bit_identical : forall p q,
  nonnan3 (s2_Point_Vector p) -> nonnan3 (s2_Point_Vector q) -> s2_Point_eqb p q = true ->
  isect_canon_zero p = isect_canon_zero q.
Proof. exact canon_zero_bit_identical. Qed.
Print Assumptions c16_eq_implies_bit_identical.

Theorem c16_no_negative_zero : forall p c,
  In c [r3_Vector_X (s2_Point_Vector (isect_canon_zero p)); r3_Vector_Y (s2_Point_Vector (isect_canon_zero p));
        r3_Vector_Z (s2_Point_Vector (isect_canon_zero p))] -> Prim2B c <> B754_zero true.
Proof. exact canon_zero_no_negative_zero. Qed.
Print Assumptions c16_no_negative_zero.

Theorem c16_zero_sign_old_refuted :
  s2_Point_eqb (s2_Intersection_old_signed z_a0 z_a1 z_b0 z_b1) (s2_Intersection_old_signed z_b0 z_b1 z_a0 z_a1) = true /\
  s2_Point_eqbits (s2_Intersection_old_signed z_a0 z_a1 z_b0 z_b1) (s2_Intersection_old_signed z_b0 z_b1 z_a0 z_a1) = false /\
  s2_Point_eqbits (s2_Intersection z_a0 z_a1 z_b0 z_b1) (s2_Intersection z_b0 z_b1 z_a0 z_a1) = true.
Proof. exact zero_sign_old_refuted. Qed.
Print Assumptions c16_zero_sign_old_refuted.

(** underflow (repaired, /repo e2243a8 15c67df): witnesses for the old variants *)
Theorem c16_exact_underflow_old_refuted :
  s2_Point_eqb (s2_intersectionExact_old_vector u_a0 u_a1 (u_b0 d170) (u_b1 d170)) (P3 0 1 0) = true /\
  isect_exact_collinear u_a0 u_a1 (u_b0 d170) (u_b1 d170) = false /\
  s2_Point_eqb (s2_Intersection u_a0 u_a1 (u_b0 d170) (u_b1 d170))
               (P3 0x1.6a09e667f3bccp-1 0x1.6a09e667f3bccp-1 0) = true.
Proof. exact exact_underflow_old_refuted. Qed.
Print Assumptions c16_exact_underflow_old_refuted.

Theorem c16_stable_underflow_rejected :
  snd (s2_intersectionStable u_a0 u_a1 (u_b0 d160) (u_b1 d160)) = false /\
  s2_Point_eqb (s2_Intersection u_a0 u_a1 (u_b0 d160) (u_b1 d160))
               (P3 0x1.6a09e667f3bcdp-1 0x1.6a09e667f3bcdp-1 0) = true.
Proof. exact stable_underflow_rejected. Qed.
Print Assumptions c16_stable_underflow_rejected.

(** accuracy, unit length, hemisphere: [H: H_ISECT, H_HEMI] *)
Theorem c16_isect_accurate : forall sinB2 unit_slack, H_ISECT sinB2 unit_slack -> H_HEMI -> forall a0 a1 b0 b1,
  valid_pt a0 -> valid_pt a1 -> valid_pt b0 -> valid_pt b1 -> crossing a0 a1 b0 b1 ->
  (snd (s2_intersectionStable a0 a1 b0 b1) = false -> isect_exact_collinear a0 a1 b0 b1 = false) ->
  not_antipodal a0 a1 -> not_antipodal b0 b1 ->
  let r := vecR (s2_Point_Vector (s2_Intersection a0 a1 b0 b1)) in
  unitish unit_slack r /\ near_line sinB2 r (true_dir a0 a1 b0 b1) /\ 0 < dotR r (true_dir a0 a1 b0 b1).
Proof. exact isect_accurate. Qed.
Print Assumptions c16_isect_accurate.

Theorem c16_isect_accurate_line : forall sinB2 unit_slack, H_ISECT sinB2 unit_slack -> forall a0 a1 b0 b1,
  valid_pt a0 -> valid_pt a1 -> valid_pt b0 -> valid_pt b1 -> crossing a0 a1 b0 b1 ->
  (snd (s2_intersectionStable a0 a1 b0 b1) = false -> isect_exact_collinear a0 a1 b0 b1 = false) ->
  let r := vecR (s2_Point_Vector (s2_Intersection a0 a1 b0 b1)) in
  unitish unit_slack r /\ near_line sinB2 r (true_dir a0 a1 b0 b1).
Proof. exact isect_accurate_line. Qed.
Print Assumptions c16_isect_accurate_line.

(** the hemisphere sentence at full strength (no guard on the edge lengths) is FALSE of the
    current code: KNOWN_FINDINGS kind Intersection.antipode *)
Theorem c16_hemisphere_refuted :
  crossing_sign h_A h_B h_C h_D = 1%Z /\
  side_of_crossing (s2_Intersection h_A h_B h_C h_D) h_A h_B h_C h_D = (-1)%Z.
Proof. exact hemisphere_refuted. Qed.
Print Assumptions c16_hemisphere_refuted.

(** compareEdges is documented as a total order on edges; it is not antisymmetric when the
    smaller endpoints coincide (never the case for crossing edges) *)
Theorem c16_compareEdges_shared_min_not_antisymmetric :
  let o := P3 0 0 1 in let p := P3 0 1 0 in let q := P3 1 0 0 in
  s2_compareEdges o p o q = true /\ s2_compareEdges o q o p = true.
Proof. exact compareEdges_shared_min_not_antisymmetric. Qed.
Print Assumptions c16_compareEdges_shared_min_not_antisymmetric.

(** the stable path's acceptance threshold is the documented one (witness pair, see Proofs) *)
Theorem c16_stable_threshold_witness : snd (stable4 t_rej) = false /\ snd (stable4 t_acc) = true.
Proof. exact stable_threshold_witness. Qed.
Print Assumptions c16_stable_threshold_witness.

(** * order independence of the stable path: closed, exact IEEE-754 identities only *)

(** isect_symmetric: when the stable path decides (ok = true), reversing either edge or swapping
    the two edges gives the SAME float triple (Leibniz equality, i.e. bit-identical), for any
    model [exact] of the fallback.  Premises, all computable tests on the inputs: no NaN; the
    smaller endpoints of the two edges differ (edges that cross share no vertex); the two
    endpoint offsets used by projection are distinguishable when equidistant; the stable point
    is finite and its hemisphere dot product is neither zero nor NaN. *)
Theorem c16_isect_symmetric : forall exact a0 a1 b0 b1 pt, side_conditions_b a0 a1 b0 b1 = true ->
  s2_intersectionStable a0 a1 b0 b1 = (pt, true) -> finite3f (s2_Point_Vector pt) ->
  decisive_b (r3_Vector_Dot (s2_Point_Vector pt) (vertex_sum a0 a1 b0 b1)) = true ->
  s2_Intersection_with exact a1 a0 b0 b1 = s2_Intersection_with exact a0 a1 b0 b1 /\
  s2_Intersection_with exact a0 a1 b1 b0 = s2_Intersection_with exact a0 a1 b0 b1 /\
  s2_Intersection_with exact b0 b1 a0 a1 = s2_Intersection_with exact a0 a1 b0 b1.
Proof. exact isect_symmetric_b. Qed.
Print Assumptions c16_isect_symmetric.

(** the mechanisms, each for ALL float inputs unless a guard is written *)
Theorem c16_sub_anti : forall x y : PrimFloat.float, fneg (PrimFloat.sub y x) (PrimFloat.sub x y).
Proof. exact fsub_anti. Qed.
Print Assumptions c16_sub_anti.

Theorem c16_abs_sub_swap : forall x y : PrimFloat.float,
  PrimFloat.abs (PrimFloat.sub x y) = PrimFloat.abs (PrimFloat.sub y x).
Proof. exact fabs_sub_swap. Qed.
Print Assumptions c16_abs_sub_swap.

Theorem c16_mul_comm : forall x y : PrimFloat.float, PrimFloat.mul x y = PrimFloat.mul y x.
Proof. exact fmul_comm. Qed.
Print Assumptions c16_mul_comm.

Theorem c16_add_comm : forall x y : PrimFloat.float, PrimFloat.add x y = PrimFloat.add y x.
Proof. exact fadd_comm. Qed.
Print Assumptions c16_add_comm.

Theorem c16_mul_opp : forall x y : PrimFloat.float,
  PrimFloat.mul (PrimFloat.opp x) y = PrimFloat.opp (PrimFloat.mul x y).
Proof. exact fmul_opp_l. Qed.
Print Assumptions c16_mul_opp.

Theorem c16_dot_comm : forall v w, r3_Vector_Dot v w = r3_Vector_Dot w v.
Proof. exact dot_comm. Qed.
Print Assumptions c16_dot_comm.

Theorem c16_edge_length_symmetric : forall v w,
  r3_Vector_Norm2 (r3_Vector_Sub v w) = r3_Vector_Norm2 (r3_Vector_Sub w v).
Proof. exact norm2_sub_swap. Qed.
Print Assumptions c16_edge_length_symmetric.

Theorem c16_stable_normal_anti : forall x y,
  fneg3 (r3_Vector_Cross (r3_Vector_Sub y x) (r3_Vector_Add y x))
        (r3_Vector_Cross (r3_Vector_Sub x y) (r3_Vector_Add x y)).
Proof. exact stable_normal_anti. Qed.
Print Assumptions c16_stable_normal_anti.

Theorem c16_robustNormalWithLength_antisym : forall x y,
  snd (s2_robustNormalWithLength y x) = snd (s2_robustNormalWithLength x y) /\
  fneg3 (fst (s2_robustNormalWithLength y x)) (fst (s2_robustNormalWithLength x y)).
Proof. exact robustNormalWithLength_antisym. Qed.
Print Assumptions c16_robustNormalWithLength_antisym.

Theorem c16_compareEdges_reverse : forall a0 a1 b0 b1, nnp a0 -> nnp a1 -> nnp b0 -> nnp b1 ->
  s2_compareEdges a1 a0 b0 b1 = s2_compareEdges a0 a1 b0 b1 /\
  s2_compareEdges a0 a1 b1 b0 = s2_compareEdges a0 a1 b0 b1.
Proof. exact compareEdges_reverse. Qed.
Print Assumptions c16_compareEdges_reverse.

Theorem c16_compareEdges_antisym : forall a0 a1 b0 b1, nnp a0 -> nnp a1 -> nnp b0 -> nnp b1 ->
  kmin a0 a1 <> kmin b0 b1 -> s2_compareEdges b0 b1 a0 a1 = negb (s2_compareEdges a0 a1 b0 b1).
Proof. exact compareEdges_antisym. Qed.
Print Assumptions c16_compareEdges_antisym.

Theorem c16_projection_reverse : forall x aNorm aNorm' len a0 a1, proj_ok x a0 a1 -> fneg3 aNorm' aNorm ->
  snd (s2_projection x aNorm' len a1 a0) = snd (s2_projection x aNorm len a0 a1) /\
  fneg (fst (s2_projection x aNorm' len a1 a0)) (fst (s2_projection x aNorm len a0 a1)).
Proof. exact projection_reverse. Qed.
Print Assumptions c16_projection_reverse.

Theorem c16_stable_swap : forall a0 a1 b0 b1, nnp a0 -> nnp a1 -> nnp b0 -> nnp b1 ->
  nonnan (edge_len2 a0 a1) -> nonnan (edge_len2 b0 b1) -> kmin a0 a1 <> kmin b0 b1 ->
  s2_intersectionStable b0 b1 a0 a1 = s2_intersectionStable a0 a1 b0 b1.
Proof. exact stable_swap_symmetric. Qed.
Print Assumptions c16_stable_swap.

Theorem c16_sorted_reverse_second : forall a0 a1 b0 b1,
  snd (s2_intersectionStableSorted a0 a1 b1 b0) = snd (s2_intersectionStableSorted a0 a1 b0 b1) /\
  fneg3 (s2_Point_Vector (fst (s2_intersectionStableSorted a0 a1 b1 b0)))
        (s2_Point_Vector (fst (s2_intersectionStableSorted a0 a1 b0 b1))).
Proof. exact sorted_reverse_second. Qed.
Print Assumptions c16_sorted_reverse_second.

Theorem c16_sorted_reverse_first : forall a0 a1 b0 b1,
  proj_ok (s2_Point_Vector b0) a0 a1 -> proj_ok (s2_Point_Vector b1) a0 a1 ->
  snd (s2_intersectionStableSorted a1 a0 b0 b1) = snd (s2_intersectionStableSorted a0 a1 b0 b1) /\
  fneg3 (s2_Point_Vector (fst (s2_intersectionStableSorted a1 a0 b0 b1)))
        (s2_Point_Vector (fst (s2_intersectionStableSorted a0 a1 b0 b1))).
Proof. exact sorted_reverse_first. Qed.
Print Assumptions c16_sorted_reverse_first.

(** sign fix + canonical zero map a point and its opposite (up to zero signs) to the same triple *)
Theorem c16_finish_fneg3 : forall pt pt' S,
  finite3f (s2_Point_Vector pt) -> fneg3 (s2_Point_Vector pt') (s2_Point_Vector pt) ->
  decisive (r3_Vector_Dot (s2_Point_Vector pt) S) -> finish pt' S = finish pt S.
Proof. exact finish_fneg3. Qed.
Print Assumptions c16_finish_fneg3.
