(** C16 — The intersection point of two crossing edges is accurate and order-independent.
    Only statements; every proof is [exact] of a lemma in Proofs/C16_*.v.  s2_intersectionStable,
    s2_intersectionStableSorted, s2_projection, s2_compareEdges, s2_robustNormalWithLength and
    r3_Vector_* are the Gallina translations regenerated from /repo on every run (Gen/Isect.v,
    Gen/R3.v); s2_intersectionExact / s2_Intersection are the hand model (Model/IsectExact.v,
    math/big.Float as exact sign-magnitude-exponent numbers), tied by correspondence. *)
From Coq Require Import ZArith Reals Floats Bool List Permutation.
From Flocq Require Import Core.Core IEEE754.BinarySingleNaN IEEE754.PrimFloat.
From Geo Require Import Base.GoPrim Base.F64 Gen.R3 Gen.S2Point Gen.Isect Model.IsectExact.
From Geo Require Import Proofs.C16_F64Exact Proofs.C16_Exact Proofs.C16_Coll Proofs.C16_Witness Proofs.C16_Acc.
Import ListNotations.
Local Open Scope R_scope.

(** exact fallback: the vector it computes is exactly (a0 x a1) x (b0 x b1) ... *)
Theorem c16_exact_vector : forall a0 a1 b0 b1,
  pvec_val (isect_xP a0 a1 b0 b1) = crossR (crossR (ptR a0) (ptR a1)) (crossR (ptR b0) (ptR b1)).
Proof. exact exact_xP_value. Qed.
Print Assumptions c16_exact_vector.

(** ... which lies in the planes of both edges (+- the direction where the great circles meet) *)
Theorem c16_exact_dir : forall a0 a1 b0 b1,
  let x := pvec_val (isect_xP a0 a1 b0 b1) in
  dotR x (crossR (ptR a0) (ptR a1)) = 0 /\ dotR x (crossR (ptR b0) (ptR b1)) = 0.
Proof. exact exact_dir. Qed.
Print Assumptions c16_exact_dir.

(** ... and is det(b0,b1,a0) a1 - det(b0,b1,a1) a0 = det(a0,a1,b1) b0 - det(a0,a1,b0) b1: for
    crossing edges, s * xP is a positive combination of each edge's endpoints *)
Theorem c16_exact_dir_combination : forall a0 a1 b0 b1,
  let x := pvec_val (isect_xP a0 a1 b0 b1) in
  let A := ptR a0 in let B := ptR a1 in let C := ptR b0 in let D := ptR b1 in
  x = subR (scaleR (detR C D A) B) (scaleR (detR C D B) A) /\
  x = subR (scaleR (detR A B D) C) (scaleR (detR A B C) D).
Proof. exact exact_dir_combination. Qed.
Print Assumptions c16_exact_dir_combination.

(** collinear rule (repaired, /repo 08e0ee9): minimum of the flagged candidates ... *)
Theorem c16_collinear_min : forall cands, cands_ok cands ->
  let r := coll_pick cands in
  (r = vec_ten \/ exists c, In c cands /\ fst c = true /\ r = s2_Point_Vector (snd c)) /\
  (forall c, In c cands -> fst c = true -> r3_Vector_Cmp (s2_Point_Vector (snd c)) r <> (-1)%Z).
Proof. exact collinear_min. Qed.
Print Assumptions c16_collinear_min.

(** ... hence the same (Go ==) for every order in which the candidates are presented *)
Theorem c16_collinear_order_independent : forall cands cands', cands_ok cands -> Permutation cands cands' ->
  r3_Vector_eqb (coll_pick cands) (coll_pick cands') = true.
Proof. exact collinear_perm. Qed.
Print Assumptions c16_collinear_order_independent.

Theorem c16_collinear_symmetric : forall inside a0 a1 b0 b1,
  cands_ok (cands_of inside a0 a1 b0 b1) ->
  let r := coll_pick (cands_of inside a0 a1 b0 b1) in
  r3_Vector_eqb r (coll_pick (cands_of inside a1 a0 b0 b1)) = true /\
  r3_Vector_eqb r (coll_pick (cands_of inside a0 a1 b1 b0)) = true /\
  r3_Vector_eqb r (coll_pick (cands_of inside b0 b1 a0 a1)) = true.
Proof. exact collinear_symmetric. Qed.
Print Assumptions c16_collinear_symmetric.

(** the rule before the repair was order dependent (equator, angles 0,0.2 / 0.1,0.3) *)
Theorem c16_collinear_old_refuted :
  isect_exact_collinear w_a0 w_a1 w_b0 w_b1 = true /\
  s2_Point_eqb (s2_intersectionExact_old_first w_a0 w_a1 w_b0 w_b1)
               (s2_intersectionExact_old_first w_b0 w_b1 w_a0 w_a1) = false /\
  s2_Point_eqbits (s2_intersectionExact w_a0 w_a1 w_b0 w_b1)
                  (s2_intersectionExact w_b0 w_b1 w_a0 w_a1) = true.
Proof. exact collinear_old_refuted. Qed.
Print Assumptions c16_collinear_old_refuted.

(** bit identity: results that are == are bit-identical after the final "+ (+0)" (/repo 6031b18),
    and no coordinate of the returned point is -0 *)
Theorem c16_eq_implies_bit_identical : forall p q,
  nonnan3 (s2_Point_Vector p) -> nonnan3 (s2_Point_Vector q) -> s2_Point_eqb p q = true ->
  isect_canon_zero p = isect_canon_zero q.
Proof. exact canon_zero_bit_identical. Qed.
Print Assumptions c16_eq_implies_bit_identical.

Theorem c16_no_negative_zero : forall p c,
  In c [r3_Vector_X (s2_Point_Vector (isect_canon_zero p)); r3_Vector_Y (s2_Point_Vector (isect_canon_zero p));
        r3_Vector_Z (s2_Point_Vector (isect_canon_zero p))] -> Prim2B c <> B754_zero true.
Proof. exact canon_zero_no_negative_zero. Qed.
Print Assumptions c16_no_negative_zero.

Theorem c16_zero_sign_old_refuted :
  s2_Point_eqb (s2_Intersection_old_signed z_a0 z_a1 z_b0 z_b1) (s2_Intersection_old_signed z_b0 z_b1 z_a0 z_a1) = true /\
  s2_Point_eqbits (s2_Intersection_old_signed z_a0 z_a1 z_b0 z_b1) (s2_Intersection_old_signed z_b0 z_b1 z_a0 z_a1) = false /\
  s2_Point_eqbits (s2_Intersection z_a0 z_a1 z_b0 z_b1) (s2_Intersection z_b0 z_b1 z_a0 z_a1) = true.
Proof. exact zero_sign_old_refuted. Qed.
Print Assumptions c16_zero_sign_old_refuted.

(** underflow (repaired, /repo e2243a8 15c67df): witnesses for the old variants *)
Theorem c16_exact_underflow_old_refuted :
  s2_Point_eqb (s2_intersectionExact_old_vector u_a0 u_a1 (u_b0 d170) (u_b1 d170)) (P3 0 1 0) = true /\
  isect_exact_collinear u_a0 u_a1 (u_b0 d170) (u_b1 d170) = false /\
  s2_Point_eqb (s2_Intersection u_a0 u_a1 (u_b0 d170) (u_b1 d170))
               (P3 0x1.6a09e667f3bccp-1 0x1.6a09e667f3bccp-1 0) = true.
Proof. exact exact_underflow_old_refuted. Qed.
Print Assumptions c16_exact_underflow_old_refuted.

Theorem c16_stable_underflow_rejected :
  snd (s2_intersectionStable u_a0 u_a1 (u_b0 d160) (u_b1 d160)) = false /\
  s2_Point_eqb (s2_Intersection u_a0 u_a1 (u_b0 d160) (u_b1 d160))
               (P3 0x1.6a09e667f3bcdp-1 0x1.6a09e667f3bcdp-1 0) = true.
Proof. exact stable_underflow_rejected. Qed.
Print Assumptions c16_stable_underflow_rejected.

(** accuracy, unit length, hemisphere: [H: H_ISECT, H_HEMI] *)
Theorem c16_isect_accurate : forall sinB2 unit_slack, H_ISECT sinB2 unit_slack -> H_HEMI -> forall a0 a1 b0 b1,
  valid_pt a0 -> valid_pt a1 -> valid_pt b0 -> valid_pt b1 -> crossing a0 a1 b0 b1 ->
  (snd (s2_intersectionStable a0 a1 b0 b1) = false -> isect_exact_collinear a0 a1 b0 b1 = false) ->
  not_antipodal a0 a1 -> not_antipodal b0 b1 ->
  let r := vecR (s2_Point_Vector (s2_Intersection a0 a1 b0 b1)) in
  unitish unit_slack r /\ near_line sinB2 r (true_dir a0 a1 b0 b1) /\ 0 < dotR r (true_dir a0 a1 b0 b1).
Proof. exact isect_accurate. Qed.
Print Assumptions c16_isect_accurate.

Theorem c16_isect_accurate_line : forall sinB2 unit_slack, H_ISECT sinB2 unit_slack -> forall a0 a1 b0 b1,
  valid_pt a0 -> valid_pt a1 -> valid_pt b0 -> valid_pt b1 -> crossing a0 a1 b0 b1 ->
  (snd (s2_intersectionStable a0 a1 b0 b1) = false -> isect_exact_collinear a0 a1 b0 b1 = false) ->
  let r := vecR (s2_Point_Vector (s2_Intersection a0 a1 b0 b1)) in
  unitish unit_slack r /\ near_line sinB2 r (true_dir a0 a1 b0 b1).
Proof. exact isect_accurate_line. Qed.
Print Assumptions c16_isect_accurate_line.

(** the hemisphere sentence at full strength (no guard on the edge lengths) is FALSE of the
    current code: KNOWN_FINDINGS kind Intersection.antipode *)
Theorem c16_hemisphere_refuted :
  crossing_sign h_A h_B h_C h_D = 1%Z /\
  side_of_crossing (s2_Intersection h_A h_B h_C h_D) h_A h_B h_C h_D = (-1)%Z.
Proof. exact hemisphere_refuted. Qed.
Print Assumptions c16_hemisphere_refuted.

(** compareEdges is documented as a total order on edges; it is not antisymmetric when the
    smaller endpoints coincide (never the case for crossing edges) *)
Theorem c16_compareEdges_shared_min_not_antisymmetric :
  let o := P3 0 0 1 in let p := P3 0 1 0 in let q := P3 1 0 0 in
  s2_compareEdges o p o q = true /\ s2_compareEdges o q o p = true.
Proof. exact compareEdges_shared_min_not_antisymmetric. Qed.
Print Assumptions c16_compareEdges_shared_min_not_antisymmetric.
