(** C20 — Approximation operators stay within the tolerance they declare.
    Only statements; every proof is [exact] of a lemma in Proofs/C20_Approx.v. Names [s2_*], [math_*],
    [r2_*] are the Gallina translations regenerated from /repo on every run (Gen/Approx.v); the
    tessellator, the projections, findEndVertex/SubsampleVertices and CellIDSnapper.SnapPoint are the
    hand-written models of Model/Approx.v, tied to the Go code bit for bit by the correspondence.
    Accuracy sentences carry the named hypotheses H_TESS, H_TESS_TERM (never OutOfFuel), H_SNAP,
    (H_RTE_INT is discharged: round_to_even_is_integer_valued); H_SUBSAMPLE and H_LIBM (Project o Unproject ~ id) have no closed part and are attacked by
    the search only. *)
From Coq Require Import ZArith Reals Floats Bool List Sorted.
From Geo Require Import Base.GoPrim Base.F64 Gen.Approx Model.Approx Proofs.C20_Approx Proofs.C20_RoundToEven.
From Geo Require Import Gen.CellIDFull.  (* s2_xyzToFaceUV *)
Import ListNotations.

(** SubsampleVertices ------------------------------------------------------ *)
Theorem subsample_shape_any_end_vertex_function : forall (p : list s2_Point) (fe : Z -> Z),
  fe_ok fe (Z.of_nat (length p)) -> subsample_shape_of p (subsample_with fe p).
Proof. exact subsample_with_shape. Qed.
Print Assumptions subsample_shape_any_end_vertex_function.

Theorem subsample_vertices_shape : forall p tolerance,
  (forall i, first_ok p (clampedTolerance tolerance) i = true) ->
  subsample_shape_of p (SubsampleVertices p tolerance).
Proof. exact subsample_shape. Qed.
Print Assumptions subsample_vertices_shape.

Theorem find_end_vertex_in_range : forall p tol index, (0 <= index < Z.of_nat (length p))%Z ->
  (index <= findEndVertex p tol index <= Z.of_nat (length p) - 1)%Z.
Proof. exact find_end_vertex_range. Qed.
Print Assumptions find_end_vertex_in_range.

Theorem find_end_vertex_makes_progress : forall p tol index, (0 <= index)%Z -> (index + 1 < Z.of_nat (length p))%Z ->
  first_ok p tol index = true -> (index < findEndVertex p tol index)%Z.
Proof. exact find_end_vertex_progress. Qed.
Print Assumptions find_end_vertex_makes_progress.

Theorem subsample_tolerance_clamped_at_zero : forall tol, nonnan tol ->
  nonnan (clampedTolerance tol) /\ rank (clampedTolerance tol) = Rmax (rank tol) 0.
Proof. exact clamped_tolerance_nonneg. Qed.
Print Assumptions subsample_tolerance_clamped_at_zero.

Theorem subsample_nan_vertex_out_of_fuel : SubsampleVertices [pt100; nan_pt; pt100] (0x1p-10)%float = None.
Proof. exact subsample_nan_vertex_no_progress. Qed.
Print Assumptions subsample_nan_vertex_out_of_fuel.

(** wrapDestination ---------------------------------------------------------- *)
Theorem wrap_destination_identity_when_off : forall a b, wrapDestination (mk_r2_Point 0 0) a b = b.
Proof. exact wrap_destination_off. Qed.
Print Assumptions wrap_destination_identity_when_off.

Theorem wrap_destination_coordinate : forall w a x,
  (wrap_coord w a x = x /\ (PrimFloat.ltb 0 w = false \/ PrimFloat.ltb (PrimFloat.mul (0x1p-1)%float w) (PrimFloat.abs (PrimFloat.sub x a)) = false)) \/
  (wrap_coord w a x = PrimFloat.add a (go_remainder (PrimFloat.sub x a) w) /\
   PrimFloat.ltb 0 w = true /\ PrimFloat.ltb (PrimFloat.mul (0x1p-1)%float w) (PrimFloat.abs (PrimFloat.sub x a)) = true).
Proof. exact wrap_coord_cases. Qed.
Print Assumptions wrap_destination_coordinate.

Theorem remainder_congruent_and_within_half : forall X Y, (0 < Y)%Z ->
  let R := (X - round_half_even X Y * Y)%Z in ((X - R) mod Y = 0 /\ 2 * Z.abs R <= Y)%Z.
Proof. exact round_half_even_core. Qed.
Print Assumptions remainder_congruent_and_within_half.

(** Snapping ------------------------------------------------------------------- *)
Theorem cellid_snap_lands_on_level_grid : forall level p, (0 <= level <= 30)%Z ->
  exists f u v si ti,
    s2_xyzToFaceUV (s2_Point_Vector p) = (f, u, v) /\
    cellid_snap level p =
      mk_s2_Point (r3_Vector_Normalize (s2_faceUVToXYZ f
        (s2_stToUV (PrimFloat.mul (0x1p-31)%float (float_of_Z si)))
        (s2_stToUV (PrimFloat.mul (0x1p-31)%float (float_of_Z ti))))) /\
    (si mod 2 ^ (31 - level) = 2 ^ (30 - level) /\ ti mod 2 ^ (31 - level) = 2 ^ (30 - level) /\
     si - 2 ^ (30 - level) <= 2 * s2_stToIJ (s2_uvToST u) < si + 2 ^ (30 - level) /\
     ti - 2 ^ (30 - level) <= 2 * s2_stToIJ (s2_uvToST v) < ti + 2 ^ (30 - level))%Z.
Proof. exact cellid_snap_on_grid. Qed.
Print Assumptions cellid_snap_lands_on_level_grid.

(** math.RoundToEven (the toolchain's bit manipulation, translated) is integer-valued on every finite float:
    closed (Proofs/C20_RTE_Arith.v, C20_RoundToEven.v); it was the carried hypothesis H_RTE_INT *)
Theorem round_to_even_is_integer_valued : forall x, go_isnan x = false -> go_isinf x 0 = false ->
  exists k : Z, PrimFloat.eqb (math_RoundToEven x) (float_of_Z k) = true.
Proof. exact rte_int. Qed.
Print Assumptions round_to_even_is_integer_valued.

Theorem intlatlng_snap_lands_on_degree_grid : forall sf p,
  let ll := s2_LatLngFromPoint p in
  let slat := PrimFloat.mul (s1_Angle_Degrees (s2_LatLng_Lat ll)) (s2_IntLatLngSnapper_from sf) in
  let slng := PrimFloat.mul (s1_Angle_Degrees (s2_LatLng_Lng ll)) (s2_IntLatLngSnapper_from sf) in
  go_isnan slat = false -> go_isinf slat 0 = false -> go_isnan slng = false -> go_isinf slng 0 = false ->
  exists L G (k m : Z),
    s2_IntLatLngSnapper_SnapPoint sf p =
      s2_PointFromLatLng (s2_LatLngFromDegrees (PrimFloat.mul L (s2_IntLatLngSnapper_to sf)) (PrimFloat.mul G (s2_IntLatLngSnapper_to sf))) /\
    PrimFloat.eqb L (float_of_Z k) = true /\ PrimFloat.eqb G (float_of_Z m) = true.
Proof. exact (intlatlng_snap_on_grid rte_int). Qed.
Print Assumptions intlatlng_snap_lands_on_degree_grid.

Theorem intlatlng_grid_unit_is_power_of_ten : forallb (fun e =>
    let sf := s2_NewIntLatLngSnapper e in
    fbiteq (s2_IntLatLngSnapper_from sf) (math_Pow10 e) &&
    fbiteq (s2_IntLatLngSnapper_to sf) (PrimFloat.div 1 (math_Pow10 e)) &&
    PrimFloat.eqb (s2_IntLatLngSnapper_from sf) (float_of_Z (10 ^ e)) &&
    PrimFloat.ltb (PrimFloat.mul (0x1.1df46a2529d39p-06)%float (PrimFloat.div (0x1.6a09e667f3bcdp-01)%float (math_Pow10 e)))
                  (s2_IntLatLngSnapper_SnapRadius sf)) (zrange_up 0 11) = true.
Proof. exact intlatlng_snapper_fields. Qed.
Print Assumptions intlatlng_grid_unit_is_power_of_ten.

Theorem intlatlng_unrepaired_leaves_radius_refuted : exists p,
  let sf := s2_NewIntLatLngSnapper 0 in
  PrimFloat.ltb (0x1p-3)%float (s2_ChordAngleBetweenPoints p (intlatlng_snap_old sf p)) = true /\
  PrimFloat.leb (s2_ChordAngleBetweenPoints p (s2_IntLatLngSnapper_SnapPoint sf p))
                (s1_ChordAngleFromAngle (s2_IntLatLngSnapper_SnapRadius sf)) = true /\
  PrimFloat.ltb (s1_ChordAngleFromAngle (s2_IntLatLngSnapper_SnapRadius sf)) (0x1p-12)%float = true.
Proof. exact intlatlng_old_refuted. Qed.
Print Assumptions intlatlng_unrepaired_leaves_radius_refuted.

Theorem default_cellid_snapper_has_level30_radius :
  s2_NewCellIDSnapper = s2_CellIDSnapperForLevel 30 /\
  PrimFloat.ltb 0 (s2_CellIDSnapper_SnapRadius s2_NewCellIDSnapper) = true.
Proof. exact new_cellid_snapper_radius. Qed.
Print Assumptions default_cellid_snapper_has_level30_radius.

Theorem cellid_snap_radius_covers_max_move : forall max_move : Z -> R, H_SNAP max_move ->
  forall l, (0 <= l <= 30)%Z ->
  (max_move l <= rank (s2_CellIDSnapper_SnapRadius (s2_CellIDSnapperForLevel l)))%R /\
  s2_CellIDSnapper_SnapRadius (if (l =? 30)%Z then s2_NewCellIDSnapper else s2_CellIDSnapperForLevel l) =
  s2_CellIDSnapper_SnapRadius (s2_CellIDSnapperForLevel l).
Proof. exact cellid_snap_radius_covers. Qed.
Print Assumptions cellid_snap_radius_covers_max_move.

(** Tessellation --------------------------------------------------------------- *)
Theorem append_unprojected_chain : forall fuel P thr pa pb vs d,
  AppendUnprojected fuel P thr pa pb [] = Some vs ->
  exists l, unprojected_leaves fuel P thr pa (proj_unproject P pa) pb (proj_unproject P pb) = Some l /\
    vs = proj_unproject P pa :: map seg_b l /\ Forall (seg_passes P thr) l /\
    chain_from (proj_unproject P pa) l (proj_unproject P pb) /\
    hd d vs = proj_unproject P pa /\ last vs d = proj_unproject P pb /\ (2 <= length vs)%nat.
Proof. exact append_unprojected_shape. Qed.
Print Assumptions append_unprojected_chain.

Theorem append_projected_chain : forall fuel P thr a b vs d,
  AppendProjected fuel P thr a b [] = Some vs ->
  exists l, projected_leaves fuel P thr (proj_project P a) a (proj_project P b) b = Some l /\
    vs = proj_project P a :: map seg_pb l /\ Forall (seg_passes P thr) l /\ chain_from a l b /\
    hd d vs = proj_project P a /\ (2 <= length vs)%nat /\
    (proj_wrap P = mk_r2_Point 0 0 -> last vs d = proj_project P b).
Proof. exact append_projected_shape. Qed.
Print Assumptions append_projected_chain.

Theorem tessellation_result_independent_of_fuel : forall P thr f f' pa a pbIn b l, (f <= f')%nat ->
  (projected_leaves f P thr pa a pbIn b = Some l -> projected_leaves f' P thr pa a pbIn b = Some l) /\
  (unprojected_leaves f P thr pa a pbIn b = Some l -> unprojected_leaves f' P thr pa a pbIn b = Some l).
Proof.
  intros P thr f f' pa a pbIn b l H. split;
  [exact (projected_leaves_fuel_mono P thr f f' pa a pbIn b l H) | exact (unprojected_leaves_fuel_mono P thr f f' pa a pbIn b l H)].
Qed.
Print Assumptions tessellation_result_independent_of_fuel.

Theorem tessellation_within_tolerance_under_H : forall (dev : projection -> seg -> R) P thr tol,
  H_TESS dev P thr tol -> H_TESS_TERM P thr tess_fuel ->
  (forall a b, exists vs l, AppendProjected tess_fuel P thr a b [] = Some vs /\
      vs = proj_project P a :: map seg_pb l /\ chain_from a l b /\ Forall (fun s => (dev P s <= tol)%R) l) /\
  (forall pa pb, exists vs l, AppendUnprojected tess_fuel P thr pa pb [] = Some vs /\
      vs = proj_unproject P pa :: map seg_b l /\ chain_from (proj_unproject P pa) l (proj_unproject P pb) /\
      Forall (fun s => (dev P s <= tol)%R) l).
Proof. intros dev P thr tol. exact (tessellation_within_tolerance dev P thr tol tess_fuel). Qed.
Print Assumptions tessellation_within_tolerance_under_H.

Theorem tessellator_unscaled_threshold_refuted : exists tol,
  PrimFloat.ltb (scaledTolerance tol) (scaledTolerance_old tol) = true.
Proof. exact tess_unscaled_old_refuted. Qed.
Print Assumptions tessellator_unscaled_threshold_refuted.

(** Mercator at the poles ------------------------------------------------------ *)
Theorem mercator_unproject_exp_overflow_is_north_pole : forall fexp p pt,
  fexp (merc_exp_arg p pt) = infinity ->
  s2_LatLng_Lat (merc_ToLatLng fexp p pt) = f_pi_2 /\
  r3_Vector_Z (s2_Point_Vector (s2_PointFromLatLng (merc_ToLatLng fexp p pt))) = 1%float.
Proof. exact merc_to_latlng_overflow. Qed.
Print Assumptions mercator_unproject_exp_overflow_is_north_pole.

Theorem mercator_unproject_exp_underflow_is_south_pole : forall fexp p pt,
  fexp (merc_exp_arg p pt) = 0%float ->
  s2_LatLng_Lat (merc_ToLatLng fexp p pt) = PrimFloat.opp f_pi_2 /\
  r3_Vector_Z (s2_Point_Vector (s2_PointFromLatLng (merc_ToLatLng fexp p pt))) = (-1)%float.
Proof. exact merc_to_latlng_underflow. Qed.
Print Assumptions mercator_unproject_exp_underflow_is_south_pole.

Theorem mercator_without_overflow_branch_gives_nan_refuted :
  go_isnan (math_Asin (PrimFloat.div (PrimFloat.sub infinity 1) (PrimFloat.add infinity 1))) = true.
Proof. exact merc_without_overflow_branch_refuted. Qed.
Print Assumptions mercator_without_overflow_branch_gives_nan_refuted.
