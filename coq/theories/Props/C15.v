(** C15 — Decoding arbitrary bytes is total: an error or a usable value, never a crash.
    Only statements; every proof is [exact] of a lemma in Proofs/C15_Total.v.

    [decode_T] (Model/Codec.v) are the Decode methods of s2 as functions from byte strings
    to [Ok v | Err | Panic]; Go's partial operations ([make] with a negative or absurd
    length, indexing out of range) yield [Panic].  All decoders are Coq functions, i.e.
    they terminate on every input by construction (structural recursion on the input or
    on a count that was checked against its limit).  The limits are the constants
    translated from the Go source (Gen/Codec.v). *)
From Coq Require Import ZArith List.
From Geo Require Import Base.GoPrim Base.Bytes Gen.CellID Gen.Codec Model.Codec Proofs.C15_Total.
Import ListNotations.
Local Open Scope Z_scope.

(** never a panic, for every byte string and every Decode *)
Theorem decode_total_point : forall bs, bytes_ok bs -> decode_point bs <> Panic.
Proof. exact (run_total _ decode_point_good). Qed.
Print Assumptions decode_total_point.

Theorem decode_total_cap : forall bs, bytes_ok bs -> decode_cap bs <> Panic.
Proof. exact (run_total _ decode_cap_good). Qed.
Print Assumptions decode_total_cap.

Theorem decode_total_rect : forall bs, bytes_ok bs -> decode_rect bs <> Panic.
Proof. exact (run_total _ decode_rect_good). Qed.
Print Assumptions decode_total_rect.

Theorem decode_total_cellid : forall bs, bytes_ok bs -> decode_cellid bs <> Panic.
Proof. exact (run_total _ decode_cellid_good). Qed.
Print Assumptions decode_total_cellid.

Theorem decode_total_cell : forall bs, bytes_ok bs -> decode_cell bs <> Panic.
Proof. exact (run_total _ decode_cell_good). Qed.
Print Assumptions decode_total_cell.

Theorem decode_total_cellunion : forall bs, bytes_ok bs -> decode_cellunion bs <> Panic.
Proof. exact (run_total _ decode_cellunion_good). Qed.
Print Assumptions decode_total_cellunion.

Theorem decode_total_polyline : forall bs, bytes_ok bs -> decode_polyline bs <> Panic.
Proof. exact (run_total _ decode_polyline_good). Qed.
Print Assumptions decode_total_polyline.

Theorem decode_total_loop : forall bs, bytes_ok bs -> decode_loop bs <> Panic.
Proof. exact (run_total _ decode_loop_good). Qed.
Print Assumptions decode_total_loop.

(** both polygon formats, including compressed loops, face runs and the off-centre list *)
Theorem decode_total_polygon : forall bs, bytes_ok bs -> decode_polygon bs <> Panic.
Proof. exact (run_total _ decode_polygon_good). Qed.
Print Assumptions decode_total_polygon.

(** every allocation whose size comes from the input is requested with a count between 0
    and the documented limit of its kind (maxEncodedVertices, maxEncodedLoops, maxCells);
    a request is logged by [go_make] at the point of the [make], so the check precedes it *)
Theorem alloc_bounded_cellunion : forall bs, bytes_ok bs ->
  Forall (fun kn => 0 <= snd kn <= alloc_limit (fst kn)) (run_log decode_cellunion_body bs).
Proof. exact (run_log_bounded _ decode_cellunion_good). Qed.
Print Assumptions alloc_bounded_cellunion.

Theorem alloc_bounded_polyline : forall bs, bytes_ok bs ->
  Forall (fun kn => 0 <= snd kn <= alloc_limit (fst kn)) (run_log decode_polyline_body bs).
Proof. exact (run_log_bounded _ decode_polyline_good). Qed.
Print Assumptions alloc_bounded_polyline.

Theorem alloc_bounded_loop : forall bs, bytes_ok bs ->
  Forall (fun kn => 0 <= snd kn <= alloc_limit (fst kn)) (run_log decode_loop_body bs).
Proof. exact (run_log_bounded _ decode_loop_good). Qed.
Print Assumptions alloc_bounded_loop.

Theorem alloc_bounded_polygon : forall bs, bytes_ok bs ->
  Forall (fun kn => 0 <= snd kn <= alloc_limit (fst kn)) (run_log decode_polygon_body bs).
Proof. exact (run_log_bounded _ decode_polygon_good). Qed.
Print Assumptions alloc_bounded_polygon.

(** the limits themselves are below what [make] accepts *)
Theorem limits_allocatable : forall k, 0 <= alloc_limit k <= max_make.
Proof. intro k. split; [exact (limits_nonneg k) | exact (limits_below_make k)]. Qed.
Print Assumptions limits_allocatable.

(** the only data-dependent loop (face runs, [for nparsed < numVertices]) is finished after at
    most [numVertices] iterations: on exit the reader has failed or all vertices are covered *)
Theorem face_run_loop_terminates : forall n d, 0 <= n <= s2_maxEncodedVertices -> good d ->
  faces_stop n (rep (faces_stop n) faces_body n ([], 0, d)) = true.
Proof. exact decode_faces_complete. Qed.
Print Assumptions face_run_loop_terminates.

(** a returned loop can be queried: brute-force containment (the path every small or freshly
    decoded loop takes) never indexes an empty vertex slice, and a loop without vertices
    answers with its origin flag *)
Theorem decode_usable_contains : forall crossing vs origin_inside p,
  brute_force_contains crossing vs origin_inside p <> Panic.
Proof. exact brute_force_contains_total. Qed.
Print Assumptions decode_usable_contains.

Theorem decode_usable_zero_vertices : forall crossing origin_inside p,
  brute_force_contains crossing [] origin_inside p = Ok origin_inside.
Proof. exact brute_force_contains_empty. Qed.
Print Assumptions decode_usable_zero_vertices.

(** edges of a decoded loop: Vertex(i) is defined whenever the loop has a vertex *)
Theorem decode_usable_vertex : forall vs i, vs <> [] -> loop_vertex vs i <> Panic.
Proof. exact loop_vertex_ok. Qed.
Print Assumptions decode_usable_vertex.

(** the reader itself: reads never panic and never touch the allocation log *)
Theorem reads_never_panic : forall n d,
  (d_st (snd (read_le n d)) = SPanic -> d_st d = SPanic) /\
  (d_st (snd (read_uvarint d)) = SPanic -> d_st d = SPanic).
Proof. intros n d. split; [exact (read_le_st n d) | exact (read_uvarint_st d)]. Qed.
Print Assumptions reads_never_panic.

(** a decoded Cell has a valid id (8beed88), hence a face, hence its row of the axis table *)
Theorem decode_usable_cell : forall bs id, bytes_ok bs -> decode_cell bs = Ok id -> cell_rect_bound_axes id <> Panic.
Proof. exact C15_Total.decode_usable_cell. Qed.
Print Assumptions decode_usable_cell.

(** before 8beed88: any 8 bytes decoded, and the bound of an id with face bits 6 or 7 panicked *)
Theorem decode_usable_cell_old_refuted :
  exists bs id, bytes_ok bs /\ run decode_cellid_body bs = Ok id /\ cell_rect_bound_axes id = Panic
                /\ decode_cell bs = Err.
Proof. exact C15_Total.decode_usable_cell_old_refuted. Qed.
Print Assumptions decode_usable_cell_old_refuted.

Theorem decode_usable_cell_valid_ids : forall id, 0 <= id < 6 * 2 ^ 61 -> cell_rect_bound_axes id <> Panic.
Proof. exact cell_rect_bound_axes_valid. Qed.
Print Assumptions decode_usable_cell_valid_ids.

(** every id of a decoded CellUnion is valid (847439f) *)
Theorem decode_usable_cellunion : forall bs ids, decode_cellunion bs = Ok ids ->
  Forall (fun id => s2_CellID_IsValid id = true) ids.
Proof. exact decode_cellunion_valid. Qed.
Print Assumptions decode_usable_cellunion.

(** a decoded polygon, the full one included (54a5f02), has the index its point and cell queries start from *)
Theorem decode_usable_polygon : forall ls, polygon_query_entry ls = Ok tt.
Proof. exact polygon_query_entry_total. Qed.
Print Assumptions decode_usable_polygon.

(** before 54a5f02 the full polygon (golden encoding 040001010B000100) had no index *)
Theorem decode_usable_full_polygon_old_refuted :
  exists bs ls, bytes_ok bs /\ decode_polygon bs = Ok (DCompressed ls) /\ polygon_query_entry_54a5f02_old ls = Panic
                /\ polygon_query_entry ls = Ok tt.
Proof. exact C15_Total.decode_usable_full_polygon_old_refuted. Qed.
Print Assumptions decode_usable_full_polygon_old_refuted.

(** vertices of a decoded polyline or loop are finite (4fc5f5f): no NaN reaches the exact predicates *)
Theorem decode_usable_polyline_finite : forall bs ps, decode_polyline bs = Ok ps -> Forall finite_point ps.
Proof. exact decode_polyline_finite. Qed.
Print Assumptions decode_usable_polyline_finite.
Theorem decode_usable_loop_finite : forall bs l, decode_loop bs = Ok l -> Forall finite_point (l_vertices l).
Proof. exact decode_loop_finite. Qed.
Print Assumptions decode_usable_loop_finite.

(** a decoded Rect is a valid rectangle (41c9631): latitudes within [-pi/2, pi/2], a valid
    longitude interval, empty in both coordinates or in none — no NaN or infinity reaches a query *)
Theorem decode_usable_rect : forall bs r, decode_rect bs = Ok r -> rect_valid r = true.
Proof. exact decode_rect_valid. Qed.
Print Assumptions decode_usable_rect.

(** before 41c9631: the bytes 01 000000000000f0ff 8c826b5e4e34b966 000000000000f03f e862abd09b80f13f
    (lat.lo = -Inf) decoded to an invalid rectangle *)
Theorem decode_usable_rect_old_refuted :
  exists r, run decode_rect_body_41c9631_old rect_old_witness = Ok r /\ rect_valid r = false
            /\ decode_rect rect_old_witness = Err.
Proof. exact C15_Total.decode_usable_rect_old_refuted. Qed.
Print Assumptions decode_usable_rect_old_refuted.

(** the vertex count a decoded polygon carries is the sum of its loop lengths; the encoder's
    [numVertices == 0] shortcut, which slices an empty vertex table once per loop, is therefore
    taken only for polygons whose loops are all vertex-less (re-encoding cannot index out of range) *)
Theorem decoded_num_vertices_is_sum : forall p, num_vertices p = len (concat (map l_vertices (p_loops p))).
Proof. exact num_vertices_sum. Qed.
Print Assumptions decoded_num_vertices_is_sum.
Theorem encode_shortcut_only_without_vertices : forall p, num_vertices p = 0 ->
  Forall (fun l => l_vertices l = []) (p_loops p).
Proof. exact num_vertices_zero. Qed.
Print Assumptions encode_shortcut_only_without_vertices.
