(** C06 — Spatial-index queries return exactly what brute force over all edges returns; every
    shape exposes one edge set.
    Only statements; every proof is [exact] of a lemma in Proofs/. The shape types and their
    accessors are Model/Shapes.v (hand transcription of the pointer-receiver methods of
    golang/geo, tied to the Go code by the correspondence on every run); [s2_minInt]/[s2_maxInt]
    are translated from /repo on every run. *)
From Coq Require Import ZArith List Bool.
From Geo Require Import Base.GoPrim Gen.CellID Gen.CellIDCov Model.Shapes Model.Index
  Proofs.C06_Slices Proofs.C06_Prefix Proofs.C06_Shapes Proofs.C06_Polygons Proofs.C06_Index Proofs.C06_IndexOk Proofs.C06_CellRel Proofs.C06_Descent.
Import ListNotations.
Local Open Scope Z_scope.

(** * One edge set per shape: the contract of s2.Shape ([contract], Model/Shapes.v) holds for
      every value of each of the seven shape types, of every size. *)
Theorem shape_contract_PointVector : forall p : list vertex, contract (pv_ops p).
Proof. exact pv_contract. Qed.
Print Assumptions shape_contract_PointVector.

Theorem shape_contract_LaxPolyline : forall v : list vertex, contract (lax_polyline_ops v).
Proof. exact lax_polyline_contract. Qed.
Print Assumptions shape_contract_LaxPolyline.

Theorem shape_contract_Polyline : forall v : list vertex, contract (polyline_ops v).
Proof. exact polyline_contract. Qed.
Print Assumptions shape_contract_Polyline.

Theorem shape_contract_LaxLoop : forall v : list vertex, contract (lax_loop_ops (lax_loop_from_points v)).
Proof. exact lax_loop_from_points_contract. Qed.
Print Assumptions shape_contract_LaxLoop.

(** every Loop value: 0, 1 (empty/full), 2 or more vertices, either originInside, any depth *)
Theorem shape_contract_Loop : forall l : loop, contract (loop_ops l).
Proof. exact loop_contract. Qed.
Print Assumptions shape_contract_Loop.

(** every Polygon that passes Polygon.Validate's loop checks (no empty loop; the full loop only
    alone), for either representation (linear search or cumulativeEdges, whatever the threshold) *)
Theorem shape_contract_Polygon : forall (maxLinearSearchLoops : Z) (loops : list loop),
  polygon_wf loops -> contract (polygon_ops (polygon_init maxLinearSearchLoops loops)).
Proof. exact polygon_contract. Qed.
Print Assumptions shape_contract_Polygon.

(** every LaxPolygon built by LaxPolygonFromPoints: any number of loops, empty loops included *)
Theorem shape_contract_LaxPolygon : forall loops : list (list vertex),
  contract (lax_polygon_ops (lax_polygon_from_points loops)).
Proof. exact lax_polygon_contract. Qed.
Print Assumptions shape_contract_LaxPolygon.

(** The three variants repaired in /repo (a88af59, 01aa6cd, 6634f3a) violate the contract. *)
Theorem shape_contract_LaxLoop_old_refuted :
  exists v, ~ contract (lax_loop_ops_old (lax_loop_from_points v)).
Proof. exact lax_loop_contract_old_refuted. Qed.
Print Assumptions shape_contract_LaxLoop_old_refuted.

Theorem shape_contract_PointVector_old_refuted : exists p, ~ contract (pv_ops_old p).
Proof. exact pv_contract_old_refuted. Qed.
Print Assumptions shape_contract_PointVector_old_refuted.

Theorem shape_contract_LaxPolygon_old_refuted :
  exists loops, ~ contract (lax_polygon_ops_old (lax_polygon_from_points loops)).
Proof. exact lax_polygon_contract_old_refuted. Qed.
Print Assumptions shape_contract_LaxPolygon_old_refuted.

(** The validity guard of the Polygon theorem cannot be dropped. *)
Theorem shape_contract_Polygon_needs_validity :
  exists loops, ~ polygon_wf loops /\ ~ contract (polygon_ops (polygon_init 12 loops)).
Proof. exact polygon_contract_needs_validity. Qed.
Print Assumptions shape_contract_Polygon_needs_validity.

(** * Cell location on the sorted, pairwise disjoint cell list of an index ([cells_ok]): pure id
      arithmetic, no hypothesis. *)
Theorem locate_spec_point : forall cells target k, cells_ok cells ->
  (locate_point cells target = Some k <-> 0 <= k < lenZ cells /\ in_cell (nthZ cells k 0) target).
Proof. exact locate_point_iff. Qed.
Print Assumptions locate_spec_point.

(** LocateCellID returns the documented relation: Indexed k - cell k contains the target;
    Subdivided k - cell k is the first index cell inside the target (and no cell contains it);
    Disjoint - no index cell meets the target. *)
Theorem locate_spec_cellid : forall cells T, cells_ok cells -> 0 < T ->
  match locate_cellid cells T with
  | Indexed k => 0 <= k < lenZ cells /\
      range_min (nthZ cells k 0) <= range_min T /\ range_max T <= range_max (nthZ cells k 0)
  | Subdivided k => 0 <= k < lenZ cells /\
      range_min T <= range_min (nthZ cells k 0) /\ range_max (nthZ cells k 0) <= range_max T /\
      nthZ cells k 0 <> T /\
      (forall k', 0 <= k' < k -> range_max (nthZ cells k' 0) < range_min T)
  | Disjoint => forall k, 0 <= k < lenZ cells ->
      range_max (nthZ cells k 0) < range_min T \/ range_max T < range_min (nthZ cells k 0)
  end.
Proof. exact locate_cellid_spec. Qed.
Print Assumptions locate_spec_cellid.

(** * ContainsPointQuery.ShapeContains = brute force over every edge, for all three vertex models,
      for every index VALUE satisfying [index_ok] (validated by the harness on each index the
      implementation builds; the builder itself is not modelled), under the named hypotheses
      H-JORDAN and H-CLIP (DESIGN.md section 4) in the forms defined in Proofs/C06_Index.v.
      The geometric predicates are arbitrary functions (parameters). *)
Theorem query_eq_brute :
  forall (point : Type) (pt_eqb : point -> point -> bool)
         (crossing_sign : point -> point -> point -> point -> crossing)
         (vertex_crossing : point -> point -> point -> point -> bool)
         (cell_center : Z -> point) (leaf_of_point : point -> Z)
         (shapes : list (qshape point)) (ref_of : Z -> point) (ref_inside_of : Z -> bool) (idx : index),
  index_ok point crossing_sign vertex_crossing cell_center shapes ref_of ref_inside_of idx ->
  H_JORDAN point crossing_sign vertex_crossing shapes ref_of ->
  H_CLIP point crossing_sign vertex_crossing cell_center leaf_of_point shapes idx ->
  H_COVER point crossing_sign vertex_crossing leaf_of_point shapes ref_of ref_inside_of idx ->
  H_CLIP_VERTEX point pt_eqb leaf_of_point shapes idx ->
  H_COVER_VERTEX point pt_eqb leaf_of_point shapes idx ->
  H_SHARED_VERTEX point pt_eqb crossing_sign ->
  forall model sid p, 0 <= sid < lenZ shapes ->
  query_shape_contains point pt_eqb crossing_sign vertex_crossing cell_center leaf_of_point model shapes idx sid p =
  brute_contains_model point pt_eqb crossing_sign vertex_crossing model (nth_shape point shapes sid) (ref_of sid) (ref_inside_of sid) p.
Proof. exact Proofs.C06_Index.query_eq_brute. Qed.
Print Assumptions query_eq_brute.

(** the semi-open model needs H-JORDAN, H-CLIP and coverage only *)
Theorem query_eq_brute_semiopen :
  forall (point : Type) (pt_eqb : point -> point -> bool)
         (crossing_sign : point -> point -> point -> point -> crossing)
         (vertex_crossing : point -> point -> point -> point -> bool)
         (cell_center : Z -> point) (leaf_of_point : point -> Z)
         (shapes : list (qshape point)) (ref_of : Z -> point) (ref_inside_of : Z -> bool) (idx : index),
  index_ok point crossing_sign vertex_crossing cell_center shapes ref_of ref_inside_of idx ->
  H_JORDAN point crossing_sign vertex_crossing shapes ref_of ->
  H_CLIP point crossing_sign vertex_crossing cell_center leaf_of_point shapes idx ->
  H_COVER point crossing_sign vertex_crossing leaf_of_point shapes ref_of ref_inside_of idx ->
  forall sid p, 0 <= sid < lenZ shapes ->
  query_shape_contains point pt_eqb crossing_sign vertex_crossing cell_center leaf_of_point VertexModelSemiOpen shapes idx sid p =
  brute_contains point crossing_sign vertex_crossing (nth_shape point shapes sid) (ref_of sid) (ref_inside_of sid) p.
Proof. exact Proofs.C06_Index.query_eq_brute_semiopen. Qed.
Print Assumptions query_eq_brute_semiopen.

(** open and closed differ from semi-open exactly on the vertices of the listed edges: no premise *)
Theorem vertex_models_agree_off_vertices :
  forall (point : Type) (pt_eqb : point -> point -> bool)
         (crossing_sign : point -> point -> point -> point -> crossing)
         (vertex_crossing : point -> point -> point -> point -> bool)
         model center p (es : list (pedge point)) inside,
  existsb (has_endpoint point pt_eqb p) es = false ->
  shape_contains_loop point pt_eqb crossing_sign vertex_crossing model center p es inside =
  shape_contains_loop point pt_eqb crossing_sign vertex_crossing VertexModelSemiOpen center p es inside.
Proof. exact sc_loop_no_vertex. Qed.
Print Assumptions vertex_models_agree_off_vertices.

(** * CrossingEdgeQuery.Crossings = the brute-force filter over every edge, given candidates that
      are increasing, in range and a superset of the crossing edges (index completeness + H-CLIP
      for the query edge's descent); the gathered candidates are always increasing and are exactly
      the union of the visited cells' lists. *)
Theorem crossings_eq_brute :
  forall (point : Type) (crossing_sign : point -> point -> point -> point -> crossing)
         all (s : qshape point) a b cands,
  increasing cands ->
  (forall e, In e cands -> 0 <= e < lenZ (q_edges s)) ->
  (forall e, 0 <= e < lenZ (q_edges s) -> crosses point crossing_sign all s a b e = true -> In e cands) ->
  crossings point crossing_sign all s a b cands = brute_crossings point crossing_sign all s a b.
Proof. exact Proofs.C06_Index.crossings_eq_brute. Qed.
Print Assumptions crossings_eq_brute.

Theorem crossing_candidates_sorted_union : forall (idx : index) visited sid,
  (forall pos cl, In pos visited -> find_by_shape (snd (nth_cell idx pos)) sid = Some cl -> increasing (cl_edges cl)) ->
  increasing (crossing_candidates idx visited sid) /\
  forall e, In e (crossing_candidates idx visited sid) <->
            exists pos cl, In pos visited /\ find_by_shape (snd (nth_cell idx pos)) sid = Some cl /\ In e (cl_edges cl).
Proof. exact crossing_candidates_spec. Qed.
Print Assumptions crossing_candidates_sorted_union.

(** H-CLIP in the parity form used above follows from its per-edge form together with the
    structural part of [index_ok]: if no edge that a cell does not list is crossed by
    centre -> p, the parity over all edges is the parity over the listed edges. *)
Theorem clip_parity_from_edges :
  forall (point : Type) (crossing_sign : point -> point -> point -> point -> crossing)
         (vertex_crossing : point -> point -> point -> point -> bool)
         (s : qshape point) (a b : point) (ids : list Z),
  increasing ids ->
  (forall e, In e ids -> 0 <= e < lenZ (q_edges s)) ->
  (forall k ex, ~ In (Z.of_nat k) ids -> nth_error (q_edges s) k = Some ex ->
                edge_or_vertex_crossing point crossing_sign vertex_crossing a b (fst ex) (snd ex) = false) ->
  parity_crossings point crossing_sign vertex_crossing a b (q_edges s) =
  parity_crossings point crossing_sign vertex_crossing a b (edges_of point s ids).
Proof. exact Proofs.C06_Index.clip_parity_from_edges. Qed.
Print Assumptions clip_parity_from_edges.

(** * Per-instance validation: the structural part of [index_ok] is DECIDED by [index_okb] on every
      (small) index the observer dumps; a validated index satisfies the premise [cells_ok] of the
      location theorems and the edge-list clause of [index_ok]. Cell validity and ranges are the
      translated s2.CellID.IsValid / RangeMin / RangeMax. *)
Theorem index_okb_reflects : forall numEdges idx,
  index_okb numEdges idx = true -> index_ok_struct numEdges idx.
Proof. exact index_okb_sound. Qed.
Print Assumptions index_okb_reflects.

Theorem validated_index_cells_ok : forall numEdges idx,
  index_ok_struct numEdges idx -> cells_ok (cell_ids idx).
Proof. exact index_ok_struct_cells_ok. Qed.
Print Assumptions validated_index_cells_ok.

(** * Loop/Polygon.ContainsCell and IntersectsCell through the index (Model/Index.v
      [contains_cell]/[intersects_cell]: LocateCellID relation, boundaryApproxIntersects,
      iteratorContainsPoint at the cell centre), one-sided safety against brute force:
      ContainsCell = true  ==> no edge meets the cell and the centre is inside;
      IntersectsCell = false ==> no edge meets the cell and the centre is outside.
      [meets] is the exact "edge meets cell" relation, [approx_meets] the padded clipping test. *)
Theorem contains_cell_one_sided :
  forall (point : Type) (crossing_sign : point -> point -> point -> point -> crossing)
         (vertex_crossing : point -> point -> point -> point -> bool) (cell_center : Z -> point)
         (leaf_of_point : point -> Z) (approx_meets : point * point -> Z -> bool)
         (s : qshape point) (ref : point) (ref_inside : bool) (meets : point * point -> Z -> Prop) (idx : index),
  q_dim s = 2 ->
  index_ok point crossing_sign vertex_crossing cell_center [s] (fun _ => ref) (fun _ => ref_inside) idx ->
  H_JORDAN point crossing_sign vertex_crossing [s] (fun _ => ref) ->
  H_CLIP point crossing_sign vertex_crossing cell_center leaf_of_point [s] idx ->
  H_CENTER_LEAF cell_center leaf_of_point -> H_CLIP_APPROX approx_meets s meets -> H_COMPLETE_NESTED s meets idx ->
  forall T, 0 < T ->
  contains_cell point crossing_sign vertex_crossing cell_center approx_meets s idx T = Some true ->
  (forall e, In e (q_edges s) -> ~ meets e T) /\
  brute_contains point crossing_sign vertex_crossing s ref ref_inside (cell_center T) = true.
Proof. exact Proofs.C06_CellRel.contains_cell_one_sided. Qed.
Print Assumptions contains_cell_one_sided.

Theorem intersects_cell_one_sided :
  forall (point : Type) (crossing_sign : point -> point -> point -> point -> crossing)
         (vertex_crossing : point -> point -> point -> point -> bool) (cell_center : Z -> point)
         (leaf_of_point : point -> Z) (approx_meets : point * point -> Z -> bool)
         (s : qshape point) (ref : point) (ref_inside : bool) (meets : point * point -> Z -> Prop) (idx : index),
  q_dim s = 2 ->
  index_ok point crossing_sign vertex_crossing cell_center [s] (fun _ => ref) (fun _ => ref_inside) idx ->
  H_JORDAN point crossing_sign vertex_crossing [s] (fun _ => ref) ->
  H_CLIP point crossing_sign vertex_crossing cell_center leaf_of_point [s] idx ->
  H_COVER point crossing_sign vertex_crossing leaf_of_point [s] (fun _ => ref) (fun _ => ref_inside) idx ->
  H_CENTER_LEAF cell_center leaf_of_point -> H_CLIP_APPROX approx_meets s meets -> H_COMPLETE_NESTED s meets idx ->
  H_COVER_CELL s meets idx ->
  forall T, 0 < T ->
  intersects_cell point crossing_sign vertex_crossing cell_center approx_meets s idx T = Some false ->
  (forall e, In e (q_edges s) -> ~ meets e T) /\
  brute_contains point crossing_sign vertex_crossing s ref ref_inside (cell_center T) = false.
Proof. exact Proofs.C06_CellRel.intersects_cell_one_sided. Qed.
Print Assumptions intersects_cell_one_sided.

(** neither dereferences a nil entry on a structurally valid single-shape index *)
Theorem cell_relations_total :
  forall (point : Type) crossing_sign vertex_crossing cell_center approx_meets
         (s : qshape point) (n : Z) (idx : index) (T : Z),
  index_ok_struct [n] idx -> 0 < T ->
  contains_cell point crossing_sign vertex_crossing cell_center approx_meets s idx T <> None /\
  intersects_cell point crossing_sign vertex_crossing cell_center approx_meets s idx T <> None.
Proof. exact Proofs.C06_CellRel.cell_relations_total. Qed.
Print Assumptions cell_relations_total.

(** * CrossingEdgeQuery.getCellsForEdge (Model/Index.v [cells_for_edge]: LocateCellID of the edge
      root, computeCellsIntersected, clipVAxis, with the float clipping abstract): the visited cells
      contain every index cell whose unpadded square the query edge meets, for any clipping that is
      sound in the sense of [descent_sound] (H-CLIP for the query edge: a skipped child is not met,
      bounds handed down stay correct). Tree facts from C11 (children tile the parent, laminarity). *)
Theorem visited_cells_complete :
  forall (B : Type) (left_only right_only lower_only upper_only : Z -> B -> bool)
         (split_u split_v : Z -> B -> B * B) (child_ij : Z -> Z -> Z -> Z) (cells : list Z)
         (meets : Z -> Prop) (I : Z -> B -> Prop) (Iu : Z -> Z -> B -> Prop),
  descent_sound B left_only right_only lower_only upper_only split_u split_v child_ij meets I Iu ->
  (forall c k, C11_Bits.valid c -> In k (s2_CellID_Children c) ->
     exists i j, (i = 0 \/ i = 1) /\ (j = 0 \/ j = 1) /\ k = child_ij c i j) ->
  (forall x d, C11_Bits.valid x -> C11_Bits.valid d -> C11_Cells.nested_in x d -> meets x -> meets d) ->
  (forall k, 0 <= k < lenZ cells -> C11_Bits.valid (nthZ cells k 0)) ->
  cells_ok cells ->
  forall (segments : list (Z * B)) (k : Z),
  0 <= k < lenZ cells -> meets (nthZ cells k 0) ->
  (exists root b sr, In (root, b) segments /\ C11_Bits.cellform root sr /\ I root b /\
     (C11_Cells.nested_in (nthZ cells k 0) root \/ C11_Cells.nested_in root (nthZ cells k 0))) ->
  In k (cells_for_edge B left_only right_only lower_only upper_only split_u split_v child_ij cells segments).
Proof. exact Proofs.C06_Descent.edge_complete. Qed.
Print Assumptions visited_cells_complete.

(** Both directions when the target is exactly an index cell that lists no edge: ContainsCell is
    exactly "the centre is inside" by brute force, IntersectsCell is true. Only [index_ok]. *)
Theorem cell_relations_edge_free :
  forall (point : Type) (crossing_sign : point -> point -> point -> point -> crossing)
         (vertex_crossing : point -> point -> point -> point -> bool) (cell_center : Z -> point)
         (approx_meets : point * point -> Z -> bool)
         (s : qshape point) (ref : point) (ref_inside : bool) (idx : index) (pos : Z) (cl : clipped),
  index_ok point crossing_sign vertex_crossing cell_center [s] (fun _ => ref) (fun _ => ref_inside) idx ->
  0 <= pos < lenZ idx -> entry idx pos 0 = Some cl -> cl_edges cl = [] ->
  contains_cell point crossing_sign vertex_crossing cell_center approx_meets s idx (cell_id idx pos) =
    Some (brute_contains point crossing_sign vertex_crossing s ref ref_inside (cell_center (cell_id idx pos))) /\
  intersects_cell point crossing_sign vertex_crossing cell_center approx_meets s idx (cell_id idx pos) = Some true.
Proof. exact Proofs.C06_CellRel.cell_relations_edge_free. Qed.
Print Assumptions cell_relations_edge_free.
