(** C06 — Spatial-index queries return exactly what brute force over all edges returns; every
    shape exposes one edge set.
    Only statements; every proof is [exact] of a lemma in Proofs/. The shape types and their
    accessors are Model/Shapes.v (hand transcription of the pointer-receiver methods of
    golang/geo, tied to the Go code by the correspondence on every run); [s2_minInt]/[s2_maxInt]
    are translated from /repo on every run. *)
From Coq Require Import ZArith List Bool.
From Geo Require Import Base.GoPrim Gen.C06Util Model.Shapes
  Proofs.C06_Slices Proofs.C06_Prefix Proofs.C06_Shapes Proofs.C06_Polygons.
Import ListNotations.
Local Open Scope Z_scope.

(** * One edge set per shape: the contract of s2.Shape ([contract], Model/Shapes.v) holds for
      every value of each of the seven shape types, of every size. *)
Theorem shape_contract_PointVector : forall p : list vertex, contract (pv_ops p).
Proof. exact pv_contract. Qed.
Print Assumptions shape_contract_PointVector.

Theorem shape_contract_LaxPolyline : forall v : list vertex, contract (lax_polyline_ops v).
Proof. exact lax_polyline_contract. Qed.
Print Assumptions shape_contract_LaxPolyline.

Theorem shape_contract_Polyline : forall v : list vertex, contract (polyline_ops v).
Proof. exact polyline_contract. Qed.
Print Assumptions shape_contract_Polyline.

Theorem shape_contract_LaxLoop : forall v : list vertex, contract (lax_loop_ops (lax_loop_from_points v)).
Proof. exact lax_loop_from_points_contract. Qed.
Print Assumptions shape_contract_LaxLoop.

(** every Loop value: 0, 1 (empty/full), 2 or more vertices, either originInside, any depth *)
Theorem shape_contract_Loop : forall l : loop, contract (loop_ops l).
Proof. exact loop_contract. Qed.
Print Assumptions shape_contract_Loop.

(** every Polygon that passes Polygon.Validate's loop checks (no empty loop; the full loop only
    alone), for either representation (linear search or cumulativeEdges, whatever the threshold) *)
Theorem shape_contract_Polygon : forall (maxLinearSearchLoops : Z) (loops : list loop),
  polygon_wf loops -> contract (polygon_ops (polygon_init maxLinearSearchLoops loops)).
Proof. exact polygon_contract. Qed.
Print Assumptions shape_contract_Polygon.

(** every LaxPolygon built by LaxPolygonFromPoints: any number of loops, empty loops included *)
Theorem shape_contract_LaxPolygon : forall loops : list (list vertex),
  contract (lax_polygon_ops (lax_polygon_from_points loops)).
Proof. exact lax_polygon_contract. Qed.
Print Assumptions shape_contract_LaxPolygon.

(** The three variants repaired in /repo (a88af59, 01aa6cd, 6634f3a) violate the contract. *)
Theorem shape_contract_LaxLoop_old_refuted :
  exists v, ~ contract (lax_loop_ops_old (lax_loop_from_points v)).
Proof. exact lax_loop_contract_old_refuted. Qed.
Print Assumptions shape_contract_LaxLoop_old_refuted.

Theorem shape_contract_PointVector_old_refuted : exists p, ~ contract (pv_ops_old p).
Proof. exact pv_contract_old_refuted. Qed.
Print Assumptions shape_contract_PointVector_old_refuted.

Theorem shape_contract_LaxPolygon_old_refuted :
  exists loops, ~ contract (lax_polygon_ops_old (lax_polygon_from_points loops)).
Proof. exact lax_polygon_contract_old_refuted. Qed.
Print Assumptions shape_contract_LaxPolygon_old_refuted.

(** The validity guard of the Polygon theorem cannot be dropped. *)
Theorem shape_contract_Polygon_needs_validity :
  exists loops, ~ polygon_wf loops /\ ~ contract (polygon_ops (polygon_init 12 loops)).
Proof. exact polygon_contract_needs_validity. Qed.
Print Assumptions shape_contract_Polygon_needs_validity.
