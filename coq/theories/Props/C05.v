(** C05 — placeholder while the proofs are being built *)
From Geo Require Import Model.Coverer.
