(** C05 — Coverings cover, interior coverings are contained, level limits are honoured.
    Only statements; every proof is [exact] of a lemma in Proofs/C05_*.v.

    The subject is the executable model of s2/regioncoverer.go in Model/Coverer.v (tied to the Go
    code by the correspondence run and, for the cell-id arithmetic, by the translator: the
    [s2_CellID_*] functions are regenerated from /repo on every run).  The model is parametric in
    the region: [intersects]/[contains] are the region's IntersectsCell/ContainsCell as functions
    of the cell id, [bound] its CellUnionBound.

    Region semantics: [pts : Z -> Prop] on leaf cell ids;
    [leaf_in x c := RangeMin c <= x <= RangeMax c]; [covered l x := exists c in l, leaf_in x c].
    [SoundI], [SoundC], [SoundB] are the one-sided safety of the region's predicates (second
    sentence of the property).  For s2.Cap / Rect / Loop / Polygon / Polyline they are the carried
    hypotheses H-CAPARITH / H-LATBOUND / H-CLIP / H-JORDAN (float geometry, attacked by the
    observer on every run); [ValidB] says the bound consists of valid cell ids. *)
From Coq Require Import ZArith List Bool.
From Geo Require Import Base.GoPrim Gen.CellIDCov Model.Coverer.
From Geo Require Import Proofs.C05_CellFacts Proofs.C05_CellUnion Proofs.C05_Coverer Proofs.C05_Fast Proofs.C05_Main Proofs.C05_CuRegion.
From Geo Require Import Gen.CellID.  (* s2_CellID_Level *)
Import ListNotations.
Local Open Scope Z_scope.

(** The "very large covering" branch of normalizeCovering re-covers the covering with a coverer that
    has the same options (/repo 81ed250); the model's [cu_fallback depth cubound] is that nested run
    ([depth] bounds the nesting, [cubound] stands for covering.CapBound().CellUnionBound()).
    [CuBoundOK cubound]: that bound consists of valid cells covering the union (float geometry,
    H-CAPARITH).  All statements hold for every [depth]. *)

(** Covering covers: every leaf of the region lies in a returned cell — for every configuration
    (all four option fields are arbitrary integers; clamping is part of the model). *)
Theorem covering_covers : forall intersects contains bound cubound depth pts rc,
  ValidB bound -> CuBoundOK cubound -> SoundI intersects pts -> SoundB bound pts ->
  forall r, Covering intersects contains bound (cu_fallback depth cubound) rc = Some r ->
  forall x, is_leaf x -> pts x -> covered r x.
Proof. exact real_covering_covers. Qed.
Print Assumptions covering_covers.

Theorem cellunion_covers : forall intersects contains bound cubound depth pts rc,
  ValidB bound -> CuBoundOK cubound -> SoundI intersects pts -> SoundB bound pts ->
  forall r, CellUnion intersects contains bound (cu_fallback depth cubound) rc = Some r ->
  forall x, is_leaf x -> pts x -> covered r x.
Proof. exact real_cellunion_covers. Qed.
Print Assumptions cellunion_covers.

(** FastCovering covers; it needs the bound only. *)
Theorem fast_covering_covers : forall bound cubound depth pts rc,
  ValidB bound -> CuBoundOK cubound -> SoundB bound pts ->
  forall r, FastCovering bound (cu_fallback depth cubound) rc = Some r ->
  forall x, is_leaf x -> pts x -> covered r x.
Proof. exact real_fast_covering_covers. Qed.
Print Assumptions fast_covering_covers.

(** Interior coverings are contained: every leaf of every returned cell is a region leaf. *)
Theorem interior_contained : forall intersects contains bound cubound depth pts rc,
  ValidB bound -> CuBoundOK cubound -> SoundC contains pts ->
  forall r, InteriorCovering intersects contains bound (cu_fallback depth cubound) rc = Some r ->
  forall c, In c r -> forall x, is_leaf x -> leaf_in x c -> pts x.
Proof. exact real_interior_contained. Qed.
Print Assumptions interior_contained.

Theorem interior_cellunion_contained : forall intersects contains bound cubound depth pts rc,
  ValidB bound -> CuBoundOK cubound -> SoundC contains pts ->
  forall r, InteriorCellUnion intersects contains bound (cu_fallback depth cubound) rc = Some r ->
  forall c, In c r -> forall x, is_leaf x -> leaf_in x c -> pts x.
Proof. exact real_interior_cellunion_contained. Qed.
Print Assumptions interior_cellunion_contained.

(** Level limits: every cell of Covering / InteriorCovering / FastCovering is a valid cell id whose
    level L satisfies minLevel <= L <= max(maxLevel, minLevel) and (L - minLevel) mod levelMod = 0,
    for the clamped options (when MinLevel > MaxLevel, MinLevel wins, as in the Go code). *)
Theorem levels_ok : forall intersects contains bound cubound depth rc,
  ValidB bound -> CuBoundOK cubound ->
  forall r, (Covering intersects contains bound (cu_fallback depth cubound) rc = Some r \/
             InteriorCovering intersects contains bound (cu_fallback depth cubound) rc = Some r \/
             FastCovering bound (cu_fallback depth cubound) rc = Some r) ->
  Forall (fun c => valid c /\
                   clampMinLevel rc <= s2_CellID_Level c <= Z.max (clampMaxLevel rc) (clampMinLevel rc) /\
                   (s2_CellID_Level c - clampMinLevel rc) mod clampLevelMod rc = 0) r.
Proof. intros i c b cb d rc. exact (real_levels_ok i c b cb d (fun _ => True) rc). Qed.
Print Assumptions levels_ok.

(** Termination: the Go main loop has no fuel; the model's loop (2^(201+n) - 1 iterations allowed,
    n = initial queue length) never runs out.  What remains a premise is that the NESTING of the
    "very large covering" branch stays within [depth] ([FallbackTotal]): in Go it ends because each
    nested CellUnionBound is coarser than the previous one (float geometry; see TODO below). *)
Theorem coverer_terminates : forall intersects contains bound cubound depth rc,
  ValidB bound -> CuBoundOK cubound -> FallbackTotal (cu_fallback depth cubound) ->
  (exists r, Covering intersects contains bound (cu_fallback depth cubound) rc = Some r) /\
  (exists r, InteriorCovering intersects contains bound (cu_fallback depth cubound) rc = Some r) /\
  (exists r, CellUnion intersects contains bound (cu_fallback depth cubound) rc = Some r) /\
  (exists r, InteriorCellUnion intersects contains bound (cu_fallback depth cubound) rc = Some r) /\
  (exists r, FastCovering bound (cu_fallback depth cubound) rc = Some r).
Proof. intros i c b cb d rc. exact (real_terminates i c b cb d (fun _ => True) rc). Qed.
Print Assumptions coverer_terminates.

(** The nested branch itself: with the same options it inherits every guarantee above. *)
Theorem large_covering_branch_sound : forall cubound, CuBoundOK cubound ->
  forall depth, FallbackSound (cu_fallback depth cubound).
Proof. exact cu_fallback_sound. Qed.
Print Assumptions large_covering_branch_sound.

(** FIXED FINDING (KNOWN_FINDINGS.jsonl, kind "FastCovering(default-coverer-fallback).levels",
    repaired by /repo 81ed250): before the repair the branch covered with NewRegionCoverer() defaults,
    and "FastCovering honours MinLevel and LevelMod" was FALSE of the faithful model of that code
    ([cu_fallback_old]).  Witness observed on the old Go code (cap of radius 6.96e-6 rad,
    RegionCoverer{MinLevel:10, MaxLevel:24, LevelMod:3, MaxCells:-2600}); the same input is in the
    observer's corpus and must now pass (levels_ok above covers FastCovering). *)
Theorem fast_covering_levels_old_refuted :
  ValidB refute_bound /\ all_valid refute_cubound /\
  exists r c, FastCovering refute_bound (cu_fallback_old (fun _ => refute_cubound)) refute_opts = Some r /\
    In c r /\ valid c /\ (s2_CellID_Level c - clampMinLevel refute_opts) mod clampLevelMod refute_opts <> 0.
Proof. exact fast_levels_refuted_lemma. Qed.
Print Assumptions fast_covering_levels_old_refuted.

(** Second sentence of the property, for the regions whose predicates are id-range logic:
    s2.Cell (ContainsCell = CellID.Contains, IntersectsCell = CellID.Intersects, translated functions)
    and normalized s2.CellUnion (binary search of ContainsCellID / IntersectsCellID).
    A cell reported as contained has all its leaves in the region; a cell sharing a leaf with the
    region is reported as intersecting. *)
Theorem cell_region_predicates_safe : forall a c, valid a -> valid c ->
  (s2_CellID_Contains a c = true -> forall x, leaf_in x c -> leaf_in x a) /\
  ((exists x, leaf_in x c /\ leaf_in x a) -> s2_CellID_Intersects a c = true).
Proof. intros a c Va Vc. split; [exact (cell_contains_sound a c Va Vc)|exact (cell_intersects_sound a c Va Vc)]. Qed.
Print Assumptions cell_region_predicates_safe.

Theorem cellunion_region_predicates_safe : forall l c, all_valid l -> normal l -> valid c ->
  (cu_ContainsCellID l c = true -> forall x, leaf_in x c -> covered l x) /\
  ((exists x, leaf_in x c /\ covered l x) -> cu_IntersectsCellID l c = true).
Proof. intros l c Vl Nl Vc. split; [exact (cu_contains_sound l Vl Nl c Vc)|exact (cu_intersects_sound l Vl Nl c Vc)]. Qed.
Print Assumptions cellunion_region_predicates_safe.

(* FIXED FINDING (/repo 38de577; KNOWN_FINDINGS.jsonl): SoundI used to be false for s2.Rect, because
   Rect.IntersectsCell skipped every boundary test for a cell edge running westward.  SoundI for s2.Rect
   is again a premise (H-LATBOUND) attacked by the observer's grazing family; the old witness is a
   regression input of the corpus. *)

(* TODO (not proved; covered by the observer's search on every run):
   - FallbackTotal (cu_fallback depth cubound): the nesting depth of the "very large covering" branch.
     Needs the geometric fact that CapBound().CellUnionBound() of a union is strictly coarser than the
     union's coarsest cell or is the six faces (then the covering is canonical and the branch is not
     taken again).  The correspondence runs use depth 64; observed nesting is at most 16.
   - SoundI / SoundC / SoundB for s2.Cap, s2.Rect, s2.Loop, s2.Polygon, s2.Polyline, s2.Point and
     CuBoundOK: floating-point geometry, carried as H-CAPARITH, H-LATBOUND, H-CLIP, H-JORDAN
     (DESIGN.md section 4). *)

(** The hypotheses are jointly satisfiable: the region consisting of face cell 0 (all its leaves) with
    the id-range predicates of s2.Cell, the face as its own bound; a cell union is its own bound. *)
Example hypotheses_satisfiable :
  let face0 := s2_CellIDFromFace 0 in
  let pts := fun x => leaf_in x face0 in
  ValidB [face0] /\ CuBoundOK (fun l => l) /\ SoundB [face0] pts /\
  SoundI (s2_CellID_Intersects face0) pts /\ SoundC (s2_CellID_Contains face0) pts.
Proof. exact hyps_example_full. Qed.
