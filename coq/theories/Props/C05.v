(** C05 — Coverings cover, interior coverings are contained, level limits are honoured.
    Only statements; every proof is [exact] of a lemma in Proofs/C05_*.v.

    The subject is the executable model of s2/regioncoverer.go in Model/Coverer.v (tied to the Go
    code by the correspondence run and, for the cell-id arithmetic, by the translator: the
    [s2_CellID_*] functions are regenerated from /repo on every run).  The model is parametric in
    the region: [intersects]/[contains] are the region's IntersectsCell/ContainsCell as functions
    of the cell id, [bound] its CellUnionBound, [fallback] the result of the nested
    [NewRegionCoverer().Covering(&covering)] call in normalizeCovering.

    Region semantics: [pts : Z -> Prop] on leaf cell ids;
    [leaf_in x c := RangeMin c <= x <= RangeMax c]; [covered l x := exists c in l, leaf_in x c].
    [SoundI], [SoundC], [SoundB] are the one-sided safety of the region's predicates (second
    sentence of the property).  For s2.Cap / Rect / Loop / Polygon / Polyline they are the carried
    hypotheses H-CAPARITH / H-LATBOUND / H-CLIP / H-JORDAN (float geometry, attacked by the
    observer on every run); [ValidB] says the bound consists of valid cell ids. *)
From Coq Require Import ZArith List Bool.
From Geo Require Import Base.GoPrim Gen.CellIDCov Model.Coverer.
From Geo Require Import Proofs.C05_CellFacts Proofs.C05_CellUnion Proofs.C05_Coverer Proofs.C05_Fast Proofs.C05_Main.
Import ListNotations.
Local Open Scope Z_scope.

(** Covering covers: every leaf of the region lies in a returned cell — for every configuration
    (all four option fields are arbitrary integers; clamping is part of the model). *)
Theorem covering_covers : forall intersects contains bound fallback pts rc,
  ValidB bound -> FallbackOK fallback -> SoundI intersects pts -> SoundB bound pts ->
  forall r, Covering intersects contains bound fallback rc = Some r ->
  forall x, is_leaf x -> pts x -> covered r x.
Proof. exact covering_covers_lemma. Qed.
Print Assumptions covering_covers.

Theorem cellunion_covers : forall intersects contains bound fallback pts rc,
  ValidB bound -> FallbackOK fallback -> SoundI intersects pts -> SoundB bound pts ->
  forall r, CellUnion intersects contains bound fallback rc = Some r ->
  forall x, is_leaf x -> pts x -> covered r x.
Proof. exact cellunion_covers_lemma. Qed.
Print Assumptions cellunion_covers.

(** FastCovering covers; it needs the bound only. *)
Theorem fast_covering_covers : forall bound fallback pts rc,
  ValidB bound -> FallbackOK fallback -> SoundB bound pts ->
  forall r, FastCovering bound fallback rc = Some r ->
  forall x, is_leaf x -> pts x -> covered r x.
Proof. exact fast_covering_covers_lemma. Qed.
Print Assumptions fast_covering_covers.

(** Interior coverings are contained: every leaf of every returned cell is a region leaf. *)
Theorem interior_contained : forall intersects contains bound fallback pts rc,
  ValidB bound -> FallbackOK fallback -> SoundC contains pts ->
  forall r, InteriorCovering intersects contains bound fallback rc = Some r ->
  forall c, In c r -> forall x, is_leaf x -> leaf_in x c -> pts x.
Proof. exact interior_contained_lemma. Qed.
Print Assumptions interior_contained.

Theorem interior_cellunion_contained : forall intersects contains bound fallback pts rc,
  ValidB bound -> FallbackOK fallback -> SoundC contains pts ->
  forall r, InteriorCellUnion intersects contains bound fallback rc = Some r ->
  forall c, In c r -> forall x, is_leaf x -> leaf_in x c -> pts x.
Proof. exact interior_cellunion_contained_lemma. Qed.
Print Assumptions interior_cellunion_contained.

(** Level limits: every cell of Covering / InteriorCovering is a valid cell id whose level L
    satisfies minLevel <= L <= max(maxLevel, minLevel) and (L - minLevel) mod levelMod = 0,
    for the clamped options (when MinLevel > MaxLevel, MinLevel wins, as in the Go code). *)
Theorem levels_ok : forall intersects contains bound fallback rc,
  ValidB bound -> FallbackOK fallback ->
  forall r, (Covering intersects contains bound fallback rc = Some r \/
             InteriorCovering intersects contains bound fallback rc = Some r) ->
  Forall (fun c => valid c /\
                   clampMinLevel rc <= s2_CellID_Level c <= Z.max (clampMaxLevel rc) (clampMinLevel rc) /\
                   (s2_CellID_Level c - clampMinLevel rc) mod clampLevelMod rc = 0) r.
Proof. intros i c b f rc. exact (levels_ok_lemma i c b f (fun _ => True) rc). Qed.
Print Assumptions levels_ok.

(** Termination: the Go main loop has no fuel; the model's loop (2^(201+n) - 1 iterations allowed,
    n = initial queue length) never runs out, so every entry point returns a result. *)
Theorem coverer_terminates : forall intersects contains bound fallback rc,
  ValidB bound -> FallbackOK fallback ->
  (exists r, Covering intersects contains bound fallback rc = Some r) /\
  (exists r, InteriorCovering intersects contains bound fallback rc = Some r) /\
  (exists r, CellUnion intersects contains bound fallback rc = Some r) /\
  (exists r, InteriorCellUnion intersects contains bound fallback rc = Some r) /\
  (exists r, FastCovering bound fallback rc = Some r).
Proof. intros i c b f rc. exact (terminates_lemma i c b f (fun _ => True) rc). Qed.
Print Assumptions coverer_terminates.

(** The hypotheses are satisfiable: the region consisting of face cell 0 (all its leaves), with exact
    predicates computed from id ranges, the face as its own bound and an identity fallback. *)
Example hypotheses_satisfiable :
  let face0 := s2_CellIDFromFace 0 in
  let pts := fun x => leaf_in x face0 in
  ValidB [face0] /\ FallbackOK (fun l => Some l) /\ SoundB [face0] pts.
Proof. exact hyps_example. Qed.
