(** C04 — Point containment is a parity of crossings and partitions the sphere.
    Only statements; every proof is [exact] of a lemma in Proofs/C04_*.v.

    The crossing predicate [eov a b c d] = EdgeOrVertexCrossing(a,b,c,d) is an INTERFACE.
    The laws used are explicit premises, discharged by C03 for the real crosser:
      eov_sym_cd_law         eov a b c d = eov a b d c
      eov_degenerate_cd_law  eov a b c c = false     (only for the one-vertex empty/full loops)
    Geometric facts that are not proved here are named premises:
      H_JORDAN  every closed chain of admissible test edges crosses a valid loop evenly
      H_CLIP    an edge not listed in an index cell does not cross a segment inside that cell
      H-LATBOUND the bound rejection is sound;  H_SKIP / index coverage: see below. *)
From Coq Require Import List Bool Arith ZArith.
From Geo Require Import Model.Contain Proofs.C04_Brute Proofs.C04_Dispatch Proofs.C04_Tracker
     Proofs.C04_Polygon Proofs.C04_CellVerts Gen.C04Cell.
Import ListNotations.

Section C04.
  Variable point : Type.
  Variable peq : point -> point -> bool.
  Variable eov : point -> point -> point -> point -> bool.
  Variable acv : point -> point -> point -> bool.
  Variable south : point -> bool.
  Variables origin emptyPt fullPt zeroPt : point.
  Variable ok : point -> point -> Prop.   (* admissible (non-antipodal) test edges *)

  Local Notation brute := (brute_contains point eov origin zeroPt).
  Local Notation inv := (invert point emptyPt fullPt).

  (** "whether it contains a point equals the parity of exact edge crossings from a fixed
      reference point" *)
  Theorem c04_parity_def : forall (L : loop point) p,
    brute L p
    = xorb (origin_inside point L)
           (Nat.odd (length (filter (fun e => eov origin p (fst e) (snd e)) (loop_edges point L)))).
  Proof. exact (parity_count point eov origin zeroPt). Qed.

  (** a loop and its inverse contain every point exactly once, for every loop value *)
  Theorem c04_invert_complement :
    eov_sym_cd_law point eov -> eov_degenerate_cd_law point eov ->
    forall (L : loop point) p, brute (inv L) p = negb (brute L p).
  Proof. exact (invert_complement point eov origin emptyPt fullPt zeroPt). Qed.

  (** ... with the symmetry law alone except for the two special one-vertex loops *)
  Theorem c04_invert_complement_ordinary :
    eov_sym_cd_law point eov ->
    forall (L : loop point) p, length (verts point L) <> 1 -> brute (inv L) p = negb (brute L p).
  Proof. exact (invert_complement_ordinary point eov origin emptyPt fullPt zeroPt). Qed.

  (** every evaluation path of Loop.ContainsPoint returns parity(ref, ref_inside, E) for a
      reference point and a list of edges of the loop *)
  Theorem c04_dispatch_structure : forall (L : loop point) fresh bound_contains index_shapes located p,
    exists ref ref_inside (E : list (edge point)),
      loop_contains_point point eov origin zeroPt L fresh bound_contains index_shapes located p
      = parity point eov ref ref_inside E p
      /\ (forall e, In e E -> exists i, e = ledge point zeroPt (verts point L) i).
  Proof. exact (dispatch_structure point eov origin zeroPt). Qed.

  (** the index path of loop.go (restart rule included) is the parity over the listed edges *)
  Theorem c04_cell_path_parity : forall vs center cl p,
    loop_clipped_contains point eov zeroPt vs center cl p
    = parity point eov center (cl_contains_center cl) (map (ledge point zeroPt vs) (cl_edges cl)) p.
  Proof. exact (loop_clipped_parity point eov zeroPt). Qed.

  (** all paths agree with the brute force; each hypothesis enters once *)
  Theorem c04_paths_agree : forall (L : loop point) fresh bound_contains index_shapes located p,
    (bound_contains = false -> brute L p = false) ->                       (* H-LATBOUND *)
    (located = None -> brute L p = false) ->                               (* index coverage *)
    (forall c, located = Some c ->
       exists cl, find_by_shape_id point c 0 = Some cl
         /\ H_CLIP point eov zeroPt (verts point L) (ic_center point c) cl p      (* H-CLIP *)
         /\ cl_contains_center cl = brute L (ic_center point c)                   (* tracker_correct *)
         /\ ok origin (ic_center point c) /\ ok (ic_center point c) p /\ ok p origin /\ ok origin p) ->
    H_JORDAN point eov ok (loop_edges point L) ->                          (* H-JORDAN *)
    loop_contains_point point eov origin zeroPt L fresh bound_contains index_shapes located p = brute L p.
  Proof. exact (paths_agree point eov origin zeroPt ok). Qed.

  (** ContainsPointQuery (semi-open) / Polygon.iteratorContainsPoint on the loop's edges *)
  Theorem c04_query_path_agrees : forall (L : loop point) (S : shape point) c cl p,
    (forall i, i < length (verts point L) -> shape_edge point zeroPt S i = ledge point zeroPt (verts point L) i) ->
    H_CLIP point eov zeroPt (verts point L) (ic_center point c) cl p ->
    cl_contains_center cl = brute L (ic_center point c) ->
    ok origin (ic_center point c) -> ok (ic_center point c) p -> ok p origin -> ok origin p ->
    H_JORDAN point eov ok (loop_edges point L) ->
    shape_clipped_contains point eov zeroPt S (ic_center point c) cl p = brute L p.
  Proof. exact (shape_path_agrees point eov origin zeroPt ok). Qed.

  (** the interior tracker: every containsCenter it records is the containment of the centre *)
  Theorem c04_tracker_correct : forall (shapes : list (shape point)) cells (t : tracker point),
    tr_active point t = true -> Inv point eov origin shapes t ->
    run_ok point eov origin shapes (tr_b point t) (tr_next point t) cells ->
    Forall2 (out_ok point eov origin shapes) cells (snd (tracker_run point eov t cells))
    /\ Inv point eov origin shapes (fst (tracker_run point eov t cells)).
  Proof. exact (tracker_correct point eov origin). Qed.

  Theorem c04_tracker_init : forall (shapes : list (shape point)) (t : tracker point),
    tr_ids point t = [] ->
    (forall S, In S shapes -> contains_brute_force point peq eov origin zeroPt S (tr_b point t)
                              = sh_contains point eov origin S (tr_b point t)) ->
    let t' := add_shapes point peq eov origin zeroPt t shapes in
    Inv point eov origin shapes t' /\ tr_b point t' = tr_b point t /\ tr_next point t' = tr_next point t
    /\ (shapes <> [] -> tr_active point t' = true).
  Proof. exact (add_shapes_inv point peq eov origin zeroPt). Qed.

  (** H-JORDAN yields the path form the tracker premises use *)
  Theorem c04_tracker_jordan : forall (shapes : list (shape point)) a b,
    (forall id, id < length shapes -> H_JORDAN point eov ok (sh_edges point (shape_at point shapes id))) ->
    ok origin a -> ok a b -> ok b origin -> ok origin b ->
    H_JORDAN_seg point eov origin shapes a b.
  Proof. exact (fun shapes => jordan_seg_from_jordan point eov origin shapes ok). Qed.

  (** initOriginAndBound: vertex 1 is contained exactly when its wedge says so (closed) ... *)
  Theorem c04_origin_inside_vertex1 : forall v0 v1 v2 rest,
    brute (loop_from_points point peq eov acv south origin zeroPt (v0 :: v1 :: v2 :: rest)) v1
    = v1_inside point peq acv v0 v1 v2.
  Proof. exact (origin_inside_vertex1 point peq eov acv south origin zeroPt). Qed.

  (** ... and under H-JORDAN containment is the parity from vertex 1: OriginPoint is immaterial *)
  Theorem c04_origin_inside_correct : forall v0 v1 v2 rest q,
    let L := loop_from_points point peq eov acv south origin zeroPt (v0 :: v1 :: v2 :: rest) in
    H_JORDAN point eov ok (loop_edges point L) ->
    ok origin v1 -> ok v1 q -> ok q origin -> ok origin q ->
    brute L q = xorb (v1_inside point peq acv v0 v1 v2) (cross_parity point eov v1 q (loop_edges point L)).
  Proof. exact (origin_inside_correct point peq eov acv south origin zeroPt ok). Qed.

  (** polygons: XOR over the loops = parity over the polygon's own (oriented) edges *)
  Theorem c04_polygon_xor :
    eov_sym_cd_law point eov -> eov_degenerate_cd_law point eov ->
    forall (P : polygon point) p,
      polygon_brute point eov origin zeroPt P p
      = parity point eov origin (sh_ref_inside point (polygon_shape point zeroPt P))
               (sh_edges point (polygon_shape point zeroPt P)) p.
  Proof. exact (polygon_xor point eov origin zeroPt). Qed.

  (** a polygon and its complement (Polygon.Invert inverts one loop and relabels depths) *)
  Theorem c04_polygon_invert_complement :
    eov_sym_cd_law point eov -> eov_degenerate_cd_law point eov ->
    forall (P Q : polygon point) (L : loop point) (rest : list (loop point)) p,
      Permutation.Permutation (map fst P) (L :: rest) ->
      Permutation.Permutation (map fst Q) (inv L :: rest) ->
      polygon_brute point eov origin zeroPt Q p = negb (polygon_brute point eov origin zeroPt P p).
  Proof. exact (polygon_invert_complement point eov origin emptyPt fullPt zeroPt). Qed.
End C04.

Print Assumptions c04_parity_def.
Print Assumptions c04_invert_complement.
Print Assumptions c04_invert_complement_ordinary.
Print Assumptions c04_dispatch_structure.
Print Assumptions c04_cell_path_parity.
Print Assumptions c04_paths_agree.
Print Assumptions c04_query_path_agrees.
Print Assumptions c04_tracker_correct.
Print Assumptions c04_tracker_init.
Print Assumptions c04_tracker_jordan.
Print Assumptions c04_origin_inside_vertex1.
Print Assumptions c04_origin_inside_correct.
Print Assumptions c04_polygon_xor.
Print Assumptions c04_polygon_invert_complement.

(** tiling, [P] part: cell loops that meet at a corner / along an edge of one face use
    bit-identical vertices (translated Cell.Vertex, regenerated from /repo every run) *)
Theorem c04_cell_loops_share_vertices :
  forall face u0 u1 u2 v0 v1 v2 l1 o1 i1 l2 o2 i2 l3 o3 i3 l4 o4 i4,
    let ll := cell_on face u0 u1 v0 v1 l1 o1 i1 in
    let lr := cell_on face u1 u2 v0 v1 l2 o2 i2 in
    let ur := cell_on face u1 u2 v1 v2 l3 o3 i3 in
    let ul := cell_on face u0 u1 v1 v2 l4 o4 i4 in
    nth 2 (loop_from_cell_vertices ll) (s2_Cell_Vertex ll 0) = nth 3 (loop_from_cell_vertices lr) (s2_Cell_Vertex lr 0)
    /\ nth 3 (loop_from_cell_vertices lr) (s2_Cell_Vertex lr 0) = nth 0 (loop_from_cell_vertices ur) (s2_Cell_Vertex ur 0)
    /\ nth 0 (loop_from_cell_vertices ur) (s2_Cell_Vertex ur 0) = nth 1 (loop_from_cell_vertices ul) (s2_Cell_Vertex ul 0).
Proof. exact cell_loops_share_vertices_same_face. Qed.
Print Assumptions c04_cell_loops_share_vertices.

(** C04 linked to C03: the complement theorem for the REAL EdgeOrVertexCrossing of the edge crosser,
    resting only on the laws of the orientation predicate (discharged in turn by C02 for the exact
    predicate) — the interface laws eov_sym_cd / eov_degenerate_cd are theorems here, not premises. *)
From Geo Require Import Model.Crosser Proofs.Link_C03_C04.
Theorem loop_and_inverse_contain_each_point_exactly_once_linked :
  forall (point : Type) (peq : point -> point -> bool) (sign triage : point -> point -> point -> BinNums.Z)
         (tangent : point -> point -> point -> point -> bool) (refdir : point -> point),
  (forall a, peq a a = true) -> (forall a b, peq a b = peq b a) ->
  (forall a b c, peq a b = true -> peq b c = true -> peq a c = true) ->
  (forall a b c, sign b c a = sign a b c) ->
  (forall a b c, sign c b a = BinInt.Z.opp (sign a b c)) ->
  (forall a b c, sign a b c = BinNums.Z0 <-> peq a b = true \/ peq b c = true \/ peq c a = true) ->
  (forall a b c, triage a b c <> BinNums.Z0 -> triage a b c = sign a b c) ->
  (forall a b c d, tangent a b c d = true ->
     shared point peq a b c d = false /\ four_agree point sign a b c d = false) ->
  forall (origin emptyPt fullPt zeroPt : point) (L : Contain.loop point) (p : point),
    Contain.brute_contains point (eov point peq sign triage tangent refdir) origin zeroPt
      (Contain.invert point emptyPt fullPt L) p =
    negb (Contain.brute_contains point (eov point peq sign triage tangent refdir) origin zeroPt L p).
Proof. exact invert_complement_from_orientation_laws. Qed.
Print Assumptions loop_and_inverse_contain_each_point_exactly_once_linked.

(** C04 linked down to C02: the same theorems for the REAL crossing predicate on unit points
    (point := {p | unit_pt p}, sign := RobustSign, triage := the translated triageSign, tangent :=
    the crosser's early exit).  Only H_TANGENT (C03) remains as a premise (H-STABLE-DET is a closed C02 theorem). *)
From Coq Require Import Permutation.
From Geo Require Import Proofs.C02_Float Proofs.C03_Extra Proofs.Link_C02_C03 Proofs.Link_C02_C04 Proofs.C04_Tiling.

Theorem invert_complement_real :
  H_TANGENT ->
  forall (refdir : upoint -> upoint) (origin emptyPt fullPt zeroPt : upoint) (L : loop upoint) (p : upoint),
    brute_contains upoint (u_eov refdir) origin zeroPt (invert upoint emptyPt fullPt L) p
    = negb (brute_contains upoint (u_eov refdir) origin zeroPt L p).
Proof. exact Link_C02_C04.invert_complement_real. Qed.
Print Assumptions invert_complement_real.

Theorem polygon_invert_complement_real :
  H_TANGENT ->
  forall (refdir : upoint -> upoint) (origin emptyPt fullPt zeroPt : upoint)
         (P Q : polygon upoint) (L : loop upoint) (rest : list (loop upoint)) (p : upoint),
    Permutation (map fst P) (L :: rest) ->
    Permutation (map fst Q) (invert upoint emptyPt fullPt L :: rest) ->
    polygon_brute upoint (u_eov refdir) origin zeroPt Q p
    = negb (polygon_brute upoint (u_eov refdir) origin zeroPt P p).
Proof. exact Link_C02_C04.polygon_invert_complement_real. Qed.
Print Assumptions polygon_invert_complement_real.

Theorem polygon_xor_real :
  H_TANGENT ->
  forall (refdir : upoint -> upoint) (origin zeroPt : upoint) (P : polygon upoint) (p : upoint),
    polygon_brute upoint (u_eov refdir) origin zeroPt P p
    = parity upoint (u_eov refdir) origin (sh_ref_inside upoint (polygon_shape upoint zeroPt P))
             (sh_edges upoint (polygon_shape upoint zeroPt P)) p.
Proof. exact Link_C02_C04.polygon_xor_real. Qed.
Print Assumptions polygon_xor_real.

(** tiling, across cube faces: on all 24 face sides the two adjacent faces compute the same
    vector, so cell loops on different faces share their vertices bit for bit *)
Theorem c04_cell_loops_share_vertices_across_faces : forall f fu sg f' fu' sg' ng,
  In (f, fu, sg, f', fu', sg', ng) cube_sides ->
  forall (t : PrimFloat.float) (c1 c2 : s2_Cell) (k1 k2 : BinNums.Z),
    s2_Cell_face c1 = f -> s2_Cell_face c2 = f' ->
    uv_vertex c1 k1 = mk_r2_Point (fst (side_uv fu sg t)) (snd (side_uv fu sg t)) ->
    uv_vertex c2 k2 = (let t' := if ng then PrimFloat.opp t else t in
                       mk_r2_Point (fst (side_uv fu' sg' t')) (snd (side_uv fu' sg' t'))) ->
    s2_Cell_Vertex c1 k1 = s2_Cell_Vertex c2 k2.
Proof. exact cell_loops_share_vertices_across_faces. Qed.
Print Assumptions c04_cell_loops_share_vertices_across_faces.

(** tiling, parity part without H-JORDAN: a family of loops using every edge once in each
    direction contains every point the same number of times modulo 2 *)
Theorem c04_paired_family_parity :
  forall (point : Type) (eov : point -> point -> point -> point -> bool) (origin zeroPt : point),
    eov_sym_cd_law point eov ->
    forall (P : polygon point), edges_paired point P ->
    forall p q,
      Nat.odd (length (filter (fun lh => brute_contains point eov origin zeroPt (fst lh) p) P))
      = Nat.odd (length (filter (fun lh => brute_contains point eov origin zeroPt (fst lh) q) P)).
Proof. exact paired_family_count. Qed.
Print Assumptions c04_paired_family_parity.

(** tiling at a shared vertex: of the k loops filling the k wedges around o (each as
    LoopFromPoints sees it with o as vertex 1) exactly one contains o.  Over the GUARDED
    cyclic-order law (start ray different from the vertex; the unguarded law is refuted for
    RobustSign) and the guard referenceDir(o) <> o. *)
Theorem c04_loops_around_vertex_exactly_one :
  forall (point : Type) (peq : point -> point -> bool) (sign : point -> point -> point -> BinNums.Z)
         (refdir : point -> point) (eov : point -> point -> point -> point -> bool)
         (south : point -> bool) (origin zeroPt : point),
    law_peq_sym point peq -> law_sign_swap point sign -> law_sign_range point sign ->
    law_sign_zero_iff point peq sign -> law_occw_split_ne point peq sign ->
    forall (o : point), peq (refdir o) o = false ->
    forall (rest : point -> point -> list point) u v l,
      ccw_listed point peq sign o (u :: v :: l) ->
      (loop_count point peq sign refdir eov south origin zeroPt o rest (u :: v :: l)
       + BinInt.Z.b2z (wedge_loop_contains point peq sign refdir eov south origin zeroPt o rest (last l v) u)
       = 1)%Z.
Proof. exact loops_around_vertex_exactly_one. Qed.
Print Assumptions c04_loops_around_vertex_exactly_one.

(** ... and for the REAL predicates on unit points (RobustSign, Go ==, any crossing predicate):
    no interface law left, only the guard on referenceDir *)
From Geo Require Import Proofs.Link_C02_C03_Cyclic Proofs.Link_C02_C04_Tiling.
Theorem loops_around_vertex_exactly_one_real :
  forall (refdir : upoint -> upoint) (eov : upoint -> upoint -> upoint -> upoint -> bool)
         (south : upoint -> bool) (origin zeroPt : upoint) (o : upoint),
    u_peq (refdir o) o = false ->
    forall (rest : upoint -> upoint -> list upoint) u v l,
      ccw_listed upoint u_peq u_sign o (u :: v :: l) ->
      (loop_count upoint u_peq u_sign refdir eov south origin zeroPt o rest (u :: v :: l)
       + BinInt.Z.b2z (wedge_loop_contains upoint u_peq u_sign refdir eov south origin zeroPt o rest (last l v) u)
       = 1)%Z.
Proof. exact Link_C02_C04_Tiling.loops_around_vertex_exactly_one_real. Qed.
Print Assumptions loops_around_vertex_exactly_one_real.

(** The specification-level crossing predicate (exact four-orientation criterion + vertex rule,
    [eov_spec] on unit points with RobustSign) satisfies both interface laws by closed C02/C03
    theorems: the complement / polygon / tiling-parity theorems hold with NO premise.  H_TANGENT
    is only the bridge from the crosser's float shortcut to this predicate ([u_eov_is_spec]). *)
Theorem invert_complement_spec_real :
  forall (refdir : upoint -> upoint) (origin emptyPt fullPt zeroPt : upoint) (L : loop upoint) (p : upoint),
    brute_contains upoint (u_eov_spec refdir) origin zeroPt (invert upoint emptyPt fullPt L) p
    = negb (brute_contains upoint (u_eov_spec refdir) origin zeroPt L p).
Proof. exact Link_C02_C04.invert_complement_spec_real. Qed.
Print Assumptions invert_complement_spec_real.

Theorem polygon_invert_complement_spec_real :
  forall (refdir : upoint -> upoint) (origin emptyPt fullPt zeroPt : upoint)
         (P Q : polygon upoint) (L : loop upoint) (rest : list (loop upoint)) (p : upoint),
    Permutation (map fst P) (L :: rest) ->
    Permutation (map fst Q) (invert upoint emptyPt fullPt L :: rest) ->
    polygon_brute upoint (u_eov_spec refdir) origin zeroPt Q p
    = negb (polygon_brute upoint (u_eov_spec refdir) origin zeroPt P p).
Proof. exact Link_C02_C04.polygon_invert_complement_spec_real. Qed.
Print Assumptions polygon_invert_complement_spec_real.

Theorem polygon_xor_spec_real :
  forall (refdir : upoint -> upoint) (origin zeroPt : upoint) (P : polygon upoint) (p : upoint),
    polygon_brute upoint (u_eov_spec refdir) origin zeroPt P p
    = parity upoint (u_eov_spec refdir) origin (sh_ref_inside upoint (polygon_shape upoint zeroPt P))
             (sh_edges upoint (polygon_shape upoint zeroPt P)) p.
Proof. exact Link_C02_C04.polygon_xor_spec_real. Qed.
Print Assumptions polygon_xor_spec_real.

Theorem paired_family_parity_spec_real :
  forall (refdir : upoint -> upoint) (origin zeroPt : upoint) (P : polygon upoint),
    edges_paired upoint P ->
    forall p q,
      Nat.odd (length (filter (fun lh => brute_contains upoint (u_eov_spec refdir) origin zeroPt (fst lh) p) P))
      = Nat.odd (length (filter (fun lh => brute_contains upoint (u_eov_spec refdir) origin zeroPt (fst lh) q) P)).
Proof. exact Link_C02_C04_Tiling.paired_family_parity_spec_real. Qed.
Print Assumptions paired_family_parity_spec_real.

Theorem crosser_eov_is_spec_real :
  H_TANGENT -> forall (refdir : upoint -> upoint) a b c d,
    u_eov refdir a b c d = u_eov_spec refdir a b c d.
Proof. exact (fun HT refdir => u_eov_is_spec refdir HT). Qed.
Print Assumptions crosser_eov_is_spec_real.
