(** C04 — Point containment is a parity of crossings and partitions the sphere.
    Only statements; every proof is [exact] of a lemma in Proofs/C04_*.v.
    The crossing predicate [eov a b c d] = EdgeOrVertexCrossing(a,b,c,d) is an interface:
    the laws it must satisfy are explicit premises (discharged by C03 for the real crosser). *)
From Coq Require Import List Bool Arith.
From Geo Require Import Model.Contain Proofs.C04_Brute.
Import ListNotations.

(** "whether it contains a point equals the parity of exact edge crossings from a fixed
    reference point": bruteForceContainsPoint = originInside XOR (number of loop edges
    crossed by OriginPoint->p is odd). *)
Theorem c04_parity_def :
  forall (point : Type) (eov : point -> point -> point -> point -> bool) (origin zeroPt : point)
         (L : loop point) (p : point),
    brute_contains point eov origin zeroPt L p
    = xorb (origin_inside point L)
           (Nat.odd (length (filter (fun e => eov origin p (fst e) (snd e)) (loop_edges point L)))).
Proof. exact parity_count. Qed.
Print Assumptions c04_parity_def.

(** A loop and its inverse contain every point exactly once (vertices and edge points
    included), for every loop value. *)
Theorem c04_invert_complement :
  forall (point : Type) (eov : point -> point -> point -> point -> bool)
         (origin emptyPt fullPt zeroPt : point),
    eov_sym_cd_law point eov -> eov_degenerate_cd_law point eov ->
    forall (L : loop point) (p : point),
      brute_contains point eov origin zeroPt (invert point emptyPt fullPt L) p
      = negb (brute_contains point eov origin zeroPt L p).
Proof. exact invert_complement. Qed.
Print Assumptions c04_invert_complement.

(** ... and with the single symmetry law for every loop that is not one of the two special
    one-vertex loops. *)
Theorem c04_invert_complement_ordinary :
  forall (point : Type) (eov : point -> point -> point -> point -> bool)
         (origin emptyPt fullPt zeroPt : point),
    eov_sym_cd_law point eov ->
    forall (L : loop point) (p : point), length (verts point L) <> 1 ->
      brute_contains point eov origin zeroPt (invert point emptyPt fullPt L) p
      = negb (brute_contains point eov origin zeroPt L p).
Proof. exact invert_complement_ordinary. Qed.
Print Assumptions c04_invert_complement_ordinary.
