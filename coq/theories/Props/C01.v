(** C01 — Cell ids form a consistent, invertible quadtree along the Hilbert curve.
    Only statements; every proof is [exact] of a lemma in Proofs/.  The functions named
    s2_* are the Gallina translations regenerated from /repo on every run (Gen.CellIDFull,
    Gen.StUV); s2_lookupPos/s2_lookupIJ are initLookupCell re-executed over the translated
    literal tables (Model.CellIDTables).  [rep c f l k] is
      0<=f<6 /\ 0<=l<=30 /\ 0<=k<4^l /\ c = f*2^61 + (2k+1)*4^(30-l). *)
From Coq Require Import ZArith List Bool Floats Reals.
From Geo Require Import Base.GoPrim Gen.CellIDFull Model.CellIDTables
  Base.F64Arith Proofs.C01_Tables Proofs.C01_Algebra Proofs.C01_IJ Proofs.C01_Advance Proofs.C01_AdvanceClamp Proofs.C01_Iter Proofs.C01_Point Proofs.C01_Text Proofs.C01_Hilbert Proofs.C01_Inverse Proofs.C01_Nbr Proofs.C01_WrapInside Proofs.C01_Nbr2 Proofs.C01_WrapSide Proofs.C01_WrapAdj Proofs.StUV_Mono.
(* the hand models compared with Go by the observer (built with this file: one make target) *)
From Geo Require Model.C01Obs.
From Geo Require Import Model.CellIDNbr.
From Geo Require Import Model.CellIDText.
Import ListNotations.
Local Open Scope Z_scope.

(** ids: validity and closed forms ------------------------------------------ *)
Theorem c01_valid_char : forall c, 0 <= c < 2 ^ 64 ->
  (s2_CellID_IsValid c = true <->
   exists f l k, 0 <= f < 6 /\ 0 <= l <= 30 /\ 0 <= k < 4 ^ l /\ c = f * 2 ^ 61 + (2 * k + 1) * 4 ^ (30 - l)).
Proof. exact valid_char. Qed.
Print Assumptions c01_valid_char.

Theorem c01_closed_forms : forall c f l k, rep c f l k ->
  s2_CellID_Level c = l /\ s2_CellID_Face c = f /\ s2_CellID_lsb c = 4 ^ (30 - l) /\
  s2_CellID_Pos c = (2 * k + 1) * 4 ^ (30 - l) /\
  s2_CellID_RangeMin c = c - (4 ^ (30 - l) - 1) /\ s2_CellID_RangeMax c = c + (4 ^ (30 - l) - 1) /\
  (s2_CellID_IsLeaf c = true <-> l = 30).
Proof.
  intros c f l k H. repeat split.
  - exact (Level_rep c f l k H). - exact (Face_rep c f l k H). - exact (lsb_rep c f l k H).
  - exact (Pos_rep c f l k H). - exact (RangeMin_rep c f l k H). - exact (RangeMax_rep c f l k H).
  - apply (IsLeaf_rep c f l k H). - apply (IsLeaf_rep c f l k H).
Qed.
Print Assumptions c01_closed_forms.

Theorem c01_representation_unique : forall c f l k f' l' k',
  rep c f l k -> rep c f' l' k' -> f = f' /\ l = l' /\ k = k'.
Proof. exact rep_unique. Qed.
Print Assumptions c01_representation_unique.

(** parent / child ---------------------------------------------------------- *)
Theorem c01_parent_valid_and_contains : forall c f l k l', rep c f l k -> 0 <= l' <= l ->
  rep (s2_CellID_Parent c l') f l' (k / 4 ^ (l - l')) /\
  s2_CellID_Contains (s2_CellID_Parent c l') c = true.
Proof. intros c f l k l' H Hl. split; [exact (Parent_rep c f l k l' H Hl)|exact (Parent_contains c f l k l' H Hl)]. Qed.
Print Assumptions c01_parent_valid_and_contains.

Theorem c01_children_partition : forall c f l k, rep c f l k -> l < 30 ->
  exists c0 c1 c2 c3, s2_CellID_Children c = [c0; c1; c2; c3] /\
    rep c0 f (l + 1) (4 * k) /\ rep c1 f (l + 1) (4 * k + 1) /\
    rep c2 f (l + 1) (4 * k + 2) /\ rep c3 f (l + 1) (4 * k + 3) /\
    s2_CellID_Parent c0 l = c /\ s2_CellID_Parent c1 l = c /\
    s2_CellID_Parent c2 l = c /\ s2_CellID_Parent c3 l = c /\
    c0 < c1 < c2 /\ c2 < c3 /\
    s2_CellID_RangeMin c0 = s2_CellID_RangeMin c /\
    s2_CellID_RangeMax c0 + 2 = s2_CellID_RangeMin c1 /\
    s2_CellID_RangeMax c1 + 2 = s2_CellID_RangeMin c2 /\
    s2_CellID_RangeMax c2 + 2 = s2_CellID_RangeMin c3 /\
    s2_CellID_RangeMax c3 = s2_CellID_RangeMax c.
Proof. exact parent_child. Qed.
Print Assumptions c01_children_partition.

(** containment is laminar --------------------------------------------------- *)
Theorem c01_contains_is_range_inclusion : forall a f l k x, rep a f l k -> 0 <= x < 2 ^ 64 ->
  (s2_CellID_Contains a x = true <-> s2_CellID_RangeMin a <= x <= s2_CellID_RangeMax a).
Proof.
  intros a f l k x H Hx. rewrite (RangeMin_rep a f l k H), (RangeMax_rep a f l k H).
  exact (Contains_spec a f l k x H Hx).
Qed.
Print Assumptions c01_contains_is_range_inclusion.

Theorem c01_contains_is_ancestor : forall a f l k b f' l' k', rep a f l k -> rep b f' l' k' ->
  (s2_CellID_Contains a b = true <-> l <= l' /\ s2_CellID_Parent b l = a).
Proof. exact Contains_iff_ancestor. Qed.
Print Assumptions c01_contains_is_ancestor.

Theorem c01_laminar : forall a f l k b f' l' k', rep a f l k -> rep b f' l' k' ->
  (s2_CellID_Intersects a b = true <-> s2_CellID_Contains a b = true \/ s2_CellID_Contains b a = true).
Proof. exact laminar. Qed.
Print Assumptions c01_laminar.

(** round trips --------------------------------------------------------------- *)
Theorem c01_face_pos_level_roundtrip : forall c f l k, rep c f l k ->
  s2_CellIDFromFacePosLevel (s2_CellID_Face c) (s2_CellID_Pos c) (s2_CellID_Level c) = c.
Proof. exact FromFacePosLevel_roundtrip. Qed.
Print Assumptions c01_face_pos_level_roundtrip.

Theorem c01_lookup_tables_mutually_inverse : forall k, 0 <= k < 1024 ->
  pos_ij_inverse_at k = true /\ ij_pos_inverse_at k = true.
Proof. exact lookup_tables_inverse. Qed.
Print Assumptions c01_lookup_tables_mutually_inverse.

Theorem c01_face_ij_roundtrip : forall f i j, 0 <= f < 6 -> 0 <= i < 2 ^ 30 -> 0 <= j < 2 ^ 30 ->
  exists o k, 0 <= o < 4 /\ rep (s2_cellIDFromFaceIJ f i j) f 30 k /\
    s2_CellID_faceIJOrientation (s2_cellIDFromFaceIJ f i j) = (f, i, j, o).
Proof. exact ij_roundtrip. Qed.
Print Assumptions c01_face_ij_roundtrip.

(** text forms (hand model Model/CellIDText.v, compared with Go on every run) -------------- *)
Theorem c01_token_roundtrip : forall c, 0 <= c < 2 ^ 64 ->
  CellIDFromToken (ToToken c) = c /\ (length (ToToken c) <= 16)%nat.
Proof. intros c Hc. split; [exact (token_roundtrip c Hc)|exact (ToToken_length c)]. Qed.
Print Assumptions c01_token_roundtrip.

Example c01_token_zero : ToToken 0 = [88] /\ CellIDFromToken [88] = 0.
Proof. split; reflexivity. Qed.

Theorem c01_string_roundtrip : forall c f l k, rep c f l k -> CellIDFromString (CellID_String c) = c.
Proof. exact string_roundtrip. Qed.
Print Assumptions c01_string_roundtrip.

Theorem c01_from_string_zero_or_valid : forall s : list Z,
  CellIDFromString s = 0 \/ s2_CellID_IsValid (CellIDFromString s) = true.
Proof. exact FromString_zero_or_valid. Qed.
Print Assumptions c01_from_string_zero_or_valid.

(** the other direction: with c01_face_ij_roundtrip, cellIDFromFaceIJ is a bijection between
    {f<6} x [0,2^30)^2 and the valid leaves, with inverse faceIJOrientation *)
Theorem c01_face_ij_inverse : forall c f k, rep c f 30 k ->
  exists i j o, s2_CellID_faceIJOrientation c = (f, i, j, o) /\ 0 <= i < 2 ^ 30 /\ 0 <= j < 2 ^ 30 /\
    s2_cellIDFromFaceIJ f i j = c.
Proof. exact face_ij_inverse. Qed.
Print Assumptions c01_face_ij_inverse.

(** prefix property: the (i,j) returned for a cell and for any of its ancestors lie in the same
    square of the ancestor's level (so ijLevelToBoundUV of the ancestor is the bound of the square
    containing the cell's (i,j)) *)
Theorem c01_ancestor_ij_prefix : forall c f l k l', rep c f l k -> 0 <= l' <= l ->
  exists i j o i' j' o',
    s2_CellID_faceIJOrientation c = (f, i, j, o) /\
    s2_CellID_faceIJOrientation (s2_CellID_Parent c l') = (f, i', j', o') /\
    i' / 2 ^ (30 - l') = i / 2 ^ (30 - l') /\ j' / 2 ^ (30 - l') = j / 2 ^ (30 - l').
Proof. exact ancestor_prefix. Qed.
Print Assumptions c01_ancestor_ij_prefix.

(** along the curve ----------------------------------------------------------- *)
Theorem c01_next_wrap_is_index_plus_one : forall c f l k, rep c f l k ->
  let i := (index f l k + 1) mod (6 * 4 ^ l) in
  rep (s2_CellID_NextWrap c) (i / 4 ^ l) l (i mod 4 ^ l) /\
  s2_CellID_PrevWrap (s2_CellID_NextWrap c) = c.
Proof. intros c f l k H. split; [exact (NextWrap_rep c f l k H)|exact (PrevWrap_NextWrap c f l k H)]. Qed.
Print Assumptions c01_next_wrap_is_index_plus_one.

Theorem c01_advance_wrap_is_index_plus_n : forall c f l k n, rep c f l k -> - 2 ^ 63 <= n < 2 ^ 63 ->
  let i := (index f l k + n) mod (6 * 4 ^ l) in
  rep (s2_CellID_AdvanceWrap c n) (i / 4 ^ l) l (i mod 4 ^ l) /\
  s2_CellID_AdvanceWrap c n = (2 * i + 1) * 4 ^ (30 - l).
Proof. intros c f l k n H Hn. split; [exact (AdvanceWrap_rep c f l k n H Hn)|exact (AdvanceWrap_index c f l k n H Hn)]. Qed.
Print Assumptions c01_advance_wrap_is_index_plus_n.

Theorem c01_advance_wrap_steps : forall c f l k, rep c f l k ->
  s2_CellID_AdvanceWrap c 1 = s2_CellID_NextWrap c /\ s2_CellID_AdvanceWrap c (-1) = s2_CellID_PrevWrap c /\
  (forall n m, - 2 ^ 63 <= n < 2 ^ 63 -> - 2 ^ 63 <= m < 2 ^ 63 -> - 2 ^ 63 <= n + m < 2 ^ 63 ->
     s2_CellID_AdvanceWrap (s2_CellID_AdvanceWrap c n) m = s2_CellID_AdvanceWrap c (n + m)) /\
  (forall n, - 2 ^ 63 <= n < 2 ^ 63 -> - 2 ^ 63 <= n + 6 * 4 ^ l < 2 ^ 63 ->
     s2_CellID_AdvanceWrap c (n + 6 * 4 ^ l) = s2_CellID_AdvanceWrap c n).
Proof.
  intros c f l k H. destruct (AdvanceWrap_one c f l k H) as [A B]. split; [exact A|]. split; [exact B|]. split.
  - intros n m Hn Hm Hnm. exact (AdvanceWrap_compose c f l k n m H Hn Hm Hnm).
  - intros n Hn Hn'. exact (AdvanceWrap_periodic c f l k n H Hn Hn').
Qed.
Print Assumptions c01_advance_wrap_steps.

(** Advance (the clamped variant): index arithmetic saturating at the first cell of the level and at
    End(level), for every valid id and every int64 step count *)
Theorem c01_advance_is_clamped_index_plus_n : forall c f l k n, rep c f l k -> - 2 ^ 63 <= n < 2 ^ 63 ->
  s2_CellID_Advance c n = (2 * Z.max 0 (Z.min (6 * 4 ^ l) (index f l k + n)) + 1) * 4 ^ (30 - l) /\
  (0 <= index f l k + n < 6 * 4 ^ l ->
     s2_CellID_Advance c n = s2_CellID_AdvanceWrap c n /\
     rep (s2_CellID_Advance c n) ((index f l k + n) / 4 ^ l) l ((index f l k + n) mod 4 ^ l)) /\
  (index f l k + n <= 0 -> s2_CellID_Advance c n = 4 ^ (30 - l)) /\
  (6 * 4 ^ l <= index f l k + n -> s2_CellID_Advance c n = 6 * 2 ^ 61 + 4 ^ (30 - l)).
Proof.
  intros c f l k n H Hn. split; [exact (Advance_index c f l k n H Hn)|].
  split; [exact (Advance_in_range c f l k n H Hn)|exact (Advance_saturates c f l k n H Hn)].
Qed.
Print Assumptions c01_advance_is_clamped_index_plus_n.

Theorem c01_advance_steps : forall c f l k, rep c f l k ->
  s2_CellID_Advance c 1 = s2_CellID_Next c /\
  (0 < index f l k -> s2_CellID_Advance c (-1) = s2_CellID_Prev c) /\
  (forall n m, - 2 ^ 63 <= n < 2 ^ 63 -> - 2 ^ 63 <= m < 2 ^ 63 -> n <= m ->
     s2_CellID_Advance c n <= s2_CellID_Advance c m) /\
  (forall n m, - 2 ^ 63 <= n < 2 ^ 63 -> - 2 ^ 63 <= m < 2 ^ 63 -> - 2 ^ 63 <= n + m < 2 ^ 63 ->
     0 <= index f l k + n < 6 * 4 ^ l ->
     s2_CellID_Advance (s2_CellID_Advance c n) m = s2_CellID_Advance c (n + m)).
Proof.
  intros c f l k H. destruct (Advance_one c f l k H) as [A B]. split; [exact A|]. split; [exact B|]. split.
  - intros n m Hn Hm Hnm. exact (Advance_monotone c f l k n m H Hn Hm Hnm).
  - intros n m Hn Hm Hnm Hi. exact (Advance_compose c f l k n m H Hn Hm Hnm Hi).
Qed.
Print Assumptions c01_advance_steps.

Theorem c01_descendants_enumerated : forall c f l k L, rep c f l k -> l <= L <= 30 ->
  (forall n : nat, Z.of_nat n <= 4 ^ (L - l) ->
     iter_next n (s2_CellID_ChildBeginAtLevel c L) = descendant c l L (Z.of_nat n)) /\
  (forall m, 0 <= m < 4 ^ (L - l) ->
     rep (descendant c l L m) f L (k * 4 ^ (L - l) + m) /\ s2_CellID_Parent (descendant c l L m) l = c /\
     descendant c l L m < s2_CellID_ChildEndAtLevel c L) /\
  descendant c l L (4 ^ (L - l)) = s2_CellID_ChildEndAtLevel c L.
Proof.
  intros c f l k L H HL. split; [exact (iterate_descendants c f l k L H HL)|]. split.
  - intros m Hm. split; [exact (descendant_rep c f l k L m H HL Hm)|].
    split; [exact (descendant_parent c f l k L m H HL Hm)|].
    exact (proj2 (iterate_reaches_end c f l k L H HL) m Hm).
  - exact (proj1 (iterate_reaches_end c f l k L H HL)).
Qed.
Print Assumptions c01_descendants_enumerated.

Theorem c01_distance_from_begin_is_index : forall c f l k, rep c f l k ->
  s2_CellID_distanceFromBegin c = index f l k.
Proof. exact distanceFromBegin_index. Qed.
Print Assumptions c01_distance_from_begin_is_index.

(** Hilbert continuity (closed): consecutive cells of a level on one face are exactly one step apart in
    the (i,j) grid of that level (they share an edge); the last cell of a face and the first cell of
    the next face share an edge in the integer cube model ([share_edge]: two distinct common corners
    under the exact linear face frames of faceUVToXYZ). *)
Theorem c01_hilbert_continuity : forall c f l k, rep c f l k -> k + 1 < 4 ^ l ->
  exists i j o i' j' o',
    s2_CellID_faceIJOrientation c = (f, i, j, o) /\
    s2_CellID_faceIJOrientation (s2_CellID_Next c) = (f, i', j', o') /\
    rep (s2_CellID_Next c) f l (k + 1) /\
    Z.abs (i / 2 ^ (30 - l) - i' / 2 ^ (30 - l)) + Z.abs (j / 2 ^ (30 - l) - j' / 2 ^ (30 - l)) = 1.
Proof. exact hilbert_continuity. Qed.
Print Assumptions c01_hilbert_continuity.

Theorem c01_hilbert_face_to_face : forall c f l, rep c f l (4 ^ l - 1) ->
  exists i j o i' j' o',
    s2_CellID_faceIJOrientation c = (f, i, j, o) /\
    s2_CellID_faceIJOrientation (s2_CellID_NextWrap c) = ((f + 1) mod 6, i', j', o') /\
    rep (s2_CellID_NextWrap c) ((f + 1) mod 6) l 0 /\
    share_edge (2 ^ l) f (i / 2 ^ (30 - l)) (j / 2 ^ (30 - l)) ((f + 1) mod 6) (i' / 2 ^ (30 - l)) (j' / 2 ^ (30 - l)).
Proof. exact face_to_face. Qed.
Print Assumptions c01_hilbert_face_to_face.

(** neighbours, same-face part.  [at_pos c f l a b]: c is the valid level-l cell of face f at grid
    position (a,b) (faceIJOrientation c returns a leaf inside that square).  EdgeNeighbors calls
    cellIDFromFaceIJWrap (a float round trip) even inside the face; [c01_wrap_inside] shows that
    for 0 <= i,j < 2^30 that function IS cellIDFromFaceIJ (every float operation on the path is
    exact), so the EdgeNeighbors theorems are closed.
    H-WRAP on the 24 face sides is closed below ([c01_wrap_face_sides*]): one step outside a side, the
    wrap function returns the explicit leaf [target side f t] of the neighbouring face, which shares an
    edge with the boundary leaf in the integer cube model.
    TODO (not closed): coordinates outside BOTH ranges (beyond a cube corner; used by the diagonal entries
    of VertexNeighbors/AllNeighbors at cube corners) and lifting the leaf-level side theorem to the
    grid position of cross-face EdgeNeighbors/AllNeighbors entries at coarser levels — covered by [S]
    against the cube model on every run. *)
Theorem c01_wrap_inside : forall f i j, 0 <= f < 6 -> 0 <= i < 2 ^ 30 -> 0 <= j < 2 ^ 30 ->
  s2_cellIDFromFaceIJWrap f i j = s2_cellIDFromFaceIJ f i j.
Proof. exact wrap_inside. Qed.
Print Assumptions c01_wrap_inside.

Theorem c01_edge_neighbors_same_face : forall c f l a b, at_pos c f l a b ->
  exists n0 n1 n2 n3, s2_CellID_EdgeNeighbors c = [n0; n1; n2; n3] /\
    (0 <= b - 1 -> at_pos n0 f l a (b - 1)) /\ (a + 1 < 2 ^ l -> at_pos n1 f l (a + 1) b) /\
    (b + 1 < 2 ^ l -> at_pos n2 f l a (b + 1)) /\ (0 <= a - 1 -> at_pos n3 f l (a - 1) b).
Proof. exact (EdgeNeighbors_same_face wrap_inside). Qed.
Print Assumptions c01_edge_neighbors_same_face.

Theorem c01_edge_neighbors_interior : forall c f l a b, at_pos c f l a b ->
  1 <= a -> a + 1 < 2 ^ l -> 1 <= b -> b + 1 < 2 ^ l ->
  exists n0 n1 n2 n3, s2_CellID_EdgeNeighbors c = [n0; n1; n2; n3] /\
    at_pos n0 f l a (b - 1) /\ at_pos n1 f l (a + 1) b /\ at_pos n2 f l a (b + 1) /\ at_pos n3 f l (a - 1) b /\
    NoDup [n0; n1; n2; n3] /\
    (forall n, In n [n0; n1; n2; n3] -> s2_CellID_Level n = l /\ s2_CellID_IsValid n = true /\
       n <> c /\ s2_CellID_Intersects c n = false).
Proof. exact (EdgeNeighbors_interior wrap_inside). Qed.
Print Assumptions c01_edge_neighbors_interior.

(** every valid cell has a grid position, the position determines the cell, and the level-l ancestor
    of the leaf at (i,j) is the cell at (i / 2^(30-l), j / 2^(30-l)) (closed) *)
Theorem c01_grid_positions : 
  (forall c f l k, rep c f l k -> exists a b, at_pos c f l a b) /\
  (forall c c' f l a b, at_pos c f l a b -> at_pos c' f l a b -> c = c') /\
  (forall f i j l, 0 <= f < 6 -> 0 <= i < 2 ^ 30 -> 0 <= j < 2 ^ 30 -> 0 <= l <= 30 ->
     at_pos (s2_CellID_Parent (s2_cellIDFromFaceIJ f i j) l) f l (i / 2 ^ (30 - l)) (j / 2 ^ (30 - l))) /\
  (forall c c' f l a b a' b', at_pos c f l a b -> at_pos c' f l a' b' -> (a, b) <> (a', b') ->
     c <> c' /\ s2_CellID_Intersects c c' = false).
Proof. split; [exact at_pos_of_rep|]. split; [exact at_pos_inj|]. split; [exact parent_of_leaf_at|exact at_pos_disjoint]. Qed.
Print Assumptions c01_grid_positions.

(** VertexNeighbors (hand model Model/CellIDNbr.v, compared with Go on every run), same-face part:
    when the vertex of the level-`level` ancestor chosen by the bits of the cell's leaf (i,j) is interior
    to the face, the four entries are the ancestor (which contains c) and the three cells of that level
    around the vertex: valid, of the requested level, pairwise distinct, at the stated grid positions (closed).
    [c01_vertex_neighbors_all_cases] below covers vertices on a face side and at cube corners.
    TODO: that the chosen vertex is the one closest to c (bit 30-level-1 of i,j <-> quadrant) and the
    grid position of cross-face entries (H-WRAP) — [S] complete-set oracle on every run. *)
Theorem c01_vertex_neighbors_same_face : forall c f l a b level, at_pos c f l a b -> 0 <= level < l ->
  exists i j o, s2_CellID_faceIJOrientation c = (f, i, j, o) /\
  let A := i / 2 ^ (30 - level) in let B := j / 2 ^ (30 - level) in
  let di := if negb (Z.land i (2 ^ (30 - (level + 1))) =? 0) then 1 else -1 in
  let dj := if negb (Z.land j (2 ^ (30 - (level + 1))) =? 0) then 1 else -1 in
  0 <= A + di < 2 ^ level -> 0 <= B + dj < 2 ^ level ->
  exists n0 n1 n2 n3, VertexNeighbors c level = [n0; n1; n2; n3] /\
    n0 = s2_CellID_Parent c level /\ s2_CellID_Contains n0 c = true /\
    at_pos n0 f level A B /\ at_pos n1 f level (A + di) B /\ at_pos n2 f level A (B + dj) /\
    at_pos n3 f level (A + di) (B + dj) /\ NoDup [n0; n1; n2; n3].
Proof. exact VertexNeighbors_same_face. Qed.
Print Assumptions c01_vertex_neighbors_same_face.

(** AllNeighbors (hand model Model/CellIDNbr.v, compared with Go on every run): the loop terminates
    with the documented 4 * (size / nbrSize) + 4 entries, for every valid cell and level >= its level.
    Per entry ([c01_all_neighbors_entries], closed): EVERY returned cell (same-face or wrapped) is a valid
    cell of the requested level; its leaf coordinates (i',j') lie on the ring around the cell's square
    (within one neighbour size, not inside the square), and whenever they are on the cell's face the entry
    is the cell at grid position (i'/nbrSize, j'/nbrSize) and does not intersect c.
    TODO (not closed): grid position of the wrapped (cross-face) entries on the neighbouring face (H-WRAP);
    checked by [S] (complete-set oracle against the cube model) on every run. *)
Theorem c01_all_neighbors_count : forall c f l k level, rep c f l k -> l <= level <= 30 ->
  length (AllNeighbors c level) = Z.to_nat (4 * 2 ^ (level - l) + 4).
Proof. exact AllNeighbors_count. Qed.
Print Assumptions c01_all_neighbors_count.

Theorem c01_all_neighbors_entries : forall c f l a b level, at_pos c f l a b -> l <= level <= 30 ->
  Forall (nbr_ok c f l a b level) (AllNeighbors c level).
Proof. exact AllNeighbors_entries. Qed.
Print Assumptions c01_all_neighbors_entries.

(** cellIDFromFaceIJWrap returns a valid leaf for every (f,i,j) (closed) *)
Theorem c01_wrap_always_valid_leaf : forall f i j, exists f' k, rep (s2_cellIDFromFaceIJWrap f i j) f' 30 k.
Proof. exact wrap_valid. Qed.
Print Assumptions c01_wrap_always_valid_leaf.

(** VertexNeighbors in all cases: vertex interior to the face, on a face side (one of isame/jsame false) or
    at a cube corner (both false: exactly three entries).  Every entry is a valid cell of the requested
    level; the first is the ancestor (contains c); the entries whose position stays on the face are at
    (A+di,B), (A,B+dj), (A+di,B+dj). *)
Theorem c01_vertex_neighbors_all_cases : forall c f l a b level, at_pos c f l a b -> 0 <= level < l ->
  exists i j o, s2_CellID_faceIJOrientation c = (f, i, j, o) /\
  let A := i / 2 ^ (30 - level) in let B := j / 2 ^ (30 - level) in
  let di := if negb (Z.land i (2 ^ (30 - (level + 1))) =? 0) then 1 else -1 in
  let dj := if negb (Z.land j (2 ^ (30 - (level + 1))) =? 0) then 1 else -1 in
  let isame := (0 <=? A + di) && (A + di <? 2 ^ level) in
  let jsame := (0 <=? B + dj) && (B + dj <? 2 ^ level) in
  exists n0 n1 n2 rest, VertexNeighbors c level = n0 :: n1 :: n2 :: rest /\
    (if isame || jsame then exists n3, rest = [n3] /\ (exists f' k', rep n3 f' level k') /\
                                       (isame && jsame = true -> at_pos n3 f level (A + di) (B + dj))
     else rest = []) /\
    n0 = s2_CellID_Parent c level /\ s2_CellID_Contains n0 c = true /\ at_pos n0 f level A B /\
    (exists f' k', rep n1 f' level k') /\ (exists f' k', rep n2 f' level k') /\
    (isame = true -> at_pos n1 f level (A + di) B) /\ (jsame = true -> at_pos n2 f level A (B + dj)).
Proof. exact VertexNeighbors_general. Qed.
Print Assumptions c01_vertex_neighbors_all_cases.

(** H-WRAP, face sides (closed).  side 0: i = -1, 1: i = 2^30, 2: j = -1, 3: j = 2^30; t = offset along
    the side; [target side f t] = (g, i', j') is an explicit table (Proofs/C01_WrapSide.v); [inside side t]
    is the boundary leaf on face f.  The float path is NOT exact here (division by nextafter(1,2)); the
    proof brackets every intermediate value between representable dyadics (monotonicity of rounding only). *)
Theorem c01_wrap_face_sides : forall f t, 0 <= f < 6 -> 0 <= t < 2 ^ 30 ->
  s2_cellIDFromFaceIJWrap f (-1) t = (let '(g, i', j') := target 0 f t in s2_cellIDFromFaceIJ g i' j') /\
  s2_cellIDFromFaceIJWrap f 1073741824 t = (let '(g, i', j') := target 1 f t in s2_cellIDFromFaceIJ g i' j') /\
  s2_cellIDFromFaceIJWrap f t (-1) = (let '(g, i', j') := target 2 f t in s2_cellIDFromFaceIJ g i' j') /\
  s2_cellIDFromFaceIJWrap f t 1073741824 = (let '(g, i', j') := target 3 f t in s2_cellIDFromFaceIJ g i' j').
Proof. exact wrap_sides. Qed.
Print Assumptions c01_wrap_face_sides.

Theorem c01_wrap_face_sides_target_adjacent : forall side f t, 0 <= side < 4 -> 0 <= f < 6 -> 0 <= t < 2 ^ 30 ->
  (let '(g, i', j') := target side f t in 0 <= g < 6 /\ g <> f /\ 0 <= i' < 2 ^ 30 /\ 0 <= j' < 2 ^ 30) /\
  (let '(ib, jb) := inside side t in let '(g, i', j') := target side f t in
   share_edge 1073741824 f ib jb g i' j').
Proof. intros side f t Hs Hf Ht. split; [exact (target_range side f t Hs Hf Ht)|exact (target_adjacent side f t Hs Hf Ht)]. Qed.
Print Assumptions c01_wrap_face_sides_target_adjacent.

(** points -------------------------------------------------------------------- *)
Theorem c01_point_leaf_is_valid : forall p, exists f k, 0 <= f < 6 /\ rep (s2_cellIDFromPoint p) f 30 k /\
  s2_CellID_IsValid (s2_cellIDFromPoint p) = true /\ s2_CellID_IsLeaf (s2_cellIDFromPoint p) = true /\
  s2_CellID_Level (s2_cellIDFromPoint p) = 30.
Proof. exact leaf_valid. Qed.
Print Assumptions c01_point_leaf_is_valid.

(** Full-strength statement "the leaf of every finite non-zero p contains p" is FALSE of the
    unchanged code (KNOWN finding Cell.ContainsPoint.leafMargin): witness by evaluation. *)
Theorem c01_leaf_contains_refuted : exists p,
  (fin (r3_Vector_X (s2_Point_Vector p)) /\ fin (r3_Vector_Y (s2_Point_Vector p)) /\ fin (r3_Vector_Z (s2_Point_Vector p))) /\
  s2_CellID_IsValid (s2_cellIDFromPoint p) = true /\
  s2_Cell_ContainsPoint (s2_CellFromCellID (s2_cellIDFromPoint p)) p = false.
Proof. exact leaf_contains_refuted. Qed.
Print Assumptions c01_leaf_contains_refuted.

(** its one-dimensional cause: a u in [-1,1] more than 2^-52 below the uv-interval of its own column *)
Theorem c01_uv_roundtrip_refuted : exists u, fin u /\
  PrimFloat.leb (-1)%float u = true /\ PrimFloat.leb u 1%float = true /\
  PrimFloat.leb (PrimFloat.sub (s2_stToUV (s2_ijToSTMin (s2_stToIJ (s2_uvToST u)))) uvMargin) u = false /\
  ~ uv_roundtrip_at u.
Proof. exact uv_roundtrip_refuted. Qed.
Print Assumptions c01_uv_roundtrip_refuted.

(** Positive theorem, with the round-trip bound as an explicit premise on the point:
    [H_FACEUV p]     the projection of p on its own face succeeds with |u|,|v| <= 1 (every finite non-zero p);
    [roundtrip_ok p] u and v lie within the code's margin (2^-52, float arithmetic as in
                     r1.Interval.Expanded) of the uv-interval of the leaf column they are assigned to. *)
Theorem c01_leaf_contains_point_if_roundtrip_ok : forall p, H_FACEUV p -> roundtrip_ok p ->
  s2_Cell_ContainsPoint (s2_CellFromCellID (s2_cellIDFromPoint p)) p = true.
Proof. exact leaf_contains. Qed.
Print Assumptions c01_leaf_contains_point_if_roundtrip_ok.

(** what a sufficient margin is: under [H_UVROUNDTRIP] (|stToUV(uvToST u) - u| <= 4.5 * 2^-52 on [-1,1])
    and [H_GRIDCELL] (the column's interval brackets stToUV(s)) — float64 arithmetic only — every u
    in [-1,1] is within any margin m >= 4.5 * 2^-52 of its own column's interval. *)
Theorem c01_margin_4p5_suffices_under_H : H_UVROUNDTRIP -> H_GRIDCELL -> forall m, fin m ->
  (9 / 2 / 4503599627370496 <= RV m <= 1)%R -> forall u, inR (-1) 1 u ->
  let i := s2_stToIJ (s2_uvToST u) in
  uv_within_m m (s2_stToUV (s2_ijToSTMin i)) (s2_stToUV (s2_ijToSTMin (i + 1))) u.
Proof. exact within_any_margin_ge_4p5. Qed.
Print Assumptions c01_margin_4p5_suffices_under_H.

(** stToUV is weakly monotone on [0,1] (closed; Proofs/StUV_Mono.v): the uv-interval of a
    grid column widens when the column does *)
Theorem c01_stToUV_monotone : forall x y, inR 0 1 x -> inR 0 1 y -> (RV x <= RV y)%R ->
  fle (s2_stToUV x) (s2_stToUV y).
Proof. exact stToUV_mono. Qed.
Print Assumptions c01_stToUV_monotone.

(** the premises are satisfiable *)
Example c01_rep_example : rep 3458764513820540928 1 0 0 /\ rep 1 0 30 0 /\ rep 13835058055282163711 5 30 (4 ^ 30 - 1).
Proof. repeat split; vm_compute; congruence. Qed.

Example c01_point_premises_example :
  H_FACEUV (mk_s2_Point (mk_r3_Vector 1 0 0)) /\ roundtrip_ok (mk_s2_Point (mk_r3_Vector 1 0 0)).
Proof. split; [exact H_FACEUV_example|exact (proj1 roundtrip_ok_example)]. Qed.
