(** C01 — Cell ids form a consistent, invertible quadtree along the Hilbert curve.
    Only statements; every proof is [exact] of a lemma in Proofs/. The functions named
    s2_* are the Gallina translations regenerated from /repo on every run (Gen.CellIDFull);
    s2_lookupPos/s2_lookupIJ are initLookupCell re-executed over the translated literal tables. *)
From Coq Require Import ZArith List Bool.
From Geo Require Import Base.GoPrim Gen.CellIDFull Model.CellIDTables Proofs.C01_Tables.
Local Open Scope Z_scope.

Theorem c01_lookup_tables_mutually_inverse : forall k, 0 <= k < 1024 ->
  pos_ij_inverse_at k = true /\ ij_pos_inverse_at k = true.
Proof. exact lookup_tables_inverse. Qed.
Print Assumptions c01_lookup_tables_mutually_inverse.
