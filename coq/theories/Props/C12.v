(** C12 — Cell geometry agrees with cell ids: containment, children, bounds, distances.
    Only statements; every proof is [exact] of a lemma in Proofs/C12_*.v.  Functions named
    s2_* / r2_* are the Gallina translations regenerated from /repo on every run
    (Gen/CellGeom.v, Gen/CellRect.v, Gen/CellIDFull.v and the shared units), including the
    table-driven faceIJOrientation / cellIDFromFaceIJ; cell_DistanceToEdge is the hand model
    of Model/CellGeom.v. *)
From Coq Require Import ZArith Reals List Bool Floats.
From Geo Require Import Base.GoPrim Base.F64 Base.F64Arith Gen.CellGeom Gen.CellRect Model.CellGeom
  Proofs.C12_Float Proofs.C12_Bridge Proofs.C12_Children Proofs.C12_Main Proofs.C12_Contain Proofs.C12_Dist Proofs.C12_Acc Proofs.C12_Bounds.
Import ListNotations.

(** * Subdivision = direct construction, bit for bit, for every non-leaf valid id *)
Theorem children_direct : forall c : Z, (0 <= c < 2 ^ 64)%Z ->
  s2_CellID_IsValid c = true -> s2_CellID_IsLeaf c = false ->
  s2_Cell_Children (s2_CellFromCellID c) = (map s2_CellFromCellID (s2_CellID_Children c), true).
Proof. exact C12_Main.children_direct. Qed.
Print Assumptions children_direct.

Theorem children_of_leaf_reports_false : forall c : Z, s2_CellID_IsLeaf c = true ->
  snd (s2_Cell_Children (s2_CellFromCellID c)) = false.
Proof. exact children_leaf. Qed.
Print Assumptions children_of_leaf_reports_false.

(** the translated table-driven decode is the level-by-level Hilbert recursion, for every uint64 id *)
Theorem faceIJOrientation_is_hilbert_recursion : forall ci : Z, (0 <= ci < 2 ^ 64)%Z ->
  s2_CellID_faceIJOrientation ci = Model.HilbertDecode.hd_faceIJOrientation ci.
Proof. exact faceIJOrientation_bridge. Qed.
Print Assumptions faceIJOrientation_is_hilbert_recursion.

(** the float fact behind it: centerUV's si/2^31 and the direct i/2^30 are the same float *)
Theorem pow2_div_exact : forall x : Z, (0 <= x <= 2 ^ 30)%Z ->
  PrimFloat.div (float_of_Z (2 * x)) (0x1p+31)%float = PrimFloat.div (float_of_Z x) (0x1p+30)%float.
Proof. exact C12_Float.pow2_div_exact. Qed.
Print Assumptions pow2_div_exact.

Theorem children_ids_tile_parent_range : forall c : Z, (0 <= c < 2 ^ 64)%Z ->
  s2_CellID_IsValid c = true -> s2_CellID_IsLeaf c = false ->
  exists c0 c1 c2 c3, s2_CellID_Children c = [c0; c1; c2; c3] /\
    Forall (fun x => s2_CellID_IsValid x = true /\ s2_CellID_Level x = (s2_CellID_Level c + 1)%Z) [c0; c1; c2; c3] /\
    s2_CellID_RangeMin c0 = s2_CellID_RangeMin c /\ s2_CellID_RangeMax c3 = s2_CellID_RangeMax c /\
    (s2_CellID_RangeMax c0 + 2 = s2_CellID_RangeMin c1)%Z /\ (s2_CellID_RangeMax c1 + 2 = s2_CellID_RangeMin c2)%Z /\
    (s2_CellID_RangeMax c2 + 2 = s2_CellID_RangeMin c3)%Z.
Proof. exact children_ids_tile. Qed.
Print Assumptions children_ids_tile_parent_range.

(** * Containment follows the id range: if the leaf cell l of a point lies in the id range of c
    and l's own uv test accepts the point, so does c's (closed; monotone uv bounds) *)
Theorem id_range_contains : forall (c l : Z) (p : s2_Point),
  (0 <= c < 2 ^ 64)%Z -> (0 <= l < 2 ^ 64)%Z ->
  s2_CellID_IsValid c = true -> s2_CellID_IsValid l = true -> s2_CellID_IsLeaf l = true ->
  s2_CellID_Contains c l = true ->
  s2_Cell_ContainsPoint (s2_CellFromCellID l) p = true ->
  s2_Cell_ContainsPoint (s2_CellFromCellID c) p = true.
Proof. exact C12_Contain.id_range_contains. Qed.
Print Assumptions id_range_contains.

(** one coordinate of the leaf premise from a real-arithmetic round-trip bound of dblEpsilon *)
Theorem leaf_interval_from_roundtrip : forall (i : Z) (u : PrimFloat.float), (0 <= i < 2 ^ 30)%Z -> fin u ->
  (RV (UV i) - RV eps <= RV u <= RV (UV (i + 1)) + RV eps)%R ->
  r1_Interval_IsEmpty (Exp (mk_r1_Interval (UV i) (UV (i + 1)))) = false /\
  r1_Interval_Contains (Exp (mk_r1_Interval (UV i) (UV (i + 1)))) u = true.
Proof. exact C12_Contain.leaf_interval_from_roundtrip. Qed.
Print Assumptions leaf_interval_from_roundtrip.

(** FINDING (Cell.ContainsPoint.leafMargin): the leaf premise fails for some unit points, i.e. the
    documented CellFromPoint(p).ContainsPoint(p) is false of the current code *)
Theorem leaf_contains_refuted :
  exists p, s2_CellID_IsValid (s2_cellIDFromPoint p) = true /\ s2_CellID_IsLeaf (s2_cellIDFromPoint p) = true /\
    s2_Cell_ContainsPoint (s2_CellFromCellID (s2_cellIDFromPoint p)) p = false.
Proof. exact C12_Contain.leaf_contains_refuted. Qed.
Print Assumptions leaf_contains_refuted.

(** * Distances: decision structure (closed) *)
Theorem distance_zero_when_uv_test_says_inside : forall c p, uv_inside c p = true -> s2_Cell_Distance c p = 0%float.
Proof. exact distance_zero_inside. Qed.
Print Assumptions distance_zero_when_uv_test_says_inside.

Theorem distance_is_zero_edge_or_vertex_distance : forall c p b,
  di_shape c (uvw_of c p) (s2_Cell_distanceInternal c p b).
Proof. exact distanceInternal_cases. Qed.
Print Assumptions distance_is_zero_edge_or_vertex_distance.

Theorem maxdistance_within_90_is_farthest_vertex : forall c p,
  PrimFloat.leb (vertex_max c (uvw_of c p)) (0x1p+01)%float = true ->
  s2_Cell_MaxDistance c p = vertex_max c (uvw_of c p).
Proof. exact maxdistance_near. Qed.
Print Assumptions maxdistance_within_90_is_farthest_vertex.

Theorem maxdistance_beyond_90_is_straight_minus_antipodal_distance : forall c p,
  PrimFloat.leb (vertex_max c (uvw_of c p)) (0x1p+01)%float = false ->
  s2_Cell_MaxDistance c p = PrimFloat.sub (0x1p+02)%float (s2_Cell_Distance c (point_neg p)).
Proof. exact maxdistance_antipode. Qed.
Print Assumptions maxdistance_beyond_90_is_straight_minus_antipodal_distance.

Theorem distancetocell_zero_for_overlapping_same_face : forall a b,
  s2_Cell_face a = s2_Cell_face b -> r2_Rect_Intersects (s2_Cell_uv a) (s2_Cell_uv b) = true ->
  s2_Cell_DistanceToCell a b = 0%float.
Proof. exact distancetocell_overlap. Qed.
Print Assumptions distancetocell_zero_for_overlapping_same_face.

Theorem maxdistancetocell_straight_when_antipode_overlaps : forall a b,
  wrap_i64 (s2_Cell_face a) = s2_oppositeFace (wrap_i64 (s2_Cell_face b)) ->
  r2_Rect_Intersects (s2_Cell_uv a) (mk_r2_Rect (r2_Rect_Y (s2_Cell_uv b)) (r2_Rect_X (s2_Cell_uv b))) = true ->
  s2_Cell_MaxDistanceToCell a b = (0x1p+02)%float.
Proof. exact maxdistancetocell_antipodal. Qed.
Print Assumptions maxdistancetocell_straight_when_antipode_overlaps.

Theorem distancetoedge_zero_when_edge_crosses : forall c a b,
  PrimFloat.eqb (s2_minChordAngle (s2_Cell_Distance c a) [s2_Cell_Distance c b]) 0 = false ->
  cell_DistanceToEdge true c a b = 0%float.
Proof. exact distancetoedge_zero_cross. Qed.
Print Assumptions distancetoedge_zero_when_edge_crosses.

(** history: the pre-5dba006 edgeDistance returned NaN where the current one does not *)
Theorem edgeDistance_old_refuted :
  exists ij uv, go_isnan (edgeDistance_old ij uv) = true /\ go_isnan (s2_edgeDistance ij uv) = false.
Proof. exact C12_Dist.edgeDistance_old_refuted. Qed.
Print Assumptions edgeDistance_old_refuted.

(** * Distances are true bounds that are attained — under H_CELLDIST *)
Theorem distance_is_lower_bound_under_H : forall (err : R -> R) (covered : s2_Cell -> s2_Point -> Prop),
  H_CELLDIST err covered -> forall c p u q, covered c p -> dir p u -> in_cell c q ->
  (RV (s2_Cell_Distance c p) - err (RV (s2_Cell_Distance c p)) <= chord2 q u)%R.
Proof. exact distance_is_lower_bound. Qed.
Print Assumptions distance_is_lower_bound_under_H.

Theorem distance_is_attained_under_H : forall (err : R -> R) (covered : s2_Cell -> s2_Point -> Prop),
  H_CELLDIST err covered -> forall c p u, covered c p -> dir p u ->
  exists q, in_cell c q /\ (chord2 q u <= RV (s2_Cell_Distance c p) + err (RV (s2_Cell_Distance c p)))%R.
Proof. exact distance_is_attained. Qed.
Print Assumptions distance_is_attained_under_H.

Theorem distance_small_when_target_in_cell_under_H : forall (err : R -> R) (covered : s2_Cell -> s2_Point -> Prop),
  H_CELLDIST err covered -> forall c p u, covered c p -> dir p u -> in_cell c u ->
  (RV (s2_Cell_Distance c p) <= err (RV (s2_Cell_Distance c p)))%R.
Proof. exact distance_small_when_in_cell. Qed.
Print Assumptions distance_small_when_target_in_cell_under_H.

Theorem maxdistance_is_upper_bound_under_H : forall (err : R -> R) (covered : s2_Cell -> s2_Point -> Prop),
  (forall c p, covered c p -> covered c (point_neg p)) ->
  (forall c p, covered c p -> fin (r3_Vector_X (s2_Point_Vector p)) /\ fin (r3_Vector_Y (s2_Point_Vector p)) /\ fin (r3_Vector_Z (s2_Point_Vector p))) ->
  H_CELLDIST err covered -> forall c p u q, covered c p -> dir p u -> in_cell c q ->
  PrimFloat.leb (vertex_max c (uvw_of c p)) (0x1p+01)%float = false ->
  let d := s2_Cell_Distance c (point_neg p) in
  RV (s2_Cell_MaxDistance c p) = rnd (4 - RV d) /\ (chord2 q u <= (4 - RV d) + err (RV d))%R.
Proof. exact maxdistance_far_is_upper_bound. Qed.
Print Assumptions maxdistance_is_upper_bound_under_H.

Theorem maxdistance_is_attained_under_H : forall (err : R -> R) (covered : s2_Cell -> s2_Point -> Prop),
  (forall c p, covered c p -> covered c (point_neg p)) ->
  (forall c p, covered c p -> fin (r3_Vector_X (s2_Point_Vector p)) /\ fin (r3_Vector_Y (s2_Point_Vector p)) /\ fin (r3_Vector_Z (s2_Point_Vector p))) ->
  H_CELLDIST err covered -> forall c p u, covered c p -> dir p u ->
  let d := s2_Cell_Distance c (point_neg p) in
  exists q, in_cell c q /\ ((4 - RV d) - err (RV d) <= chord2 q u)%R.
Proof. exact maxdistance_far_is_attained. Qed.
Print Assumptions maxdistance_is_attained_under_H.

(** * Bounding cap *)
Theorem capbound_radius_covers_all_four_vertices : forall c,
  nonnan (vdist c 0) -> nonnan (vdist c 1) -> nonnan (vdist c 2) -> nonnan (vdist c 3) ->
  s2_Cap_center (s2_Cell_CapBound c) = cap_axis c /\
  nonnan (s2_Cap_radius (s2_Cell_CapBound c)) /\
  forall k, (0 <= k < 4)%Z -> PrimFloat.ltb (s2_Cap_radius (s2_Cell_CapBound c)) (vdist c k) = false.
Proof. exact capbound_covers_vertices. Qed.
Print Assumptions capbound_radius_covers_all_four_vertices.

Theorem capbound_contains_cell_under_H : forall cap_err vert_err : R,
  H_CAPARITH cap_err -> H_VERTEX_EXTREME vert_err -> forall c q ua,
  (forall k, (0 <= k < 4)%Z -> exists uv, dir (s2_Cell_Vertex c k) uv) ->
  in_cell c q -> dir (cap_axis c) ua ->
  s2_Cap_center (s2_Cell_CapBound c) = cap_axis c /\
  (chord2 q ua <= rank (s2_Cap_radius (s2_Cell_CapBound c)) + cap_err + vert_err)%R.
Proof. exact capbound_contains_cell. Qed.
Print Assumptions capbound_contains_cell_under_H.
