(** C03 — Edge-crossing tests are exact, symmetric and independent of traversal state.
    Only statements; proofs are in Proofs/C03_*.v.

    The orientation predicate is an INTERFACE: [point], [peq] (Go ==), [sign] (RobustSign),
    [triage] (triageSign), [tangent] (the outward-tangent early exit of crossingSign) and
    [refdir] (Point.referenceDir) are universally quantified, and the laws of Model/Crosser.v
    ([law_*]) they must satisfy are explicit premises.  They are discharged by the C02 theorems
    for the translated predicates when the branches are merged ([law_triage_sound] under
    H-TRIAGE-DET, [law_tangent_sound] is H-TANGENT). *)
From Coq Require Import ZArith List Bool.
From Geo Require Import Model.Crosser Proofs.C03_Crosser Proofs.C03_Vertex Proofs.C03_Extra.
From Geo Require Import Proofs.C02_Float Proofs.Link_C02_C03 Proofs.C03_Cyclic Proofs.Link_C02_C03_Cyclic.
Import ListNotations.
Local Open Scope Z_scope.

(** The crossing specification (four-orientation criterion on the exact perturbed signs)
    is the same when either edge is reversed or the two edges are swapped. *)
Theorem crossing_symmetric : forall point peq sign,
  law_peq_sym point peq -> law_sign_rotate point sign -> law_sign_swap point sign ->
  forall a b c d,
    crossing_spec point peq sign b a c d = crossing_spec point peq sign a b c d /\
    crossing_spec point peq sign a b d c = crossing_spec point peq sign a b c d /\
    crossing_spec point peq sign c d a b = crossing_spec point peq sign a b c d.
Proof. exact crossing_spec_sym. Qed.
Print Assumptions crossing_symmetric.

(** 'maybe' exactly when a vertex of one edge equals a vertex of the other (for all inputs,
    degenerate edges included). *)
Theorem maybe_iff_shared_endpoint : forall point peq sign a b c d,
  crossing_spec point peq sign a b c d = MaybeCross <->
  (peq a c = true \/ peq a d = true \/ peq b c = true \/ peq b d = true).
Proof. intros point peq sign. exact (maybe_iff_shared_vertex point peq sign (fun p => p)). Qed.
Print Assumptions maybe_iff_shared_endpoint.

(** Cross exactly when the four exact orientations ACB, CBD, BDA, DAC agree (and are non-zero);
    a degenerate edge never crosses. *)
Theorem cross_iff_orientations_agree : forall point peq sign,
  law_peq_sym point peq -> law_sign_zero_iff point peq sign ->
  forall a b c d,
    crossing_spec point peq sign a b c d = Cross <->
    (sign a c b = sign c b d /\ sign a c b = sign b d a /\ sign a c b = sign d a c /\ sign a c b <> 0).
Proof. exact cross_iff_four_agree. Qed.
Print Assumptions cross_iff_orientations_agree.

Theorem degenerate_edge_never_crosses : forall point peq sign a b c d,
  peq a b = true \/ peq c d = true -> crossing_spec point peq sign a b c d <> Cross.
Proof. exact degenerate_never_cross. Qed.
Print Assumptions degenerate_edge_never_crosses.

(** The stateless CrossingSign / EdgeOrVertexCrossing decide exactly the specification. *)
Theorem crossing_sign_exact : forall point peq sign triage tangent,
  law_peq_sym point peq -> law_sign_rotate point sign -> law_sign_swap point sign ->
  law_sign_zero_iff point peq sign -> law_triage_sound point sign triage ->
  law_tangent_sound point peq sign tangent ->
  forall a b c d,
    crossing_sign point peq sign triage tangent a b c d = crossing_spec point peq sign a b c d.
Proof. exact stateless_eq. Qed.
Print Assumptions crossing_sign_exact.

(** The incremental crosser: for every fixed edge and EVERY list of operations (RestartAt,
    ChainCrossingSign, CrossingSign, EdgeOrVertexCrossing, EdgeOrVertexChainCrossing in any
    order), after each call the cached vertex is the abstract last vertex of the chain and the
    output is the specification on (a, b, last vertex, d). *)
Theorem crosser_refines_spec : forall point peq sign triage tangent refdir,
  law_peq_sym point peq -> law_sign_rotate point sign -> law_sign_swap point sign ->
  law_sign_zero_iff point peq sign -> law_triage_sound point sign triage ->
  law_tangent_sound point peq sign tangent ->
  forall a b c0 ops,
    map (fun x => (st_c point (fst x), snd x))
        (run point peq sign triage tangent refdir a b (init point c0) ops) =
    spec_run point peq sign refdir a b c0 ops.
Proof. exact crosser_refines. Qed.
Print Assumptions crosser_refines_spec.

(** ... and therefore the same answer as the stateless functions on the same four points. *)
Theorem crosser_equals_stateless : forall point peq sign triage tangent refdir,
  law_peq_sym point peq -> law_sign_rotate point sign -> law_sign_swap point sign ->
  law_sign_zero_iff point peq sign -> law_triage_sound point sign triage ->
  law_tangent_sound point peq sign tangent ->
  forall a b c0 ops,
    map (fun x => (st_c point (fst x), snd x))
        (run point peq sign triage tangent refdir a b (init point c0) ops) =
    stateless_run point peq sign triage tangent refdir a b c0 ops.
Proof. exact crosser_eq_stateless. Qed.
Print Assumptions crosser_equals_stateless.

(** The cached orientation is, after every step of every history, 0 or the exact one. *)
Theorem crosser_cache_invariant : forall point peq sign triage tangent refdir,
  law_peq_sym point peq -> law_sign_rotate point sign -> law_sign_swap point sign ->
  law_sign_zero_iff point peq sign -> law_triage_sound point sign triage ->
  law_tangent_sound point peq sign tangent ->
  forall a b c0 ops,
    Forall (fun x => st_acb point (fst x) = 0 \/ st_acb point (fst x) = - sign a b (st_c point (fst x)))
           (run point peq sign triage tangent refdir a b (init point c0) ops).
Proof.
  intros point peq sign triage tangent refdir H1 H2 H3 H4 H5 H6 a b c0 ops.
  exact (proj2 (run_refines point peq sign triage tangent refdir H1 H2 H3 H4 H5 H6 a b ops
                  (init point c0) (or_introl eq_refl))).
Qed.
Print Assumptions crosser_cache_invariant.

(** VertexCrossing: properties (1)-(3) of edge_crossings.go. *)
Theorem vertex_crossing_degenerate : forall point peq sign refdir,
  law_peq_refl point peq ->
  forall a b c d,
    vertex_crossing point peq sign refdir a a c d = false /\
    vertex_crossing point peq sign refdir a b c c = false.
Proof.
  intros point peq sign refdir H a b c d.
  split; [exact (vc_degenerate_ab point peq sign refdir H a c d)
         | exact (vc_degenerate_cd point peq sign refdir H a b c)].
Qed.
Print Assumptions vertex_crossing_degenerate.

Theorem vertex_crossing_same_edge : forall point peq sign refdir,
  law_peq_refl point peq -> law_peq_sym point peq ->
  forall a b, peq a b = false ->
    vertex_crossing point peq sign refdir a b a b = true /\
    vertex_crossing point peq sign refdir a b b a = true.
Proof.
  intros point peq sign refdir H1 H2 a b H.
  split; [exact (vc_same point peq sign refdir H1 a b H)
         | exact (vc_reversed point peq sign refdir H1 H2 a b H)].
Qed.
Print Assumptions vertex_crossing_same_edge.

Theorem vertex_crossing_reversal_invariant : forall point peq sign refdir,
  law_peq_sym point peq -> law_peq_trans point peq ->
  forall a b c d,
    vertex_crossing point peq sign refdir a b d c = vertex_crossing point peq sign refdir a b c d /\
    vertex_crossing point peq sign refdir b a c d = vertex_crossing point peq sign refdir a b c d /\
    vertex_crossing point peq sign refdir b a d c = vertex_crossing point peq sign refdir a b c d.
Proof.
  intros point peq sign refdir H1 H2 a b c d.
  split; [exact (vc_reverse_cd point peq sign refdir H1 H2 a b c d)|].
  split; [exact (vc_reverse_ab point peq sign refdir H1 H2 a b c d)
         | exact (vc_reverse_both point peq sign refdir H1 H2 a b c d)].
Qed.
Print Assumptions vertex_crossing_reversal_invariant.

(** (4) two edges that meet at exactly one vertex o: exactly one of VC(AB,CD), VC(CD,AB) is true
    (o in first/first, second/second and first/second position). *)
Theorem vertex_crossing_exactly_one : forall point peq sign refdir,
  law_peq_refl point peq -> law_peq_sym point peq -> law_sign_swap point sign ->
  law_sign_range point sign -> law_sign_zero_iff point peq sign ->
  forall o x y, peq o x = false -> peq o y = false -> peq x y = false ->
    vertex_crossing point peq sign refdir o x o y = negb (vertex_crossing point peq sign refdir o y o x) /\
    vertex_crossing point peq sign refdir x o y o = negb (vertex_crossing point peq sign refdir y o x o) /\
    vertex_crossing point peq sign refdir o x y o = negb (vertex_crossing point peq sign refdir y o o x).
Proof.
  intros point peq sign refdir H1 H2 H3 H4 H5 o x y Hx Hy Hxy.
  assert (Hx' : peq x o = false) by (rewrite <- (H2 o x); exact Hx).
  assert (Hy' : peq y o = false) by (rewrite <- (H2 o y); exact Hy).
  split; [exact (vc_one_ac point peq sign refdir H1 H2 H3 H4 H5 o x y Hx Hy Hxy)|].
  split; [exact (vc_one_bd point peq sign refdir H1 H2 H3 H4 H5 o x y Hx' Hy' Hxy)
         | exact (vc_one_ad point peq sign refdir H1 H2 H3 H4 H5 o x y Hx Hy' Hxy)].
Qed.
Print Assumptions vertex_crossing_exactly_one.

(** AngleContainsVertex properties (1) and (2): of the two angles ABC and CBA at a vertex
    exactly one contains the vertex. *)
Theorem angle_contains_vertex_laws : forall point peq sign refdir,
  law_peq_refl point peq -> law_peq_sym point peq -> law_sign_swap point sign ->
  law_sign_range point sign -> law_sign_zero_iff point peq sign ->
  forall a b c,
    angle_contains_vertex point sign refdir a b a = false /\
    (peq a b = false -> peq c b = false -> peq a c = false ->
     angle_contains_vertex point sign refdir a b c = negb (angle_contains_vertex point sign refdir c b a)).
Proof.
  intros point peq sign refdir H1 H2 H3 H4 H5 a b c.
  split; [exact (acv_aba point peq sign refdir H1 H3 H5 a b)
         | exact (acv_flip point peq sign refdir H2 H3 H4 H5 a b c)].
Qed.
Print Assumptions angle_contains_vertex_laws.

(** A two-argument call whose first vertex is == to the cached one does not restart; the cached
    vertex (possibly other +-0 bits) then answers exactly like the argument.  With
    [crosser_refines_spec] / [crosser_equals_stateless]: every call answers like the stateless
    function on the four points the caller passed. *)
Theorem crosser_argument_vertex : forall point peq sign refdir,
  law_peq_sym point peq -> law_peq_trans point peq -> law_sign_rotate point sign ->
  law_sign_peq point peq sign ->
  forall a b p c d,
    crossing_spec point peq sign a b (eff point peq p c) d = crossing_spec point peq sign a b c d /\
    eov_spec point peq sign refdir a b (eff point peq p c) d = eov_spec point peq sign refdir a b c d.
Proof. exact eff_irrelevant. Qed.
Print Assumptions crosser_argument_vertex.

(** AngleContainsVertex property (3): for vertices v_1 .. v_k (k >= 2) listed in CCW order around
    o, AngleContainsVertex(v_{i+1}, o, v_i) is true for exactly one i (cyclically): of the
    polygons tiling the neighbourhood of a vertex exactly one contains it. *)
Theorem angle_contains_vertex_exactly_one : forall point peq sign refdir,
  law_peq_sym point peq -> law_sign_swap point sign -> law_sign_range point sign ->
  law_sign_zero_iff point peq sign -> law_occw_split point peq sign ->
  forall o u v l, ccw_listed point peq sign o (u :: v :: l) ->
    open_count point sign refdir o (u :: v :: l) + wedge point sign refdir o (last l v) u = 1.
Proof. exact acv_exactly_one_wedge. Qed.
Print Assumptions angle_contains_vertex_exactly_one.

(** The interface laws are jointly satisfiable (a concrete non-trivial instance). *)
Theorem interface_laws_satisfiable :
  let point := Instance.point in let peq := Instance.peq in let sign := Instance.sign in
  let triage := Instance.triage in let tangent := Instance.tangent in
    law_peq_refl point peq /\ law_peq_sym point peq /\ law_peq_trans point peq /\
    law_sign_rotate point sign /\ law_sign_swap point sign /\ law_sign_range point sign /\
    law_sign_zero_iff point peq sign /\ law_sign_peq point peq sign /\
    law_triage_sound point sign triage /\ law_tangent_sound point peq sign tangent /\
    crossing_spec point peq sign 0 2 1 3 = Cross /\ crossing_spec point peq sign 0 1 2 3 = DoNotCross.
Proof. exact laws_satisfiable. Qed.
Print Assumptions interface_laws_satisfiable.

(** ------------------------------------------------------------------------------------------
    THE INTERFACE INSTANTIATED WITH THE REAL PREDICATES (Proofs/Link_C02_C03.v):
    [upoint] = s2_Point with finite coordinates and | |p|^2 - 1 | <= 2^-44 (implied by IsUnit),
    [u_peq] = Go ==, [u_sign] = RobustSign (Model/Pred.v robust_sign), [u_triage] = the translated
    triageSign, [u_tangent_raw] = the float tangent test of NewEdgeCrosser/crossingSign exactly as
    the code computes it.
    The interface laws are discharged from the C02 theorems (H-TRIAGE-DET and H-STABLE-DET are
    closed C02 theorems now); what remains as a premise:
    [H_TANGENT]: for a fixed edge AB whose endpoints are not EXACTLY antipodal
    ([u_antipodal a b = false], b == -a componentwise; such a pair is not a geodesic edge), the
    tangent early exit fires only when the exact criterion says "no crossing".
    The crosser theorems carry the same guard on the fixed edge; without it the statement is
    false ([tangent_exit_unguarded_refuted]). *)
Theorem tangent_hypothesis_is_the_guarded_statement : H_TANGENT <->
  (forall a b c d, u_antipodal a b = false -> u_tangent_raw a b c d = true ->
     shared upoint u_peq a b c d = false /\ four_agree upoint u_sign a b c d = false).
Proof. exact H_TANGENT_guarded_form. Qed.
Print Assumptions tangent_hypothesis_is_the_guarded_statement.

Theorem tangent_exit_unguarded_refuted : ~ law_tangent_sound upoint u_peq u_sign u_tangent_raw.
Proof. exact H_TANGENT_unguarded_refuted. Qed.
Print Assumptions tangent_exit_unguarded_refuted.

Theorem crossing_symmetric_real : forall a b c d,
  crossing_spec upoint u_peq u_sign b a c d = crossing_spec upoint u_peq u_sign a b c d /\
  crossing_spec upoint u_peq u_sign a b d c = crossing_spec upoint u_peq u_sign a b c d /\
  crossing_spec upoint u_peq u_sign c d a b = crossing_spec upoint u_peq u_sign a b c d.
Proof. exact crossing_symmetric_real_l. Qed.
Print Assumptions crossing_symmetric_real.

Theorem maybe_iff_shared_endpoint_real : forall a b c d,
  crossing_spec upoint u_peq u_sign a b c d = MaybeCross <->
  (u_peq a c = true \/ u_peq a d = true \/ u_peq b c = true \/ u_peq b d = true).
Proof. exact maybe_iff_shared_endpoint_real_l. Qed.
Print Assumptions maybe_iff_shared_endpoint_real.

Theorem crossing_sign_exact_real : H_TANGENT -> forall a b c d, u_antipodal a b = false ->
  crossing_sign upoint u_peq u_sign u_triage u_tangent_raw a b c d =
  crossing_spec upoint u_peq u_sign a b c d.
Proof. exact crossing_sign_exact_real_l. Qed.
Print Assumptions crossing_sign_exact_real.

Theorem crosser_refines_spec_real : H_TANGENT ->
  forall (refdir : upoint -> upoint) a b c0 ops, u_antipodal a b = false ->
  map (fun x => (st_c upoint (fst x), snd x))
      (run upoint u_peq u_sign u_triage u_tangent_raw refdir a b (init upoint c0) ops) =
  spec_run upoint u_peq u_sign refdir a b c0 ops.
Proof. exact crosser_refines_spec_real_l. Qed.
Print Assumptions crosser_refines_spec_real.

Theorem crosser_equals_stateless_real : H_TANGENT ->
  forall (refdir : upoint -> upoint) a b c0 ops, u_antipodal a b = false ->
  map (fun x => (st_c upoint (fst x), snd x))
      (run upoint u_peq u_sign u_triage u_tangent_raw refdir a b (init upoint c0) ops) =
  stateless_run upoint u_peq u_sign u_triage u_tangent_raw refdir a b c0 ops.
Proof. exact crosser_equals_stateless_real_l. Qed.
Print Assumptions crosser_equals_stateless_real.

Theorem vertex_crossing_exactly_one_real :
  forall (refdir : upoint -> upoint) o x y,
  u_peq o x = false -> u_peq o y = false -> u_peq x y = false ->
  vertex_crossing upoint u_peq u_sign refdir o x o y =
  negb (vertex_crossing upoint u_peq u_sign refdir o y o x).
Proof. exact vertex_crossing_exactly_one_real_l. Qed.
Print Assumptions vertex_crossing_exactly_one_real.

(** ------------------------------------------------------------------------------------------
    The two remaining interface laws, discharged for the real predicates
    (Proofs/Link_C02_C03_Cyclic.v). *)

(** RobustSign does not distinguish == points (+0 / -0 twins): closed. *)
Theorem robust_sign_respects_go_equality : law_sign_peq upoint u_peq u_sign.
Proof. exact u_sign_peq. Qed.
Print Assumptions robust_sign_respects_go_equality.

(** The answers of RobustSign on any five pairwise different unit points satisfy the three-term
    Grassmann-Pluecker sign condition: closed (from C02's chirotope theorem). *)
Theorem robust_sign_grassmann_pluecker : law_sign_gp upoint u_peq u_sign.
Proof. exact u_sign_gp. Qed.
Print Assumptions robust_sign_grassmann_pluecker.

(** The cyclic-order law of OrderedCCW follows from the laws of the orientation predicate plus
    Grassmann-Pluecker, provided the start ray is not the vertex itself ... *)
Theorem ordered_ccw_wedges_split : forall point peq sign,
  law_peq_refl point peq -> law_peq_sym point peq ->
  law_sign_rotate point sign -> law_sign_swap point sign -> law_sign_range point sign ->
  law_sign_zero_iff point peq sign -> law_sign_peq point peq sign -> law_sign_gp point peq sign ->
  law_occw_split_ne point peq sign.
Proof. exact occw_split_ne. Qed.
Print Assumptions ordered_ccw_wedges_split.

(** ... and WITHOUT that guard it is false of RobustSign (r = o, three rays u v w making a full
    turn around o): the premise [law_occw_split] of [angle_contains_vertex_exactly_one] cannot
    be met by the real predicate; the guarded theorem below replaces it. *)
Theorem ordered_ccw_wedges_split_unguarded_refuted : ~ law_occw_split upoint u_peq u_sign.
Proof. exact occw_split_unguarded_refuted. Qed.
Print Assumptions ordered_ccw_wedges_split_unguarded_refuted.

Theorem ordered_ccw_wedges_split_real : law_occw_split_ne upoint u_peq u_sign.
Proof. exact u_occw_split_ne. Qed.
Print Assumptions ordered_ccw_wedges_split_real.

(** AngleContainsVertex property (3) for the real predicates: closed; the only guard is that the
    reference direction of the vertex is not the vertex (documented for Point.referenceDir). *)
Theorem angle_contains_vertex_exactly_one_real : forall (refdir : upoint -> upoint) o,
  u_peq (refdir o) o = false ->
  forall u v l, ccw_listed upoint u_peq u_sign o (u :: v :: l) ->
    open_count upoint u_sign refdir o (u :: v :: l) + wedge upoint u_sign refdir o (last l v) u = 1.
Proof. exact angle_contains_vertex_exactly_one_real_l. Qed.
Print Assumptions angle_contains_vertex_exactly_one_real.

(** A two-argument call that continues through a == vertex answers like the argument: closed. *)
Theorem crosser_argument_vertex_real : forall (refdir : upoint -> upoint) a b p c d,
  crossing_spec upoint u_peq u_sign a b (eff upoint u_peq p c) d = crossing_spec upoint u_peq u_sign a b c d /\
  eov_spec upoint u_peq u_sign refdir a b (eff upoint u_peq p c) d = eov_spec upoint u_peq u_sign refdir a b c d.
Proof. exact crosser_argument_vertex_real_l. Qed.
Print Assumptions crosser_argument_vertex_real.
