(** C13 — Answers depend on current geometry and options only, never on call history.
    Only statements; every proof is [exact] of a lemma in Proofs/C13_*.v. The machines are
    Model/Lazy.v (hand-written; tied to /repo by the correspondence of every run). *)
From Coq Require Import List Bool Arith.
From Geo Require Import Model.Lazy Proofs.C13_Index Proofs.C13_Loop Proofs.C13_EdgeQuery Proofs.C13_Polygon.
Import ListNotations.

(** ShapeIndex: for EVERY finite history of Add / Build / Query / Reset the run never hangs or
    panics and the observations are [spec_obs]: at each Query, what a fresh index over the shapes
    currently held shows — a function of the Add/Reset operations only. *)
Theorem index_history : forall (S G : Type) (snap : S -> G) (h : list (iop S)),
  exists ix, irun snap h = Ok (ix, spec_obs snap [] h) /\ iinv snap ix (held [] h).
Proof. exact @C13_Index.index_history. Qed.
Print Assumptions index_history.

Theorem index_built_means_everything_indexed : forall (S G : Type) (snap : S -> G) (h : list (iop S)) ix outs,
  irun snap (h ++ [IBuild]) = Ok (ix, outs) -> map fst (cells ix) = map fst (shapes ix) /\ st ix = Fresh.
Proof. exact @C13_Index.indexed_is_dom. Qed.
Print Assumptions index_built_means_everything_indexed.

Theorem index_canonical_is_shortest_history : forall (S G : Type) (snap : S -> G) (l : list S),
  exists ix, irun snap (map IAdd l ++ [IQuery]) = Ok (ix, [canonical snap l]).
Proof. exact @C13_Index.canonical_is_fresh. Qed.
Print Assumptions index_canonical_is_shortest_history.

Theorem index_build_position_irrelevant : forall (S G : Type) (snap : S -> G) (h1 h2 : list (iop S)),
  held [] h1 = held [] h2 ->
  forall ix1 ix2 o1 o2, irun snap (h1 ++ [IQuery]) = Ok (ix1, o1) -> irun snap (h2 ++ [IQuery]) = Ok (ix2, o2) ->
  last o1 (canonical snap []) = last o2 (canonical snap []).
Proof. exact @C13_Index.build_position_irrelevant. Qed.
Print Assumptions index_build_position_irrelevant.

(** what the repairs 5701870 and c417920 changed *)
Theorem index_history_old_refuted :
  exists h : list (iop nat), irun_old (fun _ => true) (fun s => s) h = Hang.
Proof. exact C13_Index.index_history_old_refuted. Qed.
Print Assumptions index_history_old_refuted.

Theorem reset_old_refuted :
  exists (h : list (iop nat)) ix, irun_reset_old (fun s => s) h = Ok (ix, [([], [(0, 8)])]) /\
                                  spec_obs (fun s => s) [] h = [([(0, 8)], [(0, 8)])].
Proof. exact C13_Index.reset_old_refuted. Qed.
Print Assumptions reset_old_refuted.

(** Loop: every history of Invert / Build / Query / brute-force query; each query sees the
    current vertices and originInside and the cell map holds exactly that geometry. *)
Theorem loop_history : forall (V B : Type) (emptyPt fullPt : V) origin_of (bound_of : list V -> bool -> B)
    fullB avoids_poles (vs : list V) (h : list lop),
  exists l', lrun emptyPt fullPt origin_of bound_of fullB avoids_poles vs h
             = Ok (l', lspec emptyPt fullPt vs (origin_of vs) h).
Proof. exact @C13_Loop.loop_history. Qed.
Print Assumptions loop_history.

Theorem invert_involutive : forall (V : Type) (emptyPt fullPt : V) vs oi,
  canonical_loop emptyPt fullPt vs oi -> iter_invert emptyPt fullPt 2 vs oi = (vs, oi).
Proof. exact @C13_Loop.invert_involutive. Qed.
Print Assumptions invert_involutive.

Theorem invert_parity : forall (V : Type) (emptyPt fullPt : V) n vs oi,
  canonical_loop emptyPt fullPt vs oi ->
  iter_invert emptyPt fullPt n vs oi
  = if Nat.even n then (vs, oi) else (invert_verts emptyPt fullPt vs oi, negb oi).
Proof. exact @C13_Loop.invert_parity. Qed.
Print Assumptions invert_parity.

(** against a fresh loop built from the final vertex order; premise H_ORIGIN_REV: reversing the
    vertex order flips what initOriginAndBound computes for originInside (geometry, C04) *)
Theorem invert_matches_fresh : forall (V B : Type) (emptyPt fullPt : V) origin_of (bound_of : list V -> bool -> B)
    fullB avoids_poles,
  H_ORIGIN_REV emptyPt fullPt origin_of -> forall (vs : list V) (h : list lop),
  canonical_loop emptyPt fullPt vs (origin_of vs) ->
  let vs' := fst (iter_invert emptyPt fullPt (count_inverts h) vs (origin_of vs)) in
  exists l1 l2 o1 o2,
    lrun emptyPt fullPt origin_of bound_of fullB avoids_poles vs (h ++ [LQuery]) = Ok (l1, o1) /\
    lrun emptyPt fullPt origin_of bound_of fullB avoids_poles vs' [LQuery] = Ok (l2, o2) /\
    last o1 (vs, origin_of vs, []) = last o2 (vs, origin_of vs, []).
Proof. exact @C13_Loop.invert_matches_fresh. Qed.
Print Assumptions invert_matches_fresh.

Theorem loop_reset_old_refuted :
  exists h l, nat_loop_run index_reset_old [1; 2; 3; 4] h
    = Ok (l, [([1; 2; 3; 4], false, [(0, ([1; 2; 3; 4], false))]); ([4; 3; 2; 1], true, [])]).
Proof. exact C13_Loop.loop_reset_old_refuted. Qed.
Print Assumptions loop_reset_old_refuted.

(** Polygon: after any number of Inverts (whatever reordering Invert applies to the loops) the
    polygon equals the one freshly built from its current loops: same edge-offset table, every
    Edge/ChainPosition lookup lands in the right loop, and its own index is the canonical one. *)
Theorem polygon_invert_matches_fresh : forall (V : Type) (reorder : list (list V) -> list (list V)) n loops,
  let p := poly_iter reorder false n (poly_new loops) in
  p = poly_new (ploops p) /\
  (forall e, e < total_edges (ploops p) -> pedge p e = locate_lin (map (@length V) (ploops p)) 0 e) /\
  exists ix, run (istep (apply (fun _ : unit => ploops p)) index_reset) (pindex p) [IQuery]
             = Ok (ix, [canonical (fun _ : unit => ploops p) [tt]]).
Proof. exact @C13_Polygon.polygon_invert_matches_fresh. Qed.
Print Assumptions polygon_invert_matches_fresh.

(** a table kept because it "already has one entry per loop" is refuted *)
Theorem polygon_stale_table_refuted :
  exists e, let p := poly_invert toy_reorder true (poly_new toy_loops) in
            pedge p e <> locate_lin (map (@length nat) (ploops p)) 0 e.
Proof. exact C13_Polygon.polygon_stale_table_refuted. Qed.
Print Assumptions polygon_stale_table_refuted.

(** EdgeQuery: every history on one query object; every answer is that of a fresh object
    configured with the options the caller last set, and the caller's options are untouched. *)
Theorem edge_query_history : forall (D Ix T R C : Type) straight expand counts threshold cover_of
    (search : Ix -> T -> @opts D -> @path C -> list R) dflt ix u (h : list (@qop D Ix T)),
  exists q', run (qstep_new straight expand counts threshold cover_of search dflt) (eq_new ix u) h
             = Ok (q', qspec straight expand counts threshold cover_of search ix u h) /\
             hget dflt (uptr q') (eheap q') = user_opts u h /\ eopts q' = uptr q'.
Proof. exact @C13_EdgeQuery.edge_query_history. Qed.
Print Assumptions edge_query_history.

Theorem edge_query_fresh_answer : forall (D Ix T R C : Type) straight expand counts threshold cover_of
    (search : Ix -> T -> @opts D -> @path C -> list R) dflt ix u (o : @qop D Ix T),
  exists q', qstep_new straight expand counts threshold cover_of search dflt (eq_new ix u) o
             = Ok (q', fresh_answer straight expand counts threshold cover_of search ix u o).
Proof. exact @C13_EdgeQuery.fresh_answer_is_fresh. Qed.
Print Assumptions edge_query_fresh_answer.

Theorem edge_query_old_refuted :
  exists h q, run toy_step_old (eq_new [1; 2; 3; 4; 5] toy_u) h = Ok (q, [OutDist (Some 1); OutEdges [1]]) /\
              toy_spec [1; 2; 3; 4; 5] toy_u h = [OutDist (Some 1); OutEdges [1; 2; 3; 4; 5]].
Proof. exact C13_EdgeQuery.edge_query_old_refuted. Qed.
Print Assumptions edge_query_old_refuted.

Theorem edge_query_old_refuted_threshold :
  exists h q, run toy_step_old (eq_new [1; 2; 3; 4; 5] toy_u) h = Ok (q, [OutBool true; OutEdges [1]]) /\
              hget (mkOpts 0 0 0 false false) (uptr q) (eheap q) = mkOpts 1 3 1000 true false.
Proof. exact C13_EdgeQuery.edge_query_old_refuted_threshold. Qed.
Print Assumptions edge_query_old_refuted_threshold.

(** a reused index target searches with the maxError of the current call (a6eab98) *)
Theorem target_reuse : forall (calls : list nat) (tme e : nat),
  target_run target_call tme (calls ++ [e]) = e.
Proof. exact C13_EdgeQuery.target_reuse. Qed.
Print Assumptions target_reuse.

Theorem target_reuse_old_refuted :
  exists calls e, target_run (target_call_old (fun d => d =? 0)) 0 (calls ++ [e]) <> e.
Proof. exact C13_EdgeQuery.target_reuse_old_refuted. Qed.
Print Assumptions target_reuse_old_refuted.

(** CrossingEdgeQuery / ContainsPointQuery: answers independent of the object's past *)
Theorem scratch_reset : forall (E Sg Cl Pos : Type) segments locate visit (h : list E) (e : E),
  ccells (cq_cells_for_edge segments locate visit
            (fold_left (cq_cells_for_edge segments locate visit) h (@cq_new Sg Cl Pos)) e)
  = flat_map (fun s => visit s (locate s)) (segments e).
Proof. exact @C13_EdgeQuery.scratch_reset_history. Qed.
Print Assumptions scratch_reset.

Theorem contains_scratch_reset : forall (Pos P : Type) locate_point contains_at (q : @pquery Pos) (p : P),
  snd (pq_contains locate_point contains_at q p) = snd (pq_contains locate_point contains_at (mkPQ None) p).
Proof. exact @C13_EdgeQuery.contains_scratch_reset. Qed.
Print Assumptions contains_scratch_reset.

(** EdgeQuery covering cache as the two parallel slices it is (indexCovering / indexCells): for
    every history of optimized queries, Resets and index changes followed by Reset, each query
    starts from exactly the top-level cells of the current index with their own cell pointers. *)
Theorem covering_cache_history : forall (Ix Cid Cptr : Type) (ranges : Ix -> list (Cid * Cptr)) (h : list (@cop Ix)) ix c,
  cc_ok ranges ix c ->
  exists s', run (cstep ranges cc_reset) (ix, c) h = Ok (s', cspec ranges ix h).
Proof. exact @C13_EdgeQuery.covering_cache_history. Qed.
Print Assumptions covering_cache_history.

(** Reset that forgets to clear indexCells pairs the new covering with the old cell pointers *)
Theorem reset_keeps_index_cells_refuted :
  exists h s, run (cstep toy_ranges cc_reset_keeps_cells) (1, cc_new) h
              = Ok (s, [[(10, 100); (20, 200)]; [(5, 100); (10, 200); (20, 50)]]) /\
              cspec toy_ranges 1 h = [[(10, 100); (20, 200)]; [(5, 50); (10, 100); (20, 200)]].
Proof. exact C13_EdgeQuery.reset_keeps_index_cells_refuted. Qed.
Print Assumptions reset_keeps_index_cells_refuted.

(** ** H_ORIGIN_REV for the real predicates (unit points, Go ==, RobustSign; crossing predicate =
    the exact EdgeOrVertexCrossing [u_eov_spec], whose symmetry in the tested edge is closed).
    Reversing pre ++ [a;o;b] flips the originInside that initOriginAndBound computes, GIVEN
      - the computable guards: a, o, b pairwise different and referenceDir(o) <> o, and
      - [vertex_consistent]: the original loop contains its last-but-one vertex o according to
        o's own wedge.
    Everything else is discharged from C03 (wedge-split law, guarded) and C04 (invert_complement,
    origin_inside_vertex1).  For TRIANGLES o is vertex 1 and [vertex_consistent] is
    origin_inside_vertex1: no hypothesis is left.  For longer vertex lists [vertex_consistent] is
    the missing step: it is the statement that the crossing parity from OriginPoint agrees at
    vertex n-2 with the choice made at vertex 1, i.e. C04's Jordan-type hypothesis H-JORDAN for a
    VALID loop; it is false of self-crossing vertex lists (figure eight: the two lobes have
    opposite orientation), so the orientation laws alone cannot give it.  [invert_matches_fresh]
    above keeps H_ORIGIN_REV as its premise for that reason; the two theorems below replace it. *)
From Geo Require Import Model.Crosser Model.Contain Proofs.Link_C02_C03 Proofs.Link_C02_C04 Proofs.C13_OriginRev.

Theorem origin_rev_real : forall (refdir : upoint -> upoint) south origin zeroPt pre a o b,
  u_peq (refdir o) o = false -> u_peq a o = false -> u_peq b o = false -> u_peq a b = false ->
  vertex_consistent refdir (u_eov_spec refdir) south origin zeroPt pre a o b ->
  init_origin_inside upoint u_peq (u_eov_spec refdir) (angle_contains_vertex upoint u_sign refdir) south origin zeroPt
    (rev (pre ++ [a; o; b]))
  = negb (init_origin_inside upoint u_peq (u_eov_spec refdir) (angle_contains_vertex upoint u_sign refdir) south origin zeroPt
            (pre ++ [a; o; b])).
Proof.
  intros refdir south origin zeroPt.
  exact (C13_OriginRev.origin_rev_real refdir (u_eov_spec refdir) south origin zeroPt zeroPt zeroPt (u_eov_spec_sym_cd refdir)).
Qed.
Print Assumptions origin_rev_real.

(** triangles: invert_matches_fresh with NO hypothesis, only the computable guards *)
Theorem invert_matches_fresh_triangle_real : forall (refdir : upoint -> upoint) south origin zeroPt emptyPt fullPt a o b (h : list lop),
  u_peq (refdir o) o = false -> u_peq a o = false -> u_peq b o = false -> u_peq a b = false ->
  let oi := init_origin_inside upoint u_peq (u_eov_spec refdir) (angle_contains_vertex upoint u_sign refdir) south origin zeroPt in
  let lr := lrun emptyPt fullPt oi (fun (_ : list upoint) (_ : bool) => tt) tt (fun _ : unit => true) in
  let vs := [a; o; b] in
  let vs' := fst (iter_invert emptyPt fullPt (count_inverts h) vs (oi vs)) in
  exists l1 l2 o1 o2,
    lr vs (h ++ [LQuery]) = Ok (l1, o1) /\ lr vs' [LQuery] = Ok (l2, o2) /\
    last o1 (vs, oi vs, []) = last o2 (vs, oi vs, []).
Proof.
  intros refdir south origin zeroPt emptyPt fullPt.
  exact (C13_OriginRev.invert_matches_fresh_triangle_real refdir (u_eov_spec refdir) south origin zeroPt emptyPt fullPt (u_eov_spec_sym_cd refdir)).
Qed.
Print Assumptions invert_matches_fresh_triangle_real.

(** any length >= 3: the hypothesis H_ORIGIN_REV reduced to [vertex_consistent] of the one loop *)
Theorem invert_matches_fresh_real : forall (refdir : upoint -> upoint) south origin zeroPt emptyPt fullPt pre a o b (h : list lop),
  u_peq (refdir o) o = false -> u_peq a o = false -> u_peq b o = false -> u_peq a b = false ->
  vertex_consistent refdir (u_eov_spec refdir) south origin zeroPt pre a o b ->
  let oi := init_origin_inside upoint u_peq (u_eov_spec refdir) (angle_contains_vertex upoint u_sign refdir) south origin zeroPt in
  let lr := lrun emptyPt fullPt oi (fun (_ : list upoint) (_ : bool) => tt) tt (fun _ : unit => true) in
  let vs := pre ++ [a; o; b] in
  let vs' := fst (iter_invert emptyPt fullPt (count_inverts h) vs (oi vs)) in
  exists l1 l2 o1 o2,
    lr vs (h ++ [LQuery]) = Ok (l1, o1) /\ lr vs' [LQuery] = Ok (l2, o2) /\
    last o1 (vs, oi vs, []) = last o2 (vs, oi vs, []).
Proof.
  intros refdir south origin zeroPt emptyPt fullPt.
  exact (C13_OriginRev.invert_matches_fresh_real refdir (u_eov_spec refdir) south origin zeroPt emptyPt fullPt (u_eov_spec_sym_cd refdir)).
Qed.
Print Assumptions invert_matches_fresh_real.
