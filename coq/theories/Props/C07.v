(** C07 — Loop and polygon containment/intersection obey point-set semantics.
    Only statements; every proof is [exact] of a lemma in Proofs/. The predicates below this
    layer (Go == on points, OrderedCCW, CrossingSign, ContainsPoint, the bounding rectangles) are
    parameters; the laws of them that a theorem uses are its visible premises. *)
From Coq Require Import List Bool.
From Geo Require Import Model.Wedge Model.RelWalk Proofs.C07_Wedge Proofs.C07_Walk.
Import ListNotations.

(** wedge tests at a shared vertex ------------------------------------------------------ *)
Theorem wedge_dual : forall (point : Type) (occw : point -> point -> point -> point -> bool) a0 ab1 a2 b0 b2,
  wedge_intersects point occw a0 ab1 a2 b0 b2 = negb (wedge_contains point occw a2 ab1 a0 b0 b2).
Proof. exact C07_Wedge.wedge_dual. Qed.
Print Assumptions wedge_dual.

Theorem wedge_intersects_symmetric : forall (point : Type) (occw : point -> point -> point -> point -> bool) a0 ab1 a2 b0 b2,
  wedge_intersects point occw a0 ab1 a2 b0 b2 = wedge_intersects point occw b0 ab1 b2 a0 a2.
Proof. exact C07_Wedge.wedge_intersects_sym. Qed.
Print Assumptions wedge_intersects_symmetric.

Theorem wedge_contains_complement : forall (point : Type) (occw : point -> point -> point -> point -> bool) a0 ab1 a2 b0 b2,
  wedge_contains point occw a0 ab1 a2 b0 b2 = wedge_contains point occw b2 ab1 b0 a2 a0.
Proof. exact C07_Wedge.wedge_contains_compl. Qed.
Print Assumptions wedge_contains_complement.

Theorem wedge_contains_itself : forall (point : Type) (occw : point -> point -> point -> point -> bool),
  (forall a c o, occw a a c o = true) ->
  forall a0 v a2, wedge_contains point occw a0 v a2 a0 a2 = true.
Proof. exact C07_Wedge.wedge_contains_self. Qed.
Print Assumptions wedge_contains_itself.

(** the index walk: contract of its edge-free-cell shortcut ------------------------------ *)
Theorem hasCrossingRelation_edge_free_branch_contract : branch_contract edge_free_branch.
Proof. exact C07_Walk.edge_free_branch_contract. Qed.
Print Assumptions hasCrossingRelation_edge_free_branch_contract.

(** finding Loop.Contains.edgeless-cell-target (fixed by /repo 42e42d2): the branch as it stood *)
Theorem hasCrossingRelation_edge_free_branch_before_fix_refuted :
  exists a_cc ta tb b_ccs,
    edge_free_branch_before_42e42d2 a_cc ta tb b_ccs = true /\ cc_matches a_cc ta = false.
Proof. exact C07_Walk.before_fix_refuted. Qed.
Print Assumptions hasCrossingRelation_edge_free_branch_before_fix_refuted.
