(** C07 — Loop and polygon containment/intersection obey point-set semantics.
    Only statements; every proof is [exact] of a lemma in Proofs/. The predicates below this
    layer (Go == on points, OrderedCCW, CrossingSign, ContainsPoint, the bounding rectangles) are
    parameters; the laws of them that a theorem uses are its visible premises. *)
From Coq Require Import List Bool ZArith.
From Geo Require Import Model.Wedge Model.Relations Model.Nest Model.RelWalk.
From Geo Require Import Proofs.C07_Wedge Proofs.C07_Walk Proofs.C07_Relations Proofs.C07_Polygon Proofs.C07_Nest.
From Geo Require Import Model.RangeIter Proofs.C07_RangeIter.
From Geo Require Proofs.C02_Float Proofs.Link_C02_C03 Model.Contain Proofs.Link_C07.
Import ListNotations.

(** wedge tests at a shared vertex ------------------------------------------------------ *)
Theorem wedge_dual : forall (point : Type) (occw : point -> point -> point -> point -> bool) a0 ab1 a2 b0 b2,
  wedge_intersects point occw a0 ab1 a2 b0 b2 = negb (wedge_contains point occw a2 ab1 a0 b0 b2).
Proof. exact C07_Wedge.wedge_dual. Qed.
Print Assumptions wedge_dual.

Theorem wedge_intersects_symmetric : forall (point : Type) (occw : point -> point -> point -> point -> bool) a0 ab1 a2 b0 b2,
  wedge_intersects point occw a0 ab1 a2 b0 b2 = wedge_intersects point occw b0 ab1 b2 a0 a2.
Proof. exact C07_Wedge.wedge_intersects_sym. Qed.
Print Assumptions wedge_intersects_symmetric.

Theorem wedge_contains_complement : forall (point : Type) (occw : point -> point -> point -> point -> bool) a0 ab1 a2 b0 b2,
  wedge_contains point occw a0 ab1 a2 b0 b2 = wedge_contains point occw b2 ab1 b0 a2 a0.
Proof. exact C07_Wedge.wedge_contains_compl. Qed.
Print Assumptions wedge_contains_complement.

Theorem wedge_contains_itself : forall (point : Type) (occw : point -> point -> point -> point -> bool),
  (forall a c o, occw a a c o = true) ->
  forall a0 v a2, wedge_contains point occw a0 v a2 a0 a2 = true.
Proof. exact C07_Wedge.wedge_contains_self. Qed.
Print Assumptions wedge_contains_itself.

(** the index walk: contract of its edge-free-cell shortcut ------------------------------ *)
Theorem hasCrossingRelation_edge_free_branch_contract : branch_contract edge_free_branch.
Proof. exact C07_Walk.edge_free_branch_contract. Qed.
Print Assumptions hasCrossingRelation_edge_free_branch_contract.

(** finding Loop.Contains.edgeless-cell-target (fixed by /repo 42e42d2): the branch as it stood *)
Theorem hasCrossingRelation_edge_free_branch_before_fix_refuted :
  exists a_cc ta tb b_ccs,
    edge_free_branch_before_42e42d2 a_cc ta tb b_ccs = true /\ cc_matches a_cc ta = false.
Proof. exact C07_Walk.before_fix_refuted. Qed.
Print Assumptions hasCrossingRelation_edge_free_branch_before_fix_refuted.

(** the relations of two loops, as decided by Loop.Contains / Loop.Intersects -------------------
    Interface laws (premises, in this order): Go == is equality; CrossingSign is invariant under
    swapping the two edges and under reversing an edge (C03); OrderedCCW(a,a,c,o) and
    not OrderedCCW(a,b,a,o) for distinct points (C02); ContainsPoint of the inverted loop is the
    negation (C04 invert_complement), true for the full and false for the empty loop; the
    rectangle prefilters are sound (H-SUBREGION / H-LATBOUND, Definitions in Proofs/C07_Relations). *)
Section Relations.
  Variable point : Type.
  Variable peq : point -> point -> bool.
  Variable ordered_ccw : point -> point -> point -> point -> bool.
  Variable crossing_sign : point -> point -> point -> point -> crossing.
  Variable empty_pt full_pt : point.
  Variable contains_point : loop point -> point -> bool.
  Variable sub_contains bound_intersects bound_union_full : loop point -> loop point -> bool.
  Notation Contains := (loop_contains point peq ordered_ccw crossing_sign contains_point sub_contains bound_union_full).
  Notation Intersects := (loop_intersects point peq ordered_ccw crossing_sign contains_point sub_contains bound_intersects bound_union_full).
  Notation Inv := (invert point empty_pt full_pt).

  Hypothesis peq_spec : forall a b, peq a b = true <-> a = b.
  Hypothesis cross_swap : forall a b c d, crossing_sign a b c d = crossing_sign c d a b.
  Hypothesis cross_rev : forall a b c d, crossing_sign b a c d = crossing_sign a b c d.
  Hypothesis occw_aab : forall a c o, ordered_ccw a a c o = true.
  Hypothesis occw_aba : forall a b o, a <> b -> a <> o -> b <> o -> ordered_ccw a b a o = false.
  Hypothesis cp_invert : forall L p, contains_point (Inv L) p = negb (contains_point L p).
  Hypothesis cp_full : forall L p, is_full point L = true -> contains_point L p = true.
  Hypothesis cp_empty : forall L p, is_empty point L = true -> contains_point L p = false.
  Hypothesis H_sub : H_SUBREGION_sound point peq ordered_ccw crossing_sign contains_point sub_contains.
  Hypothesis H_v0 : H_SUBREGION_v0 point peq crossing_sign contains_point sub_contains bound_union_full.
  Hypothesis H_bnd : H_LATBOUND_sound point peq ordered_ccw crossing_sign contains_point bound_intersects.
  Hypothesis H_bnd_empty : H_LATBOUND_empty point bound_intersects.

  Theorem loop_intersects_symmetric : forall A B, wf point A -> wf point B ->
    Intersects A B = Intersects B A.
  Proof. exact (intersects_sym point peq ordered_ccw crossing_sign contains_point sub_contains bound_intersects
                  bound_union_full peq_spec cross_swap cp_full H_sub H_v0 H_bnd H_bnd_empty). Qed.

  Theorem loop_contains_itself : forall A, valid point crossing_sign A -> Contains A A = true.
  Proof. exact (contains_refl point peq ordered_ccw crossing_sign contains_point sub_contains bound_intersects
                  bound_union_full peq_spec cross_swap occw_aab H_sub H_v0). Qed.

  Theorem loop_intersects_itself : forall A, valid point crossing_sign A -> is_empty point A = false ->
    Intersects A A = true.
  Proof. exact (intersects_refl point peq ordered_ccw crossing_sign contains_point sub_contains bound_intersects
                  bound_union_full peq_spec cross_swap occw_aba cp_full H_sub H_v0 H_bnd H_bnd_empty). Qed.

  Theorem loop_intersects_iff_complement_does_not_contain : forall A B,
    H_JORDAN_side point peq crossing_sign contains_point -> wf point A -> wf point B ->
    Intersects A B = negb (Contains (Inv A) B).
  Proof. exact (intersects_iff_not_compl_contains point peq ordered_ccw crossing_sign empty_pt full_pt contains_point
                  sub_contains bound_intersects bound_union_full peq_spec cross_swap cross_rev cp_invert cp_full
                  H_sub H_v0 H_bnd H_bnd_empty). Qed.

  Theorem loop_contains_iff_complements_reversed : forall A B,
    H_JORDAN_side point peq crossing_sign contains_point -> wf point A -> wf point B ->
    Contains A B = Contains (Inv B) (Inv A).
  Proof. exact (contains_iff_compl point peq ordered_ccw crossing_sign empty_pt full_pt contains_point
                  sub_contains bound_intersects bound_union_full peq_spec cross_swap cross_rev cp_invert
                  H_sub H_v0). Qed.

  Theorem loop_contains_only_if_subset : forall A B,
    H_JORDAN_subset point peq ordered_ccw crossing_sign contains_point ->
    valid point crossing_sign A -> valid point crossing_sign B -> Contains A B = true ->
    forall p, contains_point B p = true -> contains_point A p = true.
  Proof. exact (contains_pointset point peq ordered_ccw crossing_sign contains_point sub_contains bound_intersects
                  bound_union_full peq_spec cross_swap cp_full cp_empty H_sub H_v0). Qed.

  Theorem loop_disjoint_only_if_no_common_point : forall A B,
    H_JORDAN_disjoint point peq ordered_ccw crossing_sign contains_point ->
    valid point crossing_sign A -> valid point crossing_sign B -> Intersects A B = false ->
    forall p, contains_point A p = true -> contains_point B p = true -> False.
  Proof. exact (disjoint_pointset point peq ordered_ccw crossing_sign contains_point sub_contains bound_intersects
                  bound_union_full peq_spec cross_swap cp_full cp_empty H_sub H_v0 H_bnd H_bnd_empty). Qed.

  Variable psub plng pbi : polygon point -> polygon point -> bool.
  Theorem single_loop_polygon_eq_loop : forall a b : ploop point,
    polygon_contains point peq ordered_ccw crossing_sign contains_point sub_contains bound_intersects
      bound_union_full psub plng [a] [b] = Contains (fst a) (fst b) /\
    polygon_intersects point peq ordered_ccw crossing_sign contains_point sub_contains bound_intersects
      bound_union_full pbi [a] [b] = Intersects (fst a) (fst b).
  Proof. exact (fun a b => conj (single_loop_polygon_contains point peq ordered_ccw crossing_sign contains_point
                  sub_contains bound_intersects bound_union_full psub plng a b)
                 (single_loop_polygon_intersects point peq ordered_ccw crossing_sign contains_point
                  sub_contains bound_intersects bound_union_full pbi a b)). Qed.
End Relations.
Print Assumptions loop_intersects_symmetric.
Print Assumptions loop_contains_itself.
Print Assumptions loop_intersects_itself.
Print Assumptions loop_intersects_iff_complement_does_not_contain.
Print Assumptions loop_contains_iff_complements_reversed.
Print Assumptions loop_contains_only_if_subset.
Print Assumptions loop_disjoint_only_if_no_common_point.
Print Assumptions single_loop_polygon_eq_loop.

(** the same theorems for the REAL predicates (Proofs/Link_C07.v) ------------------------------
    point := canonical unit points (IsUnit, no -0 coordinate), peq := Go ==, ordered_ccw and
    crossing_sign := the C03 crosser over RobustSign, contains_point := C04's brute-force
    containment. The interface laws peq_spec, cross_swap, cross_rev, occw_aab, occw_aba, cp_invert,
    cp_full, cp_empty are discharged from C02/C03/C04; what remains: H_TANGENT and
    this layer's H_JORDAN_* / H_SUBREGION_* / H_LATBOUND_* premises. *)
Section RealPredicates.
  Import Link_C07.
  Hypothesis HT : Link_C02_C03.H_TANGENT.
  Variable refdir : cpoint -> cpoint.
  Variables origin empty_pt full_pt zero_pt : cpoint.
  Variables sub_contains bound_intersects bound_union_full : loop cpoint -> loop cpoint -> bool.
  Notation cp := (c_cp refdir origin zero_pt).
  Notation Contains := (loop_contains cpoint c_peq c_occw c_cross cp sub_contains bound_union_full).
  Notation Intersects := (loop_intersects cpoint c_peq c_occw c_cross cp sub_contains bound_intersects bound_union_full).
  Notation Inv := (invert cpoint empty_pt full_pt).
  Hypothesis H_sub : H_SUBREGION_sound cpoint c_peq c_occw c_cross cp sub_contains.
  Hypothesis H_v0 : H_SUBREGION_v0 cpoint c_peq c_cross cp sub_contains bound_union_full.
  Hypothesis H_bnd : H_LATBOUND_sound cpoint c_peq c_occw c_cross cp bound_intersects.
  Hypothesis H_bnd_empty : H_LATBOUND_empty cpoint bound_intersects.

  Theorem real_point_equality_is_go_equality : forall a b : cpoint, c_peq a b = true <-> a = b.
  Proof. exact c_peq_spec. Qed.

  Theorem real_loop_intersects_symmetric : forall A B, wf cpoint A -> wf cpoint B ->
    Intersects A B = Intersects B A.
  Proof. exact (real_intersects_symmetric HT refdir origin zero_pt sub_contains bound_intersects
                  bound_union_full H_sub H_v0 H_bnd H_bnd_empty). Qed.

  Theorem real_loop_contains_itself : forall A, valid cpoint c_cross A -> Contains A A = true.
  Proof. exact (real_contains_itself HT refdir origin zero_pt sub_contains bound_intersects
                  bound_union_full H_sub H_v0). Qed.

  Theorem real_loop_intersects_itself : forall A, valid cpoint c_cross A -> is_empty cpoint A = false ->
    Intersects A A = true.
  Proof. exact (real_intersects_itself HT refdir origin zero_pt sub_contains bound_intersects
                  bound_union_full H_sub H_v0 H_bnd H_bnd_empty). Qed.

  Theorem real_loop_intersects_iff_complement_does_not_contain : forall A B,
    H_JORDAN_side cpoint c_peq c_cross cp -> wf cpoint A -> wf cpoint B ->
    Intersects A B = negb (Contains (Inv A) B).
  Proof. exact (real_intersects_iff_complement_does_not_contain HT refdir origin empty_pt full_pt zero_pt
                  sub_contains bound_intersects bound_union_full H_sub H_v0 H_bnd H_bnd_empty). Qed.

  Theorem real_loop_contains_iff_complements_reversed : forall A B,
    H_JORDAN_side cpoint c_peq c_cross cp -> wf cpoint A -> wf cpoint B ->
    Contains A B = Contains (Inv B) (Inv A).
  Proof. exact (real_contains_iff_complements_reversed HT refdir origin empty_pt full_pt zero_pt
                  sub_contains bound_intersects bound_union_full H_sub H_v0). Qed.

  Theorem real_loop_contains_only_if_subset : forall A B,
    H_JORDAN_subset cpoint c_peq c_occw c_cross cp ->
    valid cpoint c_cross A -> valid cpoint c_cross B -> Contains A B = true ->
    forall p, cp B p = true -> cp A p = true.
  Proof. exact (real_contains_only_if_subset HT refdir origin zero_pt sub_contains bound_intersects
                  bound_union_full H_sub H_v0). Qed.

  Theorem real_loop_disjoint_only_if_no_common_point : forall A B,
    H_JORDAN_disjoint cpoint c_peq c_occw c_cross cp ->
    valid cpoint c_cross A -> valid cpoint c_cross B -> Intersects A B = false ->
    forall p, cp A p = true -> cp B p = true -> False.
  Proof. exact (real_disjoint_only_if_no_common_point HT refdir origin zero_pt sub_contains
                  bound_intersects bound_union_full H_sub H_v0 H_bnd H_bnd_empty). Qed.

  Variable psub plng pbi : polygon cpoint -> polygon cpoint -> bool.
  Theorem real_single_loop_polygon_eq_loop : forall a b : ploop cpoint,
    polygon_contains cpoint c_peq c_occw c_cross cp sub_contains bound_intersects
      bound_union_full psub plng [a] [b] = Contains (fst a) (fst b) /\
    polygon_intersects cpoint c_peq c_occw c_cross cp sub_contains bound_intersects
      bound_union_full pbi [a] [b] = Intersects (fst a) (fst b).
  Proof. exact (fun a b => conj (single_loop_polygon_contains cpoint c_peq c_occw c_cross cp
                  sub_contains bound_intersects bound_union_full psub plng a b)
                 (single_loop_polygon_intersects cpoint c_peq c_occw c_cross cp
                  sub_contains bound_intersects bound_union_full pbi a b)). Qed.

  (** bridge to Model/Contain.v: on the loop values the constructors and Invert produce,
      contains_point is C04's brute_contains and the two models of Loop.Invert agree *)
  Theorem real_contains_point_is_brute_force : forall L p, coherent empty_pt full_pt L ->
    cp L p = c_brute refdir origin zero_pt (to_contain L) p.
  Proof. exact (cp_is_brute HT refdir origin empty_pt full_pt zero_pt). Qed.

  Theorem real_invert_is_contain_invert : forall L, coherent empty_pt full_pt L ->
    to_contain (Inv L) = Contain.invert cpoint empty_pt full_pt (to_contain L) /\
    coherent empty_pt full_pt (Inv L).
  Proof. exact (fun L H => conj (invert_corresponds empty_pt full_pt L H) (invert_coherent empty_pt full_pt L H)). Qed.
End RealPredicates.
Print Assumptions real_point_equality_is_go_equality.
Print Assumptions real_loop_intersects_symmetric.
Print Assumptions real_loop_contains_itself.
Print Assumptions real_loop_intersects_itself.
Print Assumptions real_loop_intersects_iff_complement_does_not_contain.
Print Assumptions real_loop_contains_iff_complements_reversed.
Print Assumptions real_loop_contains_only_if_subset.
Print Assumptions real_loop_disjoint_only_if_no_common_point.
Print Assumptions real_single_loop_polygon_eq_loop.
Print Assumptions real_contains_point_is_brute_force.
Print Assumptions real_invert_is_contain_invert.

(** the index merge: rangeIterator.seekTo / seekBeyond land where their contracts say -------------
    over abstract cell ranges [rmin c <= c <= rmax c], an index of disjoint cells in increasing
    order, and a target cell nested with or disjoint from every index cell *)
Theorem rangeIterator_seekTo_contract : forall (rmin rmax : BinNums.Z -> BinNums.Z),
  (forall c, (rmin c <= c <= rmax c)%Z) ->
  forall ids tmin tid tmax, index_ok rmin rmax ids -> (tmin <= tid <= tmax)%Z ->
  (forall i, i < length ids -> laminar rmin rmax tmin tmax (RangeIter.at_pos ids i)) ->
  first_with (fun c => (tmin <= rmax c)%Z) ids (seek_to rmin rmax ids tmin tid tmax).
Proof. exact seek_to_contract. Qed.
Print Assumptions rangeIterator_seekTo_contract.

Theorem rangeIterator_seekBeyond_contract : forall (rmin rmax : BinNums.Z -> BinNums.Z),
  (forall c, (rmin c <= c <= rmax c)%Z) ->
  forall ids tmin tmax, index_ok rmin rmax ids -> (tmin <= tmax)%Z ->
  (forall i, i < length ids -> (tmax < RangeIter.at_pos ids i)%Z -> (RangeIter.at_pos ids i < tmax + 2)%Z ->
             (rmin (RangeIter.at_pos ids i) <= tmax)%Z) ->
  first_with (fun c => (tmax < rmin c)%Z) ids (seek_beyond rmin ids tmax).
Proof. exact seek_beyond_contract. Qed.
Print Assumptions rangeIterator_seekBeyond_contract.

(** nesting discovery (PolygonFromLoops) -------------------------------------------------------
    [nesting_result ids out]: out lists every loop exactly once, with depth = number of the other
    loops that contain it, and every loop after all loops that contain it. *)
Theorem nesting_depth : forall nested : nat -> nat -> bool,
  (forall a, nested a a = false) ->
  (forall a b c, nested a b = true -> nested b c = true -> nested a c = true) ->
  (forall a b c, nested a c = true -> nested b c = true -> a = b \/ nested a b = true \/ nested b a = true) ->
  forall stored ids, NoDup ids -> nesting_result nested ids (init_nested nested stored ids).
Proof. exact C07_Nest.nesting_depth. Qed.
Print Assumptions nesting_depth.

(** [stored l] is the depth field input loop l carries from an earlier polygon or from Decode *)
Theorem nesting_depth_ignores_stale_depths : forall (nested : nat -> nat -> bool) (stored stored' : nat -> nat) ids,
  init_nested nested stored ids = init_nested nested stored' ids.
Proof. exact C07_Nest.nesting_ignores_stale_depths. Qed.
Print Assumptions nesting_depth_ignores_stale_depths.

Theorem hole_iff_odd_number_of_enclosing_loops : forall nested : nat -> nat -> bool,
  (forall a, nested a a = false) ->
  (forall a b c, nested a b = true -> nested b c = true -> nested a c = true) ->
  (forall a b c, nested a c = true -> nested b c = true -> a = b \/ nested a b = true \/ nested b a = true) ->
  forall stored ids l d, NoDup ids -> In (l, d) (init_nested nested stored ids) ->
    Nat.odd d = Nat.odd (enclosing nested ids l).
Proof. exact C07_Nest.hole_parity. Qed.
Print Assumptions hole_iff_odd_number_of_enclosing_loops.
