(** C19, s1.Interval (Union). See Proofs/C19_S1.v for the specification side. *)
From Coq Require Import ZArith Reals Floats Lra Bool List.
From Flocq Require Import Core.Core IEEE754.BinarySingleNaN IEEE754.PrimFloat.
From Geo Require Import Base.GoPrim Base.F64 Gen.S1 Proofs.C19_S1.
Local Open Scope R_scope.

(** * Union *)
Lemma s1_union_valid a b : valid_s1 a -> valid_s1 b -> valid_s1 (s1_Interval_Union a b).
Proof.
  open2 a b. s1_unfold. if_reflect; finish.
Qed.

Lemma s1_union_sound a b x : valid_s1 a -> valid_s1 b -> inrange x ->
  mem_s1 a x \/ mem_s1 b x -> mem_s1 (s1_Interval_Union a b) x.
Proof.
  open2 a b. intros Hx. norm_point x Hx. intros Hm. s1_unfold. if_reflect; (spec_unfold; destruct Hm as [[Hm1 [Hm|Hm]]|[Hm1 [Hm|Hm]]]; finish).
Qed.


