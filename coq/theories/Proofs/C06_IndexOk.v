(** C06 — per-instance validation: [index_okb] (Model/Index.v) decides the structural part of
    [index_ok]; reflection lemma, and the bridge from the translated cell-id functions
    (Gen/CellID.v, facts from Proofs/C11_Bits.v and C11_Cells.v) to the cell arithmetic of
    Model/Index.v, so that a validated index satisfies the premise [cells_ok] of the location and
    query theorems. *)
From Coq Require Import ZArith List Bool Lia.
From Geo Require Import Base.GoPrim Gen.CellID Model.Index Proofs.C11_Bits Proofs.C11_Cells Proofs.C06_Index.
Import ListNotations.
Local Open Scope Z_scope.

(** * The model's lsb / RangeMin / RangeMax agree with the translated ones on valid ids *)
Lemma lsbZ_odd_pow2 q l : 0 <= q -> 0 <= l -> lsbZ ((2 * q + 1) * 2 ^ l) = 2 ^ l.
Proof.
  intros Hq Hl. revert l Hl. apply natlike_ind.
  - rewrite Z.pow_0_r, Z.mul_1_r. destruct q as [|p|p]; [reflexivity|reflexivity|lia].
  - intros l Hl IH. rewrite Z.pow_succ_r by lia.
    replace ((2 * q + 1) * (2 * 2 ^ l)) with (2 * ((2 * q + 1) * 2 ^ l)) by ring.
    assert (0 < (2 * q + 1) * 2 ^ l) as Hpos by (apply Z.mul_pos_pos; [lia|apply Z.pow_pos_nonneg; lia]).
    destruct ((2 * q + 1) * 2 ^ l) as [|p|p] eqn:E; try lia.
    cbn [Z.mul Pos.mul lsbZ lsb_pos] in *. rewrite <- IH. reflexivity.
Qed.

Lemma cellform_lsbZ c s : cellform c s -> lsbZ c = 4 ^ s.
Proof.
  intros H. destruct (cellform_split _ _ H) as [Hc Hq]. destruct H as (Hs & _).
  rewrite pow4 in Hc, Hq |- * by lia. rewrite Hc at 1. apply lsbZ_odd_pow2; lia.
Qed.

Lemma valid_ranges c : valid c ->
  range_min c = s2_CellID_RangeMin c /\ range_max c = s2_CellID_RangeMax c.
Proof.
  intros V. destruct (valid_cellform _ V) as [s H].
  rewrite (rangemin_form _ _ H), (rangemax_form _ _ H). unfold range_min, range_max.
  rewrite (cellform_lsbZ _ _ H). lia.
Qed.

(** * What [index_okb] establishes *)
Record index_ok_struct (numEdges : list Z) (idx : index) : Prop := {
  st_valid : forall pos, 0 <= pos < lenZ idx -> valid (cell_id idx pos);
  (* strictly increasing and pairwise disjoint *)
  st_disjoint : forall i j, 0 <= i < j -> j < lenZ idx ->
    cell_id idx i < cell_id idx j /\ s2_CellID_RangeMax (cell_id idx i) < s2_CellID_RangeMin (cell_id idx j);
  (* every cell has a clipped shape, in increasing shape-id order *)
  st_cell : forall pos, 0 <= pos < lenZ idx ->
    snd (nth_cell idx pos) <> [] /\ increasing (map cl_shape (snd (nth_cell idx pos)));
  (* every clipped shape: shape id and edge ids in range, edge ids sorted and unique, and it has an
     edge or contains the centre *)
  st_clipped : forall pos cl, 0 <= pos < lenZ idx -> In cl (snd (nth_cell idx pos)) ->
    0 <= cl_shape cl < lenZ numEdges /\ increasing (cl_edges cl) /\
    Forall (fun e => 0 <= e < nthZ numEdges (cl_shape cl) 0) (cl_edges cl) /\
    (cl_edges cl <> [] \/ cl_containsCenter cl = true) }.

Lemma increasingb_sound l : increasingb l = true -> increasing l.
Proof.
  induction l as [|x t IH]; intros H; [exact I|].
  cbn [increasingb] in H. apply andb_prop in H as (H1 & H2). cbn [increasing]. split; [|apply IH; exact H2].
  destruct t; [exact I|apply Z.ltb_lt; exact H1].
Qed.

Lemma clipped_okb_sound numEdges cl : clipped_okb numEdges cl = true ->
  0 <= cl_shape cl < lenZ numEdges /\ increasing (cl_edges cl) /\
  Forall (fun e => 0 <= e < nthZ numEdges (cl_shape cl) 0) (cl_edges cl) /\
  (cl_edges cl <> [] \/ cl_containsCenter cl = true).
Proof.
  unfold clipped_okb. intros H.
  apply andb_prop in H as (H & H5). apply andb_prop in H as (H & H4).
  apply andb_prop in H as (H & H3). apply andb_prop in H as (H1 & H2).
  apply Z.leb_le in H1. apply Z.ltb_lt in H2.
  split; [lia|]. split; [apply increasingb_sound; exact H3|]. split.
  - apply Forall_forall. intros e He. rewrite forallb_forall in H4. specialize (H4 e He).
    apply andb_prop in H4 as (Ha & Hb). apply Z.leb_le in Ha. apply Z.ltb_lt in Hb. lia.
  - apply orb_prop in H5 as [H5|H5]; [left|right; exact H5].
    destruct (cl_edges cl); [discriminate|discriminate].
Qed.

Lemma nth_cell_In (idx : index) pos : 0 <= pos < lenZ idx -> In (nth_cell idx pos) idx.
Proof.
  intros H. unfold nth_cell, nthZ, lenZ in *. destruct (pos <? 0) eqn:E; [apply Z.ltb_lt in E; lia|].
  apply nth_In. lia.
Qed.

(** consecutive disjointness plus validity gives it for every pair *)
Lemma cells_disjointb_pairs ids : Forall valid ids -> cells_disjointb ids = true ->
  forall (i j : nat), (i < j < length ids)%nat ->
  nth i ids 0 < nth j ids 0 /\ s2_CellID_RangeMax (nth i ids 0) < s2_CellID_RangeMin (nth j ids 0).
Proof.
  induction ids as [|x t IH]; intros Hv Hd i j Hij; [cbn in Hij; lia|].
  inversion Hv as [|? ? Hx Ht]; subst. cbn [cells_disjointb] in Hd. apply andb_prop in Hd as (Hxy & Hd).
  destruct i as [|i].
  - (* from the head: chain through the successor *)
    destruct j as [|j]; [lia|]. cbn [nth].
    assert (forall j, (j < length t)%nat ->
              x < nth j t 0 /\ s2_CellID_RangeMax x < s2_CellID_RangeMin (nth j t 0)) as Hall.
    { clear j Hij. intros j Hj. destruct t as [|y t']; [cbn in Hj; lia|].
      apply Z.ltb_lt in Hxy. inversion Ht as [|? ? Hy Ht']; subst.
      pose proof (valid_range x Hx) as (_ & Hbx & _). pose proof (valid_range y Hy) as (_ & Hby & _).
      destruct j as [|j]; cbn [nth]; [lia|].
      destruct (IH Ht Hd O (S j)) as (H1 & H2); [cbn [length] in *; lia|]. cbn [nth] in H1, H2.
      assert (In (nth j t' 0) t') as Hin by (apply nth_In; cbn [length] in Hj; lia).
      rewrite Forall_forall in Ht'. pose proof (valid_range _ (Ht' _ Hin)) as (_ & Hbz & _). lia. }
    apply Hall. cbn [length] in Hij. lia.
  - destruct j as [|j]; [lia|]. cbn [nth]. apply IH; [exact Ht|exact Hd|cbn [length] in Hij; lia].
Qed.

Theorem index_okb_sound numEdges idx : index_okb numEdges idx = true -> index_ok_struct numEdges idx.
Proof.
  unfold index_okb. intros H. apply andb_prop in H as (Hcells & Hdis).
  rewrite forallb_forall in Hcells.
  assert (forall pos, 0 <= pos < lenZ idx -> cell_okb numEdges (nth_cell idx pos) = true) as Hc
    by (intros pos Hpos; apply Hcells, nth_cell_In; exact Hpos).
  assert (forall c, In c idx -> valid (fst c)) as Hvalid.
  { intros c Hin. specialize (Hcells c Hin). unfold cell_okb in Hcells.
    repeat (apply andb_prop in Hcells as (Hcells & ?)).
    split; [|assumption]. unfold u64. apply Z.leb_le in Hcells. apply Z.ltb_lt in H3. lia. }
  constructor.
  - intros pos Hpos. apply Hvalid, nth_cell_In; exact Hpos.
  - intros i j Hij Hj.
    assert (Forall valid (cell_ids idx)) as Hv.
    { apply Forall_forall. intros c Hin. unfold cell_ids in Hin. apply in_map_iff in Hin as (c0 & <- & Hin0).
      apply Hvalid; exact Hin0. }
    pose proof (cells_disjointb_pairs (cell_ids idx) Hv Hdis (Z.to_nat i) (Z.to_nat j)) as Hp.
    assert (forall k, 0 <= k -> nth (Z.to_nat k) (cell_ids idx) 0 = cell_id idx k) as Hn.
    { intros k Hk. unfold cell_id, nth_cell, nthZ, cell_ids. destruct (k <? 0) eqn:E; [apply Z.ltb_lt in E; lia|].
      apply (map_nth fst idx (0, []) (Z.to_nat k)). }
    rewrite !Hn in Hp by lia. apply Hp. unfold cell_ids. rewrite map_length. unfold lenZ in Hj. lia.
  - intros pos Hpos. specialize (Hc pos Hpos). unfold cell_okb in Hc.
    repeat (apply andb_prop in Hc as (Hc & ?)).
    split; [|apply increasingb_sound; assumption].
    intros E. rewrite E in H1. discriminate.
  - intros pos cl Hpos Hin. specialize (Hc pos Hpos). unfold cell_okb in Hc.
    apply andb_prop in Hc as (_ & Hcl). rewrite forallb_forall in Hcl.
    apply clipped_okb_sound, Hcl, Hin.
Qed.

(** a validated index satisfies the premise of [locate_spec_*] and [query_eq_brute] *)
Theorem index_ok_struct_cells_ok numEdges idx : index_ok_struct numEdges idx -> cells_ok (cell_ids idx).
Proof.
  intros [Hv Hd _ _]. split.
  - intros i Hi. rewrite cell_ids_len in Hi. rewrite cell_ids_nth.
    pose proof (valid_range _ (Hv i Hi)) as (H0 & Hb & Hmax & _). unfold sentinel.
    change (2 ^ 64 - 1) with (8 * 2 ^ 61 - 1). lia.
  - intros i j Hij Hj. rewrite cell_ids_len in Hj. rewrite !cell_ids_nth.
    destruct (valid_ranges _ (Hv i ltac:(lia))) as (_ & ->).
    destruct (valid_ranges _ (Hv j ltac:(lia))) as (-> & _).
    apply Hd; assumption.
Qed.

(** the edge-list part of [index_ok] ([ok_edges]) for the shapes whose NumEdges were given *)
Theorem index_ok_struct_edges (point : Type) (shapes : list (qshape point)) idx :
  index_ok_struct (map (fun s => lenZ (q_edges s)) shapes) idx ->
  forall pos cl, 0 <= pos < lenZ idx -> In cl (snd (nth_cell idx pos)) ->
  0 <= cl_shape cl < lenZ shapes /\ increasing (cl_edges cl) /\
  Forall (fun e => 0 <= e < lenZ (q_edges (nth_shape point shapes (cl_shape cl)))) (cl_edges cl).
Proof.
  intros H pos cl Hpos Hin. destruct (st_clipped _ _ H pos cl Hpos Hin) as (Hs & Hi & Hf & _).
  unfold lenZ in Hs. rewrite map_length in Hs. fold (lenZ shapes) in Hs.
  split; [exact Hs|]. split; [exact Hi|].
  eapply Forall_impl; [|exact Hf]. intros e He. cbv beta in He.
  unfold nth_shape, nthZ in *. destruct (cl_shape cl <? 0) eqn:E; [apply Z.ltb_lt in E; lia|].
  rewrite (nth_indep _ 0 (lenZ (q_edges (mkQShape 0 (@nil (pedge point)))))) in He
    by (rewrite map_length; unfold lenZ in Hs; lia).
  rewrite (map_nth (fun s => lenZ (q_edges s))) in He. exact He.
Qed.
