(** C10: rectangles — the bounder's running bound only grows, RectBound() is a superset of it,
    unions over cells/loops contain every operand, initBound's pole logic and Invert's rule
    only enlarge.  "Contains" is the code's own [s2_Rect_ContainsLatLng] on valid LatLngs,
    which is what the property speaks about ("the computed latitude/longitude"). *)
From Coq Require Import ZArith Reals Floats Lra Bool List.
From Flocq Require Import Core.Core IEEE754.BinarySingleNaN IEEE754.PrimFloat.
From Geo Require Import Base.GoPrim Base.F64 Gen.Bounds Model.Bounds Proofs.C19_R1 Proofs.C10_S1.
From Geo Require Import Proofs.C19_Expanded Proofs.C19_Remainder.
Import ListNotations.
Local Open Scope R_scope.

Definition PI2 : PrimFloat.float := (0x1.921fb54442d18p+00)%float.
Definition NPI2 : PrimFloat.float := (-0x1.921fb54442d18p+00)%float.
Definition rpi2 : R := rank PI2.
Lemma rank_NPI2 : rank NPI2 = - rpi2.
Proof. change NPI2 with (PrimFloat.opp PI2). apply rank_opp. Qed.
Lemma rpi2_pos : 0 < rpi2.
Proof.
  assert (H : PrimFloat.ltb NPI2 PI2 = true) by reflexivity.
  apply ltb_true_iff in H; try reflexivity. rewrite rank_NPI2 in H. unfold rpi2 in *. lra.
Qed.

(** ** well-formed rectangles and valid LatLngs *)
Definition wf_rect (r : s2_Rect) : Prop := wf1 (s2_Rect_Lat r) /\ valid_s1 (s2_Rect_Lng r).
Definition llv (ll : s2_LatLng) : Prop := s2_LatLng_IsValid ll = true.
Definition has (r : s2_Rect) (ll : s2_LatLng) : Prop := s2_Rect_ContainsLatLng r ll = true.
(** every valid LatLng of [a] is in [b] *)
Definition rsub (a b : s2_Rect) : Prop := forall ll, llv ll -> has a ll -> has b ll.

Lemma rsub_refl a : rsub a a. Proof. intros ll _ H; exact H. Qed.
Lemma rsub_trans a b c : rsub a b -> rsub b c -> rsub a c.
Proof. intros H1 H2 ll V H. apply H2; auto. Qed.

Lemma leb_abs_bound x c : nonnan c ->
  PrimFloat.leb (PrimFloat.abs x) c = true <-> nonnan x /\ - rank c <= rank x <= rank c.
Proof.
  intros Nc. split.
  - intros H. destruct (go_isnan x) eqn:N.
    + rewrite leb_nan_l in H by (rewrite isnan_abs; exact N). discriminate.
    + split; [exact N|]. apply leb_true_iff in H; [|apply nonnan_abs; exact N|exact Nc].
      rewrite rank_abs in H. unfold Rabs in H. destruct (Rcase_abs (rank x)); lra.
  - intros [N H]. apply leb_true_iff; [apply nonnan_abs; exact N|exact Nc|].
    rewrite rank_abs. unfold Rabs. destruct (Rcase_abs (rank x)); lra.
Qed.

Lemma llv_spec ll : llv ll <->
  (nonnan (s2_LatLng_Lat ll) /\ - rpi2 <= rank (s2_LatLng_Lat ll) <= rpi2) /\ vpt (s2_LatLng_Lng ll).
Proof.
  unfold llv, s2_LatLng_IsValid, s1_Angle_Radians, vpt, inrange.
  change (0x1.921fb54442d18p+00)%float with PI2. change (0x1.921fb54442d18p+01)%float with PI.
  rewrite andb_true_iff, (leb_abs_bound _ PI2), (leb_abs_bound _ PI) by reflexivity.
  fold rpi rpi2. tauto.
Qed.

(** the code's test is membership in both coordinate intervals *)
Lemma has_spec r ll : wf_rect r -> llv ll ->
  (has r ll <-> mem1 (s2_Rect_Lat r) (s2_LatLng_Lat ll) /\ mem_s1f (s2_Rect_Lng r) (s2_LatLng_Lng ll)).
Proof.
  intros [W1 W2] V. pose proof V as V'. apply llv_spec in V'. destruct V' as [[Nl _] Vg].
  unfold has, s2_Rect_ContainsLatLng. unfold llv in V. rewrite V. cbn [negb].
  unfold s1_Angle_Radians. rewrite andb_true_iff.
  rewrite (contains_mem _ _ W1 Nl), (s1_contains_mem _ _ W2 Vg). tauto.
Qed.

(** ** Union *)
Lemma rect_union_wf a b : wf_rect a -> wf_rect b -> wf_rect (s2_Rect_Union a b).
Proof.
  intros [A1 A2] [B1 B2]. split; cbn [s2_Rect_Union s2_Rect_Lat s2_Rect_Lng].
  - apply union_wf; assumption.
  - apply s1_union_valid; assumption.
Qed.

Lemma rect_union_has a b ll : wf_rect a -> wf_rect b -> llv ll ->
  has a ll \/ has b ll -> has (s2_Rect_Union a b) ll.
Proof.
  intros Wa Wb V H. pose proof (rect_union_wf a b Wa Wb) as Wu.
  rewrite (has_spec _ _ Wa V), (has_spec _ _ Wb V) in H. rewrite (has_spec _ _ Wu V).
  pose proof V as V'. apply llv_spec in V'. destruct V' as [[Nl _] [Ng Rg]].
  destruct Wa as [A1 A2], Wb as [B1 B2]. cbn [s2_Rect_Union s2_Rect_Lat s2_Rect_Lng]. split.
  - apply union_sound; try assumption. tauto.
  - unfold mem_s1f in *. apply s1_union_sound; try assumption. tauto.
Qed.

Lemma rect_union_sub_l a b : wf_rect a -> wf_rect b -> rsub a (s2_Rect_Union a b).
Proof. intros Wa Wb ll V H. apply rect_union_has; auto. Qed.
Lemma rect_union_sub_r a b : wf_rect a -> wf_rect b -> rsub b (s2_Rect_Union a b).
Proof. intros Wa Wb ll V H. apply rect_union_has; auto. Qed.

(** ** Empty and Full *)
Lemma empty_rect_wf : wf_rect s2_EmptyRect.
Proof. split; [split; reflexivity | apply s1_empty_valid]. Qed.
Lemma full_rect_wf : wf_rect s2_FullRect.
Proof. split; [split; reflexivity | apply s1_full_valid]. Qed.

Lemma full_lng_mem x : inrange x -> mem_s1 s1_FullInterval x.
Proof. apply (proj1 (s1_isfull_spec _ s1_full_valid)). reflexivity. Qed.

Lemma full_rect_has ll : llv ll -> has s2_FullRect ll.
Proof.
  intros V. apply (has_spec _ _ full_rect_wf V). pose proof V as V'. apply llv_spec in V'.
  destruct V' as [[Nl Rl] [Ng Rg]]. split.
  - change (s2_Rect_Lat s2_FullRect) with (mk_r1_Interval NPI2 PI2).
    unfold mem1. cbn [r1_Interval_Lo r1_Interval_Hi]. rewrite rank_NPI2. fold rpi2. exact Rl.
  - unfold mem_s1f. apply full_lng_mem. exact Rg.
Qed.
Lemma rsub_full a : rsub a s2_FullRect.
Proof. intros ll V _. apply full_rect_has; exact V. Qed.

Lemma empty_rect_has_nothing ll : ~ has s2_EmptyRect ll.
Proof.
  unfold has, s2_Rect_ContainsLatLng. destruct (negb (s2_LatLng_IsValid ll)); [discriminate|].
  cbn. unfold r1_Interval_Contains. cbn. unfold s1_Angle_Radians.
  intros H. apply andb_true_iff in H. destruct H as [H _]. apply andb_true_iff in H. destruct H as [H1 H2].
  destruct (go_isnan (s2_LatLng_Lat ll)) eqn:N.
  - rewrite leb_nan_l in H2 by exact N. discriminate.
  - apply leb_true_iff in H1; [|reflexivity|exact N]. apply leb_true_iff in H2; [|exact N|reflexivity].
    assert (E : PrimFloat.ltb 0%float 1%float = true) by reflexivity.
    apply ltb_true_iff in E; try reflexivity. lra.
Qed.
Lemma rsub_empty b : rsub s2_EmptyRect b.
Proof. intros ll _ H. exfalso. exact (empty_rect_has_nothing ll H). Qed.

(** ** AddPoint of a valid LatLng: wf, keeps everything, contains the point *)
Lemma s1_addpoint_valid i p : valid_s1 i -> vpt p -> valid_s1 (s1_Interval_AddPoint i p).
Proof.
  destruct i as [lo hi]. intros Hv [Np Rp]. open_valid.
  unfold s1_Interval_AddPoint.
  destruct (PrimFloat.ltb PI (PrimFloat.abs p)) eqn:E0; pi_consts; rewrite ?E0.
  { spec_unfold. repeat split; try assumption; try lra. }
  destruct (norm_float p Np) as [N' E']. cbn zeta in N', E'.
  assert (Rn : - rpi < normR (rank p) <= rpi) by (apply normR_range; unfold inrange; lra).
  set (p' := if PrimFloat.eqb p NPI then PI else p) in *. clearbody p'.
  s1_unfold.
  if_reflect;
  spec_unfold; rewrite <- ?E' in *; repeat split; try assumption; try lra; intros; try lra;
  try (exfalso; intuition lra).
Qed.

Lemma s1_addpoint_sound i p x : valid_s1 i -> vpt p -> inrange x ->
  mem_s1 i x \/ normR x = normR (rank p) -> mem_s1 (s1_Interval_AddPoint i p) x.
Proof.
  destruct i as [lo hi]. intros Hv [Np Rp] Hx Hm. open_valid.
  unfold s1_Interval_AddPoint.
  assert (E0 : PrimFloat.ltb PI (PrimFloat.abs p) = false).
  { apply ltb_false_iff; [reflexivity|apply nonnan_abs; assumption|]. rewrite rank_abs. fold rpi.
    unfold Rabs. destruct (Rcase_abs (rank p)); lra. }
  pi_consts. rewrite E0.
  destruct (norm_float p Np) as [N' E']. cbn zeta in N', E'.
  assert (Rn : - rpi < normR (rank p) <= rpi) by (apply normR_range; unfold inrange; lra).
  set (p' := if PrimFloat.eqb p NPI then PI else p) in *. clearbody p'.
  assert (Ry : - rpi < normR x <= rpi) by (apply normR_range; unfold inrange; lra).
  unfold mem_s1 in *. generalize dependent (normR x). intros y Hm Ry.
  rewrite <- E' in *. clear E'.
  s1_unfold.
  if_reflect;
  spec_unfold; destruct Hm as [[Hm1 [Hm|Hm]]|Hm]; repeat split; try assumption; try lra.
Qed.

Lemma rect_addpoint_wf r ll : wf_rect r -> llv ll -> wf_rect (s2_Rect_AddPoint r ll).
Proof.
  intros [W1 W2] V. pose proof V as V'. apply llv_spec in V'. destruct V' as [[Nl Rl] Vg].
  unfold s2_Rect_AddPoint. unfold llv in V. rewrite V. cbn [negb]. unfold s1_Angle_Radians.
  split; cbn [s2_Rect_Lat s2_Rect_Lng].
  - apply addpoint_wf; assumption.
  - apply s1_addpoint_valid; assumption.
Qed.

Lemma rect_addpoint_has r ll q : wf_rect r -> llv ll -> llv q ->
  has r q \/ q = ll -> has (s2_Rect_AddPoint r ll) q.
Proof.
  intros W V Vq H. pose proof (rect_addpoint_wf r ll W V) as W'.
  rewrite (has_spec _ _ W' Vq). rewrite (has_spec _ _ W Vq) in H.
  destruct W as [W1 W2].
  pose proof V as V'. apply llv_spec in V'. destruct V' as [[Nl Rl] Vg].
  pose proof Vq as Vq'. apply llv_spec in Vq'. destruct Vq' as [[Nql Rql] [Nqg Rqg]].
  unfold s2_Rect_AddPoint. unfold llv in V. rewrite V. cbn [negb s2_Rect_Lat s2_Rect_Lng].
  unfold s1_Angle_Radians. split.
  - apply addpoint_sound; try assumption. destruct H as [[H _]| ->]; [left; exact H|right; reflexivity].
  - unfold mem_s1f in *. apply s1_addpoint_sound; try assumption.
    destruct H as [[_ H]| ->]; [left; exact H|right; reflexivity].
Qed.

(** ** PolarClosure only widens the longitude range *)
Lemma polar_closure_wf r : wf_rect r -> wf_rect (s2_Rect_PolarClosure r).
Proof.
  intros [W1 W2]. unfold s2_Rect_PolarClosure.
  destruct (_ || _); [split; [exact W1|apply s1_full_valid] | split; assumption].
Qed.
Lemma polar_closure_sup r : wf_rect r -> rsub r (s2_Rect_PolarClosure r).
Proof.
  intros W ll V H. pose proof (polar_closure_wf r W) as W'.
  rewrite (has_spec _ _ W' V). rewrite (has_spec _ _ W V) in H. destruct H as [H1 H2].
  unfold s2_Rect_PolarClosure. destruct (_ || _); cbn [s2_Rect_Lat s2_Rect_Lng]; split; auto.
  unfold mem_s1f. apply full_lng_mem. apply llv_spec in V. apply V.
Qed.

(** ** The bounder: every AddPoint only enlarges the running bound and absorbs the edge's
    rectangle.  The well-formedness of each edge rectangle (no NaN endpoint) is a premise: it
    depends on libm results (see [bounder_nan_refuted] in C10_Refuted.v for an input where
    it fails on the unchanged code). *)
Definition LL (p : s2_Point) : s2_LatLng := s2_LatLngFromPoint p.

Definition step_ok (r : bounder) (b : s2_Point) : Prop :=
  llv (LL b) /\
  (s2_Rect_IsEmpty (bd_bound r) = false -> wf_rect (edge_rect (bd_a r) b (bd_aLL r) (LL b))).

Lemma add_point_step r b : wf_rect (bd_bound r) -> step_ok r b ->
  wf_rect (bd_bound (add_point r b)) /\
  rsub (bd_bound r) (bd_bound (add_point r b)) /\
  (s2_Rect_IsEmpty (bd_bound r) = true -> has (bd_bound (add_point r b)) (LL b)) /\
  (s2_Rect_IsEmpty (bd_bound r) = false ->
     rsub (edge_rect (bd_a r) b (bd_aLL r) (LL b)) (bd_bound (add_point r b))).
Proof.
  intros W [V We]. unfold add_point. fold (LL b).
  destruct (s2_Rect_IsEmpty (bd_bound r)) eqn:E; cbn [bd_bound].
  - split; [apply rect_addpoint_wf; assumption|]. split; [|split].
    + intros ll Vl H. apply rect_addpoint_has; auto.
    + intros _. apply rect_addpoint_has; auto.
    + discriminate.
  - specialize (We eq_refl).
    destruct (edge_tag (bd_a r) b (bd_aLL r) (LL b) =? 0)%Z eqn:T; cbn [bd_bound].
    + split; [apply full_rect_wf|]. split; [apply rsub_full|]. split; [discriminate|].
      intros _. apply rsub_full.
    + split; [apply rect_union_wf; assumption|]. split; [apply rect_union_sub_l; assumption|].
      split; [discriminate|]. intros _. apply rect_union_sub_r; assumption.
Qed.

Fixpoint chain_ok (r : bounder) (pts : list s2_Point) : Prop :=
  match pts with
  | [] => True
  | p :: t => step_ok r p /\ chain_ok (add_point r p) t
  end.

Lemma bounder_grows pts : forall r, wf_rect (bd_bound r) -> chain_ok r pts ->
  wf_rect (bd_bound (fold_left add_point pts r)) /\
  rsub (bd_bound r) (bd_bound (fold_left add_point pts r)).
Proof.
  induction pts as [|p t IH]; intros r W C; cbn [fold_left].
  - split; [exact W|apply rsub_refl].
  - destruct C as [S C]. destruct (add_point_step r p W S) as [W' [G _]].
    destruct (IH _ W' C) as [W'' G']. split; [exact W''|]. eapply rsub_trans; eassumption.
Qed.

(** the bound after the whole chain contains the rectangle of every edge and every
    intermediate bound *)
Theorem bounder_monotone pre p post r : wf_rect (bd_bound r) ->
  chain_ok r (pre ++ p :: post) ->
  let ri := fold_left add_point pre r in
  let rf := fold_left add_point (pre ++ p :: post) r in
  wf_rect (bd_bound rf) /\
  rsub (bd_bound ri) (bd_bound rf) /\
  (s2_Rect_IsEmpty (bd_bound ri) = true -> has (bd_bound rf) (LL p)) /\
  (s2_Rect_IsEmpty (bd_bound ri) = false ->
     rsub (edge_rect (bd_a ri) p (bd_aLL ri) (LL p)) (bd_bound rf)).
Proof.
  intros W C ri rf. subst ri rf. rewrite fold_left_app. cbn [fold_left].
  revert r W C. induction pre as [|q pre IH]; intros r W C; cbn [fold_left app] in *.
  - destruct C as [S C]. destruct (add_point_step r p W S) as [W' [G [F Ed]]].
    destruct (bounder_grows post _ W' C) as [W'' G'].
    split; [exact W''|]. split; [eapply rsub_trans; eassumption|]. split.
    + intros E. apply G'; [apply S|]. apply F; exact E.
    + intros E. eapply rsub_trans; [apply Ed; exact E|exact G'].
  - destruct C as [S C]. destruct (add_point_step r q W S) as [W' _]. apply IH; assumption.
Qed.

(** ** RectBound() = expanded(2 eps, 0).PolarClosure() contains the running bound.
    Soundness of the two interval expansions by a non-negative margin is C19's
    [C19_r1_expanded_sound] (Proofs/C19_Expanded.v) and [C19_s1_expanded_sound]
    (Proofs/C19_Remainder.v, which proves math.Remainder(x, 2 pi) exact); the theorems of this
    section are closed. *)
Section RectBound.
  Lemma validlat_intersection_sup i : wf1 i ->
    wf1 (r1_Interval_Intersection i s2_validRectLatRange) /\
    forall p, nonnan p -> - rpi2 <= rank p <= rpi2 -> mem1 i p ->
      mem1 (r1_Interval_Intersection i s2_validRectLatRange) p.
  Proof.
    intros W. assert (Wv : wf1 s2_validRectLatRange) by (split; reflexivity).
    split; [apply intersection_wf; assumption|]. intros p Np Rp H.
    apply intersection_exact; try assumption. split; [exact H|].
    change s2_validRectLatRange with (mk_r1_Interval NPI2 PI2).
    unfold mem1. cbn [r1_Interval_Lo r1_Interval_Hi]. rewrite rank_NPI2. fold rpi2. exact Rp.
  Qed.

  Definition margin_ok (m : s2_LatLng) : Prop :=
    nonnan (s2_LatLng_Lat m) /\ (0 <= rank (s2_LatLng_Lat m) < top) /\
    nonnan (s2_LatLng_Lng m) /\ (0 <= rank (s2_LatLng_Lng m) < top).

  Lemma expanded_sup r m : wf_rect r -> margin_ok m ->
    wf_rect (s2_Rect_expanded r m) /\ rsub r (s2_Rect_expanded r m).
  Proof.
    intros [W1 W2] [M1 [M2 [M3 M4]]]. unfold s2_Rect_expanded, s1_Angle_Radians.
    destruct (C19_r1_expanded_sound _ _ W1 M1 M2) as [E1 S1].
    destruct (C19_s1_expanded_sound _ _ W2 M3 M4) as [E2 S2].
    destruct (validlat_intersection_sup _ E1) as [I1 I2].
    set (lat := r1_Interval_Expanded _ _) in *. set (lng := s1_Interval_Expanded _ _) in *.
    destruct (r1_Interval_IsEmpty lat || s1_Interval_IsEmpty lng) eqn:E.
    - split; [apply empty_rect_wf|]. intros ll V H. exfalso.
      rewrite (has_spec _ _ (conj W1 W2) V) in H. destruct H as [H1 H2].
      pose proof V as V'. apply llv_spec in V'. destruct V' as [[Nl Rl] [Ng Rg]].
      apply orb_true_iff in E. destruct E as [E|E].
      + apply (proj1 (isempty_spec _ E1) E (s2_LatLng_Lat ll) Nl). apply S1; assumption.
      + apply (proj1 (s1_isempty_spec _ E2) E (rank (s2_LatLng_Lng ll)) Rg). apply S2; assumption.
    - assert (W' : wf_rect (mk_s2_Rect (r1_Interval_Intersection lat s2_validRectLatRange) lng))
        by (split; assumption).
      split; [exact W'|]. intros ll V H. rewrite (has_spec _ _ W' V).
      rewrite (has_spec _ _ (conj W1 W2) V) in H. destruct H as [H1 H2].
      pose proof V as V'. apply llv_spec in V'. destruct V' as [[Nl Rl] [Ng Rg]].
      cbn [s2_Rect_Lat s2_Rect_Lng]. split.
      + apply I2; try assumption. apply S1; assumption.
      + unfold mem_s1f in *. apply S2; assumption.
  Qed.

  (** RectBounder.RectBound() contains the accumulated bound *)
  Theorem rect_bound_sup r : wf_rect (bd_bound r) ->
    wf_rect (rect_bound r) /\ rsub (bd_bound r) (rect_bound r).
  Proof.
    intros W. unfold rect_bound.
    assert (M : margin_ok (mk_s2_LatLng c_2eps 0)).
    { unfold margin_ok. cbn [s2_LatLng_Lat s2_LatLng_Lng]. rewrite rank_zero.
      assert (A : PrimFloat.ltb 0%float c_2eps = true) by reflexivity.
      apply ltb_true_iff in A; try reflexivity. rewrite rank_zero in A.
      assert (B : PrimFloat.ltb c_2eps infinity = true) by reflexivity.
      apply ltb_true_iff in B; try reflexivity. rewrite rank_infinity in B.
      pose proof top_pos. repeat split; try reflexivity; lra. }
    destruct (expanded_sup _ _ W M) as [W' G].
    split; [apply polar_closure_wf; exact W'|].
    eapply rsub_trans; [exact G|apply polar_closure_sup; exact W'].
  Qed.

  (** the whole pipeline: the final RectBound() of a chain contains every intermediate
      running bound and every edge rectangle *)
  Theorem rect_bound_contains_edges pre p post : chain_ok new_bounder (pre ++ p :: post) ->
    let ri := fold_left add_point pre new_bounder in
    let rb := rect_bound (bounder_run (pre ++ p :: post)) in
    rsub (bd_bound ri) rb /\
    (s2_Rect_IsEmpty (bd_bound ri) = true -> has rb (LL p)) /\
    (s2_Rect_IsEmpty (bd_bound ri) = false -> rsub (edge_rect (bd_a ri) p (bd_aLL ri) (LL p)) rb).
  Proof.
    intros C ri rb. subst ri rb. unfold bounder_run.
    destruct (bounder_monotone pre p post new_bounder empty_rect_wf C) as [W [G [F Ed]]].
    destruct (rect_bound_sup _ W) as [_ S]. split; [|split].
    - eapply rsub_trans; eassumption.
    - intros E. apply S; [|apply F; exact E]. clear - C.
      revert C. generalize new_bounder. induction pre as [|q pre IH]; intros r C; cbn in C.
      + apply C.
      + apply (IH _ (proj2 C)).
    - intros E. eapply rsub_trans; [apply Ed; exact E|exact S].
  Qed.
  (** ExpandForSubregions: on a non-empty bound it returns either the full rectangle or the
      polar closure of the bound expanded by exactly 9 dblEpsilon in latitude (twice the 4.5
      dblEpsilon one-sided error budget of AddPoint+RectBound, as documented) and by 0 or pi
      in longitude.  The constant is consumed from the generated code: changing it breaks
      this proof. *)
  Definition c_9eps : PrimFloat.float := (0x1.2p-49)%float.   (* 9 * 2^-52 *)

  Lemma expand_for_subregions_shape b : s2_Rect_IsEmpty b = false ->
    s2_ExpandForSubregions b = s2_FullRect \/
    exists lngExp, (lngExp = 0%float \/ lngExp = c_pi) /\
      s2_ExpandForSubregions b = s2_Rect_PolarClosure (s2_Rect_expanded b (mk_s2_LatLng c_9eps lngExp)).
  Proof.
    intros E. unfold s2_ExpandForSubregions. rewrite E.
    repeat match goal with
    | |- context [if ?c then _ else _] => destruct c
    end; cbv zeta; try (left; reflexivity);
    right; (exists 0%float; split; [left; reflexivity|reflexivity]) ||
           (exists c_pi; split; [right; reflexivity|reflexivity]).
  Qed.

  (** hence the subregion bound contains the bound it was computed from *)
  Theorem expand_for_subregions_sup b : wf_rect b -> rsub b (s2_ExpandForSubregions b).
  Proof.
    intros W. destruct (s2_Rect_IsEmpty b) eqn:E.
    - unfold s2_ExpandForSubregions. rewrite E. apply rsub_refl.
    - destruct (expand_for_subregions_shape b E) as [->|[m [Hm ->]]]; [apply rsub_full|].
      assert (M : margin_ok (mk_s2_LatLng c_9eps m)).
      { unfold margin_ok. cbn [s2_LatLng_Lat s2_LatLng_Lng].
        assert (A : PrimFloat.ltb 0%float c_9eps = true) by reflexivity.
        apply ltb_true_iff in A; try reflexivity. rewrite rank_zero in A.
        assert (B : PrimFloat.ltb c_9eps infinity = true) by reflexivity.
        apply ltb_true_iff in B; try reflexivity. rewrite rank_infinity in B.
        pose proof top_pos. pose proof rpi_pos. pose proof rpi_lt_top.
        destruct Hm as [->| ->].
        - rewrite rank_zero. repeat split; try reflexivity; lra.
        - change c_pi with PI. fold rpi. repeat split; try reflexivity; lra. }
      destruct (expanded_sup _ _ W M) as [W' G].
      eapply rsub_trans; [exact G|apply polar_closure_sup; exact W'].
  Qed.
End RectBound.

(** ** Folds of Union (CellUnion.RectBound over the cells, Polygon bound over its shells):
    the result contains every operand. *)
Lemma union_fold_grows rs : forall acc, wf_rect acc -> Forall wf_rect rs ->
  wf_rect (fold_left s2_Rect_Union rs acc) /\ rsub acc (fold_left s2_Rect_Union rs acc).
Proof.
  induction rs as [|r t IH]; intros acc W F; cbn [fold_left].
  - split; [exact W|apply rsub_refl].
  - inversion F as [|? ? Wr Ft]; subst.
    destruct (IH (s2_Rect_Union acc r) (rect_union_wf _ _ W Wr) Ft) as [W' G].
    split; [exact W'|]. apply (rsub_trans _ (s2_Rect_Union acc r)); [apply rect_union_sub_l; assumption|exact G].
Qed.

Theorem union_rect_bound_contains_each rs r : Forall wf_rect rs -> In r rs ->
  rsub r (union_rect_bound rs).
Proof.
  unfold union_rect_bound. generalize s2_EmptyRect, empty_rect_wf.
  induction rs as [|x t IH]; intros acc W F I; [destruct I|].
  inversion F as [|? ? Wx Ft]; subst. cbn [fold_left]. destruct I as [->|I].
  - destruct (union_fold_grows t (s2_Rect_Union acc r) (rect_union_wf _ _ W Wx) Ft) as [_ G].
    apply (rsub_trans _ (s2_Rect_Union acc r)); [apply rect_union_sub_r; assumption|exact G].
  - apply IH; auto. apply rect_union_wf; assumption.
Qed.

(** ** Loop.initBound pole logic and Loop.Invert's rule produce supersets *)
Lemma nonnan_PI2 : nonnan PI2. Proof. reflexivity. Qed.

Theorem init_bound_poles_sup b cn cs : wf_rect b -> rsub b (init_bound_poles b cn cs).
Proof.
  intros W. unfold init_bound_poles.
  set (b1 := if cn then _ else b).
  assert (W1 : wf_rect b1 /\ rsub b b1).
  { subst b1. destruct cn; [|split; [exact W|apply rsub_refl]].
    destruct W as [[Nl Nh] Wg].
    assert (W' : wf_rect (mk_s2_Rect (mk_r1_Interval (r1_Interval_Lo (s2_Rect_Lat b)) c_pi_2) s1_FullInterval)).
    { split; [split; [exact Nl|reflexivity]|apply s1_full_valid]. }
    split; [exact W'|]. intros ll V H.
    rewrite (has_spec _ _ W' V). rewrite (has_spec _ _ (conj (conj Nl Nh) Wg) V) in H.
    destruct H as [[H1 H2] _]. apply llv_spec in V. destruct V as [[Nq Rq] [Ng Rg]].
    split; [|unfold mem_s1f; apply full_lng_mem; exact Rg].
    unfold mem1. cbn [s2_Rect_Lat r1_Interval_Lo r1_Interval_Hi]. change c_pi_2 with PI2. fold rpi2. lra. }
  destruct W1 as [W1 G1].
  destruct (s1_Interval_IsFull (s2_Rect_Lng b1) && cs); [|exact G1].
  eapply rsub_trans; [exact G1|]. destruct W1 as [[Nl Nh] Wg].
  assert (W' : wf_rect (mk_s2_Rect (set_r1_Interval_Lo (s2_Rect_Lat b1) (PrimFloat.opp c_pi_2)) (s2_Rect_Lng b1))).
  { split; [split; [reflexivity|exact Nh]|exact Wg]. }
  intros ll V H. rewrite (has_spec _ _ W' V). rewrite (has_spec _ _ (conj (conj Nl Nh) Wg) V) in H.
  destruct H as [[H1 H2] H3]. split; [|exact H3].
  apply llv_spec in V. destruct V as [[Nq Rq] _].
  unfold mem1, set_r1_Interval_Lo. cbn [s2_Rect_Lat r1_Interval_Lo r1_Interval_Hi].
  change (PrimFloat.opp c_pi_2) with NPI2. rewrite rank_NPI2. lra.
Qed.

(** Invert: whatever the recomputed bound is, the rule never returns less than it, and when it
    takes the shortcut it returns the full rectangle. *)
Theorem invert_bound_sup old recomputed : rsub recomputed (invert_bound old recomputed).
Proof.
  unfold invert_bound. destruct (_ && _); [apply rsub_full|apply rsub_refl].
Qed.
Theorem invert_bound_shortcut_full old recomputed ll : llv ll ->
  PrimFloat.ltb (PrimFloat.opp c_pi_2) (r1_Interval_Lo (s2_Rect_Lat old)) = true ->
  PrimFloat.ltb (r1_Interval_Hi (s2_Rect_Lat old)) c_pi_2 = true ->
  has (invert_bound old recomputed) ll.
Proof.
  intros V H1 H2. unfold invert_bound. rewrite H1, H2. apply full_rect_has; exact V.
Qed.
