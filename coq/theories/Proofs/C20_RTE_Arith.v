(** C20 — discharge of H_RTE_INT: math.RoundToEven (translated from the Go toolchain's bit manipulation)
    returns an integer-valued float for every finite argument. *)
From Coq Require Import ZArith Reals Floats Lia Lra Psatz Bool.
From Flocq Require Import Core.Core IEEE754.BinarySingleNaN IEEE754.PrimFloat.
From Geo Require Import Base.GoPrim Gen.Approx Proofs.C09_F64Bits Proofs.C12_Float.
Local Open Scope Z_scope.

(** * 1. A finite float whose value is an integer is [==] to [float_of_Z] of that integer *)

Lemma BN_of_finite (s : bool) (M : positive) (e : Z) (H : SpecFloat.bounded prec emax M e = true) (k : Z) :
  IZR k = F2R (Float radix2 (cond_Zopp s (Z.pos M)) e) -> BN k = B754_finite s M e H.
Proof.
  intros Ek. unfold BN.
  set (t := B754_finite s M e H : binary_float prec emax).
  pose proof (binary_normalize_correct prec emax Hprec Hmax mode_NE k 0 false) as C. cbv zeta in C.
  assert (EF : F2R (Float radix2 k 0) = B2R t).
  { unfold F2R at 1. simpl Fnum. simpl Fexp. simpl bpow. rewrite Rmult_1_r. rewrite Ek. reflexivity. }
  rewrite EF in C.
  rewrite round_generic in C by (try apply valid_rnd_N; apply generic_format_B2R).
  rewrite Rlt_bool_true in C by apply abs_B2R_lt_emax.
  destruct C as (R & F & S).
  apply B2R_Bsign_inj; auto.
  rewrite S. unfold t. destruct s; simpl.
  - rewrite Rcompare_Lt; [reflexivity|]. apply F2R_lt_0. reflexivity.
  - rewrite Rcompare_Gt; [reflexivity|]. apply F2R_gt_0. reflexivity.
Qed.

Lemma eqb_float_of_Z_finite y s M e k : Prim2SF y = S754_finite s M e ->
  IZR k = F2R (Float radix2 (cond_Zopp s (Z.pos M)) e) ->
  PrimFloat.eqb y (float_of_Z k) = true.
Proof.
  intros Hy Ek. rewrite eqb_equiv, Prim2B_float_of_Z.
  assert (HB : B2SF (Prim2B y) = S754_finite s M e) by (rewrite B2SF_Prim2B; exact Hy).
  destruct (Prim2B y) as [s'|s'| |s' M' e' H'] eqn:EB; try discriminate HB.
  simpl in HB. inversion HB; subst s' M' e'.
  rewrite (BN_of_finite s M e H' k Ek). apply Beqb_refl.
Qed.

(** * 2. Bit patterns of normal floats, and which of them are integers *)

Definition fld_E (b : Z) : Z := (b / 2 ^ 52) mod 2048.
Definition fld_F (b : Z) : Z := b mod 2 ^ 52.

Lemma frombits_normal b : 0 <= b < 2 ^ 64 -> 0 < fld_E b < 2047 ->
  exists M, Z.pos M = fld_F b + 2 ^ 52 /\
    Prim2SF (go_float64frombits b) = S754_finite (2 ^ 63 <=? b) M (fld_E b - 1075).
Proof.
  intros Hb HE. unfold go_float64frombits. cbv zeta. fold (fld_E b). fold (fld_F b).
  replace (fld_E b =? 2047) with false by (symmetry; apply Z.eqb_neq; lia).
  replace (fld_E b =? 0) with false by (symmetry; apply Z.eqb_neq; lia).
  assert (HF : 0 <= fld_F b < 2 ^ 52) by (unfold fld_F; apply Z.mod_pos_bound; lia).
  assert (HM : 2 ^ 52 <= fld_F b + 2 ^ 52 < 2 ^ 53) by (change (2 ^ 53) with (2 * 2 ^ 52); lia).
  destruct (fld_F b + 2 ^ 52) as [|M|M] eqn:EM; try lia.
  exists M. split; [reflexivity|].
  pose proof (normalize_canonical M (fld_E b - 1075) (bounded_normal M (fld_E b - 1075) HM ltac:(lia))) as N.
  destruct (2 ^ 63 <=? b).
  - rewrite prim2sf_opp, N. reflexivity.
  - exact N.
Qed.

Lemma cond_Zopp_mul s a c : cond_Zopp s (a * c) = cond_Zopp s a * c.
Proof. destruct s; simpl; ring. Qed.

Lemma frombits_int b : 0 <= b < 2 ^ 64 -> 1023 <= fld_E b < 2047 ->
  (1075 <= fld_E b \/ (fld_F b + 2 ^ 52) mod 2 ^ (1075 - fld_E b) = 0) ->
  exists k, PrimFloat.eqb (go_float64frombits b) (float_of_Z k) = true.
Proof.
  intros Hb HE Hint.
  destruct (frombits_normal b Hb ltac:(lia)) as (M & EM & HSF).
  set (s := 2 ^ 63 <=? b) in *. set (E := fld_E b) in *.
  destruct (Z_le_gt_dec 1075 E) as [Hge|Hlt].
  - exists (cond_Zopp s (Z.pos M) * 2 ^ (E - 1075)).
    eapply eqb_float_of_Z_finite; [exact HSF|].
    unfold F2R. simpl Fnum. simpl Fexp. rewrite mult_IZR. f_equal.
    change 2 with (radix_val radix2) at 1. rewrite IZR_Zpower by lia. reflexivity.
  - destruct Hint as [Hint|Hint]; [lia|]. rewrite <- EM in Hint.
    set (n := 1075 - E) in *. assert (Hn : 0 < n) by (unfold n; lia).
    assert (HP : 0 < 2 ^ n) by (apply Z.pow_pos_nonneg; lia).
    apply Z.div_exact in Hint; [|lia].
    set (q := Z.pos M / 2 ^ n) in *.
    exists (cond_Zopp s q).
    eapply eqb_float_of_Z_finite; [exact HSF|].
    unfold F2R. simpl Fnum. simpl Fexp. replace (E - 1075) with (- n) by (unfold n; lia).
    rewrite bpow_opp. rewrite <- IZR_Zpower by lia. change (radix_val radix2) with 2.
    rewrite Hint, Z.mul_comm, cond_Zopp_mul, mult_IZR.
    field. apply IZR_neq. lia.
Qed.

(** * 3. The bit pattern of a finite float *)

Lemma bounded_facts m e : SpecFloat.bounded prec emax m e = true ->
  Z.pos m < 2 ^ 53 /\ -1074 <= e <= 971 /\ (Z.pos m < 2 ^ 52 -> e = -1074).
Proof.
  unfold SpecFloat.bounded, SpecFloat.canonical_mantissa. intros H. apply andb_true_iff in H. destruct H as [H1 H2].
  apply Zeq_bool_eq in H1. apply Zle_bool_imp_le in H2. rewrite Zpos_digits2_pos in H1.
  pose proof (Zdigits_correct radix2 (Z.pos m)) as D. cbn [Z.abs] in D.
  set (d := Zdigits radix2 (Z.pos m)) in *.
  assert (Hd : 0 < d) by (apply Zdigits_gt_0; discriminate).
  unfold SpecFloat.fexp, SpecFloat.emin, prec, emax in *.
  assert (d <= 53) by lia.
  assert (U : Z.pos m < 2 ^ 53).
  { destruct D as [_ D]. eapply Z.lt_le_trans; [exact D|]. change (Zpower radix2 d) with (2 ^ d). apply Z.pow_le_mono_r; lia. }
  split; [exact U|]. split; [lia|]. intros Hs.
  assert (d <= 52).
  { destruct (Z_le_gt_dec d 52) as [L|G]; [exact L|]. exfalso. assert (E53 : d = 53) by lia.
    destruct D as [D _]. rewrite E53 in D. change (Zpower radix2 (53 - 1)) with (2 ^ 52) in D. lia. }
  lia.
Qed.

Lemma bits_decomp x : go_isnan x = false -> go_isinf x 0 = false ->
  exists S E F, go_float64bits x = S + E * 2 ^ 52 + F /\ (S = 0 \/ S = 2 ^ 63) /\ 0 <= E <= 2046 /\ 0 <= F < 2 ^ 52.
Proof.
  intros Hn Hi. unfold go_float64bits.
  destruct (Prim2SF x) as [s|s| |s m e] eqn:EQ.
  - exists (if s then 2 ^ 63 else 0), 0, 0. destruct s; repeat split; try lia; auto.
  - exfalso. rewrite <- (SF2Prim_Prim2SF x), EQ in Hi. destruct s; vm_compute in Hi; discriminate.
  - exfalso. rewrite <- (SF2Prim_Prim2SF x), EQ in Hn. vm_compute in Hn. discriminate.
  - pose proof (Prim2SF_valid x) as V. rewrite EQ in V. simpl in V.
    destruct (bounded_facts m e V) as (U & Er & Sub).
    cbv zeta. destruct (Z.pos m <? 2 ^ 52) eqn:L.
    + apply Z.ltb_lt in L. exists (if s then 2 ^ 63 else 0), 0, (Z.pos m).
      destruct s; repeat split; try lia; auto.
    + apply Z.ltb_ge in L. exists (if s then 2 ^ 63 else 0), (e + 1075), (Z.pos m - 2 ^ 52).
      change (2 ^ 53) with (2 * 2 ^ 52) in U.
      destruct s; repeat split; try lia; auto.
Qed.

Lemma fields_of_decomp S E F : (S = 0 \/ S = 2 ^ 63) -> 0 <= E <= 2046 -> 0 <= F < 2 ^ 52 ->
  let b := S + E * 2 ^ 52 + F in
  0 <= b < 2 ^ 64 /\ fld_E b = E /\ fld_F b = F /\ (2 ^ 63 <=? b) = (S =? 2 ^ 63).
Proof.
  intros HS HE HF b. unfold fld_E, fld_F, b.
  change (2 ^ 64) with 18446744073709551616. change (2 ^ 63) with 9223372036854775808 in *.
  change (2 ^ 52) with 4503599627370496 in *.
  destruct HS as [-> | ->]; repeat split; try lia;
  try (apply Z.leb_gt; lia); try (apply Z.leb_le; lia);
  Z.div_mod_to_equations; lia.
Qed.

(** * 4. The bit manipulation of math.RoundToEven *)

Definition rte_bits (v_bits : Z) : Z :=
  let v_e := (Z.land (wrap_u64 (go_shr v_bits 52%Z)) 2047%Z) in
  let '(v_e, v_bits) := (if (Z.leb 1023%Z v_e) then (let v_e := (wrap_u64 (Z.sub v_e 1023%Z)) in
    let v_bits := (wrap_u64 (Z.add v_bits (go_shr (wrap_u64 (Z.add 2251799813685247%Z (Z.land (go_shr v_bits (wrap_u64 (Z.sub 52%Z v_e))) 1%Z))) v_e))) in
    let v_bits := (Z.land v_bits (Z.lnot (go_shr 4503599627370495%Z v_e))) in
    (v_e, v_bits)) else (let v_bits := (if ((Z.eqb v_e 1022%Z) && (negb (Z.eqb (Z.land v_bits 4503599627370495%Z) 0%Z))) then (let v_bits := (Z.lor (Z.land v_bits 9223372036854775808%Z) 4607182418800017408%Z) in
    v_bits) else (let v_bits := (Z.land v_bits 9223372036854775808%Z) in
    v_bits)) in
    (v_e, v_bits))) in
  v_bits.

(** the translated function is exactly this (breaks if the toolchain's source changes) *)
Lemma rte_unfold x : math_RoundToEven x = go_float64frombits (rte_bits (go_float64bits x)).
Proof.
  unfold math_RoundToEven, rte_bits. cbv zeta.
  destruct (1023 <=? Z.land (wrap_u64 (go_shr (go_float64bits x) 52)) 2047); reflexivity.
Qed.

Ltac pow_consts := repeat match goal with
  | |- context [2 ^ ?k] => let v := eval vm_compute in (2 ^ k) in change (2 ^ k) with v
  | H : context [2 ^ ?k] |- _ => let v := eval vm_compute in (2 ^ k) in change (2 ^ k) with v in H
  end.

(** the arithmetic of the rounding step, for e = E - 1023 fractional-exponent in 0..51 *)
Definition rte_arith_stmt (e S F : Z) : Prop :=
  let E := e + 1023 in let n := 52 - e in let b := S + E * 2 ^ 52 + F in
  let b' := ((b + (2251799813685247 + (b / 2 ^ n) mod 2) / 2 ^ e) / 2 ^ n) * 2 ^ n in
  0 <= b' < 2 ^ 64 /\ exists E' F', b' = S + E' * 2 ^ 52 + F' /\ E <= E' <= E + 1 /\ 0 <= F' < 2 ^ 52 /\ F' mod 2 ^ n = 0.

Ltac solve_case S HS :=
  unfold rte_arith_stmt; cbv zeta; pow_consts;
  match goal with |- 0 <= ?bp < _ /\ _ =>
    split; [ destruct HS as [-> | ->]; Z.div_mod_to_equations; lia
           | exists ((bp - S) / 4503599627370496), ((bp - S) mod 4503599627370496);
             destruct HS as [-> | ->]; Z.div_mod_to_equations; lia ]
  end.

Lemma rte_arith e S F : 0 <= e < 52 -> (S = 0 \/ S = 2 ^ 63) -> 0 <= F < 2 ^ 52 -> rte_arith_stmt e S F.
Proof.
  intros He HS HF.
  destruct (Z.eq_dec e 0) as [->|N0]; [solve_case S HS|].
  destruct (Z.eq_dec e 1) as [->|N1]; [solve_case S HS|].
  destruct (Z.eq_dec e 2) as [->|N2]; [solve_case S HS|].
  destruct (Z.eq_dec e 3) as [->|N3]; [solve_case S HS|].
  destruct (Z.eq_dec e 4) as [->|N4]; [solve_case S HS|].
  destruct (Z.eq_dec e 5) as [->|N5]; [solve_case S HS|].
  destruct (Z.eq_dec e 6) as [->|N6]; [solve_case S HS|].
  destruct (Z.eq_dec e 7) as [->|N7]; [solve_case S HS|].
  destruct (Z.eq_dec e 8) as [->|N8]; [solve_case S HS|].
  destruct (Z.eq_dec e 9) as [->|N9]; [solve_case S HS|].
  destruct (Z.eq_dec e 10) as [->|N10]; [solve_case S HS|].
  destruct (Z.eq_dec e 11) as [->|N11]; [solve_case S HS|].
  destruct (Z.eq_dec e 12) as [->|N12]; [solve_case S HS|].
  destruct (Z.eq_dec e 13) as [->|N13]; [solve_case S HS|].
  destruct (Z.eq_dec e 14) as [->|N14]; [solve_case S HS|].
  destruct (Z.eq_dec e 15) as [->|N15]; [solve_case S HS|].
  destruct (Z.eq_dec e 16) as [->|N16]; [solve_case S HS|].
  destruct (Z.eq_dec e 17) as [->|N17]; [solve_case S HS|].
  destruct (Z.eq_dec e 18) as [->|N18]; [solve_case S HS|].
  destruct (Z.eq_dec e 19) as [->|N19]; [solve_case S HS|].
  destruct (Z.eq_dec e 20) as [->|N20]; [solve_case S HS|].
  destruct (Z.eq_dec e 21) as [->|N21]; [solve_case S HS|].
  destruct (Z.eq_dec e 22) as [->|N22]; [solve_case S HS|].
  destruct (Z.eq_dec e 23) as [->|N23]; [solve_case S HS|].
  destruct (Z.eq_dec e 24) as [->|N24]; [solve_case S HS|].
  destruct (Z.eq_dec e 25) as [->|N25]; [solve_case S HS|].
  destruct (Z.eq_dec e 26) as [->|N26]; [solve_case S HS|].
  destruct (Z.eq_dec e 27) as [->|N27]; [solve_case S HS|].
  destruct (Z.eq_dec e 28) as [->|N28]; [solve_case S HS|].
  destruct (Z.eq_dec e 29) as [->|N29]; [solve_case S HS|].
  destruct (Z.eq_dec e 30) as [->|N30]; [solve_case S HS|].
  destruct (Z.eq_dec e 31) as [->|N31]; [solve_case S HS|].
  destruct (Z.eq_dec e 32) as [->|N32]; [solve_case S HS|].
  destruct (Z.eq_dec e 33) as [->|N33]; [solve_case S HS|].
  destruct (Z.eq_dec e 34) as [->|N34]; [solve_case S HS|].
  destruct (Z.eq_dec e 35) as [->|N35]; [solve_case S HS|].
  destruct (Z.eq_dec e 36) as [->|N36]; [solve_case S HS|].
  destruct (Z.eq_dec e 37) as [->|N37]; [solve_case S HS|].
  destruct (Z.eq_dec e 38) as [->|N38]; [solve_case S HS|].
  destruct (Z.eq_dec e 39) as [->|N39]; [solve_case S HS|].
  destruct (Z.eq_dec e 40) as [->|N40]; [solve_case S HS|].
  destruct (Z.eq_dec e 41) as [->|N41]; [solve_case S HS|].
  destruct (Z.eq_dec e 42) as [->|N42]; [solve_case S HS|].
  destruct (Z.eq_dec e 43) as [->|N43]; [solve_case S HS|].
  destruct (Z.eq_dec e 44) as [->|N44]; [solve_case S HS|].
  destruct (Z.eq_dec e 45) as [->|N45]; [solve_case S HS|].
  destruct (Z.eq_dec e 46) as [->|N46]; [solve_case S HS|].
  destruct (Z.eq_dec e 47) as [->|N47]; [solve_case S HS|].
  destruct (Z.eq_dec e 48) as [->|N48]; [solve_case S HS|].
  destruct (Z.eq_dec e 49) as [->|N49]; [solve_case S HS|].
  destruct (Z.eq_dec e 50) as [->|N50]; [solve_case S HS|].
  destruct (Z.eq_dec e 51) as [->|N51]; [solve_case S HS|].
  exfalso; lia.
Qed.

