(** C03 — the crossing specification is symmetric, says Maybe exactly on a shared vertex, and
    the incremental EdgeCrosser refines it on every history.
    The orientation predicate is an interface: the laws used are Section hypotheses and
    become explicit premises after [End]. *)
From Coq Require Import ZArith List Bool Lia ZifyBool.
From Geo Require Import Model.Crosser.
Import ListNotations.
Local Open Scope Z_scope.
Local Open Scope bool_scope.

Section Laws.
Variable point : Type.
Variable peq : point -> point -> bool.
Variable sign triage : point -> point -> point -> Z.
Variable tangent : point -> point -> point -> point -> bool.
Variable refdir : point -> point.

(** ** Interface laws (proof obligations of the predicate layer, C02) *)
Hypothesis peq_sym : forall a b, peq a b = peq b a.
Hypothesis sign_rotate : forall a b c, sign b c a = sign a b c.
Hypothesis sign_swap : forall a b c, sign c b a = - sign a b c.
Hypothesis sign_zero_iff : forall a b c,
  sign a b c = 0 <-> (peq a b = true \/ peq b c = true \/ peq c a = true).
Hypothesis triage_sound : forall a b c, triage a b c <> 0 -> triage a b c = sign a b c.
(** H-TANGENT: when the tangent early exit fires no vertex is shared and the four exact
    orientations do not agree. *)
Hypothesis tangent_sound : forall a b c d, tangent a b c d = true ->
  shared point peq a b c d = false /\ four_agree point sign a b c d = false.

Notation spec := (crossing_spec point peq sign).
Notation vc := (vertex_crossing point peq sign refdir).
Notation espec := (eov_spec point peq sign refdir).
Notation state := (state point).
Notation chain := (chain point peq sign triage tangent).
Notation slow := (slow point peq sign tangent).
Notation restart_at := (restart_at point triage).
Notation maybe_restart := (maybe_restart point peq triage).
Notation eov_chain := (eov_chain point peq sign triage tangent refdir).
Notation step := (step point peq sign triage tangent refdir).
Notation run := (run point peq sign triage tangent refdir).
Notation expected := (expected point peq sign refdir).
Notation spec_run := (spec_run point peq sign refdir).
Notation eff := (eff point peq).

(** ** Permutations of the arguments of [sign] *)
Lemma sign_132 a b c : sign a c b = - sign a b c.
Proof. rewrite (sign_rotate b a c), (sign_rotate c b a). apply sign_swap. Qed.
Lemma sign_213 a b c : sign b a c = - sign a b c.
Proof. rewrite (sign_rotate c b a). apply sign_swap. Qed.
Lemma sign_312 a b c : sign c a b = sign a b c.
Proof. symmetry. apply (sign_rotate c a b). Qed.

Lemma sign_nz a b c : sign a b c <> 0 ->
  peq a b = false /\ peq b c = false /\ peq c a = false.
Proof.
  intro H. pose proof (proj2 (sign_zero_iff a b c)) as Z.
  destruct (peq a b), (peq b c), (peq c a); auto; exfalso; apply H, Z; auto.
Qed.
Lemma sign_z a b c : peq a b = false -> peq b c = false -> peq c a = false -> sign a b c <> 0.
Proof.
  intros H1 H2 H3 H. apply sign_zero_iff in H. destruct H as [H|[H|H]]; congruence.
Qed.

(** ** Symmetry of the specification *)
Lemma shared_rev1 a b c d : shared point peq b a c d = shared point peq a b c d.
Proof. unfold shared. destruct (peq a c), (peq a d), (peq b c), (peq b d); reflexivity. Qed.
Lemma shared_rev2 a b c d : shared point peq a b d c = shared point peq a b c d.
Proof. unfold shared. destruct (peq a c), (peq a d), (peq b c), (peq b d); reflexivity. Qed.
Lemma shared_swap a b c d : shared point peq c d a b = shared point peq a b c d.
Proof.
  unfold shared. rewrite (peq_sym c a), (peq_sym c b), (peq_sym d a), (peq_sym d b).
  destruct (peq a c), (peq a d), (peq b c), (peq b d); reflexivity.
Qed.
Lemma degenerate_rev1 a b c d : degenerate point peq b a c d = degenerate point peq a b c d.
Proof. unfold degenerate. now rewrite (peq_sym b a). Qed.
Lemma degenerate_rev2 a b c d : degenerate point peq a b d c = degenerate point peq a b c d.
Proof. unfold degenerate. now rewrite (peq_sym d c). Qed.
Lemma degenerate_swap a b c d : degenerate point peq c d a b = degenerate point peq a b c d.
Proof. unfold degenerate. apply orb_comm. Qed.

Lemma four_agree_rev1 a b c d : four_agree point sign b a c d = four_agree point sign a b c d.
Proof.
  unfold four_agree.
  (* BCA = -ACB, CAD = -DAC, ADB = -BDA, DBC = -CBD *)
  pose proof (sign_rotate a b c). pose proof (sign_132 a b c).
  pose proof (sign_swap d a c). pose proof (sign_swap b d a). pose proof (sign_swap c b d).
  lia.
Qed.
Lemma four_agree_rev2 a b c d : four_agree point sign a b d c = four_agree point sign a b c d.
Proof.
  unfold four_agree.
  (* ADB = -BDA, DBC = -CBD, BCA = -ACB, CAD = -DAC *)
  pose proof (sign_rotate a b c). pose proof (sign_132 a b c).
  pose proof (sign_swap d a c). pose proof (sign_swap b d a). pose proof (sign_swap c b d).
  lia.
Qed.
Lemma four_agree_swap a b c d : four_agree point sign c d a b = four_agree point sign a b c d.
Proof.
  unfold four_agree.
  (* CAD = -DAC, ADB = -BDA, DBC = -CBD, BCA = -ACB *)
  pose proof (sign_rotate a b c). pose proof (sign_132 a b c).
  pose proof (sign_swap d a c). pose proof (sign_swap b d a). pose proof (sign_swap c b d).
  lia.
Qed.

Theorem crossing_spec_sym a b c d :
  spec b a c d = spec a b c d /\ spec a b d c = spec a b c d /\ spec c d a b = spec a b c d.
Proof.
  unfold crossing_spec. repeat split.
  - now rewrite (shared_rev1 a b c d), (degenerate_rev1 a b c d), (four_agree_rev1 a b c d).
  - now rewrite (shared_rev2 a b c d), (degenerate_rev2 a b c d), (four_agree_rev2 a b c d).
  - now rewrite (shared_swap a b c d), (degenerate_swap a b c d), (four_agree_swap a b c d).
Qed.

(** ** Maybe exactly when a vertex of one edge is a vertex of the other *)
Theorem maybe_iff_shared_vertex a b c d :
  spec a b c d = MaybeCross <->
  (peq a c = true \/ peq a d = true \/ peq b c = true \/ peq b d = true).
Proof.
  unfold crossing_spec, shared.
  destruct (peq a c), (peq a d), (peq b c), (peq b d); cbn;
    try (split; [intros _; tauto | reflexivity]);
    (split; [ destruct (degenerate point peq a b c d); [discriminate|];
              destruct (four_agree point sign a b c d); discriminate
            | intros [H|[H|[H|H]]]; discriminate ]).
Qed.

(** degenerate edges: never Cross *)
Theorem degenerate_never_cross a b c d :
  peq a b = true \/ peq c d = true -> spec a b c d <> Cross.
Proof.
  intros H. unfold crossing_spec. destruct (shared point peq a b c d); [discriminate|].
  unfold degenerate. destruct H as [-> | ->]; rewrite ?orb_true_r; cbn; discriminate.
Qed.

(** Cross exactly when no two of the four points are equal and the four orientations agree *)
Theorem cross_iff_four_agree a b c d :
  spec a b c d = Cross <->
  (sign a c b = sign c b d /\ sign a c b = sign b d a /\ sign a c b = sign d a c /\ sign a c b <> 0).
Proof.
  unfold crossing_spec. split.
  - destruct (shared point peq a b c d); [discriminate|].
    destruct (degenerate point peq a b c d); [discriminate|].
    destruct (four_agree point sign a b c d) eqn:F; [|discriminate].
    intros _. unfold four_agree in F. lia.
  - intros (H1 & H2 & H3 & H4).
    assert (F : four_agree point sign a b c d = true) by (unfold four_agree; lia).
    rewrite F.
    pose proof (sign_nz _ _ _ H4) as (A1 & A2 & A3).
    assert (H5 : sign c b d <> 0) by lia. pose proof (sign_nz _ _ _ H5) as (B1 & B2 & B3).
    assert (H6 : sign b d a <> 0) by lia. pose proof (sign_nz _ _ _ H6) as (C1 & C2 & C3).
    unfold shared, degenerate.
    rewrite (peq_sym c b) in A2, B1. rewrite (peq_sym b a) in A3. rewrite (peq_sym d c) in B3.
    rewrite (peq_sym d a) in C2.
    rewrite A1, C2, A2, B2, A3, B3. reflexivity.
Qed.

(** ** The crosser refines the specification *)
Definition inv (a b : point) (s : state) : Prop :=
  st_acb point s = 0 \/ st_acb point s = - sign a b (st_c point s).

Lemma triage_cases a b c : triage a b c = 0 \/ triage a b c = sign a b c.
Proof. destruct (Z.eq_dec (triage a b c) 0); [left|right]; auto using triage_sound. Qed.

Lemma restart_inv a b c : inv a b (restart_at a b c).
Proof. unfold inv, restart_at; cbn. destruct (triage_cases a b c) as [->| ->]; auto. Qed.

Lemma chain_correct a b s d : inv a b s ->
  snd (chain a b s d) = spec a b (st_c point s) d /\
  inv a b (fst (chain a b s d)) /\ st_c point (fst (chain a b s d)) = d.
Proof.
  intros I. destruct s as [c acb]. unfold inv in *; cbn [st_c st_acb] in *.
  unfold chain; cbn [st_c st_acb].
  pose proof (triage_cases a b d) as T.
  pose proof (sign_132 a b c) as Pacb. pose proof (sign_rotate a b d) as Pbda.
  pose proof (sign_132 c d b) as Pcbd. pose proof (sign_rotate c d a) as Pdac.
  destruct ((acb =? - triage a b d) && negb (triage a b d =? 0)) eqn:Fast.
  - (* fast path *)
    cbn. split; [|split; [unfold inv; cbn; lia | reflexivity]].
    assert (N1 : sign a b c <> 0) by lia. assert (N2 : sign a b d <> 0) by lia.
    pose proof (sign_nz _ _ _ N1) as (A1 & A2 & A3). pose proof (sign_nz _ _ _ N2) as (B1 & B2 & B3).
    unfold crossing_spec, shared, degenerate, four_agree.
    rewrite (peq_sym c a) in A3. rewrite (peq_sym d a) in B3.
    rewrite A3, B3, A2, B2, A1. cbn.
    destruct (peq c d); [reflexivity|].
    replace ((sign a c b =? sign c b d) && (sign a c b =? sign b d a) && (sign a c b =? sign d a c) &&
             negb (sign a c b =? 0)) with false by lia.
    reflexivity.
  - unfold Crosser.slow; cbn [st_c st_acb].
    destruct (tangent a b c d) eqn:Tan.
    + cbn. split; [|split; [unfold inv; cbn; lia | reflexivity]].
      destruct (tangent_sound _ _ _ _ Tan) as [S F]. unfold crossing_spec. rewrite S, F.
      destruct (degenerate point peq a b c d); reflexivity.
    + fold (shared point peq a b c d). unfold crossing_spec.
      destruct (shared point peq a b c d) eqn:S.
      * cbn. split; [reflexivity|split; [unfold inv; cbn; lia | reflexivity]].
      * fold (degenerate point peq a b c d).
        destruct (degenerate point peq a b c d) eqn:Dg.
        -- cbn. split; [reflexivity|split; [unfold inv; cbn; lia | reflexivity]].
        -- unfold shared in S. unfold degenerate in Dg.
           assert (NZ : sign a c b <> 0).
           { apply sign_z; [lia | rewrite (peq_sym c b); lia | rewrite (peq_sym b a); lia]. }
           unfold four_agree.
           destruct (triage a b d =? 0) eqn:Tz; destruct (acb =? 0) eqn:Az;
             (cbn [fst snd st_c st_acb]; split; [|split; [unfold inv; cbn; lia | reflexivity]]);
             (destruct ((sign a c b =? sign c b d) && (sign a c b =? sign b d a) &&
                        (sign a c b =? sign d a c) && negb (sign a c b =? 0)) eqn:FA;
              [ match goal with |- (if negb (?x =? ?y) then _ else _) = _ =>
                  replace (negb (x =? y)) with false by lia end;
                match goal with |- (if negb (?x =? ?y) then _ else _) = _ =>
                  replace (negb (x =? y)) with false by lia end;
                match goal with |- (if negb (?x =? ?y) then _ else _) = _ =>
                  replace (negb (x =? y)) with false by lia end;
                reflexivity
              | match goal with |- (if negb (?x =? ?y) then _ else _) = _ =>
                  destruct (negb (x =? y)) eqn:E1; [reflexivity|] end;
                match goal with |- (if negb (?x =? ?y) then _ else _) = _ =>
                  destruct (negb (x =? y)) eqn:E2; [reflexivity|] end;
                match goal with |- (if negb (?x =? ?y) then _ else _) = _ =>
                  destruct (negb (x =? y)) eqn:E3; [reflexivity|] end;
                exfalso; lia ]).
Qed.

Lemma maybe_restart_correct a b s c : inv a b s ->
  inv a b (maybe_restart a b s c) /\ st_c point (maybe_restart a b s c) = eff (st_c point s) c.
Proof.
  intros I. unfold Crosser.maybe_restart, Crosser.eff.
  destruct (negb (peq c (st_c point s))); [split; [apply restart_inv | reflexivity] | auto].
Qed.

Lemma eov_chain_correct a b s d : inv a b s ->
  snd (eov_chain a b s d) = espec a b (st_c point s) d /\
  inv a b (fst (eov_chain a b s d)) /\ st_c point (fst (eov_chain a b s d)) = d.
Proof.
  intros I. pose proof (chain_correct a b s d I) as (R & I' & C').
  unfold Crosser.eov_chain, eov_spec.
  destruct (chain a b s d) as [s' r]; cbn [fst snd] in *. subst r. auto.
Qed.

Lemma step_correct a b s o : inv a b s ->
  snd (step a b s o) = expected a b (st_c point s) o /\
  inv a b (fst (step a b s o)) /\ st_c point (fst (step a b s o)) = next_vertex point o.
Proof.
  intros I. destruct o as [c | d | c d | c d | d]; cbn [Crosser.step Crosser.expected next_vertex].
  - cbn. split; [reflexivity | split; [apply restart_inv | reflexivity]].
  - pose proof (chain_correct a b s d I) as (R & I' & C').
    destruct (chain a b s d) as [s' r]; cbn [fst snd] in *. subst r. auto.
  - destruct (maybe_restart_correct a b s c I) as [I1 C1].
    pose proof (chain_correct a b _ d I1) as (R & I' & C'). rewrite C1 in R.
    destruct (chain a b (maybe_restart a b s c) d) as [s' r]; cbn [fst snd] in *. subst r. auto.
  - destruct (maybe_restart_correct a b s c I) as [I1 C1].
    pose proof (eov_chain_correct a b _ d I1) as (R & I' & C'). rewrite C1 in R.
    destruct (eov_chain a b (maybe_restart a b s c) d) as [s' r]; cbn [fst snd] in *. subst r. auto.
  - pose proof (eov_chain_correct a b s d I) as (R & I' & C').
    destruct (eov_chain a b s d) as [s' r]; cbn [fst snd] in *. subst r. auto.
Qed.

(** every output of every history is the specification on (a, b, last vertex, d); the cached
    vertex is the last vertex and the cached orientation is 0 or the exact one, after every step *)
Theorem run_refines a b : forall ops s, inv a b s ->
  map (fun x => (st_c point (fst x), snd x)) (run a b s ops) = spec_run a b (st_c point s) ops /\
  Forall (fun x => inv a b (fst x)) (run a b s ops).
Proof.
  induction ops as [|o rest IH]; intros s I; cbn [Crosser.run Crosser.spec_run map].
  - split; constructor.
  - pose proof (step_correct a b s o I) as (R & I' & C').
    destruct (step a b s o) as [s' r]; cbn [fst snd] in *.
    destruct (IH s' I') as [E F]. cbn [map fst snd]. rewrite E, C', R. split; [reflexivity|].
    constructor; auto.
Qed.

Theorem crosser_refines a b c0 ops :
  map (fun x => (st_c point (fst x), snd x)) (run a b (init point c0) ops) = spec_run a b c0 ops.
Proof. apply (run_refines a b ops (init point c0)). left. reflexivity. Qed.

(** the stateless function is the specification *)
Theorem stateless_eq a b c d : crossing_sign point peq sign triage tangent a b c d = spec a b c d.
Proof.
  unfold crossing_sign. pose proof (chain_correct a b (restart_at a b c) d (restart_inv a b c)) as (R & _).
  exact R.
Qed.

Theorem eov_stateless_eq a b c d :
  edge_or_vertex_crossing point peq sign triage tangent refdir a b c d = espec a b c d.
Proof. unfold edge_or_vertex_crossing, eov_spec. now rewrite stateless_eq. Qed.

(** hence: any history (chained, restarted, mixed) answers like the stateless functions *)
Theorem crosser_eq_stateless a b c0 ops :
  map (fun x => (st_c point (fst x), snd x)) (run a b (init point c0) ops) =
  stateless_run point peq sign triage tangent refdir a b c0 ops.
Proof.
  rewrite crosser_refines. generalize c0. induction ops as [|o rest IH]; intro p; cbn; [reflexivity|].
  rewrite IH. f_equal. f_equal.
  destruct o; cbn; rewrite ?stateless_eq, ?eov_stateless_eq; reflexivity.
Qed.

(** ** [expensiveSign] is only consulted where the triage value is 0 *)
(** The model writes [sign] (RobustSign) where the Go code calls expensiveSign.  Those calls
    happen only when the cached acb (resp. the fresh bda) is 0; this invariant shows the cached
    value is 0 only when triageSign of that triple is 0, where RobustSign = expensiveSign. *)
Definition inv_tri (a b : point) (s : state) : Prop :=
  st_acb point s = - triage a b (st_c point s) \/
  (triage a b (st_c point s) = 0 /\ st_acb point s = - sign a b (st_c point s)).

Lemma chain_inv_tri a b s d : inv_tri a b (fst (chain a b s d)).
Proof.
  destruct s as [c acb]. unfold chain, Crosser.slow, inv_tri; cbn [st_c st_acb].
  destruct ((acb =? - triage a b d) && negb (triage a b d =? 0)); cbn; [auto|].
  destruct (tangent a b c d); cbn; [auto|].
  destruct (peq a c || peq a d || peq b c || peq b d); cbn; [auto|].
  destruct (peq a b || peq c d); cbn; [auto|].
  destruct (triage a b d =? 0) eqn:E; [right; split; [lia | reflexivity] | auto].
Qed.

Theorem run_expensive_justified a b : forall ops s, inv_tri a b s ->
  Forall (fun x => inv_tri a b (fst x)) (run a b s ops).
Proof.
  induction ops as [|o rest IH]; intros s I; cbn [Crosser.run]; [constructor|].
  assert (I' : inv_tri a b (fst (step a b s o))).
  { destruct o as [c | d | c d | c d | d]; cbn [Crosser.step].
    - cbn. left. reflexivity.
    - pose proof (chain_inv_tri a b s d). destruct (chain a b s d); assumption.
    - pose proof (chain_inv_tri a b (maybe_restart a b s c) d).
      destruct (chain a b (maybe_restart a b s c) d); assumption.
    - pose proof (chain_inv_tri a b (maybe_restart a b s c) d). unfold Crosser.eov_chain.
      destruct (chain a b (maybe_restart a b s c) d); assumption.
    - pose proof (chain_inv_tri a b s d). unfold Crosser.eov_chain.
      destruct (chain a b s d); assumption. }
  destruct (step a b s o) as [s' r]; cbn [fst] in *. constructor; auto.
Qed.

End Laws.

(** * The crosser only consults the tangent test of its own fixed edge *)
Section TangentExt.
Variable point : Type.
Variable peq : point -> point -> bool.
Variable sign triage : point -> point -> point -> Z.
Variables tangent1 tangent2 : point -> point -> point -> point -> bool.
Variable refdir : point -> point.
Variables a b : point.
Hypothesis same : forall c d, tangent1 a b c d = tangent2 a b c d.

Lemma chain_tangent_ext s d :
  chain point peq sign triage tangent1 a b s d = chain point peq sign triage tangent2 a b s d.
Proof. unfold chain, slow. now rewrite same. Qed.

Lemma step_tangent_ext s o :
  step point peq sign triage tangent1 refdir a b s o = step point peq sign triage tangent2 refdir a b s o.
Proof.
  destruct o; cbn [step]; unfold eov_chain; now rewrite ?chain_tangent_ext.
Qed.

Lemma run_tangent_ext : forall ops s,
  run point peq sign triage tangent1 refdir a b s ops = run point peq sign triage tangent2 refdir a b s ops.
Proof.
  induction ops as [|o rest IH]; intro s; cbn [run]; [reflexivity|].
  rewrite step_tangent_ext. destruct (step point peq sign triage tangent2 refdir a b s o) as [s' r].
  now rewrite IH.
Qed.

Lemma crossing_sign_tangent_ext c d :
  crossing_sign point peq sign triage tangent1 a b c d = crossing_sign point peq sign triage tangent2 a b c d.
Proof. unfold crossing_sign. now rewrite chain_tangent_ext. Qed.

Lemma stateless_run_tangent_ext : forall ops p,
  stateless_run point peq sign triage tangent1 refdir a b p ops =
  stateless_run point peq sign triage tangent2 refdir a b p ops.
Proof.
  induction ops as [|o rest IH]; intro p; cbn [stateless_run]; [reflexivity|].
  rewrite IH. f_equal. f_equal.
  destruct o; cbn [stateless_expected]; unfold edge_or_vertex_crossing;
    now rewrite ?crossing_sign_tangent_ext.
Qed.
End TangentExt.
