(** C11 — binary-search membership: ContainsCellID / IntersectsCellID and the
    union-level Contains / Intersects against the leaf-set semantics. *)
From Coq Require Import ZArith List Bool Lia ZifyBool Sorted Permutation.
From Geo Require Import Base.GoPrim Gen.CellID Model.CellUnion Proofs.C11_Bits Proofs.C11_Cells
  Proofs.C11_Normalize Proofs.C11_Unique.
Import ListNotations.
Local Open Scope Z_scope.

(** * sort.Search *)
Lemma search_go_spec (f : Z -> bool) (n : Z) :
  (forall i j, 0 <= i <= j -> j < n -> f i = true -> f j = true) ->
  forall (fuel : nat) i j, 0 <= i <= j -> j <= n -> j - i <= Z.of_nat fuel ->
  (forall k, 0 <= k < i -> f k = false) -> (j < n -> f j = true) ->
  let r := search_go fuel f i j in
  0 <= r <= n /\ (forall k, 0 <= k < r -> f k = false) /\ (r < n -> f r = true).
Proof.
  intros Mono. induction fuel as [|fuel IH]; intros i j Hij Hjn Hf Lo Hi; cbn [search_go].
  - assert (i = j) by lia. subst j. cbv zeta. split; [lia|]. split; assumption.
  - destruct (Z.ltb_spec i j) as [Hlt|Hge].
    + assert (Hh : i <= (i + j) / 2 < j) by (split; [apply Z.div_le_lower_bound|apply Z.div_lt_upper_bound]; lia).
      set (h := (i + j) / 2) in *. destruct (f h) eqn:E.
      * apply IH; try lia; try assumption; intros _; exact E.
      * apply IH; try lia; try assumption. intros k Hk.
        destruct (f k) eqn:Ek; [|reflexivity].
        destruct (Z_lt_le_dec k i); [rewrite Lo in Ek by lia; discriminate|].
        rewrite (Mono k h) in E by (try lia; assumption). discriminate.
    + assert (i = j) by lia. subst j. cbv zeta. split; [lia|]. split; assumption.
Qed.

Lemma sort_Search_spec (f : Z -> bool) (n : Z) : 0 <= n ->
  (forall i j, 0 <= i <= j -> j < n -> f i = true -> f j = true) ->
  let r := sort_Search n f in
  0 <= r <= n /\ (forall k, 0 <= k < r -> f k = false) /\ (forall k, r <= k < n -> f k = true).
Proof.
  intros Hn Mono. cbv zeta. unfold sort_Search.
  destruct (search_go_spec f n Mono (Z.to_nat n) 0 n ltac:(lia) ltac:(lia) ltac:(lia) ltac:(intros; lia) ltac:(intros; lia))
    as (H1 & H2 & H3).
  split; [exact H1|]. split; [exact H2|]. intros k Hk. apply (Mono (search_go (Z.to_nat n) f 0 n) k); try lia; apply H3; lia.
Qed.

(** * Indexing *)
Lemma zlen_nonneg l : 0 <= zlen l.
Proof. unfold zlen. lia. Qed.

Lemma nthZ_In (l : list Z) k : 0 <= k < zlen l -> In (nthZ l k 0) l.
Proof.
  intros Hk. unfold nthZ, zlen in *. destruct (Z.ltb_spec k 0); [lia|]. apply nth_In. lia.
Qed.

Lemma In_nthZ (l : list Z) c : In c l -> exists k, 0 <= k < zlen l /\ nthZ l k 0 = c.
Proof.
  intros Hin. destruct (In_nth l c 0 Hin) as (n & Hn & E). exists (Z.of_nat n).
  unfold nthZ, zlen. destruct (Z.ltb_spec (Z.of_nat n) 0); [lia|]. rewrite Nat2Z.id. split; [lia|exact E].
Qed.

Lemma SS_nth (R : Z -> Z -> Prop) : forall l, StronglySorted R l ->
  forall j k, (j < k < length l)%nat -> R (nth j l 0) (nth k l 0).
Proof.
  induction l as [|a l IH]; intros S j k Hjk; [cbn in Hjk; lia|].
  inversion S as [|? ? S' F]; subst. destruct k as [|k]; [lia|]. destruct j as [|j].
  - cbn. rewrite Forall_forall in F. apply F. apply nth_In. cbn in Hjk. lia.
  - cbn. apply IH; [exact S'|]. cbn in Hjk. lia.
Qed.

Lemma SS_nthZ (R : Z -> Z -> Prop) l : StronglySorted R l ->
  forall j k, 0 <= j -> j < k -> k < zlen l -> R (nthZ l j 0) (nthZ l k 0).
Proof.
  intros S j k Hj Hjk Hk. unfold nthZ, zlen in *.
  destruct (Z.ltb_spec j 0); [lia|]. destruct (Z.ltb_spec k 0); [lia|].
  apply SS_nth; [exact S|lia].
Qed.

(** * sorted disjoint valid unions *)
Definition sorted_cu (cu : list Z) : Prop := Forall valid cu /\ StronglySorted before cu.

Lemma normal_sorted_cu cu : normal cu -> sorted_cu cu.
Proof. intros (V & S & _). split; assumption. Qed.

Lemma sorted_cu_lt cu : sorted_cu cu -> StronglySorted Z.lt cu.
Proof.
  intros (V & S). induction cu as [|a N IH]; [constructor|].
  inversion V as [|? ? Va VN]; subst. inversion S as [|? ? SN F]; subst.
  constructor; [apply IH; assumption|].
  rewrite Forall_forall in *. intros b Hb. specialize (F b Hb). unfold before in F.
  pose proof (valid_range _ Va). pose proof (valid_range _ (VN b Hb)). lia.
Qed.

Section Probe.
  Variable cu : list Z.
  Variable id : Z.
  Hypothesis Hcu : sorted_cu cu.

  Let f := fun i => id <? nthZ cu i 0.
  Let n := zlen cu.

  Lemma probe_mono : forall i j, 0 <= i <= j -> j < n -> f i = true -> f j = true.
  Proof.
    intros i j Hij Hj Hi. unfold f in *. destruct (Z.eq_dec i j) as [->|Hne]; [exact Hi|].
    pose proof (SS_nthZ Z.lt cu (sorted_cu_lt cu Hcu) i j ltac:(lia) ltac:(lia) Hj). lia.
  Qed.

  Lemma probe_index :
    let i := sort_Search n f in
    0 <= i <= n /\ (forall k, 0 <= k < i -> nthZ cu k 0 <= id) /\ (forall k, i <= k < n -> id < nthZ cu k 0).
  Proof.
    destruct (sort_Search_spec f n (zlen_nonneg cu) probe_mono) as (H1 & H2 & H3). cbv zeta.
    split; [exact H1|]. split; intros k Hk.
    - specialize (H2 k Hk). unfold f in H2. lia.
    - specialize (H3 k Hk). unfold f in H3. lia.
  Qed.

  Lemma elem_valid k : 0 <= k < n -> valid (nthZ cu k 0).
  Proof. intros Hk. destruct Hcu as [V _]. rewrite Forall_forall in V. apply V. apply nthZ_In. exact Hk. Qed.

  Lemma elem_before j k : 0 <= j -> j < k -> k < n -> rmax (nthZ cu j 0) < rmin (nthZ cu k 0).
  Proof. intros. destruct Hcu as [_ S]. apply (SS_nthZ before cu S j k); assumption. Qed.

  Hypothesis Vid : valid id.

  Theorem intersects_cellid_ranges :
    cu_IntersectsCellID cu id = true <-> exists c, In c cu /\ rmin c <= rmax id /\ rmin id <= rmax c.
  Proof.
    unfold cu_IntersectsCellID. fold n. fold f.
    destruct probe_index as (Hi & Lo & Hi'). set (i := sort_Search n f) in *.
    pose proof (valid_range _ Vid) as (_ & Rid & _).
    split.
    - intros H.
      destruct (negb (i =? n) && (rmin (nthZ cu i 0) <=? rmax id)) eqn:C1.
      + exists (nthZ cu i 0). assert (Hk : 0 <= i < n) by lia. split; [apply nthZ_In; exact Hk|].
        pose proof (valid_range _ (elem_valid i Hk)) as (_ & R & _). specialize (Hi' i ltac:(lia)). lia.
      + exists (nthZ cu (i - 1) 0). assert (Hk : 0 <= i - 1 < n) by lia. split; [apply nthZ_In; exact Hk|].
        pose proof (valid_range _ (elem_valid (i - 1) Hk)) as (_ & R & _). specialize (Lo (i - 1) ltac:(lia)). lia.
    - intros (c & Hin & H1 & H2). destruct (In_nthZ cu c Hin) as (k & Hk & <-). fold n in Hk.
      pose proof (valid_range _ (elem_valid k Hk)) as (_ & Rk & _).
      destruct (Z_lt_le_dec k i) as [Hlt|Hge].
      + (* the cell lies at or before position i-1 *)
        assert (Hk1 : 0 <= i - 1 < n) by lia.
        pose proof (valid_range _ (elem_valid (i - 1) Hk1)) as (_ & R1 & _).
        assert (rmin id <= rmax (nthZ cu (i - 1) 0)).
        { destruct (Z.eq_dec k (i - 1)) as [->|Hne]; [exact H2|].
          pose proof (elem_before k (i - 1) ltac:(lia) ltac:(lia) ltac:(lia)). lia. }
        destruct (negb (i =? n) && (rmin (nthZ cu i 0) <=? rmax id)); [reflexivity|]. lia.
      + assert (Hk1 : 0 <= i < n) by lia.
        pose proof (valid_range _ (elem_valid i Hk1)) as (_ & R1 & _).
        assert (rmin (nthZ cu i 0) <= rmax id).
        { destruct (Z.eq_dec k i) as [->|Hne]; [exact H1|].
          pose proof (elem_before i k ltac:(lia) ltac:(lia) ltac:(lia)). lia. }
        assert (C1 : negb (i =? n) && (rmin (nthZ cu i 0) <=? rmax id) = true) by lia.
        rewrite C1. reflexivity.
  Qed.

  Theorem contains_cellid_nested :
    cu_ContainsCellID cu id = true <-> exists c, In c cu /\ nested_in id c.
  Proof.
    unfold cu_ContainsCellID. fold n. fold f.
    destruct probe_index as (Hi & Lo & Hi'). set (i := sort_Search n f) in *.
    pose proof (valid_range _ Vid) as (_ & Rid & _).
    assert (Hin_id : forall k, 0 <= k < n -> rmin (nthZ cu k 0) <= id <= rmax (nthZ cu k 0) -> nested_in id (nthZ cu k 0)).
    { intros k Hk Hr. apply contains_nested; [apply elem_valid; exact Hk|exact Vid|].
      apply contains_spec; [apply elem_valid; exact Hk|apply valid_u64; exact Vid|exact Hr]. }
    split.
    - intros H.
      destruct (negb (i =? n) && (rmin (nthZ cu i 0) <=? id)) eqn:C1.
      + exists (nthZ cu i 0). assert (Hk : 0 <= i < n) by lia. split; [apply nthZ_In; exact Hk|].
        apply Hin_id; [exact Hk|].
        pose proof (valid_range _ (elem_valid i Hk)) as (_ & R & _). specialize (Hi' i ltac:(lia)). lia.
      + exists (nthZ cu (i - 1) 0). assert (Hk : 0 <= i - 1 < n) by lia. split; [apply nthZ_In; exact Hk|].
        apply Hin_id; [exact Hk|].
        pose proof (valid_range _ (elem_valid (i - 1) Hk)) as (_ & R & _). specialize (Lo (i - 1) ltac:(lia)). lia.
    - intros (c & Hin & Nn). destruct (In_nthZ cu c Hin) as (k & Hk & <-). fold n in Hk.
      pose proof (valid_range _ (elem_valid k Hk)) as (_ & Rk & _). unfold nested_in in Nn.
      destruct (Z_lt_le_dec k i) as [Hlt|Hge].
      + assert (Hk1 : 0 <= i - 1 < n) by lia.
        pose proof (valid_range _ (elem_valid (i - 1) Hk1)) as (_ & R1 & _).
        assert (id <= rmax (nthZ cu (i - 1) 0)).
        { destruct (Z.eq_dec k (i - 1)) as [->|Hne]; [lia|].
          pose proof (elem_before k (i - 1) ltac:(lia) ltac:(lia) ltac:(lia)).
          specialize (Lo (i - 1) ltac:(lia)). lia. }
        destruct (negb (i =? n) && (rmin (nthZ cu i 0) <=? id)); [reflexivity|]. lia.
      + assert (Hk1 : 0 <= i < n) by lia.
        pose proof (valid_range _ (elem_valid i Hk1)) as (_ & R1 & _).
        assert (rmin (nthZ cu i 0) <= id).
        { destruct (Z.eq_dec k i) as [->|Hne]; [lia|].
          pose proof (elem_before i k ltac:(lia) ltac:(lia) ltac:(lia)).
          specialize (Hi' i ltac:(lia)). lia. }
        assert (C1 : negb (i =? n) && (rmin (nthZ cu i 0) <=? id) = true) by lia.
        rewrite C1. reflexivity.
  Qed.
End Probe.

(** * Leaf-set statements *)
Lemma ranges_meet_leaf c d : valid c -> valid d ->
  (rmin c <= rmax d /\ rmin d <= rmax c <-> exists x, leaf x /\ covers c x /\ covers d x).
Proof.
  intros Vc Vd. pose proof (valid_range _ Vc) as (_ & Rc & _ & Lc & _). pose proof (valid_range _ Vd) as (_ & Rd & _ & Ld & _).
  unfold covers. split.
  - intros [H1 H2]. destruct (Z_le_gt_dec (rmin c) (rmin d)).
    + exists (rmin d). split; [exact Ld|lia].
    + exists (rmin c). split; [exact Lc|lia].
  - intros (x & _ & H1 & H2). lia.
Qed.

Theorem intersects_cellid_spec cu id : sorted_cu cu -> valid id ->
  (cu_IntersectsCellID cu id = true <-> exists x, leaf x /\ covers id x /\ cov cu x).
Proof.
  intros Hcu Vid. rewrite (intersects_cellid_ranges cu id Hcu Vid).
  destruct Hcu as [V _]. rewrite Forall_forall in V. split.
  - intros (c & Hin & H1 & H2).
    destruct (proj1 (ranges_meet_leaf c id (V c Hin) Vid) (conj H1 H2)) as (x & Lx & Hc & Hi).
    exists x. split; [exact Lx|]. split; [exact Hi|]. exists c. split; assumption.
  - intros (x & Lx & Hi & (c & Hin & Hc)). exists c. split; [exact Hin|].
    apply (ranges_meet_leaf c id (V c Hin) Vid). exists x. tauto.
Qed.

Theorem contains_cellid_spec cu id : normal cu -> valid id ->
  (cu_ContainsCellID cu id = true <-> covered cu id).
Proof.
  intros Nm Vid. rewrite (contains_cellid_nested cu id (normal_sorted_cu cu Nm) Vid).
  pose proof Nm as (V & _). split.
  - intros (c & Hin & Nn) x _ Hx. exists c. split; [exact Hin|]. unfold covers, nested_in in *. lia.
  - intros Hcov.
    destruct (Forall_Exists_dec (fun c' => ~ nested_in id c')
                (fun c' => match nested_dec id c' with left y => right (fun f => f y) | right n => left n end) cu) as [All|Ex].
    + exfalso. rewrite Forall_forall in All.
      destruct (tiling cu V (Z.to_nat (rmax id - rmin id)) id Vid ltac:(pose proof (valid_le _ Vid); lia) Hcov All) as (q & Vq & NLq & Hall).
      exact (normal_NSset cu Nm q Vq NLq Hall).
    + apply Exists_exists in Ex. destruct Ex as (c' & Hc' & Hnn). exists c'. split; [exact Hc'|].
      destruct (nested_dec id c'); [assumption|contradiction].
Qed.

Theorem contains_union_spec cu o : normal cu -> Forall valid o ->
  (cu_Contains cu o = true <-> forall x, leaf x -> cov o x -> cov cu x).
Proof.
  intros Nm Vo. unfold cu_Contains. rewrite forallb_forall. rewrite Forall_forall in Vo. split.
  - intros H x Lx (c & Hin & Hc). apply (contains_cellid_spec cu c Nm (Vo c Hin)); auto.
  - intros H c Hin. apply (contains_cellid_spec cu c Nm (Vo c Hin)). intros x Lx Hx. apply H; [exact Lx|]. exists c; auto.
Qed.

Theorem intersects_union_spec cu o : Forall valid cu -> sorted_cu o ->
  (cu_Intersects cu o = true <-> exists x, leaf x /\ cov cu x /\ cov o x).
Proof.
  intros Vc Ho. unfold cu_Intersects. rewrite existsb_exists. rewrite Forall_forall in Vc. split.
  - intros (c & Hin & H). apply (intersects_cellid_spec o c Ho (Vc c Hin)) in H.
    destruct H as (x & Lx & Hc & Hcov). exists x. split; [exact Lx|]. split; [exists c; auto|exact Hcov].
  - intros (x & Lx & (c & Hin & Hc) & Hcov). exists c. split; [exact Hin|].
    apply (intersects_cellid_spec o c Ho (Vc c Hin)). exists x. auto.
Qed.
