(** C11 — CellIndex: the theorems about [ci_Build adds] (Build after Add of the pairs [adds]). *)
From Coq Require Import ZArith List Bool Lia ZifyBool Sorted Permutation.
From Geo Require Import Base.GoPrim Gen.CellID Model.CellUnion Model.CellIndex
  Proofs.C11_Bits Proofs.C11_Cells Proofs.C11_Normalize Proofs.C11_Unique Proofs.C11_Search Proofs.C11_SetOps Proofs.C11_Range
  Proofs.C11_Index Proofs.C11_Index2 Proofs.C11_Index3.
Import ListNotations.
Local Open Scope Z_scope.

Section Top.
  Variable adds : list pair.
  Hypothesis Hadds : Forall good_pair adds.
  Let tree := fst (ci_Build adds).
  Let rs := snd (ci_Build adds).
  Let n := Z.of_nat (length rs).

  Lemma Bt : built adds tree rs.
  Proof. apply build_spec. exact Hadds. Qed.

  Theorem index_ranges_partition :
    StronglySorted Z.lt (map fst rs) /\ hd 0 (map fst rs) = first_leaf /\ last (map fst rs) 0 = end_leaf /\
    forall x, first_leaf <= x < end_leaf ->
      exists l1 rn rn' l2, rs = l1 ++ rn :: rn' :: l2 /\ fst rn <= x < fst rn'.
  Proof.
    split; [apply Bt|]. split; [apply Bt|]. split; [apply Bt|]. intros x Hx. apply (ranges_partition adds tree rs Bt x Hx).
  Qed.

  (** a fresh (or cleared) contents iterator started on the range of leaf x reports exactly the
      added (cell, label) pairs whose cell contains x, innermost first *)
  Theorem index_contents l1 rn rn' l2 x : rs = l1 ++ rn :: rn' :: l2 -> leaf x -> fst rn <= x < fst rn' ->
    let reported := fst (ci_visit tree rs ci_new (Z.of_nat (length l1))) in
    Permutation reported (filter (covers_pair x) adds) /\ StronglySorted nested_pair reported.
  Proof.
    intros E Lx Hx. cbv zeta.
    destruct (range_contents adds tree rs Hadds Bt l1 rn rn' l2 x E Lx Hx) as (s & Hs & Hsorted & Hp).
    assert (Hj : 0 <= Z.of_nat (length l1) < Z.of_nat (length rs)).
    { rewrite E. rewrite app_length. cbn [length]. lia. }
    assert (Ec : cont_at rs (Z.of_nat (length l1)) = snd rn).
    { unfold cont_at, ri_contents. rewrite (nth_rnode_split rs l1 rn (rn' :: l2) E). reflexivity. }
    rewrite <- Ec in Hs.
    rewrite (visit_full adds tree rs Bt ci_new _ s Hj Hs ltac:(left; reflexivity) ltac:(cbn; lia)).
    split; assumption.
  Qed.

  Theorem index_nonempty_iteration :
    let l := visit_all rs (length rs) (ri_Begin rs true) in
    StronglySorted Z.lt l /\ forall j, In j l <-> 0 <= j < n - 1 /\ ri_IsEmpty rs j = false.
  Proof.
    cbv zeta. destruct (nonempty_iteration adds tree rs Bt) as [H1 H2]. cbv zeta in *.
    split; [exact H1|]. intros j. rewrite H2. unfold ri_IsEmpty, cont_at, doneContents. fold n. lia.
  Qed.

  Theorem index_seek t : first_leaf <= t < end_leaf ->
    let p := ri_Seek rs false t in
    0 <= p < n - 1 /\ ri_StartID rs p <= t < ri_LimitID rs p /\
    let q := ri_Seek rs true t in
    p <= q <= n - 1 /\ (q < n - 1 -> ri_IsEmpty rs q = false) /\ forall j, p <= j < q -> ri_IsEmpty rs j = true.
  Proof.
    intros Ht. cbv zeta. destruct (seek_plain adds tree rs Bt t Ht) as [H1 H2]. cbv zeta in *.
    destruct (seek_nonempty adds tree rs Bt t Ht) as ([S1 S2] & H3 & H4). cbv zeta in *.
    split; [exact H1|]. split; [exact H2|]. fold n in S1.
    split; [lia|]. unfold ri_IsEmpty, doneContents. split.
    - intros Hq. specialize (S2 Hq). unfold cont_at in S2. lia.
    - intros j Hj. specialize (H4 j Hj). unfold cont_at in H4. lia.
  Qed.

  Theorem index_sentinel_empty : ri_IsEmpty rs (n - 1) = true /\ ri_StartID rs (n - 1) = end_leaf.
  Proof.
    split.
    - pose proof (sentinel_empty adds tree rs Hadds Bt) as H. unfold ri_IsEmpty, cont_at, doneContents in *. fold n in H. lia.
    - apply (start_last adds tree rs Bt).
  Qed.

  (** one shared contents iterator over a non-decreasing sequence of ranges: every tree node
      (an added pair) on the stack of a visited range is reported exactly once *)
  Theorem index_sweep_exactly_once poss : (forall p, In p poss -> 0 <= p < n) -> StronglySorted Z.le poss ->
    exists idxs, ci_sweep tree rs ci_new poss = map (pairs_of tree) idxs /\ NoDup (concat idxs) /\
      forall i, In i (concat idxs) <-> in_chains tree rs poss i.
  Proof. apply (sweep_exactly_once adds tree rs Bt). Qed.

  (** after a backward move (or Clear) the whole contents of the range are reported again *)
  Theorem index_backward_reports_all st j s : 0 <= j < n -> is_chain tree (cont_at rs j) s ->
    -1 <= ci_cutoff st -> ri_StartID rs j < ci_prevStart st ->
    fst (ci_visit tree rs st j) = pairs_of tree s.
  Proof.
    intros Hj Hs Hc Hb. apply (visit_full adds tree rs Bt st j s Hj Hs); [right; exact Hb|exact Hc].
  Qed.

  Theorem index_visit_state st j : 0 <= j < n -> -1 <= ci_cutoff st ->
    -1 <= ci_cutoff (snd (ci_visit tree rs st j)) /\ ci_prevStart (snd (ci_visit tree rs st j)) = ri_StartID rs j.
  Proof.
    intros Hj Hc. destruct (chain_exists adds tree rs Bt j Hj) as (s & Hs & _).
    destruct (visit_spec adds tree rs Bt st j s Hj Hs Hc) as (_ & V2 & V3). cbv zeta in *.
    split; [rewrite V2; destruct (start_at rs j <? ci_prevStart st); lia|exact V3].
  Qed.
End Top.
