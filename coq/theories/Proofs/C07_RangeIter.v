(** C07 — rangeIterator.seekTo / seekBeyond satisfy their documented contracts:
    seekTo lands on the first cell whose rangeMax >= target.rangeMin (the cell that contains,
    overlaps or follows the target), seekBeyond on the first cell whose rangeMin > target.rangeMax.
    Cell ranges are abstract: [rmin c <= c <= rmax c]; an index holds pairwise disjoint cells in
    increasing order; the target cell is nested with or disjoint from every index cell (cells of
    the Hilbert curve hierarchy form a laminar family). No bit-level reasoning is needed. *)
From Coq Require Import List ZArith Bool Arith Lia.
From Geo Require Import Model.RangeIter.
Import ListNotations.
Local Open Scope Z_scope.

Section Contract.
  Variable rmin rmax : Z -> Z.
  Hypothesis range_ok : forall c, rmin c <= c <= rmax c.

  Notation at_pos := RangeIter.at_pos.

  Lemma lower_bound_le ids t : (lower_bound ids t <= length ids)%nat.
  Proof. induction ids as [|c r IH]; simpl; [lia|]. destruct (c <? t); simpl; lia. Qed.

  Lemma lower_bound_before ids t : forall i, (i < lower_bound ids t)%nat -> at_pos ids i < t.
  Proof.
    induction ids as [|c r IH]; simpl; intros i Hi; [lia|].
    destruct (c <? t) eqn:E; [|lia]. apply Z.ltb_lt in E. destruct i; [exact E|].
    apply IH. lia.
  Qed.

  Lemma lower_bound_at ids t : (lower_bound ids t < length ids)%nat -> t <= at_pos ids (lower_bound ids t).
  Proof.
    induction ids as [|c r IH]; simpl; intros H; [lia|].
    destruct (c <? t) eqn:E; [apply IH; lia|]. apply Z.ltb_ge in E. exact E.
  Qed.

  (** the index: disjoint cells in increasing order *)
  Definition index_ok (ids : list Z) : Prop :=
    forall i j, (i < j)%nat -> (j < length ids)%nat -> rmax (at_pos ids i) < rmin (at_pos ids j).
  (** the target cell against one index cell: disjoint, contained, or containing *)
  Definition laminar (tmin tmax c : Z) : Prop :=
    rmax c < tmin \/ tmax < rmin c \/ (rmin c <= tmin /\ tmax <= rmax c) \/ (tmin <= rmin c /\ rmax c <= tmax).

  Definition first_with (P : Z -> Prop) (ids : list Z) (p : nat) : Prop :=
    (p <= length ids)%nat /\ (forall i, (i < p)%nat -> ~ P (at_pos ids i)) /\
    ((p < length ids)%nat -> P (at_pos ids p)).

  Theorem seek_to_contract ids tmin tid tmax :
    index_ok ids -> tmin <= tid <= tmax ->
    (forall i, (i < length ids)%nat -> laminar tmin tmax (at_pos ids i)) ->
    first_with (fun c => tmin <= rmax c) ids (seek_to rmin rmax ids tmin tid tmax).
  Proof.
    intros OK HT LAM. unfold seek_to. set (p := lower_bound ids tmin).
    pose proof (lower_bound_le ids tmin) as Hle. fold p in Hle.
    pose proof (lower_bound_before ids tmin) as Hbefore. fold p in Hbefore.
    pose proof (lower_bound_at ids tmin) as Hat. fold p in Hat.
    (* every cell strictly before p-1 ends before tmin *)
    assert (Hearly : forall i, (S i < p)%nat -> rmax (at_pos ids i) < tmin).
    { intros i Hi. pose proof (OK i (S i) ltac:(lia) ltac:(lia)) as H1.
      pose proof (Hbefore (S i) Hi) as H2. pose proof (range_ok (at_pos ids (S i))). lia. }
    (* a cell before p that reaches tmin contains the target *)
    assert (Hcont : forall i, (i < p)%nat -> tmin <= rmax (at_pos ids i) -> tmax <= rmax (at_pos ids i)).
    { intros i Hi Hr. pose proof (Hbefore i Hi) as H2. pose proof (range_ok (at_pos ids i)).
      destruct (LAM i ltac:(lia)) as [L|[L|[L|L]]]; lia. }
    assert (Hp : (p < length ids)%nat -> tmin <= rmax (at_pos ids p)).
    { intro H. pose proof (Hat H). pose proof (range_ok (at_pos ids p)). lia. }
    destruct (Nat.eqb p (length ids) || (rmin (at_pos ids p) >? tmax)) eqn:C.
    - destruct (Nat.ltb 0 p) eqn:P0.
      + apply Nat.ltb_lt in P0.
        destruct (rmax (at_pos ids (p - 1)) <? tid) eqn:R.
        * apply Z.ltb_lt in R. repeat split; [lia| |exact Hp].
          intros i Hi Hr. destruct (Nat.eq_dec i (p - 1)) as [->|NE].
          -- pose proof (Hcont (p - 1)%nat ltac:(lia) Hr). lia.
          -- pose proof (Hearly i ltac:(lia)). lia.
        * apply Z.ltb_ge in R. repeat split; [lia| |].
          -- intros i Hi Hr. pose proof (Hearly i ltac:(lia)). lia.
          -- intros _. (* rmax >= tid >= tmin *) lia.
      + apply Nat.ltb_ge in P0. repeat split; [lia|intros i Hi; lia|exact Hp].
    - apply orb_false_iff in C. destruct C as [C1 C2]. apply Nat.eqb_neq in C1.
      assert (C2' : rmin (at_pos ids p) <= tmax) by (rewrite Z.gtb_ltb in C2; apply Z.ltb_ge in C2; exact C2).
      repeat split; [lia| |exact Hp].
      intros i Hi Hr. destruct (Nat.eq_dec (S i) p) as [E|NE].
      + pose proof (Hcont i Hi Hr). pose proof (OK i p ltac:(lia) ltac:(lia)). lia.
      + pose proof (Hearly i ltac:(lia)). lia.
  Qed.

  Theorem seek_beyond_contract ids tmin tmax :
    index_ok ids -> tmin <= tmax ->
    (* target.rangeMax is a leaf id (odd): an id strictly between it and the next leaf is even,
       i.e. a non-leaf cell whose range reaches back over tmax *)
    (forall i, (i < length ids)%nat -> tmax < at_pos ids i -> at_pos ids i < tmax + 2 -> rmin (at_pos ids i) <= tmax) ->
    first_with (fun c => tmax < rmin c) ids (seek_beyond rmin ids tmax).
  Proof.
    intros OK HT GAP. unfold seek_beyond. set (p := lower_bound ids (tmax + 2)).
    pose proof (lower_bound_le ids (tmax + 2)) as Hle. fold p in Hle.
    pose proof (lower_bound_before ids (tmax + 2)) as Hbefore. fold p in Hbefore.
    pose proof (lower_bound_at ids (tmax + 2)) as Hat. fold p in Hat.
    assert (Hb : forall i, (i < p)%nat -> ~ tmax < rmin (at_pos ids i)).
    { intros i Hi H. pose proof (Hbefore i Hi). pose proof (range_ok (at_pos ids i)).
      pose proof (GAP i ltac:(lia)). lia. }
    destruct (negb (Nat.eqb p (length ids)) && (rmin (at_pos ids p) <=? tmax)) eqn:C.
    - apply andb_true_iff in C. destruct C as [C1 C2]. apply negb_true_iff, Nat.eqb_neq in C1.
      apply Z.leb_le in C2. repeat split; [lia| |].
      + intros i Hi. destruct (Nat.eq_dec i p) as [->|NE]; [lia|apply Hb; lia].
      + intro H. pose proof (OK p (S p) ltac:(lia) H). pose proof (Hat ltac:(lia)).
        pose proof (range_ok (at_pos ids p)). lia.
    - repeat split; [lia|exact Hb|]. intro H. apply andb_false_iff in C. destruct C as [C|C].
      + apply negb_false_iff, Nat.eqb_eq in C. lia.
      + apply Z.leb_gt in C. exact C.
  Qed.
End Contract.

(** the mutated fix-up test (re-advance when prev.RangeMax() <= target.rangeMax) breaks the
    contract exactly on the aligned layout: one index cell [0..14] around id 7 that contains the
    target leaf-range cell [12..14] ending at the same leaf *)
Example seek_to_aligned :
  seek_to (fun c => if c =? 7 then 0 else c) (fun c => if c =? 7 then 14 else c) [7] 12 13 14 = 0%nat.
Proof. reflexivity. Qed.
