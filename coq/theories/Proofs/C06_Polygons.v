(** C06 — the Shape contract for Polygon and LaxPolygon (any number of loops of any sizes). *)
From Coq Require Import ZArith List Bool Lia.
From Geo Require Import Base.GoPrim Gen.CellIDCov Model.Shapes Proofs.C06_Slices Proofs.C06_Prefix.
Import ListNotations.
Local Open Scope Z_scope.

(** * Polygon *)
Definition loop_lens (ls : list loop) : list Z := map (fun l => len (lp_vertices l)) ls.

Lemma loop_lens_nonneg ls : nonneg (loop_lens ls).
Proof. induction ls; constructor; [apply len_nonneg|assumption]. Qed.

Lemma loop_lens_length ls : length (loop_lens ls) = length ls.
Proof. apply map_length. Qed.

Lemma loop_lens_nth ls i d : (i < length ls)%nat -> nth i (loop_lens ls) 0 = len (lp_vertices (nth i ls d)).
Proof.
  intros Hi. unfold loop_lens.
  rewrite (nth_indep _ 0 (len (lp_vertices d))) by (rewrite map_length; lia).
  apply (map_nth (fun l => len (lp_vertices l))).
Qed.

(** [acc + pre lens 0; ...; acc + pre lens (n-1)]: what initEdgesAndIndex appends *)
Fixpoint psumsP (lens : list Z) (acc : Z) : list Z :=
  match lens with [] => [] | x :: t => acc :: psumsP t (acc + x) end.

Lemma psumsP_length lens acc : length (psumsP lens acc) = length lens.
Proof. revert acc. induction lens as [|x t IH]; intros; cbn; [reflexivity|]. rewrite IH; reflexivity. Qed.

Lemma psumsP_nth lens acc i : (i < length lens)%nat -> nth i (psumsP lens acc) 0 = acc + pre lens i.
Proof.
  revert acc i. induction lens as [|x t IH]; intros acc i Hi; cbn in Hi; [lia|].
  destruct i as [|i]; cbn; [lia|]. rewrite IH by lia. lia.
Qed.

Lemma init_loop_spec ls acc cum :
  polygon_init_loop ls acc cum =
  (acc + total (loop_lens ls),
   match cum with Some c => Some (c ++ psumsP (loop_lens ls) acc) | None => None end).
Proof.
  revert acc cum. induction ls as [|l t IH]; intros acc cum; cbn [polygon_init_loop loop_lens map psumsP].
  - unfold total; cbn. rewrite Z.add_0_r. destruct cum; [rewrite app_nil_r|]; reflexivity.
  - rewrite IH. fold (loop_lens t). rewrite total_cons. f_equal; [lia|].
    destruct cum; [|reflexivity]. rewrite <- app_assoc. reflexivity.
Qed.

Lemma lin_search_spec ls k e : 0 <= e < total (loop_lens ls) ->
  lin_search ls k e = let '(i, j) := locate (loop_lens ls) e in Ok (k + Z.of_nat i, j).
Proof.
  revert k e. induction ls as [|l t IH]; intros k e He.
  - unfold total in He; cbn in He. lia.
  - cbn [loop_lens map] in *. fold (loop_lens t) in *. rewrite total_cons in He.
    cbn [lin_search locate].
    destruct (e >=? len (lp_vertices l)) eqn:E; rewrite Z.geb_leb in E.
    + apply Z.leb_le in E. destruct (e <? len (lp_vertices l)) eqn:E2; [apply Z.ltb_lt in E2; lia|].
      rewrite IH by lia. destruct (locate (loop_lens t) (e - len (lp_vertices l))) as [i j].
      f_equal. f_equal. lia.
    + apply Z.leb_gt in E. destruct (e <? len (lp_vertices l)) eqn:E2; [|apply Z.ltb_ge in E2; lia].
      f_equal. f_equal. lia.
Qed.

Lemma cum_search_spec lens acc k e : nonneg lens -> acc <= e < acc + total lens ->
  cum_search (psumsP lens acc) k e = let '(i, j) := locate lens (e - acc) in (k + Z.of_nat i, j).
Proof.
  intros H. revert acc k e. induction H as [|x t Hx Ht IH]; intros acc k e He.
  - unfold total in He; cbn in He. lia.
  - rewrite total_cons in He. cbn [psumsP cum_search locate].
    destruct t as [|y t'].
    + cbn [psumsP]. unfold total in He; cbn in He.
      destruct (e - acc <? x) eqn:E; [|apply Z.ltb_ge in E; lia]. f_equal. lia.
    + cbn [psumsP]. change (acc + x :: psumsP t' (acc + x + y)) with (psumsP (y :: t') (acc + x)).
      destruct (e <? acc + x) eqn:E.
      * apply Z.ltb_lt in E. destruct (e - acc <? x) eqn:E2; [|apply Z.ltb_ge in E2; lia]. f_equal; lia.
      * apply Z.ltb_ge in E. destruct (e - acc <? x) eqn:E2; [apply Z.ltb_lt in E2; lia|].
        rewrite IH by lia. replace (e - (acc + x)) with (e - acc - x) by lia.
        destruct (locate (y :: t') (e - acc - x)) as [i j]. f_equal. lia.
Qed.

Lemma sum_first_spec ls i : (i <= length ls)%nat -> sum_first ls i = Ok (pre (loop_lens ls) i).
Proof.
  revert i. induction ls as [|l t IH]; intros i Hi; cbn in Hi.
  - assert (i = O) by lia; subst; reflexivity.
  - destruct i as [|i]; [reflexivity|]. cbn [sum_first loop_lens map pre]. fold (loop_lens t).
    rewrite IH by lia. reflexivity.
Qed.

(** OrientedVertex(j) and OrientedVertex(j+1) exist for every offset of a loop *)
Lemma oriented_vertex_ok l j : 0 <= j <= len (lp_vertices l) -> 0 < len (lp_vertices l) ->
  exists x, loop_OrientedVertex l j = Ok x.
Proof.
  intros Hj Hn. unfold loop_OrientedVertex, loop_Vertex.
  destruct (len (lp_vertices l) =? 0) eqn:E0; [apply Z.eqb_eq in E0; lia|].
  set (n := len (lp_vertices l)) in *.
  set (j1 := if j - n <? 0 then j else j - n).
  assert (0 <= j1 < n) as H1 by (subst j1; zb; lia).
  set (j2 := if loop_IsHole l then n - 1 - j1 else j1).
  assert (0 <= j2 < n) as H2 by (subst j2; destruct (loop_IsHole l); lia).
  assert (0 <= Z.rem j2 n < n) as Hr by (apply Z.rem_bound_pos; lia).
  rewrite (idx_ok (lp_vertices l) _ 0 Hr). eexists; reflexivity.
Qed.

Lemma polygon_loop_edge_ok (p : polygon) i j (d : loop) :
  (i < length (pg_loops p))%nat -> 0 <= j < len (lp_vertices (nth i (pg_loops p) d)) ->
  exists ed, polygon_loop_edge p (Z.of_nat i) j = Ok ed.
Proof.
  intros Hi Hj. unfold polygon_loop_edge.
  rewrite (idx_ok (pg_loops p) (Z.of_nat i) d) by (unfold len; lia).
  rewrite Nat2Z.id. cbn [bind].
  destruct (oriented_vertex_ok (nth i (pg_loops p) d) j) as (x & Hx); [lia|lia|].
  destruct (oriented_vertex_ok (nth i (pg_loops p) d) (j + 1)) as (y & Hy); [lia|lia|].
  rewrite Hx, Hy. eexists; reflexivity.
Qed.

(** Polygon.Validate: no empty loop, and the full loop only as the full polygon; hence either the
    polygon is the full polygon or no loop has exactly one vertex. *)
Definition polygon_wf (loops : list loop) : Prop :=
  polygon_IsFull loops = true \/ Forall (fun l => len (lp_vertices l) <> 1) loops.

(** what [polygon_init] leaves in the fields of a non-full polygon *)
Definition polygon_fields_ok (p : polygon) : Prop :=
  pg_numEdges p = total (loop_lens (pg_loops p)) /\
  (pg_cumulativeEdges p = None \/ pg_cumulativeEdges p = Some (psumsP (loop_lens (pg_loops p)) 0)).

Lemma polygon_init_fields M loops : polygon_IsFull loops = false ->
  polygon_fields_ok (polygon_init M loops) /\ pg_loops (polygon_init M loops) = loops.
Proof.
  intros Hf. unfold polygon_init. rewrite Hf.
  rewrite init_loop_spec. unfold polygon_fields_ok. cbn.
  destruct (len loops >? M); cbn; repeat split; auto.
Qed.

Lemma polygon_find_spec p e : polygon_fields_ok p -> 0 <= e < pg_numEdges p ->
  polygon_find p e = let '(i, j) := locate (loop_lens (pg_loops p)) e in Ok (Z.of_nat i, j).
Proof.
  intros (Hne & Hcum) He. rewrite Hne in He. unfold polygon_find.
  pose proof (loop_lens_nonneg (pg_loops p)) as Hnn.
  destruct Hcum as [-> | ->].
  - rewrite lin_search_spec by assumption. destruct (locate _ e); reflexivity.
  - destruct (psumsP (loop_lens (pg_loops p)) 0) as [|c0 c] eqn:Ec.
    + rewrite lin_search_spec by assumption. destruct (locate _ e); reflexivity.
    + rewrite <- Ec. rewrite cum_search_spec by (assumption || lia).
      rewrite Z.sub_0_r. destruct (locate _ e); reflexivity.
Qed.

Lemma polygon_chain_spec p i (d : loop) : polygon_fields_ok p ->
  Forall (fun l => len (lp_vertices l) <> 1) (pg_loops p) -> (i < length (pg_loops p))%nat ->
  polygon_Chain p (Z.of_nat i) = Ok (pre (loop_lens (pg_loops p)) i, nth i (loop_lens (pg_loops p)) 0).
Proof.
  intros (Hne & Hcum) Hwf Hi. unfold polygon_Chain.
  rewrite (loop_lens_nth _ _ d Hi).
  destruct Hcum as [-> | ->].
  - rewrite Nat2Z.id, sum_first_spec by lia. cbn [bind].
    rewrite (idx_ok (pg_loops p) (Z.of_nat i) d) by (unfold len; lia). rewrite Nat2Z.id. cbn [bind].
    rewrite Forall_forall in Hwf. specialize (Hwf (nth i (pg_loops p) d) (nth_In _ _ Hi)).
    destruct (len (lp_vertices (nth i (pg_loops p) d)) =? 1) eqn:E; [apply Z.eqb_eq in E; contradiction|].
    reflexivity.
  - rewrite (idx_ok (psumsP (loop_lens (pg_loops p)) 0) (Z.of_nat i) 0)
      by (unfold len; rewrite psumsP_length, loop_lens_length; lia).
    rewrite Nat2Z.id, psumsP_nth by (rewrite loop_lens_length; lia). cbn [bind].
    rewrite (idx_ok (pg_loops p) (Z.of_nat i) d) by (unfold len; lia). rewrite Nat2Z.id. cbn [bind].
    reflexivity.
Qed.

Lemma polygon_contract_fields p : polygon_fields_ok p ->
  Forall (fun l => len (lp_vertices l) <> 1) (pg_loops p) -> contract (polygon_ops p).
Proof.
  intros Hf Hwf. pose proof Hf as (Hne & _).
  set (lens := loop_lens (pg_loops p)) in *.
  pose proof (loop_lens_nonneg (pg_loops p)) as Hnn. fold lens in Hnn.
  pose proof (loop_lens_length (pg_loops p)) as Hlen. fold lens in Hlen.
  set (d := mkLoop [] false 0).
  unfold contract, polygon_ops; ops_cbn.
  split; [rewrite Hne; apply total_nonneg; assumption|].
  split; [apply len_nonneg|]. split; [|split; [|split]].
  - intros e He.
    pose proof (polygon_find_spec p e Hf He) as Hfind. fold lens in Hfind.
    rewrite Hne in He. pose proof (locate_spec lens e Hnn He) as Hloc.
    destruct (locate lens e) as [i j]. destruct Hloc as (Hi & Hj & Hsum).
    rewrite Hlen in Hi.
    destruct (polygon_loop_edge_ok p i j d Hi) as (ed & Hed).
    { unfold lens in Hj. rewrite (loop_lens_nth _ _ d Hi) in Hj. exact Hj. }
    exists (Z.of_nat i), j, ed. rewrite Hfind. cbn [bind]. repeat split; try assumption; try (unfold len; lia).
    exists (pre lens i), (nth i lens 0). rewrite (polygon_chain_spec p i d Hf Hwf Hi). fold lens.
    repeat split; lia.
  - intros iz Hiz. unfold len in Hiz. assert (exists i, iz = Z.of_nat i) as (i & ->) by (exists (Z.to_nat iz); lia).
    assert (i < length (pg_loops p))%nat as Hi by lia.
    exists (pre lens i), (nth i lens 0). rewrite (polygon_chain_spec p i d Hf Hwf Hi). fold lens.
    split; [reflexivity|]. split; [apply pre_nonneg; assumption|]. split; [apply nth_nonneg; assumption|].
    split; [rewrite Hne; apply pre_S_le_total; [assumption|lia]|].
    intros j Hj.
    assert (0 <= pre lens i + j < pg_numEdges p) as He.
    { pose proof (pre_nonneg lens i Hnn). pose proof (pre_S_le_total lens i Hnn ltac:(lia)). lia. }
    pose proof (polygon_find_spec p _ Hf He) as Hfind. fold lens in Hfind.
    rewrite (locate_uniq lens i j Hnn ltac:(lia) Hj) in Hfind.
    destruct (polygon_loop_edge_ok p i j d Hi) as (ed & Hed).
    { unfold lens in Hj. rewrite (loop_lens_nth _ _ d Hi) in Hj. exact Hj. }
    exists ed. rewrite Hfind. cbn [bind]. auto.
  - intros H0. rewrite Hne. unfold len in H0. destruct (pg_loops p); [reflexivity|cbn in H0; lia].
  - intros iz st ln Hiz Hc. unfold len in Hiz. assert (exists i, iz = Z.of_nat i) as (i & ->) by (exists (Z.to_nat iz); lia).
    assert (i < length (pg_loops p))%nat as Hi by lia.
    rewrite (polygon_chain_spec p i d Hf Hwf Hi) in Hc. fold lens in Hc. inv_ok.
    split; [intros H0; assert (i = O) by lia; subst i; destruct lens; reflexivity|].
    split.
    + intros Hl. rewrite Hne. rewrite <- pre_S by lia. unfold total. f_equal. unfold len in Hl. lia.
    + intros Hl. unfold len in Hl. exists (nth (S i) lens 0).
      replace (Z.of_nat i + 1) with (Z.of_nat (S i)) by lia.
      rewrite (polygon_chain_spec p (S i) d Hf Hwf ltac:(lia)). fold lens.
      rewrite pre_S by lia. reflexivity.
Qed.

(** the full polygon: one chain of length 0, no edges *)
Lemma polygon_contract_full M loops : polygon_IsFull loops = true -> contract (polygon_ops (polygon_init M loops)).
Proof.
  intros Hf. unfold polygon_init. rewrite Hf.
  unfold polygon_IsFull in Hf. apply andb_prop in Hf as (Hl & Hfull).
  destruct loops as [|l [|l2 t]]; try discriminate;
    [clear Hl | exfalso; apply Z.eqb_eq in Hl; unfold len in Hl; cbn [length] in Hl; lia].
  unfold loop_IsFull, loop_isEmptyOrFull in Hfull. apply andb_prop in Hfull as (H1 & _).
  unfold contract, polygon_ops; ops_cbn. cbn [pg_numEdges pg_loops pg_cumulativeEdges].
  assert (forall i, 0 <= i < len [l] -> polygon_Chain (mkPolygon [l] 0 None) i = Ok (0, 0)) as Hch.
  { intros i Hi. unfold len in Hi; cbn in Hi. assert (i = 0) by lia; subst i.
    unfold polygon_Chain. cbn. rewrite H1. reflexivity. }
  split; [lia|]. split; [apply len_nonneg|]. split; [intros; lia|]. split; [|split].
  - intros i Hi. exists 0, 0. rewrite Hch by assumption. repeat split; try lia.
  - unfold len; cbn; lia.
  - intros i st ln Hi Hc. rewrite Hch in Hc by assumption. inv_ok. unfold len in *; cbn in *.
    repeat split; try lia.
Qed.

Theorem polygon_contract : forall M loops, polygon_wf loops -> contract (polygon_ops (polygon_init M loops)).
Proof.
  intros M loops Hwf. destruct (polygon_IsFull loops) eqn:Hf.
  - apply polygon_contract_full; assumption.
  - destruct Hwf as [Hw | Hw]; [congruence|].
    destruct (polygon_init_fields M loops Hf) as (Hfields & Hloops).
    apply polygon_contract_fields; [assumption|]. rewrite Hloops. assumption.
Qed.

(** the guard is needed: a polygon holding the empty loop beside another loop (rejected by
    Polygon.Validate) counts an edge for the empty loop but gives its chain length 0 *)
Theorem polygon_contract_needs_validity :
  exists loops, ~ polygon_wf loops /\ ~ contract (polygon_ops (polygon_init 12 loops)).
Proof.
  exists [mkLoop [7] false 0; mkLoop [1; 2; 3] false 0]. split.
  - intros [H | H]; [vm_compute in H; discriminate|].
    inversion H as [|? ? H1 _]; subst. apply H1. reflexivity.
  - intros (_ & _ & H & _). destruct (H 0 ltac:(vm_compute; split; congruence)) as (i & j & ed & Hp & _ & _ & _ & st & ln & Hc & Hj & _).
    vm_compute in Hp. inv_ok. vm_compute in Hc. inv_ok. lia.
Qed.

(** * LaxPolygon *)
Definition vlens (loops : list (list vertex)) : list Z := map len loops.

Lemma vlens_nonneg loops : nonneg (vlens loops).
Proof. induction loops; constructor; [apply len_nonneg|assumption]. Qed.

Lemma concat_len (loops : list (list vertex)) : len (concat loops) = total (vlens loops).
Proof.
  induction loops as [|l t IH]; [reflexivity|].
  cbn [concat vlens map]. fold (vlens t). rewrite total_cons, <- IH.
  unfold len. rewrite app_length. lia.
Qed.

Lemma lax_search_spec lens acc k e : nonneg lens -> acc <= e < acc + total lens ->
  lax_search (psums lens acc) k e = let '(i, _) := locate lens (e - acc) in Ok (k + 1 + Z.of_nat i).
Proof.
  intros H. revert acc k e. induction H as [|x t Hx Ht IH]; intros acc k e He.
  - unfold total in He; cbn in He. lia.
  - rewrite total_cons in He.
    change (psums (x :: t) acc) with (acc :: psums t (acc + x)).
    cbn [lax_search locate].
    destruct (acc <=? e) eqn:E0; [|apply Z.leb_gt in E0; lia].
    destruct (e - acc <? x) eqn:E.
    + apply Z.ltb_lt in E.
      assert (psums t (acc + x) = (acc + x) :: tl (psums t (acc + x))) as -> by (destruct t; reflexivity).
      cbn [lax_search]. destruct (acc + x <=? e) eqn:E1; [apply Z.leb_le in E1; lia|].
      f_equal. lia.
    + apply Z.ltb_ge in E. rewrite IH by lia.
      replace (e - (acc + x)) with (e - acc - x) by lia.
      destruct (locate t (e - acc - x)) as [i j]. f_equal. lia.
Qed.

Lemma mk_edge_ok (v : list vertex) a b : 0 <= a < len v -> 0 <= b < len v ->
  exists ed, mk_edge (idx v a) (idx v b) = Ok ed.
Proof.
  intros Ha Hb. rewrite (idx_ok v a 0 Ha), (idx_ok v b 0 Hb). eexists; reflexivity.
Qed.

(** one loop: the LaxLoop case *)
Lemma lax_polygon_contract_one (l : list vertex) : contract (lax_polygon_ops (lax_polygon_from_points [l])).
Proof.
  pose proof (len_nonneg l) as Hn.
  unfold contract, lax_polygon_ops, lax_polygon_ops_with, lax_polygon_from_points; ops_cbn.
  unfold lax_numVertices, lax_Edge, lax_Chain, lax_ChainEdge, lax_ChainPosition, lax_numLoopVertices, lax_numVertices.
  cbn [lx_numLoops lx_vertices lx_numVerts lx_cumulativeVertices]. cbn [Z.eqb Z.leb Z.compare Pos.compare Pos.compare_cont bind Pos.eqb].
  assert (forall e, 0 <= e < len l ->
     mk_edge (idx l e) (idx l (if negb (e + 1 =? len l) then e + 1 else 0)) =
     mk_edge (idx l e) (idx l (if e + 1 =? len l then 0 else e + 1))) as Hsame.
  { intros e He. destruct (e + 1 =? len l); reflexivity. }
  assert (forall e, 0 <= e < len l -> exists ed,
     mk_edge (idx l e) (idx l (if e + 1 =? len l then 0 else e + 1)) = Ok ed) as Hok.
  { intros e He. apply mk_edge_ok; [lia|]. zb; lia. }
  split; [lia|]. split; [lia|]. split; [|split; [|split]].
  - intros e He. destruct (Hok e He) as (ed & Hed). exists 0, e, ed.
    rewrite Hsame by lia. repeat split; try assumption; try lia.
    exists 0, (len l). repeat split; lia.
  - intros i Hi. exists 0, (len l). repeat split; try lia.
    intros j Hj. rewrite Z.add_0_l. destruct (Hok j Hj) as (ed & Hed). exists ed.
    rewrite Hsame by lia. repeat split; try assumption. f_equal. f_equal. lia.
  - lia.
  - intros i st ln Hi Hc. inv_ok. repeat split; lia.
Qed.

(** two or more loops: cumulativeVertices *)
Lemma lax_polygon_contract_many (loops : list (list vertex)) : (2 <= length loops)%nat ->
  contract (lax_polygon_ops (mkLaxPolygon (len loops) (concat loops) 0 (psums (vlens loops) 0))).
Proof.
  intros H2.
  set (lens := vlens loops).
  pose proof (vlens_nonneg loops) as Hnn. fold lens in Hnn.
  assert (length lens = length loops) as Hlen by apply map_length.
  assert (len lens = len loops) as Hlen' by (unfold len; lia).
  pose proof (concat_len loops) as Hcl. fold lens in Hcl.
  set (V := concat loops) in *.
  set (cum := psums lens 0).
  assert (forall i, (i <= length lens)%nat -> idx cum (Z.of_nat i) = Ok (pre lens i)) as Hcum.
  { intros i Hi. subst cum. rewrite psums_idx by (unfold len; lia). rewrite Nat2Z.id. reflexivity. }
  assert ((len loops =? 1) = false) as Hn1 by (apply Z.eqb_neq; unfold len; lia).
  assert ((len loops <=? 1) = false) as Hn1' by (apply Z.leb_gt; unfold len; lia).
  assert (forall e, 0 <= e -> lax_search (tl cum) 1 e = lax_search cum 0 e) as Htl.
  { intros e He. subst cum. destruct lens; cbn [psums tl lax_search];
      (destruct (0 <=? e) eqn:E; [reflexivity|apply Z.leb_gt in E; lia]). }
  assert (forall e, 0 <= e < total lens ->
            lax_search cum 0 e = let '(i, _) := locate lens e in Ok (1 + Z.of_nat i)) as Hsearch.
  { intros e He. subst cum. rewrite lax_search_spec by (assumption || lia).
    rewrite Z.sub_0_r. destruct (locate lens e). reflexivity. }
  (* the accessors at a located position *)
  assert (forall i j, (i < length lens)%nat -> 0 <= j < nth i lens 0 ->
     exists ed,
       lax_Edge (mkLaxPolygon (len loops) V 0 cum) (pre lens i + j) = Ok ed /\
       lax_ChainEdge (mkLaxPolygon (len loops) V 0 cum) (Z.of_nat i) j = Ok ed /\
       lax_ChainPosition (mkLaxPolygon (len loops) V 0 cum) (pre lens i + j) = Ok (Z.of_nat i, j) /\
       lax_Chain (mkLaxPolygon (len loops) V 0 cum) (Z.of_nat i) = Ok (pre lens i, nth i lens 0)) as Hat.
  { intros i j Hi Hj.
    pose proof (pre_nonneg lens i Hnn) as Hp0.
    pose proof (pre_S_le_total lens i Hnn Hi) as HpS.
    pose proof (pre_S lens i Hi) as HS.
    assert (0 <= pre lens i + j < total lens) as He by lia.
    pose proof (Hsearch _ He) as Hs. rewrite (locate_uniq lens i j Hnn Hi Hj) in Hs.
    set (k := if negb (j + 1 =? nth i lens 0) then j + 1 else 0).
    assert (0 <= k < nth i lens 0) as Hk by (subst k; zb; cbn; lia).
    destruct (mk_edge_ok V (pre lens i + j) (pre lens i + k)) as (ed & Hed); [lia|lia|].
    exists ed.
    unfold lax_Edge, lax_ChainEdge, lax_ChainPosition, lax_Chain, lax_numLoopVertices.
    cbn [lx_numLoops lx_vertices lx_numVerts lx_cumulativeVertices]. rewrite Hn1.
    rewrite Htl by lia. rewrite Hs. cbn [bind].
    replace (1 + Z.of_nat i) with (Z.of_nat (S i)) by lia.
    replace (Z.of_nat i + 1) with (Z.of_nat (S i)) by lia.
    rewrite (Hcum (S i)) by lia. cbn [bind].
    replace (Z.of_nat (S i) - 1) with (Z.of_nat i) by lia.
    rewrite (Hcum i) by lia. cbn [bind].
    rewrite HS. replace (pre lens i + nth i lens 0 - pre lens i) with (nth i lens 0) by lia.
    fold k.
    split; [|split; [exact Hed|split; [f_equal; f_equal; lia|reflexivity]]].
    rewrite <- Hed.
    assert ((if pre lens i + j + 1 =? pre lens i + nth i lens 0
             then Ok (pre lens i) else Ok (pre lens i + j + 1)) = Ok (pre lens i + k)) as ->.
    { subst k. destruct (j + 1 =? nth i lens 0) eqn:E2; cbn [negb].
      - apply Z.eqb_eq in E2. destruct (pre lens i + j + 1 =? pre lens i + nth i lens 0) eqn:E1;
          [f_equal; lia|apply Z.eqb_neq in E1; lia].
      - apply Z.eqb_neq in E2. destruct (pre lens i + j + 1 =? pre lens i + nth i lens 0) eqn:E1;
          [apply Z.eqb_eq in E1; lia|f_equal; lia]. }
    reflexivity. }
  unfold contract, lax_polygon_ops, lax_polygon_ops_with; ops_cbn.
  assert (lax_numVertices (mkLaxPolygon (len loops) V 0 cum) = Ok (total lens)) as Hnv.
  { unfold lax_numVertices. cbn [lx_numLoops lx_numVerts lx_cumulativeVertices]. rewrite Hn1'.
    replace (len loops) with (Z.of_nat (length lens)) by (unfold len; lia).
    rewrite Hcum by lia. reflexivity. }
  rewrite Hnv. cbn [lx_numLoops].
  split; [apply total_nonneg; assumption|]. split; [apply len_nonneg|]. split; [|split; [|split]].
  - intros e He. pose proof (locate_spec lens e Hnn He) as Hloc.
    destruct (locate lens e) as [i j]. destruct Hloc as (Hi & Hj & Hsum). subst e.
    destruct (Hat i j Hi Hj) as (ed & H1 & H2' & H3 & H4).
    exists (Z.of_nat i), j, ed. repeat split; try assumption; try (unfold len; lia).
    exists (pre lens i), (nth i lens 0). repeat split; try assumption; lia.
  - intros iz Hiz. unfold len in Hiz.
    assert (exists i, iz = Z.of_nat i) as (i & ->) by (exists (Z.to_nat iz); lia).
    assert (i < length lens)%nat as Hi by lia.
    exists (pre lens i), (nth i lens 0).
    split.
    { (* Chain does not depend on an offset *)
      unfold lax_Chain. cbn [lx_numLoops lx_cumulativeVertices]. rewrite Hn1.
      replace (Z.of_nat i + 1) with (Z.of_nat (S i)) by lia.
      rewrite (Hcum i), (Hcum (S i)) by lia. cbn [bind]. rewrite pre_S by lia. f_equal. f_equal. lia. }
    split; [apply pre_nonneg; assumption|]. split; [apply nth_nonneg; assumption|].
    split; [apply pre_S_le_total; assumption|].
    intros j Hj. destruct (Hat i j Hi Hj) as (ed & H1 & H2' & H3 & H4). exists ed. auto.
  - intros H0. unfold len in H0. lia.
  - intros iz st ln Hiz Hc. unfold len in Hiz.
    assert (exists i, iz = Z.of_nat i) as (i & ->) by (exists (Z.to_nat iz); lia).
    assert (i < length lens)%nat as Hi by lia.
    assert (forall i, (i < length lens)%nat ->
              lax_Chain (mkLaxPolygon (len loops) V 0 cum) (Z.of_nat i) = Ok (pre lens i, nth i lens 0)) as Hchain.
    { intros i' Hi'. unfold lax_Chain. cbn [lx_numLoops lx_cumulativeVertices]. rewrite Hn1.
      replace (Z.of_nat i' + 1) with (Z.of_nat (S i')) by lia.
      rewrite (Hcum i'), (Hcum (S i')) by lia. cbn [bind]. rewrite pre_S by lia. f_equal. f_equal. lia. }
    rewrite Hchain in Hc by assumption. inv_ok.
    split; [intros H0; assert (i = O) by lia; subst i; destruct lens; reflexivity|].
    split.
    + intros Hl. rewrite <- pre_S by lia. unfold total. f_equal. unfold len in Hl. lia.
    + intros Hl. unfold len in Hl. exists (nth (S i) lens 0).
      replace (Z.of_nat i + 1) with (Z.of_nat (S i)) by lia.
      rewrite Hchain by lia. rewrite pre_S by lia. reflexivity.
Qed.

Theorem lax_polygon_contract : forall loops, contract (lax_polygon_ops (lax_polygon_from_points loops)).
Proof.
  intros [|l [|l2 t]].
  - (* no loops: no edges, no chains *)
    unfold contract, lax_polygon_ops, lax_polygon_ops_with, lax_polygon_from_points; ops_cbn. cbn.
    repeat split; intros; lia.
  - apply lax_polygon_contract_one.
  - unfold lax_polygon_from_points. apply lax_polygon_contract_many. cbn. lia.
Qed.

(** the variant before fix 6634f3a: two loops of 2 and 3 vertices, edge 2 (first edge of loop 1) *)
Theorem lax_polygon_contract_old_refuted :
  exists loops, ~ contract (lax_polygon_ops_old (lax_polygon_from_points loops)).
Proof.
  exists [[1; 2]; [3; 4; 5]]. intros (_ & _ & H & _).
  destruct (H 2 ltac:(vm_compute; split; congruence)) as (i & j & ed & Hp & He & Hce & _).
  vm_compute in Hp. inv_ok. vm_compute in He, Hce. congruence.
Qed.

(** the guard of [polygon_contract] is satisfiable: a shell with a hole, and the full polygon *)
Example polygon_wf_examples :
  polygon_wf [mkLoop [1; 2; 3] false 0; mkLoop [4; 5; 6] false 1] /\ polygon_wf [mkLoop [9] true 0].
Proof.
  split.
  - right. repeat constructor; cbn; lia.
  - left. reflexivity.
Qed.
