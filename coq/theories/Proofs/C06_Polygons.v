(** C06 — the Shape contract for Polygon and LaxPolygon (any number of loops of any sizes). *)
From Coq Require Import ZArith List Bool Lia.
From Geo Require Import Base.GoPrim Gen.C06Util Model.Shapes Proofs.C06_Slices Proofs.C06_Prefix.
Import ListNotations.
Local Open Scope Z_scope.

(** * Polygon *)
Definition loop_lens (ls : list loop) : list Z := map (fun l => len (lp_vertices l)) ls.

Lemma loop_lens_nonneg ls : nonneg (loop_lens ls).
Proof. induction ls; constructor; [apply len_nonneg|assumption]. Qed.

Lemma loop_lens_length ls : length (loop_lens ls) = length ls.
Proof. apply map_length. Qed.

Lemma loop_lens_nth ls i d : (i < length ls)%nat -> nth i (loop_lens ls) 0 = len (lp_vertices (nth i ls d)).
Proof.
  intros Hi. unfold loop_lens.
  rewrite (nth_indep _ 0 (len (lp_vertices d))) by (rewrite map_length; lia).
  apply (map_nth (fun l => len (lp_vertices l))).
Qed.

(** [acc + pre lens 0; ...; acc + pre lens (n-1)]: what initEdgesAndIndex appends *)
Fixpoint psumsP (lens : list Z) (acc : Z) : list Z :=
  match lens with [] => [] | x :: t => acc :: psumsP t (acc + x) end.

Lemma psumsP_length lens acc : length (psumsP lens acc) = length lens.
Proof. revert acc. induction lens as [|x t IH]; intros; cbn; [reflexivity|]. rewrite IH; reflexivity. Qed.

Lemma psumsP_nth lens acc i : (i < length lens)%nat -> nth i (psumsP lens acc) 0 = acc + pre lens i.
Proof.
  revert acc i. induction lens as [|x t IH]; intros acc i Hi; cbn in Hi; [lia|].
  destruct i as [|i]; cbn; [lia|]. rewrite IH by lia. lia.
Qed.

Lemma init_loop_spec ls acc cum :
  polygon_init_loop ls acc cum =
  (acc + total (loop_lens ls),
   match cum with Some c => Some (c ++ psumsP (loop_lens ls) acc) | None => None end).
Proof.
  revert acc cum. induction ls as [|l t IH]; intros acc cum; cbn [polygon_init_loop loop_lens map psumsP].
  - unfold total; cbn. rewrite Z.add_0_r. destruct cum; [rewrite app_nil_r|]; reflexivity.
  - rewrite IH. fold (loop_lens t). rewrite total_cons. f_equal; [lia|].
    destruct cum; [|reflexivity]. rewrite <- app_assoc. reflexivity.
Qed.

Lemma lin_search_spec ls k e : 0 <= e < total (loop_lens ls) ->
  lin_search ls k e = let '(i, j) := locate (loop_lens ls) e in Ok (k + Z.of_nat i, j).
Proof.
  revert k e. induction ls as [|l t IH]; intros k e He.
  - unfold total in He; cbn in He. lia.
  - cbn [loop_lens map] in *. fold (loop_lens t) in *. rewrite total_cons in He.
    cbn [lin_search locate].
    destruct (e >=? len (lp_vertices l)) eqn:E; rewrite Z.geb_leb in E.
    + apply Z.leb_le in E. destruct (e <? len (lp_vertices l)) eqn:E2; [apply Z.ltb_lt in E2; lia|].
      rewrite IH by lia. destruct (locate (loop_lens t) (e - len (lp_vertices l))) as [i j].
      f_equal. f_equal. lia.
    + apply Z.leb_gt in E. destruct (e <? len (lp_vertices l)) eqn:E2; [|apply Z.ltb_ge in E2; lia].
      f_equal. f_equal. lia.
Qed.

Lemma cum_search_spec lens acc k e : nonneg lens -> acc <= e < acc + total lens ->
  cum_search (psumsP lens acc) k e = let '(i, j) := locate lens (e - acc) in (k + Z.of_nat i, j).
Proof.
  intros H. revert acc k e. induction H as [|x t Hx Ht IH]; intros acc k e He.
  - unfold total in He; cbn in He. lia.
  - rewrite total_cons in He. cbn [psumsP cum_search locate].
    destruct t as [|y t'].
    + cbn [psumsP]. unfold total in He; cbn in He.
      destruct (e - acc <? x) eqn:E; [|apply Z.ltb_ge in E; lia]. f_equal. lia.
    + cbn [psumsP]. change (acc + x :: psumsP t' (acc + x + y)) with (psumsP (y :: t') (acc + x)).
      destruct (e <? acc + x) eqn:E.
      * apply Z.ltb_lt in E. destruct (e - acc <? x) eqn:E2; [|apply Z.ltb_ge in E2; lia]. f_equal; lia.
      * apply Z.ltb_ge in E. destruct (e - acc <? x) eqn:E2; [apply Z.ltb_lt in E2; lia|].
        rewrite IH by lia. replace (e - (acc + x)) with (e - acc - x) by lia.
        destruct (locate (y :: t') (e - acc - x)) as [i j]. f_equal. lia.
Qed.

Lemma sum_first_spec ls i : (i <= length ls)%nat -> sum_first ls i = Ok (pre (loop_lens ls) i).
Proof.
  revert i. induction ls as [|l t IH]; intros i Hi; cbn in Hi.
  - assert (i = O) by lia; subst; reflexivity.
  - destruct i as [|i]; [reflexivity|]. cbn [sum_first loop_lens map pre]. fold (loop_lens t).
    rewrite IH by lia. reflexivity.
Qed.

(** OrientedVertex(j) and OrientedVertex(j+1) exist for every offset of a loop *)
Lemma oriented_vertex_ok l j : 0 <= j <= len (lp_vertices l) -> 0 < len (lp_vertices l) ->
  exists x, loop_OrientedVertex l j = Ok x.
Proof.
  intros Hj Hn. unfold loop_OrientedVertex, loop_Vertex.
  destruct (len (lp_vertices l) =? 0) eqn:E0; [apply Z.eqb_eq in E0; lia|].
  set (n := len (lp_vertices l)) in *.
  set (j1 := if j - n <? 0 then j else j - n).
  assert (0 <= j1 < n) as H1 by (subst j1; zb; lia).
  set (j2 := if loop_IsHole l then n - 1 - j1 else j1).
  assert (0 <= j2 < n) as H2 by (subst j2; destruct (loop_IsHole l); lia).
  assert (0 <= Z.rem j2 n < n) as Hr by (apply Z.rem_bound_pos; lia).
  rewrite (idx_ok (lp_vertices l) _ 0 Hr). eexists; reflexivity.
Qed.

Lemma polygon_loop_edge_ok (p : polygon) i j (d : loop) :
  (i < length (pg_loops p))%nat -> 0 <= j < len (lp_vertices (nth i (pg_loops p) d)) ->
  exists ed, polygon_loop_edge p (Z.of_nat i) j = Ok ed.
Proof.
  intros Hi Hj. unfold polygon_loop_edge.
  rewrite (idx_ok (pg_loops p) (Z.of_nat i) d) by (unfold len; lia).
  rewrite Nat2Z.id. cbn [bind].
  destruct (oriented_vertex_ok (nth i (pg_loops p) d) j) as (x & Hx); [lia|lia|].
  destruct (oriented_vertex_ok (nth i (pg_loops p) d) (j + 1)) as (y & Hy); [lia|lia|].
  rewrite Hx, Hy. eexists; reflexivity.
Qed.

(** Polygon.Validate: no empty loop, and the full loop only as the full polygon; hence either the
    polygon is the full polygon or no loop has exactly one vertex. *)
Definition polygon_wf (loops : list loop) : Prop :=
  polygon_IsFull loops = true \/ Forall (fun l => len (lp_vertices l) <> 1) loops.

(** what [polygon_init] leaves in the fields of a non-full polygon *)
Definition polygon_fields_ok (p : polygon) : Prop :=
  pg_numEdges p = total (loop_lens (pg_loops p)) /\
  (pg_cumulativeEdges p = None \/ pg_cumulativeEdges p = Some (psumsP (loop_lens (pg_loops p)) 0)).

Lemma polygon_init_fields M loops : polygon_IsFull loops = false ->
  polygon_fields_ok (polygon_init M loops) /\ pg_loops (polygon_init M loops) = loops.
Proof.
  intros Hf. unfold polygon_init. rewrite Hf.
  rewrite init_loop_spec. unfold polygon_fields_ok. cbn.
  destruct (len loops >? M); cbn; repeat split; auto.
Qed.

Lemma polygon_find_spec p e : polygon_fields_ok p -> 0 <= e < pg_numEdges p ->
  polygon_find p e = let '(i, j) := locate (loop_lens (pg_loops p)) e in Ok (Z.of_nat i, j).
Proof.
  intros (Hne & Hcum) He. rewrite Hne in He. unfold polygon_find.
  pose proof (loop_lens_nonneg (pg_loops p)) as Hnn.
  destruct Hcum as [-> | ->].
  - rewrite lin_search_spec by assumption. destruct (locate _ e); reflexivity.
  - destruct (psumsP (loop_lens (pg_loops p)) 0) as [|c0 c] eqn:Ec.
    + rewrite lin_search_spec by assumption. destruct (locate _ e); reflexivity.
    + rewrite <- Ec. rewrite cum_search_spec by (assumption || lia).
      rewrite Z.sub_0_r. destruct (locate _ e); reflexivity.
Qed.

Lemma polygon_chain_spec p i (d : loop) : polygon_fields_ok p ->
  Forall (fun l => len (lp_vertices l) <> 1) (pg_loops p) -> (i < length (pg_loops p))%nat ->
  polygon_Chain p (Z.of_nat i) = Ok (pre (loop_lens (pg_loops p)) i, nth i (loop_lens (pg_loops p)) 0).
Proof.
  intros (Hne & Hcum) Hwf Hi. unfold polygon_Chain.
  rewrite (loop_lens_nth _ _ d Hi).
  destruct Hcum as [-> | ->].
  - rewrite Nat2Z.id, sum_first_spec by lia. cbn [bind].
    rewrite (idx_ok (pg_loops p) (Z.of_nat i) d) by (unfold len; lia). rewrite Nat2Z.id. cbn [bind].
    rewrite Forall_forall in Hwf. specialize (Hwf (nth i (pg_loops p) d) (nth_In _ _ Hi)).
    destruct (len (lp_vertices (nth i (pg_loops p) d)) =? 1) eqn:E; [apply Z.eqb_eq in E; contradiction|].
    reflexivity.
  - rewrite (idx_ok (psumsP (loop_lens (pg_loops p)) 0) (Z.of_nat i) 0)
      by (unfold len; rewrite psumsP_length, loop_lens_length; lia).
    rewrite Nat2Z.id, psumsP_nth by (rewrite loop_lens_length; lia). cbn [bind].
    rewrite (idx_ok (pg_loops p) (Z.of_nat i) d) by (unfold len; lia). rewrite Nat2Z.id. cbn [bind].
    reflexivity.
Qed.

Lemma polygon_contract_fields p : polygon_fields_ok p ->
  Forall (fun l => len (lp_vertices l) <> 1) (pg_loops p) -> contract (polygon_ops p).
Proof.
  intros Hf Hwf. pose proof Hf as (Hne & _).
  set (lens := loop_lens (pg_loops p)) in *.
  pose proof (loop_lens_nonneg (pg_loops p)) as Hnn. fold lens in Hnn.
  pose proof (loop_lens_length (pg_loops p)) as Hlen. fold lens in Hlen.
  set (d := mkLoop [] false 0).
  unfold contract, polygon_ops; ops_cbn.
  split; [rewrite Hne; apply total_nonneg; assumption|].
  split; [apply len_nonneg|]. split; [|split; [|split]].
  - intros e He.
    pose proof (polygon_find_spec p e Hf He) as Hfind. fold lens in Hfind.
    rewrite Hne in He. pose proof (locate_spec lens e Hnn He) as Hloc.
    destruct (locate lens e) as [i j]. destruct Hloc as (Hi & Hj & Hsum).
    rewrite Hlen in Hi.
    destruct (polygon_loop_edge_ok p i j d Hi) as (ed & Hed).
    { unfold lens in Hj. rewrite (loop_lens_nth _ _ d Hi) in Hj. exact Hj. }
    exists (Z.of_nat i), j, ed. rewrite Hfind. cbn [bind]. repeat split; try assumption; try (unfold len; lia).
    exists (pre lens i), (nth i lens 0). rewrite (polygon_chain_spec p i d Hf Hwf Hi). fold lens.
    repeat split; lia.
  - intros iz Hiz. unfold len in Hiz. assert (exists i, iz = Z.of_nat i) as (i & ->) by (exists (Z.to_nat iz); lia).
    assert (i < length (pg_loops p))%nat as Hi by lia.
    exists (pre lens i), (nth i lens 0). rewrite (polygon_chain_spec p i d Hf Hwf Hi). fold lens.
    split; [reflexivity|]. split; [apply pre_nonneg; assumption|]. split; [apply nth_nonneg; assumption|].
    split; [rewrite Hne; apply pre_S_le_total; [assumption|lia]|].
    intros j Hj.
    assert (0 <= pre lens i + j < pg_numEdges p) as He.
    { pose proof (pre_nonneg lens i Hnn). pose proof (pre_S_le_total lens i Hnn ltac:(lia)). lia. }
    pose proof (polygon_find_spec p _ Hf He) as Hfind. fold lens in Hfind.
    rewrite (locate_uniq lens i j Hnn ltac:(lia) Hj) in Hfind.
    destruct (polygon_loop_edge_ok p i j d Hi) as (ed & Hed).
    { unfold lens in Hj. rewrite (loop_lens_nth _ _ d Hi) in Hj. exact Hj. }
    exists ed. rewrite Hfind. cbn [bind]. auto.
  - intros H0. rewrite Hne. unfold len in H0. destruct (pg_loops p); [reflexivity|cbn in H0; lia].
  - intros iz st ln Hiz Hc. unfold len in Hiz. assert (exists i, iz = Z.of_nat i) as (i & ->) by (exists (Z.to_nat iz); lia).
    assert (i < length (pg_loops p))%nat as Hi by lia.
    rewrite (polygon_chain_spec p i d Hf Hwf Hi) in Hc. fold lens in Hc. inv_ok.
    split; [intros H0; assert (i = O) by lia; subst i; destruct lens; reflexivity|].
    split.
    + intros Hl. rewrite Hne. rewrite <- pre_S by lia. unfold total. f_equal. unfold len in Hl. lia.
    + intros Hl. unfold len in Hl. exists (nth (S i) lens 0).
      replace (Z.of_nat i + 1) with (Z.of_nat (S i)) by lia.
      rewrite (polygon_chain_spec p (S i) d Hf Hwf ltac:(lia)). fold lens.
      rewrite pre_S by lia. reflexivity.
Qed.

(** the full polygon: one chain of length 0, no edges *)
Lemma polygon_contract_full M loops : polygon_IsFull loops = true -> contract (polygon_ops (polygon_init M loops)).
Proof.
  intros Hf. unfold polygon_init. rewrite Hf.
  unfold polygon_IsFull in Hf. apply andb_prop in Hf as (Hl & Hfull).
  destruct loops as [|l [|l2 t]]; try discriminate;
    [clear Hl | exfalso; apply Z.eqb_eq in Hl; unfold len in Hl; cbn [length] in Hl; lia].
  unfold loop_IsFull, loop_isEmptyOrFull in Hfull. apply andb_prop in Hfull as (H1 & _).
  unfold contract, polygon_ops; ops_cbn. cbn [pg_numEdges pg_loops pg_cumulativeEdges].
  assert (forall i, 0 <= i < len [l] -> polygon_Chain (mkPolygon [l] 0 None) i = Ok (0, 0)) as Hch.
  { intros i Hi. unfold len in Hi; cbn in Hi. assert (i = 0) by lia; subst i.
    unfold polygon_Chain. cbn. rewrite H1. reflexivity. }
  split; [lia|]. split; [apply len_nonneg|]. split; [intros; lia|]. split; [|split].
  - intros i Hi. exists 0, 0. rewrite Hch by assumption. repeat split; try lia.
  - unfold len; cbn; lia.
  - intros i st ln Hi Hc. rewrite Hch in Hc by assumption. inv_ok. unfold len in *; cbn in *.
    repeat split; try lia.
Qed.

Theorem polygon_contract : forall M loops, polygon_wf loops -> contract (polygon_ops (polygon_init M loops)).
Proof.
  intros M loops Hwf. destruct (polygon_IsFull loops) eqn:Hf.
  - apply polygon_contract_full; assumption.
  - destruct Hwf as [Hw | Hw]; [congruence|].
    destruct (polygon_init_fields M loops Hf) as (Hfields & Hloops).
    apply polygon_contract_fields; [assumption|]. rewrite Hloops. assumption.
Qed.

(** the guard is needed: a polygon holding the empty loop beside another loop (rejected by
    Polygon.Validate) counts an edge for the empty loop but gives its chain length 0 *)
Theorem polygon_contract_needs_validity :
  exists loops, ~ polygon_wf loops /\ ~ contract (polygon_ops (polygon_init 12 loops)).
Proof.
  exists [mkLoop [7] false 0; mkLoop [1; 2; 3] false 0]. split.
  - intros [H | H]; [vm_compute in H; discriminate|].
    inversion H as [|? ? H1 _]; subst. apply H1. reflexivity.
  - intros (_ & _ & H & _). destruct (H 0 ltac:(vm_compute; split; congruence)) as (i & j & ed & Hp & _ & _ & _ & st & ln & Hc & Hj & _).
    vm_compute in Hp. inv_ok. vm_compute in Hc. inv_ok. lia.
Qed.
