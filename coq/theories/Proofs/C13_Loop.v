(** C13, loop machine: after any interleaving of Invert / Build / Query on a Loop, a query
    sees exactly the loop's current vertices and originInside, and the cell map of its index
    holds exactly that geometry (never an earlier orientation, never nothing); Invert is an
    involution on (vertices, originInside, observable). *)
From Coq Require Import List Bool Arith Lia.
From Geo Require Import Model.Lazy Proofs.C13_Index.
Import ListNotations.

Section LoopProofs.
  Context {V B : Type}.
  Variable emptyPt fullPt : V.
  Variable origin_of : list V -> bool.
  Variable bound_of : list V -> bool -> B.
  Variable fullB : B.
  Variable avoids_poles : B -> bool.

  Notation loop := (@loop V B).
  Notation loop_init := (loop_init origin_of bound_of).
  Notation invert_verts := (invert_verts emptyPt fullPt).
  Notation lstep := (lstep emptyPt fullPt bound_of fullB avoids_poles).
  Notation lrun := (lrun emptyPt fullPt origin_of bound_of fullB avoids_poles).
  Notation iter_invert := (iter_invert emptyPt fullPt).

  (** the specification: a pure function of the history *)
  Fixpoint lspec (vs : list V) (oi : bool) (h : list lop) : list (@lobs V) :=
    match h with
    | [] => []
    | LInvert :: r => lspec (invert_verts vs oi) (negb oi) r
    | LBuild :: r => lspec vs oi r
    | LQuery :: r | LBrute :: r => (vs, oi, [(0, (vs, oi))]) :: lspec vs oi r
    end.

  Definition linv (l : loop) : Prop := iinv (lsnap (lverts l) (lorigin l)) (lindex l) [tt].

  Lemma linv_init vs : linv (loop_init vs).
  Proof. unfold linv, loop_init. cbn [lverts lorigin lindex]. exact (iinv_add _ _ [] tt (iinv_new _)). Qed.

  Lemma linv_invert l : linv (loop_invert emptyPt fullPt bound_of fullB avoids_poles index_reset l).
  Proof. unfold linv, loop_invert. cbn [lverts lorigin lindex]. exact (iinv_add _ _ [] tt (iinv_new _)). Qed.

  Lemma canonical_one (vs : list V) (oi : bool) : canonical (lsnap vs oi) [tt] = ([(0, (vs, oi))], [(0, tt)]).
  Proof. reflexivity. Qed.

  Lemma loop_history_from (h : list lop) : forall l, linv l ->
    exists l', run (lstep apply index_reset) l h = Ok (l', lspec (lverts l) (lorigin l) h) /\ linv l'.
  Proof.
    induction h as [|o h IH]; intros l Hl; cbn [run lspec].
    - exists l. split; [reflexivity|exact Hl].
    - destruct o; cbn [Lazy.lstep obind].
      + destruct (IH _ (linv_invert l)) as (l' & Hr & Hl'). rewrite Hr. cbn. eauto.
      + destruct (maybe_apply_ok _ _ _ Hl) as (ix1 & Hm & Hi1 & _). rewrite Hm. cbn [obind].
        destruct (IH (mkLoop (lverts l) (lorigin l) (lbound l) ix1) Hi1) as (l' & Hr & Hl'). rewrite Hr. cbn. eauto.
      + destruct (maybe_apply_ok _ _ _ Hl) as (ix1 & Hm & Hi1 & Hf). rewrite Hm. cbn [obind].
        destruct (IH (mkLoop (lverts l) (lorigin l) (lbound l) ix1) Hi1) as (l' & Hr & Hl'). rewrite Hr. cbn [obind app].
        pose proof (fresh_observe _ _ _ Hi1 Hf) as Ho. rewrite canonical_one in Ho. unfold observe in Ho.
        inversion Ho as [[Hc Hs]]. eauto.
      + destruct (IH _ Hl) as (l' & Hr & Hl'). rewrite Hr. cbn. eauto.
  Qed.

  (** Every history over a loop: never Hang/Panic; each query sees the CURRENT vertices and
      originInside, and its index's cell map holds exactly that geometry. *)
  Theorem loop_history (vs : list V) (h : list lop) :
    exists l', lrun vs h = Ok (l', lspec vs (origin_of vs) h).
  Proof. destruct (loop_history_from h _ (linv_init vs)) as (l' & Hr & _). exists l'. exact Hr. Qed.

  (** ** Invert is an involution *)
  Definition canonical_loop (vs : list V) (oi : bool) : Prop :=
    length vs = 1 -> vs = [if oi then fullPt else emptyPt].

  Lemma invert_verts_canonical vs oi : canonical_loop (invert_verts vs oi) (negb oi).
  Proof.
    unfold canonical_loop, Lazy.invert_verts, is_empty_or_full. destruct (length vs =? 1) eqn:E.
    - destruct oi; reflexivity.
    - rewrite rev_length. apply Nat.eqb_neq in E. intros; lia.
  Qed.

  Lemma invert_verts_involutive vs oi : canonical_loop vs oi ->
    invert_verts (invert_verts vs oi) (negb oi) = vs.
  Proof.
    unfold canonical_loop, Lazy.invert_verts, is_empty_or_full. intros Hc. destruct (length vs =? 1) eqn:E.
    - apply Nat.eqb_eq in E. rewrite (Hc E). destruct oi; reflexivity.
    - rewrite rev_length, E. apply rev_involutive.
  Qed.

  Theorem invert_involutive vs oi : canonical_loop vs oi ->
    iter_invert 2 vs oi = (vs, oi).
  Proof. intros Hc. cbn [Lazy.iter_invert]. rewrite invert_verts_involutive by exact Hc. rewrite negb_involutive. reflexivity. Qed.

  Lemma iter_invert_canonical n : forall vs oi, canonical_loop vs oi ->
    canonical_loop (fst (iter_invert n vs oi)) (snd (iter_invert n vs oi)).
  Proof.
    induction n as [|n IH]; intros vs oi Hc; [exact Hc|]. cbn [Lazy.iter_invert].
    apply IH, invert_verts_canonical.
  Qed.

  Theorem invert_parity n : forall vs oi, canonical_loop vs oi ->
    iter_invert n vs oi = if Nat.even n then (vs, oi) else (invert_verts vs oi, negb oi).
  Proof.
    induction n as [n IH] using lt_wf_ind. intros vs oi Hc.
    destruct n as [|[|n]]; [reflexivity|reflexivity|].
    change (iter_invert (Datatypes.S (Datatypes.S n)) vs oi)
      with (iter_invert n (invert_verts (invert_verts vs oi) (negb oi)) (negb (negb oi))).
    rewrite invert_verts_involutive, negb_involutive by exact Hc.
    rewrite IH by (lia || exact Hc). reflexivity.
  Qed.

  Lemma last_default {A} (l : list A) (d d' : A) : l <> [] -> last l d = last l d'.
  Proof.
    induction l as [|x l IH]; intros Hn; [congruence|]. destruct l as [|y l]; [reflexivity|].
    change (last (y :: l) d = last (y :: l) d'). apply IH. discriminate.
  Qed.
  Lemma last_cons {A} (x : A) (l : list A) (d : A) : l <> [] -> last (x :: l) d = last l d.
  Proof. destruct l; [congruence|reflexivity]. Qed.

  Lemma lspec_nonnil (h : list lop) : forall vs oi, lspec vs oi (h ++ [LQuery]) <> [].
  Proof.
    induction h as [|o h IH]; intros vs oi; [discriminate|].
    destruct o; cbn [app lspec]; try apply IH; discriminate.
  Qed.

  (** the geometry after a history = Invert applied (number of Inverts) times *)
  Lemma lspec_last (h : list lop) : forall vs oi d,
    last (lspec vs oi (h ++ [LQuery])) d =
    (fst (iter_invert (count_inverts h) vs oi), snd (iter_invert (count_inverts h) vs oi),
     [(0, iter_invert (count_inverts h) vs oi)]).
  Proof.
    induction h as [|o h IH]; intros vs oi d; [reflexivity|].
    destruct o; cbn [app lspec]; unfold count_inverts; cbn [filter length Lazy.iter_invert]; fold (count_inverts h).
    - apply IH.
    - apply IH.
    - rewrite last_cons by apply lspec_nonnil. apply IH.
    - rewrite last_cons by apply lspec_nonnil. apply IH.
  Qed.

  (** ** against a FRESH loop built from the final vertex order.
      The geometric fact that reversing the vertex order flips origin containment is C04's;
      here it is a premise (it is what initOriginAndBound computes on the reversed list). *)
  Definition H_ORIGIN_REV : Prop :=
    forall vs, origin_of (invert_verts vs (origin_of vs)) = negb (origin_of vs).

  (** the same with the premise for THIS vertex list only (it is used once, for an odd number of
      Inverts): this is the form that Proofs/C13_OriginRev.v discharges for the real predicates *)
  Theorem invert_matches_fresh_at (vs : list V) (h : list lop) :
    origin_of (invert_verts vs (origin_of vs)) = negb (origin_of vs) ->
    canonical_loop vs (origin_of vs) ->
    let vs' := fst (iter_invert (count_inverts h) vs (origin_of vs)) in
    exists l1 l2 o1 o2,
      lrun vs (h ++ [LQuery]) = Ok (l1, o1) /\ lrun vs' [LQuery] = Ok (l2, o2) /\
      last o1 (vs, origin_of vs, []) = last o2 (vs, origin_of vs, []).
  Proof.
    intros HR Hc vs'.
    destruct (loop_history vs (h ++ [LQuery])) as (l1 & H1).
    destruct (loop_history vs' [LQuery]) as (l2 & H2).
    eexists l1, l2, _, _. split; [exact H1|]. split; [exact H2|].
    rewrite lspec_last. cbn [lspec last].
    assert (snd (iter_invert (count_inverts h) vs (origin_of vs)) = origin_of vs') as Ho.
    { subst vs'. rewrite invert_parity by exact Hc. destruct (Nat.even (count_inverts h)); cbn [fst snd]; [reflexivity|].
      symmetry. exact HR. }
    subst vs'. rewrite <- Ho. destruct (iter_invert (count_inverts h) vs (origin_of vs)); reflexivity.
  Qed.

  Theorem invert_matches_fresh (HR : H_ORIGIN_REV) (vs : list V) (h : list lop) :
    canonical_loop vs (origin_of vs) ->
    let vs' := fst (iter_invert (count_inverts h) vs (origin_of vs)) in
    exists l1 l2 o1 o2,
      lrun vs (h ++ [LQuery]) = Ok (l1, o1) /\ lrun vs' [LQuery] = Ok (l2, o2) /\
      last o1 (vs, origin_of vs, []) = last o2 (vs, origin_of vs, []).
  Proof.
    intros Hc vs'.
    destruct (loop_history vs (h ++ [LQuery])) as (l1 & H1).
    destruct (loop_history vs' [LQuery]) as (l2 & H2).
    eexists l1, l2, _, _. split; [exact H1|]. split; [exact H2|].
    rewrite lspec_last. cbn [lspec last].
    assert (snd (iter_invert (count_inverts h) vs (origin_of vs)) = origin_of vs') as Ho.
    { subst vs'. rewrite invert_parity by exact Hc. destruct (Nat.even (count_inverts h)); cbn [fst snd]; [reflexivity|].
      symmetry. apply HR. }
    subst vs'. rewrite <- Ho. destruct (iter_invert (count_inverts h) vs (origin_of vs)); reflexivity.
  Qed.
End LoopProofs.

(** ** What the repair of Reset changed, on a loop: Query; Invert; Query with the old Reset
    leaves the loop's cell map EMPTY at the second query. *)
Definition nat_loop_run rst (vs : list nat) (h : list lop) :=
  run (lstep 100 200 (fun _ _ => tt) tt (fun _ => true) apply rst) (loop_init (fun _ => false) (fun _ _ => tt) vs) h.

Theorem loop_reset_old_refuted :
  exists h l, nat_loop_run index_reset_old [1; 2; 3; 4] h
    = Ok (l, [([1; 2; 3; 4], false, [(0, ([1; 2; 3; 4], false))]); ([4; 3; 2; 1], true, [])]).
Proof. exists [LQuery; LInvert; LQuery]. eexists. vm_compute. reflexivity. Qed.

(** mutation "Invert forgets index.Reset()": the loop is in its own index twice *)
Theorem loop_no_reset_refuted :
  exists h l, nat_loop_run (fun ix => ix) [1; 2; 3; 4] h
    = Ok (l, [([1; 2; 3; 4], false, [(0, ([1; 2; 3; 4], false))]);
              ([4; 3; 2; 1], true, [(0, ([4; 3; 2; 1], true)); (1, ([4; 3; 2; 1], true))])]).
Proof. exists [LQuery; LInvert; LQuery]. eexists. vm_compute. reflexivity. Qed.

Example loop_history_example :
  exists l, nat_loop_run index_reset [1; 2; 3; 4] [LQuery; LInvert; LBuild; LInvert; LInvert; LQuery]
    = Ok (l, [([1; 2; 3; 4], false, [(0, ([1; 2; 3; 4], false))]); ([4; 3; 2; 1], true, [(0, ([4; 3; 2; 1], true))])]).
Proof. eexists. vm_compute. reflexivity. Qed.

(** ** Polygon.Invert ends in initLoopProperties -> initEdgesAndIndex, which allocates a NEW
    ShapeIndex and adds the polygon: its index is by construction the canonical one. *)
Lemma polygon_invert_index_is_fresh {G} (snap : unit -> G) :
  exists ix, run (istep (apply snap) index_reset) (index_add tt index_new) [IQuery] = Ok (ix, [canonical snap [tt]]).
Proof. eexists. cbn. reflexivity. Qed.

(** ** Executable check for the correspondence: vertices as positions 0..n-1. *)
Definition lobs_eqb (a b : list nat * bool * list (nat * (list nat * bool))) : bool :=
  let '(va, oa, ca) := a in let '(vb, ob, cb) := b in
  list_nat_eqb va vb && Bool.eqb oa ob &&
  list_nat_eqb (map fst ca) (map fst cb) &&
  forallb (fun p => list_nat_eqb (fst (snd p)) va && Bool.eqb (snd (snd p)) oa) ca.
(** initial vertices [vs0] as codes (positions; 1000 = the empty-loop point, 1001 = the full-loop
    point), initial originInside [oi0]; per Query the observer reports the vertex order in the
    same codes, ContainsOrigin, and the shape ids found in the loop's cell map *)
Definition loop_case (vs0 : list nat) (oi0 : bool) (h : list lop) (cls : nat)
           (observed : list (list nat * bool * list nat)) : bool :=
  match run (lstep 1000 1001 (fun _ _ => tt) tt (fun _ => true) apply index_reset)
            (loop_init (fun _ => oi0) (fun _ _ => tt) vs0) h with
  | Ok (_, outs) => (cls =? 0) && (length outs =? length observed) &&
      forallb (fun p => let '(vs, oi, cs) := fst p in let '(vs', oi', ids) := snd p in
                 list_nat_eqb vs vs' && Bool.eqb oi oi' && list_nat_eqb (map fst cs) ids)
              (combine outs observed)
  | Hang => cls =? 1
  | Panic => cls =? 2
  end.
