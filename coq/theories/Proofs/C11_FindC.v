(** C11 — s2intersect.Find, part C: intervalOverlaps (the sweep), against an abstract
    activity function [act i p] (union i is active at integer position p, where a start limit at
    leaf l has position l and an end limit at leaf l has position l + 1). *)
From Coq Require Import ZArith List Bool Lia ZifyBool Sorted Permutation.
From Geo Require Import Base.GoPrim Gen.CellID Model.CellUnion Model.Intersect Proofs.C11_Bits Proofs.C11_Cells
  Proofs.C11_Normalize Proofs.C11_Unique Proofs.C11_FindA.
Import ListNotations.
Local Open Scope Z_scope.

Definition pos (l : limit) : Z := l_leaf l + (if l_typ l then 1 else 0).
Definition ov_idx (o : overlap) : list Z := fst (fst o).
Definition ov_s (o : overlap) : Z := snd (fst o).
Definition ov_e (o : overlap) : Z := snd o.

(** * Parity facts (kept in small contexts: [lia] is slow inside the section) *)
Lemma leaf_ge3 x p : leaf x -> 0 < p -> p < x -> 3 <= x.
Proof. unfold leaf. intros. Z.div_mod_to_equations. lia. Qed.
Lemma leaf_pm2 x : leaf x -> leaf (x - 2) /\ leaf (x + 2).
Proof. unfold leaf. intros. Z.div_mod_to_equations. lia. Qed.
Lemma leaf_lt_top x : leaf x -> x + 1 < 6 * 2 ^ 61 -> x + 2 < 6 * 2 ^ 61.
Proof. unfold leaf. intros. Z.div_mod_to_equations. lia. Qed.
Lemma leaf_between x ls e p q : leaf x -> leaf ls -> leaf e ->
  p <= ls <= p + 1 -> q - 2 <= e < q -> p <= x -> x < q -> ls <= x <= e.
Proof. unfold leaf. intros. Z.div_mod_to_equations. lia. Qed.

(** * io_step by components *)
Definition step_open (open : list Z) (l : limit) : list Z :=
  if l_typ l then fold_left (fun s i => set_del i s) (l_idx l) open
  else fold_left (fun s i => set_add i s) (l_idx l) open.
Definition end_leaf (l : limit) : Z := if l_typ l then l_leaf l else s2_CellID_Prev (l_leaf l).
Definition step_ovs (guard : bool) (open : list Z) (ls : Z) (ovs : list overlap) (l : limit) : list overlap :=
  if 1 <? zlen open then
    if negb guard || (ls <=? end_leaf l) then ovs ++ [(open, ls, end_leaf l)] else ovs
  else ovs.
Definition step_ls (open : list Z) (ls : Z) (l : limit) : Z :=
  if 1 <? zlen (step_open open l) then (if l_typ l then s2_CellID_Next (l_leaf l) else l_leaf l) else ls.
Lemma io_step_eq g open ls ovs l :
  io_step g (open, ls, ovs) l = (step_open open l, step_ls open ls l, step_ovs g open ls ovs l).
Proof. reflexivity. Qed.

(** * Sorted index sets *)
Lemma SS_filter (f : Z -> bool) l : StronglySorted Z.lt l -> StronglySorted Z.lt (filter f l).
Proof.
  induction l as [|a t IH]; intros S; cbn [filter]; [constructor|].
  inversion S as [|? ? St Fa]; subst. destruct (f a).
  - constructor; [apply IH; exact St|]. rewrite Forall_forall in *. intros x Hx.
    apply filter_In in Hx. apply Fa. tauto.
  - apply IH; exact St.
Qed.

Lemma seq_sorted : forall n s, StronglySorted Z.lt (map Z.of_nat (seq s n)).
Proof.
  induction n as [|n IH]; intros s; cbn [seq map]; [constructor|].
  constructor; [apply IH|]. apply Forall_forall. intros x Hx.
  apply in_map_iff in Hx. destruct Hx as (k & <- & Hk). apply in_seq in Hk. lia.
Qed.

Lemma set_add_spec i : forall s, StronglySorted Z.lt s ->
  StronglySorted Z.lt (set_add i s) /\ forall j, In j (set_add i s) <-> j = i \/ In j s.
Proof.
  induction s as [|h t IH]; intros S; cbn [set_add].
  - split; [repeat constructor|]. intros j; cbn [In]. intuition.
  - inversion S as [|? ? St Fh]; subst.
    destruct (i <? h) eqn:E1.
    + split.
      * constructor; [exact S|]. constructor; [lia|]. eapply Forall_impl; [|exact Fh]. cbn; intros; lia.
      * intros j; cbn [In]. intuition.
    + destruct (i =? h) eqn:E2.
      * split; [exact S|]. intros j; cbn [In]. assert (i = h) by lia. intuition.
      * destruct (IH St) as [S' M']. split.
        -- constructor; [exact S'|]. rewrite Forall_forall in *. intros x Hx. apply M' in Hx.
           destruct Hx as [->|Hx]; [lia|auto].
        -- intros j; cbn [In]. rewrite M'. intuition.
Qed.

Lemma fold_add_spec : forall idxs s, StronglySorted Z.lt s ->
  StronglySorted Z.lt (fold_left (fun s i => set_add i s) idxs s) /\
  forall j, In j (fold_left (fun s i => set_add i s) idxs s) <-> In j s \/ In j idxs.
Proof.
  induction idxs as [|i t IH]; intros s S; cbn [fold_left].
  - split; [exact S|]. intros j; cbn [In]. intuition.
  - destruct (set_add_spec i s S) as [S1 M1]. destruct (IH _ S1) as [S2 M2].
    split; [exact S2|]. intros j. rewrite M2, M1. cbn [In]. intuition.
Qed.

Lemma set_del_spec i s : StronglySorted Z.lt s ->
  StronglySorted Z.lt (set_del i s) /\ forall j, In j (set_del i s) <-> In j s /\ j <> i.
Proof.
  intros S. unfold set_del. split; [apply SS_filter; exact S|].
  intros j. rewrite filter_In. split; intros [H1 H2]; (split; [exact H1|lia]).
Qed.

Lemma fold_del_spec : forall idxs s, StronglySorted Z.lt s ->
  StronglySorted Z.lt (fold_left (fun s i => set_del i s) idxs s) /\
  forall j, In j (fold_left (fun s i => set_del i s) idxs s) <-> In j s /\ ~ In j idxs.
Proof.
  induction idxs as [|i t IH]; intros s S; cbn [fold_left].
  - split; [exact S|]. intros j; cbn [In]. intuition.
  - destruct (set_del_spec i s S) as [S1 M1]. destruct (IH _ S1) as [S2 M2].
    split; [exact S2|]. intros j. rewrite M2, M1. cbn [In]. intuition.
Qed.

Section Sweep.
Variable n : nat.
Variable act : Z -> Z -> bool.
Variable L : list limit.
Definition A (p : Z) : list Z := filter (fun i => act i p) (map Z.of_nat (seq 0 n)).
Definition ispos (p : Z) : Prop := exists l, In l L /\ pos l = p.

Hypothesis H_leaf : forall l, In l L -> vleaf (l_leaf l).
Hypothesis H_start : forall l, In l L -> l_typ l = false -> forall i,
  (In i (l_idx l) -> 0 <= i < Z.of_nat n) /\
  (0 <= i < Z.of_nat n -> (act i (pos l) = true <-> act i (pos l - 1) = true \/ In i (l_idx l))).
Hypothesis H_end : forall l, In l L -> l_typ l = true -> forall i, 0 <= i < Z.of_nat n ->
  (act i (pos l) = true <-> act i (pos l - 1) = true /\ ~ In i (l_idx l)).
Hypothesis H_const : forall p, ~ ispos p -> forall i, 0 <= i < Z.of_nat n -> act i p = act i (p - 1).
Hypothesis H_init : forall p i, p <= 0 -> act i p = false.
Hypothesis H_fin : forall p i, 6 * 2 ^ 61 <= p -> act i p = false.

Lemma In_A i p : In i (A p) <-> 0 <= i < Z.of_nat n /\ act i p = true.
Proof.
  unfold A. rewrite filter_In, in_map_iff. split.
  - intros [(k & <- & Hk) Ha]. apply in_seq in Hk. split; [lia|exact Ha].
  - intros [Hi Ha]. split; [|exact Ha]. exists (Z.to_nat i). split; [lia|]. apply in_seq. lia.
Qed.

Lemma A_sorted p : StronglySorted Z.lt (A p).
Proof. unfold A. apply SS_filter, seq_sorted. Qed.

Lemma A_ext p q : (forall i, 0 <= i < Z.of_nat n -> act i q = act i p) -> A q = A p.
Proof.
  intros H. unfold A. apply filter_ext_in. intros i Hi.
  apply in_map_iff in Hi. destruct Hi as (k & <- & Hk). apply in_seq in Hk. apply H. lia.
Qed.

Lemma A_nil p : (forall i, 0 <= i < Z.of_nat n -> act i p = false) -> A p = [].
Proof.
  intros H. destruct (A p) as [|i t] eqn:E; [reflexivity|].
  assert (Hi : In i (A p)) by (rewrite E; left; reflexivity).
  apply In_A in Hi. destruct Hi as [Hr Hi]. rewrite (H i Hr) in Hi. discriminate.
Qed.

Lemma act_const : forall (k : nat) p i, 0 <= i < Z.of_nat n ->
  (forall r, p < r <= p + Z.of_nat k -> ~ ispos r) -> act i (p + Z.of_nat k) = act i p.
Proof.
  induction k as [|k IH]; intros p i Hi Hno.
  - f_equal. lia.
  - rewrite (H_const (p + Z.of_nat (S k))) by (try apply Hno; lia || exact Hi).
    replace (p + Z.of_nat (S k) - 1) with (p + Z.of_nat k) by lia.
    apply IH; [exact Hi|]. intros r Hr. apply Hno. lia.
Qed.

Lemma act_const' p q i : p <= q -> 0 <= i < Z.of_nat n ->
  (forall r, p < r <= q -> ~ ispos r) -> act i q = act i p.
Proof.
  intros Hpq Hi Hno. replace q with (p + Z.of_nat (Z.to_nat (q - p))) by lia.
  apply act_const; [exact Hi|]. intros r Hr. apply Hno. lia.
Qed.

Definition ov_sound (o : overlap) : Prop :=
  vleaf (ov_s o) /\ vleaf (ov_e o) /\ ov_s o <= ov_e o /\ (2 <= length (ov_idx o))%nat /\
  forall x, leaf x -> ov_s o <= x <= ov_e o -> A x = ov_idx o.
Definition ov_has (ovs : list overlap) (x : Z) : Prop := exists o, In o ovs /\ ov_s o <= x <= ov_e o.

Definition Inv (p : Z) (open : list Z) (ls : Z) (ovs : list overlap) : Prop :=
  open = A p /\
  (1 < zlen open -> vleaf ls /\ p <= ls <= p + 1) /\
  (forall o, In o ovs -> ov_sound o) /\
  (forall x, leaf x -> x < p -> (2 <= length (A x))%nat -> ov_has ovs x).

Definition Final (ovs : list overlap) : Prop :=
  (forall o, In o ovs -> ov_sound o) /\
  (forall x, leaf x -> (2 <= length (A x))%nat -> ov_has ovs x).

Lemma A_pos_range p : A p <> [] -> 0 < p < 6 * 2 ^ 61.
Proof.
  intros H. split.
  - destruct (Z_lt_le_dec 0 p); [assumption|]. exfalso. apply H. apply A_nil. intros i _. apply H_init. lia.
  - destruct (Z_lt_le_dec p (6 * 2 ^ 61)); [assumption|]. exfalso. apply H. apply A_nil. intros i _. apply H_fin. lia.
Qed.

Lemma zlen_gt1_ne (s : list Z) : 1 < zlen s -> s <> [].
Proof. intros H ->. cbn in H. lia. Qed.

Lemma step_inv p open ls ovs l : In l L -> p < pos l -> (forall r, p < r < pos l -> ~ ispos r) ->
  Inv p open ls ovs -> Inv (pos l) (step_open open l) (step_ls open ls l) (step_ovs true open ls ovs l).
Proof.
  intros Hl Hp Hno (Ho & Hls & Hsound & Hcomp).
  destruct (H_leaf l Hl) as [Ll Bl].
  assert (Hc : forall q, p <= q < pos l -> A q = A p).
  { intros q Hq. apply A_ext. intros i Hi. apply act_const'; [lia|exact Hi|]. intros r Hr. apply Hno. lia. }
  assert (Hopen : step_open open l = A (pos l)).
  { apply sorted_same_members.
    - unfold step_open. destruct (l_typ l); [apply fold_del_spec|apply fold_add_spec]; rewrite Ho; apply A_sorted.
    - apply A_sorted.
    - intros j. unfold step_open. destruct (l_typ l) eqn:T.
      + rewrite (proj2 (fold_del_spec (l_idx l) open ltac:(rewrite Ho; apply A_sorted))).
        rewrite Ho, <- (Hc (pos l - 1)) by lia. rewrite !In_A.
        split.
        * intros [[Hj Ha] Hni]. split; [exact Hj|]. apply (H_end l Hl T j Hj). split; assumption.
        * intros [Hj Ha]. apply (H_end l Hl T j Hj) in Ha. tauto.
      + rewrite (proj2 (fold_add_spec (l_idx l) open ltac:(rewrite Ho; apply A_sorted))).
        rewrite Ho, <- (Hc (pos l - 1)) by lia. rewrite !In_A.
        destruct (H_start l Hl T j) as [Hr Hs]. split.
        * intros [[Hj Ha]|Hi].
          -- split; [exact Hj|]. apply (Hs Hj). left; exact Ha.
          -- split; [exact (Hr Hi)|]. apply (Hs (Hr Hi)). right; exact Hi.
        * intros [Hj Ha]. apply (Hs Hj) in Ha. tauto. }
  assert (Hend : 1 < zlen open -> vleaf (end_leaf l) /\ pos l - 2 <= end_leaf l < pos l).
  { intros H1. apply zlen_gt1_ne in H1. rewrite Ho in H1. apply A_pos_range in H1.
    unfold end_leaf, pos in *. destruct (l_typ l).
    - split; [split; assumption|lia].
    - assert (3 <= l_leaf l) by (apply (leaf_ge3 _ p); [exact Ll|lia|lia]).
      rewrite prev_leaf by (first [lia | split; [exact Ll | lia]]).
      split; [|lia]. split; [exact (proj1 (leaf_pm2 _ Ll))|lia]. }
  split; [exact Hopen|]. split; [|split].
  - (* lastStart *)
    intros H1. unfold step_ls. rewrite Hopen in *.
    assert (E : (1 <? zlen (A (pos l))) = true) by lia. rewrite E.
    apply zlen_gt1_ne, A_pos_range in H1. unfold pos in *. destruct (l_typ l).
    + rewrite next_leaf by (split; assumption).
      split; [|lia]. split; [exact (proj2 (leaf_pm2 _ Ll))|].
      split; [lia|]. apply leaf_lt_top; [exact Ll|lia].
    + split; [split; assumption|lia].
  - (* soundness *)
    unfold step_ovs. destruct (1 <? zlen open) eqn:E1; [|exact Hsound].
    destruct (negb true || (ls <=? end_leaf l)) eqn:G; [|exact Hsound].
    intros o Ho'. apply in_app_or in Ho'. destruct Ho' as [Ho'|[<-|[]]]; [exact (Hsound o Ho')|].
    assert (H1 : 1 < zlen open) by lia.
    destruct (Hls H1) as [Vls Bls]. destruct (Hend H1) as [Ve Be].
    unfold ov_sound, ov_s, ov_e, ov_idx. cbn [fst snd].
    split; [exact Vls|]. split; [exact Ve|]. split; [cbn [negb orb] in G; lia|].
    split; [unfold zlen in H1; lia|].
    intros x Lx Hx. rewrite Ho. apply Hc. lia.
  - (* completeness *)
    intros x Lx Hx H2.
    assert (Hmono : forall o, ov_has ovs o -> ov_has (step_ovs true open ls ovs l) o).
    { intros y (o & Hin & Hy). exists o. split; [|exact Hy]. unfold step_ovs.
      destruct (1 <? zlen open); [|exact Hin].
      destruct (negb true || (ls <=? end_leaf l)); [|exact Hin]. apply in_or_app. left; exact Hin. }
    destruct (Z_lt_le_dec x p) as [Hxp|Hxp]; [apply Hmono, Hcomp; assumption|].
    rewrite (Hc x) in H2 by lia. rewrite <- Ho in H2.
    assert (H1 : 1 < zlen open) by (unfold zlen; lia).
    destruct (Hls H1) as [[Lls _] Bls]. destruct (Hend H1) as [[Le _] Be].
    assert (Hxr : ls <= x <= end_leaf l) by (apply (leaf_between x ls (end_leaf l) p (pos l)); assumption || lia).
    unfold step_ovs. assert (E1 : (1 <? zlen open) = true) by lia. rewrite E1.
    assert (G : (negb true || (ls <=? end_leaf l)) = true) by (cbn [negb orb]; lia). rewrite G.
    exists (open, ls, end_leaf l). split; [apply in_or_app; right; left; reflexivity|].
    unfold ov_s, ov_e. cbn [fst snd]. exact Hxr.
Qed.

Lemma sweep_inv : forall rest open ls ovs p,
  (forall l, In l rest -> In l L) -> StronglySorted (fun a b => pos a < pos b) rest ->
  (forall l, In l rest -> p < pos l) -> (forall l, In l L -> p < pos l -> In l rest) ->
  Inv p open ls ovs ->
  Final (snd (fold_left (io_step true) rest (open, ls, ovs))).
Proof.
  induction rest as [|l rest IH]; intros open ls ovs p Hsub SS Hgt Hall I.
  - cbn [fold_left snd]. destruct I as (Ho & Hls & Hsound & Hcomp). split; [exact Hsound|].
    intros x Lx H2. destruct (Z_lt_le_dec x p) as [Hxp|Hxp]; [apply Hcomp; assumption|].
    exfalso. rewrite A_nil in H2; [cbn in H2; lia|]. intros i Hi.
    rewrite <- (act_const' x (Z.max x (6 * 2 ^ 61)) i ltac:(lia) Hi).
    + apply H_fin. lia.
    + intros r Hr (l & Hl & Hpl). apply (Hall l Hl). lia.
  - cbn [fold_left]. rewrite io_step_eq.
    inversion SS as [|? ? SS' Fl]; subst. rewrite Forall_forall in Fl.
    apply (IH _ _ _ (pos l)).
    + intros l' Hl'. apply Hsub. right; exact Hl'.
    + exact SS'.
    + exact Fl.
    + intros l' Hl' Hp'. destruct (Hall l' Hl' ltac:(pose proof (Hgt l (or_introl eq_refl)); lia)) as [<-|Hin]; [lia|exact Hin].
    + apply (step_inv p); [apply Hsub; left; reflexivity|apply Hgt; left; reflexivity| |exact I].
      intros r Hr (l' & Hl' & Hpl). destruct (Hall l' Hl' ltac:(lia)) as [<-|Hin]; [lia|].
      pose proof (Fl l' Hin). lia.
Qed.

Theorem sweep_spec : StronglySorted (fun a b => pos a < pos b) L -> Final (intervalOverlaps L).
Proof.
  intros SS. unfold intervalOverlaps. apply (sweep_inv L [] 0 [] 0).
  - auto.
  - exact SS.
  - intros l Hl. destruct (H_leaf l Hl) as [_ B]. unfold pos. destruct (l_typ l); lia.
  - auto.
  - split; [symmetry; apply A_nil; intros i _; apply H_init; lia|].
    split; [cbn; lia|]. split; [intros o []|].
    intros x Lx Hx H2. exfalso. rewrite A_nil in H2; [cbn in H2; lia|]. intros i _. apply H_init. lia.
Qed.
End Sweep.
