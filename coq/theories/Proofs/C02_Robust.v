(** C02. RobustSign = the exact stage on unit-length points. The triage stage is sound
    unconditionally (Proofs/C02_TriageDet.v) and so is the stableSign stage
    (Proofs/C02_StableDet.v): everything here is CLOSED. *)
From Coq Require Import ZArith Reals Floats Lra Lia Bool List Psatz.
From Geo Require Import Base.GoPrim Base.F64 Base.Exact Gen.R3 Gen.S2Pred Model.Pred
  Proofs.C02_Exact Proofs.C02_Float Proofs.C02_TriageDet Proofs.C02_StableDet.
Local Open Scope R_scope.

(** * RobustSign = the exact stage on unit-length points *)
Lemma peq_sym' p q : peq p q -> peq q p.
Proof. unfold peq. intuition. Qed.
Lemma eqb_sym p q : finite p -> finite q -> s2_Point_eqb p q = s2_Point_eqb q p.
Proof.
  intros Fp Fq. destruct (s2_Point_eqb p q) eqn:E1; destruct (s2_Point_eqb q p) eqn:E2; auto.
  - apply eqb_iff in E1; auto. apply peq_sym' in E1. apply (eqb_iff q p) in E1; auto. congruence.
  - apply eqb_iff in E2; auto. apply peq_sym' in E2. apply (eqb_iff p q) in E2; auto. congruence.
Qed.

Lemma identical2_det a b c : finite a -> finite b -> finite c -> identical2 a b c = true -> detR a b c = 0.
Proof.
  intros Fa Fb Fc H. unfold identical2 in H. apply orb_true_iff in H. destruct H as [H|H].
  - apply orb_true_iff in H. destruct H as [H|H].
    + apply eqb_iff in H; auto. now apply detR_peq12.
    + apply eqb_iff in H; auto. rewrite <- detR_rot. now apply detR_peq12.
  - apply eqb_iff in H; auto. rewrite <- detR_rot, <- detR_rot. now apply detR_peq12.
Qed.

Lemma identical2_false_distinct a b c : finite a -> finite b -> finite c ->
  identical2 a b c = false -> distinct3 a b c.
Proof.
  intros Fa Fb Fc H. unfold identical2 in H. apply orb_false_iff in H. destruct H as [H Hca].
  apply orb_false_iff in H. destruct H as [Hab Hbc]. repeat split; intro E.
  - apply (eqb_iff a b) in E; auto. congruence.
  - apply (eqb_iff b c) in E; auto. congruence.
  - apply peq_sym' in E. apply (eqb_iff c a) in E; auto. congruence.
Qed.

Section Robust.
  Variables a b c : s2_Point.
  Hypothesis Ua : unit_pt a.
  Hypothesis Ub : unit_pt b.
  Hypothesis Uc : unit_pt c.

  Theorem robust_sign_spec :
    robust_sign a b c = if identical2 a b c then 0%Z else exact_sign a b c.
  Proof.
    destruct Ua as [Fa _], Ub as [Fb _], Uc as [Fc _].
    unfold robust_sign. cbv zeta.
    destruct (Z.eqb_spec (s2_triageSign a b c) 0) as [E|E].
    - unfold expensive_sign. fold (identical2 a b c).
      destruct (identical2 a b c) eqn:I; [reflexivity|]. cbv zeta.
      destruct (Z.eqb_spec (s2_stableSign a b c) 0) as [E2|E2]; simpl; [reflexivity|].
      pose proof (stable_sound_closed a b c Ua Ub Uc E2) as Hs.
      rewrite Hs. symmetry. apply exact_sign_det. intros D0. rewrite D0, sgnR_0 in Hs. contradiction.
    - pose proof (triage_sound_closed a b c Ua Ub Uc E) as Hs.
      assert (D0 : detR a b c <> 0). { intros D0. rewrite D0, sgnR_0 in Hs. contradiction. }
      destruct (identical2 a b c) eqn:I.
      + exfalso. apply D0. now apply identical2_det.
      + rewrite Hs. symmetry. now apply exact_sign_det.
  Qed.

  Theorem robust_sign_det : detR a b c <> 0 -> robust_sign a b c = sgnR (detR a b c).
  Proof.
    destruct Ua as [Fa _], Ub as [Fb _], Uc as [Fc _].
    intros D0. rewrite robust_sign_spec. destruct (identical2 a b c) eqn:I.
    - exfalso. apply D0. now apply identical2_det.
    - now apply exact_sign_det.
  Qed.
End Robust.

(** Indeterminate iff two arguments are identical: CLOSED, no hypothesis *)
Theorem robust_sign_zero_iff : forall a b c, unit_pt a -> unit_pt b -> unit_pt c ->
  (robust_sign a b c = 0%Z <-> identical2 a b c = true).
Proof.
  intros a b c Ua Ub Uc. unfold robust_sign. cbv zeta.
  destruct (Z.eqb_spec (s2_triageSign a b c) 0) as [E|E].
  - apply expensive_sign_zero_iff.
  - split; [intros H; contradiction|]. intros I. exfalso.
    pose proof (triage_sound_closed a b c Ua Ub Uc E) as Hs.
    rewrite (identical2_det a b c) in Hs; try apply Ua; try apply Ub; try apply Uc; auto.
    rewrite sgnR_0 in Hs. contradiction.
Qed.

Lemma identical2_rot a b c : identical2 b c a = identical2 a b c.
Proof. unfold identical2. destruct (s2_Point_eqb a b), (s2_Point_eqb b c), (s2_Point_eqb c a); reflexivity. Qed.
Lemma identical2_rev a b c : finite a -> finite b -> finite c -> identical2 c b a = identical2 a b c.
Proof.
  intros Fa Fb Fc. unfold identical2.
  rewrite (eqb_sym c b), (eqb_sym b a), (eqb_sym a c) by assumption.
  destruct (s2_Point_eqb a b), (s2_Point_eqb b c), (s2_Point_eqb c a); reflexivity.
Qed.

Theorem robust_sign_rotate : forall a b c,
  unit_pt a -> unit_pt b -> unit_pt c -> robust_sign b c a = robust_sign a b c.
Proof.
  intros a b c Ua Ub Uc. rewrite !robust_sign_spec by assumption.
  rewrite identical2_rot. destruct (identical2 a b c) eqn:I; [reflexivity|].
  destruct Ua as [Fa _], Ub as [Fb _], Uc as [Fc _].
  apply (exact_sign_rotate a b c true); auto. now apply identical2_false_distinct.
Qed.

Theorem robust_sign_swap : forall a b c,
  unit_pt a -> unit_pt b -> unit_pt c -> robust_sign c b a = (- robust_sign a b c)%Z.
Proof.
  intros a b c Ua Ub Uc. rewrite !robust_sign_spec by assumption.
  destruct Ua as [Fa _], Ub as [Fb _], Uc as [Fc _].
  rewrite identical2_rev by assumption. destruct (identical2 a b c) eqn:I; [reflexivity|].
  apply (exact_sign_swap13 a b c true); auto. now apply identical2_false_distinct.
Qed.

