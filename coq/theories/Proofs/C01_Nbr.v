(** C01 — neighbours, same-face part.  A cell of level l on face f is identified with its grid
    position (a,b) in [0,2^l)^2 ([at_pos]); EdgeNeighbors entries that stay on the face are the cells
    at (a, b-1), (a+1, b), (a, b+1), (a-1, b): valid, of the cell's level, pairwise distinct, not
    intersecting the cell, one step away.  EdgeNeighbors always goes through cellIDFromFaceIJWrap
    (a float round trip even inside the face), so its theorem carries H_WRAP_INSIDE. *)
From Coq Require Import ZArith List Bool Lia.
From Geo Require Import Base.GoPrim Gen.CellIDFull Model.HilbertDecode Model.CellIDNbr
  Proofs.C01_Bits Proofs.C01_Algebra Proofs.C01_IJ Proofs.C12_Hilbert Proofs.C12_Ids Proofs.C12_Children
  Proofs.C01_Hilbert Proofs.C01_Inverse.
Import ListNotations.
Local Open Scope Z_scope.

(** [at_pos c f l a b]: c is the valid cell of level l on face f whose square is
    [a*2^(30-l), (a+1)*2^(30-l)) x [b*2^(30-l), (b+1)*2^(30-l)) in leaf coordinates *)
Definition at_pos (c f l a b : Z) : Prop :=
  exists k i j o, rep c f l k /\ s2_CellID_faceIJOrientation c = (f, i, j, o) /\
    i / 2 ^ (30 - l) = a /\ j / 2 ^ (30 - l) = b /\ 0 <= a < 2 ^ l /\ 0 <= b < 2 ^ l.

Lemma at_pos_of_rep : forall c f l k, rep c f l k -> exists a b, at_pos c f l a b.
Proof.
  intros c f l k H. pose proof H as (Hf & Hl & Hk & _).
  destruct (cell_state (Z.to_nat l) (index f l k)) as [[ci cj] co] eqn:ES.
  destruct (faceIJ_cell _ _ _ _ H ci cj co ES) as (i & j & D & Ei & Ej & Ri & Rj).
  exists ci, cj, k, i, j, co. split; [exact H|]. split; [exact D|]. split; [exact Ei|]. split; [exact Ej|].
  pose proof (hd_state_ok (Z.to_nat l) (index f l k)) as Hok. unfold cell_state in ES. rewrite ES in Hok.
  unfold st_ok in Hok. rewrite Z2Nat.id in Hok by lia. destruct Hok as (A & B & _). split; assumption.
Qed.

(** the position determines the cell *)
Lemma at_pos_inj : forall c c' f l a b, at_pos c f l a b -> at_pos c' f l a b -> c = c'.
Proof.
  intros c c' f l a b (k & i & j & o & H & D & Ei & Ej & _) (k' & i' & j' & o' & H' & D' & Ei' & Ej' & _).
  pose proof H as (Hf & Hl & Hk & _). pose proof H' as (_ & _ & Hk' & _).
  destruct (cell_state (Z.to_nat l) (index f l k)) as [[ci cj] co] eqn:ES.
  destruct (cell_state (Z.to_nat l) (index f l k')) as [[ci' cj'] co'] eqn:ES'.
  destruct (faceIJ_cell _ _ _ _ H ci cj co ES) as (i2 & j2 & D2 & Ei2 & Ej2 & _).
  destruct (faceIJ_cell _ _ _ _ H' ci' cj' co' ES') as (i3 & j3 & D3 & Ei3 & Ej3 & _).
  rewrite D in D2. injection D2 as <- <- _. rewrite D' in D3. injection D3 as <- <- _.
  assert (EK : index f l k = index f l k').
  { unfold cell_state in ES, ES'. apply (state_inj (Z.to_nat l)).
    - pose proof (index_bounds f l k Hf ltac:(lia) Hk). lia.
    - pose proof (index_bounds f l k' Hf ltac:(lia) Hk'). lia.
    - rewrite Z2Nat.id by lia. rewrite !index_div by (try assumption; lia). reflexivity.
    - rewrite ES, ES'. cbn [fst snd]. congruence.
    - rewrite ES, ES'. cbn [fst snd]. congruence. }
  assert (k = k') by (unfold index in EK; lia). subst k'.
  destruct H as (_ & _ & _ & E1). destruct H' as (_ & _ & _ & E2). rewrite E1, E2. reflexivity.
Qed.

(** the level-l ancestor of the leaf at (i,j) is the cell at position (i / 2^(30-l), j / 2^(30-l)) *)
Lemma parent_of_leaf_at : forall f i j l, 0 <= f < 6 -> 0 <= i < 2 ^ 30 -> 0 <= j < 2 ^ 30 -> 0 <= l <= 30 ->
  at_pos (s2_CellID_Parent (s2_cellIDFromFaceIJ f i j) l) f l (i / 2 ^ (30 - l)) (j / 2 ^ (30 - l)).
Proof.
  intros f i j l Hf Hi Hj Hl.
  destruct (ij_roundtrip f i j Hf Hi Hj) as (o & k & _ & H & D).
  destruct (ancestor_prefix _ _ _ _ l H ltac:(lia)) as (i1 & j1 & o1 & i' & j' & o' & D1 & D' & Ei & Ej).
  rewrite D in D1. injection D1 as <- <- _.
  pose proof (Parent_rep _ _ _ _ l H ltac:(lia)) as HP.
  exists (k / 4 ^ (30 - l)), i', j', o'. split; [exact HP|]. split; [exact D'|]. split; [exact Ei|]. split; [exact Ej|].
  pose proof (pow2_pos (30 - l) ltac:(lia)) as HP2.
  assert (E30 : 2 ^ 30 = 2 ^ l * 2 ^ (30 - l)) by (rewrite <- Z.pow_add_r by lia; f_equal; lia).
  split; (split; [apply Z.div_pos; lia|apply Z.div_lt_upper_bound; [lia|rewrite Z.mul_comm, <- E30; lia]]).
Qed.

(** two cells of one level at different positions do not intersect *)
Lemma at_pos_disjoint : forall c c' f l a b a' b', at_pos c f l a b -> at_pos c' f l a' b' ->
  (a, b) <> (a', b') -> c <> c' /\ s2_CellID_Intersects c c' = false.
Proof.
  intros c c' f l a b a' b' P P' Hne.
  assert (Hcc : c <> c').
  { intros ->. destruct P as (k & i & j & o & _ & D & Ei & Ej & _). destruct P' as (k' & i' & j' & o' & _ & D' & Ei' & Ej' & _).
    rewrite D in D'. injection D' as <- <- _. apply Hne. congruence. }
  split; [exact Hcc|].
  destruct P as (k & i & j & o & H & _). destruct P' as (k' & i' & j' & o' & H' & _).
  destruct (s2_CellID_Intersects c c') eqn:EI; [exfalso|reflexivity].
  apply (laminar _ _ _ _ _ _ _ _ H H') in EI. destruct EI as [EC | EC].
  - apply (Contains_iff_ancestor _ _ _ _ _ _ _ _ H H') in EC. destruct EC as [_ EC].
    rewrite (Parent_self _ _ _ _ H') in EC. congruence.
  - apply (Contains_iff_ancestor _ _ _ _ _ _ _ _ H' H) in EC. destruct EC as [_ EC].
    rewrite (Parent_self _ _ _ _ H) in EC. congruence.
Qed.

Lemma NoDup4 : forall (a b c d : Z), a <> b -> a <> c -> a <> d -> b <> c -> b <> d -> c <> d -> NoDup [a; b; c; d].
Proof.
  intros a b c d Hab Hac Had Hbc Hbd Hcd.
  constructor; [cbn [In]; intros [E|[E|[E|[]]]]; congruence|].
  constructor; [cbn [In]; intros [E|[E|[]]]; congruence|].
  constructor; [cbn [In]; intros [E|[]]; congruence|].
  constructor; [cbn [In]; intros []|constructor].
Qed.

(** ** EdgeNeighbors *)
(** H-WRAP, inside part (float64 arithmetic only; every operation on the path is exact for these
    inputs): for leaf coordinates inside the face the wrap function is cellIDFromFaceIJ *)
Definition H_WRAP_INSIDE : Prop := forall f i j, 0 <= f < 6 -> 0 <= i < 2 ^ 30 -> 0 <= j < 2 ^ 30 ->
  s2_cellIDFromFaceIJWrap f i j = s2_cellIDFromFaceIJ f i j.

Lemma sizeIJ_eq : forall l, 0 <= l <= 30 -> s2_sizeIJ l = 2 ^ (30 - l).
Proof.
  intros l Hl. unfold s2_sizeIJ.
  rewrite (wrap_i64_small (30 - l)) by (change (2 ^ 63) with 9223372036854775808; lia).
  rewrite wrap_u64_small by (change (2 ^ 64) with 18446744073709551616; lia).
  rewrite go_shl_mul by lia. rewrite Z.mul_1_l. apply wrap_i64_small.
  pose proof (pow2_pos (30 - l) ltac:(lia)). pose proof (pow2_le (30 - l) 30 ltac:(lia)).
  change (2 ^ 30) with 1073741824 in *. change (2 ^ 63) with 9223372036854775808. lia.
Qed.

(** moving the returned leaf (i,j) of the cell at (a,b) by d whole cells stays inside the face iff the
    target position does, and lands in the cell at the target position *)
Lemma shifted_pos : forall i l a d, 0 <= l <= 30 -> i / 2 ^ (30 - l) = a -> 0 <= i < 2 ^ 30 ->
  0 <= a + d < 2 ^ l ->
  0 <= i + d * 2 ^ (30 - l) < 2 ^ 30 /\ (i + d * 2 ^ (30 - l)) / 2 ^ (30 - l) = a + d.
Proof.
  intros i l a d Hl Ea Hi Had. pose proof (pow2_pos (30 - l) ltac:(lia)) as HP.
  assert (E30 : 2 ^ 30 = 2 ^ l * 2 ^ (30 - l)) by (rewrite <- Z.pow_add_r by lia; f_equal; lia).
  rewrite Z.div_add by lia. rewrite Ea. split; [|reflexivity].
  pose proof (Z.div_mod i (2 ^ (30 - l)) ltac:(lia)) as Edm. pose proof (Z.mod_pos_bound i (2 ^ (30 - l)) HP) as Hm.
  rewrite Ea in Edm. rewrite E30. nia.
Qed.

Theorem EdgeNeighbors_same_face : H_WRAP_INSIDE -> forall c f l a b, at_pos c f l a b ->
  exists n0 n1 n2 n3, s2_CellID_EdgeNeighbors c = [n0; n1; n2; n3] /\
    (0 <= b - 1 -> at_pos n0 f l a (b - 1)) /\ (a + 1 < 2 ^ l -> at_pos n1 f l (a + 1) b) /\
    (b + 1 < 2 ^ l -> at_pos n2 f l a (b + 1)) /\ (0 <= a - 1 -> at_pos n3 f l (a - 1) b).
Proof.
  intros HW c f l a b (k & i & j & o & H & D & Ei & Ej & Ha & Hb).
  pose proof H as (Hf & Hl & Hk & _).
  destruct (cell_state (Z.to_nat l) (index f l k)) as [[ci cj] co] eqn:ES.
  destruct (faceIJ_cell _ _ _ _ H ci cj co ES) as (i2 & j2 & D2 & _ & _ & Ri & Rj).
  rewrite D in D2. injection D2 as <- <- _.
  unfold s2_CellID_EdgeNeighbors. cbv zeta. rewrite D. rewrite (Level_rep _ _ _ _ H), sizeIJ_eq by lia.
  pose proof (pow2_pos (30 - l) ltac:(lia)) as HP. pose proof (pow2_le (30 - l) 30 ltac:(lia)) as HPle.
  change (2 ^ 30) with 1073741824 in *.
  rewrite !wrap_i64_small by (change (2 ^ 63) with 9223372036854775808; lia).
  eexists _, _, _, _. split; [reflexivity|].
  repeat split; intros Hside.
  - destruct (shifted_pos j l b (-1) Hl Ej ltac:(change (2 ^ 30) with 1073741824; lia) ltac:(lia)) as (R & E).
    replace (j + -1 * 2 ^ (30 - l)) with (j - 2 ^ (30 - l)) in R, E by ring.
    rewrite HW by (change (2 ^ 30) with 1073741824 in *; lia).
    pose proof (parent_of_leaf_at f i (j - 2 ^ (30 - l)) l Hf ltac:(change (2 ^ 30) with 1073741824; lia) R Hl) as P.
    rewrite Ei, E in P. replace (b + -1) with (b - 1) in P by ring. exact P.
  - destruct (shifted_pos i l a 1 Hl Ei ltac:(change (2 ^ 30) with 1073741824; lia) ltac:(lia)) as (R & E).
    replace (i + 1 * 2 ^ (30 - l)) with (i + 2 ^ (30 - l)) in R, E by ring.
    rewrite HW by (change (2 ^ 30) with 1073741824 in *; lia).
    pose proof (parent_of_leaf_at f (i + 2 ^ (30 - l)) j l Hf R ltac:(change (2 ^ 30) with 1073741824; lia) Hl) as P.
    rewrite Ej, E in P. exact P.
  - destruct (shifted_pos j l b 1 Hl Ej ltac:(change (2 ^ 30) with 1073741824; lia) ltac:(lia)) as (R & E).
    replace (j + 1 * 2 ^ (30 - l)) with (j + 2 ^ (30 - l)) in R, E by ring.
    rewrite HW by (change (2 ^ 30) with 1073741824 in *; lia).
    pose proof (parent_of_leaf_at f i (j + 2 ^ (30 - l)) l Hf ltac:(change (2 ^ 30) with 1073741824; lia) R Hl) as P.
    rewrite Ei, E in P. exact P.
  - destruct (shifted_pos i l a (-1) Hl Ei ltac:(change (2 ^ 30) with 1073741824; lia) ltac:(lia)) as (R & E).
    replace (i + -1 * 2 ^ (30 - l)) with (i - 2 ^ (30 - l)) in R, E by ring.
    rewrite HW by (change (2 ^ 30) with 1073741824 in *; lia).
    pose proof (parent_of_leaf_at f (i - 2 ^ (30 - l)) j l Hf R ltac:(change (2 ^ 30) with 1073741824; lia) Hl) as P.
    rewrite Ej, E in P. replace (a + -1) with (a - 1) in P by ring. exact P.
Qed.

(** interior cells: all four edge neighbours are on the face: valid cells of the cell's level, pairwise
    distinct, none intersects the cell, each one step away *)
Theorem EdgeNeighbors_interior : H_WRAP_INSIDE -> forall c f l a b, at_pos c f l a b ->
  1 <= a -> a + 1 < 2 ^ l -> 1 <= b -> b + 1 < 2 ^ l ->
  exists n0 n1 n2 n3, s2_CellID_EdgeNeighbors c = [n0; n1; n2; n3] /\
    at_pos n0 f l a (b - 1) /\ at_pos n1 f l (a + 1) b /\ at_pos n2 f l a (b + 1) /\ at_pos n3 f l (a - 1) b /\
    NoDup [n0; n1; n2; n3] /\
    (forall n, In n [n0; n1; n2; n3] -> s2_CellID_Level n = l /\ s2_CellID_IsValid n = true /\
       n <> c /\ s2_CellID_Intersects c n = false).
Proof.
  intros HW c f l a b P Ha1 Ha2 Hb1 Hb2.
  destruct (EdgeNeighbors_same_face HW c f l a b P) as (n0 & n1 & n2 & n3 & E & P0 & P1 & P2 & P3).
  specialize (P0 ltac:(lia)). specialize (P1 ltac:(lia)). specialize (P2 ltac:(lia)). specialize (P3 ltac:(lia)).
  exists n0, n1, n2, n3. split; [exact E|]. split; [exact P0|]. split; [exact P1|]. split; [exact P2|]. split; [exact P3|].
  assert (D01 := at_pos_disjoint _ _ _ _ _ _ _ _ P0 P1 ltac:(intros X; injection X; lia)).
  assert (D02 := at_pos_disjoint _ _ _ _ _ _ _ _ P0 P2 ltac:(intros X; injection X; lia)).
  assert (D03 := at_pos_disjoint _ _ _ _ _ _ _ _ P0 P3 ltac:(intros X; injection X; lia)).
  assert (D12 := at_pos_disjoint _ _ _ _ _ _ _ _ P1 P2 ltac:(intros X; injection X; lia)).
  assert (D13 := at_pos_disjoint _ _ _ _ _ _ _ _ P1 P3 ltac:(intros X; injection X; lia)).
  assert (D23 := at_pos_disjoint _ _ _ _ _ _ _ _ P2 P3 ltac:(intros X; injection X; lia)).
  split.
  - apply NoDup4; [exact (proj1 D01)|exact (proj1 D02)|exact (proj1 D03)|exact (proj1 D12)|exact (proj1 D13)|exact (proj1 D23)].
  - intros n Hn. cbn [In] in Hn.
    assert (Q : exists a' b', at_pos n f l a' b' /\ (a, b) <> (a', b')).
    { destruct Hn as [<- | [<- | [<- | [<- | []]]]]; eexists _, _; (split; [eassumption|intros X; injection X; lia]). }
    destruct Q as (a' & b' & Pn & Hne).
    destruct (at_pos_disjoint _ _ _ _ _ _ _ _ P Pn Hne) as (Hcn & HI).
    destruct Pn as (k' & _ & _ & _ & Hr & _).
    split; [exact (Level_rep _ _ _ _ Hr)|]. split; [exact (IsValid_rep _ _ _ _ Hr)|]. split; [congruence|exact HI].
Qed.

(** ** AllNeighbors: the loop terminates with 4 * (size / nbrSize) + 4 entries *)
Lemma loop_length : forall (t : nat) fuel face i j size nbr level k acc,
  0 < nbr -> 0 < size < 2 ^ 31 -> nbr <= size -> k = size - Z.of_nat t * nbr -> 0 <= k -> (t < fuel)%nat ->
  length (AllNeighbors_loop fuel face i j size nbr level k acc) = (length acc + 4 * t + 2)%nat.
Proof.
  induction t as [|t IH]; intros fuel face i j size nbr level k acc Hn Hs Hns Ek Hk Hf;
    (destruct fuel as [|fuel]; [lia|]); cbn [AllNeighbors_loop]; unfold AllNeighbors_body.
  - cbn [Z.of_nat] in Ek. rewrite Z.mul_0_l, Z.sub_0_r in Ek. subst k.
    replace (size <? 0) with false by (symmetry; apply Z.ltb_ge; lia).
    replace (size <=? size) with true by (symmetry; apply Z.leb_le; lia).
    cbn [app]. rewrite app_length. cbn [length]. lia.
  - rewrite Nat2Z.inj_succ in Ek.
    assert (Hks : k < size) by nia.
    replace (k <? 0) with false by (symmetry; apply Z.ltb_ge; lia).
    replace (size <=? k) with false by (symmetry; apply Z.leb_gt; lia).
    change (2 ^ 31) with 2147483648 in Hs.
    rewrite (wrap_i64_small (k + nbr)) by (change (2 ^ 63) with 9223372036854775808; lia).
    rewrite IH by (try assumption; try lia; nia).
    rewrite app_length. cbn [app length]. lia.
Qed.

Lemma body_length_neg : forall face i j size nbr level k, k < 0 ->
  length (AllNeighbors_body face i j size nbr level k) = 2%nat.
Proof.
  intros. unfold AllNeighbors_body. replace (k <? 0) with true by (symmetry; apply Z.ltb_lt; lia). reflexivity.
Qed.

Theorem AllNeighbors_count : forall c f l k level, rep c f l k -> l <= level <= 30 ->
  length (AllNeighbors c level) = Z.to_nat (4 * 2 ^ (level - l) + 4).
Proof.
  intros c f l k level H Hlv. pose proof H as (Hf & Hl & Hk & _). unfold AllNeighbors.
  rewrite (Level_rep _ _ _ _ H).
  replace ((level <? l) || (30 <? level)) with false
    by (symmetry; apply orb_false_iff; split; apply Z.ltb_ge; lia).
  destruct (s2_CellID_faceIJOrientation c) as [[[fc i] j] o].
  rewrite !sizeIJ_eq by lia.
  set (size := 2 ^ (30 - l)). set (nbr := 2 ^ (30 - level)).
  assert (Hn : 0 < nbr) by (apply pow2_pos; lia). assert (Hs : 0 < size) by (apply pow2_pos; lia).
  assert (Hs31 : size < 2 ^ 31) by (apply pow2_lt; lia).
  assert (Esz : size = 2 ^ (level - l) * nbr) by (unfold size, nbr; rewrite <- Z.pow_add_r by lia; f_equal; lia).
  pose proof (pow2_pos (level - l) ltac:(lia)) as HT.
  assert (Ediv : size / nbr = 2 ^ (level - l)) by (rewrite Esz; apply Z.div_mul; lia).
  rewrite Ediv.
  change (2 ^ 31) with 2147483648 in Hs31.
  rewrite (wrap_i64_small (- nbr)) by (change (2 ^ 63) with 9223372036854775808; nia).
  set (T := 2 ^ (level - l)) in *.
  replace (Z.to_nat (T + 3)) with (S (Z.to_nat (T + 2))) by lia.
  cbn [AllNeighbors_loop].
  replace (size <=? - nbr) with false by (symmetry; apply Z.leb_gt; lia).
  rewrite (wrap_i64_small (- nbr + nbr)) by (change (2 ^ 63) with 9223372036854775808; lia).
  replace (- nbr + nbr) with 0 by ring.
  rewrite (loop_length (Z.to_nat T)); try assumption.
  - cbn [app]. rewrite body_length_neg by (clear - Hn; lia). cbn [length]. clear - HT. lia.
  - change (2 ^ 31) with 2147483648. lia.
  - rewrite Esz. clear - HT Hn. nia.
  - rewrite Z2Nat.id by lia. rewrite Esz. ring.
  - lia.
  - lia.
Qed.

(** ** VertexNeighbors, same-face part (hand model Model/CellIDNbr.v) *)
Theorem VertexNeighbors_same_face : forall c f l a b level, at_pos c f l a b -> 0 <= level < l ->
  exists i j o, s2_CellID_faceIJOrientation c = (f, i, j, o) /\
  let A := i / 2 ^ (30 - level) in let B := j / 2 ^ (30 - level) in
  let di := if negb (Z.land i (2 ^ (30 - (level + 1))) =? 0) then 1 else -1 in
  let dj := if negb (Z.land j (2 ^ (30 - (level + 1))) =? 0) then 1 else -1 in
  0 <= A + di < 2 ^ level -> 0 <= B + dj < 2 ^ level ->
  exists n0 n1 n2 n3, VertexNeighbors c level = [n0; n1; n2; n3] /\
    n0 = s2_CellID_Parent c level /\ s2_CellID_Contains n0 c = true /\
    at_pos n0 f level A B /\ at_pos n1 f level (A + di) B /\ at_pos n2 f level A (B + dj) /\
    at_pos n3 f level (A + di) (B + dj) /\ NoDup [n0; n1; n2; n3].
Proof.
  intros c f l a b level (k & i & j & o & H & D & Ei & Ej & Ha & Hb) Hlv.
  pose proof H as (Hf & Hl & Hk & _).
  destruct (cell_state (Z.to_nat l) (index f l k)) as [[ci cj] co] eqn:ES.
  destruct (faceIJ_cell _ _ _ _ H ci cj co ES) as (i2 & j2 & D2 & _ & _ & Ri & Rj).
  rewrite D in D2. injection D2 as <- <- _.
  exists i, j, o. split; [exact D|]. cbv zeta. intros HA HB.
  set (A := i / 2 ^ (30 - level)) in *. set (B := j / 2 ^ (30 - level)) in *.
  set (di := if negb (Z.land i (2 ^ (30 - (level + 1))) =? 0) then 1 else -1) in *.
  set (dj := if negb (Z.land j (2 ^ (30 - (level + 1))) =? 0) then 1 else -1) in *.
  assert (Hlv' : 0 <= level <= 30) by lia.
  pose proof (pow2_pos (30 - level) ltac:(lia)) as HP. pose proof (pow2_le (30 - level) 30 ltac:(lia)) as HPle.
  assert (Hsz : 2 ^ (30 - level) = 2 * 2 ^ (30 - (level + 1))).
  { replace (30 - level) with (30 - (level + 1) + 1) by lia. rewrite Z.pow_add_r by lia. change (2 ^ 1) with 2. ring. }
  (* the ancestor and the leaf inside c *)
  destruct (ancestor_prefix _ _ _ _ level H ltac:(lia)) as (i1 & j1 & o1 & i' & j' & o' & D1 & D' & Ei' & Ej').
  rewrite D in D1. injection D1 as <- <- _.
  pose proof (Parent_rep _ _ _ _ level H ltac:(lia)) as HPar.
  assert (RA : 0 <= A < 2 ^ level /\ 0 <= B < 2 ^ level).
  { assert (E30 : 2 ^ 30 = 2 ^ level * 2 ^ (30 - level)) by (rewrite <- Z.pow_add_r by lia; f_equal; lia).
    unfold A, B. split; (split; [apply Z.div_pos; lia|apply Z.div_lt_upper_bound; [lia|rewrite Z.mul_comm, <- E30; lia]]). }
  assert (P0 : at_pos (s2_CellID_Parent c level) f level A B).
  { exists (k / 4 ^ (l - level)), i', j', o'. split; [exact HPar|]. split; [exact D'|]. split; [exact Ei'|]. split; [exact Ej'|]. exact RA. }
  (* the three other entries *)
  assert (Hdi : di = 1 \/ di = -1) by (unfold di; destruct (Z.land i (2 ^ (30 - (level + 1))) =? 0); cbn [negb]; auto).
  assert (Hdj : dj = 1 \/ dj = -1) by (unfold dj; destruct (Z.land j (2 ^ (30 - (level + 1))) =? 0); cbn [negb]; auto).
  destruct (shifted_pos i level A di Hlv' eq_refl Ri HA) as (RI & EI).
  destruct (shifted_pos j level B dj Hlv' eq_refl Rj HB) as (RJ & EJ).
  pose proof (parent_of_leaf_at f (i + di * 2 ^ (30 - level)) j level Hf RI Rj Hlv') as P1. rewrite EI in P1. fold B in P1.
  pose proof (parent_of_leaf_at f i (j + dj * 2 ^ (30 - level)) level Hf Ri RJ Hlv') as P2. rewrite EJ in P2. fold A in P2.
  pose proof (parent_of_leaf_at f (i + di * 2 ^ (30 - level)) (j + dj * 2 ^ (30 - level)) level Hf RI RJ Hlv') as P3. rewrite EI, EJ in P3.
  (* the model's computation *)
  unfold VertexNeighbors. rewrite D.
  rewrite (wrap_i64_small (level + 1)) by (change (2 ^ 63) with 9223372036854775808; lia).
  rewrite (sizeIJ_eq (level + 1)) by lia.
  rewrite go_shl_mul by lia. change (2 ^ 1) with 2. rewrite (Z.mul_comm _ 2), <- Hsz.
  change (2 ^ 30) with 1073741824 in *. unfold MaxSize.
  rewrite (wrap_i64_small (2 ^ (30 - level))) by (change (2 ^ 63) with 9223372036854775808; lia).
  rewrite (wrap_i64_small (- 2 ^ (30 - level))) by (change (2 ^ 63) with 9223372036854775808; lia).
  rewrite !(wrap_i64_small (i + _)), !(wrap_i64_small (i - _)), !(wrap_i64_small (j + _)), !(wrap_i64_small (j - _))
    by (change (2 ^ 63) with 9223372036854775808; clear - HP HPle Ri Rj; lia).
  assert (Ii : (if negb (Z.land i (2 ^ (30 - (level + 1))) =? 0)
               then (2 ^ (30 - level), i + 2 ^ (30 - level) <? 1073741824)
               else (- 2 ^ (30 - level), 0 <=? i - 2 ^ (30 - level))) = (di * 2 ^ (30 - level), true)).
  { unfold di in *. destruct (negb (Z.land i (2 ^ (30 - (level + 1))) =? 0)); f_equal; try ring.
    - apply Z.ltb_lt. lia. - apply Z.leb_le. lia. }
  assert (Ij : (if negb (Z.land j (2 ^ (30 - (level + 1))) =? 0)
               then (2 ^ (30 - level), j + 2 ^ (30 - level) <? 1073741824)
               else (- 2 ^ (30 - level), 0 <=? j - 2 ^ (30 - level))) = (dj * 2 ^ (30 - level), true)).
  { unfold dj in *. destruct (negb (Z.land j (2 ^ (30 - (level + 1))) =? 0)); f_equal; try ring.
    - apply Z.ltb_lt. lia. - apply Z.leb_le. lia. }
  rewrite Ii, Ij. cbn [orb andb app]. unfold s2_cellIDFromFaceIJSame.
  rewrite !(wrap_i64_small (i + _)), !(wrap_i64_small (j + _)) by (change (2 ^ 63) with 9223372036854775808; lia).
  eexists _, _, _, _. split; [reflexivity|]. split; [reflexivity|].
  split; [exact (Parent_contains _ _ _ _ _ H (conj (proj1 Hlv) (Z.lt_le_incl _ _ (proj2 Hlv))))|].
  split; [exact P0|]. split; [exact P1|]. split; [exact P2|]. split; [exact P3|].
  clear - P0 P1 P2 P3 Hdi Hdj.
  assert (D01 := at_pos_disjoint _ _ _ _ _ _ _ _ P0 P1 ltac:(intros X; injection X; lia)).
  assert (D02 := at_pos_disjoint _ _ _ _ _ _ _ _ P0 P2 ltac:(intros X; injection X; lia)).
  assert (D03 := at_pos_disjoint _ _ _ _ _ _ _ _ P0 P3 ltac:(intros X; injection X; lia)).
  assert (D12 := at_pos_disjoint _ _ _ _ _ _ _ _ P1 P2 ltac:(intros X; injection X; lia)).
  assert (D13 := at_pos_disjoint _ _ _ _ _ _ _ _ P1 P3 ltac:(intros X; injection X; lia)).
  assert (D23 := at_pos_disjoint _ _ _ _ _ _ _ _ P2 P3 ltac:(intros X; injection X; lia)).
  apply NoDup4; [exact (proj1 D01)|exact (proj1 D02)|exact (proj1 D03)|exact (proj1 D12)|exact (proj1 D13)|exact (proj1 D23)].
Qed.
