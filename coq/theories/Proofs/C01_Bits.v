(** C01 — bit-level lemmas on [Z] used by the cell-id algebra: two's complement lowest set
    bit, masks with negated powers of two, disjoint or. No dependency on generated code. *)
From Coq Require Import ZArith List Bool Lia.
From Geo Require Import Base.GoPrim.
Import ListNotations.
Local Open Scope Z_scope.

Lemma wrap_u64_eq : forall x, wrap_u64 x = x mod 2^64.
Proof. reflexivity. Qed.

Lemma wrap_u64_small : forall x, 0 <= x < 2^64 -> wrap_u64 x = x.
Proof. intros x H. unfold wrap_u64, wrap_u. apply Z.mod_small. exact H. Qed.

Lemma wrap_u64_range : forall x, 0 <= wrap_u64 x < 2^64.
Proof. intros x. unfold wrap_u64, wrap_u. apply Z.mod_pos_bound. reflexivity. Qed.

Lemma wrap_i64_small : forall x, - 2^63 <= x < 2^63 -> wrap_i64 x = x.
Proof.
  intros x H. unfold wrap_i64, wrap_i.
  change (2 ^ 64) with 18446744073709551616. change (2 ^ (64 - 1)) with 9223372036854775808.
  change (2 ^ 63) with 9223372036854775808 in H.
  destruct (x mod 18446744073709551616 <? 9223372036854775808) eqn:E;
    [apply Z.ltb_lt in E | apply Z.ltb_ge in E];
    pose proof (Z.mod_pos_bound x 18446744073709551616 eq_refl);
    pose proof (Z.div_mod x 18446744073709551616); lia.
Qed.

Lemma pow2_pos : forall n, 0 <= n -> 0 < 2 ^ n.
Proof. intros. apply Z.pow_pos_nonneg; lia. Qed.

Lemma pow2_le : forall a b, 0 <= a <= b -> 2 ^ a <= 2 ^ b.
Proof. intros. apply Z.pow_le_mono_r; lia. Qed.

Lemma pow2_lt : forall a b, 0 <= a < b -> 2 ^ a < 2 ^ b.
Proof. intros. apply Z.pow_lt_mono_r; lia. Qed.

(** every positive integer is an odd number times a power of two *)
Lemma odd_pow2_decomp : forall c, 0 < c -> exists m j, 0 <= m /\ 0 <= j /\ c = (2 * m + 1) * 2 ^ j.
Proof.
  intros c Hc. destruct c as [|p|p]; try lia. clear Hc.
  induction p as [p IH|p IH|].
  - exists (Z.pos p), 0. split; [lia|]. split; [lia|]. rewrite Z.pow_0_r. lia.
  - destruct IH as (m & j & Hm & Hj & E). exists m, (j + 1). split; [lia|]. split; [lia|].
    rewrite Z.pow_add_r by lia. change (2 ^ 1) with 2.
    change (Z.pos p~0) with (2 * Z.pos p). rewrite E. ring.
  - exists 0, 0. split; [lia|]. split; [lia|]. reflexivity.
Qed.

Lemma land_odd_odd : forall a b, Z.land (2 * a + 1) (2 * b + 1) = 2 * Z.land a b + 1.
Proof.
  intros a b. apply Z.bits_inj'. intros n Hn.
  rewrite Z.land_spec.
  destruct (Z.eq_dec n 0) as [->|Hn0].
  - rewrite !Z.testbit_odd_0. reflexivity.
  - replace n with (Z.succ (n - 1)) by lia.
    rewrite !Z.testbit_odd_succ by lia. rewrite Z.land_spec. reflexivity.
Qed.

Lemma land_neg_odd : forall m, Z.land (2 * m + 1) (- (2 * m + 1)) = 1.
Proof.
  intros m. replace (- (2 * m + 1)) with (2 * (Z.lnot m) + 1) by (unfold Z.lnot; lia).
  rewrite land_odd_odd. rewrite Z.land_lnot_diag. reflexivity.
Qed.

(** x & -x for x = odd * 2^j, in unbounded two's complement *)
Lemma land_neg_odd_pow2 : forall m j, 0 <= j ->
  Z.land ((2 * m + 1) * 2 ^ j) (- ((2 * m + 1) * 2 ^ j)) = 2 ^ j.
Proof.
  intros m j Hj.
  replace (- ((2 * m + 1) * 2 ^ j)) with ((- (2 * m + 1)) * 2 ^ j) by ring.
  rewrite <- !Z.shiftl_mul_pow2 by lia. rewrite <- Z.shiftl_land.
  rewrite land_neg_odd. rewrite Z.shiftl_mul_pow2 by lia. lia.
Qed.

(** the same with the uint64 negation of Go *)
Lemma lsb_u64 : forall c m j, 0 <= j < 64 -> c = (2 * m + 1) * 2 ^ j ->
  Z.land c (wrap_u64 (- c)) = 2 ^ j.
Proof.
  intros c m j Hj E. unfold wrap_u64, wrap_u. rewrite <- Z.land_ones by lia.
  rewrite Z.land_assoc. rewrite E. rewrite land_neg_odd_pow2 by lia.
  rewrite Z.land_ones by lia. apply Z.mod_small. split; [apply Z.lt_le_incl, pow2_pos; lia|].
  apply pow2_lt. lia.
Qed.

(** x & uint64(-2^n) clears the n low bits *)
Lemma land_neg_pow2 : forall x n, 0 <= n -> Z.land x (- 2 ^ n) = (x / 2 ^ n) * 2 ^ n.
Proof.
  intros x n Hn. replace (- 2 ^ n) with (Z.lnot (Z.ones n)).
  - rewrite <- Z.ldiff_land. rewrite Z.ldiff_ones_r by lia.
    rewrite Z.shiftr_div_pow2, Z.shiftl_mul_pow2 by lia. reflexivity.
  - unfold Z.lnot. rewrite Z.ones_equiv. lia.
Qed.

Lemma land_wrap_neg_pow2 : forall x n, 0 <= x < 2^64 -> 0 <= n ->
  Z.land x (wrap_u64 (- 2 ^ n)) = (x / 2 ^ n) * 2 ^ n.
Proof.
  intros x n Hx Hn. unfold wrap_u64, wrap_u. rewrite <- Z.land_ones by lia.
  rewrite (Z.land_comm (- 2 ^ n)). rewrite Z.land_assoc. rewrite (Z.land_ones x) by lia.
  rewrite (Z.mod_small x) by lia. apply land_neg_pow2. exact Hn.
Qed.

Lemma lor_1 : forall z, Z.lor z 1 = 2 * (z / 2) + 1.
Proof.
  intros z. apply Z.bits_inj'. intros n Hn. rewrite Z.lor_spec.
  destruct (Z.eq_dec n 0) as [->|Hn0].
  - rewrite Z.testbit_odd_0. change (Z.testbit 1 0) with true. apply orb_true_r.
  - replace n with (Z.succ (n - 1)) by lia. rewrite Z.testbit_odd_succ by lia.
    replace (Z.testbit 1 (Z.succ (n - 1))) with false.
    + rewrite orb_false_r. rewrite <- Z.div2_div. rewrite Z.div2_spec.
      rewrite Z.shiftr_spec by lia. f_equal.
    + symmetry. apply Z.bits_above_log2; simpl; lia.
Qed.

(** y | 2^n where y is a multiple of 2^n *)
Lemma lor_mul_pow2 : forall q n, 0 <= n -> Z.lor (q * 2 ^ n) (2 ^ n) = (2 * (q / 2) + 1) * 2 ^ n.
Proof.
  intros q n Hn. replace (2 ^ n) with (1 * 2 ^ n) at 2 by lia.
  rewrite <- !Z.shiftl_mul_pow2 by lia. rewrite <- Z.shiftl_lor. rewrite lor_1. reflexivity.
Qed.

(** disjoint or is addition: a multiple of 2^n or-ed with something below 2^n *)
Lemma lor_disjoint_add : forall a b n, 0 <= n -> 0 <= b < 2 ^ n -> Z.lor (a * 2 ^ n) b = a * 2 ^ n + b.
Proof.
  intros a b n Hn Hb.
  assert (Hl : Z.land (a * 2 ^ n) b = 0).
  { apply Z.bits_inj'. intros k Hk. rewrite Z.land_spec, Z.bits_0.
    destruct (Z_lt_le_dec k n) as [Hlt|Hge].
    - rewrite Z.mul_pow2_bits_low by lia. reflexivity.
    - replace (Z.testbit b k) with false; [apply andb_false_r|].
      symmetry. destruct (Z.eq_dec b 0) as [->|Hb0]; [apply Z.bits_0|].
      apply Z.bits_above_log2; [lia|]. apply Z.log2_lt_pow2; [lia|].
      eapply Z.lt_le_trans; [apply Hb|]. apply pow2_le. lia. }
  rewrite <- Z.lxor_lor by exact Hl. symmetry. apply Z.add_nocarry_lxor. exact Hl.
Qed.

Lemma shiftr_nonneg_div : forall a n, 0 <= n -> Z.shiftr a n = a / 2 ^ n.
Proof. intros. apply Z.shiftr_div_pow2. lia. Qed.

Lemma go_shr_div : forall a n, 0 <= n -> go_shr a n = a / 2 ^ n.
Proof. intros a n Hn. unfold go_shr. destruct (n <? 0) eqn:E; [apply Z.ltb_lt in E; lia|]. apply Z.shiftr_div_pow2. lia. Qed.

Lemma go_shl_mul : forall a n, 0 <= n -> go_shl a n = a * 2 ^ n.
Proof. intros a n Hn. unfold go_shl. destruct (n <? 0) eqn:E; [apply Z.ltb_lt in E; lia|]. apply Z.shiftl_mul_pow2. lia. Qed.
