(** Instantiates the interface of the C07 theorems (Section of Props/C07.v, lemmas of
    Proofs/C07_Relations.v) with the real predicates of the lower layers:

      point          := cpoint = { p : s2_Point | IsUnit p and no coordinate is -0 }
      peq            := Go == on the projections (s2_Point_eqb); on cpoint it IS Leibniz
                        equality ([c_peq_spec], closed) — a negative zero is the only way two
                        different finite float64 values can be ==
      ordered_ccw    := Crosser.ordered_ccw over RobustSign                    (C02/C03)
      crossing_sign  := Crosser.crossing_sign (the EdgeCrosser, stateless form)  (C03)
      contains_point := Contain.brute_contains over the crosser's EdgeOrVertexCrossing,
                        false / true for the empty / full loop                   (C04)

    Discharged here: peq_spec (closed); cross_swap, cross_rev (C03 crossing_spec_sym +
    stateless_eq), occw_aab, occw_aba (C03 vertex laws), cp_invert (C04 invert_complement via
    Link_C03_C04), cp_full, cp_empty — all under H_TANGENT only (H-STABLE-DET is a closed C02 theorem).
    What remains premise of the C07 theorems: H_JORDAN_*, H_SUBREGION_*, H_LATBOUND_*.

    Bridge to Model/Contain.v: [to_contain] forgets the kind tag of a C07 loop; on coherent loop
    values (what LoopFromPoints / EmptyLoop / FullLoop / Invert produce) [c_cp] is
    brute_contains of it ([cp_is_brute]) and the two Invert models agree ([invert_corresponds]). *)
From Coq Require Import ZArith List Bool Reals Floats SpecFloat Lia Eqdep_dec.
From Flocq Require Import Core.Core IEEE754.BinarySingleNaN IEEE754.PrimFloat.
From Geo Require Import Base.GoPrim Base.F64 Base.Exact Gen.R3 Gen.S2Pred Model.Pred
  Proofs.C02_Exact Proofs.C02_Float Proofs.C02_Robust Proofs.C02_IsUnit.
From Geo Require Model.Crosser Model.Contain.
From Geo Require Import Proofs.C03_Crosser Proofs.C03_Vertex Proofs.C04_Brute
  Proofs.Link_C02_C03 Proofs.Link_C03_C04.
From Geo Require Import Model.Wedge Model.Relations Proofs.C07_Relations Proofs.C07_Polygon.
Import ListNotations.

(** * float64 values without a negative zero: == is Leibniz equality *)
Definition fcanon (x : PrimFloat.float) : bool :=
  match Prim2SF x with
  | S754_finite _ _ _ | S754_zero false => true
  | _ => false
  end.

Lemma fcanon_leibniz x y : fcanon x = true -> fcanon y = true -> FR x = FR y -> x = y.
Proof.
  unfold fcanon, FR. rewrite <- !B2SF_Prim2B. intros Hx Hy E. apply Prim2B_inj.
  destruct (Prim2B x) as [sx|sx| |sx mx ex Bx], (Prim2B y) as [sy|sy| |sy my ey By];
    simpl in Hx, Hy; try discriminate.
  - destruct sx, sy; try discriminate. reflexivity.
  - exfalso. simpl in E. symmetry in E. apply eq_0_F2R in E. simpl in E. now destruct sy.
  - exfalso. simpl in E. apply eq_0_F2R in E. simpl in E. now destruct sx.
  - apply B2R_inj; auto.
Qed.

Definition canon_pt (p : s2_Point) : bool :=
  r3_Vector_IsUnit (s2_Point_Vector p)
  && fcanon (r3_Vector_X (s2_Point_Vector p))
  && fcanon (r3_Vector_Y (s2_Point_Vector p))
  && fcanon (r3_Vector_Z (s2_Point_Vector p)).

Definition cpoint : Type := { p : s2_Point | canon_pt p = true }.
Definition cpt (a : cpoint) : s2_Point := proj1_sig a.

Lemma cpt_parts (a : cpoint) :
  r3_Vector_IsUnit (s2_Point_Vector (cpt a)) = true /\
  fcanon (r3_Vector_X (s2_Point_Vector (cpt a))) = true /\
  fcanon (r3_Vector_Y (s2_Point_Vector (cpt a))) = true /\
  fcanon (r3_Vector_Z (s2_Point_Vector (cpt a))) = true.
Proof.
  pose proof (proj2_sig a) as H. unfold canon_pt in H. fold (cpt a) in H.
  apply andb_true_iff in H. destruct H as [H Hz]. apply andb_true_iff in H. destruct H as [H Hy].
  apply andb_true_iff in H. destruct H as [H Hx]. auto.
Qed.

Definition c2u (a : cpoint) : upoint :=
  exist _ (cpt a) (isunit_unit_pt (cpt a) (proj1 (cpt_parts a))).

Lemma cpoint_eq (a b : cpoint) : cpt a = cpt b -> a = b.
Proof.
  destruct a as [p Hp], b as [q Hq]. simpl. intro E. subst q. f_equal.
  apply UIP_dec. apply bool_dec.
Qed.

Definition c_peq (a b : cpoint) : bool := u_peq (c2u a) (c2u b).
Definition c_sign (a b c : cpoint) : Z := u_sign (c2u a) (c2u b) (c2u c).
Definition c_triage (a b c : cpoint) : Z := u_triage (c2u a) (c2u b) (c2u c).
Definition c_tangent (a b c d : cpoint) : bool := u_tangent (c2u a) (c2u b) (c2u c) (c2u d).

(** Go == on canonical unit points is equality of the values: premise [peq_spec], closed *)
Theorem c_peq_spec a b : c_peq a b = true <-> a = b.
Proof.
  split.
  - unfold c_peq, u_peq. intro H.
    apply (eqb_iff _ _ (upt_finite (c2u a)) (upt_finite (c2u b))) in H.
    destruct H as (Ex & Ey & Ez). unfold PX, PY, PZ in *. simpl in Ex, Ey, Ez.
    destruct (cpt_parts a) as (_ & Ax & Ay & Az). destruct (cpt_parts b) as (_ & Bx & By & Bz).
    apply cpoint_eq.
    pose proof (fcanon_leibniz _ _ Ax Bx Ex) as Lx. pose proof (fcanon_leibniz _ _ Ay By Ey) as Ly.
    pose proof (fcanon_leibniz _ _ Az Bz Ez) as Lz.
    destruct (cpt a) as [[x y z]], (cpt b) as [[x' y' z']]. simpl in *. now subst.
  - intros ->. apply (u_peq_refl (c2u b)).
Qed.

(** * Crossing: two spellings of the same three-valued answer *)
Definition conv (x : Crosser.crossing) : Relations.crossing :=
  match x with
  | Crosser.Cross => Relations.Cross
  | Crosser.MaybeCross => Relations.Maybe
  | Crosser.DoNotCross => Relations.DoNotCross
  end.

Section Real.
  Hypothesis HT : H_TANGENT.
  (** Point.referenceDir, OriginPoint, emptyLoopPoint, fullLoopPoint as canonical unit points;
      the zero Point only fills unreachable defaults of Model/Contain.v *)
  Variable refdir : cpoint -> cpoint.
  Variables origin empty_pt full_pt zero_pt : cpoint.

  Definition c_cross (a b c d : cpoint) : Relations.crossing :=
    conv (Crosser.crossing_sign cpoint c_peq c_sign c_triage c_tangent a b c d).
  Definition c_occw : cpoint -> cpoint -> cpoint -> cpoint -> bool := Crosser.ordered_ccw cpoint c_sign.
  Definition c_eov : cpoint -> cpoint -> cpoint -> cpoint -> bool :=
    Link_C03_C04.eov cpoint c_peq c_sign c_triage c_tangent refdir.

  Definition to_contain (L : Relations.loop cpoint) : Contain.loop cpoint :=
    Contain.mk_loop cpoint (l_verts cpoint L) (l_oi cpoint L).
  Definition c_brute (L : Contain.loop cpoint) (p : cpoint) : bool :=
    Contain.brute_contains cpoint c_eov origin zero_pt L p.
  Definition c_cp (L : Relations.loop cpoint) (p : cpoint) : bool :=
    match l_kind cpoint L with
    | KEmpty => false
    | KFull => true
    | KNormal => c_brute (to_contain L) p
    end.

  (** the laws of the orientation predicate on cpoint, from Link_C02_C03 *)
  Let peq_refl : forall a, c_peq a a = true := fun a => u_peq_refl (c2u a).
  Let peq_sym : forall a b, c_peq a b = c_peq b a := fun a b => u_peq_sym (c2u a) (c2u b).
  Let peq_trans : forall a b c, c_peq a b = true -> c_peq b c = true -> c_peq a c = true :=
    fun a b c => u_peq_trans (c2u a) (c2u b) (c2u c).
  Let sign_rotate : forall a b c, c_sign b c a = c_sign a b c :=
    fun a b c => u_sign_rotate (c2u a) (c2u b) (c2u c).
  Let sign_swap : forall a b c, c_sign c b a = Z.opp (c_sign a b c) :=
    fun a b c => u_sign_swap (c2u a) (c2u b) (c2u c).
  Let sign_range : forall a b c, c_sign a b c = (-1)%Z \/ c_sign a b c = 0%Z \/ c_sign a b c = 1%Z :=
    fun a b c => u_sign_range (c2u a) (c2u b) (c2u c).
  Let sign_zero_iff : forall a b c,
      c_sign a b c = 0%Z <-> c_peq a b = true \/ c_peq b c = true \/ c_peq c a = true :=
    fun a b c => u_sign_zero_iff (c2u a) (c2u b) (c2u c).
  Let triage_sound : forall a b c, c_triage a b c <> 0%Z -> c_triage a b c = c_sign a b c :=
    fun a b c => u_triage_sound (c2u a) (c2u b) (c2u c).
  Let tangent_sound : forall a b c d, c_tangent a b c d = true ->
      Crosser.shared cpoint c_peq a b c d = false /\ Crosser.four_agree cpoint c_sign a b c d = false :=
    fun a b c d => HT (c2u a) (c2u b) (c2u c) (c2u d).

  Lemma c_cross_is_spec a b c d :
    c_cross a b c d = conv (Crosser.crossing_spec cpoint c_peq c_sign a b c d).
  Proof.
    unfold c_cross. f_equal.
    exact (stateless_eq cpoint c_peq c_sign c_triage c_tangent peq_sym sign_rotate sign_swap
             sign_zero_iff triage_sound tangent_sound a b c d).
  Qed.

  (** ** the interface laws of Props/C07.v *)
  Lemma c_cross_swap a b c d : c_cross a b c d = c_cross c d a b.
  Proof.
    rewrite !c_cross_is_spec.
    destruct (crossing_spec_sym cpoint c_peq c_sign peq_sym sign_rotate sign_swap a b c d) as [_ [_ H]].
    now rewrite H.
  Qed.

  Lemma c_cross_rev a b c d : c_cross b a c d = c_cross a b c d.
  Proof.
    rewrite !c_cross_is_spec.
    destruct (crossing_spec_sym cpoint c_peq c_sign peq_sym sign_rotate sign_swap a b c d) as [H _].
    now rewrite H.
  Qed.

  Lemma c_occw_aab a c o : c_occw a a c o = true.
  Proof. exact (occw_aab cpoint c_peq c_sign peq_refl sign_swap sign_zero_iff a c o). Qed.

  Lemma c_occw_aba a b o : a <> b -> a <> o -> b <> o -> c_occw a b a o = false.
  Proof.
    intros H1 H2 H3.
    assert (N : forall x y : cpoint, x <> y -> c_peq x y = false).
    { intros x y H. destruct (c_peq x y) eqn:E; [|reflexivity]. now apply c_peq_spec in E. }
    exact (occw_aba cpoint c_peq c_sign peq_refl peq_sym sign_swap sign_range sign_zero_iff a b o
             (N _ _ H1) (N _ _ H2) (N _ _ H3)).
  Qed.

  Lemma c_eov_sym : eov_sym_cd_law cpoint c_eov.
  Proof.
    exact (eov_sym_cd cpoint c_peq c_sign c_triage c_tangent refdir peq_sym peq_trans sign_rotate
             sign_swap sign_zero_iff triage_sound tangent_sound).
  Qed.
  Lemma c_eov_degenerate : eov_degenerate_cd_law cpoint c_eov.
  Proof.
    exact (eov_degenerate_cd cpoint c_peq c_sign c_triage c_tangent refdir peq_refl peq_sym
             sign_rotate sign_swap sign_zero_iff triage_sound tangent_sound).
  Qed.

  Lemma c_brute_rev vs oi p :
    c_brute (Contain.mk_loop cpoint (rev vs) (negb oi)) p = negb (c_brute (Contain.mk_loop cpoint vs oi) p).
  Proof.
    unfold c_brute. destruct (Nat.eq_dec (length vs) 1) as [E|NE].
    - destruct vs as [|v [|w t]]; try discriminate. simpl rev.
      rewrite (brute_flag cpoint c_eov origin zero_pt [v] (negb oi)),
              (brute_flag cpoint c_eov origin zero_pt [v] oi).
      now destruct oi, (Contain.brute_contains cpoint c_eov origin zero_pt (Contain.mk_loop cpoint [v] false) p).
    - pose proof (invert_complement_ordinary cpoint c_eov origin empty_pt full_pt zero_pt c_eov_sym
                    (Contain.mk_loop cpoint vs oi) p NE) as H.
      unfold Contain.invert, Contain.is_empty_or_full in H. simpl in H.
      destruct (Nat.eqb_spec (length vs) 1); [contradiction|]. exact H.
  Qed.

  Lemma c_cp_invert L p : c_cp (Relations.invert cpoint empty_pt full_pt L) p = negb (c_cp L p).
  Proof.
    unfold c_cp, Relations.invert. destruct (l_kind cpoint L); simpl; try reflexivity.
    unfold to_contain. simpl. apply c_brute_rev.
  Qed.
  Lemma c_cp_full L p : is_full cpoint L = true -> c_cp L p = true.
  Proof. unfold c_cp, is_full. now destruct (l_kind cpoint L). Qed.
  Lemma c_cp_empty L p : is_empty cpoint L = true -> c_cp L p = false.
  Proof. unfold c_cp, is_empty. now destruct (l_kind cpoint L). Qed.

  (** ** bridge to Model/Contain.v *)
  (** the loop values LoopFromPoints / EmptyLoop / FullLoop / Invert produce *)
  Definition coherent (L : Relations.loop cpoint) : Prop :=
    match l_kind cpoint L with
    | KEmpty => l_verts cpoint L = [empty_pt] /\ l_oi cpoint L = false
    | KFull => l_verts cpoint L = [full_pt] /\ l_oi cpoint L = true
    | KNormal => length (l_verts cpoint L) <> 1
    end.

  (** LoopFromPoints: originInside as initOriginAndBound computes it *)
  Definition loop_from_points (acv : cpoint -> cpoint -> cpoint -> bool) (south : cpoint -> bool)
      (vs : list cpoint) : Relations.loop cpoint :=
    mk_loop cpoint KNormal vs (Contain.init_origin_inside cpoint c_peq c_eov acv south origin zero_pt vs).

  Lemma brute_single v oi p : c_brute (Contain.mk_loop cpoint [v] oi) p = oi.
  Proof.
    unfold c_brute. rewrite parity_def.
    unfold Contain.parity, Contain.loop_edges. cbn [Contain.verts Contain.origin_inside length Nat.eqb].
    cbn [Contain.closed_edges Contain.chain_edges app].
    rewrite !cross_parity_cons, !cross_parity_nil. cbn [fst snd]. rewrite c_eov_degenerate.
    now destruct oi.
  Qed.

  Lemma cp_is_brute L p : coherent L -> c_cp L p = c_brute (to_contain L) p.
  Proof.
    unfold coherent, c_cp, to_contain. destruct (l_kind cpoint L); try reflexivity;
      intros [-> ->]; now rewrite brute_single.
  Qed.

  Lemma invert_corresponds L : coherent L ->
    to_contain (Relations.invert cpoint empty_pt full_pt L) =
    Contain.invert cpoint empty_pt full_pt (to_contain L).
  Proof.
    unfold coherent, to_contain, Relations.invert, Contain.invert, Contain.is_empty_or_full.
    destruct (l_kind cpoint L); simpl.
    - intros [-> ->]. reflexivity.
    - intros [-> ->]. reflexivity.
    - intro H. destruct (Nat.eqb_spec (length (l_verts cpoint L)) 1); [contradiction|reflexivity].
  Qed.

  Lemma invert_coherent L : coherent L -> coherent (Relations.invert cpoint empty_pt full_pt L).
  Proof.
    unfold coherent, Relations.invert. destruct (l_kind cpoint L); simpl.
    - intros [_ ->]. auto.
    - intros [_ ->]. auto.
    - now rewrite rev_length.
  Qed.

  (** ** the C07 theorems for the real predicates *)
  Variables sub_contains bound_intersects bound_union_full : Relations.loop cpoint -> Relations.loop cpoint -> bool.
  Notation RContains := (loop_contains cpoint c_peq c_occw c_cross c_cp sub_contains bound_union_full).
  Notation RIntersects := (loop_intersects cpoint c_peq c_occw c_cross c_cp sub_contains bound_intersects bound_union_full).
  Notation RInv := (Relations.invert cpoint empty_pt full_pt).

  Hypothesis H_sub : H_SUBREGION_sound cpoint c_peq c_occw c_cross c_cp sub_contains.
  Hypothesis H_v0 : H_SUBREGION_v0 cpoint c_peq c_cross c_cp sub_contains bound_union_full.
  Hypothesis H_bnd : H_LATBOUND_sound cpoint c_peq c_occw c_cross c_cp bound_intersects.
  Hypothesis H_bnd_empty : H_LATBOUND_empty cpoint bound_intersects.

  Theorem real_intersects_symmetric : forall A B, wf cpoint A -> wf cpoint B ->
    RIntersects A B = RIntersects B A.
  Proof.
    exact (intersects_sym cpoint c_peq c_occw c_cross c_cp sub_contains bound_intersects bound_union_full
             c_peq_spec c_cross_swap c_cp_full H_sub H_v0 H_bnd H_bnd_empty).
  Qed.

  Theorem real_contains_itself : forall A, valid cpoint c_cross A -> RContains A A = true.
  Proof.
    exact (contains_refl cpoint c_peq c_occw c_cross c_cp sub_contains bound_intersects bound_union_full
             c_peq_spec c_cross_swap c_occw_aab H_sub H_v0).
  Qed.

  Theorem real_intersects_itself : forall A, valid cpoint c_cross A -> is_empty cpoint A = false ->
    RIntersects A A = true.
  Proof.
    exact (intersects_refl cpoint c_peq c_occw c_cross c_cp sub_contains bound_intersects bound_union_full
             c_peq_spec c_cross_swap c_occw_aba c_cp_full H_sub H_v0 H_bnd H_bnd_empty).
  Qed.

  Theorem real_intersects_iff_complement_does_not_contain : forall A B,
    H_JORDAN_side cpoint c_peq c_cross c_cp -> wf cpoint A -> wf cpoint B ->
    RIntersects A B = negb (RContains (RInv A) B).
  Proof.
    exact (intersects_iff_not_compl_contains cpoint c_peq c_occw c_cross empty_pt full_pt c_cp
             sub_contains bound_intersects bound_union_full c_peq_spec c_cross_swap c_cross_rev
             c_cp_invert c_cp_full H_sub H_v0 H_bnd H_bnd_empty).
  Qed.

  Theorem real_contains_iff_complements_reversed : forall A B,
    H_JORDAN_side cpoint c_peq c_cross c_cp -> wf cpoint A -> wf cpoint B ->
    RContains A B = RContains (RInv B) (RInv A).
  Proof.
    exact (contains_iff_compl cpoint c_peq c_occw c_cross empty_pt full_pt c_cp
             sub_contains bound_intersects bound_union_full c_peq_spec c_cross_swap c_cross_rev
             c_cp_invert H_sub H_v0).
  Qed.

  Theorem real_contains_only_if_subset : forall A B,
    H_JORDAN_subset cpoint c_peq c_occw c_cross c_cp ->
    valid cpoint c_cross A -> valid cpoint c_cross B -> RContains A B = true ->
    forall p, c_cp B p = true -> c_cp A p = true.
  Proof.
    exact (contains_pointset cpoint c_peq c_occw c_cross c_cp sub_contains bound_intersects bound_union_full
             c_peq_spec c_cross_swap c_cp_full c_cp_empty H_sub H_v0).
  Qed.

  Theorem real_disjoint_only_if_no_common_point : forall A B,
    H_JORDAN_disjoint cpoint c_peq c_occw c_cross c_cp ->
    valid cpoint c_cross A -> valid cpoint c_cross B -> RIntersects A B = false ->
    forall p, c_cp A p = true -> c_cp B p = true -> False.
  Proof.
    exact (disjoint_pointset cpoint c_peq c_occw c_cross c_cp sub_contains bound_intersects bound_union_full
             c_peq_spec c_cross_swap c_cp_full c_cp_empty H_sub H_v0 H_bnd H_bnd_empty).
  Qed.
End Real.

(** the instance is inhabited: (1,0,0) is a canonical unit point *)
Example cpoint_inhabited : exists p : s2_Point, canon_pt p = true.
Proof. exists (mk_s2_Point (mk_r3_Vector 1%float 0%float 0%float)). vm_compute. reflexivity. Qed.
