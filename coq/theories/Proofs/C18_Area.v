(** C18 — decision logic of Loop.Area (range, consistency with IsNormalized) and the sign
    convention of Polygon.Area / Polygon.Centroid (shells minus holes by nesting-depth parity). *)
From Coq Require Import ZArith Reals List Bool Floats Lia Lra.
From Flocq Require Import Core.Core IEEE754.BinarySingleNaN IEEE754.PrimFloat.
From Geo Require Import Base.GoPrim Base.F64 Gen.Area Model.LoopMeasures Proofs.C18_Cyclic Proofs.C18_Float.
Import ListNotations.
Local Open Scope R_scope.
Local Notation float := PrimFloat.float.

(** * adding a finite constant never produces NaN *)
Lemma is_finite_not_nan (b : binary_float prec emax) : is_finite b = true -> is_nan b = false.
Proof. destruct b; simpl; congruence. Qed.

Lemma nonnan_add_finite x y : nonnan x -> is_finite (Prim2B y) = true -> nonnan (PrimFloat.add x y).
Proof.
  unfold nonnan. rewrite !go_isnan_equiv, add_equiv. intros Hx Hy.
  destruct (is_finite (Prim2B x)) eqn:Fx.
  - pose proof (Bplus_correct prec emax Hprec Hmax mode_NE (Prim2B x) (Prim2B y) Fx Hy) as H.
    destruct (Rlt_bool _ _) in H.
    + destruct H as (_ & Hf & _). apply is_finite_not_nan. exact Hf.
    + destruct H as (Hov & _). destruct (Bplus mode_NE (Prim2B x) (Prim2B y)); try reflexivity.
      simpl in Hov. unfold binary_overflow in Hov. simpl in Hov. discriminate.
  - destruct (Prim2B x) as [s|s| |s m e He]; try discriminate.
    destruct (Prim2B y) as [s'|s'| |s' m' e' He']; try discriminate; reflexivity.
Qed.

Lemma pi4_finite : is_finite (Prim2B pi4) = true.
Proof. rewrite <- is_finite_SF_B2SF, B2SF_Prim2B. reflexivity. Qed.

Lemma nn0 : nonnan 0%float. Proof. reflexivity. Qed.
Lemma nnpi4 : nonnan pi4. Proof. reflexivity. Qed.
Lemma rank_0_lt_pi4 : rank 0%float < rank pi4.
Proof. apply (proj1 (ltb_true_iff _ _ nn0 nnpi4)). reflexivity. Qed.

(** * area_decide *)
(** the wrapped and clamped raw integral *)
Definition area_clamped (raw : float) : float :=
  let area := if PrimFloat.ltb raw 0 then PrimFloat.add raw pi4 else raw in
  let area := if PrimFloat.ltb pi4 area then pi4 else area in
  if PrimFloat.ltb area 0 then 0%float else area.

Lemma area_decide_unfold raw e nz :
  area_decide raw e nz =
  let a := area_clamped raw in
  if PrimFloat.ltb a e && negb nz then (pi4, 1%Z)
  else if PrimFloat.ltb (PrimFloat.sub pi4 e) a && nz then (0%float, 2%Z) else (a, 0%Z).
Proof. reflexivity. Qed.

Lemma area_clamped_range raw : nonnan raw ->
  nonnan (area_clamped raw) /\ rank 0%float <= rank (area_clamped raw) <= rank pi4.
Proof.
  intros Hr. unfold area_clamped. pose proof rank_0_lt_pi4 as H04. pose proof nn0 as N0. pose proof nnpi4 as N4.
  set (a1 := if PrimFloat.ltb raw 0 then PrimFloat.add raw pi4 else raw).
  assert (N1 : nonnan a1).
  { unfold a1. destruct (PrimFloat.ltb raw 0); [apply nonnan_add_finite; [exact Hr | exact pi4_finite] | exact Hr]. }
  clearbody a1.
  set (a2 := if PrimFloat.ltb pi4 a1 then pi4 else a1).
  assert (N2 : nonnan a2 /\ rank a2 <= rank pi4).
  { unfold a2. destruct (PrimFloat.ltb pi4 a1) eqn:E; float_cmp_to_R; split; auto; lra. }
  destruct N2 as [N2 R2]. clearbody a2.
  destruct (PrimFloat.ltb a2 0) eqn:E; float_cmp_to_R; split; auto; lra.
Qed.

(** Area is always in [0, 4*pi] (never NaN) whatever the raw integral, the error bound and the
    normalisation answer. *)
Theorem area_decide_range : forall raw e nz, nonnan raw ->
  let a := fst (area_decide raw e nz) in nonnan a /\ rank 0%float <= rank a <= rank pi4.
Proof.
  intros raw e nz Hr. cbv zeta. rewrite area_decide_unfold. cbv zeta.
  pose proof (area_clamped_range raw Hr) as (Na & Ra). pose proof rank_0_lt_pi4.
  destruct (PrimFloat.ltb (area_clamped raw) e && negb nz); cbn [fst].
  { split; [reflexivity | lra]. }
  destruct (PrimFloat.ltb (PrimFloat.sub pi4 e) (area_clamped raw) && nz); cbn [fst].
  { split; [reflexivity | lra]. }
  split; auto.
Qed.

(** which branch decided *)
Theorem area_decide_branch : forall raw e nz,
  let r := area_decide raw e nz in
  (snd r = 1%Z -> fst r = pi4 /\ nz = false /\ PrimFloat.ltb (area_clamped raw) e = true)
  /\ (snd r = 2%Z -> fst r = 0%float /\ nz = true /\ PrimFloat.ltb (PrimFloat.sub pi4 e) (area_clamped raw) = true)
  /\ (snd r = 0%Z -> fst r = area_clamped raw)
  /\ (snd r = 0 \/ snd r = 1 \/ snd r = 2)%Z.
Proof.
  intros raw e nz. cbv zeta. rewrite area_decide_unfold. cbv zeta.
  destruct (PrimFloat.ltb (area_clamped raw) e) eqn:A; destruct nz; cbn [andb negb fst snd];
  destruct (PrimFloat.ltb (PrimFloat.sub pi4 e) (area_clamped raw)) eqn:B; cbn [andb fst snd];
  repeat split; intros; try discriminate; auto.
Qed.

(** The decision is consistent with IsNormalized: a loop that is NOT normalized never gets an
    area below maxError, a normalized loop never gets an area above 4*pi - maxError. *)
Theorem area_decide_consistent : forall raw e nz, nonnan raw -> nonnan e ->
  PrimFloat.leb e pi4 = true -> nonnan (PrimFloat.sub pi4 e) -> PrimFloat.leb 0 (PrimFloat.sub pi4 e) = true ->
  let a := fst (area_decide raw e nz) in
  (nz = false -> PrimFloat.ltb a e = false) /\ (nz = true -> PrimFloat.ltb (PrimFloat.sub pi4 e) a = false).
Proof.
  intros raw e nz Hr He Hle Hs Hs0. cbv zeta. rewrite area_decide_unfold. cbv zeta.
  pose proof (area_clamped_range raw Hr) as (Na & Ra). pose proof nn0. pose proof nnpi4.
  split; intros ->; cbn [negb andb].
  - rewrite andb_true_r, andb_false_r.
    destruct (PrimFloat.ltb (area_clamped raw) e) eqn:A; cbn [fst].
    + float_cmp_to_R. lra.
    + exact A.
  - rewrite andb_false_r, andb_true_r.
    destruct (PrimFloat.ltb (PrimFloat.sub pi4 e) (area_clamped raw)) eqn:B; cbn [fst].
    + float_cmp_to_R. lra.
    + exact B.
Qed.

(** the premises about [e] hold for the error bound of every loop of practical size *)
Example area_decide_consistent_ex :
  let e := turningAngleMaxError (mk_loop (repeat zero_point 1000) false 0 0%float) in
  nonnan e /\ PrimFloat.leb e pi4 = true /\ nonnan (PrimFloat.sub pi4 e) /\ PrimFloat.leb 0 (PrimFloat.sub pi4 e) = true.
Proof. vm_compute. auto. Qed.

(** * Lifted to Loop.Area *)
Section Loop.
Variable rs : sign_fn.

Theorem loop_area_range : forall l,
  nonnan (surfaceIntegralFloat64 (SignedArea rs) l) ->
  nonnan (Area rs l) /\ rank 0%float <= rank (Area rs l) <= rank pi4.
Proof.
  intros l Hr. unfold Area, Area_branch. pose proof rank_0_lt_pi4.
  destruct (is_empty_or_full l).
  - destruct (lp_origin_inside l); cbn [fst]; split; try reflexivity; lra.
  - apply area_decide_range. exact Hr.
Qed.

Definition err_ok (l : loop) : Prop :=
  let e := turningAngleMaxError l in
  nonnan e /\ PrimFloat.leb e pi4 = true /\ nonnan (PrimFloat.sub pi4 e) /\ PrimFloat.leb 0 (PrimFloat.sub pi4 e) = true.

Theorem loop_area_consistent_with_IsNormalized : forall l,
  is_empty_or_full l = false -> nonnan (surfaceIntegralFloat64 (SignedArea rs) l) -> err_ok l ->
  (IsNormalized rs l = false -> PrimFloat.ltb (Area rs l) (turningAngleMaxError l) = false)
  /\ (IsNormalized rs l = true -> PrimFloat.ltb (PrimFloat.sub pi4 (turningAngleMaxError l)) (Area rs l) = false).
Proof.
  intros l Hne Hr (He & Hle & Hs & Hs0). unfold Area, Area_branch. rewrite Hne.
  apply area_decide_consistent; assumption.
Qed.

(** A degenerate sliver and its inverse: whichever of the two is normalized gets an area that is
    not near 4*pi, the other one an area that is not near 0 — the pair is {~0, ~4*pi} exactly
    as IsNormalized (the Gauss-Bonnet sign) says. *)
Theorem degenerate_pair_consistent : forall l l',
  is_empty_or_full l = false -> is_empty_or_full l' = false ->
  nonnan (surfaceIntegralFloat64 (SignedArea rs) l) -> nonnan (surfaceIntegralFloat64 (SignedArea rs) l') ->
  err_ok l -> err_ok l' ->
  IsNormalized rs l = true -> IsNormalized rs l' = false ->
  PrimFloat.ltb (PrimFloat.sub pi4 (turningAngleMaxError l)) (Area rs l) = false
  /\ PrimFloat.ltb (Area rs l') (turningAngleMaxError l') = false.
Proof.
  intros l l' Hne Hne' Hr Hr' He He' Hn Hn'.
  split.
  - apply (proj2 (loop_area_consistent_with_IsNormalized l Hne Hr He)). exact Hn.
  - apply (proj1 (loop_area_consistent_with_IsNormalized l' Hne' Hr' He')). exact Hn'.
Qed.

(** * Polygon: signed sums over shells and holes *)
Lemma Sign_depth_parity l : Sign l = if Z.even (lp_depth l) then 1%Z else (-1)%Z.
Proof. unfold Sign, IsHole. rewrite <- Z.negb_even. destruct (Z.even (lp_depth l)); reflexivity. Qed.

Lemma Sign_neg_IsHole l : (Sign l <? 0)%Z = IsHole l.
Proof. unfold Sign. destruct (IsHole l); reflexivity. Qed.

Lemma PolygonArea_snoc ls l :
  PolygonArea rs (ls ++ [l]) = PrimFloat.add (PolygonArea rs ls) (PrimFloat.mul (float_of_Z (Sign l)) (Area rs l)).
Proof. unfold PolygonArea. rewrite fold_left_app. reflexivity. Qed.

Lemma PolygonArea_nil : PolygonArea rs [] = 0%float.
Proof. reflexivity. Qed.

(** the contribution of a loop: +1*Area for a shell (even depth), the exact negation for a hole *)
Lemma signed_term l y :
  PrimFloat.mul (float_of_Z (Sign l)) y =
  if Z.even (lp_depth l) then PrimFloat.mul 1 y else PrimFloat.opp (PrimFloat.mul 1 y).
Proof.
  rewrite Sign_depth_parity. destruct (Z.even (lp_depth l)).
  - reflexivity.
  - rewrite float_of_Z_m1, fmul_opp_l. reflexivity.
Qed.

Theorem polygon_signed_sum : forall ls,
  PolygonArea rs ls =
  fold_left (fun acc l => PrimFloat.add acc (if Z.even (lp_depth l) then PrimFloat.mul 1 (Area rs l)
                                             else PrimFloat.opp (PrimFloat.mul 1 (Area rs l)))) ls 0%float.
Proof.
  intros ls. unfold PolygonArea. apply C18_Cyclic.fold_left_ext2; [|reflexivity].
  intros a l. rewrite signed_term. reflexivity.
Qed.
End Loop.

Lemma PolygonCentroid_snoc ls l :
  s2_Point_Vector (PolygonCentroid (ls ++ [l])) =
  if IsHole l then r3_Vector_Sub (s2_Point_Vector (PolygonCentroid ls)) (s2_Point_Vector (Centroid l))
  else r3_Vector_Add (s2_Point_Vector (PolygonCentroid ls)) (s2_Point_Vector (Centroid l)).
Proof.
  unfold PolygonCentroid. cbn [s2_Point_Vector]. rewrite fold_left_app. cbn [fold_left].
  rewrite Sign_neg_IsHole. reflexivity.
Qed.

Theorem polygon_centroid_signed_sum : forall ls,
  s2_Point_Vector (PolygonCentroid ls) =
  fold_left (fun u l => if Z.odd (lp_depth l) then r3_Vector_Sub u (s2_Point_Vector (Centroid l))
                        else r3_Vector_Add u (s2_Point_Vector (Centroid l))) ls (mk_r3_Vector 0 0 0).
Proof.
  intros ls. unfold PolygonCentroid. cbn [s2_Point_Vector].
  apply C18_Cyclic.fold_left_ext2; [|reflexivity].
  intros u l. rewrite Sign_neg_IsHole. reflexivity.
Qed.
