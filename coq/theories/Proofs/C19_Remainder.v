(** C19: math.Remainder(x, 2*pi) as defined in Base/GoPrim.v (IEEE-754 remainder) is exact:
    x minus an integer multiple of 2*pi, of magnitude at most pi, and the identity on [-pi,pi].
    This discharges the hypothesis H_REMAINDER of Proofs/C19_S1_Expanded.v, so the Expanded
    theorems are closed. *)
From Coq Require Import ZArith Reals Floats Lra Lia Bool Psatz.
From Flocq Require Import Core.Core IEEE754.BinarySingleNaN IEEE754.PrimFloat.
From Geo Require Import Base.GoPrim Base.F64 Base.F64Arith Gen.S1 Proofs.C19_S1 Proofs.C19_S1_ExpArc Proofs.C19_S1_Expanded.
Local Open Scope Z_scope.

Lemma rhe_spec p q : 0 < q ->
  2 * Z.abs (p - round_half_even p q * q) <= q /\ (2 * Z.abs p <= q -> round_half_even p q = 0).
Proof.
  intros Hq. unfold round_half_even.
  pose proof (Z.div_mod p q ltac:(lia)) as D. pose proof (Z.mod_pos_bound p q Hq) as B.
  set (f := p / q) in *. set (r := p mod q) in *.
  destruct (2 * (p - f * q) <? q) eqn:C1; [apply Z.ltb_lt in C1|apply Z.ltb_ge in C1].
  { split; [lia|]. intros Hs. nia. }
  destruct (q <? 2 * (p - f * q)) eqn:C2; [apply Z.ltb_lt in C2|apply Z.ltb_ge in C2].
  { split; [nia|]. intros Hs. nia. }
  assert (T : 2 * (p - f * q) = q) by lia.
  destruct (Z.even f) eqn:Ev.
  - split; [lia|]. intros Hs.
    assert (f = 0 \/ f = -1) by nia. destruct H as [->| ->]; [reflexivity|discriminate].
  - split; [nia|]. intros Hs.
    assert (f = 0 \/ f = -1) by nia. destruct H as [->| ->]; [discriminate|reflexivity].
Qed.

Lemma valid_bounds x s m e : Prim2SF x = S754_finite s m e ->
  Z.pos m < 2 ^ 53 /\ -1074 <= e.
Proof.
  intros H. pose proof (Prim2SF_valid x) as V. rewrite H in V. simpl in V.
  unfold SpecFloat.bounded in V. apply andb_true_iff in V. destruct V as [C _].
  unfold SpecFloat.canonical_mantissa in C. apply Zeq_bool_eq in C.
  rewrite Digits.Zpos_digits2_pos in C.
  pose proof (Digits.Zdigits_correct radix2 (Z.pos m)) as D. simpl Z.abs in D.
  unfold SpecFloat.fexp, SpecFloat.emin, emax, prec in C.
  set (d := Digits.Zdigits radix2 (Z.pos m)) in *.
  assert (d <= 53) by lia. split; [|lia].
  destruct D as [_ D]. eapply Z.lt_le_trans; [exact D|].
  change (Zpower radix2 d) with (2 ^ d). apply Z.pow_le_mono_r; lia.
Qed.

Local Open Scope R_scope.

Lemma fozs R e : (Z.abs R < 2 ^ 53)%Z -> (-1074 <= e)%Z ->
  Rabs (F2R (Float radix2 R e)) <= 8 ->
  fin (float_of_Z_scaled R e) /\ RV (float_of_Z_scaled R e) = F2R (Float radix2 R e).
Proof.
  intros HR He Hb. unfold float_of_Z_scaled. rewrite binary_normalize_equiv.
  change (SF2Prim (B2SF ?b)) with (B2Prim b). unfold fin, RV. rewrite Prim2B_B2Prim.
  pose proof (binary_normalize_correct prec emax Hprec Hmax mode_NE R e false) as C.
  cbv zeta in C.
  change (round radix2 (SpecFloat.fexp prec emax) (round_mode mode_NE)) with rnd in C.
  rewrite (rnd_repr _ (repr_F2R R e HR He)) in C.
  rewrite Rlt_bool_true in C.
  - destruct C as [Cv [Cf _]]. split; assumption.
  - eapply Rle_lt_trans; [exact Hb|]. change 8 with (bpow radix2 3). apply bpow_lt. reflexivity.
Qed.

Definition MY : positive := 7074237752028440%positive.
Lemma twopi_sf : Prim2SF TWOPI = S754_finite false MY (-50). Proof. reflexivity. Qed.

Lemma remainder_exact : H_REMAINDER.
Proof.
  intros x Fx. cbv zeta. unfold go_remainder.
  pose proof (fin_nonnan x Fx) as Nx. unfold nonnan in Nx. rewrite Nx.
  change (go_isnan TWOPI) with false. cbn [orb]. rewrite twopi_sf.
  assert (Qp : 0 < qpi) by (unfold qpi; lra).
  destruct (Prim2SF x) as [s|s| |sx mx ex] eqn:Px.
  - (* zero *)
    assert (Z0 : RV x = 0) by (unfold RV, Prim2B; rewrite B2R_SF2B, Px; reflexivity).
    split; [exact Fx|]. split; [lra|]. split; [exists 0%Z; lra|intros; reflexivity].
  - exfalso. unfold fin, Prim2B in Fx. rewrite is_finite_SF2B, Px in Fx. discriminate.
  - exfalso. unfold fin, Prim2B in Fx. rewrite is_finite_SF2B, Px in Fx. discriminate.
  - destruct (valid_bounds x sx mx ex Px) as [Bm Be].
    set (e := Z.min ex (-50)).
    set (c := ((if sx then -1 else 1) * Z.pos mx)%Z).
    set (X := (c * 2 ^ (ex - e))%Z).
    set (Y := (Z.pos MY * 2 ^ (-50 - e))%Z).
    set (n := round_half_even X Y). set (Rz := (X - n * Y)%Z).
    assert (Ee : (e <= ex /\ e <= -50 /\ -1074 <= e)%Z) by (unfold e; lia).
    assert (Ypos : (0 < Y)%Z) by (unfold Y; apply Z.mul_pos_pos; [reflexivity|apply Z.pow_pos_nonneg; lia]).
    destruct (rhe_spec X Y Ypos) as [S1 S2]. fold n in S1, S2. fold Rz in S1.
    (* values *)
    set (bx := bpow radix2 e). assert (Bx : 0 < bx) by apply bpow_gt_0.
    assert (VX : RV x = IZR X * bx).
    { rewrite (lit_RV x sx mx ex Px).
      replace (cond_Zopp sx (Z.pos mx)) with c by (unfold c; destruct sx; reflexivity).
      rewrite (F2R_change_exp radix2 e c ex) by lia. reflexivity. }
    assert (VT : 2 * qpi = IZR Y * bx).
    { rewrite <- twopi_val. rewrite (lit_RV TWOPI false MY (-50) twopi_sf).
      change (cond_Zopp false (Z.pos MY)) with (Z.pos MY).
      rewrite (F2R_change_exp radix2 e (Z.pos MY) (-50)) by lia. reflexivity. }
    assert (VR : IZR Rz * bx = RV x - IZR n * (2 * qpi)).
    { rewrite VX, VT. unfold Rz. rewrite minus_IZR, mult_IZR. ring. }
    assert (BR : - qpi <= IZR Rz * bx <= qpi).
    { assert (A : 2 * Rabs (IZR Rz) <= IZR Y).
      { rewrite <- abs_IZR. rewrite <- mult_IZR. apply IZR_le. exact S1. }
      unfold Rabs in A. destruct (Rcase_abs (IZR Rz)); nra. }
    assert (ID : - qpi <= RV x <= qpi -> n = 0%Z).
    { intros I. apply S2. apply le_IZR. rewrite mult_IZR, abs_IZR.
      rewrite VX in I. unfold Rabs. destruct (Rcase_abs (IZR X)); nra. }
    (* the integer is small enough to be a float *)
    assert (SR : (Z.abs Rz < 2 ^ 53)%Z).
    { assert (My : (2 ^ 52 <= Z.pos MY < 2 ^ 53)%Z) by (unfold MY; lia).
      destruct (Z_le_gt_dec (-50) ex) as [G|G].
      - assert (e = -50)%Z by (unfold e; lia). unfold Y in S1. rewrite H in S1.
        change (2 ^ (-50 - -50))%Z with 1%Z in S1. lia.
      - assert (He : e = ex) by (unfold e; lia).
        assert (XX : X = c) by (unfold X; rewrite He, Z.sub_diag; change (2 ^ 0)%Z with 1%Z; lia).
        assert (Cb : (Z.abs c < 2 ^ 53)%Z) by (unfold c; destruct sx; lia).
        destruct (Z.eq_dec n 0) as [N0|N0].
        + unfold Rz. rewrite N0, XX. lia.
        + assert (Big : (Y < 2 * Z.abs X)%Z) by (destruct (Z_lt_le_dec Y (2 * Z.abs X)); [assumption|exfalso; apply N0; apply S2; lia]).
          assert (K : (-50 - e <= 1)%Z).
          { destruct (Z_le_gt_dec (-50 - e) 1); [assumption|exfalso].
            assert (2 ^ 2 <= 2 ^ (-50 - e))%Z by (apply Z.pow_le_mono_r; lia).
            unfold Y in Big. rewrite XX in Big. nia. }
          assert (Y2 : (Y <= Z.pos MY * 2)%Z).
          { unfold Y. apply Z.mul_le_mono_nonneg_l; [lia|].
            change 2%Z with (2 ^ 1)%Z at 2. apply Z.pow_le_mono_r; lia. }
          lia. }
    assert (B8 : Rabs (F2R (Float radix2 Rz e)) <= 8).
    { unfold F2R. cbn [Fnum Fexp]. fold bx.
      apply Rabs_le.
      revert BR.
      unfold qpi.
      generalize (IZR Rz * bx).
      intros v BR.
      lra. }
    assert (Res : forall r, fin r -> RV r = IZR Rz * bx ->
      fin r /\ - qpi <= RV r <= qpi /\ (exists k : Z, RV r = RV x - IZR k * (2 * qpi)) /\
      (- qpi <= RV x <= qpi -> RV r = RV x)).
    { intros r Fr Er. split; [exact Fr|]. rewrite Er. split; [exact BR|]. split; [exists n; exact VR|].
      intros I. rewrite VR, (ID I). change (IZR 0) with 0. ring. }
    destruct (Rz =? 0)%Z eqn:RZ.
    + apply Z.eqb_eq in RZ.
      destruct sx.
      * assert (Q : RV (-0)%float = 0) by (unfold RV, Prim2B; rewrite B2R_SF2B; reflexivity).
        apply Res; [reflexivity|]. rewrite RZ, Q. change (IZR 0) with 0. ring.
      * apply Res; [exact zero_fin|]. rewrite RZ, zero_RV. change (IZR 0) with 0. ring.
    + destruct (fozs Rz e SR ltac:(lia) B8) as [Fr Er].
      apply Res; [exact Fr|]. rewrite Er. reflexivity.
Qed.

(** * s1.Interval.Expanded: closed theorems, every valid interval, every non-NaN margin >= 0 *)
Theorem s1_expanded_valid i m : valid_s1 i -> nonnan m -> 0 <= rank m ->
  valid_s1 (s1_Interval_Expanded i m).
Proof. exact (s1_expanded_valid_under_H remainder_exact i m). Qed.

Theorem s1_expanded_sound i m x : valid_s1 i -> nonnan m -> 0 <= rank m ->
  inrange x -> mem_s1 i x -> mem_s1 (s1_Interval_Expanded i m) x.
Proof. exact (s1_expanded_sound_under_H remainder_exact i m x). Qed.

(** exactly the premise C19_s1_expanded_sound of Proofs/C10_Rect.v *)
Corollary C19_s1_expanded_sound : forall i m, valid_s1 i -> nonnan m -> (0 <= rank m < top) ->
  valid_s1 (s1_Interval_Expanded i m) /\
  forall x, inrange x -> mem_s1 i x -> mem_s1 (s1_Interval_Expanded i m) x.
Proof. intros i m V Nm [H0 _]. exact (s1_expanded_sound_any_margin remainder_exact i m V Nm H0). Qed.
