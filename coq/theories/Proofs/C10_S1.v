(** The s1.Interval lemmas C10 builds on.  They were developed for C19; since Proofs/C19_S1*.v
    landed this file is only a re-export (it used to be a snapshot). *)
From Geo Require Export Proofs.C19_S1 Proofs.C19_S1_Union.
